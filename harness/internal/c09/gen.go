package c09

import (
	"fmt"
	"runtime"
	"strconv"
	"strings"
	"sync"

	"verif/harness/internal/core"
)

// chooser generates a schedule while it runs: it looks at the running case (which requests
// are parked inside a backend, whether a configuration is loaded, which backends are down) and
// picks a step that is possible now, so that generated schedules are long and valid.  The
// chosen steps are recorded; the protocol line is their concatenation and replays to the
// same answer because every step waits for the implementation to come to rest.
type chooser struct {
	rng    *core.Rand
	max    int
	timed  bool // windows of a few ticks and T steps
	wild   int  // 0 = always possible steps; n>0: one step in n is not checked for possibility
	bad    bool // loads that fail in Provision may occur
	ph     bool // every dial address is a request placeholder
	areal  bool // a configuration whose active checks the schedule drives was loaded
	afull  bool // …one of them with expectations about the answer (expect_status / expect_body / max_size / headers)
	bg     bool // a configuration with free-running background checks was loaded
	dyn    bool // a configuration with a dynamic source was loaded
	lat    bool // a configuration with unhealthy_latency was loaded: no clock steps from now on
	slow   int  // slow answers used (they cost real time)
	n      int
	ticks  int
	loaded bool
}

func (c *chooser) keys(K int) []int {
	r := c.rng
	n := 1 + r.Intn(K)
	if r.Chance(1, 6) {
		n = 1 + r.Intn(K+1)
	}
	var ks []int
	if r.Chance(3, 4) {
		// a rotation of distinct keys
		start := r.Intn(K)
		for i := 0; i < n && i < K; i++ {
			ks = append(ks, (start+i)%K)
		}
	} else {
		for i := 0; i < n; i++ {
			ks = append(ks, r.Intn(K)) // duplicates allowed
		}
	}
	return ks
}

func keysText(ks []int) string {
	p := make([]string, len(ks))
	for i, k := range ks {
		p[i] = strconv.Itoa(k)
	}
	return strings.Join(p, ".")
}

func (c *chooser) loadStep(K int) string {
	r := c.rng
	p := 1
	if r.Chance(1, 8) {
		p = 0
	}
	d := longD
	switch {
	case c.timed:
		d = 1 + r.Intn(3)
	case r.Chance(1, 8):
		d = 0
	}
	m := r.Intn(4)
	if r.Chance(1, 10) {
		m = 4 + r.Intn(3)
	}
	rt := 0
	if r.Chance(2, 3) {
		rt = 1 + r.Intn(3)
	}
	q := 0
	if r.Chance(1, 4) {
		q = 1 + r.Intn(2)
	}
	s := 0
	if r.Chance(2, 5) {
		s = 1 + r.Intn(7)
	}
	text := fmt.Sprintf("L:%s:%d:%d:%d:%d:%d:%d", keysText(c.keys(K)), p, d, m, rt, q, s)
	if r.Chance(1, 6) {
		c.dyn = true
		if r.Chance(1, 2) {
			return "Y" + text[1:] + ":" + keysText(c.keys(K)) // …with static upstreams to fall back to
		}
		return "Y" + text[1:] // the same options, upstreams from a dynamic source
	}
	if !c.timed && c.ticks == 0 && p == 1 && r.Chance(1, 10) {
		c.lat = true
		return text + fmt.Sprintf(":%d:1", r.Intn(3)) // unhealthy_latency configured
	}
	if !c.ph && !c.bg && r.Chance(1, 5) {
		// active health checks the schedule drives (H / K steps): distinct addresses
		n := 1 + r.Intn(K)
		start := r.Intn(K)
		var ks []int
		for i := 0; i < n; i++ {
			ks = append(ks, (start+i)%K)
		}
		c.areal = true
		text := fmt.Sprintf("L:%s:%d:%d:%d:%d:%d:%d:0:%d", keysText(ks), p, d, m, rt, q, s, 4+r.Intn(4))
		if r.Chance(1, 2) {
			// …with expectations about the answer: expect_status, expect_body, max_size, headers
			es := 0
			if r.Chance(2, 3) {
				es = expectPick[r.Intn(len(expectPick))]
			}
			eb, mx, hd := 0, 0, 0
			if r.Chance(1, 2) {
				eb = 1
			}
			if r.Chance(1, 3) {
				mx = []int{1, 2, 3, 64}[r.Intn(4)]
			}
			if r.Chance(1, 2) {
				hd = 1
			}
			c.afull = true
			text += fmt.Sprintf(":%d:%d:%d:%d", es, eb, mx, hd)
		}
		return text
	}
	if r.Chance(1, 6) {
		return text + fmt.Sprintf(":%d:8", r.Intn(3)) // stream_close_delay not set
	}
	if !c.ph && !c.areal && r.Chance(1, 12) {
		c.bg = true
		return text + fmt.Sprintf(":%d:2", r.Intn(3)) // active health checks run in the background
	}
	if r.Chance(1, 8) {
		text += fmt.Sprintf(":%d", 1+r.Intn(3)) // the first upstream has its own max_requests
	}
	return text
}

var expectPick = []int{2, 2, 3, 4, 5, 200, 201, 301, 403, 404, 503}
var probeStatusPick = []int{200, 200, 201, 301, 404, 503}

var answerPick = []string{"ok", "ok", "e5", "e5", "c404", "c429", "c502", "c503", "rst", "rst", "rst", "rst", "rst", "hup", "pan", "her"}

func (c *chooser) next(k *kase) (step, bool) {
	if c.n >= c.max {
		return step{}, false
	}
	c.n++
	r := c.rng
	text := ""
	var parked []int
	for _, q := range k.reqs {
		if q.parked {
			parked = append(parked, q.id)
		}
	}
	live := k.cur != nil && !k.cur.canceled
	switch {
	case c.wild > 0 && r.Chance(1, c.wild):
		// not checked for possibility: may make the whole line bad-op
		switch r.Intn(5) {
		case 0:
			text = fmt.Sprintf("O:%d:%s", r.Intn(len(k.reqs)+2), r.Pick(answerPick))
		case 1:
			text = fmt.Sprintf("A:%d", r.Intn(len(k.reqs)+2))
		case 2:
			text = "N:G"
		case 3:
			text = fmt.Sprintf("D:%d", r.Intn(k.K))
		default:
			text = fmt.Sprintf("U:%d", r.Intn(k.K))
		}
	case !c.loaded:
		text = c.loadStep(k.K)
		c.loaded = true
	default:
		for text == "" {
			x := r.Intn(100)
			if c.timed && x >= 64 && x < 82 {
				x = 95 // more clock steps in timed cases
			}
			switch {
			case x < 30:
				if live && len(parked) < 5 {
					text = "N:" + r.Pick([]string{"G", "G", "G", "P", "P", "W"})
					if c.ph && r.Chance(1, 3) {
						text = fmt.Sprintf("N:%s:%d:%d", r.Pick([]string{"G", "P"}), r.Intn(k.K), 1+r.Intn(3))
					}
				}
			case x < 58:
				if len(parked) > 0 {
					rid := parked[r.Intn(len(parked))]
					out := r.Pick(answerPick)
					if k.reqs[rid].streaming {
						out = "se"
					} else if k.reqs[rid].ws && r.Chance(1, 2) {
						out = "wu"
					} else if r.Chance(1, 9) {
						out = "sb"
					}
					if q := k.reqs[rid]; !q.streaming && out != "sb" && out != "wu" && q.cfg.st.lat && q.cfg.st.p && c.slow < 2 && r.Chance(1, 3) {
						out = "sl"
						c.slow++
					}
					text = fmt.Sprintf("O:%d:%s", rid, out)
				}
			case x < 64:
				if len(parked) > 0 {
					text = fmt.Sprintf("A:%d", parked[r.Intn(len(parked))])
				}
			case x < 69:
				key := r.Intn(k.K)
				if k.backends[key].srv != nil {
					text = fmt.Sprintf("D:%d", key)
				} else {
					text = fmt.Sprintf("U:%d", key)
				}
			case x < 78 && c.areal && live && k.cur.st.areal:
				if r.Chance(1, 2) {
					text = "K"
				} else if c.afull && r.Chance(2, 3) {
					status, body, needs := probeStatusPick[r.Intn(len(probeStatusPick))], r.Intn(3), r.Intn(2)
					if r.Chance(1, 2) {
						// an answer the loaded handler is content with (upstreams come back up)
						switch e := k.cur.st.aExp; {
						case e == 0 || e == 2 || e == 403:
							status = 200 + r.Intn(2)
						case e < 100:
							status = map[int]int{3: 301, 4: 404, 5: 503}[e]
						default:
							status = e
						}
						body = 1 + r.Intn(2)
						if !k.cur.st.aHdr {
							needs = 0
						}
						if k.cur.st.aExp == 403 || (k.cur.st.aExp == 4 && r.Chance(1, 2)) {
							needs = 1 // a 403 comes only from an endpoint that misses its header
						}
					}
					text = fmt.Sprintf("H:%d:%d:%d:%d", r.Intn(k.K), status, body, needs)
				} else {
					key := r.Intn(k.K)
					if k.backends[key].hbad.Load() {
						text = fmt.Sprintf("H:%d:1", key)
					} else {
						text = fmt.Sprintf("H:%d:0", key)
					}
				}
			case x < 74 && c.dyn:
				if k.srcFails.Load() {
					text = "E:0"
				} else {
					text = "E:1"
				}
			case x < 82:
				text = c.loadStep(k.K)
			case x < 85:
				if c.bad {
					text = "B:" + keysText(c.keys(k.K))
				}
			case x < 87:
				if live {
					text = "C"
				}
			default:
				if (c.timed || x < 89) && c.ticks < 90 && !c.lat {
					n := 1 + r.Intn(2)
					if !c.timed {
						n = 1 + r.Intn(5)
					}
					c.ticks += n
					text = fmt.Sprintf("T:%d", n)
				}
			}
		}
	}
	st, ok := parseStep(text, k.K)
	if !ok {
		panic("c09 generator produced a malformed step: " + text)
	}
	st.text = text
	return st, true
}

type genCase struct {
	line string
	out  core.Outcome
}

// mutate damages a valid line (the malformed stream).
func mutate(r *core.Rand, line string) string {
	b := []byte(line)
	switch r.Intn(6) {
	case 0: // drop a byte
		i := r.Intn(len(b))
		b = append(b[:i], b[i+1:]...)
	case 1: // replace a byte
		b[r.Intn(len(b))] = "LBCNOADUT:;.0179x "[r.Intn(18)]
	case 2: // duplicate a separator
		i := r.Intn(len(b))
		b = append(b[:i], append([]byte{";:. "[r.Intn(4)]}, b[i:]...)...)
	case 3: // truncate
		b = b[:r.Intn(len(b))]
	case 4: // unknown op
		return "sched 2 L:0:1:100:1:0:0:0;X:1"
	default: // numbers out of range / leading zeros
		return r.Pick([]string{"sched 7 L:0:1:100:1:0:0:0", "sched 2 L:2:1:100:1:0:0:0", "sched 2 L:0:1:100:1:9:0:0",
			"sched 2 L:00:1:100:1:0:0:0", "sched 2 L:0:2:100:1:0:0:0", "sched 2 T:51", "sched 2 T:50;T:50", "sched 0 C",
			"sched 2", "sched", "sched 2 L:0:1:100:1:0:0:3", "sched 2 L::1:100:1:0:0:0", "frob 1 2", "sched 2 T:0"})
	}
	if strings.ContainsAny(string(b), "\n\r") {
		return line
	}
	return strings.TrimSpace(string(b))
}

func (p *prop) Generate(rng *core.Rand, tier string, emit func(string)) {
	if err := p.init(); err != nil {
		emit("sched 1 L:0:1:100:1:0:0:0") // reports harness-infra
		return
	}
	nPlain, nTimed, nBad, nStress := 6000, 400, 300, 45
	maxLen := 26
	switch tier {
	case "thorough":
		nPlain, nTimed, nBad, nStress = 60000, 3000, 3000, 400
		maxLen = 40
	case "search":
		nPlain, nTimed, nBad, nStress = 8000, 500, 0, 80
		maxLen = 32
	}
	emit("static defer")
	type job struct {
		idx   int
		rng   *core.Rand
		timed bool
		wild  int
	}
	var jobs []job
	for i := 0; i < nPlain+nTimed; i++ {
		j := job{idx: i, rng: rng.Fork(), timed: i%((nPlain+nTimed)/nTimed) == 0}
		if !j.timed && i%23 == 0 {
			j.wild = 12
		}
		jobs = append(jobs, j)
	}
	results := make([]genCase, len(jobs))
	workers := runtime.NumCPU()
	if workers > 16 {
		workers = 16
	}
	if workers < 2 {
		workers = 2
	}
	var wg sync.WaitGroup
	ch := make(chan job)
	for w := 0; w < workers; w++ {
		wg.Add(1)
		go func() {
			defer wg.Done()
			for j := range ch {
				if p.failed.Load() >= enoughFailures {
					continue
				}
				r := j.rng
				K := 1 + r.Intn(3)
				if r.Chance(1, 10) {
					K = 4 + r.Intn(2)
				}
				c := &chooser{rng: r, max: 3 + r.Intn(maxLen), timed: j.timed, wild: j.wild, bad: r.Chance(1, 2)}
				if j.timed {
					c.max = 4 + r.Intn(14)
				}
				cf := r.Chance(1, 3)
				ph := !cf && !j.timed && r.Chance(1, 7)
				c.ph = ph
				out, steps := p.execSched(K, c, 0, cf, ph)
				line := schedLine(K, steps, cf)
				if ph {
					line = "schedph" + line[len("sched"):]
				}
				results[j.idx] = genCase{line: line, out: out}
			}
		}()
	}
	for _, j := range jobs {
		ch <- j
	}
	close(ch)
	wg.Wait()
	mr := rng.Fork()
	for i, g := range results {
		if g.line == "" {
			continue // skipped after enough failures
		}
		p.cache.Store(g.line, g.out)
		emit(g.line)
		if nBad > 0 && i%(len(results)/nBad+1) == 0 {
			emit(mutate(mr, g.line))
		}
	}
	sr := rng.Fork()
	for i := 0; i < nStress && p.failed.Load() < enoughFailures; i++ {
		op := "stress"
		if i%3 == 2 {
			op = "stressdyn"
		}
		emit(fmt.Sprintf("%s %d %d", op, 2+sr.Intn(47), sr.Intn(9000)))
	}
}
