// Package c09: upstream in-flight and failure accounting stays exact under concurrency.
//
// One case = one forced schedule driven against the REAL reverse_proxy handler
// (provisioned from JSON through caddy.NewContext + Context.LoadModuleByID, real
// HTTPTransport, real unix-socket backends that park every request until the schedule
// says what happens to it).  After every step the harness waits until the handler
// goroutine it moved is parked again (at a backend) or has returned, lets every
// forgetter that is due (window elapsed / its configuration was unloaded) run, and takes
// a snapshot of the real Host counters, Upstream.Available()/Healthy() and the `hosts`
// usage pool.  The snapshots are the canonical answer compared with the Lean model
// (lean/CaddyModel/C09); the oracle (oracle.go) evaluates the property on the
// implementation alone: counter events never negative (verif hook in
// Host.countRequest/countFail), in-flight == requests the harness holds inside the
// backend, fails == shadow window, Healthy() == shadow window < max_fails, every counter
// zero at quiescence, Host object preserved while some loaded configuration uses it.
//
// Protocol (fields separated by one space):
//
//	sched <K> <step>;<step>;…      K = number of backend addresses (1..6)
//	schedph <K> <step>;…           the same, but every upstream's dial address is a request placeholder
//	                               ({http.request.header.X-V<case>-<key>}) that each request fills in through
//	                               a header of its own; only here a request may carry an undialable value
//	                               (N:<G|P>:<k>:<b>); no active health checks (modes 2..7)
//	stress <N> <seed>              un-forced concurrency: N requests with scripted fates at once plus a
//	                               concurrent reload (stress.go); answer = the interleaving-independent totals
//	                               `n= ok= err= panic= inc= dec= fail= forget= end=<in-flight>/<fails>`
//	static defer                   the syntactic premise of dec_on_every_exit, checked on the source the
//	                               harness was built from (stress.go: runStatic); answer `defer-ok`
//
// Every handler is provisioned with selection policy `first`, keep-alive off, handle_response
// routes for the probe handler, and — when retries > 0 — try_interval 4ms, so that tryAgain of
// an already unloaded configuration takes its ctx.Done() branch (no retry).
//
// steps:
//
//	L:<keys>:<p>:<d>:<m>:<r>:<q>:<s>  load a configuration (provision new, then unload the old one)
//	                                  keys = key.key.… (upstream order, duplicates allowed)
//	                                  p passive health checks present (0/1); d fail_duration in
//	                                  ticks (0 unset, ≥100 = longer than any case); m max_fails
//	                                  (0 unset); r retries; q unhealthy_request_count (0 unset);
//	                                  s number of unhealthy_status entries matching 500 (0..2)
//	B:<keys>                          a load that fails in Provision before the upstreams are set up (its Cleanup must not touch the pool)
//	C                                 unload the current configuration (no successor)
//	N:<G|P>                           new GET / POST request on the current configuration
//	N:<G|P>:<k>:<b>                   (schedph) a request whose dial placeholder of upstream k expands to a
//	                                  named port (b=1), a port range (2), malformed unix permission bits (3):
//	                                  when k is selected, fillDialInfo fails, the request is answered with an
//	                                  error without being sent, and no counter may move
//	O:<r>:<ok|e5|rst|hup|pan|her>     backend's answer to parked request r: 200 | 500 | close
//	                                  without answering | close in mid-body | 200 + response
//	                                  handler panics | 200 + response handler returns an error
//	A:<r>                             the client of parked request r goes away
//	D:<k> / U:<k>                     backend k stops / resumes listening (dial refused)
//	T:<n>                             n ticks pass
//
// Answer: one token per step plus a final one, separated by spaces:
//
//	<ev>[<n>/<f>,…][<obj><a|u|f>,…][<obj>x<refs>|-,…]
//
// ev: L | B | C | - | P<key> (request parked at backend key) | ok | err | panic (handler
// returned nil / an error / panicked); first bracket: numRequests/fails of every Host object
// in order of allocation; second: the current configuration's upstreams (object id +
// available / unhealthy / full); third: per key the pool's Host object and usage count.
// The final token is `end[…]` after all clients went away and every configuration was unloaded.
package c09

import (
	"bufio"
	"context"
	"encoding/json"
	"fmt"
	"net"
	"net/http"
	"net/http/httptest"
	"os"
	"path/filepath"
	"strconv"
	"strings"
	"sync"
	"sync/atomic"
	"time"

	"github.com/caddyserver/caddy/v2"
	"github.com/caddyserver/caddy/v2/caddyconfig/caddyfile"
	"github.com/caddyserver/caddy/v2/modules/caddyhttp"
	"github.com/caddyserver/caddy/v2/modules/caddyhttp/reverseproxy"

	"verif/harness/internal/core"
)

// unhealthy_latency of configurations that have one, and how long the answer `sl` takes.
const (
	latencyLimit = 150 * time.Millisecond
	slowAnswer   = 250 * time.Millisecond
)

const longD = 100 // fail_duration ≥ longD ticks never elapses inside a case

// enoughFailures: once this many generated cases have failed the oracle the run stops
// generating (the check needs one failing input, not ten thousand slow ones).
const enoughFailures = 40

// ---------------------------------------------------------------- probe module

// Probe is the response handler used in handle_response routes.
type Probe struct {
	Mode string `json:"mode,omitempty"`
}

func (Probe) CaddyModule() caddy.ModuleInfo {
	return caddy.ModuleInfo{ID: "http.handlers.verif_c09_probe", New: func() caddy.Module { return new(Probe) }}
}

func (p Probe) ServeHTTP(w http.ResponseWriter, r *http.Request, next caddyhttp.Handler) error {
	if p.Mode == "panic" {
		panic("verif c09: response handler panics")
	}
	return fmt.Errorf("verif c09: response handler fails")
}

// ---------------------------------------------------------------- process-wide state

type prop struct {
	once    sync.Once
	base    caddy.Context
	baseErr error
	root    string
	cache   sync.Map // line -> core.Outcome, filled by Generate's worker pool
	nextDir atomic.Int64
	alone   sync.RWMutex // see execSched
	slow    atomic.Int64 // cases in which a due forgetter did not run / a request hung
	failed  atomic.Int64 // cases with an oracle failure
	stats   struct {
		sync.Mutex
		retimed int
		raced   int
		cases   int
	}
}

func New() core.Prop { return &prop{} }

func (*prop) ID() string { return "C09" }

var hostReg sync.Map // *reverseproxy.Host -> *kase

// Hosts that a loop iteration with dynamic upstreams allocates are only known to the harness once
// the step is over; what happens to them before is kept here and replayed at registration.
type pendingEvent struct {
	kind, delta int
	result      int64
}

var (
	pendMu  sync.Mutex
	pending = map[*reverseproxy.Host][]pendingEvent{}
)

func countHook(h *reverseproxy.Host, kind int, delta int, result int64) {
	if v, ok := hostReg.Load(h); ok {
		v.(*kase).onCount(h, kind, delta, result)
		return
	}
	pendMu.Lock()
	if v, ok := hostReg.Load(h); ok {
		pendMu.Unlock()
		v.(*kase).onCount(h, kind, delta, result)
		return
	}
	if len(pending) > 20000 {
		pending = map[*reverseproxy.Host][]pendingEvent{}
	}
	pending[h] = append(pending[h], pendingEvent{kind, delta, result})
	pendMu.Unlock()
}

// register makes Host h an object of case k (caller holds no lock) and replays its earlier events.
func (k *kase) register(h *reverseproxy.Host) int {
	k.mu.Lock()
	idx, ok := k.objIdx[h]
	if ok {
		k.mu.Unlock()
		return idx
	}
	idx = len(k.objs)
	k.objs = append(k.objs, h)
	k.objIdx[h] = idx
	k.forgetsSeen = append(k.forgetsSeen, 0)
	k.dueTotal = append(k.dueTotal, 0)
	k.mu.Unlock()
	pendMu.Lock()
	hostReg.Store(h, k)
	evs := pending[h]
	delete(pending, h)
	pendMu.Unlock()
	for _, e := range evs {
		k.onCount(h, e.kind, e.delta, e.result)
	}
	return idx
}

// DynSource is a dynamic upstream source (module http.reverse_proxy.upstreams.verif_c09): like the
// shipped sources it returns brand-new Upstream values for its addresses on every call.
type DynSource struct {
	Dials []string `json:"dials,omitempty"`
}

func (DynSource) CaddyModule() caddy.ModuleInfo {
	return caddy.ModuleInfo{ID: "http.reverse_proxy.upstreams.verif_c09", New: func() caddy.Module { return new(DynSource) }}
}

var dynReg sync.Map // first dial address -> *kase

type dynCall struct {
	rid    int
	ups    []*reverseproxy.Upstream
	failed bool // the source returned an error: the iteration uses the static upstreams
}

func (d DynSource) GetUpstreams(r *http.Request) ([]*reverseproxy.Upstream, error) {
	if len(d.Dials) > 0 {
		if v, ok := dynReg.Load(d.Dials[0]); ok && v.(*kase).srcFails.Load() {
			k := v.(*kase)
			rid, _ := strconv.Atoi(r.Header.Get("X-Rid"))
			k.mu.Lock()
			k.dynCalls = append(k.dynCalls, dynCall{rid: rid, failed: true})
			k.mu.Unlock()
			return nil, fmt.Errorf("verif c09: the dynamic upstream source fails")
		}
	}
	ups := make([]*reverseproxy.Upstream, len(d.Dials))
	for i, a := range d.Dials {
		ups[i] = &reverseproxy.Upstream{Dial: a}
	}
	if len(d.Dials) > 0 {
		if v, ok := dynReg.Load(d.Dials[0]); ok {
			k := v.(*kase)
			rid, _ := strconv.Atoi(r.Header.Get("X-Rid"))
			k.mu.Lock()
			k.dynCalls = append(k.dynCalls, dynCall{rid: rid, ups: ups})
			k.mu.Unlock()
		}
	}
	return ups, nil
}

// registerDynHosts gives object numbers to the Hosts the loop iterations since the last step
// allocated, in the order fillHost allocated them.
func (k *kase) registerDynHosts() {
	k.mu.Lock()
	calls := k.dynCalls[k.dynSeen:]
	k.dynSeen = len(k.dynCalls)
	k.mu.Unlock()
	for _, c := range calls {
		for _, u := range c.ups {
			if u.Host != nil {
				k.register(u.Host)
			}
		}
	}
}

// reqObj: the Host object request r (parked at backend r.at) is being sent to.
func (k *kase) reqObj(r *reqSt) int {
	if !r.cfg.st.dyn {
		return r.cfg.objOfKey(r.at)
	}
	k.mu.Lock()
	defer k.mu.Unlock()
	for i := len(k.dynCalls) - 1; i >= 0; i-- {
		if k.dynCalls[i].rid != r.id {
			continue
		}
		if k.dynCalls[i].failed {
			return r.cfg.objOfKey(r.at)
		}
		for _, u := range k.dynCalls[i].ups {
			if u.Dial == k.dial(r.at) && u.Host != nil {
				if idx, ok := k.objIdx[u.Host]; ok {
					return idx
				}
			}
		}
		break
	}
	return -1
}

func (p *prop) init() error {
	p.once.Do(func() {
		caddy.RegisterModule(Probe{})
		caddy.RegisterModule(DynSource{})
		reverseproxy.VerifSetCountHook(countHook)
		if err := os.MkdirAll("/verif/.run", 0o755); err != nil {
			p.baseErr = err
			return
		}
		p.root, p.baseErr = os.MkdirTemp("/verif/.run", "c09-")
		if p.baseErr != nil {
			return
		}
		cfg := &caddy.Config{
			Admin: &caddy.AdminConfig{Disabled: true},
			Logging: &caddy.Logging{Logs: map[string]*caddy.CustomLog{
				"default": {BaseLog: caddy.BaseLog{WriterRaw: json.RawMessage(`{"output":"discard"}`)}},
			}},
		}
		p.base, p.baseErr = caddy.ProvisionContext(cfg)
		if p.baseErr == nil {
			// reverse_proxy's Provision asks for the events app; Context.App loads it lazily into
			// the configuration's app table, which is not safe to do from several cases at once:
			// load it here, once, so that later lookups only read
			_, p.baseErr = p.base.App("events")
		}
	})
	return p.baseErr
}

// Finish removes the private directory (called by core.Main).
func (p *prop) Finish(s *core.Session) {
	if p.root != "" {
		os.RemoveAll(p.root)
	}
	p.stats.Lock()
	if s.Meta.Extra == nil {
		s.Meta.Extra = map[string]any{}
	}
	s.Meta.Extra["cases_run"] = p.stats.cases
	s.Meta.Extra["cases_rerun_with_longer_tick"] = p.stats.retimed
	s.Meta.Extra["cases_rerun_after_scheduler_noise_in_tryAgain"] = p.stats.raced
	p.stats.Unlock()
}

// ---------------------------------------------------------------- case syntax

type step struct {
	text   string
	op     byte
	keys   []int
	p      bool
	d      int
	m      int
	r      int
	q      int
	s      int
	x      int   // max_requests of the first upstream (0 = not set)
	dyn    bool  // Y step: the upstreams come from a dynamic source
	skeys  []int // Y step: static upstreams (fallback while the source fails)
	ws     bool  // N step: the request asks for a protocol upgrade (websocket)
	badKey int   // N step: the upstream whose dial placeholder this request cannot fill ...
	badB   int   // ... and how: 1 named port, 2 port range, 3 malformed unix permission bits (0 = all placeholders fine)
	fail   bool  // E step: the source starts (true) / stops failing
	lat    bool  // passive unhealthy_latency configured (latencyLimit)
	act    bool  // active health checks run every few milliseconds (thresholds out of reach: they must not change anything)
	closeS bool  // stream_close_delay not set: Cleanup closes upgraded connections at once
	areal  bool  // active health checks driven by K steps, thresholds aP / aF
	aP, aF int
	hok    bool // H step: the health endpoint passes (true) / fails
	// active expectations of an L step with 14 fields (healthchecks.go ActiveHealthChecks):
	aExp  int  // expect_status (0 = not set; < 100 = a class)
	aBody bool // expect_body `^UP`
	aMax  int  // max_size (0 = not set)
	aHdr  bool // headers: X-Verif-Hc: yes
	// H step with 5 fields: the health endpoint scripted in full
	hfull  bool
	hstat  int
	hbody  int  // 0 "DOWN", 1 "UP", 2 "UPDATE"
	hneeds bool // answers 403 without the header X-Verif-Hc: yes
	get    bool
	rid    int
	out    string
	key    int
	n      int
}

// num parses a strict decimal: digits only, no leading zero, at most 4 digits.
func num(s string) (int, bool) {
	if len(s) == 0 || len(s) > 4 || (len(s) > 1 && s[0] == '0') {
		return 0, false
	}
	n := 0
	for i := 0; i < len(s); i++ {
		if s[i] < '0' || s[i] > '9' {
			return 0, false
		}
		n = n*10 + int(s[i]-'0')
	}
	return n, true
}

func parseKeys(s string, K int) ([]int, bool) {
	if s == "" {
		return nil, false
	}
	var out []int
	for _, f := range strings.Split(s, ".") {
		k, ok := num(f)
		if !ok || k >= K {
			return nil, false
		}
		out = append(out, k)
	}
	return out, len(out) <= 8
}

var outcomes = map[string]bool{"ok": true, "sb": true, "se": true, "wu": true, "sl": true, "e5": true, "c404": true, "c429": true, "c502": true, "c503": true,
	"rst": true, "hup": true, "pan": true, "her": true}

// answerStatus: the status code of a complete answer (0 = the answer token is something else).
func answerStatus(out string) int {
	switch out {
	case "ok", "sb", "sl", "hup", "pan", "her": // sl: a 200 that takes longer than unhealthy_latency; hup/pan/her: a 200 whose body breaks off / whose response handler panics / fails
		return 200
	case "wu": // 101 Switching Protocols
		return 101
	case "e5":
		return 500
	case "c404", "c429", "c502", "c503":
		n, _ := strconv.Atoi(out[1:])
		return n
	}
	return 0
}

// statusTable: the unhealthy_status lists a load step can choose from (same table in Driver.lean).
var statusTable = [][]int{nil, {500}, {500, 5}, {5}, {502, 404}, {4, 429, 503}, {50}, {200, 2}}

// the expect_status values of an L step / the statuses and bodies of a scripted health endpoint
// (same tables in Driver.lean)
var expectTable = map[int]bool{0: true, 2: true, 3: true, 4: true, 5: true, 200: true, 201: true, 301: true, 403: true, 404: true, 503: true}
var probeStatusTable = map[int]bool{200: true, 201: true, 301: true, 404: true, 503: true}
var probeBodies = []string{"DOWN", "UP", "UPDATE"}

// probe: what a scripted health endpoint answers
type probe struct {
	status int
	body   string
	needs  bool
}

func parseStep(s string, K int) (st step, ok bool) {
	f := strings.Split(s, ":")
	if len(f[0]) != 1 {
		return st, false
	}
	st.op = f[0][0]
	switch st.op {
	case 'L', 'Y':
		if len(f) == 14 && st.op == 'L' {
			// fields 11..14: what the active checks driven by the schedule expect of an answer
			es, ok1 := num(f[10])
			eb, ok2 := num(f[11])
			mx, ok3 := num(f[12])
			hd, ok4 := num(f[13])
			l, okl := num(f[9])
			if !ok1 || !ok2 || !ok3 || !ok4 || !okl || l < 4 || l > 7 || !expectTable[es] || eb > 1 || mx > 100 || hd > 1 {
				return st, false
			}
			st.aExp, st.aBody, st.aMax, st.aHdr = es, eb == 1, mx, hd == 1
			f = f[:10]
		}
		if len(f) != 8 && !((len(f) == 9 || len(f) == 10) && st.op == 'L') && !(len(f) == 9 && st.op == 'Y') {
			return st, false
		}
		st.dyn = st.op == 'Y'
		if st.op == 'Y' && len(f) == 9 {
			// ninth field of Y: static upstreams the handler falls back to while the source fails
			var oks bool
			st.skeys, oks = parseKeys(f[8], K)
			if !oks {
				return st, false
			}
		}
		if len(f) == 10 {
			// tenth field: 1 = unhealthy_latency configured, 2 = active health checks running in
			// the background, 3 = both (then the ninth field may be 0)
			x, okx := num(f[8])
			l, okl := num(f[9])
			if !okx || !okl || x > 100 || l < 1 || l > 8 {
				return st, false
			}
			if l <= 3 {
				st.x, st.lat, st.act = x, l == 1 || l == 3, l >= 2
			} else if l == 8 {
				// 8: stream_close_delay is not set (the default): unloading the configuration closes
				// its upgraded connections at once
				st.x, st.closeS = x, true
			} else {
				// 4..7: active health checks driven round by round by the schedule (K steps), with
				// passes = 1 + (l-4)/2 and fails = 1 + (l-4)%2; one Host per check: distinct addresses
				st.x, st.areal, st.aP, st.aF = x, true, 1+(l-4)/2, 1+(l-4)%2
			}
		}
		if len(f) == 9 && st.op == 'L' {
			var okx bool
			st.x, okx = num(f[8])
			if !okx || st.x < 1 || st.x > 100 {
				return st, false
			}
		}
		var o [7]bool
		st.keys, o[0] = parseKeys(f[1], K)
		var pv int
		pv, o[1] = num(f[2])
		st.p = pv == 1
		st.d, o[2] = num(f[3])
		st.m, o[3] = num(f[4])
		st.r, o[4] = num(f[5])
		st.q, o[5] = num(f[6])
		st.s, o[6] = num(f[7])
		for _, b := range o {
			if !b {
				return st, false
			}
		}
		if st.areal {
			seen := map[int]bool{}
			for _, key := range st.keys {
				if seen[key] {
					return st, false
				}
				seen[key] = true
			}
		}
		return st, pv <= 1 && st.r <= 8 && st.s <= 7 && st.m <= 100 && st.q <= 100
	case 'B':
		if len(f) != 2 {
			return st, false
		}
		st.keys, ok = parseKeys(f[1], K)
		return st, ok
	case 'C':
		return st, len(f) == 1
	case 'N':
		if len(f) == 4 {
			// N:<G|P>:<k>:<b>: the dial placeholder of upstream k expands, for this request, to a
			// named port (1), a port range (2), a unix socket with malformed permission bits (3)
			kk, ok1 := num(f[2])
			b, ok2 := num(f[3])
			if !ok1 || !ok2 || kk >= K || b < 1 || b > 3 || (f[1] != "G" && f[1] != "P") {
				return st, false
			}
			st.get, st.badKey, st.badB = f[1] == "G", kk, b
			return st, true
		}
		if len(f) != 2 || (f[1] != "G" && f[1] != "P" && f[1] != "W") {
			return st, false
		}
		st.get = f[1] != "P"
		st.ws = f[1] == "W" // a GET that asks for a protocol upgrade
		return st, true
	case 'O':
		if len(f) != 3 || !outcomes[f[2]] {
			return st, false
		}
		st.rid, ok = num(f[1])
		st.out = f[2]
		return st, ok
	case 'A':
		if len(f) != 2 {
			return st, false
		}
		st.rid, ok = num(f[1])
		return st, ok
	case 'E':
		if len(f) != 2 || (f[1] != "0" && f[1] != "1") {
			return st, false
		}
		st.fail = f[1] == "1"
		return st, true
	case 'H':
		if len(f) == 5 {
			// H:<k>:<status>:<body>:<hdr>: the health endpoint scripted in full
			var o1, o2, o3, o4 bool
			st.key, o1 = num(f[1])
			st.hstat, o2 = num(f[2])
			st.hbody, o3 = num(f[3])
			var hd int
			hd, o4 = num(f[4])
			st.hfull, st.hneeds = true, hd == 1
			return st, o1 && o2 && o3 && o4 && st.key < K && probeStatusTable[st.hstat] && st.hbody <= 2 && hd <= 1
		}
		if len(f) != 3 || (f[2] != "0" && f[2] != "1") {
			return st, false
		}
		st.key, ok = num(f[1])
		st.hok = f[2] == "1"
		return st, ok && st.key < K
	case 'K':
		return st, len(f) == 1
	case 'D', 'U':
		if len(f) != 2 {
			return st, false
		}
		st.key, ok = num(f[1])
		return st, ok && st.key < K
	case 'T':
		if len(f) != 2 {
			return st, false
		}
		st.n, ok = num(f[1])
		return st, ok && st.n >= 1 && st.n <= 50
	}
	return st, false
}

// phRules: requests with an undialable placeholder exist only in `schedph` schedules; active
// health checks (modes 2..7) cannot use placeholder addresses.
func phRules(steps []step, ph bool) bool {
	for _, st := range steps {
		if st.op == 'N' && st.badB != 0 && !ph {
			return false
		}
		if ph && (st.op == 'L') && (st.act || st.areal) {
			return false
		}
	}
	return true
}

func parseSched(f []string) (K int, steps []step, ok bool) {
	if len(f) != 3 {
		return 0, nil, false
	}
	K, ok = num(f[1])
	if !ok || K < 1 || K > 6 {
		return 0, nil, false
	}
	parts := strings.Split(f[2], ";")
	if len(parts) > 200 {
		return 0, nil, false
	}
	ticks := 0
	for _, s := range parts {
		st, ok := parseStep(s, K)
		if !ok {
			return 0, nil, false
		}
		st.text = s
		ticks += st.n
		steps = append(steps, st)
	}
	lat := false
	bg, real := false, false
	for _, st := range steps {
		lat = lat || (st.lat && st.p)
		bg = bg || st.act
		real = real || st.areal
	}
	if bg && real {
		// free-running background checks would move the active counters of the shared Hosts
		// by an unknown amount: they cannot be mixed with checks the schedule drives
		return 0, nil, false
	}
	// with unhealthy_latency no time may pass: how long a request stays parked would decide
	// whether its round trip counts as slow
	return K, steps, ticks <= 99 && !(lat && ticks > 0)
}

// splitFields splits a protocol line the way the Lean driver does (single spaces, empty fields dropped).
func splitFields(line string) []string {
	var out []string
	for _, f := range strings.Split(line, " ") {
		if f != "" {
			out = append(out, f)
		}
	}
	return out
}

// stepSource yields the next step of a schedule: a parsed line (replay) or the generator,
// which looks at the running case to choose a step that is possible now.
type stepSource interface {
	next(k *kase) (step, bool)
}

type replaySource struct {
	steps []step
	i     int
}

func (r *replaySource) next(*kase) (step, bool) {
	if r.i >= len(r.steps) {
		return step{}, false
	}
	r.i++
	return r.steps[r.i-1], true
}

// ---------------------------------------------------------------- one running case

type cfgGen struct {
	id       int
	st       step
	maxFails int
	h        *reverseproxy.Handler
	cancel   context.CancelFunc
	canceled bool
	objs     []int  // object id of every upstream
	adown    []bool // shadow: upstream marked down by the active checker
}

type reqSt struct {
	id        int
	cfg       *cfgGen
	cancel    context.CancelFunc
	parked    bool
	at        int // backend key while parked
	cmd       chan string
	done      bool
	since     time.Time // when it was parked
	w         *syncWriter
	ws        bool   // it asked for a protocol upgrade
	wsOpen    bool   // …and its upgraded connection is open
	streaming bool   // header and first part of the body have arrived, the rest is pending
	aged      bool   // it was already parked while a slow answer was being waited for: its round trip is slow too
	errText   string // the error ServeHTTP returned
}

type reqEvent struct {
	rid     int
	arrived bool
	key     int
	cmd     chan string
	result  string
	errText string
}

type backend struct {
	k      *kase
	key    int
	path   string
	l      net.Listener
	srv    *http.Server
	old    []*http.Server
	health atomic.Int64 // active health checks served
	hbad   atomic.Bool  // the scripted health endpoint fails
	probe  atomic.Pointer[probe] // the health endpoint scripted in full (wins over hbad)
	moved  atomic.Bool // a health check followed the endpoint's redirect
}

type shadowFail struct {
	obj int
	cfg *cfgGen
	t0  int
	due bool
}

type kase struct {
	p        *prop
	dir      string
	K        int
	ph       bool  // every dial address is a request placeholder (schedph)
	id       int64 // unique per case in this process
	U        time.Duration
	anchor   time.Time
	tick     int
	late     bool
	backends []*backend
	cfgs     []*cfgGen
	cur      *cfgGen
	prev     *cfgGen // configuration replaced by the last L step (nil if there was none)
	reqs     []*reqSt
	ev       chan reqEvent

	mu          sync.Mutex
	cond        *sync.Cond
	objs        []*reverseproxy.Host
	objIdx      map[*reverseproxy.Host]int
	forgetsSeen []int
	newFails    []int // object ids of +1 fail events not yet attributed
	negative    []string
	nEvents     int
	tally       [4]int // countRequest +1 / -1, countFail +1 / -1 events
	maxInflight int64
	arrived     sync.Map // stress: request id -> chan struct{} closed when the backend has the request

	shadow         []*shadowFail
	dueTotal       []int
	failures       []core.Failure
	tags           map[string]bool
	done           []step    // steps executed so far
	lastAged       bool      // the request moved by the last O step was aged
	lastCounted    int       // failures counted during the last step
	forgetTimedOut bool      // a due forgetter did not run within the settle wait
	cf             bool      // configurations are delivered as Caddyfile where possible
	dynCalls       []dynCall // every GetUpstreams call of the dynamic source, in order (under mu)
	dynSeen        int
	srcFails       atomic.Bool // the dynamic source answers with an error
	aPass, aFail   map[int]int // shadow of Host.activePasses / activeFails per object
	raced          bool        // see the O/A step: a retry that only scheduler noise makes possible
	infra          string
}

func (k *kase) onCount(h *reverseproxy.Host, kind int, delta int, result int64) {
	k.mu.Lock()
	idx, ok := k.objIdx[h]
	if ok {
		k.nEvents++
		if result < 0 {
			k.negative = append(k.negative, fmt.Sprintf("obj%d kind%d delta%+d -> %d", idx, kind, delta, result))
		}
		if kind == 0 && result > k.maxInflight {
			k.maxInflight = result
		}
		if delta > 0 {
			k.tally[2*kind]++
		} else {
			k.tally[2*kind+1]++
		}
		if kind == 1 {
			if delta > 0 {
				k.newFails = append(k.newFails, idx)
			} else {
				k.forgetsSeen[idx]++
			}
		}
		k.cond.Broadcast()
	}
	k.mu.Unlock()
}

func (k *kase) sock(key int) string { return filepath.Join(k.dir, fmt.Sprintf("h%d.sock", key)) }

// dial is the dial address of upstream `key` as configured: the socket itself, or — in a `schedph`
// schedule — a request placeholder that every request of the case fills in through a header of
// its own (good: the socket; undialable: a named port, a port range, malformed permission bits).
func (k *kase) dial(key int) string {
	if k.ph {
		return "{http.request.header." + k.dialHeader(key) + "}"
	}
	return "unix/" + k.sock(key)
}

func (k *kase) dialHeader(key int) string { return fmt.Sprintf("X-V%d-%d", k.id, key) }

func (b *backend) up() error {
	l, err := net.Listen("unix", b.path)
	if err != nil {
		return err
	}
	b.l = l
	b.srv = &http.Server{Handler: b}
	go b.srv.Serve(l)
	return nil
}

// down stops listening (dials are refused from now on); connections that are already
// established — requests parked in this backend — stay open until teardown.
func (b *backend) down() {
	if b.srv != nil {
		b.l.Close()
		b.old = append(b.old, b.srv)
		b.srv, b.l = nil, nil
	}
}

func (b *backend) closeAll() {
	b.down()
	for _, s := range b.old {
		s.Close()
	}
	b.old = nil
}

// curProbe: what the health endpoint answers now: as scripted in full, else 503 "DOWN" / 200 "UP"
func (b *backend) curProbe() probe {
	if p := b.probe.Load(); p != nil {
		return *p
	}
	if b.hbad.Load() {
		return probe{503, "DOWN", false}
	}
	return probe{200, "UP", false}
}

// activeVerdict: the oracle's own reading of healthchecks.go doActiveHealthCheck — would a check
// of a handler with the expectations of st against backend b pass now?
func activeVerdict(st *step, b *backend) bool {
	if b.srv == nil {
		return false // the request fails
	}
	pr := b.curProbe()
	code := pr.status
	if pr.needs && !st.aHdr {
		code = 403
	}
	if st.aExp > 0 {
		if !(code == st.aExp || (st.aExp < 100 && code/100 == st.aExp)) {
			return false
		}
	} else if code < 200 || code >= 300 {
		return false
	}
	if st.aBody {
		body := pr.body
		if st.aMax > 0 && len(body) > st.aMax {
			body = body[:st.aMax]
		}
		if !strings.HasPrefix(body, "UP") {
			return false
		}
	}
	return true
}

func (b *backend) ServeHTTP(w http.ResponseWriter, r *http.Request) {
	if r.URL.Path == "/verif-hc" {
		// an active health check of a configuration whose checks the schedule drives: the answer
		// is what the schedule last said for this backend
		pr := b.curProbe()
		status := pr.status
		if pr.needs && r.Header.Get("X-Verif-Hc") != "yes" {
			status = 403
		}
		if status == 301 {
			w.Header().Set("Location", "/verif-hc-moved")
		}
		w.Header().Set("Content-Length", strconv.Itoa(len(pr.body)))
		w.WriteHeader(status)
		w.Write([]byte(pr.body))
		return
	}
	if r.URL.Path == "/verif-hc-moved" {
		// only reached if the checker followed a redirect (follow_redirects is off: it must not)
		b.moved.Store(true)
		w.WriteHeader(200)
		w.Write([]byte("UP"))
		return
	}
	if r.URL.Path == "/verif-health" {
		// an active health check: answered at once, alternately passing and failing
		if b.health.Add(1)%2 == 0 {
			w.WriteHeader(503)
		}
		w.Write([]byte("health"))
		return
	}
	rid, err := strconv.Atoi(r.Header.Get("X-Rid"))
	if err != nil {
		w.WriteHeader(400)
		return
	}
	cmd := make(chan string, 1)
	b.k.ev <- reqEvent{rid: rid, arrived: true, key: b.key, cmd: cmd}
	var c string
	select {
	case c = <-cmd:
	case <-r.Context().Done():
		return
	case <-time.After(30 * time.Second):
		return
	}
	switch c {
	case "ok":
		w.Write([]byte("ok"))
	case "sl":
		time.Sleep(slowAnswer)
		w.Write([]byte("ok"))
	case "wu":
		// switch protocols and keep the connection open until told to close it (or the peer does)
		hj, ok := w.(http.Hijacker)
		if !ok {
			return
		}
		conn, _, err := hj.Hijack()
		if err != nil {
			return
		}
		conn.Write([]byte("HTTP/1.1 101 Switching Protocols\r\nConnection: Upgrade\r\nUpgrade: websocket\r\n\r\nx"))
		gone := make(chan struct{})
		go func() {
			buf := make([]byte, 16)
			for {
				if _, err := conn.Read(buf); err != nil {
					close(gone)
					return
				}
			}
		}()
		select {
		case <-cmd:
		case <-gone:
		case <-time.After(30 * time.Second):
		}
		conn.Close()
	case "sb":
		// stream: header and a first part now, the rest when told (or never, if the client goes away)
		w.Write([]byte("part"))
		if f, ok := w.(http.Flusher); ok {
			f.Flush()
		}
		select {
		case <-cmd:
			w.Write([]byte("rest"))
		case <-r.Context().Done():
		case <-time.After(30 * time.Second):
		}
	case "e5", "c404", "c429", "c502", "c503":
		w.WriteHeader(answerStatus(c))
		w.Write([]byte("no"))
	case "pan":
		w.Header().Set("X-Verif", "panic")
		w.Write([]byte("ok"))
	case "her":
		w.Header().Set("X-Verif", "err")
		w.Write([]byte("ok"))
	case "rst", "hup":
		hj, ok := w.(http.Hijacker)
		if !ok {
			return
		}
		conn, _, err := hj.Hijack()
		if err != nil {
			return
		}
		if c == "hup" {
			conn.Write([]byte("HTTP/1.1 200 OK\r\nContent-Type: text/plain\r\nContent-Length: 1000\r\n\r\npartial"))
		}
		conn.Close()
	}
}

func (k *kase) handlerJSON(st step, bad bool) []byte {
	ups := []any{}
	for i, key := range st.keys {
		u := map[string]any{"dial": k.dial(key)}
		if i == 0 && st.x > 0 {
			u["max_requests"] = st.x
		}
		ups = append(ups, u)
	}
	lb := map[string]any{"selection_policy": map[string]any{"policy": "first"}}
	if st.r > 0 {
		lb["retries"] = st.r
		// a positive interval makes tryAgain select between its timer and ctx.Done(): a handler
		// whose configuration is already unloaded deterministically stops retrying
		lb["try_interval"] = int64(4 * time.Millisecond)
	}
	m := map[string]any{
		"upstreams":      ups,
		"load_balancing": lb,
		"transport":      map[string]any{"protocol": "http", "keep_alive": map[string]any{"enabled": false}},
		// upgraded connections survive the unloading of their configuration for longer than any case
		// (unless the step says the option is not set, see below)
		"stream_close_delay": int64(time.Hour),
		"handle_response": []any{
			map[string]any{"match": map[string]any{"headers": map[string]any{"X-Verif": []string{"panic"}}},
				"routes": []any{map[string]any{"handle": []any{map[string]any{"handler": "verif_c09_probe", "mode": "panic"}}}}},
			map[string]any{"match": map[string]any{"headers": map[string]any{"X-Verif": []string{"err"}}},
				"routes": []any{map[string]any{"handle": []any{map[string]any{"handler": "verif_c09_probe", "mode": "err"}}}}},
		},
	}
	if st.closeS {
		delete(m, "stream_close_delay")
		k.tag("streams-closed-on-unload-configured")
	}
	if st.dyn {
		sups := []any{}
		for _, key := range st.skeys {
			sups = append(sups, map[string]any{"dial": k.dial(key)})
		}
		m["upstreams"] = sups
		if len(sups) == 0 {
			delete(m, "upstreams")
		}
		dials := []string{}
		for _, key := range st.keys {
			dials = append(dials, k.dial(key))
		}
		m["dynamic_upstreams"] = map[string]any{"source": "verif_c09", "dials": dials}
		dynReg.Store(dials[0], k)
	}
	if st.p {
		pa := map[string]any{}
		if st.d > 0 {
			pa["fail_duration"] = int64(k.realD(st.d))
		}
		if st.m > 0 {
			pa["max_fails"] = st.m
		}
		if st.q > 0 {
			pa["unhealthy_request_count"] = st.q
		}
		if st.s > 0 {
			pa["unhealthy_status"] = statusTable[st.s]
		}
		if st.lat {
			pa["unhealthy_latency"] = int64(latencyLimit)
		}
		m["health_checks"] = map[string]any{"passive": pa}
	}
	if st.areal && !st.dyn {
		// active health checks that the schedule drives: the ticker is out of reach (1 h), the
		// first round runs at Provision, further rounds on K steps
		hc, _ := m["health_checks"].(map[string]any)
		if hc == nil {
			hc = map[string]any{}
		}
		ac := map[string]any{"uri": "/verif-hc", "interval": int64(time.Hour), "timeout": int64(2 * time.Second)}
		// a threshold of 1 is the documented default: leave the field out, so that the defaulting
		// in ActiveHealthChecks.Provision is what sets it
		if st.aP != 1 {
			ac["passes"] = st.aP
		}
		if st.aF != 1 {
			ac["fails"] = st.aF
		}
		if st.aExp != 0 {
			ac["expect_status"] = st.aExp
			k.tag("active-expect-status")
		}
		if st.aBody {
			ac["expect_body"] = "^UP"
			k.tag("active-expect-body")
		}
		if st.aMax != 0 {
			ac["max_size"] = st.aMax
			k.tag("active-max-size")
		}
		if st.aHdr {
			ac["headers"] = map[string][]string{"x-verif-hc": {"yes"}} // canonicalised by Provision
			k.tag("active-headers")
		}
		hc["active"] = ac
		m["health_checks"] = hc
		k.tag("active-health-checks-modelled")
	}
	if st.act && !st.dyn {
		// active health checks against the same backends, every 8 ms, half of them failing; the
		// `fails` threshold is out of reach, so no upstream is ever marked down by them: whatever
		// they do must leave the in-flight / failure accounting and the pool alone
		hc, _ := m["health_checks"].(map[string]any)
		if hc == nil {
			hc = map[string]any{}
		}
		hc["active"] = map[string]any{"uri": "/verif-health", "interval": int64(8 * time.Millisecond),
			"timeout": int64(2 * time.Second), "passes": 1, "fails": 1000000000}
		m["health_checks"] = hc
		k.tag("active-health-checks-running")
	}
	if k.cf {
		// the same configuration written as a Caddyfile `reverse_proxy` block and parsed by the
		// real Handler.UnmarshalCaddyfile: option names, `5xx` classes, durations and defaults
		// travel through the adapter code instead of being set in JSON directly
		if cm, ok := k.viaCaddyfile(st); ok {
			cm["handle_response"] = m["handle_response"]
			m = cm
			k.tag("config-via-caddyfile")
		}
	}
	if bad {
		m["trusted_proxies"] = []string{"not-an-address"}
	}
	b, _ := json.Marshal(m)
	return b
}

// viaCaddyfile renders the load step as Caddyfile, runs the real parser and returns the handler
// as a JSON object; ok=false if the step cannot be written as Caddyfile (an upstream's own
// max_requests; passive checks present but with no option set).
func (k *kase) viaCaddyfile(st step) (map[string]any, bool) {
	if k.ph || st.dyn || st.act || st.x > 0 || (st.p && st.d == 0 && st.m == 0 && st.q == 0 && st.s == 0 && !st.lat) {
		return nil, false
	}
	var b strings.Builder
	b.WriteString("reverse_proxy {\n")
	for _, key := range st.keys {
		fmt.Fprintf(&b, "\tto %s\n", k.dial(key))
	}
	b.WriteString("\tlb_policy first\n")
	if st.r > 0 {
		fmt.Fprintf(&b, "\tlb_retries %d\n\tlb_try_interval 4ms\n", st.r)
	}
	if st.p {
		if st.d > 0 {
			fmt.Fprintf(&b, "\tfail_duration %s\n", k.realD(st.d).String())
		}
		if st.m > 0 {
			fmt.Fprintf(&b, "\tmax_fails %d\n", st.m)
		}
		if st.q > 0 {
			fmt.Fprintf(&b, "\tunhealthy_request_count %d\n", st.q)
		}
		if st.s > 0 {
			b.WriteString("\tunhealthy_status")
			for _, c := range statusTable[st.s] {
				if c < 10 {
					fmt.Fprintf(&b, " %dxx", c)
				} else {
					fmt.Fprintf(&b, " %d", c)
				}
			}
			b.WriteString("\n")
		}
		if st.lat {
			fmt.Fprintf(&b, "\tunhealthy_latency %s\n", latencyLimit.String())
		}
	}
	if st.areal {
		b.WriteString("\thealth_uri /verif-hc\n\thealth_interval 1h\n\thealth_timeout 2s\n")
		if st.aP != 1 {
			fmt.Fprintf(&b, "\thealth_passes %d\n", st.aP)
		}
		if st.aF != 1 {
			fmt.Fprintf(&b, "\thealth_fails %d\n", st.aF)
		}
		if st.aExp >= 100 {
			fmt.Fprintf(&b, "\thealth_status %d\n", st.aExp)
		} else if st.aExp > 0 {
			fmt.Fprintf(&b, "\thealth_status %dxx\n", st.aExp)
		}
		if st.aBody {
			b.WriteString("\thealth_body ^UP\n")
		}
		if st.aHdr {
			b.WriteString("\thealth_headers {\n\t\tX-Verif-Hc yes\n\t}\n")
		}
	}
	if !st.closeS {
		b.WriteString("\tstream_close_delay 1h\n")
	}
	b.WriteString("\ttransport http {\n\t\tkeepalive off\n\t}\n}\n")
	h := new(reverseproxy.Handler)
	if err := h.UnmarshalCaddyfile(caddyfile.NewTestDispenser(b.String())); err != nil {
		k.infra = "caddyfile: " + err.Error()
		return nil, false
	}
	raw, err := json.Marshal(h)
	if err != nil {
		k.infra = "caddyfile: " + err.Error()
		return nil, false
	}
	var m map[string]any
	if err := json.Unmarshal(raw, &m); err != nil {
		k.infra = "caddyfile: " + err.Error()
		return nil, false
	}
	if st.areal && st.aMax != 0 {
		// max_size has no Caddyfile subdirective: set on the adapted JSON
		if hc, _ := m["health_checks"].(map[string]any); hc != nil {
			if ac, _ := hc["active"].(map[string]any); ac != nil {
				ac["max_size"] = st.aMax
			}
		}
	}
	return m, true
}

// realD maps a window of d ticks to wall time: half a tick short, so that a snapshot taken in
// the first part of a tick sees exactly the failures the discrete clock says are in the window.
func (k *kase) realD(d int) time.Duration {
	if d >= longD {
		return time.Hour
	}
	return time.Duration(d)*k.U - k.U/2
}

func (k *kase) load(st step, bad bool) (ev string) {
	ctx, cancel := caddy.NewContext(k.p.base)
	mod, err := ctx.LoadModuleByID("http.handlers.reverse_proxy", k.handlerJSON(st, bad))
	if bad {
		cancel()
		if err == nil {
			return "L?"
		}
		return "B"
	}
	if err != nil {
		cancel()
		k.infra = "provision failed: " + err.Error()
		return "L!"
	}
	h := mod.(*reverseproxy.Handler)
	c := &cfgGen{id: len(k.cfgs), st: st, h: h, cancel: cancel, maxFails: st.m}
	if c.maxFails == 0 {
		c.maxFails = 1
	}
	for _, u := range h.Upstreams {
		c.objs = append(c.objs, k.register(u.Host))
	}
	k.cfgs = append(k.cfgs, c)
	old := k.cur
	k.cur = c
	k.prev = nil
	if old != nil {
		if !old.canceled {
			k.prev = old
		}
		k.unload(old)
	}
	c.adown = make([]bool, len(c.objs))
	if st.areal {
		k.activeRound(c) // the checker's first round, started by Provision
	}
	return "L"
}

// activeRound: the shadow of one round of active health checks of configuration c (written from
// healthchecks.go markHealthy / markUnhealthy: count the result on the Host; at the threshold,
// if the upstream's status changes, reset both active counters), then wait until the
// implementation shows exactly that.
func (k *kase) activeRound(c *cfgGen) {
	if k.aPass == nil {
		k.aPass, k.aFail = map[int]int{}, map[int]int{}
	}
	for i, o := range c.objs {
		key := c.st.keys[i]
		if k.backends[key].moved.Load() {
			k.fail("active-check-followed-redirect", fmt.Sprintf("follow_redirects is off, yet a health check of backend %d followed the 301 of its endpoint", key))
		}
		pass := activeVerdict(&c.st, k.backends[key])
		if pass != (k.backends[key].srv != nil && k.backends[key].curProbe().status/100 == 2) {
			k.tag("active-verdict-differs-from-plain-2xx")
		}
		if pass {
			k.aPass[o]++
			if k.aPass[o] >= c.st.aP && c.adown[i] {
				c.adown[i] = false
				k.aPass[o], k.aFail[o] = 0, 0
				k.tag("active-flip-up")
			}
		} else {
			k.aFail[o]++
			if k.aFail[o] >= c.st.aF && !c.adown[i] {
				c.adown[i] = true
				k.aPass[o], k.aFail[o] = 0, 0
				k.tag("active-flip-down")
			}
		}
	}
	deadline := time.Now().Add(5 * time.Second)
	for {
		okAll := true
		for i, u := range c.h.Upstreams {
			hs := u.VerifHostState()
			o := c.objs[i]
			if int(hs.ActivePasses) != k.aPass[o] || int(hs.ActiveFails) != k.aFail[o] || u.VerifActiveHealthy() == c.adown[i] {
				okAll = false
			}
		}
		if okAll {
			// the round is over; nothing may move any more.  (Once in ~66k cases a further failing
			// check was seen on a freshly provisioned upstream after the expected state had been
			// reached — not reproducible on replay; such a case is run again, and reported if it
			// keeps happening.)
			time.Sleep(300 * time.Microsecond)
			for i, u := range c.h.Upstreams {
				hs := u.VerifHostState()
				o := c.objs[i]
				if int(hs.ActivePasses) != k.aPass[o] || int(hs.ActiveFails) != k.aFail[o] || u.VerifActiveHealthy() == c.adown[i] {
					k.raced = true
				}
			}
			return
		}
		if time.Now().After(deadline) {
			for i, u := range c.h.Upstreams {
				hs := u.VerifHostState()
				o := c.objs[i]
				if int(hs.ActivePasses) != k.aPass[o] || int(hs.ActiveFails) != k.aFail[o] || u.VerifActiveHealthy() == c.adown[i] {
					k.fail("active-check-state-differs", fmt.Sprintf("after a round of active health checks upstream %d has passes=%d fails=%d activeHealthy=%v, expected passes=%d fails=%d activeHealthy=%v",
						i, hs.ActivePasses, hs.ActiveFails, u.VerifActiveHealthy(), k.aPass[o], k.aFail[o], !c.adown[i]))
				}
			}
			return
		}
		time.Sleep(200 * time.Microsecond)
	}
}

func (k *kase) unload(c *cfgGen) {
	if c.canceled {
		return
	}
	c.canceled = true
	c.cancel()
	if !c.st.closeS {
		return
	}
	// stream_close_delay is not set: Cleanup has closed the upgraded connections of this
	// configuration; their requests end now (in any order)
	pending := map[int]*reqSt{}
	for _, r := range k.reqs {
		if r.cfg == c && r.parked && r.streaming && r.wsOpen {
			pending[r.id] = r
		}
	}
	timeout := time.After(8 * time.Second)
	for len(pending) > 0 {
		select {
		case e := <-k.ev:
			r, ok := pending[e.rid]
			if !ok || e.arrived {
				k.infra = fmt.Sprintf("unexpected event for request %d while its configuration is being unloaded", e.rid)
				continue
			}
			if e.result != "ok" {
				k.fail("stream-closed-on-unload-did-not-end-normally", fmt.Sprintf("request %d: upgraded connection closed by Cleanup, handler returned %q", r.id, e.result))
			}
			r.parked, r.streaming, r.done = false, false, true
			delete(pending, e.rid)
			k.tag("stream-closed-on-unload")
		case <-timeout:
			for id := range pending {
				k.fail("stream-not-closed-on-unload", fmt.Sprintf("stream_close_delay is not set, the configuration was unloaded, but the upgraded connection of request %d is still open", id))
				pending[id].parked, pending[id].streaming, pending[id].done = false, false, true
				pending[id].cancel()
			}
			pending = map[int]*reqSt{}
		}
	}
}

func (k *kase) waitReq(r *reqSt) string {
	wait := 8 * time.Second
	if k.p.slow.Load() >= 3 {
		wait = time.Second
	}
	timeout := time.After(wait)
	for {
		select {
		case e := <-k.ev:
			if e.rid != r.id {
				k.infra = fmt.Sprintf("event for request %d while moving %d", e.rid, r.id)
				continue
			}
			if e.arrived {
				r.parked, r.at, r.cmd = true, e.key, e.cmd
				r.since = time.Now()
				r.aged = false
				return "P" + strconv.Itoa(e.key)
			}
			r.parked, r.done = false, true
			r.errText = e.errText
			return e.result
		case <-timeout:
			k.infra = fmt.Sprintf("request %d neither parked nor returned", r.id)
			k.p.slow.Add(1)
			r.parked, r.done = false, true
			return "hang"
		}
	}
}

// syncWriter is the ResponseWriter of a proxied request: like a recorder, but safe to watch from
// the controller, which needs to know when the first part of a streamed body has arrived.
type syncWriter struct {
	mu       sync.Mutex
	hdr      http.Header
	code     int
	n        int
	first    chan struct{}
	once     sync.Once
	cli      net.Conn      // client end of a hijacked (upgraded) connection
	hijacked chan struct{} // closed by Hijack
}

func newSyncWriter() *syncWriter {
	return &syncWriter{hdr: http.Header{}, first: make(chan struct{}), hijacked: make(chan struct{})}
}

func (w *syncWriter) Header() http.Header { return w.hdr }
func (w *syncWriter) WriteHeader(c int) {
	w.mu.Lock()
	if w.code == 0 {
		w.code = c
	}
	w.mu.Unlock()
}
func (w *syncWriter) Write(b []byte) (int, error) {
	w.mu.Lock()
	w.n += len(b)
	w.mu.Unlock()
	if len(b) > 0 {
		w.once.Do(func() { close(w.first) })
	}
	return len(b), nil
}
func (w *syncWriter) Flush() {}

// Hijack hands the handler one end of an in-memory connection; the harness keeps the other
// (the client of an upgraded connection).
func (w *syncWriter) Hijack() (net.Conn, *bufio.ReadWriter, error) {
	srv, cli := net.Pipe()
	w.mu.Lock()
	w.cli = cli
	w.mu.Unlock()
	close(w.hijacked)
	return srv, bufio.NewReadWriter(bufio.NewReader(srv), bufio.NewWriter(srv)), nil
}

func (k *kase) newReq(get, ws bool, badKey, badB int) string {
	c := k.cur
	r := &reqSt{id: len(k.reqs), cfg: c}
	k.reqs = append(k.reqs, r)
	method := "POST"
	if get {
		method = "GET"
	}
	ctx, cancel := context.WithCancel(context.Background())
	r.cancel = cancel
	req := httptest.NewRequest(method, "http://c09.test/r", nil).WithContext(ctx)
	req.Header.Set("X-Rid", strconv.Itoa(r.id))
	if k.ph {
		for key := 0; key < k.K; key++ {
			v := "unix/" + k.sock(key)
			if badB != 0 && key == badKey {
				switch badB {
				case 1:
					v = "backend.internal:http"
				case 2:
					v = "127.0.0.1:8000-8010"
				default:
					v += "|9" // permission bits that are no octal number
				}
			}
			req.Header.Set(k.dialHeader(key), v)
		}
	}
	if ws {
		r.ws = true
		req.Header.Set("Connection", "Upgrade")
		req.Header.Set("Upgrade", "websocket")
	}
	w := newSyncWriter()
	r.w = w
	repl := caddy.NewReplacer()
	req = caddyhttp.PrepareRequest(req, repl, w, &caddyhttp.Server{})
	go func() {
		res, errText := "ok", ""
		defer func() {
			if rec := recover(); rec != nil {
				res = "panic"
			}
			k.ev <- reqEvent{rid: r.id, result: res, errText: errText}
		}()
		err := c.h.ServeHTTP(w, req, caddyhttp.HandlerFunc(func(http.ResponseWriter, *http.Request) error { return nil }))
		if err != nil {
			res, errText = "err", err.Error()
		}
	}()
	return k.waitReq(r)
}

// settle attributes the failures counted during the step just executed to cfg c, marks the
// shadow entries that are due and waits until the implementation has forgotten those.
func (k *kase) settle(c *cfgGen) {
	k.registerDynHosts()
	k.mu.Lock()
	nf := k.newFails
	k.newFails = nil
	k.mu.Unlock()
	k.lastCounted = len(nf)
	for _, obj := range nf {
		if c == nil {
			k.fail("failure-counted-without-request", fmt.Sprintf("a failure was counted on object %d during a step that moves no request", obj))
			continue
		}
		k.shadow = append(k.shadow, &shadowFail{obj: obj, cfg: c, t0: k.tick})
	}
	for _, s := range k.shadow {
		if !s.due && (s.cfg.canceled || (s.cfg.st.d < longD && k.tick >= s.t0+s.cfg.st.d)) {
			s.due = true
			k.dueTotal[s.obj]++
			if s.cfg.canceled {
				k.tag("forgotten-on-unload")
			} else {
				k.tag("forgotten-after-window")
			}
		}
	}
	// a forgetter that is due runs within microseconds; wait generously, but once forgetters have
	// failed to show up the failure is established and there is no point in waiting long again
	wait := 4 * time.Second
	if k.p.slow.Load() >= 3 {
		wait = 150 * time.Millisecond
	}
	if k.forgetTimedOut {
		wait = 20 * time.Millisecond
	}
	deadline := time.Now().Add(wait)
	k.mu.Lock()
	for {
		ok := true
		for i := range k.dueTotal {
			if k.forgetsSeen[i] < k.dueTotal[i] {
				ok = false
			}
		}
		if ok {
			break
		}
		if time.Now().After(deadline) {
			if !k.forgetTimedOut {
				k.forgetTimedOut = true
				k.p.slow.Add(1)
			}
			break
		}
		k.mu.Unlock()
		time.Sleep(200 * time.Microsecond)
		k.mu.Lock()
	}
	k.mu.Unlock()
}

func (k *kase) pendingTimed() bool {
	for _, s := range k.shadow {
		if !s.due && s.cfg.st.d < longD {
			return true
		}
	}
	return false
}

func (k *kase) snapshot(ev string) string {
	var b strings.Builder
	b.WriteString(ev)
	b.WriteByte('[')
	for i, h := range k.objs {
		if i > 0 {
			b.WriteByte(',')
		}
		fmt.Fprintf(&b, "%d/%d", h.NumRequests(), h.Fails())
	}
	b.WriteString("][")
	if k.cur != nil && !k.cur.canceled {
		for i, u := range k.cur.h.Upstreams {
			if i > 0 {
				b.WriteByte(',')
			}
			c := "a"
			if !u.Healthy() {
				c = "u"
			} else if u.Full() {
				c = "f"
			}
			if (c == "a") != u.Available() {
				c = "?"
			}
			fmt.Fprintf(&b, "%d%s", k.cur.objs[i], c)
			if k.cur.st.areal {
				hs := u.VerifHostState()
				fmt.Fprintf(&b, ":%d/%d", hs.ActivePasses, hs.ActiveFails)
				if o := k.cur.objs[i]; int(hs.ActivePasses) != k.aPass[o] || int(hs.ActiveFails) != k.aFail[o] {
					// the active counters moved outside a round the schedule drove: run the case
					// again (it is reported if it keeps happening)
					k.raced = true
				}
			}
		}
	}
	b.WriteString("][")
	admin := k.adminView()
	for key := 0; key < k.K; key++ {
		if key > 0 {
			b.WriteByte(',')
		}
		h, refs, ok := reverseproxy.VerifHostsEntry(k.dial(key))
		av, aok := admin[k.dial(key)]
		if !ok {
			b.WriteByte('-')
			if aok {
				b.WriteString("!listed")
			}
			continue
		}
		k.mu.Lock()
		idx, known := k.objIdx[h]
		k.mu.Unlock()
		if known {
			fmt.Fprintf(&b, "%dx%d", idx, refs)
		} else {
			fmt.Fprintf(&b, "?x%d", refs)
		}
		// what GET /reverse_proxy/upstreams (the admin endpoint) reports for this address
		if aok {
			fmt.Fprintf(&b, ":%d/%d", av[0], av[1])
			if av[0] != h.NumRequests() || av[1] != h.Fails() {
				k.fail("admin-endpoint-misreports", fmt.Sprintf("GET /reverse_proxy/upstreams reports num_requests=%d fails=%d for key %d, the pooled Host has %d/%d", av[0], av[1], key, h.NumRequests(), h.Fails()))
			}
		} else {
			b.WriteString(":unlisted")
		}
	}
	b.WriteByte(']')
	return b.String()
}

var (
	adminOnce    sync.Once
	adminHandler caddy.AdminHandler
)

// adminView calls the real admin API handler of the reverse proxy (module admin.api.reverse_proxy,
// route /reverse_proxy/upstreams) and returns address -> (num_requests, fails).
func (k *kase) adminView() map[string][2]int {
	adminOnce.Do(func() {
		if mi, err := caddy.GetModule("admin.api.reverse_proxy"); err == nil {
			if ar, ok := mi.New().(caddy.AdminRouter); ok {
				for _, rt := range ar.Routes() {
					if rt.Pattern == "/reverse_proxy/upstreams" {
						adminHandler = rt.Handler
					}
				}
			}
		}
	})
	out := map[string][2]int{}
	if adminHandler == nil {
		k.infra = "admin.api.reverse_proxy route /reverse_proxy/upstreams not found"
		return out
	}
	rec := httptest.NewRecorder()
	if err := adminHandler.ServeHTTP(rec, httptest.NewRequest("GET", "/reverse_proxy/upstreams", nil)); err != nil {
		k.fail("admin-endpoint-error", "GET /reverse_proxy/upstreams failed: "+err.Error())
		return out
	}
	var list []struct {
		Address     string `json:"address"`
		NumRequests int    `json:"num_requests"`
		Fails       int    `json:"fails"`
	}
	if err := json.Unmarshal(rec.Body.Bytes(), &list); err != nil {
		k.fail("admin-endpoint-error", "GET /reverse_proxy/upstreams: "+err.Error())
		return out
	}
	for _, e := range list {
		out[e.Address] = [2]int{e.NumRequests, e.Fails}
	}
	return out
}

func (k *kase) fail(class, what string) {
	for _, f := range k.failures {
		if f.Class == class {
			return
		}
	}
	k.failures = append(k.failures, core.Failure{Class: class, What: what})
}

func (k *kase) tag(t string) { k.tags[t] = true }

// runSched executes the schedule; ok=false means the line is (semantically) malformed.
func (p *prop) runSched(K int, src stepSource, U time.Duration, cf, ph bool) (impl string, k *kase, ok bool) {
	k = &kase{p: p, K: K, U: U, cf: cf, ph: ph, ev: make(chan reqEvent, 64),
		objIdx: map[*reverseproxy.Host]int{}, tags: map[string]bool{}}
	k.cond = sync.NewCond(&k.mu)
	k.id = p.nextDir.Add(1)
	k.dir = filepath.Join(p.root, fmt.Sprintf("k%d", k.id))
	if err := os.MkdirAll(k.dir, 0o755); err != nil {
		k.infra = err.Error()
		return "infra", k, true
	}
	for key := 0; key < K; key++ {
		b := &backend{k: k, key: key, path: k.sock(key)}
		if err := b.up(); err != nil {
			k.infra = err.Error()
		}
		k.backends = append(k.backends, b)
	}
	defer k.teardown()
	var out []string
	ok = true
	k.anchor = time.Now()
	for {
		st, more := src.next(k)
		if !more {
			break
		}
		k.done = append(k.done, st)
		var ev string
		var moved *cfgGen
		switch st.op {
		case 'L', 'Y':
			ev = k.load(st, false)
			k.tag("load")
			if st.dyn {
				k.tag("dynamic-upstreams")
			}
			if len(k.cfgs) > 1 {
				k.tag("reload")
			}
		case 'B':
			ev = k.load(st, true)
			k.tag("bad-load")
		case 'C':
			if k.cur == nil || k.cur.canceled {
				ok = false
				break
			}
			k.unload(k.cur)
			ev = "C"
			k.tag("unload")
		case 'N':
			if k.cur == nil || k.cur.canceled {
				ok = false
				break
			}
			moved = k.cur
			ev = k.newReq(st.get, st.ws, st.badKey, st.badB)
			if st.badB != 0 {
				k.tag("undialable-placeholder")
			}
			if st.ws {
				k.tag("upgrade-request")
			}
		case 'O', 'A':
			var quickSince time.Time
			if st.rid >= len(k.reqs) || !k.reqs[st.rid].parked {
				ok = false
				break
			}
			r := k.reqs[st.rid]
			if st.op == 'O' && (r.streaming != (st.out == "se")) {
				ok = false // a streaming request can only be finished (se) or abandoned (A); se needs one
				break
			}
			moved = r.cfg
			if st.op == 'O' && st.out == "wu" && !r.ws {
				ok = false // only a request that asked for an upgrade can be upgraded
				break
			}
			if st.op == 'O' && (st.out == "sb" || st.out == "wu") {
				// the response begins: strikes happen now, the request stays in flight
				k.lastAged = r.aged
				r.cmd <- st.out
				if st.out == "sb" {
					select {
					case <-r.w.first:
						ev = "S"
					case <-time.After(8 * time.Second):
						ev = "hang"
						k.infra = fmt.Sprintf("request %d: the streamed body did not arrive", r.id)
					}
				} else {
					// the upgraded connection is open once the backend's first byte arrives at the client
					ev = "hang"
					select {
					case <-r.w.hijacked:
						r.w.mu.Lock()
						cli := r.w.cli
						r.w.mu.Unlock()
						cli.SetReadDeadline(time.Now().Add(8 * time.Second))
						var b [1]byte
						if n, _ := cli.Read(b[:]); n == 1 {
							ev = "S"
						}
						cli.SetReadDeadline(time.Time{})
						go func() {
							// the client keeps reading (e.g. the close frame Cleanup sends)
							buf := make([]byte, 64)
							for {
								if _, err := cli.Read(buf); err != nil {
									return
								}
							}
						}()
					case <-time.After(8 * time.Second):
					}
					if ev != "S" {
						k.infra = fmt.Sprintf("request %d: the upgraded connection did not open", r.id)
					}
					r.wsOpen = true
					k.tag("upgraded-connection")
				}
				if r.cfg.st.lat && r.cfg.st.p && !r.aged && time.Since(r.since) > latencyLimit/2 {
					// the machine was so slow that this quick answer may look slow to unhealthy_latency
					k.raced = true
				}
				r.streaming = true
				k.tag("response-streaming")
				break
			}
			r.parked = false
			if r.streaming {
				r.streaming = false
				if st.op == 'A' {
					k.tag("client-abort-while-streaming")
				}
			}
			if st.op == 'A' {
				r.cancel()
				k.tag("client-abort")
			} else {
				k.lastAged = r.aged
				if st.out == "sl" {
					for _, o := range k.reqs {
						if o != r && o.parked {
							o.aged = true
						}
					}
				}
				quickSince = time.Time{}
				if r.cfg.st.lat && r.cfg.st.p && st.out != "sl" && st.out != "se" && st.out != "rst" && !r.aged {
					quickSince = r.since
				}
				r.cmd <- st.out
				k.tag("out-" + st.out)
				if st.out == "sl" && r.cfg.st.lat && r.cfg.st.p {
					k.tag("latency-strike")
				}
			}
			if r.cfg.canceled {
				k.tag("moved-on-unloaded-config")
			}
			ev = k.waitReq(r)
			if !quickSince.IsZero() && time.Since(quickSince) > latencyLimit/2 {
				// the machine was so slow that a quick answer may have looked slow to
				// unhealthy_latency: run the case again
				k.raced = true
			}
			if r.cfg.canceled && strings.HasPrefix(ev, "P") {
				// tryAgain of an unloaded configuration selects between its interval timer and
				// the closed ctx.Done(): a retry is only possible if the goroutine was held up
				// for longer than try_interval right before the select (both cases ready).
				// That is scheduler noise, not a schedule: run the case again.
				k.raced = true
			}
		case 'H':
			if st.hfull {
				k.backends[st.key].probe.Store(&probe{st.hstat, probeBodies[st.hbody], st.hneeds})
				k.backends[st.key].hbad.Store(false)
				k.tag("health-endpoint-scripted-in-full")
				ev = "-"
				break
			}
			if k.backends[st.key].hbad.Load() == !st.hok {
				ok = false
				break
			}
			k.backends[st.key].hbad.Store(!st.hok)
			k.backends[st.key].probe.Store(nil)
			ev = "-"
		case 'K':
			if k.cur == nil || k.cur.canceled || !k.cur.st.areal {
				ok = false
				break
			}
			k.cur.h.VerifActiveHealthCheckAll()
			k.activeRound(k.cur)
			ev = "K"
		case 'E':
			if k.srcFails.Load() == st.fail {
				ok = false
				break
			}
			k.srcFails.Store(st.fail)
			ev = "-"
			if st.fail {
				k.tag("dynamic-source-fails")
			}
		case 'D':
			if k.backends[st.key].srv == nil {
				ok = false
				break
			}
			k.backends[st.key].down()
			ev = "-"
			k.tag("backend-down")
		case 'U':
			if k.backends[st.key].srv != nil {
				ok = false
				break
			}
			if err := k.backends[st.key].up(); err != nil {
				k.infra = err.Error()
			}
			ev = "-"
		case 'T':
			k.tick += st.n
			if k.pendingTimed() {
				if d := time.Until(k.anchor.Add(time.Duration(k.tick) * k.U)); d > 0 {
					time.Sleep(d)
				}
				k.tag("timed-window")
			} else {
				// nothing can elapse: fast-forward the clock
				k.anchor = time.Now().Add(-time.Duration(k.tick) * k.U)
			}
			ev = "-"
		}
		if !ok {
			break
		}
		k.settle(moved)
		out = append(out, k.snapshot(ev))
		k.oracleCounted(st, moved)
		// the discrete clock is only trustworthy if everything up to the snapshot happened in
		// the first part of the current tick (windows end half a tick before a tick boundary)
		if k.pendingTimed() && time.Since(k.anchor.Add(time.Duration(k.tick)*k.U)) > k.U*3/8 {
			k.late = true
		}
		k.oracleStep(ev)
		if strings.HasPrefix(ev, "P") {
			k.tag("parked")
			if st.op == 'O' {
				k.tag("retried-then-parked")
			}
		} else if ev == "ok" || ev == "err" || ev == "panic" {
			k.tag("ret-" + ev)
		}
		if snap := out[len(out)-1]; true {
			if i := strings.Index(snap, "]["); i >= 0 {
				cur := snap[i+2:]
				if j := strings.Index(cur, "]"); j >= 0 {
					cur = cur[:j]
				}
				if strings.Contains(cur, "u") {
					k.tag("upstream-unhealthy")
				}
				if strings.Contains(cur, "f") {
					k.tag("upstream-full")
				}
			}
		}
		if st.op == 'L' {
			seen := map[int]bool{}
			for _, key := range st.keys {
				if seen[key] {
					k.tag("duplicate-upstream-key")
				}
				seen[key] = true
			}
			if !st.p {
				k.tag("no-passive-checks")
			}
			if st.p && st.d == 0 {
				k.tag("passive-without-fail-duration")
			}
		}
	}
	if !ok {
		return "bad-op", k, false
	}
	// quiescence: every client goes away, every configuration is unloaded
	for _, r := range k.reqs {
		if r.parked {
			r.parked = false
			r.cancel()
			k.waitReq(r)
			k.settle(r.cfg)
		}
	}
	for _, c := range k.cfgs {
		k.unload(c)
	}
	k.cur = nil
	k.settle(nil)
	time.Sleep(300 * time.Microsecond)
	out = append(out, k.snapshot("end"))
	k.oracleEnd()
	return strings.Join(out, " "), k, true
}

func (k *kase) teardown() {
	for _, r := range k.reqs {
		if r.cancel != nil {
			r.cancel()
		}
	}
	for _, c := range k.cfgs {
		k.unload(c)
	}
	for _, b := range k.backends {
		b.closeAll()
	}
	for key := 0; key < k.K; key++ {
		dynReg.CompareAndDelete(k.dial(key), k)
	}
	k.mu.Lock()
	for _, h := range k.objs {
		hostReg.Delete(h)
	}
	k.mu.Unlock()
	os.RemoveAll(k.dir)
}

// ---------------------------------------------------------------- Run

func (p *prop) Run(line string) core.Outcome {
	if v, ok := p.cache.LoadAndDelete(line); ok {
		return v.(core.Outcome)
	}
	return p.run(line)
}

func (p *prop) run(line string) core.Outcome {
	f := splitFields(line)
	if len(f) == 0 {
		return core.Outcome{Impl: "bad-op", Tags: []string{"bad-op", "trivial"}}
	}
	switch f[0] {
	case "sched", "schedcf", "schedph":
		K, steps, ok := parseSched(f)
		if ok && !phRules(steps, f[0] == "schedph") {
			ok = false
		}
		if !ok {
			return core.Outcome{Impl: "bad-op", Tags: []string{"bad-op", "trivial"}}
		}
		if err := p.init(); err != nil {
			return core.Outcome{Impl: "infra", Tags: []string{"infra"}, Failures: []core.Failure{{Case: line, Class: "harness-infra", What: err.Error()}}}
		}
		o, _ := p.execSched(K, &replaySource{steps: steps}, 0, f[0] == "schedcf", f[0] == "schedph")
		for i := range o.Failures {
			o.Failures[i].Case = line
		}
		return o
	case "stress", "stressdyn":
		return p.runStress(line, f)
	case "static":
		return p.runStatic(line, f)
	}
	return core.Outcome{Impl: "bad-op", Tags: []string{"bad-op", "trivial"}}
}

const baseTick = 40 * time.Millisecond

// execSched runs a schedule, re-running it (as a replay of the steps already chosen) with a
// longer tick when the machine was too slow for the discrete clock to be trustworthy.
// It returns the outcome and the steps that were executed.
func (p *prop) execSched(K int, src stepSource, minAttempt int, cf, ph bool) (core.Outcome, []step) {
	U := baseTick << minAttempt
	noisy := 0 // attempts spoilt by scheduler noise (tryAgain race, a quick answer that took too long)
	for attempt := minAttempt; ; attempt++ {
		// a case that keeps being spoilt by noise is run while no other case of this process runs
		if noisy >= 2 {
			p.alone.Lock()
		} else {
			p.alone.RLock()
		}
		impl, k, ok := p.runSched(K, src, U, cf, ph)
		if noisy >= 2 {
			p.alone.Unlock()
		} else {
			p.alone.RUnlock()
		}
		p.stats.Lock()
		p.stats.cases++
		p.stats.Unlock()
		if !ok {
			// a step that is impossible in the state the implementation is in: an invalid schedule —
			// or the implementation left the expected path earlier, and then the oracle's findings
			// up to that step are the answer
			o := core.Outcome{Impl: "bad-op", Tags: []string{"bad-op-semantic", "trivial"}}
			if len(k.failures) > 0 && !k.raced && !k.late {
				p.failed.Add(1)
				o.Failures = k.failures
			}
			return o, k.done
		}
		if k.raced && noisy < 8 {
			noisy++
			p.stats.Lock()
			p.stats.raced++
			p.stats.Unlock()
			src = &replaySource{steps: k.done}
			continue
		}
		if k.late && attempt < minAttempt+5+noisy && !k.forgetTimedOut && k.infra == "" && U < 2*time.Second {
			U *= 2
			p.stats.Lock()
			p.stats.retimed++
			p.stats.Unlock()
			src = &replaySource{steps: k.done}
			continue
		}
		if k.infra != "" {
			k.failures = append(k.failures, core.Failure{Class: "harness-infra", What: k.infra})
		}
		tags := make([]string, 0, len(k.tags))
		for t := range k.tags {
			tags = append(tags, t)
		}
		if len(k.reqs) == 0 {
			tags = append(tags, "trivial")
		}
		if len(k.failures) > 0 {
			p.failed.Add(1)
		}
		return core.Outcome{Impl: impl, Tags: tags, Failures: k.failures}, k.done
	}
}

func schedLine(K int, steps []step, cf bool) string {
	if cf {
		return "schedcf" + schedLine(K, steps, false)[len("sched"):]
	}
	parts := make([]string, len(steps))
	for i, st := range steps {
		parts[i] = st.text
	}
	return fmt.Sprintf("sched %d %s", K, strings.Join(parts, ";"))
}
