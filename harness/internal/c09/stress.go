package c09

import "verif/harness/internal/core"

func (p *prop) runStress(line string, f []string) core.Outcome {
	return core.Outcome{Impl: "bad-op", Tags: []string{"bad-op", "trivial"}}
}

func (p *prop) runStatic(line string, f []string) core.Outcome {
	return core.Outcome{Impl: "bad-op", Tags: []string{"bad-op", "trivial"}}
}
