package c09

import (
	"go/ast"
	"go/parser"
	"go/token"
	"path/filepath"
	"reflect"
	"runtime"

	"github.com/caddyserver/caddy/v2/modules/caddyhttp/reverseproxy"

	"verif/harness/internal/core"
)

func (p *prop) runStress(line string, f []string) core.Outcome {
	return core.Outcome{Impl: "bad-op", Tags: []string{"bad-op", "trivial"}}
}

// callText renders x.y.z(…lit…) call expressions of the two statements we look for.
func callText(e ast.Expr) string {
	c, ok := e.(*ast.CallExpr)
	if !ok || len(c.Args) != 1 {
		return ""
	}
	var sel func(ast.Expr) string
	sel = func(e ast.Expr) string {
		switch v := e.(type) {
		case *ast.Ident:
			return v.Name
		case *ast.SelectorExpr:
			return sel(v.X) + "." + v.Sel.Name
		}
		return "?"
	}
	arg := ""
	switch a := c.Args[0].(type) {
	case *ast.BasicLit:
		arg = a.Value
	case *ast.UnaryExpr:
		if l, ok := a.X.(*ast.BasicLit); ok {
			arg = a.Op.String() + l.Value
		}
	}
	return sel(c.Fun) + "(" + arg + ")"
}

// runStatic checks the syntactic premise of theorem dec_on_every_exit in the source the
// harness was built from: `reverseProxy` starts with countRequest(1) immediately followed by
// `defer …countRequest(-1)` on the same Host, so the decrement runs on every exit, panics included.
func (p *prop) runStatic(line string, f []string) core.Outcome {
	if len(f) != 2 || f[1] != "defer" {
		return core.Outcome{Impl: "bad-op", Tags: []string{"bad-op", "trivial"}}
	}
	file, _ := runtime.FuncForPC(reflect.ValueOf(reverseproxy.GetDialInfo).Pointer()).FileLine(0)
	src := filepath.Join(filepath.Dir(file), "reverseproxy.go")
	fs := token.NewFileSet()
	af, err := parser.ParseFile(fs, src, nil, 0)
	if err != nil {
		return core.Outcome{Impl: "infra", Tags: []string{"infra"}, Failures: []core.Failure{{Class: "harness-infra", What: err.Error()}}}
	}
	found, good := false, false
	for _, d := range af.Decls {
		fd, ok := d.(*ast.FuncDecl)
		if !ok || fd.Name.Name != "reverseProxy" || fd.Recv == nil || fd.Body == nil {
			continue
		}
		found = true
		b := fd.Body.List
		if len(b) >= 2 {
			first := ""
			switch s := b[0].(type) {
			case *ast.AssignStmt:
				if len(s.Rhs) == 1 {
					first = callText(s.Rhs[0])
				}
			case *ast.ExprStmt:
				first = callText(s.X)
			}
			second := ""
			if ds, ok := b[1].(*ast.DeferStmt); ok {
				second = callText(ds.Call)
			}
			good = first == "di.Upstream.Host.countRequest(1)" && second == "di.Upstream.Host.countRequest(-1)"
		}
	}
	o := core.Outcome{Impl: "defer-ok", Tags: []string{"static-defer"}}
	if !found || !good {
		o.Impl = "defer-missing"
		o.Failures = []core.Failure{{Class: "decrement-not-deferred",
			What: "reverseProxy no longer begins with countRequest(1) immediately followed by `defer countRequest(-1)` on the same Host: an exit path (panic, early return) can leave the in-flight count raised"}}
	}
	return o
}
