package c09

import (
	"context"
	"fmt"
	"go/ast"
	"go/parser"
	"go/token"
	"net"
	"net/http"
	"net/http/httptest"
	"os"
	"path/filepath"
	"reflect"
	"runtime"
	"strconv"
	"strings"
	"sync"
	"sync/atomic"
	"time"

	"github.com/caddyserver/caddy/v2"
	"github.com/caddyserver/caddy/v2/modules/caddyhttp"
	"github.com/caddyserver/caddy/v2/modules/caddyhttp/reverseproxy"

	"verif/harness/internal/core"
)

// stressOutcome is the fate of request i of a stress case (same table in Driver.lean).
func stressOutcome(seed, i int) string {
	switch ((seed*131 + i*7919 + 12345) % 65536 / 16) % 10 {
	case 0, 1, 2:
		return "ok"
	case 3, 4:
		return "rst"
	case 5:
		return "e5"
	case 6:
		return "hup"
	case 7:
		return "pan"
	case 8:
		return "her"
	}
	return "abort"
}

type stressBackend struct {
	k *kase
}

func (b *stressBackend) ServeHTTP(w http.ResponseWriter, r *http.Request) {
	c := r.Header.Get("X-Out")
	switch c {
	case "ok":
		w.Write([]byte("ok"))
	case "e5":
		w.WriteHeader(500)
		w.Write([]byte("no"))
	case "pan":
		w.Header().Set("X-Verif", "panic")
		w.Write([]byte("ok"))
	case "her":
		w.Header().Set("X-Verif", "err")
		w.Write([]byte("ok"))
	case "abort":
		// tell the client side that the request is inside the backend, then wait for it to go away
		if ch, ok := b.k.arrived.Load(r.Header.Get("X-Rid")); ok {
			close(ch.(chan struct{}))
		}
		select {
		case <-r.Context().Done():
		case <-time.After(5 * time.Second):
		}
	case "rst", "hup":
		hj, ok := w.(http.Hijacker)
		if !ok {
			return
		}
		conn, _, err := hj.Hijack()
		if err != nil {
			return
		}
		if c == "hup" {
			conn.Write([]byte("HTTP/1.1 200 OK\r\nContent-Type: text/plain\r\nContent-Length: 1000\r\n\r\npartial"))
		}
		conn.Close()
	}
}

// runStress: N requests with scripted fates are fired at the real handler from N goroutines at
// once, with no forced order; half-way a reload that keeps both upstreams is performed
// concurrently.  What must come out is independent of the interleaving (that is what the
// theorems say): every increment matched by a decrement on every exit path, exactly the
// reset / bad-status attempts counted, every counted failure forgotten exactly once after
// all configurations are unloaded, no counter ever negative.  The answer line carries these
// totals (the model computes them from a sequential run); the oracle checks them on the event
// stream of the verif hook.
func (p *prop) runStress(line string, f []string) core.Outcome {
	bad := core.Outcome{Impl: "bad-op", Tags: []string{"bad-op", "trivial"}}
	if len(f) != 3 {
		return bad
	}
	N, ok1 := num(f[1])
	seed, ok2 := num(f[2])
	if !ok1 || !ok2 || N < 1 || N > 64 {
		return bad
	}
	if err := p.init(); err != nil {
		return core.Outcome{Impl: "infra", Tags: []string{"infra"}, Failures: []core.Failure{{Class: "harness-infra", What: err.Error()}}}
	}
	dyn := f[0] == "stressdyn" // the upstreams come from a dynamic source: every loop iteration provisions and releases them
	k := &kase{p: p, K: 2, U: baseTick, ev: make(chan reqEvent, 1), objIdx: map[*reverseproxy.Host]int{}, tags: map[string]bool{}}
	k.cond = sync.NewCond(&k.mu)
	k.dir = filepath.Join(p.root, fmt.Sprintf("s%d", p.nextDir.Add(1)))
	os.MkdirAll(k.dir, 0o755)
	defer os.RemoveAll(k.dir)
	var servers []*http.Server
	for key := 0; key < 2; key++ {
		l, err := net.Listen("unix", k.sock(key))
		if err != nil {
			return core.Outcome{Impl: "infra", Tags: []string{"infra"}, Failures: []core.Failure{{Class: "harness-infra", What: err.Error()}}}
		}
		srv := &http.Server{Handler: &stressBackend{k: k}}
		servers = append(servers, srv)
		go srv.Serve(l)
	}
	defer func() {
		for _, s := range servers {
			s.Close()
		}
		dynReg.CompareAndDelete(k.dial(0), k)
		k.mu.Lock()
		for _, h := range k.objs {
			hostReg.Delete(h)
		}
		k.mu.Unlock()
	}()
	// both configurations: upstreams 0 and 1, round robin, passive checks with a long window,
	// max_fails high enough that nobody becomes unhealthy, one unhealthy_status entry
	mk := func() *cfgGen {
		st := step{keys: []int{0, 1}, p: true, d: longD, m: 100, s: 1, dyn: dyn}
		ctx, cancel := caddy.NewContext(p.base)
		js := k.handlerJSON(st, false)
		js = []byte(strings.Replace(string(js), `"policy":"first"`, `"policy":"round_robin"`, 1))
		mod, err := ctx.LoadModuleByID("http.handlers.reverse_proxy", js)
		if err != nil {
			cancel()
			k.infra = err.Error()
			return nil
		}
		c := &cfgGen{id: len(k.cfgs), st: st, h: mod.(*reverseproxy.Handler), cancel: cancel, maxFails: 100}
		for _, u := range c.h.Upstreams {
			c.objs = append(c.objs, k.register(u.Host))
		}
		k.cfgs = append(k.cfgs, c)
		return c
	}
	first := mk()
	if first == nil {
		return core.Outcome{Impl: "infra", Tags: []string{"infra"}, Failures: []core.Failure{{Class: "harness-infra", What: k.infra}}}
	}
	var cur atomic.Pointer[cfgGen]
	cur.Store(first)
	var wg sync.WaitGroup
	start := make(chan struct{})
	results := make([]string, N)
	for i := 0; i < N; i++ {
		wg.Add(1)
		go func(i int) {
			defer wg.Done()
			out := stressOutcome(seed, i)
			ctx, cancel := context.WithCancel(context.Background())
			defer cancel()
			req := httptest.NewRequest("POST", "http://c09.test/s", nil).WithContext(ctx)
			req.Header.Set("X-Rid", strconv.Itoa(i))
			req.Header.Set("X-Out", out)
			w := httptest.NewRecorder()
			req = caddyhttp.PrepareRequest(req, caddy.NewReplacer(), w, &caddyhttp.Server{})
			if out == "abort" {
				ch := make(chan struct{})
				k.arrived.Store(strconv.Itoa(i), ch)
				go func() {
					select {
					case <-ch:
					case <-time.After(5 * time.Second):
					}
					cancel()
				}()
			}
			<-start
			if i == N/2 {
				// a reload that keeps both upstreams, concurrent with the traffic
				if nc := mk(); nc != nil {
					old := cur.Swap(nc)
					old.canceled = true
					old.cancel()
				}
			}
			res := "ok"
			func() {
				defer func() {
					if rec := recover(); rec != nil {
						res = "panic"
					}
				}()
				h := cur.Load().h
				if err := h.ServeHTTP(w, req, caddyhttp.HandlerFunc(func(http.ResponseWriter, *http.Request) error { return nil })); err != nil {
					res = "err"
				}
			}()
			results[i] = res
		}(i)
	}
	close(start)
	done := make(chan struct{})
	go func() { wg.Wait(); close(done) }()
	select {
	case <-done:
	case <-time.After(20 * time.Second):
		return core.Outcome{Impl: "hang", Tags: []string{"stress"}, Failures: []core.Failure{{Class: "harness-infra", What: "stress requests did not return"}}}
	}
	// traffic has stopped: in-flight must be zero right now
	k.registerDynHosts()
	inflightEnd := 0
	for _, h := range k.objs {
		inflightEnd += h.NumRequests()
	}
	// unload everything; every counted failure must be forgotten exactly once
	c := cur.Load()
	c.canceled = true
	c.cancel()
	deadline := time.Now().Add(5 * time.Second)
	for {
		k.mu.Lock()
		ok := k.tally[3] >= k.tally[2]
		k.mu.Unlock()
		if ok || time.Now().After(deadline) {
			break
		}
		time.Sleep(200 * time.Microsecond)
	}
	time.Sleep(500 * time.Microsecond)
	failsEnd := 0
	for _, h := range k.objs {
		failsEnd += h.Fails()
	}
	k.mu.Lock()
	t := k.tally
	neg := append([]string(nil), k.negative...)
	maxIn := k.maxInflight
	k.mu.Unlock()
	nOK, nErr, nPanic := 0, 0, 0
	for _, r := range results {
		switch r {
		case "ok":
			nOK++
		case "err":
			nErr++
		default:
			nPanic++
		}
	}
	pooled := 0
	for key := 0; key < 2; key++ {
		if _, _, ok := reverseproxy.VerifHostsEntry(k.dial(key)); ok {
			pooled++
		}
	}
	impl := fmt.Sprintf("n=%d ok=%d err=%d panic=%d inc=%d dec=%d fail=%d forget=%d end=%d/%d pool=%d", N, nOK, nErr, nPanic, t[0], t[1], t[2], t[3], inflightEnd, failsEnd, pooled)
	o := core.Outcome{Impl: impl, Tags: []string{"stress"}}
	if dyn {
		o.Tags = append(o.Tags, "stress-dynamic-upstreams")
	}
	if pooled != 0 {
		o.Failures = append(o.Failures, core.Failure{Class: "pool-entry-leaked", What: fmt.Sprintf("all configurations unloaded and all requests returned, but %d addresses are still in the hosts pool", pooled)})
	}
	if len(neg) > 0 {
		o.Failures = append(o.Failures, core.Failure{Class: "negative-counter", What: "a Host counter went below zero under concurrency: " + neg[0]})
	}
	if inflightEnd != 0 || t[0] != t[1] {
		o.Failures = append(o.Failures, core.Failure{Class: "inflight-unbalanced-under-concurrency", What: fmt.Sprintf("traffic stopped: in-flight sum %d, %d increments, %d decrements", inflightEnd, t[0], t[1])})
	}
	if failsEnd != 0 || t[2] != t[3] {
		o.Failures = append(o.Failures, core.Failure{Class: "fails-unbalanced-under-concurrency", What: fmt.Sprintf("all configurations unloaded: fails sum %d, %d failures counted, %d forgotten", failsEnd, t[2], t[3])})
	}
	if maxIn > int64(N) {
		o.Failures = append(o.Failures, core.Failure{Class: "inflight-exceeds-requests", What: fmt.Sprintf("in-flight count reached %d with only %d requests", maxIn, N)})
	}
	want := 0
	for i := 0; i < N; i++ {
		if x := stressOutcome(seed, i); x == "rst" || x == "e5" {
			want++
		}
	}
	if t[2] != want {
		o.Failures = append(o.Failures, core.Failure{Class: "wrong-outcomes-counted-under-concurrency", What: fmt.Sprintf("%d failures counted, but %d attempts ended in an upstream error or a bad status (success, client abort, handler error and panics must not count)", t[2], want)})
	}
	return o
}

// callText renders x.y.z(…lit…) call expressions of the two statements we look for.
func callText(e ast.Expr) string {
	c, ok := e.(*ast.CallExpr)
	if !ok || len(c.Args) != 1 {
		return ""
	}
	var sel func(ast.Expr) string
	sel = func(e ast.Expr) string {
		switch v := e.(type) {
		case *ast.Ident:
			return v.Name
		case *ast.SelectorExpr:
			return sel(v.X) + "." + v.Sel.Name
		}
		return "?"
	}
	arg := ""
	switch a := c.Args[0].(type) {
	case *ast.BasicLit:
		arg = a.Value
	case *ast.UnaryExpr:
		if l, ok := a.X.(*ast.BasicLit); ok {
			arg = a.Op.String() + l.Value
		}
	}
	return sel(c.Fun) + "(" + arg + ")"
}

// runStatic checks the syntactic premise of theorem dec_on_every_exit in the source the
// harness was built from: `reverseProxy` starts with countRequest(1) immediately followed by
// `defer …countRequest(-1)` on the same Host, so the decrement runs on every exit, panics included.
func (p *prop) runStatic(line string, f []string) core.Outcome {
	if len(f) != 2 || f[1] != "defer" {
		return core.Outcome{Impl: "bad-op", Tags: []string{"bad-op", "trivial"}}
	}
	file, _ := runtime.FuncForPC(reflect.ValueOf(reverseproxy.GetDialInfo).Pointer()).FileLine(0)
	src := filepath.Join(filepath.Dir(file), "reverseproxy.go")
	fs := token.NewFileSet()
	af, err := parser.ParseFile(fs, src, nil, 0)
	if err != nil {
		return core.Outcome{Impl: "infra", Tags: []string{"infra"}, Failures: []core.Failure{{Class: "harness-infra", What: err.Error()}}}
	}
	found, good := false, false
	for _, d := range af.Decls {
		fd, ok := d.(*ast.FuncDecl)
		if !ok || fd.Name.Name != "reverseProxy" || fd.Recv == nil || fd.Body == nil {
			continue
		}
		found = true
		b := fd.Body.List
		if len(b) >= 2 {
			first := ""
			switch s := b[0].(type) {
			case *ast.AssignStmt:
				if len(s.Rhs) == 1 {
					first = callText(s.Rhs[0])
				}
			case *ast.ExprStmt:
				first = callText(s.X)
			}
			second := ""
			if ds, ok := b[1].(*ast.DeferStmt); ok {
				second = callText(ds.Call)
			}
			good = first == "di.Upstream.Host.countRequest(1)" && second == "di.Upstream.Host.countRequest(-1)"
		}
	}
	o := core.Outcome{Impl: "defer-ok", Tags: []string{"static-defer"}}
	if !found || !good {
		o.Impl = "defer-missing"
		o.Failures = []core.Failure{{Class: "decrement-not-deferred",
			What: "reverseProxy no longer begins with countRequest(1) immediately followed by `defer countRequest(-1)` on the same Host: an exit path (panic, early return) can leave the in-flight count raised"}}
	}
	return o
}
