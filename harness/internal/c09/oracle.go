package c09

import (
	"fmt"
	"strings"

	"github.com/caddyserver/caddy/v2/modules/caddyhttp/reverseproxy"
)

// The oracle evaluates the property on the implementation's own observations, using only the
// harness's shadow bookkeeping (which requests it holds inside a backend, which failures were
// counted at which tick by which configuration) — never the Lean model.

func (k *kase) liveShadow() []int {
	live := make([]int, len(k.objs))
	for _, s := range k.shadow {
		if !s.due {
			live[s.obj]++
		}
	}
	return live
}

// ownKeys: the upstreams the handler itself provisioned (for a handler with a dynamic source:
// its static fallback upstreams; what the source returns is held by the loop iterations).
func (c *cfgGen) ownKeys() []int {
	if c.st.dyn {
		return c.st.skeys
	}
	return c.st.keys
}

func (c *cfgGen) objOfKey(key int) int {
	for i, kk := range c.ownKeys() {
		if kk == key {
			return c.objs[i]
		}
	}
	return -1
}

// preservedClass: a loaded configuration's upstream is not (or no longer) the Host object the
// pool holds for its key.  (Before fix d6561d4 this happened after a load that failed in
// Provision before its upstreams were set up; that is now an ordinary violation.)
// lastCallFailed: the source failed in the current loop iteration of request r.
func (k *kase) lastCallFailed(r *reqSt) bool {
	k.mu.Lock()
	defer k.mu.Unlock()
	for i := len(k.dynCalls) - 1; i >= 0; i-- {
		if k.dynCalls[i].rid == r.id {
			return k.dynCalls[i].failed
		}
	}
	return false
}

func (k *kase) preservedClass() string { return "host-not-preserved" }

func (k *kase) oracleStep(ev string) {
	k.mu.Lock()
	neg := append([]string(nil), k.negative...)
	k.mu.Unlock()
	if len(neg) > 0 {
		k.fail("negative-counter", "a Host counter went below zero: "+neg[0])
	}
	live := k.liveShadow()
	parked := make([]int, len(k.objs))
	for _, r := range k.reqs {
		if r.parked {
			if o := k.reqObj(r); o >= 0 {
				parked[o]++
				if r.cfg.st.dyn && !k.lastCallFailed(r) {
					// the iteration holds its dynamic upstreams in the pool until it returns: the
					// Host the request counts on must be the pooled one (shared with everybody else)
					h, refs, ok := reverseproxy.VerifHostsEntry(k.dial(r.at))
					if !ok || refs < 1 || h != k.objs[o] {
						k.fail("dynamic-upstream-not-pooled", fmt.Sprintf("after %q: request %d is being sent to dynamic upstream %d but the hosts pool has ok=%v refs=%d sameObject=%v", ev, r.id, r.at, ok, refs, ok && h == k.objs[o]))
					}
				}
			} else {
				k.fail("request-at-unconfigured-backend", fmt.Sprintf("request %d arrived at backend %d which its configuration does not list", r.id, r.at))
			}
		}
	}
	for i, h := range k.objs {
		if h.Fails() != live[i] {
			k.fail("fails-differ-from-window", fmt.Sprintf("after %q: Host object %d has Fails()=%d but %d counted failures are inside their window in a loaded configuration", ev, i, h.Fails(), live[i]))
		}
		if h.NumRequests() != parked[i] {
			k.fail("inflight-differs-from-requests-in-backend", fmt.Sprintf("after %q: Host object %d has NumRequests()=%d but %d requests are being sent to it", ev, i, h.NumRequests(), parked[i]))
		}
	}
	if c := k.cur; c != nil && !c.canceled {
		for i, u := range c.h.Upstreams {
			o := c.objs[i]
			wantHealthy := !c.st.p || live[o] < c.maxFails
			if c.st.areal && c.adown[i] {
				wantHealthy = false // the active checker holds it down
			}
			if u.Healthy() != wantHealthy {
				k.fail("healthy-disagrees-with-window", fmt.Sprintf("after %q: upstream %d Healthy()=%v but %d failures in window, max_fails %d", ev, i, u.Healthy(), live[o], c.maxFails))
			}
			limit := 0
			if c.st.p {
				limit = c.st.q
			}
			if i == 0 && c.st.x > 0 {
				limit = c.st.x // an upstream's own max_requests wins over unhealthy_request_count
			}
			wantFull := limit > 0 && parked[o] >= limit
			if u.Available() != (wantHealthy && !wantFull) {
				k.fail("available-disagrees", fmt.Sprintf("after %q: upstream %d Available()=%v, want healthy=%v full=%v", ev, i, u.Available(), wantHealthy, wantFull))
			}
			h, refs, ok := reverseproxy.VerifHostsEntry(k.dial(c.ownKeys()[i]))
			if !ok || refs < 1 || h != u.Host {
				k.fail(k.preservedClass(), fmt.Sprintf("after %q: the loaded configuration uses key %d but the hosts pool has ok=%v refs=%d sameObject=%v", ev, c.ownKeys()[i], ok, refs, h == u.Host))
			}
		}
	}
	if ev == "L" && k.prev != nil {
		c := k.cur
		for i, key := range c.ownKeys() {
			if o := k.prev.objOfKey(key); o >= 0 && o != c.objs[i] {
				k.fail(k.preservedClass(), fmt.Sprintf("reload kept key %d but the new configuration got Host object %d instead of %d", key, c.objs[i], o))
			}
		}
	}
}

// oracleCounted: which outcomes count a failure.  The harness scripted the outcome of the step,
// so it knows (without the model) how many failures the step may have counted: none for a
// success, a client that went away, a failing or panicking response handler or a body that
// broke off (beyond what their status line earns); one per unhealthy_status entry matching the
// status of any answer; at least one for a connection
// closed before the answer (more only through retries); never any when counting is off.
func (k *kase) oracleCounted(st step, moved *cfgGen) {
	n := k.lastCounted
	if moved == nil {
		return
	}
	counting := moved.st.p && moved.st.d > 0
	what := ""
	switch {
	case !counting && n != 0:
		what = "counting is disabled in this configuration"
	case st.op == 'O' && st.out == "se" && n != 0:
		what = "the rest of a streamed body arrived (strikes belong to the response header)"
	case st.op == 'A' && n != 0:
		what = "the client went away (context.Canceled is not the upstream's failure)"
	case st.op == 'O' && answerStatus(st.out) != 0 && counting && n != wantStrikes(statusTable[moved.st.s], answerStatus(st.out))+k.slowStrike(st, moved):
		what = fmt.Sprintf("status %d matches %d of the unhealthy_status entries %v and %d strike(s) are due for latency", answerStatus(st.out), wantStrikes(statusTable[moved.st.s], answerStatus(st.out)), statusTable[moved.st.s], k.slowStrike(st, moved))
	case st.op == 'O' && st.out == "rst" && counting && n < 1:
		what = "the upstream closed the connection without answering"
	case st.op == 'O' && st.out == "rst" && counting && n > 1+moved.st.r:
		what = fmt.Sprintf("at most 1+retries=%d attempts can have failed", 1+moved.st.r)
	case st.op == 'N' && st.badB != 0 && k.refusedForDialInfo() && n > 0 && (n > moved.st.r || !k.anyBackendDown()):
		// the attempt that ended the request was never sent: what was counted can only be refused
		// dials of earlier attempts, i.e. at most `retries` of them and only with a backend down
		what = "the request was refused because its dial information could not be filled in: that attempt reached no upstream"
	case st.op == 'N' && n > 1+moved.st.r:
		what = fmt.Sprintf("at most 1+retries=%d attempts can have failed", 1+moved.st.r)
	}
	if what != "" {
		k.fail("wrong-outcome-counted", fmt.Sprintf("step %s counted %d failure(s) but %s", st.text, n, what))
	}
}

// refusedForDialInfo: the request of the step just executed returned proxyLoopIteration's
// "making dial info" error.
func (k *kase) refusedForDialInfo() bool {
	if len(k.reqs) == 0 {
		return false
	}
	r := k.reqs[len(k.reqs)-1]
	return r.done && strings.Contains(r.errText, "making dial info")
}

func (k *kase) anyBackendDown() bool {
	for _, b := range k.backends {
		if b.l == nil {
			return true
		}
	}
	return false
}

// wantStrikes: how many unhealthy_status entries a status code matches — an entry is either the
// code itself or, below 100, a class (5 = 5xx).  Written from the documentation, not from
// caddyhttp.StatusCodeMatches.
// slowStrike: one more strike when the round trip took at least unhealthy_latency.
func (k *kase) slowStrike(st step, c *cfgGen) int {
	if (st.out == "sl" || k.lastAged) && c.st.lat {
		return 1
	}
	return 0
}

func wantStrikes(entries []int, code int) int {
	n := 0
	for _, e := range entries {
		if e == code || (e < 100 && code/100 == e) {
			n++
		}
	}
	return n
}

func (k *kase) oracleEnd() {
	k.mu.Lock()
	neg := append([]string(nil), k.negative...)
	k.mu.Unlock()
	if len(neg) > 0 {
		k.fail("negative-counter", "a Host counter went below zero: "+neg[0])
	}
	for i, h := range k.objs {
		if h.NumRequests() != 0 || h.Fails() != 0 {
			k.fail("nonzero-after-quiescence", fmt.Sprintf("all clients gone, all configurations unloaded: Host object %d has NumRequests()=%d Fails()=%d", i, h.NumRequests(), h.Fails()))
		}
	}
	for key := 0; key < k.K; key++ {
		if _, refs, ok := reverseproxy.VerifHostsEntry(k.dial(key)); ok {
			k.fail("pool-entry-leaked", fmt.Sprintf("all configurations unloaded but key %d still has %d references in the hosts pool", key, refs))
		}
	}
}
