package c06

import (
	"fmt"
	"strings"

	"github.com/caddyserver/caddy/v2"
	"github.com/caddyserver/caddy/v2/modules/caddyhttp"
	"golang.org/x/net/idna"

	"verif/harness/internal/core"
)

// hosti <entries> <table> <r.Host>     Provision + Match
// provision <entries> <table>          Provision alone; the answer is the provisioned slice
//
// <table> carries, entry by entry, what idna.ToASCII returned on this entry ("=" unchanged,
// "!" error, else hex): the Lean model takes the conversion as a parameter. Run recomputes the
// table with the real idna.ToASCII and answers bad-op if the line's table is not the real one.

func convField(e string) string {
	a, err := idna.ToASCII(e)
	switch {
	case err != nil:
		return "!"
	case a == e:
		return "="
	}
	return core.Hex(a)
}

func tableField(l []string) string {
	if len(l) == 0 {
		return "."
	}
	parts := make([]string, len(l))
	for i, e := range l {
		parts[i] = convField(e)
	}
	return strings.Join(parts, ",")
}

func convertedOK(a string) bool {
	return isASCII(a) && replIdentity(a) && !strings.Contains(a, "\\")
}

// checkTable: "" if fine, else the answer ("bad-op" / "ood").
func checkTable(l []string, table string) string {
	var items []string
	if table != "." {
		items = strings.Split(table, ",")
	}
	if len(items) != len(l) {
		return "bad-op"
	}
	for i := range l {
		if items[i] != "=" && items[i] != "!" {
			if _, err := core.UnHex(items[i]); err != nil {
				return "bad-op"
			}
		}
	}
	// the part of the table the model can judge itself
	for i, e := range l {
		if isASCII(e) && !strings.Contains(asciiLower(e), "xn--") {
			a, err := core.UnHex(items[i])
			if items[i] == "!" || (items[i] != "=" && (err != nil || a != e)) {
				return "bad-op"
			}
		}
	}
	ood := false
	for i, e := range l {
		real := convField(e)
		if items[i] != real {
			// "=" and the hex of the entry itself are the same claim
			if a, err := core.UnHex(items[i]); !(real == "=" && err == nil && a == e) {
				return "bad-op"
			}
		}
		if real != "!" {
			a, _ := idna.ToASCII(e)
			if !convertedOK(a) {
				ood = true
			}
		}
	}
	if ood {
		return "ood"
	}
	return ""
}

func runProv(line string, f []string) (core.Outcome, bool) {
	switch {
	case f[0] == "hosti" && len(f) == 4:
		l, e1 := parseList(f[1])
		h, e2 := core.UnHex(f[3])
		if e1 != nil || e2 != nil {
			return core.Outcome{Impl: "bad-op"}, true
		}
		if r := checkTable(l, f[2]); r == "bad-op" {
			return core.Outcome{Impl: r, Tags: []string{"trivial"}}, true
		} else if r == "ood" || !isASCII(h) {
			o := runHost(line, l, h)
			o.Impl = "ood"
			return o, true
		}
		o := runHost(line, l, h) // same oracle (case, port, order, size, provisioned-ASCII)
		o.Impl = implHost(l, h)
		o.Tags = append(o.Tags, "hosti", "hosti:"+o.Impl)
		return o, true
	case f[0] == "provision" && len(f) == 3:
		l, e1 := parseList(f[1])
		if e1 != nil {
			return core.Outcome{Impl: "bad-op"}, true
		}
		if r := checkTable(l, f[2]); r != "" {
			return core.Outcome{Impl: r, Tags: []string{"trivial"}}, true
		}
		m := make(caddyhttp.MatchHost, len(l))
		copy(m, l)
		o := core.Outcome{Tags: []string{"provision"}}
		if err := m.Provision(caddy.Context{}); err != nil {
			o.Impl = provErr(err)
			if strings.Contains(err.Error(), "converting hostname") {
				o.Impl = "err:idna"
			}
			o.Tags = append(o.Tags, "provision:"+o.Impl)
			return o, true
		}
		o.Impl = "ok " + listField(m)
		if len(l) > 100 {
			o.Tags = append(o.Tags, "provision:large")
		} else {
			o.Tags = append(o.Tags, "provision:small")
		}
		if len(l) == 0 {
			o.Tags = append(o.Tags, "trivial")
		}
		// oracle: every provisioned entry is the converted form of a configured entry
		// (lower-cased or not), and nothing is lost
		want := map[string]int{}
		for _, e := range l {
			a, _ := idna.ToASCII(e)
			want[asciiLower(a)]++
		}
		for _, x := range m {
			want[asciiLower(x)]--
		}
		for k, v := range want {
			if v != 0 {
				o.Failures = append(o.Failures, core.Failure{Class: "provision-entry-not-the-converted-form",
					What: fmt.Sprintf("after Provision the slice %q is not the idna.ToASCII forms of %q (up to case): %q off by %d", []string(m), l, k, v)})
				break
			}
		}
		return o, true
	}
	return core.Outcome{}, false
}

// ---------------------------------------------------------------- generator

var idnEntries = []string{"bücher.example", "Bücher.Example", "é.com", "É.com", "ſ.com", "K.com", "İ.com", "ß.de", "ς.gr", "σ.gr",
	"*.bücher.example", "{é.com", "xn--bcher-kva.example", "XN--BCHER-KVA.example", "xn--e-.com", "xn--.com", "a.xn--zz.test", "日本.jp", "a\x80.com", "\xff"}

func genProvList(rng *core.Rand) []string {
	var l []string
	seen := map[string]bool{}
	allowDup := rng.Chance(1, 12)
	for i := 1 + rng.Intn(5); i > 0; i-- {
		e := rng.Pick(idnEntries)
		if rng.Chance(1, 2) {
			e = genEntry(rng)
		}
		if !hostEntryOK(e) && isASCII(e) && !strings.Contains(asciiLower(e), "xn--") {
			continue
		}
		a, _ := idna.ToASCII(e)
		if seen[asciiLower(a)] && !allowDup {
			continue
		}
		seen[asciiLower(a)] = true
		l = append(l, e)
	}
	switch rng.Intn(6) {
	case 0, 1:
		l = append(l, fillers(rng, 96+rng.Intn(10)-len(l))...)
	case 2:
		l = append(l, fillers(rng, 101+rng.Intn(60))...)
	}
	return shuffled(rng, l)
}

func genProvCase(rng *core.Rand) string {
	l := genProvList(rng)
	if rng.Chance(1, 3) {
		return "provision " + listField(l) + " " + tableField(l)
	}
	var h string
	if len(l) > 0 && rng.Chance(3, 4) {
		a, _ := idna.ToASCII(l[rng.Intn(len(l))])
		h = instantiate(rng, a)
	} else {
		h = rng.Pick([]string{"xn--bcher-kva.example", "xn--9ca.com", "s.com", "k.com", "example.com"})
	}
	h = spellHost(rng, h)
	return "hosti " + listField(l) + " " + tableField(l) + " " + core.Hex(h)
}
