package c06

import (
	"context"
	"encoding/json"
	"fmt"
	"net/url"
	"regexp"
	"strings"
	"sync"

	"github.com/caddyserver/caddy/v2"
	"github.com/caddyserver/caddy/v2/modules/caddyhttp"

	"verif/harness/internal/core"
)

// The same matchers reached through the other front doors of the real code:
//   cel-*  : a CEL `expression` matcher (host(...), path(...), path_regexp(...)): the CEL library
//            wrappers in matchers.go build the matcher from the literal list and provision it;
//   json-* : matcher sets configured as JSON, decoded and provisioned by Route.ProvisionMatchers
//            through a real caddy.Context (module lookup, JSON decoding, Provision, MatcherSet AND).
// Oracle (implementation only): each front door gives the answer of the directly built matcher.

var (
	viaCtxOnce sync.Once
	viaCtx     caddy.Context
)

func realCtx() caddy.Context {
	viaCtxOnce.Do(func() {
		viaCtx, _ = caddy.NewContext(caddy.Context{Context: context.Background()})
	})
	return viaCtx
}

func celSafe(s string) bool {
	for i := 0; i < len(s); i++ {
		c := s[i]
		if c < 32 || c >= 127 || c == '\'' || c == '\\' || c == '"' {
			return false
		}
	}
	return true
}

func celList(l []string) (string, bool) {
	if len(l) == 0 {
		return "", false
	}
	parts := make([]string, len(l))
	for i, s := range l {
		if !celSafe(s) {
			return "", false
		}
		parts[i] = "'" + s + "'"
	}
	return strings.Join(parts, ", "), true
}

func provErr(err error) string {
	if strings.Contains(err.Error(), "is repeated") {
		return "err:dup"
	}
	return "err:provision"
}

func implCEL(expr string, host string, u *url.URL) string {
	m := &caddyhttp.MatchExpression{Expr: expr}
	if err := m.Provision(realCtx()); err != nil {
		return provErr(err)
	}
	r := newRequest(host, u)
	r = r.WithContext(context.WithValue(r.Context(), caddyhttp.VarsCtxKey, map[string]any{}))
	ok, err := m.MatchWithError(r)
	if err != nil {
		return "err:match"
	}
	return mb(ok)
}

func implJSONSet(mm caddy.ModuleMap, host string, u *url.URL) string {
	rl := caddyhttp.RouteList{caddyhttp.Route{MatcherSetsRaw: caddyhttp.RawMatcherSets{mm}}}
	if err := rl.ProvisionMatchers(realCtx()); err != nil {
		return provErr(err)
	}
	r := newRequest(host, u)
	r = r.WithContext(context.WithValue(r.Context(), caddyhttp.VarsCtxKey, map[string]any{}))
	ok, err := rl[0].MatcherSets.AnyMatchWithError(r)
	if err != nil {
		return "err:match"
	}
	return mb(ok)
}

func rawList(l []string) json.RawMessage {
	if l == nil {
		l = []string{}
	}
	b, _ := json.Marshal(l)
	return b
}

func reSource(kind, lit string) string {
	q := regexp.QuoteMeta(lit)
	switch kind {
	case "full":
		q = "^" + q + "$"
	case "pre":
		q = "^" + q
	}
	return q
}

// runVia handles the cel-* / json-* ops. handled=false: not one of them.
func runVia(f []string) (o core.Outcome, handled bool) {
	bad := core.Outcome{Impl: "bad-op"}
	agree := func(o *core.Outcome, door, direct, got, what string) {
		o.Tags = append(o.Tags, "via", "via:"+door, "via:"+door+":"+got)
		if got != direct {
			o.Failures = append(o.Failures, core.Failure{Class: "via-" + door + "-disagrees-with-direct-matcher",
				What: fmt.Sprintf("%s: built directly -> %s, through %s -> %s", what, direct, door, got)})
		}
	}
	switch {
	case (f[0] == "cel-host" || f[0] == "json-host") && len(f) == 3:
		l, e1 := parseList(f[1])
		h, e2 := core.UnHex(f[2])
		if e1 != nil || e2 != nil {
			return bad, true
		}
		direct := implHost(l, h)
		var got string
		door := f[0][:strings.IndexByte(f[0], '-')]
		if door == "cel" {
			args, ok := celList(l)
			if !ok {
				return core.Outcome{Impl: "ood", Tags: []string{"via:cel:ood", "trivial"}}, true
			}
			got = implCEL("host("+args+")", h, &url.URL{Path: "/"})
		} else {
			got = implJSONSet(caddy.ModuleMap{"host": rawList(l)}, h, &url.URL{Path: "/"})
		}
		o := core.Outcome{Impl: got}
		if !inDomainHost(l, h) {
			o.Impl = "ood"
		}
		if len(l) > 100 {
			o.Tags = append(o.Tags, "via:"+door+":large-hostlist")
		}
		agree(&o, door+"-host", direct, got, fmt.Sprintf("host list %s, Host %q", listField(l), h))
		return o, true
	case (f[0] == "cel-path" || f[0] == "json-path") && len(f) == 4:
		l, e1 := parseList(f[1])
		p, e2 := core.UnHex(f[2])
		e, e3 := core.UnHex(f[3])
		if e1 != nil || e2 != nil || e3 != nil {
			return bad, true
		}
		door := f[0][:strings.IndexByte(f[0], '-')]
		args, celOK := celList(l)
		if door == "cel" && !celOK {
			return core.Outcome{Impl: "ood", Tags: []string{"via:cel:ood", "trivial"}}, true
		}
		u := &url.URL{Path: p, RawPath: e}
		if u.EscapedPath() != e {
			o := core.Outcome{Impl: "bad-op", Tags: []string{"trivial"}}
			if !inDomainPath(l, p, e) {
				o.Impl = "ood"
			}
			return o, true
		}
		direct := implPathURL(l, u)
		var got string
		if door == "cel" {
			got = implCEL("path("+args+")", "h.test", u)
		} else {
			got = implJSONSet(caddy.ModuleMap{"path": rawList(l)}, "h.test", u)
		}
		o := core.Outcome{Impl: got}
		if !inDomainPath(l, p, e) {
			o.Impl = "ood"
		}
		agree(&o, door+"-path", direct, got, fmt.Sprintf("patterns %q, path %q (raw %q)", l, p, e))
		return o, true
	case (f[0] == "cel-pathre" || f[0] == "json-pathre") && len(f) == 4:
		lit, e1 := core.UnHex(f[2])
		p, e2 := core.UnHex(f[3])
		if e1 != nil || e2 != nil || (f[1] != "full" && f[1] != "pre" && f[1] != "sub") {
			return bad, true
		}
		if !(reLitOK(lit) && isASCII(p)) {
			return core.Outcome{Impl: "ood", Tags: []string{"trivial"}}, true
		}
		door := f[0][:strings.IndexByte(f[0], '-')]
		u := &url.URL{Path: p}
		direct := implPathRE(f[1], lit, u)
		var got string
		if door == "cel" {
			got = implCEL("path_regexp(r'"+reSource(f[1], lit)+"')", "h.test", u)
		} else {
			b, _ := json.Marshal(map[string]string{"pattern": reSource(f[1], lit)})
			got = implJSONSet(caddy.ModuleMap{"path_regexp": b}, "h.test", u)
		}
		o := core.Outcome{Impl: got}
		agree(&o, door+"-pathre", direct, got, fmt.Sprintf("path_regexp %s %q, path %q", f[1], lit, p))
		return o, true
	case f[0] == "json-not" && len(f) == 6:
		l, e1 := parseList(f[1])
		ps, e2 := parseList(f[2])
		h, e3 := core.UnHex(f[3])
		p, e4 := core.UnHex(f[4])
		e, e5 := core.UnHex(f[5])
		if e1 != nil || e2 != nil || e3 != nil || e4 != nil || e5 != nil {
			return bad, true
		}
		dom := inDomainHost(l, h) && inDomainPath(ps, p, e)
		u := &url.URL{Path: p, RawPath: e}
		if u.EscapedPath() != e {
			o := core.Outcome{Impl: "bad-op", Tags: []string{"trivial"}}
			if !dom {
				o.Impl = "ood"
			}
			return o, true
		}
		// direct: not(host OR path) from the hand-built matchers
		direct := implHost(l, h)
		if direct == "m:0" {
			direct = implPathURL(ps, u)
		}
		switch direct {
		case "m:0":
			direct = "m:1"
		case "m:1":
			direct = "m:0"
		}
		inner, _ := json.Marshal([]caddy.ModuleMap{{"host": rawList(l)}, {"path": rawList(ps)}})
		got := implJSONSet(caddy.ModuleMap{"not": inner}, h, u)
		o := core.Outcome{Impl: got}
		if !dom {
			o.Impl = "ood"
		}
		agree(&o, "json-not", direct, got, fmt.Sprintf("not{host %s}{path %q}, Host %q, path %q (raw %q)", listField(l), ps, h, p, e))
		return o, true
	case f[0] == "json-set" && len(f) == 6:
		l, e1 := parseList(f[1])
		ps, e2 := parseList(f[2])
		h, e3 := core.UnHex(f[3])
		p, e4 := core.UnHex(f[4])
		e, e5 := core.UnHex(f[5])
		if e1 != nil || e2 != nil || e3 != nil || e4 != nil || e5 != nil {
			return bad, true
		}
		dom := inDomainHost(l, h) && inDomainPath(ps, p, e)
		u := &url.URL{Path: p, RawPath: e}
		if u.EscapedPath() != e {
			o := core.Outcome{Impl: "bad-op", Tags: []string{"trivial"}}
			if !dom {
				o.Impl = "ood"
			}
			return o, true
		}
		// direct: both matchers built by hand, ANDed
		direct := implHost(l, h)
		if direct == "m:1" {
			direct = implPathURL(ps, u)
		}
		got := implJSONSet(caddy.ModuleMap{"host": rawList(l), "path": rawList(ps)}, h, u)
		o := core.Outcome{Impl: got}
		if !dom {
			o.Impl = "ood"
		}
		agree(&o, "json-set", direct, got, fmt.Sprintf("host list %s, patterns %q, Host %q, path %q (raw %q)", listField(l), ps, h, p, e))
		return o, true
	}
	return core.Outcome{}, false
}
