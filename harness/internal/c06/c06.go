// Package c06: host and path matching depend only on the canonical host and path.
// Correspondence cases for MatchHost / MatchPath / MatchPathRE (real, provisioned
// modules) and the implementation-only oracle: every spelling of one request
// (letter case, port, percent-encoding of unreserved bytes, duplicate slashes, dot
// segments) and every permutation / padding of one matcher list give one answer, and
// on canonical inputs the answer follows the documented pattern rules.
package c06

import (
	"context"
	"crypto/sha256"
	"encoding/binary"
	"fmt"
	"net/http"
	"net/url"
	"path"
	"regexp"
	"strings"

	"github.com/caddyserver/caddy/v2"
	"github.com/caddyserver/caddy/v2/modules/caddyhttp"

	"verif/harness/internal/core"
)

type prop struct{}

func New() core.Prop { return prop{} }

func (prop) ID() string { return "C06" }

// ---------------------------------------------------------------- protocol

func listField(l []string) string {
	if len(l) == 0 {
		return "."
	}
	parts := make([]string, len(l))
	for i, s := range l {
		parts[i] = core.Hex(s)
	}
	return strings.Join(parts, ",")
}

func parseList(s string) ([]string, error) {
	if s == "." {
		return nil, nil
	}
	var out []string
	for _, p := range strings.Split(s, ",") {
		v, err := core.UnHex(p)
		if err != nil {
			return nil, err
		}
		out = append(out, v)
	}
	return out, nil
}

func isASCII(s string) bool {
	for i := 0; i < len(s); i++ {
		if s[i] >= 0x80 {
			return false
		}
	}
	return true
}

func asciiLower(s string) string {
	b := []byte(s)
	for i, c := range b {
		if c >= 'A' && c <= 'Z' {
			b[i] = c + 32
		}
	}
	return string(b)
}

// replIdentity: Replacer.ReplaceAll(s, "") is the identity (no closing brace, no escaped opener).
func replIdentity(s string) bool {
	return !strings.Contains(s, "}") && !strings.Contains(s, "\\{") && len(s) <= 255
}

func hostEntryOK(e string) bool {
	return isASCII(e) && replIdentity(e) && !strings.Contains(e, "\\") && !strings.Contains(asciiLower(e), "xn--")
}

func inDomainHost(l []string, h string) bool {
	for _, e := range l {
		if !hostEntryOK(e) {
			return false
		}
	}
	return isASCII(h)
}

func inDomainPath(l []string, p, e string) bool {
	for _, x := range l {
		if !isASCII(x) || !replIdentity(x) {
			return false
		}
	}
	return isASCII(p) && isASCII(e)
}

func reLitOK(s string) bool {
	for i := 0; i < len(s); i++ {
		c := s[i]
		if !(c >= 'a' && c <= 'z' || c >= 'A' && c <= 'Z' || c >= '0' && c <= '9' || c == '/' || c == '.' || c == '-' || c == '_') {
			return false
		}
	}
	return true
}

// ---------------------------------------------------------------- the real code

func newRequest(host string, u *url.URL) *http.Request {
	r := &http.Request{Method: "GET", Host: host, URL: u, Header: http.Header{}}
	repl := caddy.NewReplacer()
	return r.WithContext(context.WithValue(context.Background(), caddy.ReplacerCtxKey, repl))
}

// implHost: Provision + Match on a fresh copy. Result "m:0" | "m:1" | "err:…".
func implHost(entries []string, host string) string {
	m := make(caddyhttp.MatchHost, len(entries))
	copy(m, entries)
	if err := m.Provision(caddy.Context{}); err != nil {
		if strings.Contains(err.Error(), "is repeated") {
			return "err:dup"
		}
		return "err:idna"
	}
	ok, err := m.MatchWithError(newRequest(host, &url.URL{Path: "/"}))
	if err != nil {
		return "err:match"
	}
	return mb(ok)
}

func mb(b bool) string {
	if b {
		return "m:1"
	}
	return "m:0"
}

func implPathURL(pats []string, u *url.URL) string {
	m := make(caddyhttp.MatchPath, len(pats))
	copy(m, pats)
	if err := m.Provision(caddy.Context{}); err != nil {
		return "err:provision"
	}
	ok, err := m.MatchWithError(newRequest("h.test", u))
	if err != nil {
		return "err:match"
	}
	return mb(ok)
}

func implPathRE(kind, lit string, u *url.URL) string {
	q := regexp.QuoteMeta(lit)
	switch kind {
	case "full":
		q = "^" + q + "$"
	case "pre":
		q = "^" + q
	}
	m := caddyhttp.MatchPathRE{MatchRegexp: caddyhttp.MatchRegexp{Pattern: q}}
	if err := m.Provision(caddy.Context{}); err != nil {
		return "err:provision"
	}
	ok, err := m.MatchWithError(newRequest("h.test", u))
	if err != nil {
		return "err:match"
	}
	return mb(ok)
}

func lineRand(line string) *core.Rand {
	h := sha256.Sum256([]byte(line))
	return core.NewRand(binary.LittleEndian.Uint64(h[:8]))
}

// ---------------------------------------------------------------- Run

func (prop) Run(line string) core.Outcome {
	f := strings.Fields(line)
	if len(f) == 0 {
		return core.Outcome{Impl: "bad-op"}
	}
	if o, ok := runVia(f); ok {
		return o
	}
	if o, ok := runProv(line, f); ok {
		return o
	}
	if f[0] == "srvredir" && len(f) == 7 {
		return runRedir(line, f)
	}
	if f[0] == "srvhost" && len(f) == 6 {
		return runSrv(line, f)
	}
	if f[0] == "cfsite" && len(f) == 8 {
		return runSite(line, f)
	}
	switch {
	case f[0] == "host" && len(f) == 3:
		l, e1 := parseList(f[1])
		h, e2 := core.UnHex(f[2])
		if e1 != nil || e2 != nil {
			return core.Outcome{Impl: "bad-op"}
		}
		return runHost(line, l, h)
	case f[0] == "path" && len(f) == 4:
		l, e1 := parseList(f[1])
		p, e2 := core.UnHex(f[2])
		e, e3 := core.UnHex(f[3])
		if e1 != nil || e2 != nil || e3 != nil {
			return core.Outcome{Impl: "bad-op"}
		}
		return runPath(line, l, p, e)
	case f[0] == "pathpair" && len(f) == 7:
		l, e0 := parseList(f[2])
		var v [4]string
		var err error
		for i := 0; i < 4 && err == nil; i++ {
			v[i], err = core.UnHex(f[3+i])
		}
		if e0 != nil || err != nil {
			return core.Outcome{Impl: "bad-op"}
		}
		return runPathPair(f[1], l, v[0], v[1], v[2], v[3])
	case f[0] == "pathre" && len(f) == 4:
		lit, e1 := core.UnHex(f[2])
		p, e2 := core.UnHex(f[3])
		if e1 != nil || e2 != nil || (f[1] != "full" && f[1] != "pre" && f[1] != "sub") {
			return core.Outcome{Impl: "bad-op"}
		}
		return runPathRE(line, f[1], lit, p)
	}
	return core.Outcome{Impl: "bad-op"}
}

// ---------------------------------------------------------------- host

func flipCase(rng *core.Rand, s string, mode int) string {
	b := []byte(s)
	for i, c := range b {
		isL := c >= 'a' && c <= 'z'
		isU := c >= 'A' && c <= 'Z'
		if !isL && !isU {
			continue
		}
		flip := false
		switch mode {
		case 0:
			flip = rng.Chance(1, 2)
		case 1:
			flip = isL // all upper
		case 2:
			flip = isU // all lower
		}
		if flip {
			b[i] = c ^ 0x20
		}
	}
	return string(b)
}

func allOf(s, set string) bool {
	for i := 0; i < len(s); i++ {
		if s[i] < 0x80 && !strings.ContainsRune(set, rune(s[i])) {
			return false
		}
	}
	return true
}

const hostChars = "abcdefghijklmnopqrstuvwxyzABCDEFGHIJKLMNOPQRSTUVWXYZ0123456789.-_*{"
const v6Chars = "0123456789abcdefABCDEF:."

func isDigits(s string) bool {
	for i := 0; i < len(s); i++ {
		if s[i] < '0' || s[i] > '9' {
			return false
		}
	}
	return true
}

// portVariants returns spellings of r.Host that denote the same host BY CONSTRUCTION
// (port added / removed, brackets added / removed); nil if the shape is not plain.
func portVariants(h string) []string {
	bare := h
	// strip one ":digits" suffix from name-like hosts
	if i := strings.LastIndexByte(h, ':'); i >= 0 && !strings.HasPrefix(h, "[") && strings.Count(h, ":") == 1 && isDigits(h[i+1:]) {
		bare = h[:i]
	} else if strings.HasPrefix(h, "[") {
		if j := strings.IndexByte(h, ']'); j >= 0 {
			rest := h[j+1:]
			if rest == "" || (rest[0] == ':' && isDigits(rest[1:])) {
				inner := h[1:j]
				if inner != "" && allOf(inner, v6Chars) && isASCII(inner) && strings.Count(inner, ":") >= 2 {
					return uniq(h, []string{inner, "[" + inner + "]", "[" + inner + "]:443", "[" + inner + "]:"})
				}
			}
		}
		return nil
	}
	if strings.Count(bare, ":") >= 2 && allOf(bare, v6Chars) && isASCII(bare) && bare == h {
		return uniq(h, []string{"[" + bare + "]", "[" + bare + "]:8080"})
	}
	if bare == "" || strings.ContainsAny(bare, ":[]") || !allOf(bare, hostChars) {
		return nil
	}
	return uniq(h, []string{bare, bare + ":80", bare + ":8443", bare + ":"})
}

func uniq(skip string, l []string) []string {
	var out []string
	for _, s := range l {
		if s != skip {
			out = append(out, s)
		}
	}
	return out
}

func shuffled(rng *core.Rand, l []string) []string {
	out := append([]string(nil), l...)
	for i := len(out) - 1; i > 0; i-- {
		j := rng.Intn(i + 1)
		out[i], out[j] = out[j], out[i]
	}
	return out
}

func isFiller(e string) bool {
	le := asciiLower(e)
	return strings.HasSuffix(le, ".filler.invalid") || strings.HasSuffix(le, ".pad.invalid")
}

// specHost: the documented rules on a canonical request host (lower case, no port).
func specHost(entries []string, host string) bool {
	for _, e := range entries {
		le := asciiLower(e)
		if strings.Contains(le, "*") {
			pp, hp := strings.Split(le, "."), strings.Split(host, ".")
			if len(pp) != len(hp) {
				continue
			}
			ok := true
			for i := range pp {
				// "*" stands for exactly one NON-EMPTY label
				if (pp[i] == "*" && hp[i] == "") || (pp[i] != "*" && pp[i] != hp[i]) {
					ok = false
					break
				}
			}
			if ok {
				return true
			}
		} else if le == host {
			return true
		}
	}
	return false
}

func runHost(line string, l []string, h string) core.Outcome {
	base := implHost(l, h)
	o := core.Outcome{Impl: base}
	dom := inDomainHost(l, h)
	if !dom {
		o.Impl = "ood"
		o.Tags = append(o.Tags, "host:ood")
	}
	large := len(l) > 100
	o.Tags = append(o.Tags, "host", "host:"+base)
	if large {
		o.Tags = append(o.Tags, "host:large")
	} else {
		o.Tags = append(o.Tags, "host:small")
	}
	if len(l) >= 95 && len(l) <= 106 {
		o.Tags = append(o.Tags, "host:near-threshold")
	}
	nf, nw := 0, 0
	for _, e := range l {
		if strings.ContainsAny(e, "{*") {
			nf++
		}
		if strings.Contains(e, "*") {
			nw++
		}
	}
	if nw > 0 {
		o.Tags = append(o.Tags, "host:has-wildcard")
	}
	if nf > nw {
		o.Tags = append(o.Tags, "host:has-brace-entry")
	}
	if strings.ContainsAny(h, ":[]") {
		o.Tags = append(o.Tags, "host:port-or-bracket")
	}
	if h != asciiLower(h) {
		o.Tags = append(o.Tags, "host:mixed-case-request")
	}
	if len(l) == 0 {
		o.Tags = append(o.Tags, "trivial")
	}
	if !strings.HasPrefix(base, "m:") {
		return o
	}
	rng := lineRand(line)
	fail := func(class, what string) {
		if len(o.Failures) < 4 {
			o.Failures = append(o.Failures, core.Failure{Class: class, What: what})
		}
	}
	// ---- what the fast path relies on: after Provision (idna.ToASCII) every entry is ASCII,
	// so ToLower-equality and EqualFold agree on it for ASCII request hosts
	{
		m := make(caddyhttp.MatchHost, len(l))
		copy(m, l)
		if err := m.Provision(caddy.Context{}); err == nil {
			for i, e := range m {
				if !isASCII(e) {
					fail("host-provision-left-nonascii-entry", fmt.Sprintf("entry %q is %q after Provision (not ASCII)", l[i], e))
					break
				}
			}
		}
		for _, e := range l {
			if !isASCII(e) {
				o.Tags = append(o.Tags, "host:nonascii-entry")
				break
			}
		}
	}
	// class suffix: the one known residual concerns U+017F (long s) and U+0130 (dotted capital I),
	// the only non-ASCII letters whose strings.ToLower / strings.EqualFold relation to an ASCII
	// letter differs; any other non-ASCII request gets its own (unlisted) class
	sfx := ""
	switch {
	case strings.Contains(h, "\u017f") || strings.Contains(h, "\u0130"):
		sfx = ":request-has-U+017F-or-U+0130"
	case !isASCII(h):
		sfx = ":nonascii-request"
	}
	// ---- spelling: letter case
	for mode := 0; mode < 3; mode++ {
		v := flipCase(rng, h, mode)
		if v == h {
			continue
		}
		if got := implHost(l, v); got != base {
			fail("host-case"+sfx, fmt.Sprintf("list of %d: Host %q -> %s but %q -> %s", len(l), h, base, v, got))
		}
	}
	// ---- spelling: port / brackets
	for _, v := range portVariants(h) {
		if got := implHost(l, v); got != base {
			fail("host-port"+sfx, fmt.Sprintf("list of %d: Host %q -> %s but %q -> %s", len(l), h, base, v, got))
		}
	}
	// ---- list: order
	if len(l) > 1 {
		for k := 0; k < 3; k++ {
			p := shuffled(rng, l)
			if k == 0 {
				for i, j := 0, len(p)-1; i < j; i, j = i+1, j-1 {
					p[i], p[j] = l[j], l[i]
				}
				if len(p)%2 == 1 {
					p[len(p)/2] = l[len(l)/2]
				}
			}
			if got := implHost(p, h); got != base {
				fail("host-perm"+sfx, fmt.Sprintf("Host %q: list %s -> %s, permuted %s -> %s", h, listField(l), base, listField(p), got))
			}
		}
	}
	// ---- list: size (pad with entries that cannot match / drop such entries)
	lh := asciiLower(h)
	if !strings.Contains(lh, ".invalid") {
		seen := map[string]bool{}
		for _, e := range l {
			seen[asciiLower(e)] = true
		}
		for k := 0; k < 2; k++ {
			target := 101 + rng.Intn(60)
			if k == 1 {
				target = 101
			}
			if len(l) >= target {
				continue
			}
			p := append([]string(nil), l...)
			for i := 0; len(p) < target; i++ {
				var e string
				switch {
				case k == 0 && i%7 == 3:
					e = fmt.Sprintf("*.w%d.pad.invalid", i)
				case i%5 == 1:
					e = fmt.Sprintf("ZF%d.Pad.Invalid", i)
				default:
					e = fmt.Sprintf("zf%d.pad.invalid", i)
				}
				if seen[asciiLower(e)] {
					continue
				}
				p = append(p, e)
			}
			p = shuffled(rng, p)
			if got := implHost(p, h); got != base {
				fail("host-size"+sfx, fmt.Sprintf("Host %q: list of %d -> %s, same list padded to %d with unrelated names -> %s (%s)", h, len(l), base, len(p), got, listField(p)))
			}
		}
		if large {
			var p []string
			for _, e := range l {
				if !isFiller(e) {
					p = append(p, e)
				}
			}
			if len(p) < len(l) {
				if got := implHost(p, h); got != base {
					fail("host-size"+sfx, fmt.Sprintf("Host %q: list of %d -> %s, without its %d unrelated filler names -> %s (%s)", h, len(l), base, len(l)-len(p), got, listField(p)))
				}
			}
		}
	}
	// ---- documented rules on a canonical request
	if dom && h == lh && !strings.ContainsAny(h, ":[]") {
		if want := mb(specHost(l, h)); want != base {
			fail("host-rule-mismatch", fmt.Sprintf("canonical Host %q, list %s: got %s, documented rules give %s", h, listField(l), base, want))
		}
	}
	return o
}

// ---------------------------------------------------------------- path

type tok struct {
	s   string
	esc bool
}

func tokens(raw string) []tok {
	var out []tok
	for i := 0; i < len(raw); {
		if raw[i] == '%' && i+2 < len(raw) && isHex(raw[i+1]) && isHex(raw[i+2]) {
			out = append(out, tok{raw[i : i+3], true})
			i += 3
		} else {
			out = append(out, tok{raw[i : i+1], false})
			i++
		}
	}
	return out
}

func isHex(c byte) bool {
	return c >= '0' && c <= '9' || c >= 'a' && c <= 'f' || c >= 'A' && c <= 'F'
}

func untok(t []tok) string {
	var sb strings.Builder
	for _, x := range t {
		sb.WriteString(x.s)
	}
	return sb.String()
}

func isUnreserved(c byte) bool {
	return c >= 'a' && c <= 'z' || c >= 'A' && c <= 'Z' || c >= '0' && c <= '9' || c == '-' || c == '.' || c == '_' || c == '~'
}

// mutate applies 1..3 edits of one kind to a raw (escaped) path. ok=false if nothing changed.
func mutate(rng *core.Rand, raw, kind string) (string, bool) {
	t := tokens(raw)
	n := 1 + rng.Intn(3)
	changed := false
	for k := 0; k < n; k++ {
		var idx []int
		for i, x := range t {
			switch kind {
			case "case":
				if !x.esc && (x.s[0]|0x20) >= 'a' && (x.s[0]|0x20) <= 'z' {
					idx = append(idx, i)
				}
			case "hexcase":
				if x.esc && strings.ContainsAny(x.s, "abcdefABCDEF") {
					idx = append(idx, i)
				}
			case "pct":
				if !x.esc && len(x.s) == 1 && isUnreserved(x.s[0]) {
					idx = append(idx, i)
				}
			case "enccase":
				// an escape that decodes to an ASCII letter: %41 <-> %61
				if x.esc {
					var b byte
					fmt.Sscanf(x.s[1:], "%02x", &b)
					if (b|0x20) >= 'a' && (b|0x20) <= 'z' {
						idx = append(idx, i)
					}
				}
			case "slash", "dot", "dotdot":
				if !x.esc && x.s == "/" {
					idx = append(idx, i)
				}
			}
		}
		if len(idx) == 0 {
			break
		}
		i := idx[rng.Intn(len(idx))]
		switch kind {
		case "case":
			t[i].s = string([]byte{t[i].s[0] ^ 0x20})
		case "hexcase":
			b := []byte(t[i].s)
			for j := 1; j < 3; j++ {
				if (b[j]|0x20) >= 'a' && (b[j]|0x20) <= 'f' && rng.Chance(1, 2) {
					b[j] ^= 0x20
				}
			}
			t[i].s = string(b)
		case "enccase":
			var b byte
			fmt.Sscanf(t[i].s[1:], "%02x", &b)
			t[i].s = fmt.Sprintf("%%%02x", b^0x20)
		case "pct":
			f := "%%%02x"
			if rng.Chance(1, 2) {
				f = "%%%02X"
			}
			t[i] = tok{fmt.Sprintf(f, t[i].s[0]), true}
		case "slash":
			t[i].s = strings.Repeat("/", 2+rng.Intn(2))
		case "dot":
			t[i].s = "/./"
		case "dotdot":
			t[i].s = "/" + rng.Pick([]string{"zz9", "x", "..."}) + "/../"
		}
		changed = true
	}
	out := untok(t)
	return out, changed && out != raw
}

// encCaseSafe: with a '%' pattern in the list, re-casing an escaped letter of the request
// (%41 <-> %61) is an equivalent spelling only if no '%' pattern compares such an escape in
// escaped space or searches the raw text for a terminator: no '*' and no escape that decodes
// to a letter in any pattern that contains '%'.
func encCaseSafe(l []string) bool {
	for _, p := range l {
		if !strings.Contains(p, "%") {
			continue
		}
		if strings.Contains(p, "*") {
			return false
		}
		for _, x := range tokens(p) {
			if x.esc {
				var b byte
				fmt.Sscanf(x.s[1:], "%02x", &b)
				if (b|0x20) >= 'a' && (b|0x20) <= 'z' {
					return false
				}
			}
		}
	}
	return true
}

func hasPct(l []string) bool {
	for _, p := range l {
		if strings.Contains(p, "%") {
			return true
		}
	}
	return false
}

func hasDoubleSlash(l []string) bool {
	for _, p := range l {
		if strings.Contains(p, "//") {
			return true
		}
	}
	return false
}

// specPath: documented rules for patterns without glob metacharacters other than the
// leading/trailing stars, on a canonical (lower-case, cleaned) path. ok=false: not covered.
func specPath(pats []string, p string) (want bool, ok bool) {
	for _, raw := range pats {
		pat := asciiLower(raw)
		if strings.ContainsAny(pat, "?[\\%{") || strings.Contains(pat, "//") {
			return false, false
		}
		n := strings.Count(pat, "*")
		switch {
		case raw == "*":
			want = true
		case n == 0:
			want = want || pat == p
		case n == 1 && strings.HasPrefix(pat, "*"):
			want = want || strings.HasSuffix(p, pat[1:])
		case n == 1 && strings.HasSuffix(pat, "*"):
			want = want || strings.HasPrefix(p, pat[:len(pat)-1])
		case n == 2 && strings.HasPrefix(pat, "*") && strings.HasSuffix(pat, "*"):
			want = want || strings.Contains(p, pat[1:len(pat)-1])
		default:
			return false, false
		}
	}
	return want, true
}

func stdClean(p string) string {
	c := path.Clean(p)
	if c != "/" && strings.HasSuffix(p, "/") {
		c += "/"
	}
	return c
}

func runPath(line string, l []string, p, e string) core.Outcome {
	u := &url.URL{Path: p, RawPath: e}
	if u.EscapedPath() != e {
		o := core.Outcome{Impl: "bad-op", Tags: []string{"path:inconsistent-escaped", "trivial"}}
		if !inDomainPath(l, p, e) {
			o.Impl = "ood"
		}
		return o
	}
	base := implPathURL(l, u)
	o := core.Outcome{Impl: base}
	dom := inDomainPath(l, p, e)
	if !dom {
		o.Impl = "ood"
		o.Tags = append(o.Tags, "path:ood")
	}
	pct, dbl := hasPct(l), hasDoubleSlash(l)
	mode := "plain"
	switch {
	case pct && dbl:
		mode = "pct+dblslash"
	case pct:
		mode = "pct"
	case dbl:
		mode = "dblslash"
	}
	o.Tags = append(o.Tags, "path", "path:"+base, "path-mode:"+mode)
	for _, x := range l {
		lx := asciiLower(x)
		n := strings.Count(lx, "*")
		switch {
		case lx == "*":
			o.Tags = append(o.Tags, "pat:star")
		case strings.Contains(lx, "%"):
			o.Tags = append(o.Tags, "pat:escaped")
		case n == 2 && strings.HasPrefix(lx, "*") && strings.HasSuffix(lx, "*"):
			o.Tags = append(o.Tags, "pat:substring")
		case n == 1 && strings.HasPrefix(lx, "*"):
			o.Tags = append(o.Tags, "pat:suffix")
		case n == 1 && strings.HasSuffix(lx, "*"):
			o.Tags = append(o.Tags, "pat:prefix")
		case strings.ContainsAny(lx, "*?[\\"):
			o.Tags = append(o.Tags, "pat:glob")
		default:
			o.Tags = append(o.Tags, "pat:exact")
		}
	}
	if len(l) == 1 && len(o.Tags) > 0 {
		o.Tags = append(o.Tags, "single-"+o.Tags[len(o.Tags)-1]+":"+base)
	}
	if !strings.HasPrefix(p, "/") {
		o.Tags = append(o.Tags, "path:not-rooted")
	}
	if p != stdClean(p) {
		o.Tags = append(o.Tags, "path:unclean-request")
	}
	if p != asciiLower(p) {
		o.Tags = append(o.Tags, "path:mixed-case-request")
	}
	if e != p {
		o.Tags = append(o.Tags, "path:has-escapes")
	}
	if len(l) == 0 {
		o.Tags = append(o.Tags, "trivial")
	}
	if !strings.HasPrefix(base, "m:") {
		return o
	}
	rng := lineRand(line)
	fail := func(class, what string) {
		if len(o.Failures) < 4 {
			o.Failures = append(o.Failures, core.Failure{Class: class, What: what})
		}
	}
	// ---- spellings of the request target
	if strings.HasPrefix(e, "/") {
		kinds := []string{"hexcase", "dot", "dotdot", "case"}
		if !pct {
			kinds = append(kinds, "pct", "enccase")
		} else if encCaseSafe(l) {
			kinds = append(kinds, "enccase")
		}
		if !dbl {
			kinds = append(kinds, "slash")
		}
		try := func(kind, raw string) {
			vu, err := url.ParseRequestURI(raw)
			if err != nil || vu.RawQuery != "" || vu.ForceQuery {
				return
			}
			if got := implPathURL(l, vu); got != base {
				fail("path-spelling:"+kind+":"+mode, fmt.Sprintf("patterns %q: %q -> %s but the equivalent spelling %q -> %s", l, e, base, raw, got))
			}
		}
		for _, kind := range kinds {
			for k := 0; k < 2; k++ {
				if raw, ok := mutate(rng, e, kind); ok {
					try(kind, raw)
				}
			}
		}
		// everything at once
		for k := 0; k < 2; k++ {
			raw := e
			for j := 0; j < 4; j++ {
				if r2, ok := mutate(rng, raw, kinds[rng.Intn(len(kinds))]); ok {
					raw = r2
				}
			}
			if raw != e {
				try("mixed", raw)
			}
		}
	}
	// ---- '%' patterns: the spelling class of the request built around its canonical spelling
	// (escapes at the very end / start / adjacent); encoding an unreserved byte never matters
	if terms, ok := pctSpellingDomain(l); pct && ok && strings.HasPrefix(e, "/") {
		o.Tags = append(o.Tags, "path:pct-spelling-class")
		var got []string
		sp := boundarySpellings(e, terms)
		for _, raw := range sp {
			vu, err := url.ParseRequestURI(raw)
			if err != nil || vu.RawQuery != "" || vu.ForceQuery || vu.Path != p {
				got = append(got, "")
				continue
			}
			got = append(got, implPathURL(l, vu))
		}
		ref, refRaw := base, e
		if got[0] != "" {
			ref, refRaw = got[0], sp[0]
		}
		encTerm := false
		for _, x := range tokens(e) {
			if x.esc && terms != "" && strings.IndexByte(terms, unhex2(x.s[1:])|0x20) >= 0 {
				encTerm = true
			}
		}
		if ref != base && encTerm {
			fail("path-spelling:pct-wildcard-terminator", fmt.Sprintf("patterns %q: canonical spelling %q -> %s but the equivalent spelling %q (the byte ending a wildcard span percent-encoded) -> %s", l, sp[0], ref, e, base))
		} else if ref != base && hasEncodedDotSeg(e) {
			fail("path-spelling:pct-encoded-dot-segment", fmt.Sprintf("patterns %q: canonical spelling %q -> %s but the equivalent spelling %q (a dot segment spelt with %%2e) -> %s", l, sp[0], ref, e, base))
		} else if ref != base {
			fail("path-spelling:pct-literal:"+mode, fmt.Sprintf("patterns %q: canonical spelling %q -> %s but the equivalent spelling %q -> %s", l, sp[0], ref, e, base))
		}
		for i, g := range got {
			if g != "" && g != ref && hasEncodedDotSeg(sp[i]) {
				fail("path-spelling:pct-encoded-dot-segment", fmt.Sprintf("patterns %q: %q -> %s but the equivalent spelling %q (a dot segment spelt with %%2e) -> %s", l, refRaw, ref, sp[i], g))
				// reported once; keep looking for a failure of another kind
				for j := i + 1; j < len(got); j++ {
					if hasEncodedDotSeg(sp[j]) {
						got[j] = ""
					}
				}
				continue
			}
			if g != "" && g != ref {
				fail("path-spelling:pct-literal:"+mode, fmt.Sprintf("patterns %q: %q -> %s but the equivalent spelling %q (unreserved bytes percent-encoded) -> %s", l, refRaw, ref, sp[i], g))
				break
			}
		}
		if ref == "m:1" {
			o.Tags = append(o.Tags, "path:pct-spelling-class-matching")
		}
		// the byte that ends a wildcard span, percent-encoded
		if terms != "" {
			t := tokens(canonU(e))
			for i := len(t) - 1; i >= 0; i-- {
				if !t[i].esc && strings.IndexByte(terms, t[i].s[0]|0x20) >= 0 && isUnreserved(t[i].s[0]) {
					raw := encodeAt(t, true, i)
					if vu, err := url.ParseRequestURI(raw); err == nil && vu.Path == p {
						if g := implPathURL(l, vu); g != ref {
							fail("path-spelling:pct-wildcard-terminator", fmt.Sprintf("patterns %q: %q -> %s but the equivalent spelling %q (the byte ending a wildcard span percent-encoded) -> %s", l, refRaw, ref, raw, g))
						}
					}
					break
				}
			}
		}
	}
	// ---- order of the list
	if len(l) > 1 {
		for k := 0; k < 2; k++ {
			pl := shuffled(rng, l)
			if got := implPathURL(pl, u); got != base {
				fail("path-perm", fmt.Sprintf("path %q: patterns %q -> %s, permuted %q -> %s", e, l, base, pl, got))
			}
		}
	}
	// ---- number of entries: patterns that cannot match
	{
		pl := append([]string(nil), l...)
		for i := 0; i < 1+rng.Intn(120); i++ {
			pl = append(pl, fmt.Sprintf("/zz-pad-%d/never", i))
		}
		pl = shuffled(rng, pl)
		if !strings.Contains(asciiLower(p), "zz-pad-") {
			if got := implPathURL(pl, u); got != base {
				fail("path-size", fmt.Sprintf("path %q: patterns %q -> %s, padded with unrelated patterns -> %s", e, l, base, got))
			}
		}
	}
	// ---- documented rules on a canonical request
	if dom && !pct && !dbl && p == asciiLower(p) && p == stdClean(p) && strings.HasPrefix(p, "/") {
		if want, ok := specPath(l, p); ok && mb(want) != base {
			fail("path-rule-mismatch", fmt.Sprintf("canonical path %q, patterns %q: got %s, documented rules give %s", p, l, base, mb(want)))
		}
	}
	// ---- documented rules on a canonical request, lists with star-free '%' patterns: exact match
	if dom && pct && !dbl && p == asciiLower(p) && p == stdClean(p) && strings.HasPrefix(p, "/") && e == canonU(e) {
		want, covered, longer := false, true, false
		for _, raw := range l {
			if strings.Contains(raw, "%") {
				if !simplePct(asciiLower(raw), false) {
					covered = false
					break
				}
				want = want || specEsc(raw, e, false)
				longer = longer || specEsc(raw, e, true)
			} else if w, ok := specPath([]string{raw}, p); ok {
				want = want || w
			} else {
				covered = false
				break
			}
		}
		if covered {
			o.Tags = append(o.Tags, "path:pct-rule-checked")
			if mb(want) != base {
				class := "path-rule-mismatch:pct"
				if base == "m:1" && longer {
					class = "path-rule-mismatch:escaped-pattern-matches-longer-path"
				}
				fail(class, fmt.Sprintf("canonical request %q, patterns %q: got %s, documented rules (exact match) give %s", e, l, base, mb(want)))
			}
		}
	}
	return o
}

func runPathRE(line, kind, lit, p string) core.Outcome {
	u := &url.URL{Path: p}
	base := implPathRE(kind, lit, u)
	o := core.Outcome{Impl: base, Tags: []string{"pathre", "pathre:" + kind, "pathre:" + base}}
	if !(reLitOK(lit) && isASCII(p)) {
		o.Impl = "ood"
		return o
	}
	if p != stdClean(p) {
		o.Tags = append(o.Tags, "pathre:unclean-request")
	}
	if !strings.HasPrefix(base, "m:") {
		return o
	}
	e := u.EscapedPath()
	if strings.HasPrefix(e, "/") {
		rng := lineRand(line)
		for _, k := range []string{"slash", "dot", "dotdot", "pct", "hexcase"} {
			for j := 0; j < 2; j++ {
				raw, ok := mutate(rng, e, k)
				if !ok {
					continue
				}
				vu, err := url.ParseRequestURI(raw)
				if err != nil || vu.RawQuery != "" || vu.ForceQuery {
					continue
				}
				if got := implPathRE(kind, lit, vu); got != base && len(o.Failures) < 4 {
					o.Failures = append(o.Failures, core.Failure{Class: "pathre-spelling:" + k,
						What: fmt.Sprintf("path_regexp %s %q: %q -> %s but the equivalent spelling %q -> %s", kind, lit, e, base, raw, got)})
				}
			}
		}
	}
	return o
}

// squeeze merges every run of slashes into one.
func squeeze(s string) string {
	var sb strings.Builder
	for i := 0; i < len(s); i++ {
		if s[i] == '/' && i+1 < len(s) && s[i+1] == '/' {
			continue
		}
		sb.WriteByte(s[i])
	}
	return sb.String()
}

// runPathPair: two explicit spellings of one request; kind names what they differ by.
func runPathPair(kind string, l []string, p1, e1, p2, e2 string) core.Outcome {
	if !(inDomainPath(l, p1, e1) && inDomainPath(l, p2, e2)) {
		return core.Outcome{Impl: "ood", Tags: []string{"pathpair:ood", "trivial"}}
	}
	u1, u2 := &url.URL{Path: p1, RawPath: e1}, &url.URL{Path: p2, RawPath: e2}
	if u1.EscapedPath() != e1 || u2.EscapedPath() != e2 {
		return core.Outcome{Impl: "bad-op", Tags: []string{"pathpair:inconsistent-escaped", "trivial"}}
	}
	related := false
	switch kind {
	case "case":
		related = asciiLower(p1) == asciiLower(p2) && asciiLower(e1) == asciiLower(e2)
	case "slash":
		related = squeeze(p1) == squeeze(p2) && squeeze(e1) == squeeze(e2)
	case "pct":
		related = p1 == p2
	}
	if !related {
		return core.Outcome{Impl: "bad-op", Tags: []string{"pathpair:unrelated", "trivial"}}
	}
	r1, r2 := implPathURL(l, u1), implPathURL(l, u2)
	o := core.Outcome{Impl: r1 + " " + r2, Tags: []string{"pathpair", "pathpair:" + kind}}
	if r1 == r2 {
		return o
	}
	o.Tags = append(o.Tags, "pathpair:differs")
	pct, dbl := hasPct(l), hasDoubleSlash(l)
	what := fmt.Sprintf("patterns %q: %q (raw %q) -> %s but %q (raw %q) -> %s", l, p1, e1, r1, p2, e2, r2)
	switch {
	case kind == "pct" && pct && canonU(e1) == canonU(e2) && func() bool { t, ok := pctSpellingDomain(l); return ok && t == "" }():
		// the two spellings differ only by the percent-encoding of unreserved bytes and no
		// pattern escape stands for an unreserved byte
		if hasEncodedDotSeg(e1) || hasEncodedDotSeg(e2) {
			o.Failures = append(o.Failures, core.Failure{Class: "path-pair:pct-encoded-dot-segment", What: what})
		} else {
			o.Failures = append(o.Failures, core.Failure{Class: "path-pair:pct-literal", What: what})
		}
	case kind == "slash" && dbl, kind == "pct" && pct:
		// documented intent of a pattern with "//" resp. "%": not a failure
		o.Tags = append(o.Tags, "pathpair:documented-mode")
	default:
		o.Failures = append(o.Failures, core.Failure{Class: "path-pair:" + kind, What: what})
	}
	return o
}
