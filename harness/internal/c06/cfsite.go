package c06

import (
	"context"
	"encoding/json"
	"fmt"
	"net/http"
	"net/http/httptest"
	"net/url"
	"strconv"
	"strings"

	"github.com/caddyserver/caddy/v2"
	"github.com/caddyserver/caddy/v2/caddyconfig"
	_ "github.com/caddyserver/caddy/v2/caddyconfig/httpcaddyfile" // the adapter under test
	"github.com/caddyserver/caddy/v2/modules/caddyhttp"
	_ "github.com/caddyserver/caddy/v2/modules/caddyhttp/rewrite" // handle_path

	"verif/harness/internal/core"
)

// cfsite <key> <none|star|implicit|named> <hosts> <patterns> <Host> <URL.Path> <EscapedPath>
//
// A Caddyfile site block
//
//	<key> {
//		[@m { host <hosts…>; path <patterns…> }]
//		respond [*|/pattern|@m] "hit"
//	}
//
// goes through the REAL adapter (ParseAddress/Normalize, compileEncodedMatcherSets,
// matcherSetFromMatcherToken, matcher UnmarshalCaddyfile), its JSON routes are provisioned and
// compiled by the real RouteList and serve the request; the answer is whether the handler ran.

func all(s string, ok func(byte) bool) bool {
	for i := 0; i < len(s); i++ {
		if !ok(s[i]) {
			return false
		}
	}
	return true
}

func isAlnum(c byte) bool {
	return c >= 'a' && c <= 'z' || c >= 'A' && c <= 'Z' || c >= '0' && c <= '9'
}
func hostTokByte(c byte) bool { return isAlnum(c) || c == '.' || c == '*' || c == '_' || c == '-' }
func keyPathByte(c byte) bool { return isAlnum(c) || strings.IndexByte("./*_-%~", c) >= 0 }
func patTokByte(c byte) bool {
	return isAlnum(c) || strings.IndexByte("./*_-%?[]^~:@+=,;!$&()", c) >= 0
}

func trimScheme(key string) string {
	if strings.HasPrefix(key, "http://") {
		return key[len("http://"):]
	}
	return strings.TrimPrefix(key, "https://")
}

func siteKeyOK(key string) bool {
	rest := trimScheme(key)
	hp, path := rest, ""
	if i := strings.IndexByte(rest, '/'); i >= 0 {
		hp, path = rest[:i], rest[i:]
	}
	host, portPart := hp, ""
	if i := strings.IndexByte(hp, ':'); i >= 0 {
		host, portPart = hp[:i], hp[i:]
	}
	if !all(host, hostTokByte) || !all(path, func(c byte) bool { return keyPathByte(c) || c == '/' }) {
		return false
	}
	if portPart != "" {
		port := portPart[1:]
		if port == "" || len(port) > 5 || !isDigits(port) {
			return false
		}
		n, _ := strconv.Atoi(port)
		if n < 1 || n > 65535 || (strings.HasPrefix(key, "http://") && n == 443) || (strings.HasPrefix(key, "https://") && n == 80) {
			return false
		}
	}
	if host == "" && portPart == "" {
		return false
	}
	return !strings.Contains(rest, "://")
}

func cfTokensOK(mode string, hosts, pats []string) bool {
	for _, h := range hosts {
		if h == "" || !all(h, hostTokByte) {
			return false
		}
	}
	for _, p := range pats {
		if p == "" || !all(p, patTokByte) {
			return false
		}
	}
	switch mode {
	case "none", "star":
		return len(hosts) == 0 && len(pats) == 0
	case "implicit", "handle", "handlepath":
		return len(hosts) == 0 && len(pats) == 1 && strings.HasPrefix(pats[0], "/")
	case "named":
		return len(hosts)+len(pats) > 0
	}
	return false
}

func caddyfileFor(key, mode string, hosts, pats []string) string {
	var sb strings.Builder
	sb.WriteString("{\n\tauto_https off\n}\n" + key + " {\n")
	tok := ""
	switch mode {
	case "star":
		tok = "* "
	case "implicit":
		tok = pats[0] + " "
	case "handle", "handlepath":
		d := "handle"
		if mode == "handlepath" {
			d = "handle_path"
		} else if len(pats[0])%2 == 0 {
			d = "route"
		}
		sb.WriteString("\t" + d + " " + pats[0] + " {\n\t\trespond \"hit\"\n\t}\n}\n")
		return sb.String()
	case "named":
		sb.WriteString("\t@m {\n")
		if len(hosts) > 0 {
			sb.WriteString("\t\thost " + strings.Join(hosts, " ") + "\n")
		}
		if len(pats) > 0 {
			sb.WriteString("\t\tpath " + strings.Join(pats, " ") + "\n")
		}
		sb.WriteString("\t}\n")
		tok = "@m "
	}
	sb.WriteString("\trespond " + tok + "\"hit\"\n}\n")
	return sb.String()
}

type adaptedCfg struct {
	Apps struct {
		HTTP struct {
			Servers map[string]struct {
				Routes json.RawMessage `json:"routes"`
			} `json:"servers"`
		} `json:"http"`
	} `json:"apps"`
}

// implSite: adapt, provision, serve. "m:1" iff the site's handler produced the response.
func implSite(cf, host string, u *url.URL) string {
	out, _, err := caddyconfig.GetAdapter("caddyfile").Adapt([]byte(cf), map[string]any{"filename": "Caddyfile"})
	if err != nil {
		return "err:adapt"
	}
	var c adaptedCfg
	if err := json.Unmarshal(out, &c); err != nil || len(c.Apps.HTTP.Servers) != 1 {
		return "err:shape"
	}
	for _, s := range c.Apps.HTTP.Servers {
		var rl caddyhttp.RouteList
		if err := json.Unmarshal(s.Routes, &rl); err != nil {
			return "err:routes"
		}
		if err := rl.Provision(realCtx()); err != nil {
			return provErr(err)
		}
		h := rl.Compile(caddyhttp.HandlerFunc(func(http.ResponseWriter, *http.Request) error { return nil }))
		uc := *u // handlers (handle_path's rewrite) change the URL in place
		r := &http.Request{Method: "GET", Host: host, URL: &uc, Header: http.Header{}, RemoteAddr: "192.0.2.1:1234",
			Proto: "HTTP/1.1", ProtoMajor: 1, ProtoMinor: 1}
		r = r.WithContext(context.Background())
		w := httptest.NewRecorder()
		r = caddyhttp.PrepareRequest(r, caddy.NewReplacer(), w, &caddyhttp.Server{})
		if err := h.ServeHTTP(w, r); err != nil {
			return "err:serve"
		}
		return mb(w.Body.String() == "hit")
	}
	return "err:shape"
}

func runSite(line string, f []string) core.Outcome {
	key, e0 := core.UnHex(f[1])
	mode := f[2]
	hosts, e1 := parseList(f[3])
	pats, e2 := parseList(f[4])
	h, e3 := core.UnHex(f[5])
	p, e4 := core.UnHex(f[6])
	e, e5 := core.UnHex(f[7])
	if e0 != nil || e1 != nil || e2 != nil || e3 != nil || e4 != nil || e5 != nil ||
		(mode != "none" && mode != "star" && mode != "implicit" && mode != "named" && mode != "handle" && mode != "handlepath") {
		return core.Outcome{Impl: "bad-op"}
	}
	if !(siteKeyOK(key) && cfTokensOK(mode, hosts, pats) && isASCII(h) && isASCII(p) && isASCII(e)) {
		return core.Outcome{Impl: "ood", Tags: []string{"cfsite:ood", "trivial"}}
	}
	u := &url.URL{Path: p, RawPath: e}
	if u.EscapedPath() != e {
		return core.Outcome{Impl: "bad-op", Tags: []string{"trivial"}}
	}
	cf := caddyfileFor(key, mode, hosts, pats)
	base := implSite(cf, h, u)
	o := core.Outcome{Impl: base, Tags: []string{"cfsite", "cfsite:" + mode, "cfsite:" + base}}
	if strings.Contains(key, ":") {
		o.Tags = append(o.Tags, "cfsite:key-has-port-or-scheme")
	}
	if strings.Contains(trimScheme(key), "/") {
		o.Tags = append(o.Tags, "cfsite:key-has-path")
	}
	if key != asciiLower(key) {
		o.Tags = append(o.Tags, "cfsite:key-mixed-case")
	}
	if !strings.HasPrefix(base, "m:") {
		return o
	}
	fail := func(class, what string) {
		if len(o.Failures) < 4 {
			o.Failures = append(o.Failures, core.Failure{Class: class, What: what})
		}
	}
	rng := lineRand(line)
	// ---- every directive that takes the path token guards its block alike: handle_path (which
	// strips a prefix afterwards), handle / route and the implicit matcher of a directive
	if mode == "handlepath" || mode == "handle" || mode == "implicit" {
		for _, m2 := range []string{"handlepath", "handle", "implicit"} {
			if m2 == mode {
				continue
			}
			if got := implSite(caddyfileFor(key, m2, hosts, pats), h, u); got != base {
				fail("cfsite-path-token-directives-disagree", fmt.Sprintf("site %q, token %q, Host %q, path %q: as %s -> %s, as %s -> %s", key, pats[0], h, e, mode, base, m2, got))
			}
		}
	}
	// ---- the spelling of the site key (letter case of the host, port) never matters
	rest := trimScheme(key)
	hp, kpath := rest, ""
	if i := strings.IndexByte(rest, '/'); i >= 0 {
		hp, kpath = rest[:i], rest[i:]
	}
	khost := hp
	if i := strings.IndexByte(hp, ':'); i >= 0 {
		khost = hp[:i]
	}
	if khost != "" {
		for _, k2 := range []string{flipCase(rng, khost, 0) + kpath, khost + ":8080" + kpath, flipCase(rng, khost, 1) + ":1" + kpath, "http://" + khost + kpath, "https://" + khost + kpath, "https://" + khost + ":8443" + kpath} {
			if k2 == key {
				continue
			}
			if got := implSite(caddyfileFor(k2, mode, hosts, pats), h, u); got != base {
				fail("cfsite-key-spelling", fmt.Sprintf("site key %q -> %s but %q -> %s (Host %q, path %q)", key, base, k2, got, h, e))
			}
		}
	}
	// ---- the spelling of the request never matters (host case / port; path case, dot segment)
	for mode := 0; mode < 2; mode++ {
		if v := flipCase(rng, h, mode); v != h {
			if got := implSite(cf, v, u); got != base {
				fail("cfsite-host-case", fmt.Sprintf("%q: Host %q -> %s but %q -> %s", key, h, base, v, got))
			}
		}
	}
	for _, v := range portVariants(h) {
		if got := implSite(cf, v, u); got != base {
			fail("cfsite-host-port", fmt.Sprintf("%q: Host %q -> %s but %q -> %s", key, h, base, v, got))
		}
	}
	allp := append([]string{}, pats...)
	if kpath != "" {
		allp = append(allp, kpath)
	}
	if strings.HasPrefix(e, "/") {
		kinds := []string{"dot", "dotdot", "hexcase", "case"}
		if !hasDoubleSlash(allp) {
			kinds = append(kinds, "slash")
		}
		if !hasPct(allp) {
			kinds = append(kinds, "pct")
		}
		for _, kind := range kinds {
			raw, ok := mutate(rng, e, kind)
			if !ok {
				continue
			}
			vu, err := url.ParseRequestURI(raw)
			if err != nil || vu.RawQuery != "" || vu.ForceQuery {
				continue
			}
			if got := implSite(cf, h, vu); got != base {
				fail("cfsite-path-spelling:"+kind, fmt.Sprintf("%q / %q: %q -> %s but the equivalent spelling %q -> %s", key, pats, e, base, raw, got))
			}
		}
	}
	return o
}

// ---------------------------------------------------------------- generator

func genSiteCase(rng *core.Rand) string {
	host := rng.Pick([]string{"example.com", "Example.COM", "*.example.com", "a.test", "A.Test", "localhost", "*.*.com", "sub.Example.com", "", "", "*", "x1.foo-bar.org", "127.0.0.1", "m_n.test"})
	key := host
	switch rng.Intn(6) {
	case 0, 1:
		key += ":" + rng.Pick([]string{"80", "8080", "443", "1", "65535", "8443"})
	case 2:
		key = rng.Pick([]string{"http://", "https://"}) + key
		if rng.Chance(1, 2) || host == "" {
			key += ":" + rng.Pick([]string{"8080", "9000", "8443"})
		}
	}
	if host == "" && !strings.Contains(trimScheme(key), ":") {
		key = ":8080"
	}
	if rng.Chance(1, 8) {
		key += rng.Pick([]string{"/foo*", "/Foo/*", "/", "/a/b", "/api*", "/x%2fy/*"})
	}
	mode := rng.Pick([]string{"none", "star", "implicit", "implicit", "named", "named", "named", "handle", "handlepath", "handlepath"})
	var hosts, pats []string
	pickPat := func() string {
		for {
			p := rng.Pick(pathPatternTemplates)
			if p != "" && all(p, patTokByte) {
				return p
			}
		}
	}
	switch mode {
	case "implicit", "handle", "handlepath":
		for {
			p := pickPat()
			if strings.HasPrefix(p, "/") {
				pats = []string{p}
				break
			}
		}
	case "named":
		if rng.Chance(2, 3) {
			for i := 1 + rng.Intn(3); i > 0; i-- {
				pats = append(pats, pickPat())
			}
		}
		if len(pats) == 0 || rng.Chance(1, 2) {
			seen := map[string]bool{}
			for i := 1 + rng.Intn(3); i > 0; i-- {
				e := rng.Pick([]string{"example.com", "Example.com", "www.example.com", "*.example.com", "a.test", "A.test", "q.a.test", "localhost", "*", "WWW.Example.Com"})
				if seen[asciiLower(e)] && !rng.Chance(1, 10) {
					continue
				}
				seen[asciiLower(e)] = true
				hosts = append(hosts, e)
			}
			if len(hosts) == 0 {
				hosts = []string{"example.com"}
			}
		}
	}
	// the request: aimed at the site
	rh := instantiate(rng, host)
	if rh == "" || rng.Chance(1, 5) {
		rh = rng.Pick([]string{"example.com", "www.example.com", "a.test", "q.a.test", "localhost", "other.invalid"})
	}
	if len(hosts) > 0 && rng.Chance(1, 2) {
		rh = instantiate(rng, hosts[rng.Intn(len(hosts))])
	}
	rh = spellHost(rng, rh)
	src := pats
	if i := strings.IndexByte(trimScheme(key), '/'); i >= 0 && (len(src) == 0 || rng.Chance(1, 2)) {
		src = append([]string{}, trimScheme(key)[i:])
	}
	plain := "/"
	if len(src) > 0 {
		plain = fill(rng, src[rng.Intn(len(src))])
	} else if rng.Chance(1, 2) {
		plain = "/" + rng.Pick(segs)
	}
	raw := escapeFor(rng, plain, "")
	if !strings.HasPrefix(raw, "/") {
		raw = "/" + raw
	}
	for k := rng.Intn(3); k > 0; k-- {
		if r2, ok := mutate(rng, raw, rng.Pick([]string{"case", "pct", "slash", "dot", "dotdot"})); ok {
			raw = r2
		}
	}
	u, err := url.ParseRequestURI(raw)
	if err != nil || u.RawQuery != "" || u.ForceQuery || u.Host != "" || u.Scheme != "" {
		u = &url.URL{Path: "/"}
	}
	return "cfsite " + core.Hex(key) + " " + mode + " " + listField(hosts) + " " + listField(pats) + " " + core.Hex(rh) + " " + core.Hex(u.Path) + " " + core.Hex(u.EscapedPath())
}
