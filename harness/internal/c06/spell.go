package c06

import (
	"fmt"
	"strings"
)

// ---- spelling classes for patterns that contain '%' (wave h)

func unhex2(s string) byte {
	var b byte
	fmt.Sscanf(s, "%02x", &b)
	return b
}

// canonU: the canonical spelling of an escaped path: escapes of unreserved bytes decoded,
// every other escape kept (upper-case hex digits).
func canonU(e string) string {
	var sb strings.Builder
	for _, x := range tokens(e) {
		if x.esc {
			if b := unhex2(x.s[1:]); isUnreserved(b) {
				sb.WriteByte(b)
			} else {
				sb.WriteString(strings.ToUpper(x.s))
			}
		} else {
			sb.WriteString(x.s)
		}
	}
	return sb.String()
}

// simplePct: a '%' pattern made of literal unreserved bytes and '/', and of escapes %xx whose
// byte is NOT unreserved; with stars=true also `*` / `%*` spans.
func simplePct(pat string, stars bool) bool {
	for i := 0; i < len(pat); i++ {
		c := pat[i]
		switch {
		case c == '%' && i+1 < len(pat) && pat[i+1] == '*':
			if !stars {
				return false
			}
			i++
		case c == '%':
			if !(i+2 < len(pat) && isHex(pat[i+1]) && isHex(pat[i+2])) || isUnreserved(unhex2(pat[i+1:i+3])) {
				return false
			}
			i += 2
		case c == '*':
			if !stars {
				return false
			}
		case isUnreserved(c) || c == '/':
		default:
			return false
		}
	}
	return true
}

// pctSpellingDomain: on which lists with a '%' pattern the percent-encoding of an UNRESERVED byte
// of the request must not matter (the documented intent of '%' patterns is only that the
// pattern's own escapes are compared in escaped space): every '%' pattern is simplePct, so no
// escape of a pattern stands for an unreserved byte.  terms = the bytes that end a wildcard span
// of such a pattern other than '/' (the span search runs over the raw text); ok=false when such
// a byte is a hex digit or '%' (an added escape could then end a span early).
func pctSpellingDomain(l []string) (terms string, ok bool) {
	for _, raw := range l {
		p := asciiLower(raw)
		if !strings.Contains(p, "%") || p == "*" {
			continue
		}
		if !simplePct(p, true) {
			return "", false
		}
		for i := 0; i+1 < len(p); i++ {
			if p[i] == '*' && p[i+1] != '/' {
				t := p[i+1]
				if t == '%' || t == '*' || isHex(t) {
					return "", false
				}
				terms += string([]byte{t})
			}
		}
	}
	return terms, true
}

// encodeAt percent-encodes the unreserved literal tokens with the given indices.
func encodeAt(t []tok, upper bool, idx ...int) string {
	o := append([]tok(nil), t...)
	f := "%%%02x"
	if upper {
		f = "%%%02X"
	}
	for _, i := range idx {
		if i >= 0 && i < len(o) && !o[i].esc && isUnreserved(o[i].s[0]) {
			o[i] = tok{fmt.Sprintf(f, o[i].s[0]), true}
		}
	}
	return untok(o)
}

// boundarySpellings: the canonical spelling first, then spellings with an escape at the very
// end, at the very start, next to an existing escape, two adjacent ones, and all of them.
// avoid = bytes never to encode.
func boundarySpellings(e string, avoid string) []string {
	c := canonU(e)
	t := tokens(c)
	var lit []int
	for i, x := range t {
		if !x.esc && isUnreserved(x.s[0]) && strings.IndexByte(avoid, x.s[0]|0x20) < 0 && strings.IndexByte(avoid, x.s[0]) < 0 {
			lit = append(lit, i)
		}
	}
	out := []string{c}
	if len(lit) == 0 {
		return out
	}
	first, last := lit[0], lit[len(lit)-1]
	out = append(out, encodeAt(t, true, last), encodeAt(t, false, first), encodeAt(t, false, lit...))
	if len(lit) >= 2 {
		out = append(out, encodeAt(t, true, lit[len(lit)-2], last), encodeAt(t, false, first, lit[1]))
	}
	for i, x := range t {
		if x.esc {
			var idx []int
			for _, j := range lit {
				if j == i-1 || j == i+1 {
					idx = append(idx, j)
				}
			}
			out = append(out, encodeAt(t, true, idx...))
			break
		}
	}
	return out
}

// specEsc: the documented rule for a simplePct pattern without stars on a canonical escaped
// path: token by token, an escape of the pattern needs the same escape in the request, a literal
// byte of the pattern needs a request token that decodes to it; nothing may be left over.
// prefix=true: the pattern matches a proper prefix of the request instead.
func specEsc(pat, e string, prefix bool) bool {
	tp, te := tokens(asciiLower(pat)), tokens(asciiLower(e))
	if len(tp) > len(te) || (!prefix && len(tp) != len(te)) || (prefix && len(tp) == len(te)) {
		return false
	}
	for i := range tp {
		if tp[i].esc {
			if !te[i].esc || te[i].s != tp[i].s {
				return false
			}
		} else {
			b := te[i].s[0]
			if te[i].esc {
				b = unhex2(te[i].s[1:])
				if b >= 'A' && b <= 'Z' {
					b |= 0x20
				}
			}
			if b != tp[i].s[0] {
				return false
			}
		}
	}
	return true
}

// hasEncodedDotSeg: a segment that is "." or ".." once its unreserved escapes are decoded, but is
// not spelt so ("%2e", ".%2E"): CleanPath runs over the escaped text for '%' patterns and does
// not see it.
func hasEncodedDotSeg(raw string) bool {
	for _, seg := range strings.Split(raw, "/") {
		if strings.Contains(seg, "%") {
			if c := canonU(seg); c == "." || c == ".." {
				return true
			}
		}
	}
	return false
}
