package c06

import (
	"encoding/json"
	"fmt"
	"net/http"
	"net/http/httptest"
	"strings"

	"github.com/caddyserver/caddy/v2"
	"github.com/caddyserver/caddy/v2/modules/caddyhttp"

	"verif/harness/internal/core"
)

// srvredir <listA> <listB> <envA> <envB> <hdr> <r.Host>
//
// The automatic HTTP->HTTPS redirect route. A server on :8443 with one host-matched route per
// list (listB "." = one route) is provisioned with caddy.ProvisionContext (nothing is bound);
// automatic HTTPS phase 1 collects the names of the provisioned host matchers, builds
// MatchHost(domains) for the redirect route (target https://host:8443) and a catch-all behind
// it (target https://host). The plaintext request goes to the provisioned redirect server;
// the answer says which of the two redirected it.

func loadRedirServer(lists [][]string) (*caddyhttp.Server, string) {
	var routes []string
	for i, l := range lists {
		hj, _ := json.Marshal(l)
		routes = append(routes, fmt.Sprintf(`{"match": [{"host": %s}], "handle": [{"handler": "static_response", "body": "hit%d"}], "terminal": true}`, hj, i))
	}
	cfgJSON := fmt.Sprintf(`{
		"admin": {"disabled": true, "config": {"persist": false}},
		"logging": {"logs": {"default": {"level": "ERROR", "writer": {"output": "discard"}}}},
		"storage": {"module": "file_system", "root": %q},
		"apps": {"http": {"servers": {"s": {
			"listen": [":8443"],
			"automatic_https": {"disable_certificates": true},
			"routes": [%s]}}}}}`, storageDir(), strings.Join(routes, ","))
	var cfg caddy.Config
	if err := json.Unmarshal([]byte(cfgJSON), &cfg); err != nil {
		return nil, "err:config"
	}
	ctx, err := caddy.ProvisionContext(&cfg)
	if err != nil {
		switch {
		case strings.Contains(err.Error(), "is repeated"):
			return nil, "err:dup"
		case strings.Contains(err.Error(), "evaluated placeholder") && strings.Contains(err.Error(), "is empty"):
			return nil, "err:phase1"
		}
		return nil, "err:load"
	}
	a, err := ctx.App("http")
	if err != nil {
		return nil, "err:app"
	}
	rs := a.(*caddyhttp.App).Servers["remaining_auto_https_redirects"]
	if rs == nil {
		return nil, "err:no-redirect-server"
	}
	return rs, ""
}

func askRedir(rs *caddyhttp.Server, host, hdr string) string {
	req := httptest.NewRequest(http.MethodGet, "http://placeholder.invalid/p", nil)
	req.Host = host
	if hdr != "" {
		req.Header.Set("X-T", hdr)
	}
	rec := httptest.NewRecorder()
	rs.ServeHTTP(rec, req)
	loc := rec.Header().Get("Location")
	switch {
	case rec.Code != http.StatusPermanentRedirect:
		return fmt.Sprintf("err:status-%d", rec.Code)
	case strings.HasSuffix(loc, ":8443/p"):
		return "r:own-port"
	case strings.HasSuffix(loc, "/p"):
		return "r:default-port"
	}
	return "err:location"
}

func runRedir(line string, f []string) core.Outcome {
	la, e1 := parseList(f[1])
	lb, e2 := parseList(f[2])
	var v [4]string
	var err error
	for i := 0; i < 4 && err == nil; i++ {
		v[i], err = core.UnHex(f[3+i])
	}
	if e1 != nil || e2 != nil || err != nil {
		return core.Outcome{Impl: "bad-op"}
	}
	envA, envB, hdr, h := v[0], v[1], v[2], v[3]
	dom := len(la) > 0 && all(envA, hostTokByte) && all(envB, hostTokByte) && all(hdr, hostTokByte) && all(h, srvReqHostByte)
	for _, e := range append(append([]string{}, la...), lb...) {
		if !bracesOK(e) || len(e) > 255 {
			dom = false
		}
	}
	if !dom {
		return core.Outcome{Impl: "ood", Tags: []string{"srvredir:ood", "trivial"}}
	}
	lists := [][]string{la}
	if len(lb) > 0 {
		lists = append(lists, lb)
	}
	setEnv(envA, envB)
	rs, lerr := loadRedirServer(lists)
	base := lerr
	if rs != nil {
		base = askRedir(rs, h, hdr)
	}
	n := len(la) + len(lb)
	o := core.Outcome{Impl: base, Tags: []string{"srvredir", "srvredir:" + base}}
	if n > 100 {
		o.Tags = append(o.Tags, "srvredir:over-100-names")
		if len(la) <= 100 && len(lb) <= 100 {
			o.Tags = append(o.Tags, "srvredir:over-100-only-in-union")
		}
	} else {
		o.Tags = append(o.Tags, "srvredir:up-to-100-names")
	}
	if rs == nil {
		return o
	}
	fail := func(class, what string) {
		if len(o.Failures) < 4 {
			o.Failures = append(o.Failures, core.Failure{Class: class, What: what})
		}
	}
	rng := lineRand(line)
	ctxs := fmt.Sprintf("C06_A=%q C06_B=%q X-T=%q", envA, envB, hdr)
	// ---- spelling of the request host
	for mode := 0; mode < 3; mode++ {
		if v := flipCase(rng, h, mode); v != h {
			if got := askRedir(rs, v, hdr); got != base {
				fail("srvredir-case", fmt.Sprintf("%d names (%s): Host %q -> %s but %q -> %s", n, ctxs, h, base, v, got))
			}
		}
	}
	for _, v := range portVariants(h) {
		if got := askRedir(rs, v, hdr); got != base {
			fail("srvredir-port", fmt.Sprintf("%d names (%s): Host %q -> %s but %q -> %s", n, ctxs, h, base, v, got))
		}
	}
	// ---- number of names: unrelated names added to / removed from the second route
	lh := asciiLower(h)
	if !strings.Contains(lh, ".invalid") && !strings.Contains(asciiLower(envA+envB+hdr), "invalid") {
		var other [][]string
		what := ""
		if n <= 100 {
			pad := append([]string(nil), lb...)
			for i := 0; len(la)+len(pad) < 101+rng.Intn(30); i++ {
				pad = append(pad, fmt.Sprintf("zf%d.pad.invalid", i))
			}
			other = [][]string{la, pad}
			what = fmt.Sprintf("with %d unrelated names added in a second route (%d names)", len(pad)-len(lb), len(la)+len(pad))
		} else {
			var a2, b2 []string
			for _, e := range la {
				if !isFiller(e) {
					a2 = append(a2, e)
				}
			}
			for _, e := range lb {
				if !isFiller(e) {
					b2 = append(b2, e)
				}
			}
			if len(a2) > 0 && len(a2)+len(b2) < n {
				other = [][]string{a2}
				if len(b2) > 0 {
					other = append(other, b2)
				}
				what = fmt.Sprintf("without the %d unrelated filler names (%d names)", n-len(a2)-len(b2), len(a2)+len(b2))
			}
		}
		if other != nil {
			if rs2, e := loadRedirServer(other); e == "" {
				if got := askRedir(rs2, h, hdr); got != base {
					fail("srvredir-size", fmt.Sprintf("Host %q (%s): %d configured names -> %s, %s -> %s; lists %s | %s", h, ctxs, n, base, what, got, listField(la), listField(lb)))
				}
			}
		}
	}
	return o
}

func genRedirCase(rng *core.Rand) string {
	envA, envB := rng.Pick(srvEnvValues), rng.Pick(srvEnvValues)
	if envA == "" && !rng.Chance(1, 8) {
		envA = "Tenant.example.test"
	}
	if envB == "" && !rng.Chance(1, 8) {
		envB = "b.test"
	}
	hdr := rng.Pick([]string{"acme", "Acme", "", "x", "tenant"})
	seen := map[string]bool{}
	pick := func(k int) []string {
		var l []string
		for i := 0; i < k; i++ {
			e := rng.Pick(srvEntryTemplates)
			if e == "*" || (seen[asciiLower(e)] && !rng.Chance(1, 20)) {
				continue
			}
			seen[asciiLower(e)] = true
			l = append(l, e)
		}
		return l
	}
	la, lb := pick(1+rng.Intn(4)), pick(rng.Intn(3))
	if len(la) == 0 {
		la = []string{"Example.com"}
	}
	switch rng.Intn(6) {
	case 0:
		la = append(la, srvFillers(rng, 45+rng.Intn(8))...)
		lb = append(lb, srvFillers(rng, 46+rng.Intn(8))...) // union around 100
	case 1:
		la = append(la, srvFillers(rng, 60+rng.Intn(20))...)
		lb = append(lb, srvFillers(rng, 50+rng.Intn(20))...) // union over 100, each below
	case 2:
		la = append(la, srvFillers(rng, 101+rng.Intn(30))...)
	}
	// fillers of the two lists must differ
	for i := range lb {
		if strings.HasSuffix(asciiLower(lb[i]), ".filler.invalid") {
			lb[i] = "b-" + lb[i]
			if strings.HasPrefix(lb[i], "b-*.") {
				lb[i] = "*.b-" + lb[i][4:]
			}
		}
	}
	la, lb = shuffled(rng, la), shuffled(rng, lb)
	allE := append(append([]string{}, la...), lb...)
	var h string
	if rng.Chance(5, 6) {
		h = instantiate(rng, expandFor(allE[rng.Intn(len(allE))], envA, envB, hdr))
	} else {
		h = rng.Pick([]string{"tenant.example.test", "acme.dyn.test", "example.com", "other.test"})
	}
	switch rng.Intn(6) {
	case 0:
		h = flipCase(rng, h, rng.Intn(3))
	case 1:
		h += ":80"
	}
	if !all(h, srvReqHostByte) {
		h = "example.com"
	}
	return "srvredir " + listField(la) + " " + listField(lb) + " " + core.Hex(envA) + " " + core.Hex(envB) + " " + core.Hex(hdr) + " " + core.Hex(h)
}
