package c06

import (
	"encoding/json"
	"fmt"
	"net/http"
	"net/http/httptest"
	"os"
	"strings"
	"sync"

	"github.com/caddyserver/caddy/v2"
	"github.com/caddyserver/caddy/v2/modules/caddyhttp"
	_ "github.com/caddyserver/caddy/v2/modules/filestorage"

	"verif/harness/internal/core"
)

// srvhost <entries> <envA> <envB> <hdr> <r.Host>
//
// Host matching through the PROVISIONED SERVER: a complete JSON config (one server, automatic
// HTTPS enabled with certificate management and redirects off, listener 127.0.0.1:0) is loaded
// with caddy.Run — App.Provision → ProvisionMatchers → automaticHTTPSPhase1 → … — and the
// provisioned Server.ServeHTTP is asked in-process. Route 1 answers "hit" behind the host
// matcher, route 2 "miss". Entries may carry the global placeholders {env.C06_A}, {env.C06_B}
// (set from the case before loading) and the request placeholder {http.request.header.X-T}.

var (
	srvStorageOnce sync.Once
	srvStorage     string
)

func storageDir() string {
	srvStorageOnce.Do(func() {
		_ = os.MkdirAll("/verif/.run", 0o755)
		srvStorage, _ = os.MkdirTemp("/verif/.run", "c06-storage-")
	})
	return srvStorage
}

// Finish (called by core.Main at the end of a run): stop the last loaded config, drop the storage.
func (prop) Finish(*core.Session) {
	if srvStorage != "" {
		_ = caddy.Stop()
		_ = os.RemoveAll(srvStorage)
	}
}

func loadServer(entries []string) (*caddyhttp.Server, string) {
	if entries == nil {
		entries = []string{}
	}
	hj, _ := json.Marshal(entries)
	cfgJSON := fmt.Sprintf(`{
		"admin": {"disabled": true, "config": {"persist": false}},
		"logging": {"logs": {"default": {"level": "ERROR", "writer": {"output": "discard"}}}},
		"storage": {"module": "file_system", "root": %q},
		"apps": {"http": {"servers": {"s": {
			"listen": ["127.0.0.1:0"], "protocols": ["h1"],
			"automatic_https": {"disable_certificates": true, "disable_redirects": true},
			"routes": [
				{"match": [{"host": %s}], "handle": [{"handler": "static_response", "body": "hit"}], "terminal": true},
				{"handle": [{"handler": "static_response", "body": "miss"}]}
			]}}}}}`, storageDir(), hj)
	var cfg caddy.Config
	if err := json.Unmarshal([]byte(cfgJSON), &cfg); err != nil {
		return nil, "err:config"
	}
	if err := caddy.Run(&cfg); err != nil {
		switch {
		case strings.Contains(err.Error(), "is repeated"):
			return nil, "err:dup"
		case strings.Contains(err.Error(), "evaluated placeholder") && strings.Contains(err.Error(), "is empty"):
			return nil, "err:phase1"
		}
		return nil, "err:load"
	}
	a, err := caddy.ActiveContext().App("http")
	if err != nil {
		return nil, "err:app"
	}
	srv := a.(*caddyhttp.App).Servers["s"]
	if srv == nil {
		return nil, "err:app"
	}
	return srv, ""
}

func askServer(srv *caddyhttp.Server, host, hdr string) string {
	req := httptest.NewRequest(http.MethodGet, "http://placeholder.invalid/", nil)
	req.Host = host
	if hdr != "" {
		req.Header.Set("X-T", hdr)
	}
	rec := httptest.NewRecorder()
	srv.ServeHTTP(rec, req)
	switch rec.Body.String() {
	case "hit":
		return "m:1"
	case "miss":
		return "m:0"
	}
	return fmt.Sprintf("err:status-%d", rec.Code)
}

func setEnv(a, b string) {
	os.Setenv("C06_A", a)
	os.Setenv("C06_B", b)
}

// implSrvHost: load, then ask.
func implSrvHost(entries []string, host, hdr string) string {
	srv, e := loadServer(entries)
	if e != "" {
		return e
	}
	return askServer(srv, host, hdr)
}

// directHost: the same list in a hand-built, hand-provisioned MatchHost (no server, no phase 1).
func directHost(entries []string, host, hdr string) string {
	m := make(caddyhttp.MatchHost, len(entries))
	copy(m, entries)
	if err := m.Provision(caddy.Context{}); err != nil {
		return provErr(err)
	}
	req := httptest.NewRequest(http.MethodGet, "http://placeholder.invalid/", nil)
	req.Host = host
	if hdr != "" {
		req.Header.Set("X-T", hdr)
	}
	w := httptest.NewRecorder()
	req = caddyhttp.PrepareRequest(req, caddy.NewReplacer(), w, &caddyhttp.Server{})
	ok, err := m.MatchWithError(req)
	if err != nil {
		return "err:match"
	}
	return mb(ok)
}

var srvKeys = []string{"env.C06_A", "env.C06_B", "http.request.header.X-T"}

func bracesOK(e string) bool {
	for i := 0; i < len(e); {
		c := e[i]
		switch {
		case c == '{':
			j := strings.IndexByte(e[i+1:], '}')
			if j < 0 {
				return false
			}
			k := e[i+1 : i+1+j]
			if k != srvKeys[0] && k != srvKeys[1] && k != srvKeys[2] {
				return false
			}
			i += j + 2
		case c == '}':
			return false
		default:
			if !hostTokByte(c) {
				return false
			}
			i++
		}
	}
	return true
}

func srvReqHostByte(c byte) bool { return hostTokByte(c) || c == ':' || c == '[' || c == ']' }

func runSrv(line string, f []string) core.Outcome {
	l, e1 := parseList(f[1])
	var v [4]string
	var err error
	for i := 0; i < 4 && err == nil; i++ {
		v[i], err = core.UnHex(f[2+i])
	}
	if e1 != nil || err != nil {
		return core.Outcome{Impl: "bad-op"}
	}
	envA, envB, hdr, h := v[0], v[1], v[2], v[3]
	dom := all(envA, hostTokByte) && all(envB, hostTokByte) && all(hdr, hostTokByte) && all(h, srvReqHostByte)
	for _, e := range l {
		if !bracesOK(e) || len(e) > 255 {
			dom = false
		}
	}
	if !dom {
		return core.Outcome{Impl: "ood", Tags: []string{"srvhost:ood", "trivial"}}
	}
	setEnv(envA, envB)
	srv, lerr := loadServer(l)
	base := lerr
	if srv != nil {
		base = askServer(srv, h, hdr)
	}
	o := core.Outcome{Impl: base, Tags: []string{"srvhost", "srvhost:" + base}}
	if len(l) > 100 {
		o.Tags = append(o.Tags, "srvhost:large")
	} else {
		o.Tags = append(o.Tags, "srvhost:small")
	}
	nEnv, nReq := 0, 0
	for _, e := range l {
		if strings.Contains(e, "{env.") {
			nEnv++
		}
		if strings.Contains(e, "{http.") {
			nReq++
		}
	}
	if nEnv > 0 {
		o.Tags = append(o.Tags, "srvhost:has-global-placeholder")
	}
	if nReq > 0 {
		o.Tags = append(o.Tags, "srvhost:has-request-placeholder")
	}
	if len(l) == 0 {
		o.Tags = append(o.Tags, "trivial")
	}
	if srv == nil {
		return o
	}
	fail := func(class, what string) {
		if len(o.Failures) < 4 {
			o.Failures = append(o.Failures, core.Failure{Class: class, What: what})
		}
	}
	rng := lineRand(line)
	ctxs := fmt.Sprintf("C06_A=%q C06_B=%q X-T=%q", envA, envB, hdr)
	// ---- the provisioned server answers like the configured list in a hand-built matcher
	if got := directHost(l, h, hdr); got != base {
		fail("srvhost-server-disagrees-with-configured-list", fmt.Sprintf("Host %q (%s): provisioned server -> %s, the same list provisioned by hand -> %s; list %s", h, ctxs, base, got, listField(l)))
	}
	// ---- spelling of the request host (same provisioned server)
	for mode := 0; mode < 3; mode++ {
		if v := flipCase(rng, h, mode); v != h {
			if got := askServer(srv, v, hdr); got != base {
				fail("srvhost-case", fmt.Sprintf("list of %d (%s): Host %q -> %s but %q -> %s", len(l), ctxs, h, base, v, got))
			}
		}
	}
	for _, v := range portVariants(h) {
		if got := askServer(srv, v, hdr); got != base {
			fail("srvhost-port", fmt.Sprintf("list of %d (%s): Host %q -> %s but %q -> %s", len(l), ctxs, h, base, v, got))
		}
	}
	// ---- order of the list
	if len(l) > 1 {
		p := shuffled(rng, l)
		if got := implSrvHost(p, h, hdr); got != base {
			fail("srvhost-perm", fmt.Sprintf("Host %q (%s): list %s -> %s, permuted %s -> %s", h, ctxs, listField(l), base, listField(p), got))
		}
	}
	// ---- number of entries: pad across the threshold / drop the fillers
	lh := asciiLower(h)
	if !strings.Contains(lh, ".invalid") && !strings.Contains(asciiLower(envA+envB+hdr), "invalid") {
		seen := map[string]bool{}
		for _, e := range l {
			seen[asciiLower(e)] = true
		}
		if len(l) <= 100 {
			target := 101 + rng.Intn(40)
			p := append([]string(nil), l...)
			for i := 0; len(p) < target; i++ {
				e := fmt.Sprintf("zf%d.pad.invalid", i)
				switch {
				case i%7 == 3:
					e = fmt.Sprintf("*.w%d.pad.invalid", i)
				case i%5 == 1:
					e = fmt.Sprintf("ZF%d.Pad.Invalid", i)
				}
				if !seen[asciiLower(e)] {
					p = append(p, e)
				}
			}
			p = shuffled(rng, p)
			if got := implSrvHost(p, h, hdr); got != base {
				fail("srvhost-size", fmt.Sprintf("Host %q (%s): list of %d -> %s, same list padded to %d with unrelated names -> %s (%s)", h, ctxs, len(l), base, len(p), got, listField(p)))
			}
		} else {
			var p []string
			for _, e := range l {
				if !isFiller(e) {
					p = append(p, e)
				}
			}
			if len(p) < len(l) {
				if got := implSrvHost(p, h, hdr); got != base {
					fail("srvhost-size", fmt.Sprintf("Host %q (%s): list of %d -> %s, without its %d unrelated filler names -> %s (%s)", h, ctxs, len(l), base, len(l)-len(p), got, listField(p)))
				}
			}
		}
	}
	return o
}

// ---------------------------------------------------------------- generator

var srvEntryTemplates = []string{
	"{env.C06_A}", "{env.C06_B}", "{env.C06_A}.x.test", "www.{env.C06_B}", "{http.request.header.X-T}.dyn.test",
	"{http.request.header.X-T}", "{env.C06_A}{env.C06_B}", "*.{env.C06_B}", "{http.request.header.X-T}.{env.C06_A}",
	"example.com", "Example.com", "*.wild.test", "*.*.com", "a.test", "www.example.com", "API.Example.COM", "*",
}

var srvEnvValues = []string{"Tenant.example.test", "tenant.example.test", "b.test", "B", "x", "*.t.test", "sub.Tenant.test", "zz", "mm.example.com", "", "a.test"}

func srvFillers(rng *core.Rand, n int) []string {
	out := make([]string, 0, n)
	base := rng.Intn(1000)
	for i := 0; i < n; i++ {
		e := fmt.Sprintf("f%d.filler.invalid", base+i)
		switch rng.Intn(12) {
		case 0:
			e = fmt.Sprintf("F%d.Filler.Invalid", base+i)
		case 1:
			e = fmt.Sprintf("*.g%d.filler.invalid", base+i)
		case 2:
			e = fmt.Sprintf("Zz%d.filler.invalid", base+i)
		}
		out = append(out, e)
	}
	return out
}

func expandFor(e, envA, envB, hdr string) string {
	return strings.NewReplacer("{env.C06_A}", envA, "{env.C06_B}", envB, "{http.request.header.X-T}", hdr).Replace(e)
}

func genSrvCase(rng *core.Rand) string {
	envA, envB := rng.Pick(srvEnvValues), rng.Pick(srvEnvValues)
	if envA == "" && !rng.Chance(1, 6) {
		envA = "Tenant.example.test"
	}
	if envB == "" && !rng.Chance(1, 6) {
		envB = "b.test"
	}
	hdr := rng.Pick([]string{"acme", "Acme", "", "x", "a.b", "*", "tenant"})
	var l []string
	seen := map[string]bool{}
	for i := 1 + rng.Intn(5); i > 0; i-- {
		e := rng.Pick(srvEntryTemplates)
		if seen[asciiLower(e)] && !rng.Chance(1, 15) {
			continue
		}
		seen[asciiLower(e)] = true
		l = append(l, e)
	}
	switch rng.Intn(6) {
	case 0, 1:
		l = append(l, srvFillers(rng, 95+rng.Intn(12)-len(l))...)
	case 2, 3:
		l = append(l, srvFillers(rng, 101+rng.Intn(60))...)
	}
	l = shuffled(rng, l)
	var h string
	if rng.Chance(4, 5) {
		h = instantiate(rng, expandFor(l[rng.Intn(len(l))], envA, envB, hdr))
	} else {
		h = rng.Pick([]string{"tenant.example.test", "acme.dyn.test", "example.com", "other.test", "b.test"})
	}
	switch rng.Intn(6) {
	case 0:
		h = flipCase(rng, h, rng.Intn(3))
	case 1:
		h += ":" + rng.Pick([]string{"80", "8443", ""})
	case 2:
		h = flipCase(rng, h, 0) + ":443"
	}
	if !all(h, srvReqHostByte) {
		h = "example.com"
	}
	return "srvhost " + listField(l) + " " + core.Hex(envA) + " " + core.Hex(envB) + " " + core.Hex(hdr) + " " + core.Hex(h)
}
