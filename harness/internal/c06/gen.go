package c06

import (
	"fmt"
	"net/url"
	"strings"

	"verif/harness/internal/core"
)

var labels = []string{"a", "b", "example", "Example", "EXAMPLE", "www", "api", "x1", "foo-bar", "com", "test", "org", "Sub", "k", "s", "i", "m_n", "0"}

var hostEntryTemplates = []string{
	"example.com", "Example.com", "www.example.com", "API.Example.COM", "a.test", "b.test", "localhost", "LocalHost",
	"*.example.com", "*.Example.com", "*.*.com", "www.*.com", "*", "*.test", "a.*", "*.a.test", "sub.*.example.com",
	"*foo.com", "a*.test", "{x.example.com", "{http.request.host", "{a.test", "{*.test",
	"127.0.0.1", "::1", "2001:db8::1", "[::1]", "k.com", "s.com", "i.com", "", ".", "example.com.", "a..b", "exa_mple.com", "a:80",
}

func randLabel(rng *core.Rand) string { return rng.Pick(labels) }

func randHostName(rng *core.Rand) string {
	n := 1 + rng.Intn(4)
	p := make([]string, n)
	for i := range p {
		p[i] = randLabel(rng)
	}
	return strings.Join(p, ".")
}

func genEntry(rng *core.Rand) string {
	switch rng.Intn(10) {
	case 0, 1, 2, 3, 4:
		return rng.Pick(hostEntryTemplates)
	case 5, 6:
		return randHostName(rng)
	case 7:
		// wildcard in a random label
		p := strings.Split(randHostName(rng), ".")
		p[rng.Intn(len(p))] = "*"
		return strings.Join(p, ".")
	case 8:
		return "{" + randHostName(rng)
	default:
		return flipCase(rng, rng.Pick(hostEntryTemplates), 0)
	}
}

// instantiate turns an entry into a request host it should match (wildcard labels filled in).
func instantiate(rng *core.Rand, e string) string {
	p := strings.Split(e, ".")
	for i := range p {
		if p[i] == "*" {
			p[i] = randLabel(rng)
		}
	}
	return strings.Join(p, ".")
}

func spellHost(rng *core.Rand, h string) string {
	switch rng.Intn(12) {
	case 0, 1, 2:
		h = flipCase(rng, h, rng.Intn(3))
	case 3:
		h = h + ":" + rng.Pick([]string{"80", "443", "8443", "", "http", "0"})
	case 4:
		h = flipCase(rng, h, 0) + ":" + rng.Pick([]string{"80", "65535"})
	case 5:
		if strings.Contains(h, ":") {
			h = "[" + h + "]" + rng.Pick([]string{"", ":443", ":"})
		}
	case 6:
		h = rng.Pick([]string{"[" + h, h + "]", "[" + h + "]", h + ".", "." + h, h + ":80:90", "[" + h + "]:80", "x[" + h + "]:1", "[" + h + "]x:1", "[" + h + "]]:1", "[[" + h + "]:1"})
	case 7:
		// neighbour: change / drop / add a label
		p := strings.Split(h, ".")
		switch rng.Intn(3) {
		case 0:
			p[rng.Intn(len(p))] = randLabel(rng)
		case 1:
			p = append([]string{randLabel(rng)}, p...)
		case 2:
			if len(p) > 1 {
				p = p[1:]
			}
		}
		h = strings.Join(p, ".")
	}
	return h
}

func fillers(rng *core.Rand, n int) []string {
	out := make([]string, 0, n)
	base := rng.Intn(1000)
	for i := 0; i < n; i++ {
		e := fmt.Sprintf("f%d.filler.invalid", base+i)
		switch rng.Intn(12) {
		case 0:
			e = fmt.Sprintf("F%d.Filler.Invalid", base+i)
		case 1:
			e = fmt.Sprintf("*.g%d.filler.invalid", base+i)
		case 2:
			e = fmt.Sprintf("{g%d.filler.invalid", base+i)
		case 3:
			e = fmt.Sprintf("Zz%d.filler.invalid", base+i)
		}
		out = append(out, e)
	}
	return out
}

func genHostCase(rng *core.Rand) string {
	var l []string
	n := 1 + rng.Intn(6)
	if rng.Chance(1, 40) {
		n = 0
	}
	seen := map[string]bool{}
	allowDup := rng.Chance(1, 25)
	for len(l) < n {
		e := genEntry(rng)
		if seen[asciiLower(e)] && !allowDup {
			continue
		}
		seen[asciiLower(e)] = true
		l = append(l, e)
	}
	// size class
	switch rng.Intn(10) {
	case 0, 1:
		l = append(l, fillers(rng, 93+rng.Intn(14)-len(l))...) // around the threshold
	case 2, 3:
		l = append(l, fillers(rng, 101+rng.Intn(80))...)
	case 4:
		if rng.Chance(1, 4) {
			l = append(l, fillers(rng, 200+rng.Intn(220))...)
		}
	}
	if len(l) > 1 {
		l = shuffled(rng, l)
	}
	// request
	var h string
	switch {
	case len(l) > 0 && rng.Chance(7, 10):
		h = instantiate(rng, l[rng.Intn(len(l))])
	case rng.Chance(1, 2):
		h = rng.Pick(hostEntryTemplates)
	default:
		h = randHostName(rng)
	}
	h = spellHost(rng, h)
	if rng.Chance(1, 3) {
		h = spellHost(rng, h)
	}
	return "host " + listField(l) + " " + core.Hex(h)
}

// non-ASCII request hosts: outside the model's domain (answer "ood"), oracle only.
func genHostNonASCII(rng *core.Rand) string {
	l := []string{"s.com", "k.com", "i.com", "example.com", "*.ss.test"}
	l = l[:1+rng.Intn(len(l))]
	if rng.Chance(1, 2) {
		l = append(l, fillers(rng, 100+rng.Intn(30))...)
	}
	if rng.Chance(1, 3) {
		// non-ASCII entries: Provision turns them into ACE (punycode) labels
		l = append(l, rng.Pick([]string{"ſ.com", "\u212a.com", "İ.com", "bücher.example", "é.com", "*.ſ.test", "ß.de", "ς.gr", "{ſ.com", "a.ſſ.test"}))
		if rng.Chance(1, 2) {
			l = append(l, rng.Pick([]string{"Bücher.Example", "É.com", "σ.gr", "xn--bcher-kva.example"}))
		}
	}
	h := rng.Pick([]string{"xn--bcher-kva.example", "XN--BCHER-KVA.example", "bücher.example", "BÜCHER.example", "s.com", "k.com", "ſ.com", "K.com", "İ.com", "éxample.com", "EXAMPLE.comé", "a.ſſ.test", "\xff.com", "s.com\xc5", "S.COM", "K.com"})
	if rng.Chance(1, 4) {
		h += ":80"
	}
	return "host " + listField(shuffled(rng, l)) + " " + core.Hex(h)
}

// ---------------------------------------------------------------- paths

var pathPatternTemplates = []string{
	"/foo/bar", "/Foo/Bar", "/foo", "/foo/", "/", "/index.html", "/a/b/c", "/admin", "/Admin/Panel",
	"/api/*", "/API/*", "/foo*", "/a/b/*", "/*",
	"*.php", "*.PHP", "*/", "*/secret", "*.tar.gz",
	"*admin*", "*/a/*", "**", "*.*",
	"/a/*/c", "/*/b", "/f?o", "/f??", "/[a-c]x", "/[^a-c]x", "/a\\*b", "/x*y*z", "/*/*", "/a*b", "*/x/*/y", "/[a-", "/a\\", "/[]a]", "/[a-c", "/a[b-d]e*f", "/*.html",
	"*",
	"/a//b", "//", "//x/*", "*//*", "/a//*", "/a///b", "/x//",
	"/a%2fb", "/a%2Fb/c", "/%2e/x", "/a%2fb/*", "/x/%*", "/%*/y", "/a%", "/a%2", "%2f*", "/a%2f*", "*%2f*", "/b%2fc//d", "/%*", "/a%2fb*c", "/sp%20ace", "/p%25c", "/%41bc", "/q/%*/r%2fs",
	"/foo%2fbar/baz", "/dl/%*/report.pdf", "/files/a%2f", "%2fa", "/a%2f%2fb", "/x%2f*/end", "/k%20*z",
	"/{x", "/a{b/*", "",
}

var segs = []string{"a", "b", "c", "foo", "Foo", "bar", "x", "y", "z", "index.html", "admin", "secret", "f.php", "F.PHP", "1", "ax", "dx", "a.b", "..", ".", "...", "", "~u", "a-b_c", "foo.tar.gz", "a b", "a*b", "q?", "%", "a/b", "@", "a;b", "é"}

// fill turns a pattern into a plain path that has a chance of matching it.
func fill(rng *core.Rand, pat string) string {
	var sb strings.Builder
	for i := 0; i < len(pat); i++ {
		c := pat[i]
		switch {
		case c == '%' && i+1 < len(pat) && pat[i+1] == '*':
			sb.WriteString(rng.Pick(segs))
			i++
		case c == '%' && i+2 < len(pat) && isHex(pat[i+1]) && isHex(pat[i+2]):
			var b byte
			fmt.Sscanf(pat[i+1:i+3], "%02x", &b)
			sb.WriteByte(b)
			i += 2
		case c == '*':
			if rng.Chance(1, 6) {
				sb.WriteString(rng.Pick(segs) + "/" + rng.Pick(segs))
			} else if !rng.Chance(1, 8) {
				sb.WriteString(rng.Pick(segs))
			}
		case c == '?':
			sb.WriteString(rng.Pick([]string{"o", "a", "/", "O"}))
		case c == '\\' && i+1 < len(pat):
			i++
			sb.WriteByte(pat[i])
		case c == '[':
			j := strings.IndexByte(pat[i:], ']')
			if j > 1 {
				sb.WriteString(rng.Pick([]string{"a", "b", "d", "A", "]"}))
				i += j
			} else {
				sb.WriteByte(c)
			}
		default:
			sb.WriteByte(c)
		}
	}
	return sb.String()
}

func escapeFor(rng *core.Rand, plain string, keepEscaped string) string {
	// percent-encode what must be encoded in a request target, plus the bytes in keepEscaped
	var sb strings.Builder
	for i := 0; i < len(plain); i++ {
		c := plain[i]
		must := !(isUnreserved(c) || strings.IndexByte("/$&+,:;=@!'()*", c) >= 0)
		if must || strings.IndexByte(keepEscaped, c) >= 0 {
			if rng.Chance(1, 2) {
				fmt.Fprintf(&sb, "%%%02X", c)
			} else {
				fmt.Fprintf(&sb, "%%%02x", c)
			}
		} else {
			sb.WriteByte(c)
		}
	}
	return sb.String()
}

func genPathCase(rng *core.Rand) string {
	n := 1 + rng.Intn(3)
	if rng.Chance(1, 12) {
		n = 4 + rng.Intn(8)
	}
	if rng.Chance(1, 50) {
		n = 0
	}
	var l []string
	for len(l) < n {
		p := rng.Pick(pathPatternTemplates)
		if rng.Chance(1, 8) {
			p = flipCase(rng, p, 0)
		}
		if rng.Chance(1, 10) {
			p = "/" + rng.Pick(segs) + "/" + rng.Pick(segs)
			if rng.Chance(1, 3) {
				p += "/*"
			}
		}
		l = append(l, p)
	}
	// the request: a filled-in pattern or an unrelated path, then re-spelt
	var plain string
	var fromPat string
	switch {
	case len(l) > 0 && rng.Chance(3, 4):
		fromPat = l[rng.Intn(len(l))]
		plain = fill(rng, fromPat)
	default:
		k := 1 + rng.Intn(4)
		for i := 0; i < k; i++ {
			plain += "/" + rng.Pick(segs)
		}
	}
	if rng.Chance(1, 6) {
		plain += rng.Pick([]string{"/", "x", "/x", ".", "/..", "/."})
	}
	if rng.Chance(1, 10) && len(plain) > 1 {
		i := rng.Intn(len(plain))
		plain = plain[:i] + rng.Pick([]string{"x", "/", "A", ""}) + plain[i+1:]
	}
	keep := ""
	if rng.Chance(1, 10) {
		keep = "/. %A"[:rng.Intn(6)]
	}
	if strings.Contains(fromPat, "%") && rng.Chance(4, 5) {
		// keep escaped what the pattern spells escaped
		for i := 0; i+2 < len(fromPat); i++ {
			if fromPat[i] == '%' && isHex(fromPat[i+1]) && isHex(fromPat[i+2]) {
				var b byte
				fmt.Sscanf(fromPat[i+1:i+3], "%02x", &b)
				keep += string([]byte{b})
			}
		}
	}
	raw := escapeFor(rng, plain, keep)
	if !strings.HasPrefix(raw, "/") && !rng.Chance(1, 20) {
		raw = "/" + raw
	}
	if strings.Contains(fromPat, "%") && rng.Chance(1, 2) {
		// boundary positions of the lock-step comparator: an escape at the very end, at the very
		// start, two adjacent ones, one next to an escape the pattern asks for
		sp := boundarySpellings(raw, "")
		if rng.Chance(1, 4) {
			raw = sp[0]
		} else if len(sp) > 1 {
			raw = sp[1+rng.Intn(len(sp)-1)]
		}
	}
	for k := rng.Intn(4); k > 0; k-- {
		if r2, ok := mutate(rng, raw, rng.Pick([]string{"case", "hexcase", "pct", "slash", "dot", "dotdot"})); ok {
			raw = r2
		}
	}
	var u *url.URL
	if pu, err := url.ParseRequestURI(raw); err == nil && pu.RawQuery == "" && !pu.ForceQuery && pu.Host == "" && pu.Scheme == "" {
		u = pu
	} else {
		// not a request target Go accepts (relative, "", …): hand the matcher a URL built by hand
		u = &url.URL{Path: plain}
	}
	return "path " + listField(l) + " " + core.Hex(u.Path) + " " + core.Hex(u.EscapedPath())
}

// genPathPair: a path case plus one explicit re-spelling of it.
func genPathPair(rng *core.Rand) string {
	f := strings.Fields(genPathCase(rng))
	p1, _ := core.UnHex(f[2])
	e1, _ := core.UnHex(f[3])
	kind := rng.Pick([]string{"case", "slash", "pct"})
	raw, ok := mutate(rng, e1, kind)
	if !ok {
		raw = e1
	}
	if l, _ := parseList(f[1]); hasPct(l) && strings.HasPrefix(e1, "/") && rng.Chance(1, 2) {
		// canonical spelling against a boundary spelling (escape at the end / start / adjacent)
		kind = "pct"
		sp := boundarySpellings(e1, "")
		e1 = sp[0]
		raw = sp[rng.Intn(len(sp))]
	}
	u, err := url.ParseRequestURI(raw)
	if err != nil || u.RawQuery != "" || u.ForceQuery || u.Host != "" || u.Scheme != "" {
		u = &url.URL{Path: p1, RawPath: e1}
	}
	return "pathpair " + kind + " " + f[1] + " " + core.Hex(p1) + " " + core.Hex(e1) + " " + core.Hex(u.Path) + " " + core.Hex(u.EscapedPath())
}

func genPathRECase(rng *core.Rand) string {
	lit := "/" + rng.Pick([]string{"foo", "Foo", "a/b", "admin", "index.html", "a", ""})
	if rng.Chance(1, 4) {
		lit += "/"
	}
	var plain string
	if rng.Chance(2, 3) {
		plain = lit
		if rng.Chance(1, 3) {
			plain += rng.Pick([]string{"x", "/x", "/", "/.."})
		}
		if rng.Chance(1, 4) {
			plain = "/pre" + plain
		}
	} else {
		for i := 1 + rng.Intn(3); i > 0; i-- {
			plain += "/" + rng.Pick(segs)
		}
	}
	raw := plain
	for k := rng.Intn(4); k > 0; k-- {
		if r2, ok := mutate(rng, raw, rng.Pick([]string{"case", "slash", "dot", "dotdot"})); ok {
			raw = r2
		}
	}
	return "pathre " + rng.Pick([]string{"full", "pre", "sub"}) + " " + core.Hex(lit) + " " + core.Hex(raw)
}

// genVia re-routes a host / path / path_regexp case through the CEL or JSON front door.
func genVia(rng *core.Rand, hr, pr, rr *core.Rand) string {
	switch rng.Intn(7) {
	case 0, 1:
		return rng.Pick([]string{"cel-", "json-"}) + genHostCase(hr)
	case 2, 3:
		return rng.Pick([]string{"cel-", "json-"}) + genPathCase(pr)
	case 4:
		return rng.Pick([]string{"cel-", "json-"}) + genPathRECase(rr)
	default:
		hf := strings.Fields(genHostCase(hr))
		pf := strings.Fields(genPathCase(pr))
		return rng.Pick([]string{"json-set ", "json-not "}) + hf[1] + " " + pf[1] + " " + hf[2] + " " + pf[2] + " " + pf[3]
	}
}

func genMalformed(rng *core.Rand) string {
	switch rng.Intn(12) {
	case 0:
		return "host zz 61"
	case 1:
		return "host 61"
	case 2:
		return "path 2f61 2f61"
	case 3:
		return "path 2f61 2f62 2f61" // EscapedPath is not an encoding of Path
	case 4:
		return "path 2f61 2f61 2f2561" // "%a": invalid escape
	case 5:
		return "path 2f61 2f613f 2f613f" // '?' must be escaped
	case 6:
		return "pathre glob 2f61 2f61"
	case 7:
		return "host " + listField([]string{"a}.test", "b.test"}) + " " + core.Hex("b.test") // ood: closing brace
	case 8:
		return "host " + listField([]string{"xn--bcher-kva.example", "b.test"}) + " " + core.Hex("b.test")
	case 9:
		return "path " + listField([]string{"/{http.request.uri.path}"}) + " 2f61 2f61"
	case 10:
		return rng.Pick([]string{"frob 00", "srvhost 7b61 - - - 61", "srvhost 61 - - 61", "srvhost 7b656e762e4330365f417d,7b656e762e4330365f417d 61 - - 61", "provision 61 !", "provision 61,62 =", "hosti 61 62 61", "cfsite 61 named . . 61 2f 2f", "cfsite 61 weird . . 61 2f 2f", "cfsite 7b61 none . . 61 2f 2f", "cfsite 613a3939393939 none . . 61 2f 2f", "cel-host . 61", "cel-host 27 61", "json-set 61 2f61 61 2f61", "cel-path zz 2f61 2f61", "pathpair case 2f61 2f61 2f61 2f62 2f62", "pathpair glob 2f61 2f61 2f61 2f61 2f61", "pathpair slash 2f61 2f2f61 2f2f61 2f61"})
	default:
		return "path " + listField([]string{"/é"}) + " 2f61 2f61"
	}
}

func (prop) Generate(rng *core.Rand, tier string, emit func(string)) {
	n := 30000
	switch tier {
	case "thorough":
		n = 250000
	case "search":
		n = 40000
	}
	hr, pr, rr, mr, nr := rng.Fork(), rng.Fork(), rng.Fork(), rng.Fork(), rng.Fork()
	vr, sr, qr := rng.Fork(), rng.Fork(), rng.Fork()
	wr, xr := rng.Fork(), rng.Fork()
	for c := 0; c < n; c++ {
		switch {
		case c%100 == 99:
			emit(genMalformed(mr))
		case c%50 == 17:
			emit(genHostNonASCII(nr))
		case c%20 == 7:
			emit(genPathRECase(rr))
		case c%20 == 13:
			emit(genPathPair(pr))
		case c%50 == 41:
			emit(genRedirCase(xr))
		case c%50 == 21:
			emit(genSrvCase(wr))
		case c%25 == 9:
			emit(genProvCase(qr))
		case c%50 == 11:
			emit(genSiteCase(sr))
		case c%15 == 4:
			emit(genVia(vr, hr, pr, rr))
		case c%5 < 2:
			emit(genHostCase(hr))
		default:
			emit(genPathCase(pr))
		}
	}
}
