package c07

import (
	"encoding/json"
	"fmt"
	"net/http"
	"net/http/httptest"
	"strings"

	"github.com/caddyserver/caddy/v2"
	"github.com/caddyserver/caddy/v2/caddyconfig"
	"github.com/caddyserver/caddy/v2/modules/caddyhttp"

	"verif/harness/internal/core"
)

// ---------------------------------------------------------------- op `two`
//
// Two file_server handlers on ONE request (one context, one variable table, one replacer),
// through the real adapter and the real http app:
//
//	mode p   route { file_server {A … pass_thru}; file_server {B} }      an overlay of roots
//	mode e   file_server {A}; handle_errors { file_server {B} }          B answers A's 404 / 403 / 500
//
// Each handler has its own root, hide list, index names and flags. The answer must be what the
// serving handler gives alone: whatever ran before on the same request must not lend it a hide
// list, a root or anything else.

const twoCaddyfileName = "/etc/caddy/Caddyfile"

type twoCase struct {
	mode string
	a, b serveCase
}

func blockText(c serveCase, indent string) string {
	var b strings.Builder
	b.WriteString(indent + "file_server")
	if c.browse {
		b.WriteString(" browse")
	}
	b.WriteString(" {\n")
	if c.root != "" {
		b.WriteString(indent + "\troot " + tok(c.root) + "\n")
	}
	if len(c.hide) > 0 {
		b.WriteString(indent + "\thide")
		for _, h := range c.hide {
			b.WriteString(" " + tok(h))
		}
		b.WriteString("\n")
	}
	if len(c.index) > 0 {
		b.WriteString(indent + "\tindex")
		for _, ix := range c.index {
			b.WriteString(" " + tok(ix))
		}
		b.WriteString("\n")
	}
	if c.pass {
		b.WriteString(indent + "\tpass_thru\n")
	}
	if !c.can {
		b.WriteString(indent + "\tdisable_canonical_uris\n")
	}
	b.WriteString(indent + "}\n")
	return b.String()
}

func (c twoCase) caddyfile() string {
	var b strings.Builder
	b.WriteString(":8080 {\n\tfs " + fsName + "\n")
	if c.mode == "p" {
		b.WriteString("\troute {\n" + blockText(c.a, "\t\t") + blockText(c.b, "\t\t") + "\t}\n")
	} else {
		b.WriteString(blockText(c.a, "\t") + "\thandle_errors {\n" + blockText(c.b, "\t\t") + "\t}\n")
	}
	b.WriteString("}\n")
	return b.String()
}

func parseBlock(cwd string, f []string) (serveCase, bool) {
	var c serveCase
	var e error
	var ok1, ok2, ok3 bool
	var bits []bool
	c.cwd = cwd
	c.root, e = core.UnHex(f[0])
	c.hide, ok1 = parseList(f[1])
	c.index, ok2 = parseList(f[2])
	bits, ok3 = parseBits(f[3], 3)
	if e != nil || !ok1 || !ok2 || !ok3 || !(c.root == "" || safeCfg(c.root)) {
		return c, false
	}
	for _, s := range append(append([]string{}, c.hide...), c.index...) {
		if !safeCfg(s) {
			return c, false
		}
	}
	c.browse, c.pass, c.can = bits[0], bits[1], bits[2]
	return c, true
}

func runTwo(f []string) core.Outcome {
	if len(f) != 13 || (f[1] != "p" && f[1] != "e") {
		return bad()
	}
	cwd, e1 := core.UnHex(f[2])
	p, e2 := core.UnHex(f[11])
	tree, okT := parseTree(f[12])
	if e1 != nil || e2 != nil || !okT || !validCwd(cwd) {
		return bad()
	}
	a, okA := parseBlock(cwd, f[3:7])
	b, okB := parseBlock(cwd, f[7:11])
	if !okA || !okB || (f[1] == "e" && b.pass) {
		return bad()
	}
	c := twoCase{mode: f[1], a: a, b: b}
	for _, x := range []*serveCase{&c.a, &c.b} {
		x.path, x.orig, x.tree = p, p, tree
	}
	herr := func(class string, err error) core.Outcome {
		return core.Outcome{Impl: "harness-error", Tags: []string{"harness-error"},
			Failures: []core.Failure{{Class: class, What: err.Error() + "\n" + c.caddyfile()}}}
	}
	if err := siteSetup(); err != nil {
		return herr("harness-error", err)
	}
	caddy.VerifSetWorkingDir(cwd)
	m := newMemFS(cwd, tree)
	theFS.cur = m
	out, _, err := caddyconfig.GetAdapter("caddyfile").Adapt([]byte(c.caddyfile()), map[string]any{"filename": twoCaddyfileName})
	if err != nil {
		return herr("site-refused-by-adapter", err)
	}
	var top struct {
		Apps map[string]json.RawMessage `json:"apps"`
	}
	if err := json.Unmarshal(out, &top); err != nil {
		return herr("harness-error", err)
	}
	ctx, cancel := caddy.NewContext(cctx)
	defer cancel()
	v, err := ctx.LoadModuleByID("http", top.Apps["http"])
	if err != nil {
		return herr("site-does-not-load", err)
	}
	srv := v.(*caddyhttp.App).Servers["srv0"]
	if srv == nil {
		return herr("harness-error", fmt.Errorf("no srv0"))
	}
	m.opened, m.readFile, m.readDir = nil, nil, nil

	r := httptest.NewRequest(http.MethodGet, "http://example.test:8080/", nil)
	r.Header.Set("Accept", "application/json")
	r.URL.Path = p
	r.URL.RawPath = ""
	r.RequestURI = r.URL.RequestURI()
	w := httptest.NewRecorder()
	srv.ServeHTTP(w, r)

	o := serveObs{fs: m, status: w.Code, body: w.Body.String()}
	if len(m.readFile) > 0 {
		o.fileName = m.readFile[len(m.readFile)-1]
	}
	if len(m.readDir) > 0 {
		o.listDir = m.readDir[len(m.readDir)-1]
	}
	switch {
	case w.Code == http.StatusPermanentRedirect:
		o.location = w.Header().Get("Location")
		o.outcome = "redirect"
		if strings.HasPrefix(p, "/") {
			o.outcome += " " + core.Hex(o.location)
		}
	case strings.HasPrefix(w.Header().Get("Content-Type"), "application/json; charset=utf-8") && len(m.readDir) > 0 && o.body != "":
		o.outcome = listingOutcome(&o, w.Body.Bytes())
	case strings.HasPrefix(o.body, "FILE:") && len(m.readFile) > 0:
		// inside handle_errors the file is sent with the error's status
		o.outcome = "file " + core.Hex(o.fileName) + " " + strings.TrimSuffix(strings.TrimPrefix(o.body, "FILE:"), ":END\n")
	case w.Code == 404:
		o.outcome = "notfound"
	case w.Code == 403:
		o.outcome = "forbidden"
	case w.Code == 500:
		o.outcome = "error"
	case w.Code == 503:
		o.outcome = "unavailable"
	case w.Code == 200 && o.body == "":
		o.outcome = "passthru"
	default:
		o.outcome = fmt.Sprintf("status:%d", w.Code)
	}
	res := core.Outcome{Impl: o.outcome + " | " + showList(m.opened)}
	res.Tags = []string{"op:two", "two:mode-" + c.mode, "two:" + strings.Fields(o.outcome)[0]}

	// ---- the property, on the implementation alone: whatever was read or listed is below the
	// root of ONE of the two handlers and not hidden by THAT handler's own hide list
	RA, RB := rootOf(cwd, c.a.root), rootOf(cwd, c.b.root)
	okFor := func(abs string) bool {
		if under(RA, abs) {
			if h, _ := specHidden(cwd, c.a.hide, abs); !h {
				return true
			}
		}
		if under(RB, abs) {
			if h, _ := specHidden(cwd, c.b.hide, abs); !h {
				return true
			}
		}
		return false
	}
	for _, n := range m.opened {
		if n == "" {
			continue
		}
		if q := resolve(cwd, n); !under(RA, q) && !under(RB, q) && !ancestorOf(q, RA) && !ancestorOf(q, RB) {
			res.Failures = append(res.Failures, fail("fs-access-outside-root", "request path %q: Open(%q) = %q is outside both roots %q and %q", p, n, q, RA, RB))
			break
		}
	}
	if strings.HasPrefix(o.outcome, "file ") {
		abs := resolve(cwd, o.fileName)
		if !okFor(abs) {
			res.Failures = append(res.Failures, fail("second-handler-ignores-its-own-hide-list",
				"request path %q through two file servers (%s; A: root %q hide %q; B: root %q hide %q): the bytes of %q were served although no handler may serve it (outside its root or hidden by its own list)",
				p, c.mode, c.a.root, c.a.hide, c.b.root, c.b.hide, abs))
		}
		if _, a2, err := m.lookup(o.fileName); err != nil || o.body != marker(tree[a2].id) {
			res.Failures = append(res.Failures, fail("body-mismatch", "request path %q: body %q is not the content of %q", p, clip(o.body), o.fileName))
		}
	}
	if o.listing != nil {
		dir := resolve(cwd, o.listDir)
		if !okFor(dir) {
			res.Failures = append(res.Failures, fail("second-handler-ignores-its-own-hide-list", "request path %q (%s): listing of %q, which no handler may list (A: root %q hide %q; B: root %q hide %q)", p, c.mode, dir, c.a.root, c.a.hide, c.b.root, c.b.hide))
		}
		for _, n := range o.listing {
			child := dir + "/" + strings.TrimSuffix(n, "/")
			if dir == "/" {
				child = "/" + strings.TrimSuffix(n, "/")
			}
			if !okFor(child) {
				res.Failures = append(res.Failures, fail("second-handler-ignores-its-own-hide-list",
					"request path %q through two file servers (%s; A: root %q hide %q; B: root %q hide %q): the listing of %q shows %q, which is hidden by the list of every handler that may list it",
					p, c.mode, c.a.root, c.a.hide, c.b.root, c.b.hide, dir, n))
				break
			}
		}
	}
	if o.outcome == "listing-unparsable" || strings.HasPrefix(o.outcome, "status:") {
		res.Failures = append(res.Failures, fail("unexpected-outcome", "request path %q: %s, body %q", p, o.outcome, clip(o.body)))
	}
	// which handler served?
	if len(m.readFile)+len(m.readDir) > 0 {
		q := resolve(cwd, append(append([]string{}, m.readFile...), m.readDir...)[0])
		switch {
		case under(RB, q) && !under(RA, q):
			res.Tags = append(res.Tags, "two:served-by-B")
		case under(RA, q) && !under(RB, q):
			res.Tags = append(res.Tags, "two:served-by-A")
		}
	}
	if len(c.b.hide) > 0 {
		res.Tags = append(res.Tags, "two:B-has-hide-rules")
	}
	if len(m.opened) <= 1 {
		res.Tags = append(res.Tags, "trivial")
	}
	return res
}
