package c07

import (
	"fmt"
	"net/url"
	"path"
	"path/filepath"
	"strings"

	"verif/harness/internal/core"
)

// ---------------------------------------------------------------- the property, evaluated on
// the implementation's own observations (no model involved)

// resolve is the lexical meaning of a name relative to cwd.
func resolve(cwd, name string) string {
	if strings.HasPrefix(name, "/") {
		return path.Clean(name)
	}
	return path.Clean(cwd + "/" + name)
}

// under: p is root or lies below it (both absolute and clean).
func under(root, p string) bool {
	return root == "/" || p == root || strings.HasPrefix(p, root+"/")
}

// ancestorOf: p is a proper lexical ancestor of root.
func ancestorOf(p, root string) bool {
	return p == "/" || strings.HasPrefix(root, p+"/")
}

// specHidden is the hide rule as documented: an entry without a separator hides every file or
// directory of that name (any path component); an entry with a separator is a file-system path
// (relative to the working directory) hiding that file, everything below it, and whatever it
// matches as a glob.  byPathRuleOnly: hidden, but by no separator-free entry.
func specHidden(cwd string, hide []string, abs string) (hidden, byPathRuleOnly bool) {
	byName, byPath := false, false
	for _, h := range hide {
		if !strings.Contains(h, "/") {
			for _, comp := range strings.Split(abs, "/") {
				if ok, _ := filepath.Match(h, comp); ok {
					byName = true
				}
			}
			continue
		}
		habs := resolve(cwd, h)
		if habs == "/" {
			continue
		}
		if abs == habs || strings.HasPrefix(abs, habs+"/") {
			byPath = true
		}
		if ok, _ := filepath.Match(habs, abs); ok {
			byPath = true
		}
	}
	return byName || byPath, byPath && !byName
}

func fail(class, format string, a ...any) core.Failure {
	return core.Failure{Class: class, What: fmt.Sprintf(format, a...)}
}

func rootOf(cwd, root string) string {
	if root == "" {
		root = "."
	}
	return resolve(cwd, root)
}

func oracleJoin(root, req, out string) []core.Failure {
	rc := root
	if rc == "" {
		rc = "."
	}
	rc = path.Clean(rc)
	o := out
	if o != "/" {
		o = strings.TrimSuffix(o, "/")
	}
	var rest string
	switch {
	case rc == "/":
		if !strings.HasPrefix(o, "/") {
			return []core.Failure{fail("join-escapes-root", "SanitizedPathJoin(%q,%q)=%q is not below /", root, req, out)}
		}
		rest = o[1:]
	case rc == ".":
		if strings.HasPrefix(o, "/") {
			return []core.Failure{fail("join-escapes-root", "SanitizedPathJoin(%q,%q)=%q is absolute", root, req, out)}
		}
		rest = o
		if rest == "." {
			rest = ""
		}
	case o == rc:
		rest = ""
	case strings.HasPrefix(o, rc+"/"):
		rest = o[len(rc)+1:]
	default:
		return []core.Failure{fail("join-escapes-root", "SanitizedPathJoin(%q,%q)=%q is not below %q", root, req, out, rc)}
	}
	if rest != "" {
		for _, c := range strings.Split(rest, "/") {
			if c == ".." || c == "." || c == "" {
				return []core.Failure{fail("join-keeps-dot-segment", "SanitizedPathJoin(%q,%q)=%q has segment %q below the root", root, req, out, c)}
			}
		}
	}
	return nil
}

func hasKind(tree map[string]kind, k byte) bool {
	for _, n := range tree {
		if n.k == k {
			return true
		}
	}
	return false
}

func oracleServe(c serveCase, o serveObs) []core.Failure {
	var fs []core.Failure
	R := rootOf(c.cwd, c.root)
	m := o.fs
	// (a) every name handed to the filesystem is below the root (or, for the ENOTDIR
	//     mapping of mapDirOpenError, a lexical ancestor of it that is only stat'ed)
	for _, n := range m.opened {
		if n == "" {
			continue
		}
		p := resolve(c.cwd, n)
		if !under(R, p) && !ancestorOf(p, R) {
			fs = append(fs, fail("fs-access-outside-root", "request path %q (root %q, cwd %q): Open(%q) = %q is outside the root %q", c.path, c.root, c.cwd, n, p, R))
			break
		}
	}
	// a precompressed sidecar stands in for its base file: the base file must be servable
	// (below the root, existing, not hidden), the encoding configured and accepted; whether the
	// sidecar's own name matches a hide rule is not looked at by the code (histogram tag only)
	sidecarAbs := ""
	if o.sidecarEnc != "" {
		sidecarAbs = resolve(c.cwd, o.fileName)
		suf := map[string]string{"gzip": ".gz", "br": ".br", "zstd": ".zst"}[o.sidecarEnc]
		idx := map[string]int{"gzip": 0, "br": 1, "zstd": 2}[o.sidecarEnc]
		acc := false
		for _, a := range c.accepted {
			if a == o.sidecarEnc {
				acc = true
			}
		}
		switch {
		case suf == "" || !c.pre[idx] || !acc:
			fs = append(fs, fail("sidecar-encoding-not-negotiated", "request path %q: Content-Encoding %q served (configured %v, accepted %q)", c.path, o.sidecarEnc, c.pre, c.accepted))
		case !strings.HasSuffix(o.fileName, suf):
			fs = append(fs, fail("sidecar-wrong-name", "request path %q: %q served as %s sidecar", c.path, o.fileName, o.sidecarEnc))
		default:
			base := resolve(c.cwd, strings.TrimSuffix(o.fileName, suf))
			n, _, err := m.lookup(strings.TrimSuffix(o.fileName, suf))
			if err != nil || n.k != 'f' || !under(R, base) {
				fs = append(fs, fail("sidecar-without-servable-base", "request path %q: sidecar %q served but its base file %q is not a file below the root", c.path, sidecarAbs, base))
			} else if h, _ := specHidden(c.cwd, c.hide, base); h {
				fs = append(fs, fail("sidecar-of-hidden-file", "request path %q: sidecar %q of hidden file %q served (hide %q)", c.path, sidecarAbs, base, c.hide))
			} else if h, _ := specHidden(c.cwd, c.hide, sidecarAbs); h {
				// the base file may be served, but the bytes sent are those of a file that matches a hide rule
				fs = append(fs, fail("hidden-sidecar-served", "request path %q: the bytes of %q, which is hidden (hide %q), were served as the %s form of %q", c.path, sidecarAbs, c.hide, o.sidecarEnc, base))
			}
		}
	}
	// an etag file's content is sent in a header: it must be the etag file of what is served
	// (served name + configured extension), below the root and not hidden
	etagAbs := ""
	if o.etagName != "" {
		etagAbs = resolve(c.cwd, o.etagName)
		okName := false
		for _, ext := range c.etagExt {
			if o.fileName+ext == o.etagName {
				okName = true
			}
		}
		switch {
		case !okName:
			fs = append(fs, fail("etag-from-wrong-file", "request path %q: Etag taken from %q, served file %q, extensions %q", c.path, o.etagName, o.fileName, c.etagExt))
		case !under(R, etagAbs):
			fs = append(fs, fail("etag-leaks-outside-file", "request path %q: the content of %q (outside root %q) was sent as Etag", c.path, etagAbs, R))
		default:
			if h, _ := specHidden(c.cwd, c.hide, etagAbs); h {
				fs = append(fs, fail("hidden-etag-file-served", "request path %q: the content of %q, which is hidden (hide %q), was sent in the Etag header of %q", c.path, etagAbs, c.hide, o.fileName))
			}
		}
	}
	// (b) whatever was read (bytes or directory entries) is below the root and not hidden
	for _, n := range append(append([]string{}, m.readFile...), m.readDir...) {
		p := resolve(c.cwd, n)
		if (p == sidecarAbs || p == etagAbs) && under(R, p) {
			continue
		}
		if !under(R, p) {
			fs = append(fs, fail("read-outside-root", "request path %q: contents of %q (outside root %q) were read", c.path, p, R))
		} else if h, _ := specHidden(c.cwd, c.hide, p); h {
			fs = append(fs, fail("read-hidden", "request path %q: contents of hidden %q were read (hide %q)", c.path, p, c.hide))
		}
	}
	// (c) the response body never carries the marker of an outside or hidden file
	if strings.Contains(o.body, "FILE:") {
		for p, n := range c.tree {
			if n.k != 'f' || !strings.Contains(o.body, marker(n.id)) {
				continue
			}
			if p == sidecarAbs && under(R, p) {
				continue
			}
			if !under(R, p) {
				fs = append(fs, fail("body-leaks-outside-file", "request path %q served the bytes of %q, outside root %q", c.path, p, R))
			} else if h, _ := specHidden(c.cwd, c.hide, p); h {
				fs = append(fs, fail("body-leaks-hidden-file", "request path %q served the bytes of hidden file %q (hide %q)", c.path, p, c.hide))
			}
		}
	}
	if strings.HasPrefix(o.outcome, "file ") || strings.HasPrefix(o.outcome, "sidecar ") {
		_, abs, err := m.lookup(o.fileName)
		if err != nil || o.body != marker(c.tree[abs].id) {
			fs = append(fs, fail("body-mismatch", "request path %q: body %q is not the content of the opened file %q", c.path, o.body, o.fileName))
		}
	}
	// (d) listings: of a non-hidden directory below the root, without hidden entries
	if o.listing != nil {
		dir := resolve(c.cwd, o.listDir)
		if h, _ := specHidden(c.cwd, c.hide, dir); h {
			fs = append(fs, fail("listing-of-hidden-dir", "request path %q lists hidden directory %q", c.path, dir))
		}
		ents := map[string]bool{}
		for _, e := range m.children(dir) {
			ents[e.name] = true
		}
		for _, n := range o.listing {
			name := strings.TrimSuffix(n, "/")
			if !ents[name] {
				fs = append(fs, fail("listing-phantom-entry", "request path %q: listing of %q shows %q which is not an entry", c.path, dir, n))
				continue
			}
			child := dir + "/" + name
			if dir == "/" {
				child = "/" + name
			}
			if h, pathOnly := specHidden(c.cwd, c.hide, child); h {
				if pathOnly {
					fs = append(fs, fail("listing-shows-entry-hidden-by-path-rule", "request path %q: listing of %q shows %q although %q is hidden by a path rule (hide %q)", c.path, dir, n, child, c.hide))
				} else {
					fs = append(fs, fail("listing-shows-hidden-entry", "request path %q: listing of %q shows hidden entry %q (hide %q)", c.path, dir, n, c.hide))
				}
			}
		}
	}
	// (e) every other request ends in not-found / pass-thru (or the canonical redirect of a
	//     servable target, or the status of a filesystem error that the tree contains)
	kindOf := strings.Fields(o.outcome)[0]
	switch kindOf {
	case "file", "listing", "sidecar":
	case "notfound":
		if c.pass {
			fs = append(fs, fail("notfound-despite-passthru", "request path %q: 404 although pass_thru is set", c.path))
		}
	case "passthru":
		if !c.pass {
			fs = append(fs, fail("passthru-not-configured", "request path %q: next handler invoked although pass_thru is off", c.path))
		}
		if o.body != "" {
			fs = append(fs, fail("passthru-after-writing", "request path %q: passed on after writing %q", c.path, o.body))
		}
	case "redirect":
		// the Location is a path on the same origin: exactly one leading slash, and no client
		// would read a scheme or an authority out of it
		if strings.HasPrefix(c.orig, "/") && c.orig != "/" {
			bad := !strings.HasPrefix(o.location, "/") || strings.HasPrefix(o.location, "//")
			if u, err := url.Parse(o.location); err == nil && (u.Scheme != "" || u.Host != "") {
				bad = true
			}
			if bad {
				fs = append(fs, fail("redirect-location-leaves-origin", "request %q (query %q): redirected to %q, which is not a path on the same origin", c.orig, c.query, o.location))
			}
		}
		// the redirect must not reveal a hidden target: the last name that exists is the target
		for i := len(m.opened) - 1; i >= 0; i-- {
			if _, abs, err := m.lookup(m.opened[i]); err == nil {
				if h, _ := specHidden(c.cwd, c.hide, abs); h {
					fs = append(fs, fail("redirect-reveals-hidden", "request path %q: canonical redirect for hidden %q", c.path, abs))
				}
				if !under(R, abs) {
					fs = append(fs, fail("redirect-reveals-outside", "request path %q: canonical redirect for %q outside root", c.path, abs))
				}
				break
			}
		}
	case "forbidden":
		if !hasKind(c.tree, 'p') {
			fs = append(fs, fail("unexpected-outcome", "request path %q: 403 without a permission error in the tree", c.path))
		}
	case "error", "unavailable":
		if !hasKind(c.tree, 'e') && len(c.etagExt) == 0 {
			fs = append(fs, fail("unexpected-outcome", "request path %q: %s without an i/o error in the tree", c.path, kindOf))
		}
	case "listing-unparsable":
		fs = append(fs, fail("listing-body-is-not-one-listing", "request path %q (root %q): the browse response is not the JSON listing of one directory: %q", c.path, c.root, clip(o.body)))
	default:
		fs = append(fs, fail("unexpected-outcome", "request path %q: outcome %q", c.path, o.outcome))
	}
	if !strings.HasPrefix(o.outcome, "file ") && !strings.HasPrefix(o.outcome, "sidecar ") && !strings.HasPrefix(o.outcome, "listing ") && kindOf != "passthru" && strings.Contains(o.body, "FILE:") {
		fs = append(fs, fail("body-with-non-file-outcome", "request path %q: outcome %q but body %q", c.path, o.outcome, o.body))
	}
	return fs
}

func serveTags(c serveCase, o serveObs) []string {
	kindOf := strings.Fields(o.outcome)[0]
	t := []string{"op:serve", "serve:" + kindOf}
	trav := strings.Contains(c.path, "..") || strings.ContainsAny(c.path, "\\\x00%") || strings.Contains(c.path, "//")
	if trav {
		t = append(t, "serve:hostile-path")
	}
	if c.path != c.orig {
		t = append(t, "serve:rewritten")
	}
	if len(o.fs.opened) > 1 {
		t = append(t, "serve:multi-stat")
	}
	// was the request aimed at something hidden / outside?
	R := rootOf(c.cwd, c.root)
	if len(o.fs.opened) > 0 && (kindOf == "notfound" || kindOf == "passthru") {
		if _, abs, err := o.fs.lookup(o.fs.opened[0]); err == nil {
			if h, _ := specHidden(c.cwd, c.hide, abs); h {
				t = append(t, "serve:hidden-target-refused")
			}
		}
	}
	if strings.Contains(c.path, "..") {
		// where would a naive join have gone?
		naive := path.Clean(R + "/" + c.path)
		if !under(R, naive) {
			t = append(t, "serve:naive-join-escapes")
			if _, _, err := o.fs.lookup(naive); err == nil {
				t = append(t, "serve:naive-join-hits-outside-file")
			}
		}
	}
	if o.listing != nil {
		_, abs, _ := o.fs.lookup(o.listDir)
		if len(o.listing) < len(o.fs.children(abs)) {
			t = append(t, "serve:listing-filtered")
		}
	}
	op := o.fs.opened
	if len(op) > 0 {
		first := op[0]
		if first == "" {
			t = append(t, "serve:empty-filename")
		}
		if strings.IndexByte(first, 0) >= 0 {
			t = append(t, "serve:nul-in-filename")
		}
		for _, n := range op[1:] {
			if n != first && n != "" && strings.HasPrefix(first, n) {
				t = append(t, "serve:enotdir-prefix-walk")
				break
			}
		}
		if n, _, err := o.fs.lookup(first); err == nil && n.k == 'd' {
			t = append(t, "serve:dir-request")
			if (kindOf == "file" || kindOf == "redirect") && len(op) > 1 && op[len(op)-1] != first {
				t = append(t, "serve:index-file-used")
			}
			if kindOf == "listing" && o.listDir != first {
				t = append(t, "serve:index-is-directory")
			}
			// an index candidate that exists but was never stat'ed was skipped as hidden
			for _, ix := range c.index {
				if ix == "" {
					continue
				}
				cand := path.Clean(resolve(c.cwd, first) + "/" + path.Clean("/"+ix))
				if _, _, e := o.fs.lookup(cand); e == nil {
					seen := false
					for _, n := range op[1:] {
						if resolve(c.cwd, n) == cand {
							seen = true
						}
					}
					if !seen {
						t = append(t, "serve:hidden-index-skipped")
					}
					break
				}
			}
		}
	}
	if !strings.HasPrefix(c.root, "/") {
		t = append(t, "serve:relative-root")
	}
	t = append(t, "serve:config-via-"+string(c.via))
	if c.indexOmitted {
		t = append(t, "serve:index-names-defaulted")
	}
	if kindOf == "redirect" {
		if strings.HasPrefix(c.orig, "//") {
			t = append(t, "serve:redirect-from-double-slash-original")
		}
		if c.query != "" {
			t = append(t, "serve:redirect-with-query")
		}
		if _, err := url.Parse(c.orig); err != nil {
			t = append(t, "serve:redirect-original-unparsable")
		}
	}
	if o.etagName != "" {
		t = append(t, "serve:etag-from-file")
	}
	if len(c.etagExt) > 0 && kindOf == "error" {
		t = append(t, "serve:etag-file-unreadable")
	}
	if c.phRoot {
		t = append(t, "serve:root-from-placeholder")
	}
	if o.sidecarEnc != "" {
		if h, _ := specHidden(c.cwd, c.hide, resolve(c.cwd, o.fileName)); h {
			t = append(t, "serve:hidden-sidecar-served")
		}
	}
	if len(c.accepted) > 0 && (c.pre[0] || c.pre[1] || c.pre[2]) && kindOf == "file" {
		t = append(t, "serve:precompressed-configured-plain-file-served")
	}
	if c.phHide && len(c.hide) > 0 {
		t = append(t, "serve:hide-from-placeholders")
	}
	if c.phIndex && len(c.index) > 0 {
		t = append(t, "serve:index-from-placeholders")
	}
	if R == "/" {
		t = append(t, "serve:root-is-slash")
	}
	if (kindOf == "notfound" || kindOf == "passthru") && len(o.fs.opened) == 1 && !trav {
		t = append(t, "trivial")
	}
	return t
}

func oracleMatch(c matchCase, o matchObs) []core.Failure {
	var fs []core.Failure
	rootCfg := c.root
	if rootCfg == "" {
		rootCfg = "."
	}
	R := resolve(c.cwd, rootCfg)
	for _, n := range o.fs.opened {
		if n == "" {
			continue
		}
		if p := resolve(c.cwd, n); !under(R, p) {
			fs = append(fs, fail("matcher-fs-access-outside-root", "request path %q tries %v: Open(%q) = %q outside root %q", c.path, c.tries, n, p, R))
			break
		}
	}
	for _, n := range o.fs.readDir {
		if p := resolve(c.cwd, n); !under(R, p) {
			fs = append(fs, fail("matcher-lists-outside-root", "request path %q: directory %q outside root %q was listed", c.path, p, R))
		}
	}
	if !o.matched {
		return fs
	}
	P := resolve(c.cwd, o.abs)
	if !under(R, P) {
		fs = append(fs, fail("matcher-result-outside-root", "request path %q tries %v matched %q outside root %q", c.path, c.tries, P, R))
	}
	if c.policy == '0' && len(c.splits) == 0 {
		n, _, err := o.fs.lookup(o.abs)
		switch {
		case err != nil:
			fs = append(fs, fail("matcher-matched-missing", "request path %q matched %q which does not exist", c.path, o.abs))
		case (n.k == 'd') != (o.typ == "directory"):
			fs = append(fs, fail("matcher-wrong-type", "request path %q matched %q as %s", c.path, o.abs, o.typ))
		}
	}
	return fs
}

func matchTags(c matchCase, o matchObs) []string {
	t := []string{"op:matchfile", "matchfile:" + strings.Fields(o.outcome)[0]}
	if strings.ContainsAny(c.path, "*?[") {
		t = append(t, "matchfile:glob-chars-in-request")
	}
	if len(o.fs.readDir) > 0 {
		t = append(t, "matchfile:readdir")
	}
	if strings.Contains(c.path, "..") {
		t = append(t, "matchfile:dotdot")
	}
	t = append(t, "matchfile:policy-"+string(c.policy))
	if len(c.splits) > 0 {
		t = append(t, "matchfile:split_path")
	}
	if o.matched && unintendedGlob(c, o) {
		// which file inside the root a pattern selects is not part of C07 (containment and
		// hide rules are); recorded for the histogram only
		t = append(t, "matchfile:glob-syntax-from-request")
	}
	if o.matched && o.typ == "directory" {
		t = append(t, "matchfile:directory")
	}
	if !o.matched && len(o.fs.opened) <= 1 && !strings.Contains(c.path, "..") {
		t = append(t, "trivial")
	}
	return t
}

// unintendedGlob: the literal parts of every try_files entry are glob-free, yet the match is
// none of the lexically joined candidates (the request contributed live glob syntax, e.g. a
// backslash that globSafeRepl does not escape).
func unintendedGlob(c matchCase, o matchObs) bool {
	rootCfg := c.root
	if rootCfg == "" {
		rootCfg = "."
	}
	P := resolve(c.cwd, o.abs)
	for _, t := range c.tries {
		if strings.ContainsAny(t.pre+t.suf, "*?[\\") {
			return false
		}
		s := t.pre + t.suf
		if t.use {
			s = t.pre + c.path + t.suf
		}
		if resolve(c.cwd, path.Clean(rootCfg)+"/"+path.Clean("/"+path.Clean(s))) == P {
			return false
		}
	}
	return true
}
