// Package c07: static file serving never leaves the site root and honours hide rules.
//
// One case = one call of the REAL fileserver.FileServer.ServeHTTP / fileserver.MatchFile
// (provisioned through the public API: caddy.ProvisionContext, ctx.FileSystems().Register,
// Provision) against an instrumented in-memory fs.FS (memfs.go) holding the case's tree, or a
// direct call of caddyhttp.SanitizedPathJoin / path.Clean / path.Match.
//
// Protocol (fields separated by one space; byte strings hex, "-" = empty, "." = empty list):
//
//	clean <p>                      path.Clean                      → ok <hex>
//	join <root> <req>              caddyhttp.SanitizedPathJoin     → ok <hex>
//	match <pat> <name>             path.Match (+ filepath.Match)   → true | false | badpattern
//	serve <cwd> <root> <hide> <index> <flags> <path> <orig> <tree>
//	      flags = browse, pass_thru, canonical_uris [, root / every hide entry / every index name is
//	      configured as a {http.vars.…} placeholder expanding to the field's value]
//	pair <fault> <serve fields A> // <serve fields B>     (request sequence, see runPair)
//	matchfile <cwd> <root> <tries> <fallback> <path> <tree>
//
// see lean/CaddyModel/C07/Driver.lean for the field grammar and the answers.
package c07

import (
	"context"
	"encoding/json"
	"errors"
	"fmt"
	"net/http"
	"net/http/httptest"
	"os"
	"path"
	"path/filepath"
	"sort"
	"strconv"
	"strings"
	"sync"
	"unicode/utf8"

	"github.com/caddyserver/caddy/v2"
	"github.com/caddyserver/caddy/v2/caddyconfig/caddyfile"
	"github.com/caddyserver/caddy/v2/modules/caddyhttp"
	_ "github.com/caddyserver/caddy/v2/modules/caddyhttp/encode/brotli"
	_ "github.com/caddyserver/caddy/v2/modules/caddyhttp/encode/gzip"
	_ "github.com/caddyserver/caddy/v2/modules/caddyhttp/encode/zstd"
	"github.com/caddyserver/caddy/v2/modules/caddyhttp/fileserver"

	"verif/harness/internal/core"
)

type prop struct{}

func New() core.Prop { return prop{} }

func (prop) ID() string { return "C07" }

const fsName = "verif_c07"

var (
	setupOnce sync.Once
	setupErr  error
	cctx      caddy.Context
	theFS     = &swapFS{}
)

// setup provisions an (empty) caddy config once and registers the instrumented filesystem
// in its filesystem map, the way the caddy.filesystems app does.
func setup() error {
	setupOnce.Do(func() {
		cfg := &caddy.Config{
			Admin: &caddy.AdminConfig{Disabled: true, Config: &caddy.ConfigSettings{Persist: new(bool)}},
			Logging: &caddy.Logging{Logs: map[string]*caddy.CustomLog{
				"default": {BaseLog: caddy.BaseLog{WriterRaw: json.RawMessage(`{"output":"discard"}`)}},
			}},
		}
		cctx, setupErr = caddy.ProvisionContext(cfg)
		if setupErr != nil {
			return
		}
		cctx.FileSystems().Register(fsName, theFS)
	})
	return setupErr
}

// ---------------------------------------------------------------- parsing

func parseList(s string) ([]string, bool) {
	if s == "." {
		return []string{}, true
	}
	var out []string
	for _, p := range strings.Split(s, ",") {
		v, err := core.UnHex(p)
		if err != nil {
			return nil, false
		}
		out = append(out, v)
	}
	return out, true
}

func showList(l []string) string {
	if len(l) == 0 {
		return "."
	}
	h := make([]string, len(l))
	for i, s := range l {
		h[i] = core.Hex(s)
	}
	return strings.Join(h, ",")
}

func parseTree(s string) (map[string]kind, bool) {
	tree := map[string]kind{}
	if s == "." {
		return tree, true
	}
	prev := ""
	for i, ent := range strings.Split(s, ";") {
		a := strings.Split(ent, ":")
		if len(a) != 2 {
			return nil, false
		}
		p, err := core.UnHex(a[0])
		if err != nil {
			return nil, false
		}
		var k kind
		switch {
		case a[1] == "d" || a[1] == "p" || a[1] == "e":
			k = kind{k: a[1][0]}
		case len(a[1]) > 1 && a[1][0] == 'f':
			for _, c := range a[1][1:] {
				if c < '0' || c > '9' {
					return nil, false
				}
			}
			id, err := strconv.Atoi(a[1][1:])
			if err != nil {
				return nil, false
			}
			k = kind{k: 'f', id: id}
		default:
			return nil, false
		}
		if !strings.HasPrefix(p, "/") || p == "/" || path.Clean(p) != p {
			return nil, false
		}
		if i > 0 && !(prev < p) {
			return nil, false
		}
		prev = p
		tree[p] = k
	}
	return tree, true
}

func parseBits(s string, n int) ([]bool, bool) {
	if len(s) != n {
		return nil, false
	}
	out := make([]bool, n)
	for i := 0; i < n; i++ {
		switch s[i] {
		case '0':
		case '1':
			out[i] = true
		default:
			return nil, false
		}
	}
	return out, true
}

type tryFile struct {
	pre string
	use bool
	suf string
}

const pathPlaceholder = "{http.request.uri.path}"

func (t tryFile) raw() string {
	if t.use {
		return t.pre + pathPlaceholder + t.suf
	}
	return t.pre + t.suf
}

func parseTries(s string) ([]tryFile, bool) {
	if s == "." {
		return nil, true
	}
	var out []tryFile
	for _, ent := range strings.Split(s, ";") {
		a := strings.Split(ent, ":")
		if len(a) != 3 {
			return nil, false
		}
		pre, e1 := core.UnHex(a[0])
		suf, e2 := core.UnHex(a[2])
		if e1 != nil || e2 != nil || (a[1] != "0" && a[1] != "1") {
			return nil, false
		}
		t := tryFile{pre, a[1] == "1", suf}
		if strings.ContainsAny(pre, "{}") || strings.ContainsAny(suf, "{}") || strings.HasSuffix(pre, "\\") || strings.HasPrefix(t.raw(), "=") {
			return nil, false
		}
		out = append(out, t)
	}
	return out, true
}

func validCwd(cwd string) bool { return strings.HasPrefix(cwd, "/") && path.Clean(cwd) == cwd }

// ---------------------------------------------------------------- running the real code

type serveCase struct {
	cwd, root         string
	hide, index       []string
	browse, pass, can bool
	// the configured value is a placeholder ({http.vars.…}) that expands to the field's value
	phRoot, phHide, phIndex bool
	pre                     [3]bool   // precompressed gzip, br, zstd configured
	accepted                []string  // what encode.AcceptedEncodings shall return, in order
	query                   string    // r.URL.RawQuery
	etagExt                 []string  // etag_file_extensions
	via                     byte      // 's' struct literal (default), 'j' JSON, 'c' Caddyfile tokens
	indexOmitted            bool      // index_names not configured at all: Provision's default applies
	fault                   faultSpec // only inside a `pair` case: how this request's listing fails to be delivered
	path, orig              string
	tree                    map[string]kind
}

type serveObs struct {
	outcome    string // canonical outcome
	status     int
	nextHit    bool
	body       string
	listing    []string // names as listed (JSON), nil if not a listing
	listDir    string   // name of the directory handle that was listed
	fileName   string   // name of the file handle that was read
	sidecarEnc string   // Content-Encoding of a served precompressed sidecar
	location   string   // Location header of a redirect
	etagName   string   // name of the etag file whose content became the Etag header
	fs         *memFS
}

// faultSpec: a listing that is rendered but not (completely) delivered.
//
//	kind 'w': the client's connection fails after k body bytes (Write returns n<len, error)
//	kind 't': a custom browse template that fails after it has printed the items
type faultSpec struct {
	kind byte
	k    int
}

// failingWriter delivers the first k body bytes and then fails like a reset connection.
type failingWriter struct {
	http.ResponseWriter
	left int
}

func (f *failingWriter) Write(p []byte) (int, error) {
	if len(p) <= f.left {
		f.left -= len(p)
		return f.ResponseWriter.Write(p)
	}
	n, _ := f.ResponseWriter.Write(p[:f.left])
	f.left = 0
	return n, errors.New("write: connection reset by peer")
}

var (
	tplOnce sync.Once
	tplDir  string
	tplFile string
)

// faultTemplate writes (once) a browse template that prints every item and then fails.
func faultTemplate() string {
	tplOnce.Do(func() {
		d, err := os.MkdirTemp(".", "c07tpl-")
		if err != nil {
			return
		}
		tplDir, _ = filepath.Abs(d)
		tplFile = filepath.Join(tplDir, "fault.html")
		_ = os.WriteFile(tplFile, []byte("LISTING {{range .Items}}[{{.Name}}]{{end}}{{httpError 500}}"), 0o644)
	})
	return tplFile
}

// Finish removes the template directory (called by core.Main).
func (prop) Finish(*core.Session) {
	if tplDir != "" {
		os.RemoveAll(tplDir)
	}
	siteCleanup()
}

func newRequest(orig, cur string, query ...string) (*http.Request, *httptest.ResponseRecorder) {
	r := httptest.NewRequest(http.MethodGet, "http://example.test/", nil)
	r.Header.Set("Accept", "application/json")
	r.URL.Path = orig
	r.URL.RawPath = ""
	if len(query) > 0 {
		r.URL.RawQuery = query[0]
	}
	w := httptest.NewRecorder()
	repl := caddy.NewReplacer()
	r = caddyhttp.PrepareRequest(r, repl, w, nil)
	// what a rewrite handler does: the current path differs from the original request's
	r.URL.Path = cur
	return r, w
}

func runServe(c serveCase) (serveObs, error) {
	if err := setup(); err != nil {
		return serveObs{}, err
	}
	caddy.VerifSetWorkingDir(c.cwd)
	m := newMemFS(c.cwd, c.tree)
	theFS.cur = m
	canon := c.can
	vars := map[string]string{}
	rootCfg := c.root
	if c.phRoot {
		// what the `root` directive does: Root stays empty (→ {http.vars.root}), the value is a var
		rootCfg = ""
		vars["root"] = c.root
	}
	hideCfg := append([]string{}, c.hide...)
	if c.phHide {
		for i, h := range hideCfg {
			k := "c07h" + strconv.Itoa(i)
			vars[k] = h
			hideCfg[i] = "{http.vars." + k + "}"
		}
	}
	indexCfg := append([]string{}, c.index...)
	if c.phIndex {
		for i, ix := range indexCfg {
			k := "c07i" + strconv.Itoa(i)
			vars[k] = ix
			indexCfg[i] = "{http.vars." + k + "}"
		}
	}
	if c.indexOmitted {
		indexCfg = nil
	}
	var preNames []string
	for i, name := range []string{"gzip", "br", "zstd"} {
		if c.pre[i] {
			preNames = append(preNames, name)
		}
	}
	via := c.via
	if c.fault.kind == 't' {
		via = 's'
	}
	allUTF8 := utf8.ValidString(rootCfg)
	for _, x := range append(append(append([]string{}, hideCfg...), indexCfg...), c.etagExt...) {
		allUTF8 = allUTF8 && utf8.ValidString(x)
	}
	if (via == 'j' && !allUTF8) || (via == 'c' && indexCfg != nil && len(indexCfg) == 0) {
		via = 's' // not expressible that way: JSON strings are UTF-8, `index` needs an argument
	}
	var fsrv *fileserver.FileServer
	switch via {
	case 'j':
		// the configuration as JSON, decoded and provisioned by caddy (LoadModuleByID)
		cfg := map[string]any{"fs": fsName}
		if rootCfg != "" {
			cfg["root"] = rootCfg
		}
		if len(hideCfg) > 0 {
			cfg["hide"] = hideCfg
		}
		if indexCfg != nil {
			cfg["index_names"] = indexCfg
		}
		if c.browse {
			cfg["browse"] = map[string]any{}
		}
		if c.pass {
			cfg["pass_thru"] = true
		}
		if !c.can {
			cfg["canonical_uris"] = false
		}
		if len(c.etagExt) > 0 {
			cfg["etag_file_extensions"] = c.etagExt
		}
		if len(preNames) > 0 {
			pm := map[string]any{}
			for _, n := range preNames {
				pm[n] = map[string]any{}
			}
			cfg["precompressed"] = pm
		}
		raw, err := json.Marshal(cfg)
		if err != nil {
			return serveObs{}, err
		}
		mod, err := cctx.LoadModuleByID("http.handlers.file_server", raw)
		if err != nil {
			return serveObs{}, err
		}
		fsrv = mod.(*fileserver.FileServer)
	case 'c':
		// the configuration as Caddyfile tokens (the lexer is not involved), parsed by
		// UnmarshalCaddyfile, then provisioned
		line := 1
		var toks []caddyfile.Token
		add := func(texts ...string) {
			for _, t := range texts {
				toks = append(toks, caddyfile.Token{File: "Caddyfile", Line: line, Text: t})
			}
		}
		add("file_server")
		if c.browse {
			add("browse")
		}
		add("{")
		line++
		add("fs", fsName)
		if rootCfg != "" {
			line++
			add("root", rootCfg)
		}
		if len(hideCfg) > 0 {
			line++
			add(append([]string{"hide"}, hideCfg...)...)
		}
		if len(indexCfg) > 0 {
			line++
			add(append([]string{"index"}, indexCfg...)...)
		}
		if len(preNames) > 0 {
			line++
			add(append([]string{"precompressed"}, preNames...)...)
		}
		if len(c.etagExt) > 0 {
			line++
			add(append([]string{"etag_file_extensions"}, c.etagExt...)...)
		}
		if !c.can {
			line++
			add("disable_canonical_uris")
		}
		if c.pass {
			line++
			add("pass_thru")
		}
		line++
		add("}")
		fsrv = new(fileserver.FileServer)
		if err := fsrv.UnmarshalCaddyfile(caddyfile.NewDispenser(toks)); err != nil {
			return serveObs{}, err
		}
		if err := fsrv.Provision(cctx); err != nil {
			return serveObs{}, err
		}
	default:
		fsrv = &fileserver.FileServer{
			FileSystem:    fsName,
			Root:          rootCfg,
			Hide:          hideCfg,
			IndexNames:    indexCfg,
			PassThru:      c.pass,
			CanonicalURIs: &canon,
		}
		if len(c.etagExt) > 0 {
			fsrv.EtagFileExtensions = append([]string{}, c.etagExt...)
		}
		if c.browse {
			fsrv.Browse = &fileserver.Browse{}
			if c.fault.kind == 't' {
				fsrv.Browse.TemplateFile = faultTemplate()
			}
		}
		for _, name := range preNames {
			if fsrv.PrecompressedRaw == nil {
				fsrv.PrecompressedRaw = caddy.ModuleMap{}
			}
			fsrv.PrecompressedRaw[name] = json.RawMessage("{}")
		}
		if err := fsrv.Provision(cctx); err != nil {
			return serveObs{}, err
		}
	}
	// Provision has run (it resolves static hide paths); only the request counts as FS traffic
	m.opened, m.readFile, m.readDir = nil, nil, nil

	r, w := newRequest(c.orig, c.path, c.query)
	for k, v := range vars {
		caddyhttp.SetVar(r.Context(), k, v)
	}
	if len(c.accepted) > 0 {
		// strictly descending q-factors: AcceptedEncodings returns exactly this order
		var parts []string
		for i, e := range c.accepted {
			parts = append(parts, fmt.Sprintf("%s;q=%.3f", e, 1.0-float64(i)*0.01))
		}
		r.Header.Set("Accept-Encoding", strings.Join(parts, ", "))
	}
	o := serveObs{fs: m}
	next := caddyhttp.HandlerFunc(func(http.ResponseWriter, *http.Request) error { o.nextHit = true; return nil })
	var rw http.ResponseWriter = w
	switch c.fault.kind {
	case 'w':
		rw = &failingWriter{ResponseWriter: w, left: c.fault.k}
	case 't':
		r.Header.Set("Accept", "text/html")
	}
	err := fsrv.ServeHTTP(rw, r, next)
	o.status = w.Code
	o.body = w.Body.String()
	if len(m.readFile) > 0 {
		o.fileName = m.readFile[len(m.readFile)-1]
	}
	if len(m.readDir) > 0 {
		o.listDir = m.readDir[len(m.readDir)-1]
	}
	switch {
	case o.nextHit:
		o.outcome = "passthru"
	case err != nil:
		he, ok := err.(caddyhttp.HandlerError)
		if !ok {
			// a plain error (getEtagFromFile's read error): the server answers 500
			o.status = 500
			o.outcome = "error"
			break
		}
		o.status = he.StatusCode
		switch he.StatusCode {
		case 404:
			o.outcome = "notfound"
		case 403:
			o.outcome = "forbidden"
		case 500:
			o.outcome = "error"
		case 503:
			o.outcome = "unavailable"
		default:
			o.outcome = "err:" + strconv.Itoa(he.StatusCode)
		}
	case w.Code == http.StatusPermanentRedirect:
		o.outcome = "redirect"
		o.location = w.Header().Get("Location")
		if strings.HasPrefix(c.orig, "/") {
			o.outcome += " " + core.Hex(o.location)
		}
	case w.Code == 200 && strings.HasPrefix(w.Header().Get("Content-Type"), "application/json; charset=utf-8") && len(m.readDir) > 0:
		o.outcome = listingOutcome(&o, w.Body.Bytes())
	case w.Code == 200 && strings.HasPrefix(o.body, "FILE:") && len(m.readFile) > 0:
		id := strings.TrimSuffix(strings.TrimPrefix(o.body, "FILE:"), ":END\n")
		if ce := w.Header().Get("Content-Encoding"); ce != "" {
			o.sidecarEnc = ce
			o.outcome = "sidecar " + core.Hex(o.fileName) + " " + id + " " + core.Hex(ce)
			break
		}
		o.outcome = "file " + core.Hex(o.fileName) + " " + id
	default:
		o.outcome = "status:" + strconv.Itoa(w.Code)
	}
	// an Etag that is the content of a tree file (newlines removed) came from an etag file: the
	// handle read just before the served one
	if et := w.Header().Get("Etag"); strings.HasPrefix(et, "FILE:") && strings.HasSuffix(et, ":END") && len(m.readFile) >= 2 &&
		(strings.HasPrefix(o.outcome, "file ") || strings.HasPrefix(o.outcome, "sidecar ")) {
		o.etagName = m.readFile[len(m.readFile)-2]
		o.outcome += " etag " + core.Hex(o.etagName) + " " + strings.TrimSuffix(strings.TrimPrefix(et, "FILE:"), ":END")
	}
	return o, nil
}

type matchCase struct {
	cwd, root string
	tries     []tryFile
	policy    byte // '0' first_exist, '1' first_exist_fallback, 'L', 'S', 'M'
	splits    []string
	fallback  bool
	path      string
	tree      map[string]kind
}

type matchObs struct {
	outcome       string
	matched       bool
	abs, rel, typ string
	fs            *memFS
}

func runMatch(c matchCase) (matchObs, error) {
	if err := setup(); err != nil {
		return matchObs{}, err
	}
	caddy.VerifSetWorkingDir(c.cwd)
	m := newMemFS(c.cwd, c.tree)
	theFS.cur = m
	mf := &fileserver.MatchFile{FileSystem: fsName, Root: c.root, TryFiles: []string{}}
	for _, t := range c.tries {
		mf.TryFiles = append(mf.TryFiles, t.raw())
	}
	switch c.policy {
	case '1':
		mf.TryPolicy = "first_exist_fallback"
	case 'L':
		mf.TryPolicy = "largest_size"
	case 'S':
		mf.TryPolicy = "smallest_size"
	case 'M':
		mf.TryPolicy = "most_recently_modified"
	}
	mf.SplitPath = append([]string{}, c.splits...)
	if err := mf.Provision(cctx); err != nil {
		return matchObs{}, err
	}
	if err := mf.Validate(); err != nil {
		return matchObs{}, err
	}
	r, _ := newRequest(c.path, c.path)
	ok, err := mf.MatchWithError(r)
	o := matchObs{fs: m, matched: ok}
	if err != nil {
		o.outcome = "err"
		return o, nil
	}
	if !ok {
		o.outcome = "nomatch"
		return o, nil
	}
	repl := r.Context().Value(caddy.ReplacerCtxKey).(*caddy.Replacer)
	o.abs, _ = repl.GetString("http.matchers.file.absolute")
	o.rel, _ = repl.GetString("http.matchers.file.relative")
	o.typ, _ = repl.GetString("http.matchers.file.type")
	o.outcome = "match " + core.Hex(o.abs) + " " + core.Hex(o.rel) + " " + o.typ
	return o, nil
}

// parseServe parses the fields of a serve case; f[0] is ignored ("serve").
func parseServe(f []string) (serveCase, bool) {
	var c serveCase
	if len(f) != 9 && len(f) != 11 && len(f) != 12 && len(f) != 13 && len(f) != 14 {
		return c, false
	}
	c.via = 's'
	if len(f) == 14 {
		ee, ok := parseList(f[13])
		if !ok {
			return c, false
		}
		c.etagExt = ee
	}
	if len(f) >= 13 {
		v := f[12]
		if len(v) < 1 || len(v) > 2 || !strings.ContainsRune("sjc", rune(v[0])) || (len(v) == 2 && v[1] != 'd') {
			return c, false
		}
		c.via, c.indexOmitted = v[0], len(v) == 2
		if c.indexOmitted && f[4] != "." {
			return c, false
		}
	}
	var e [4]error
	var ok1, ok2, ok3, ok4 bool
	var bits []bool
	c.cwd, e[0] = core.UnHex(f[1])
	c.root, e[1] = core.UnHex(f[2])
	c.hide, ok1 = parseList(f[3])
	c.index, ok2 = parseList(f[4])
	bits, ok3 = parseBits(f[5], len(f[5]))
	if len(f[5]) != 3 && len(f[5]) != 6 {
		ok3 = false
	}
	c.path, e[2] = core.UnHex(f[6])
	c.orig, e[3] = core.UnHex(f[7])
	c.tree, ok4 = parseTree(f[8])
	if e[0] != nil || e[1] != nil || e[2] != nil || e[3] != nil || !ok1 || !ok2 || !ok3 || !ok4 || !validCwd(c.cwd) {
		return c, false
	}
	if len(f) >= 12 {
		q, err := core.UnHex(f[11])
		if err != nil {
			return c, false
		}
		for i := 0; i < len(q); i++ {
			if q[i] < 0x20 || q[i] == 0x7f || q[i] == '#' || q[i] == ' ' || q[i] >= 0x80 || q[i] == 't' {
				return c, false
			}
		}
		c.query = q
	}
	if len(f) >= 11 {
		pb, okp := parseBits(f[9], 3)
		acc, oka := parseList(f[10])
		if !okp || !oka {
			return c, false
		}
		for _, a := range acc {
			// names are sent in a header field; keep them token-like and lower-case
			if a == "" || strings.ToLower(a) != a || strings.ContainsAny(a, " ,;=\t\r\n\x00") {
				return c, false
			}
		}
		c.pre, c.accepted = [3]bool{pb[0], pb[1], pb[2]}, acc
	}
	c.browse, c.pass, c.can = bits[0], bits[1], bits[2]
	if len(bits) == 6 {
		c.phRoot, c.phHide, c.phIndex = bits[3], bits[4], bits[5]
	}
	return c, true
}

// runPair: `pair <fault> <serve fields of A> // <serve fields of B>` — a request sequence.
//
// A is served with a delivery fault (its listing is rendered but the client does not get all
// of it), then B is served by ANOTHER FileServer instance (its own root, hide list, tree).
// The answer of the case is B's answer: a response is a function of the request and the
// instance's configuration, never of what the process served before.  Because sync.Pool gives
// no hard guarantee which buffer the next Get returns, fault+probe is repeated a few rounds
// on this one goroutine; the baseline is B served before any fault of this case (twice, so
// that whatever an earlier case left behind is gone).
func runPair(f []string) core.Outcome {
	if len(f) < 4 {
		return bad()
	}
	var fault faultSpec
	switch {
	case f[1] == "n":
		fault = faultSpec{kind: 'n'} // no fault: any request A, then the probe
	case f[1] == "t":
		fault = faultSpec{kind: 't'}
	case len(f[1]) > 1 && f[1][0] == 'w':
		k, err := strconv.Atoi(f[1][1:])
		if err != nil || k < 0 || k > 1<<20 || strconv.Itoa(k) != f[1][1:] {
			return bad()
		}
		fault = faultSpec{kind: 'w', k: k}
	default:
		return bad()
	}
	sep := -1
	for i, t := range f {
		if t == "//" {
			if sep >= 0 {
				return bad()
			}
			sep = i
		}
	}
	if sep < 0 {
		return bad()
	}
	a, okA := parseServe(append([]string{"serve"}, f[2:sep]...))
	b, okB := parseServe(append([]string{"serve"}, f[sep+1:]...))
	if !okA || !okB {
		return bad()
	}
	herr := func(err error) core.Outcome {
		return core.Outcome{Impl: "harness-error", Tags: []string{"harness-error"},
			Failures: []core.Failure{{Class: "harness-error", What: err.Error()}}}
	}
	var base serveObs
	for i := 0; i < 2; i++ {
		var err error
		if base, err = runServe(b); err != nil {
			return herr(err)
		}
	}
	a.fault = fault
	o := core.Outcome{Tags: []string{"op:pair", "pair:fault-" + string(fault.kind)}}
	probe := base
	faultRendered := false
	for round := 0; round < 3; round++ {
		fo, err := runServe(a)
		if err != nil {
			return herr(err)
		}
		if len(fo.fs.readDir) > 0 {
			faultRendered = true
		}
		if probe, err = runServe(b); err != nil {
			return herr(err)
		}
		if probe.outcome != base.outcome || probe.body != base.body || probe.status != base.status {
			o.Failures = append(o.Failures, fail("browse-response-depends-on-history",
				"after a request for %q on root %q (fault %s; n = none, otherwise its listing was not delivered), the request %q on ANOTHER instance (root %q, hide %q) is answered %d %q instead of %d %q",
				a.path, a.root, f[1], b.path, b.root, b.hide, probe.status, clip(probe.body), base.status, clip(base.body)))
			break
		}
	}
	if faultRendered {
		o.Tags = append(o.Tags, "pair:fault-listing-rendered")
	}
	if base.listing != nil {
		o.Tags = append(o.Tags, "pair:probe-is-listing")
	}
	if fault.kind != 'n' && (!faultRendered || base.listing == nil) {
		o.Tags = append(o.Tags, "trivial")
	}
	o.Impl = probe.outcome + " | " + showList(probe.fs.opened)
	o.Failures = append(o.Failures, oracleServe(b, probe)...)
	return o
}

func clip(s string) string {
	if len(s) > 160 {
		return s[:160] + "…"
	}
	return s
}

// listingOutcome parses a JSON listing into the canonical outcome (names in the directory's own order).
func listingOutcome(o *serveObs, raw []byte) string {
	m := o.fs
	var items []struct {
		Name string `json:"name"`
	}
	if e := json.Unmarshal(raw, &items); e != nil {
		return "listing-unparsable"
	}
	listed := map[string]bool{}
	for _, it := range items {
		listed[it.Name] = true
	}
	// canonical order: the directory's own (sorted) entry order
	_, abs, _ := m.lookup(o.listDir)
	o.listing = []string{}
	for _, e := range m.children(abs) {
		n := e.name
		if e.isDir {
			n += "/"
		}
		if listed[n] {
			o.listing = append(o.listing, n)
			delete(listed, n)
		}
	}
	var extra []string
	for n := range listed { // names that are not entries of the directory at all
		extra = append(extra, n)
	}
	sort.Strings(extra)
	o.listing = append(o.listing, extra...)
	return "listing " + core.Hex(o.listDir) + " " + showList(o.listing)
}

func bad() core.Outcome { return core.Outcome{Impl: "bad-op", Tags: []string{"bad-op", "trivial"}} }

func (prop) Run(line string) core.Outcome {
	f := strings.Fields(line)
	if len(f) == 0 {
		return bad()
	}
	switch f[0] {
	case "clean":
		if len(f) != 2 {
			return bad()
		}
		p, err := core.UnHex(f[1])
		if err != nil {
			return bad()
		}
		out := path.Clean(p)
		o := core.Outcome{Impl: "ok " + core.Hex(out), Tags: []string{"op:clean"}}
		if fc := filepath.Clean(p); fc != out {
			o.Failures = append(o.Failures, core.Failure{Class: "filepath-clean-differs", What: fmt.Sprintf("path.Clean(%q)=%q filepath.Clean=%q", p, out, fc)})
		}
		return o
	case "join":
		if len(f) != 3 {
			return bad()
		}
		root, e1 := core.UnHex(f[1])
		req, e2 := core.UnHex(f[2])
		if e1 != nil || e2 != nil {
			return bad()
		}
		out := caddyhttp.SanitizedPathJoin(root, req)
		o := core.Outcome{Impl: "ok " + core.Hex(out), Tags: []string{"op:join"}}
		if strings.Contains(req, "..") {
			o.Tags = append(o.Tags, "join:dotdot-in-request")
		}
		o.Failures = oracleJoin(root, req, out)
		return o
	case "match":
		if len(f) != 3 {
			return bad()
		}
		pat, e1 := core.UnHex(f[1])
		name, e2 := core.UnHex(f[2])
		if e1 != nil || e2 != nil {
			return bad()
		}
		ok, err := path.Match(pat, name)
		o := core.Outcome{Tags: []string{"op:match"}}
		switch {
		case err != nil:
			o.Impl = "badpattern"
			o.Tags = append(o.Tags, "match:badpattern")
		case ok:
			o.Impl = "true"
			o.Tags = append(o.Tags, "match:true")
		default:
			o.Impl = "false"
		}
		if fok, _ := filepath.Match(pat, name); fok != ok {
			o.Failures = append(o.Failures, core.Failure{Class: "filepath-match-differs", What: fmt.Sprintf("path.Match(%q,%q)=%v filepath.Match=%v", pat, name, ok, fok)})
		}
		return o
	case "serve":
		c, ok := parseServe(f)
		if !ok {
			return bad()
		}
		obs, err := runServe(c)
		if err != nil {
			return core.Outcome{Impl: "harness-error", Tags: []string{"harness-error"},
				Failures: []core.Failure{{Class: "harness-error", What: err.Error()}}}
		}
		o := core.Outcome{Impl: obs.outcome + " | " + showList(obs.fs.opened)}
		o.Tags = serveTags(c, obs)
		o.Failures = oracleServe(c, obs)
		return o
	case "pair":
		return runPair(f)
	case "site":
		return runSite(f)
	case "two":
		return runTwo(f)
	case "matchfile":
		if len(f) != 7 && len(f) != 8 {
			return bad()
		}
		var c matchCase
		var e [3]error
		var ok1, ok3 bool
		c.cwd, e[0] = core.UnHex(f[1])
		c.root, e[1] = core.UnHex(f[2])
		c.tries, ok1 = parseTries(f[3])
		c.path, e[2] = core.UnHex(f[5])
		c.tree, ok3 = parseTree(f[6])
		if e[0] != nil || e[1] != nil || e[2] != nil || !ok1 || !ok3 || !validCwd(c.cwd) || len(f[4]) != 1 || !strings.Contains("01LSM", f[4]) {
			return bad()
		}
		c.policy = f[4][0]
		c.fallback = c.policy == '1'
		if len(f) == 8 {
			sp, ok := parseList(f[7])
			if !ok {
				return bad()
			}
			for _, x := range sp {
				if x == "" {
					return bad()
				}
				for i := 0; i < len(x); i++ {
					if x[i] >= 0x80 {
						return bad()
					}
				}
			}
			c.splits = sp
		}
		obs, err := runMatch(c)
		if err != nil {
			return core.Outcome{Impl: "harness-error", Tags: []string{"harness-error"},
				Failures: []core.Failure{{Class: "harness-error", What: err.Error()}}}
		}
		o := core.Outcome{Impl: obs.outcome + " | " + showList(obs.fs.opened)}
		o.Tags = matchTags(c, obs)
		o.Failures = oracleMatch(c, obs)
		return o
	}
	return bad()
}

var _ = context.Background
