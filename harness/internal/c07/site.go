package c07

import (
	"encoding/json"
	"fmt"
	"net/http"
	"net/http/httptest"
	"os"
	"path/filepath"
	"regexp"
	"strings"
	"sync"

	"github.com/caddyserver/caddy/v2"
	"github.com/caddyserver/caddy/v2/caddyconfig"
	_ "github.com/caddyserver/caddy/v2/caddyconfig/httpcaddyfile"
	"github.com/caddyserver/caddy/v2/modules/caddyhttp"
	_ "github.com/caddyserver/caddy/v2/modules/standard"

	"verif/harness/internal/core"
)

// ---------------------------------------------------------------- op `site`
//
// A whole Caddyfile site through the real glue:
//
//	fs <name>                httpcaddyfile → vars handler → {http.vars.fs} (matcher AND file server)
//	root * <root>            httpcaddyfile → vars handler → {http.vars.root}
//	try_files <files…>       httpcaddyfile parseTryFiles → route{ file matcher (Root "" →
//	                         Provision default {http.vars.root}); rewrite {http.matchers.file.relative} }
//	file_server [browse] {…} UnmarshalCaddyfile + FinalizeUnmarshalCaddyfile (hides the Caddyfile)
//
// adapted by caddyconfig's caddyfile adapter under the given file name, loaded as the real http
// app (LoadModuleByID("http", …), provisioned, not started) and served by Server.ServeHTTP.

type siteCase struct {
	serveCase
	tries  []tryFile
	cfname string
	policy byte // try_files { policy … }: '0' none given, '1' first_exist_fallback, 'L', 'S', 'M'
}

var (
	siteOnce sync.Once
	siteErr  error
	siteDir  string
)

func siteSetup() error {
	if err := setup(); err != nil {
		return err
	}
	siteOnce.Do(func() {
		d, err := os.MkdirTemp(".", "c07data-")
		if err != nil {
			siteErr = err
			return
		}
		siteDir, _ = filepath.Abs(d)
		os.Setenv("XDG_DATA_HOME", siteDir)
		os.Setenv("XDG_CONFIG_HOME", siteDir)
		caddy.DefaultStorage.Path = siteDir
		if _, siteErr = cctx.App("tls"); siteErr != nil {
			return
		}
		_, siteErr = cctx.App("events")
	})
	return siteErr
}

var plainToken = regexp.MustCompile(`^[A-Za-z0-9._/*-]+$`)

func safeCfg(s string) bool {
	return s != "" && !strings.ContainsAny(s, "`\"\n\r\x00{}\\")
}

func tok(s string) string {
	if plainToken.MatchString(s) {
		return s
	}
	return "`" + s + "`"
}

func (c siteCase) caddyfile() string {
	var b strings.Builder
	b.WriteString(":8080 {\n\tfs " + fsName + "\n")
	if c.root != "" {
		b.WriteString("\troot * " + tok(c.root) + "\n")
	}
	if len(c.tries) > 0 {
		b.WriteString("\ttry_files")
		for _, t := range c.tries {
			s := t.pre + t.suf
			if t.use {
				s = t.pre + "{path}" + t.suf
			}
			b.WriteString(" " + tok(s))
		}
		if c.policy != '0' {
			b.WriteString(" {\n\t\tpolicy " + map[byte]string{'1': "first_exist_fallback", 'L': "largest_size", 'S': "smallest_size", 'M': "most_recently_modified"}[c.policy] + "\n\t}")
		}
		b.WriteString("\n")
	}
	b.WriteString("\tfile_server")
	if c.browse {
		b.WriteString(" browse")
	}
	b.WriteString(" {\n")
	if len(c.hide) > 0 {
		b.WriteString("\t\thide")
		for _, h := range c.hide {
			b.WriteString(" " + tok(h))
		}
		b.WriteString("\n")
	}
	if len(c.index) > 0 {
		b.WriteString("\t\tindex")
		for _, ix := range c.index {
			b.WriteString(" " + tok(ix))
		}
		b.WriteString("\n")
	}
	if c.pass {
		b.WriteString("\t\tpass_thru\n")
	}
	if !c.can {
		b.WriteString("\t\tdisable_canonical_uris\n")
	}
	b.WriteString("\t}\n}\n")
	return b.String()
}

func parseSite(f []string) (siteCase, bool) {
	var c siteCase
	if len(f) != 10 && len(f) != 11 {
		return c, false
	}
	c.policy = '0'
	if len(f) == 11 {
		if len(f[10]) != 1 || !strings.Contains("01LSM", f[10]) {
			return c, false
		}
		c.policy = f[10][0]
	}
	var e [4]error
	var ok1, ok2, ok3, ok4, ok5 bool
	var bits []bool
	c.cwd, e[0] = core.UnHex(f[1])
	c.root, e[1] = core.UnHex(f[2])
	c.hide, ok1 = parseList(f[3])
	c.index, ok2 = parseList(f[4])
	bits, ok3 = parseBits(f[5], 3)
	c.tries, ok4 = parseTries(f[6])
	c.path, e[2] = core.UnHex(f[7])
	c.tree, ok5 = parseTree(f[8])
	c.cfname, e[3] = core.UnHex(f[9])
	if e[0] != nil || e[1] != nil || e[2] != nil || e[3] != nil || !ok1 || !ok2 || !ok3 || !ok4 || !ok5 || !validCwd(c.cwd) {
		return c, false
	}
	c.browse, c.pass, c.can = bits[0], bits[1], bits[2]
	c.orig = c.path
	if !(c.root == "" || safeCfg(c.root)) || !safeCfg(c.cfname) {
		return c, false
	}
	for _, s := range append(append([]string{}, c.hide...), c.index...) {
		if !safeCfg(s) {
			return c, false
		}
	}
	for _, t := range c.tries {
		if !(t.pre == "" || safeCfg(t.pre)) || !(t.suf == "" || safeCfg(t.suf)) || t.raw() == "" || strings.Contains(t.raw(), "?") {
			return c, false
		}
	}
	return c, true
}

func runSite(f []string) core.Outcome {
	c, ok := parseSite(f)
	if !ok {
		return bad()
	}
	herr := func(class string, err error) core.Outcome {
		return core.Outcome{Impl: "harness-error", Tags: []string{"harness-error"},
			Failures: []core.Failure{{Class: class, What: err.Error() + "\n" + c.caddyfile()}}}
	}
	if err := siteSetup(); err != nil {
		return herr("harness-error", err)
	}
	caddy.VerifSetWorkingDir(c.cwd)
	m := newMemFS(c.cwd, c.tree)
	theFS.cur = m
	out, _, err := caddyconfig.GetAdapter("caddyfile").Adapt([]byte(c.caddyfile()), map[string]any{"filename": c.cfname})
	if err != nil {
		return herr("site-refused-by-adapter", err)
	}
	var top struct {
		Apps map[string]json.RawMessage `json:"apps"`
	}
	if err := json.Unmarshal(out, &top); err != nil {
		return herr("harness-error", err)
	}
	ctx, cancel := caddy.NewContext(cctx)
	defer cancel()
	v, err := ctx.LoadModuleByID("http", top.Apps["http"])
	if err != nil {
		return herr("site-does-not-load", err)
	}
	srv := v.(*caddyhttp.App).Servers["srv0"]
	if srv == nil {
		return herr("harness-error", fmt.Errorf("no srv0"))
	}
	m.opened, m.readFile, m.readDir = nil, nil, nil

	r := httptest.NewRequest(http.MethodGet, "http://example.test:8080/", nil)
	r.Header.Set("Accept", "application/json")
	r.URL.Path = c.path
	r.URL.RawPath = ""
	r.RequestURI = r.URL.RequestURI()
	w := httptest.NewRecorder()
	srv.ServeHTTP(w, r)

	o := serveObs{fs: m, status: w.Code, body: w.Body.String()}
	if len(m.readFile) > 0 {
		o.fileName = m.readFile[len(m.readFile)-1]
	}
	if len(m.readDir) > 0 {
		o.listDir = m.readDir[len(m.readDir)-1]
	}
	switch {
	case w.Code == 404:
		o.outcome = "notfound"
	case w.Code == 403:
		o.outcome = "forbidden"
	case w.Code == 500:
		o.outcome = "error"
	case w.Code == 503:
		o.outcome = "unavailable"
	case w.Code == http.StatusPermanentRedirect:
		o.location = w.Header().Get("Location")
		o.outcome = "redirect"
		if strings.HasPrefix(c.orig, "/") {
			o.outcome += " " + core.Hex(o.location)
		}
	case w.Code == 200 && o.body == "" && len(m.readFile) == 0:
		// nothing written: the (empty) next handler ran
		o.outcome = "passthru"
		o.nextHit = true
	case w.Code == 200 && strings.HasPrefix(w.Header().Get("Content-Type"), "application/json; charset=utf-8") && len(m.readDir) > 0:
		o.outcome = listingOutcome(&o, w.Body.Bytes())
	case w.Code == 200 && strings.HasPrefix(o.body, "FILE:") && len(m.readFile) > 0:
		o.outcome = "file " + core.Hex(o.fileName) + " " + strings.TrimSuffix(strings.TrimPrefix(o.body, "FILE:"), ":END\n")
	default:
		o.outcome = fmt.Sprintf("status:%d", w.Code)
	}
	res := core.Outcome{Impl: o.outcome + " | " + showList(m.opened)}
	res.Tags = append(serveTags(c.serveCase, o), "op:site")
	if len(c.tries) > 0 {
		res.Tags = append(res.Tags, "site:try_files")
		if r.URL.Path != c.path {
			res.Tags = append(res.Tags, "site:rewritten-by-try_files")
		}
	}
	// the property, on what the site as a whole did; the hide list includes the Caddyfile
	oc := c.serveCase
	cf := filepath.Clean(c.cfname)
	oc.hide = append(append([]string{}, c.hide...), resolve(c.cwd, cf))
	// the file matcher has no hide list (by design) and lists directories while globbing; the
	// hide clause is about what the file server sends: keep only the listed directory
	if o.listing != nil && len(m.readDir) > 0 {
		m.readDir = m.readDir[len(m.readDir)-1:]
	} else {
		m.readDir = nil
	}
	res.Failures = oracleServe(oc, o)
	if p := resolve(c.cwd, cf); strings.Contains(o.body, "FILE:") {
		if n, ok := c.tree[p]; ok && n.k == 'f' && strings.Contains(o.body, marker(n.id)) && !strings.ContainsAny(p, "*?[\\") {
			res.Failures = append(res.Failures, fail("caddyfile-served", "request path %q: the site served its own Caddyfile %q", c.path, p))
		}
	}
	if cfAbs := resolve(c.cwd, cf); o.listing != nil {
		for _, n := range o.listing {
			if resolve(c.cwd, o.listDir)+"/"+n == cfAbs {
				res.Tags = append(res.Tags, "site:caddyfile-listed")
			}
		}
	} else if under(rootOf(c.cwd, c.root), cfAbs) {
		res.Tags = append(res.Tags, "site:caddyfile-below-root")
	}
	return res
}

// Finish for the site data directory is done in prop.Finish (c07.go).
func siteCleanup() {
	if siteDir != "" {
		os.RemoveAll(siteDir)
	}
}
