package c07

import (
	"bytes"
	"errors"
	"io"
	"io/fs"
	"path"
	"sort"
	"strings"
	"time"
)

// node kinds of the abstract tree (same letters as the protocol)
type kind struct {
	k  byte // 'd' dir, 'f' file, 'p' permission denied, 'e' i/o error
	id int  // file id (marker)
}

// memFS is the instrumented fs.FS the real FileServer / MatchFile are pointed at.
// Names are resolved lexically against cwd (like a POSIX kernel would resolve a clean
// path without symlinks): "" does not exist, NUL is invalid, walking through a regular
// file yields a non-ErrNotExist error (ENOTDIR).
// Lean twin: CaddyModel/C07/Driver.lean `treeFS`.
type memFS struct {
	cwd   string
	tree  map[string]kind
	paths []string // sorted

	opened   []string // every name handed to Open, in order
	readFile []string // names of file handles whose bytes were read
	readDir  []string // names of dir handles that were listed
}

var errNotDir = errors.New("not a directory")
var errIO = errors.New("input/output error")

func (m *memFS) resolve(name string) string {
	if strings.HasPrefix(name, "/") {
		return path.Clean(name)
	}
	return path.Clean(m.cwd + "/" + name)
}

// lookup returns the node or an error for a name.
func (m *memFS) lookup(name string) (kind, string, error) {
	if name == "" {
		return kind{}, "", fs.ErrNotExist
	}
	if strings.IndexByte(name, 0) >= 0 {
		return kind{}, "", fs.ErrInvalid
	}
	abs := m.resolve(name)
	if abs == "/" {
		return kind{k: 'd'}, "/", nil
	}
	comps := strings.Split(abs[1:], "/")
	cur := ""
	for i, c := range comps {
		cur += "/" + c
		n, ok := m.tree[cur]
		if !ok {
			return kind{}, "", fs.ErrNotExist
		}
		switch n.k {
		case 'd':
			continue
		case 'f':
			if i == len(comps)-1 {
				return n, cur, nil
			}
			return kind{}, "", errNotDir
		case 'p':
			return kind{}, "", fs.ErrPermission
		default:
			return kind{}, "", errIO
		}
	}
	return kind{k: 'd'}, cur, nil
}

type childEnt struct {
	name  string
	isDir bool
}

func (m *memFS) children(dir string) []childEnt {
	pre := dir + "/"
	if dir == "/" {
		pre = "/"
	}
	var out []childEnt
	for _, p := range m.paths {
		if len(p) > len(pre) && strings.HasPrefix(p, pre) && !strings.Contains(p[len(pre):], "/") {
			out = append(out, childEnt{p[len(pre):], m.tree[p].k == 'd'})
		}
	}
	return out
}

func (m *memFS) Open(name string) (fs.File, error) {
	m.opened = append(m.opened, name)
	n, abs, err := m.lookup(name)
	if err != nil {
		return nil, &fs.PathError{Op: "open", Path: name, Err: err}
	}
	base := path.Base(abs)
	if n.k == 'd' {
		return &memDir{m: m, name: name, info: memInfo{name: base, dir: true}, ents: m.children(abs)}, nil
	}
	body := marker(n.id)
	return &memFile{m: m, name: name, info: memInfo{name: base, size: int64(len(body)), mt: n.id}, r: bytes.NewReader([]byte(body))}, nil
}

func marker(id int) string { return "FILE:" + itoa(id) + ":END\n" }

func itoa(i int) string {
	if i == 0 {
		return "0"
	}
	var b []byte
	for i > 0 {
		b = append([]byte{byte('0' + i%10)}, b...)
		i /= 10
	}
	return string(b)
}

var fixedTime = time.Date(2021, 3, 4, 5, 6, 7, 0, time.UTC)

type memInfo struct {
	name string
	size int64
	dir  bool
	mt   int // seconds after fixedTime: the file id (0 for directories)
}

func (i memInfo) Name() string { return i.name }
func (i memInfo) Size() int64  { return i.size }
func (i memInfo) Mode() fs.FileMode {
	if i.dir {
		return fs.ModeDir | 0o755
	}
	return 0o644
}
func (i memInfo) ModTime() time.Time         { return fixedTime.Add(time.Duration(i.mt) * time.Second) }
func (i memInfo) IsDir() bool                { return i.dir }
func (i memInfo) Sys() any                   { return nil }
func (i memInfo) Type() fs.FileMode          { return i.Mode().Type() }
func (i memInfo) Info() (fs.FileInfo, error) { return i, nil }

type memFile struct {
	m    *memFS
	name string
	info memInfo
	r    *bytes.Reader
	read bool
}

func (f *memFile) Stat() (fs.FileInfo, error) { return f.info, nil }
func (f *memFile) Read(p []byte) (int, error) {
	if !f.read {
		f.read = true
		f.m.readFile = append(f.m.readFile, f.name)
	}
	return f.r.Read(p)
}
func (f *memFile) Seek(off int64, whence int) (int64, error) { return f.r.Seek(off, whence) }
func (f *memFile) Close() error                              { return nil }

type memDir struct {
	m    *memFS
	name string
	info memInfo
	ents []childEnt
	pos  int
}

func (d *memDir) Stat() (fs.FileInfo, error) { return d.info, nil }
func (d *memDir) Read([]byte) (int, error) {
	return 0, &fs.PathError{Op: "read", Path: d.name, Err: errors.New("is a directory")}
}
func (d *memDir) Close() error { return nil }
func (d *memDir) ReadDir(n int) ([]fs.DirEntry, error) {
	d.m.readDir = append(d.m.readDir, d.name)
	var out []fs.DirEntry
	for d.pos < len(d.ents) && (n <= 0 || len(out) < n) {
		e := d.ents[d.pos]
		d.pos++
		out = append(out, memInfo{name: e.name, dir: e.isDir})
	}
	if n > 0 && len(out) == 0 {
		return nil, io.EOF
	}
	return out, nil
}

func newMemFS(cwd string, tree map[string]kind) *memFS {
	m := &memFS{cwd: cwd, tree: tree}
	for p := range tree {
		m.paths = append(m.paths, p)
	}
	sort.Strings(m.paths)
	return m
}

// swapFS is what gets registered with caddy once; each case swaps the tree in.
type swapFS struct{ cur *memFS }

func (s *swapFS) Open(name string) (fs.File, error) { return s.cur.Open(name) }
