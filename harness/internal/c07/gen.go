package c07

import (
	"fmt"
	"net/url"
	"path"
	"sort"
	"strings"

	"verif/harness/internal/core"
)

// ---------------------------------------------------------------- generator

type world struct {
	cwd, rootCfg, R string
	tree            map[string]kind
	rel             []string // entries below the root (relative), for aiming requests
}

var cwds = []string{"/w", "/w", "/w", "/w/cwd", "/w/cwd", "/"}

// site content template: relative path → kind letter
var siteTemplate = []struct {
	p string
	k byte
}{
	{"index.html", 'f'}, {"index.txt", 'f'}, {"a.txt", 'f'}, {"secret.txt", 'f'},
	{".git", 'd'}, {".git/config", 'f'}, {"sub", 'd'}, {"sub/index.html", 'f'}, {"sub/b.txt", 'f'},
	{"sub/secret.txt", 'f'}, {"sub/deep", 'd'}, {"sub/deep/c.txt", 'f'}, {"hidden", 'd'}, {"hidden/h.txt", 'f'},
	{"a b.txt", 'f'}, {"é.txt", 'f'}, {"x*y", 'f'}, {"q?.txt", 'f'}, {"[z]", 'f'}, {"back\\slash", 'f'},
	{"...", 'd'}, {".../t.txt", 'f'}, {"..a", 'f'}, {".htaccess", 'f'}, {"noindex", 'd'}, {"noindex/n.txt", 'f'},
	{"idx", 'd'}, {"idx/index.html", 'd'}, {"idx/index.html/inner.txt", 'f'}, {"denied", 'p'}, {"broken", 'e'},
	{"a.txt.gz", 'f'}, {"a.txt.br", 'd'}, {"a.txt.zst", 'f'}, {"index.html.gz", 'f'}, {"secret.txt.gz", 'f'}, {"sub/b.txt.zst", 'f'},
	{"a.txt.etag", 'f'}, {"index.html.etag", 'f'}, {"a.txt.md5", 'd'}, {"secret.txt.etag", 'f'}, {"a.txt.gz.etag", 'f'}, {"sub/b.txt.md5", 'f'},
	{"secret", 'd'}, {"secret/s.txt", 'f'}, {"w", 'f'},
}

func (w *world) add(p string, k byte, id *int) {
	if p == "/" {
		return
	}
	// ancestors are directories
	for d := path.Dir(p); d != "/" && d != "."; d = path.Dir(d) {
		if n, ok := w.tree[d]; ok && n.k != 'd' {
			return // would have to walk through a non-directory: skip this entry
		}
	}
	if _, ok := w.tree[p]; ok {
		return
	}
	for d := path.Dir(p); d != "/" && d != "."; d = path.Dir(d) {
		w.tree[d] = kind{k: 'd'}
	}
	n := kind{k: k}
	if k == 'f' {
		*id++
		n.id = *id
	}
	w.tree[p] = n
}

func genWorld(rng *core.Rand) *world {
	w := &world{cwd: rng.Pick(cwds), tree: map[string]kind{}}
	switch rng.Intn(12) {
	case 0, 1, 2:
		w.rootCfg = rng.Pick([]string{"/srv/site", "/srv/site/", "/srv//site", "/srv/site/.", "/srv/x/../site", "/srv/site//"})
	case 3:
		w.rootCfg = rng.Pick([]string{"/srv", "/srv/site/pub", "/srv/site dir"})
	case 4, 5, 6:
		w.rootCfg = rng.Pick([]string{"site", "./site", "site/", "./site/.", "x/../site"})
	case 7, 8:
		w.rootCfg = rng.Pick([]string{".", "", "./", "site/.."})
	case 9:
		w.rootCfg = rng.Pick([]string{"../up", "..", "../w2/site"})
	case 10:
		w.rootCfg = "/"
	default:
		w.rootCfg = rng.Pick([]string{"/srv/site", "site"})
	}
	w.R = rootOf(w.cwd, w.rootCfg)
	id := 0
	under := func(rel string) string {
		if w.R == "/" {
			return "/" + rel
		}
		return w.R + "/" + rel
	}
	if w.R != "/" && rng.Chance(9, 10) {
		w.add(w.R, 'd', &id)
	}
	dens := 3 + rng.Intn(6) // out of 10
	for _, e := range siteTemplate {
		if rng.Intn(10) < dens {
			w.add(under(e.p), e.k, &id)
		}
	}
	if rng.Chance(1, 40) {
		w.add(under(strings.Repeat("L", 200+rng.Intn(4000))), 'f', &id)
	}
	// things outside the root
	if w.R != "/" {
		par := path.Dir(w.R)
		outs := []string{path.Join(par, "outside.txt"), w.R + "-evil/a.txt", w.R + "-evil/secret.txt", "/etc/passwd",
			path.Join(w.cwd, "cwdfile.txt"), path.Join(par, "secret.txt"), path.Join(par, "index.html"), w.R + ".bak"}
		for _, o := range outs {
			if rng.Chance(6, 10) && !strings.HasPrefix(o, w.R+"/") && o != w.R {
				w.add(o, 'f', &id)
			}
		}
	}
	for p := range w.tree {
		if p != w.R && (w.R == "/" || strings.HasPrefix(p, w.R+"/")) {
			if w.R == "/" {
				w.rel = append(w.rel, p[1:])
			} else {
				w.rel = append(w.rel, p[len(w.R)+1:])
			}
		}
	}
	sort.Strings(w.rel)
	return w
}

func (w *world) treeField() string {
	if len(w.tree) == 0 {
		return "."
	}
	var ps []string
	for p := range w.tree {
		ps = append(ps, p)
	}
	sort.Strings(ps)
	parts := make([]string, len(ps))
	for i, p := range ps {
		n := w.tree[p]
		k := string(n.k)
		if n.k == 'f' {
			k = "f" + itoa(n.id)
		}
		parts[i] = core.Hex(p) + ":" + k
	}
	return strings.Join(parts, ";")
}

var hideNames = []string{"secret.txt", ".git", "hidden", "index.html", "sub", ".*", "*.txt", "s?cret.txt", "[r-t]ecret.txt",
	"secret*", "deep", "w", "site", "...", "secret", "*", "b.txt", "[^a]*", "é*", "?.txt", "a?b.txt", "x\\*y", "[", "a\\", "[a-", "**", "[]a]", "*.gz", "*.gz", "a.txt.zst", "*.etag", "*.etag", "*.md5"}

func genHide(rng *core.Rand, w *world) []string {
	n := rng.Intn(4)
	if rng.Chance(1, 6) {
		n = 0
	}
	var out []string
	relToCwd := ""
	if w.cwd != "/" && strings.HasPrefix(w.R, w.cwd+"/") {
		relToCwd = w.R[len(w.cwd)+1:]
	}
	base := w.R
	if base == "/" {
		base = ""
	}
	for i := 0; i < n; i++ {
		switch rng.Intn(10) {
		case 0, 1, 2, 3, 4:
			out = append(out, rng.Pick(hideNames))
		case 5, 6, 7:
			out = append(out, base+rng.Pick([]string{"/secret.txt", "/sub", "/sub/secret.txt", "/sub/*.txt", "/*/secret.txt", "/hidden/",
				"/.git", "/index.html", "/sub/deep", "/s*", "/secret", "/a.txt", "/sub/", "/idx/index.html", "/[", "/sub/[a-"}))
		case 8:
			if relToCwd != "" {
				out = append(out, rng.Pick([]string{"./", ""})+relToCwd+rng.Pick([]string{"/secret.txt", "/sub", "/.git", "/sub/*.txt"}))
			} else {
				out = append(out, rng.Pick([]string{"./secret.txt", "sub/secret.txt", "./sub", "./.git"}))
			}
		default:
			out = append(out, rng.Pick([]string{"/srv/*/secret.txt", w.R, path.Dir(w.R), "/srv", "/*", "/w/*/*", "/etc/passwd", "../secret.txt"}))
		}
	}
	return out
}

var indexSets = [][]string{
	{"index.html", "index.txt"}, {"index.html", "index.txt"}, {"index.html", "index.txt"}, {"index.html"}, {"index.txt", "index.html"},
	{}, {"sub"}, {"../outside.txt"}, {"secret.txt"}, {"sub/b.txt"}, {"missing.html", "a.txt"}, {"..", "index.html"}, {"/index.html"},
	{"index.html/"}, {"../../etc/passwd", "index.txt"}, {""},
}

var hostileSegs = []string{"..", "..", "..", ".", "", "%2e%2e", "%2E%2e", ".%2e", "..%2f", "%2f", "%5c", "..%5c", "..\\", "%00", "a.txt%00",
	"....", "....//", "%252e%252e", "~", "outside.txt", "site-evil", "site.bak", "etc", "passwd", "secret.txt", "SECRET.TXT", "secret.txt.",
	"secret.txt%20", "%2egit", ".git", "index.html", "%c3%a9.txt", "é.txt", "%ff", "x*y", "x%2ay", "q%3f.txt", "[z]", "*", "s*", "?", "back%5cslash",
	"back\\*", "\\*", "..;", "%2e", "..%00", "cwdfile.txt", "w", "srv", "site", "%2e%2e%2f%2e%2e%2fetc%2fpasswd", "sub", "deep", "hidden", "..."}

func decodeTarget(raw string, rng *core.Rand) string {
	if rng.Chance(1, 6) {
		return raw // a path set directly on the request (rewrite), never decoded
	}
	t := raw
	if !strings.HasPrefix(t, "/") {
		t = "/" + t
	}
	u, err := url.ParseRequestURI(t)
	if err != nil {
		return raw
	}
	p := u.Path
	if !strings.HasPrefix(raw, "/") {
		p = strings.TrimPrefix(p, "/")
	}
	return p
}

func genPath(rng *core.Rand, w *world) string {
	var raw string
	switch rng.Intn(10) {
	case 0, 1, 2: // aimed at an existing entry, maybe decorated
		if len(w.rel) > 0 {
			raw = "/" + url.PathEscape(rng.Pick(w.rel))
			raw = strings.ReplaceAll(raw, "%2F", "/")
		} else {
			raw = "/"
		}
		switch rng.Intn(8) {
		case 0:
			raw += "/"
		case 1:
			raw = "/." + raw
		case 2:
			raw = "/" + raw
		case 3:
			raw = "/zz/.." + raw
		case 4:
			raw = strings.Replace(raw, "/", "//", 1)
		}
	case 3: // the root itself
		raw = rng.Pick([]string{"/", "", "//", "/.", "/./", "/sub/..", "/sub/../"})
	case 4, 5: // classic traversals aimed at things that exist outside
		up := strings.Repeat(rng.Pick([]string{"../", "..%2f", "%2e%2e/", "..\\", "%2e%2e%5c", "....//", ".%2e/"}), 1+rng.Intn(4))
		target := rng.Pick([]string{"outside.txt", "etc/passwd", "secret.txt", path.Base(w.R) + "-evil/a.txt", path.Base(w.R) + ".bak", "w/cwdfile.txt", "cwdfile.txt", "index.html"})
		raw = "/" + rng.Pick([]string{"", "sub/", "sub/deep/", "a.txt/", ".../"}) + up + target
	default:
		n := 1 + rng.Intn(5)
		segs := make([]string, n)
		for i := range segs {
			if rng.Chance(1, 3) && len(w.rel) > 0 {
				segs[i] = path.Base(rng.Pick(w.rel))
			} else {
				segs[i] = rng.Pick(hostileSegs)
			}
		}
		raw = "/" + strings.Join(segs, "/")
		if rng.Chance(1, 4) {
			raw += "/"
		}
		if rng.Chance(1, 25) {
			raw = raw[1:]
		}
	}
	if rng.Chance(1, 60) {
		raw += "/" + strings.Repeat("A", 255+rng.Intn(4000))
	}
	return decodeTarget(raw, rng)
}

func genOrig(rng *core.Rand, p string) string {
	switch rng.Intn(12) {
	case 0:
		if strings.HasSuffix(p, "/") {
			return strings.TrimSuffix(p, "/")
		}
		return p + "/"
	case 1:
		return "/other/name"
	case 2:
		return ""
	case 3:
		return "/prefix" + p
	case 4:
		// what the canonical redirect is computed from: open-redirect shapes, bytes url.Parse
		// rejects or treats specially, non-ASCII
		return rng.Pick([]string{"//evil.example", "/", "///x//", "/%zz", "/a#b", "/a?b", "/a\x01b", "/\xc3\xa9", "/a%2fb", "/\\evil.example", "/a#%zz", "/x:y", "/%"}) + p
	}
	return p
}

func bits(bs ...bool) string {
	s := ""
	for _, b := range bs {
		if b {
			s += "1"
		} else {
			s += "0"
		}
	}
	return s
}

func genServe(rng *core.Rand) string {
	w := genWorld(rng)
	hide := genHide(rng, w)
	idx := indexSets[rng.Intn(len(indexSets))]
	omitIndex := rng.Chance(1, 5)
	if omitIndex {
		idx = nil
	}
	p := genPath(rng, w)
	sidecars := rng.Chance(1, 3)
	if sidecars && rng.Chance(1, 2) {
		// aim at a file that has (or may have) a sidecar in the template, make sure the pair exists
		base := rng.Pick([]string{"a.txt", "a.txt", "index.html", "secret.txt", "sub/b.txt"})
		suf := map[string]string{"a.txt": rng.Pick([]string{".gz", ".zst", ".br"}), "index.html": ".gz", "secret.txt": ".gz", "sub/b.txt": ".zst"}[base]
		abs := func(rel string) string {
			if w.R == "/" {
				return "/" + rel
			}
			return w.R + "/" + rel
		}
		id := len(w.tree) + 100
		w.add(abs(base), 'f', &id)
		w.add(abs(base+suf), 'f', &id)
		p = "/" + base
		if rng.Chance(1, 6) {
			p = "/x/../" + base
		}
	}
	orig := genOrig(rng, p)
	line := fmt.Sprintf("serve %s %s %s %s %s %s %s %s", core.Hex(w.cwd), core.Hex(w.rootCfg), showList(hide), showList(idx),
		bits(rng.Chance(1, 2), rng.Chance(1, 3), rng.Chance(3, 4), rng.Chance(1, 4), rng.Chance(1, 4), rng.Chance(1, 5)), core.Hex(p), core.Hex(orig), w.treeField())
	// optional tail: precompressed sidecars, raw query, configuration route
	preF, encF := "000", "."
	if sidecars {
		// which modules are configured, what the client accepts
		var acc []string
		for n := rng.Intn(4); n > 0; n-- {
			acc = append(acc, rng.Pick([]string{"gzip", "gzip", "br", "zstd", "identity", "deflate", "*"}))
		}
		preF, encF = bits(rng.Chance(2, 3), rng.Chance(1, 2), rng.Chance(1, 2)), showList(acc)
	}
	withQuery := rng.Chance(1, 3)
	via := ""
	if rng.Chance(1, 2) {
		via = rng.Pick([]string{"j", "c", "j", "c", "s"})
	}
	if omitIndex {
		if via == "" {
			via = "s"
		}
		via += "d"
	}
	if rng.Chance(1, 5) {
		// etag_file_extensions (needs every optional field before it)
		if via == "" {
			via = "s"
		}
		q := ""
		if withQuery {
			q = rng.Pick(queries)
		}
		ee := [][]string{{".etag"}, {".md5", ".etag"}, {".etag", ".md5"}, {".none", ".etag"}, {".md5"}}[rng.Intn(5)]
		if rng.Chance(1, 2) && !sidecars {
			p2 := rng.Pick([]string{"/a.txt", "/index.html", "/secret.txt", "/sub/b.txt"})
			line = strings.Replace(line, " "+core.Hex(p)+" "+core.Hex(orig)+" ", " "+core.Hex(p2)+" "+core.Hex(p2)+" ", 1)
		}
		return line + " " + preF + " " + encF + " " + core.Hex(q) + " " + via + " " + showList(ee)
	}
	switch {
	case via != "":
		q := ""
		if withQuery {
			q = rng.Pick(queries)
		}
		line += " " + preF + " " + encF + " " + core.Hex(q) + " " + via
	case withQuery:
		line += " " + preF + " " + encF + " " + core.Hex(rng.Pick(queries))
	case sidecars:
		line += " " + preF + " " + encF
	}
	return line
}

// genPair: a faulted browse request followed by a browse request on another instance.
func genPair(rng *core.Rand) string {
	fields := func(w *world, hide []string, p string) string {
		return fmt.Sprintf("%s %s %s . %s %s %s %s", core.Hex(w.cwd), core.Hex(w.rootCfg), showList(hide),
			bits(true, rng.Chance(1, 5), true), core.Hex(p), core.Hex(p), w.treeField())
	}
	dirPath := func(w *world) string {
		if rng.Chance(1, 3) {
			for _, d := range []string{"sub", "hidden", "noindex", ".git"} {
				if n, ok := w.tree[path.Join(w.R, d)]; ok && n.k == 'd' {
					return "/" + d + "/"
				}
			}
		}
		return "/"
	}
	wa := genWorld(rng)
	hideA := genHide(rng, wa)
	if rng.Chance(1, 2) {
		hideA = nil
	}
	pa := dirPath(wa)
	var wb *world
	var hideB []string
	if rng.Chance(1, 2) {
		// the same site served by another instance that hides more
		wb = wa
		hideB = append(append([]string{}, hideA...), rng.Pick([]string{"secret.txt", "*.txt", ".git", "sub", "secret*", "index.*", "a.txt"}))
		if rng.Chance(1, 3) {
			hideB = append(hideB, wb.R+"/secret.txt")
		}
	} else {
		wb = genWorld(rng)
		hideB = genHide(rng, wb)
	}
	pb := dirPath(wb)
	if wb == wa && rng.Chance(2, 3) {
		pb = pa
	}
	fault := "t"
	if rng.Chance(2, 3) {
		fault = "w" + itoa([]int{0, 0, 1, 2, 7, 20, 60, 150, 400, 100000}[rng.Intn(10)])
	}
	return "pair " + fault + " " + fields(wa, hideA, pa) + " // " + fields(wb, hideB, pb)
}

// genSite: a Caddyfile site (root *, try_files, file_server) through the real adapter and http app.
func genSite(rng *core.Rand) string {
	w := genWorld(rng)
	for !(w.rootCfg == "" || safeCfg(w.rootCfg)) {
		w = genWorld(rng)
	}
	var hide []string
	for _, h := range genHide(rng, w) {
		if safeCfg(h) {
			hide = append(hide, h)
		}
	}
	var idx []string
	if rng.Chance(1, 2) {
		for _, ix := range indexSets[rng.Intn(len(indexSets))] {
			if safeCfg(ix) {
				idx = append(idx, ix)
			}
		}
	}
	var tries []string
	if rng.Chance(2, 3) {
		for n := 1 + rng.Intn(3); n > 0; n-- {
			t := tryPool[rng.Intn(len(tryPool))]
			if (t.pre == "" || safeCfg(t.pre)) && (t.suf == "" || safeCfg(t.suf)) && t.raw() != "" && !strings.Contains(t.raw(), "?") && !strings.HasPrefix(t.raw(), "=") {
				u := "0"
				if t.use {
					u = "1"
				}
				tries = append(tries, core.Hex(t.pre)+":"+u+":"+core.Hex(t.suf))
			}
		}
	}
	triesF := "."
	if len(tries) > 0 {
		triesF = strings.Join(tries, ";")
	}
	abs := func(rel string) string {
		if w.R == "/" {
			return "/" + rel
		}
		return w.R + "/" + rel
	}
	// where the Caddyfile lives: usually inside the site (that is why it is hidden automatically)
	cf := rng.Pick([]string{abs("Caddyfile"), abs("Caddyfile"), "Caddyfile", abs("sub/site.caddy"), "/etc/caddy/Caddyfile", abs("conf/../Caddyfile"), "./Caddyfile"})
	id := len(w.tree) + 200
	w.add(resolve(w.cwd, cf), 'f', &id)
	p := genPath(rng, w)
	switch rng.Intn(5) {
	case 0:
		p = "/" + path.Base(cf)
	case 1:
		p = "/"
	}
	line := fmt.Sprintf("site %s %s %s %s %s %s %s %s %s", core.Hex(w.cwd), core.Hex(w.rootCfg), showList(hide), showList(idx),
		bits(rng.Chance(1, 2), rng.Chance(1, 4), rng.Chance(3, 4)), triesF, core.Hex(p), w.treeField(), core.Hex(cf))
	if len(tries) > 0 && rng.Chance(1, 3) {
		line += " " + rng.Pick([]string{"1", "L", "S", "M"})
	}
	return line
}

// genTwo: two file_server handlers (own roots, own hide lists) on one request.
func genTwo(rng *core.Rand) string {
	pickWorld := func() *world {
		w := genWorld(rng)
		for !(w.rootCfg == "" || safeCfg(w.rootCfg)) {
			w = genWorld(rng)
		}
		return w
	}
	wa := pickWorld()
	wb := pickWorld()
	wb.cwd = wa.cwd
	wb.R = rootOf(wb.cwd, wb.rootCfg)
	if rng.Chance(1, 3) {
		// the same directory served twice (e.g. an internal and a public view)
		wb.rootCfg, wb.R = wa.rootCfg, wa.R
	}
	// one tree for both: B's entries are added to A's where they fit
	id := 1000
	var ps []string
	for p := range wb.tree {
		ps = append(ps, p)
	}
	sort.Strings(ps)
	for _, p := range ps {
		wa.add(p, wb.tree[p].k, &id)
	}
	// B's view of the merged tree, for aiming requests
	wb.tree = wa.tree
	safe := func(xs []string) []string {
		var out []string
		for _, x := range xs {
			if safeCfg(x) {
				out = append(out, x)
			}
		}
		return out
	}
	var hideA []string
	if rng.Chance(1, 3) {
		hideA = safe(genHide(rng, wa))
	}
	hideB := safe(genHide(rng, wb))
	if rng.Chance(2, 3) {
		hideB = append(hideB, rng.Pick([]string{"secret.txt", "*.txt", ".git", "sub", "secret*", "index.*", "a.txt", "hidden"}))
	}
	idx := func() []string {
		if rng.Chance(1, 2) {
			return nil
		}
		return safe(indexSets[rng.Intn(len(indexSets))])
	}
	mode := rng.Pick([]string{"p", "p", "e"})
	passA := rng.Chance(4, 5)
	passB := rng.Chance(1, 5)
	if mode == "e" {
		passA, passB = rng.Chance(1, 8), false
	}
	var p string
	switch rng.Intn(6) {
	case 0:
		p = genPath(rng, wa)
	case 1:
		p = rng.Pick([]string{"/secret.txt", "/", "/sub/", "/sub/secret.txt", "/.git/config", "/hidden/h.txt", "/a.txt"})
	default:
		p = genPath(rng, wb)
	}
	return fmt.Sprintf("two %s %s %s %s %s %s %s %s %s %s %s %s", mode, core.Hex(wa.cwd),
		core.Hex(wa.rootCfg), showList(hideA), showList(idx()), bits(rng.Chance(1, 3), passA, rng.Chance(3, 4)),
		core.Hex(wb.rootCfg), showList(hideB), showList(idx()), bits(rng.Chance(1, 2), passB, rng.Chance(3, 4)),
		core.Hex(p), wa.treeField())
}

var queries = []string{"x=1", "a=b&c=%zz", "//evil.example/", "?", "q=/../", "%2f%2fevil", "nex=//evil.example", "a?b", "/", "x=%", "a=1/", "", "sor=name&order=desc"}

var tryPool = []tryFile{
	{"", true, ""}, {"", true, ""}, {"", true, ""}, {"", true, "/"}, {"", true, ".html"}, {"", true, "/index.html"},
	{"/index.html", false, ""}, {"/sub/", false, ""}, {"/*.txt", false, ""}, {"/s*/b.txt", false, ""}, {"/[", false, ""},
	{"/../outside.txt", false, ""}, {"../../etc/passwd", false, ""}, {"/sub", true, ""}, {"/s?b/*/c.txt", false, ""},
	{"/", true, ""}, {"index.txt", false, ""}, {"/sub/deep/", false, ""}, {"/x\\*y", false, ""}, {"/*/", false, ""}, {"/missing", false, ""},
	{"", false, ""}, {"/.git/*", false, ""}, {"/a", false, "\\"}, {"/[a-s]ub/[b]*", false, ""},
}

func genMatch(rng *core.Rand) string {
	w := genWorld(rng)
	n := 1 + rng.Intn(3)
	parts := make([]string, n)
	for i := range parts {
		t := tryPool[rng.Intn(len(tryPool))]
		u := "0"
		if t.use {
			u = "1"
		}
		parts[i] = core.Hex(t.pre) + ":" + u + ":" + core.Hex(t.suf)
	}
	p := genPath(rng, w)
	pol := rng.Pick([]string{"0", "0", "0", "1", "L", "S", "M"})
	line := fmt.Sprintf("matchfile %s %s %s %s %s %s", core.Hex(w.cwd), core.Hex(w.rootCfg), strings.Join(parts, ";"),
		pol, core.Hex(p), w.treeField())
	if rng.Chance(1, 4) {
		sp := [][]string{{".php"}, {".txt"}, {".TXT", ".html"}, {"sub"}, {".t"}, {"/"}, {"x", ".txt"}}[rng.Intn(7)]
		line += " " + showList(sp)
		if rng.Chance(1, 2) {
			p2 := rng.Pick([]string{"/a.txt/more", "/sub/b.TXT/x/y", "/a.txt", "/index.html/../a.txt/z", "/sub/b.txt/", "/x.php/a.txt/p"})
			line = strings.Replace(line, " "+core.Hex(p)+" ", " "+core.Hex(p2)+" ", 1)
		}
	}
	return line
}

func randFrom(rng *core.Rand, alpha []string, max int) string {
	var sb strings.Builder
	for n := rng.Intn(max + 1); n > 0; n-- {
		sb.WriteString(rng.Pick(alpha))
	}
	return sb.String()
}

var cleanAlpha = []string{"/", "/", ".", "..", "a", "b", "\\", "\x00", "...", "/..", "../", "//", "/./"}
var patAlpha = []string{"*", "?", "[", "]", "-", "^", "\\", "a", "b", "c", "/", ".", "é", "\xff", "[a-c]", "[^b]", "*.", "\\*", "[\\]]", "\xc3", "€"}
var nameAlpha = []string{"a", "b", "c", "/", ".", "é", "\xff", "]", "-", "*", "\\", "ab", "\xc3", "€", "^"}
var joinRoots = []string{"/srv/site", "/srv/site/", "", ".", "/", "site", "./site/", "../up", "..", "/srv/../x", "a/../..", "/a b", "//x//y/"}

func (prop) Generate(rng *core.Rand, tier string, emit func(string)) {
	scale := 1
	switch tier {
	case "thorough":
		scale = 12
	case "search":
		scale = 3
	}
	for i := 0; i < 2000*scale; i++ {
		emit("clean " + core.Hex(randFrom(rng, cleanAlpha, 8)))
	}
	dummy := &world{cwd: "/w", R: "/srv/site", rel: []string{"a.txt", "sub/b.txt", "secret.txt"}}
	for i := 0; i < 4000*scale; i++ {
		req := genPath(rng, dummy)
		if rng.Chance(1, 4) {
			req = randFrom(rng, cleanAlpha, 8)
		}
		emit("join " + core.Hex(rng.Pick(joinRoots)) + " " + core.Hex(req))
	}
	for i := 0; i < 8000*scale; i++ {
		pat := randFrom(rng, patAlpha, 6)
		name := randFrom(rng, nameAlpha, 5)
		if rng.Chance(1, 3) { // a name that has a chance to match: the pattern with metas replaced
			name = strings.NewReplacer("*", rng.Pick([]string{"", "a", "xy"}), "?", rng.Pick([]string{"a", "é", "/"}), "\\", "", "[a-c]", "b", "[^b]", "z").Replace(pat)
		}
		emit("match " + core.Hex(pat) + " " + core.Hex(name))
	}
	for _, h := range hideNames {
		for _, n := range []string{"secret.txt", ".git", "x*y", "é.txt", "a", "[", "a\\"} {
			emit("match " + core.Hex(h) + " " + core.Hex(n))
		}
	}
	for i := 0; i < 22000*scale; i++ {
		emit(genServe(rng))
	}
	for i := 0; i < 7000*scale; i++ {
		emit(genMatch(rng))
	}
	for i := 0; i < 2500*scale; i++ {
		emit(genSite(rng))
	}
	for i := 0; i < 2500*scale; i++ {
		emit(genTwo(rng))
	}
	for i := 0; i < 1200*scale; i++ {
		emit(genPair(rng))
	}
	for i := 0; i < 1000*scale; i++ {
		// any two requests on two instances: the second answer does not depend on the first
		a := strings.TrimPrefix(genServe(rng), "serve ")
		b := strings.TrimPrefix(genServe(rng), "serve ")
		emit("pair n " + a + " // " + b)
	}
}
