package core

import (
	"flag"
	"fmt"
	"os"
)

// Main is the whole command line of a per-property harness binary:
//
//	harness-<ID> gen --seed N --tier quick|thorough|search --out DIR
//	harness-<ID> run --in FILE --out DIR
func Main(p Prop) {
	if len(os.Args) < 2 {
		fmt.Fprintln(os.Stderr, "usage: harness gen|run [flags]")
		os.Exit(2)
	}
	mode := os.Args[1]
	fs := flag.NewFlagSet(mode, flag.ExitOnError)
	seed := fs.Uint64("seed", 1, "PRNG seed")
	tier := fs.String("tier", "quick", "quick|thorough|search")
	out := fs.String("out", "", "output directory")
	in := fs.String("in", "", "file with protocol lines (run mode)")
	fs.Parse(os.Args[2:])
	if *out == "" {
		fmt.Fprintln(os.Stderr, "--out required")
		os.Exit(2)
	}
	s, err := NewSession(p, *seed, *tier, *out)
	if err != nil {
		fmt.Fprintln(os.Stderr, err)
		os.Exit(2)
	}
	switch mode {
	case "gen":
		p.Generate(NewRand(*seed), *tier, s.Do)
	case "run":
		lines, err := ReadLines(*in, p.ID())
		if err != nil {
			fmt.Fprintln(os.Stderr, err)
			os.Exit(2)
		}
		for _, l := range lines {
			s.Do(l)
		}
	default:
		fmt.Fprintln(os.Stderr, "unknown mode", mode)
		os.Exit(2)
	}
	if f, ok := p.(interface{ Finish(*Session) }); ok {
		f.Finish(s)
	}
	if err := s.Close(*out); err != nil {
		fmt.Fprintln(os.Stderr, err)
		os.Exit(2)
	}
}
