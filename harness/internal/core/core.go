// Package core holds what every property harness shares: the seeded PRNG, the
// hex line protocol, the result record written next to the case/answer streams.
package core

import (
	"bufio"
	"crypto/sha256"
	"encoding/hex"
	"encoding/json"
	"fmt"
	"os"
	"path/filepath"
	"sort"
	"strings"
)

// Rand is splitmix64; every random choice of a run derives from VERIF_SEED.
type Rand struct{ s uint64 }

func NewRand(seed uint64) *Rand {
	// hash the seed first: consecutive seeds must not give shifted copies of one stream
	z := seed + 0x9E3779B97F4A7C15
	z = (z ^ (z >> 30)) * 0xBF58476D1CE4E5B9
	z = (z ^ (z >> 27)) * 0x94D049BB133111EB
	z ^= z >> 31
	return &Rand{s: z*0xD6E8FEB86659FD93 + 0x1234567}
}

func (r *Rand) U64() uint64 {
	r.s += 0x9E3779B97F4A7C15
	z := r.s
	z = (z ^ (z >> 30)) * 0xBF58476D1CE4E5B9
	z = (z ^ (z >> 27)) * 0x94D049BB133111EB
	return z ^ (z >> 31)
}

// Intn returns a value in [0,n); n must be > 0.
func (r *Rand) Intn(n int) int { return int(r.U64() % uint64(n)) }

// Chance is true with probability num/den.
func (r *Rand) Chance(num, den int) bool { return r.Intn(den) < num }

func (r *Rand) Pick(xs []string) string { return xs[r.Intn(len(xs))] }

// Fork derives an independent stream (so that adding draws in one generator
// does not shift another).
func (r *Rand) Fork() *Rand { return NewRand(r.U64()) }

// Hex encodes a byte string for the line protocol ("-" is the empty string).
func Hex(s string) string {
	if s == "" {
		return "-"
	}
	return hex.EncodeToString([]byte(s))
}

func UnHex(s string) (string, error) {
	if s == "-" {
		return "", nil
	}
	b, err := hex.DecodeString(s)
	return string(b), err
}

// Failure is one property-level (oracle) failure observed on the implementation.
type Failure struct {
	Case  string `json:"case"`  // the protocol line that fails (the replay)
	Class string `json:"class"` // decidable signature used to match known_findings.jsonl
	What  string `json:"what"`  // human-readable description
}

// Outcome is what running one case on the implementation yields.
type Outcome struct {
	Impl     string    // canonical answer line (compared with the model's)
	Tags     []string  // branch tags for the histogram; tag "trivial" marks a default-branch case
	Failures []Failure // oracle failures
}

// Prop is one property's harness.
type Prop interface {
	ID() string
	// Generate emits protocol lines (without the leading property id).
	Generate(rng *Rand, tier string, emit func(line string))
	// Run executes one protocol line against the real code.
	Run(line string) Outcome
}

// Meta is written as meta.json next to cases.txt / impl.txt.
type Meta struct {
	Property           string         `json:"property"`
	Seed               uint64         `json:"seed"`
	Tier               string         `json:"tier"`
	Evaluations        int            `json:"evaluations"`
	Distinct           int            `json:"distinct"`
	DistinctNontrivial int            `json:"distinct_nontrivial"`
	Histogram          map[string]int `json:"histogram"`
	Samples            []string       `json:"samples"`
	Failures           []Failure      `json:"failures"`
	Extra              map[string]any `json:"extra,omitempty"`
}

// Session collects a run's streams.
type Session struct {
	P     Prop
	Meta  Meta
	cases *bufio.Writer
	impl  *bufio.Writer
	files []*os.File
	seen  map[[32]byte]bool
}

func NewSession(p Prop, seed uint64, tier, outDir string) (*Session, error) {
	if err := os.MkdirAll(outDir, 0o755); err != nil {
		return nil, err
	}
	cf, err := os.Create(filepath.Join(outDir, "cases.txt"))
	if err != nil {
		return nil, err
	}
	inf, err := os.Create(filepath.Join(outDir, "impl.txt"))
	if err != nil {
		return nil, err
	}
	return &Session{
		P:     p,
		Meta:  Meta{Property: p.ID(), Seed: seed, Tier: tier, Histogram: map[string]int{}},
		cases: bufio.NewWriterSize(cf, 1<<20), impl: bufio.NewWriterSize(inf, 1<<20),
		files: []*os.File{cf, inf},
		seen:  map[[32]byte]bool{},
	}, nil
}

// Do runs one case line and records it.
func (s *Session) Do(line string) {
	if strings.ContainsAny(line, "\n\r") {
		panic("protocol line contains a newline: " + line)
	}
	o := safeRun(s.P, line)
	fmt.Fprintf(s.cases, "%s %s\n", s.P.ID(), line)
	fmt.Fprintf(s.impl, "%s\n", o.Impl)
	s.Meta.Evaluations++
	h := sha256.Sum256([]byte(line))
	trivial := false
	for _, t := range o.Tags {
		s.Meta.Histogram[t]++
		if t == "trivial" {
			trivial = true
		}
	}
	if !s.seen[h] {
		s.seen[h] = true
		s.Meta.Distinct++
		if !trivial {
			s.Meta.DistinctNontrivial++
		}
	}
	if len(s.Meta.Samples) < 8 && !trivial && (s.Meta.Evaluations%97 == 1 || len(s.Meta.Samples) < 2) {
		s.Meta.Samples = append(s.Meta.Samples, s.P.ID()+" "+line+"  =>  "+o.Impl)
	}
	for _, f := range o.Failures {
		if f.Case == "" {
			f.Case = line
		}
		f.Case = s.P.ID() + " " + f.Case
		// keep at most 8 failures per class (and 600 in all): a frequent known class must not crowd
		// out a new one
		s.Meta.Histogram["oracle-failure:"+f.Class]++
		if s.Meta.Histogram["oracle-failure:"+f.Class] <= 8 && len(s.Meta.Failures) < 600 {
			s.Meta.Failures = append(s.Meta.Failures, f)
		}
	}
}

func safeRun(p Prop, line string) (o Outcome) {
	defer func() {
		if r := recover(); r != nil {
			o = Outcome{Impl: "panic", Tags: []string{"panic"},
				Failures: []Failure{{Case: line, Class: "harness-recovered-panic", What: fmt.Sprint(r)}}}
		}
	}()
	return p.Run(line)
}

func (s *Session) Close(outDir string) error {
	s.cases.Flush()
	s.impl.Flush()
	for _, f := range s.files {
		f.Close()
	}
	sort.Strings(s.Meta.Samples)
	if s.Meta.Samples == nil {
		s.Meta.Samples = []string{}
	}
	if s.Meta.Failures == nil {
		s.Meta.Failures = []Failure{}
	}
	b, err := json.MarshalIndent(s.Meta, "", " ")
	if err != nil {
		return err
	}
	return os.WriteFile(filepath.Join(outDir, "meta.json"), b, 0o644)
}

// ReadLines reads protocol lines from a file, stripping a leading "<id> ".
func ReadLines(path, id string) ([]string, error) {
	b, err := os.ReadFile(path)
	if err != nil {
		return nil, err
	}
	var out []string
	for _, l := range strings.Split(string(b), "\n") {
		l = strings.TrimSpace(l)
		if l == "" || strings.HasPrefix(l, "#") {
			continue
		}
		l = strings.TrimPrefix(l, id+" ")
		out = append(out, l)
	}
	return out, nil
}
