package c13

import (
	"net/url"
	"strings"

	"verif/harness/internal/core"
)

// `url <hex>`: net/url.Parse on the domain of the byte-level model (printable ASCII without '%').

func urlInDomain(s string) bool {
	for i := 0; i < len(s); i++ {
		if b := s[i]; b < 32 || b > 126 || b == '%' {
			return false
		}
	}
	return true
}

func (p *prop) runURL(f []string) core.Outcome {
	bad := core.Outcome{Impl: "bad-op", Tags: []string{"bad-op", "trivial"}}
	if len(f) != 2 {
		return bad
	}
	raw, err := core.UnHex(f[1])
	if err != nil || !urlInDomain(raw) {
		return bad
	}
	out := core.Outcome{Tags: []string{"op:url"}}
	u, err := url.Parse(raw)
	if err != nil {
		out.Impl = "err"
		out.Tags = append(out.Tags, "url:err")
		return out
	}
	out.Impl = "ok " + core.Hex(u.Scheme) + " " + core.Hex(u.Host)
	if u.Host != "" {
		out.Tags = append(out.Tags, "url:host")
	}
	if u.Scheme != "" {
		out.Tags = append(out.Tags, "url:scheme")
	}
	if !strings.ContainsAny(raw, ":/[]@?#") {
		out.Tags = append(out.Tags, "trivial")
	}
	return out
}

var urlPieces = []string{
	"http", "https", "HTTP", "file", "a+b.c-d", "1x", "", ":", "://", "//", "///", "/", "localhost", "example.com", "127.0.0.1", "[::1]", "[fe80::1", "::1]",
	":2019", ":80", ":", ":x", ":8a", "@", "user", "user:pw", "u s", "?", "?q=1", "#", "#frag", "path/x", "*", "null", ".", "-", "+", " ", "\\", "^", "|", "{", "<", ">", "\"", "'", "!", "$", "&", "(", ")", ",", ";", "=", "~", "_", "[", "]",
}

func genURL(rng *core.Rand) string {
	var sb strings.Builder
	switch rng.Intn(4) {
	case 0: // scheme://host[:port][/path]
		sb.WriteString(rng.Pick([]string{"http", "https", "HTTP", "ws", "file", "a+b"}) + "://")
		sb.WriteString(rng.Pick([]string{"localhost", "example.com", "127.0.0.1", "[::1]", "u@h", "u:p@h", "", "h h", "[::1", "a_b", "A.B"}))
		sb.WriteString(rng.Pick([]string{"", ":2019", ":80", ":", ":x", ":1:2"}))
		sb.WriteString(rng.Pick([]string{"", "/", "/p?q#f", "?q", "#f", "/a:b"}))
	default:
		for n := rng.Intn(7); n > 0; n-- {
			sb.WriteString(rng.Pick(urlPieces))
		}
	}
	return "url " + core.Hex(sb.String())
}
