package c13

import (
	"net/url"
	"strings"

	"verif/harness/internal/core"
)

// `url <hex>`: net/url.Parse against the byte-level model (any byte string).

func urlInDomain(s string) bool { return true } // the model is total

func (p *prop) runURL(f []string) core.Outcome {
	bad := core.Outcome{Impl: "bad-op", Tags: []string{"bad-op", "trivial"}}
	if len(f) != 2 {
		return bad
	}
	raw, err := core.UnHex(f[1])
	if err != nil || !urlInDomain(raw) {
		return bad
	}
	out := core.Outcome{Tags: []string{"op:url"}}
	u, err := url.Parse(raw)
	if err != nil {
		out.Impl = "err"
		out.Tags = append(out.Tags, "url:err")
		return out
	}
	out.Impl = "ok " + core.Hex(u.Scheme) + " " + core.Hex(u.Host)
	if u.Host != "" {
		out.Tags = append(out.Tags, "url:host")
	}
	if u.Scheme != "" {
		out.Tags = append(out.Tags, "url:scheme")
	}
	if !strings.ContainsAny(raw, ":/[]@?#") {
		out.Tags = append(out.Tags, "trivial")
	}
	return out
}

var urlPieces = []string{
	"http", "https", "HTTP", "file", "a+b.c-d", "1x", "", ":", "://", "//", "///", "/", "localhost", "example.com", "127.0.0.1", "[::1]", "[fe80::1", "::1]",
	"%25", "%41", "%zz", "%", "%2", "%C3%A9", "%20", "%2F", "%80", "%7f", "%3A", "eth0", "\xc3\xa9", "\x80", "\x7f", "\x01", "\t",
	":2019", ":80", ":", ":x", ":8a", "@", "user", "user:pw", "u s", "?", "?q=1", "#", "#frag", "path/x", "*", "null", ".", "-", "+", " ", "\\", "^", "|", "{", "<", ">", "\"", "'", "!", "$", "&", "(", ")", ",", ";", "=", "~", "_", "[", "]",
}

func genURL(rng *core.Rand) string {
	var sb strings.Builder
	switch rng.Intn(5) {
	case 0: // scheme://host[:port][/path]
		sb.WriteString(rng.Pick([]string{"http", "https", "HTTP", "ws", "file", "a+b"}) + "://")
		sb.WriteString(rng.Pick([]string{"localhost", "example.com", "127.0.0.1", "[::1]", "u@h", "u:p@h", "", "h h", "[::1", "a_b", "A.B", "h%41", "h%C3%A9", "h%25", "u%41:p%zz@h", "u%4@h", "h\xc3\xa9", "u\xc3@h", "h%2"}))
		sb.WriteString(rng.Pick([]string{"", ":2019", ":80", ":", ":x", ":1:2"}))
		sb.WriteString(rng.Pick([]string{"", "/", "/p?q#f", "?q", "#f", "/a:b"}))
	case 1: // IPv6 literals with zones and escapes
		sb.WriteString(rng.Pick([]string{"http://", "//", "https://u@", "x://"}))
		sb.WriteString("[" + rng.Pick([]string{"::1", "fe80::1", "fe80::1%25eth0", "fe80::1%25eth%200", "fe80::1%25%41", "fe80::1%25%C3", "fe80::1%eth0", "fe80::1%2541", "::1%25", "%25::1", "fe80::1%25a/b", "fe80::1%25a b", "fe80::1%25a%2Fb"}) + "]")
		sb.WriteString(rng.Pick([]string{"", ":2019", ":", ":x", "x", ":%32"}))
		sb.WriteString(rng.Pick([]string{"", "/", "/p%41", "/p%4", "#f%zz", "#f%41", "?q%zz"}))
	default:
		for n := rng.Intn(7); n > 0; n-- {
			sb.WriteString(rng.Pick(urlPieces))
		}
	}
	return "url " + core.Hex(sb.String())
}
