package c13

import (
	"crypto/tls"
	"encoding/json"
	"fmt"
	"net"
	"net/http"
	"sort"
	"strconv"
	"strings"
	"time"

	"github.com/caddyserver/caddy/v2"

	"verif/harness/internal/core"
)

// `hist <step> <step> …`: a HISTORY of config loads through the real caddy.Load, each followed by
// real network probes (plain HTTP for local endpoints, mutual TLS with each of the keys 0..3 for
// remote endpoints) of EVERY admin address configured so far in the history.
//
//	step   = <local>@<remote>
//	local  = n (no admin object) | d (admin.disabled) | a<id> (id 0..1: a loopback TCP address, default
//	         origins) | t<id> (the same address, origins that exclude its own Host) | b (an address that
//	         cannot be bound: the load must be rejected and change nothing)
//	         a<id>! | t<id>! | d!  the same admin section in a config that is REJECTED LATE: an app
//	         of it cannot be provisioned (caddy.go provisionContext: after replaceLocalAdminServer)
//	remote = ~ (no admin.remote) | a<id>=<acl>                (id 2..3; acl as in the req op)
//	         x<id>=<acl>   the same, followed by an entry whose public key cannot be decoded: the load is
//	         rejected in finishSettingUp → replaceRemoteAdminServer (after the stop of the previous
//	         remote server was registered, after the local endpoint was replaced)
//
// Answer: per step, for every address seen so far: L<id>:dn|ok|no|mix   R<id>:dn|<4 letters>, one letter per
// key: s served, m method refused, p path refused, r rejected (not a listed key: TLS or 401);
// steps separated by " / ".

type hstep struct {
	local     string // "n", "d", "a" (listen), "b" (an address that cannot be bound)
	tight     bool   // origins that exclude the address's own Host
	localID   int
	remote    bool
	remoteID  int
	acl       []access
	aclString string
	fail      string // "" | "prov" (app provisioning error) | "key" (undecodable remote public key)
}

func parseHist(f []string) ([]hstep, bool) {
	if len(f) < 2 || len(f) > 9 {
		return nil, false
	}
	var out []hstep
	for _, st := range f[1:] {
		parts := strings.SplitN(st, "@", 2)
		if len(parts) != 2 {
			return nil, false
		}
		var h hstep
		if l := parts[0]; len(l) > 1 && strings.HasSuffix(l, "!") && l != "n!" && l != "b!" {
			h.fail, parts[0] = "prov", l[:len(l)-1]
		}
		switch {
		case parts[0] == "n" || parts[0] == "d":
			h.local = parts[0]
		case parts[0] == "b":
			h.local = "b"
		case parts[0] == "a0" || parts[0] == "a1":
			h.local, h.localID = "a", int(parts[0][1]-'0')
		case parts[0] == "t0" || parts[0] == "t1":
			h.local, h.localID, h.tight = "a", int(parts[0][1]-'0'), true
		default:
			return nil, false
		}
		if parts[1] != "~" {
			ra := strings.SplitN(parts[1], "=", 2)
			if len(ra) == 2 && (ra[0] == "x2" || ra[0] == "x3") && h.fail == "" {
				h.fail, ra[0] = "key", "a"+ra[0][1:]
			}
			if len(ra) != 2 || (ra[0] != "a2" && ra[0] != "a3") || h.local == "n" || h.local == "b" {
				return nil, false
			}
			h.remote, h.remoteID, h.aclString = true, int(ra[0][1]-'0'), ra[1]
			// reuse the req op's ACL syntax through a dummy case line
			dummy := "req R 3a30:n ~ 0 " + ra[1] + " . . 474554 78 2f . -:1:-:- -:1:-:- ."
			c, ok := parseCase(dummy)
			if !ok || c.aclNil {
				return nil, false
			}
			for _, a := range c.acl {
				if !allLt(a.keys, 4) {
					return nil, false
				}
			}
			h.acl = c.acl
		}
		out = append(out, h)
	}
	return out, true
}

func freePort() int {
	ln, err := net.Listen("tcp", "127.0.0.1:0")
	if err != nil {
		panic(err)
	}
	defer ln.Close()
	return ln.Addr().(*net.TCPAddr).Port
}

func (p *prop) histConfig(h hstep, ports map[int]int) []byte {
	var base map[string]any
	json.Unmarshal([]byte(baseCfg), &base)
	admin := map[string]any{"config": map[string]any{"persist": false},
		// the instance's identity comes from the internal issuer (local CA in the private data
		// directory): no network, no hook
		"identity": map[string]any{"identifiers": []string{"localhost"}, "issuers": []any{map[string]any{"module": "internal"}}}}
	switch h.local {
	case "d":
		admin["disabled"] = true
	case "a":
		admin["listen"] = "127.0.0.1:" + strconv.Itoa(ports[h.localID])
		if h.tight {
			admin["origins"] = []string{"c13-only.example"}
		}
	case "b":
		admin["listen"] = "127.0.0.1:" + strconv.Itoa(ports[-1])
	}
	if h.remote {
		c := &acase{acl: h.acl}
		acl := []any{}
		for _, a := range c.acl {
			aa := map[string]any{}
			keys := []string{}
			for _, k := range a.keys {
				keys = append(keys, p.b64[k])
			}
			aa["public_keys"] = keys
			if len(a.perms) > 0 {
				perms := []any{}
				for _, pm := range a.perms {
					ap := map[string]any{}
					if !pm.methodsNil {
						ap["methods"] = append([]string{}, pm.methods...)
					}
					if !pm.pathsNil {
						ap["paths"] = append([]string{}, pm.paths...)
					}
					perms = append(perms, ap)
				}
				aa["permissions"] = perms
			}
			acl = append(acl, aa)
		}
		if h.fail == "key" {
			acl = append(acl, map[string]any{"public_keys": []string{"!c13: not base64 DER!"}})
		}
		admin["remote"] = map[string]any{"listen": "127.0.0.1:" + strconv.Itoa(ports[h.remoteID]), "access_control": acl}
	}
	base["admin"] = admin
	if h.local == "n" {
		delete(base, "admin")
	}
	if h.fail == "prov" {
		base["apps"].(map[string]any)["c13_no_such_app"] = map[string]any{}
	}
	b, _ := json.Marshal(base)
	return b
}

// probeLocal: 32 GET /config/ requests, each on a new connection (two servers sharing the address
// through SO_REUSEPORT both get their share), with the Host a client of that address naturally
// sends. dn: nothing listens; ok: all served; no: all refused (Host not allowed); mix: both. `want`
// only decides how long to wait for an asynchronous shutdown.
func probeLocal(port int, want string) string {
	deadline := time.Now().Add(4 * time.Second)
	addr := "127.0.0.1:" + strconv.Itoa(port)
	for {
		got := func() string {
			conn, err := net.DialTimeout("tcp", addr, time.Second)
			if err != nil {
				return "dn"
			}
			conn.Close()
			served, refused, other := 0, 0, 0
			for i := 0; i < 32; i++ {
				client := &http.Client{Timeout: 3 * time.Second, Transport: &http.Transport{DisableKeepAlives: true}}
				resp, err := client.Get("http://" + addr + "/config/")
				if err != nil {
					other++
					continue
				}
				body := make([]byte, 512)
				n, _ := resp.Body.Read(body)
				resp.Body.Close()
				switch {
				case resp.StatusCode == 200:
					served++
				case classifyRefusal(resp.StatusCode, body[:n]) == "host":
					refused++
				default:
					other++
				}
			}
			switch {
			case other > 0 && served == 0 && refused == 0:
				return "dn"
			case other > 0:
				return "odd"
			case refused == 0:
				return "ok"
			case served == 0:
				return "no"
			}
			return "mix"
		}()
		if got == want || time.Now().After(deadline) {
			return got
		}
		time.Sleep(30 * time.Millisecond)
	}
}

// probeRemote: one GET /config/ over mutual TLS per key; want = what the model expects ("dn" or 4
// letters) — only used to decide how long to wait for an asynchronous shutdown / a certificate that
// is still being issued.
func (p *prop) probeRemote(port int, want string) string {
	deadline := time.Now().Add(4 * time.Second)
	addr := "127.0.0.1:" + strconv.Itoa(port)
	for {
		got := func() string {
			conn, err := net.DialTimeout("tcp", addr, time.Second)
			if err != nil {
				return "dn"
			}
			conn.Close()
			var sb strings.Builder
			for k := 0; k < 4; k++ {
				client := &http.Client{Timeout: 3 * time.Second, Transport: &http.Transport{DisableKeepAlives: true,
					TLSClientConfig: &tls.Config{InsecureSkipVerify: true, ServerName: "localhost",
						Certificates: []tls.Certificate{{Certificate: [][]byte{p.certs[k].Raw}, PrivateKey: p.privs[k], Leaf: p.certs[k]}}}}}
				resp, err := client.Get("https://" + addr + "/config/")
				switch {
				case err != nil:
					sb.WriteString("r")
				default:
					body := make([]byte, 512)
					n, _ := resp.Body.Read(body)
					resp.Body.Close()
					switch why := classifyRefusal(resp.StatusCode, body[:n]); {
					case resp.StatusCode == 200:
						sb.WriteString("s")
					case why == "acl-method":
						sb.WriteString("m")
					case why == "acl-path":
						sb.WriteString("p")
					case why == "acl-identity":
						sb.WriteString("r")
					default:
						sb.WriteString("?")
					}
				}
			}
			return sb.String()
		}()
		if got == want || time.Now().After(deadline) {
			return got
		}
		time.Sleep(30 * time.Millisecond)
	}
}

// what the property says about one remote endpoint that enforces acl, key k, GET /config/
func histExpect(acl []access, k int) byte {
	for _, a := range acl {
		for _, ak := range a.keys {
			if ak != k {
				continue
			}
			// the first entry that lists the key decides; each of its permissions must allow
			for _, pm := range a.perms {
				if !pm.methodsNil && !contains(pm.methods, "GET") {
					return 'm'
				}
				if !pm.pathsNil {
					ok := false
					for _, ap := range pm.paths {
						ok = ok || strings.HasPrefix("/config/", ap)
					}
					if !ok {
						return 'p'
					}
				}
			}
			return 's'
		}
	}
	return 'r'
}

func (p *prop) runHist(line string, f []string) core.Outcome {
	steps, ok := parseHist(f)
	if !ok {
		return core.Outcome{Impl: "bad-op", Tags: []string{"bad-op", "trivial"}}
	}
	out := core.Outcome{Tags: []string{"op:hist"}}
	ports := map[int]int{}
	for id := 0; id < 4; id++ {
		ports[id] = freePort()
	}
	// what the property lets each address configured so far answer (the state after the last
	// SUCCESSFUL load; a rejected load must leave it as it is)
	wantL, wantR := map[int]string{}, map[int]string{}
	// what the CODE is expected to answer (only used to decide how long a probe waits for an
	// asynchronous shutdown): differs from want after a load that was rejected late
	expL, expR := map[int]string{}, map[int]string{}
	curPats = nil
	seenL, seenR := map[int]bool{}, map[int]bool{}
	var res []string
	defer func() {
		if err := caddy.Load([]byte(baseCfg), true); err != nil {
			panic("restoring base config: " + err.Error())
		}
	}()
	// dirty: a load was rejected AFTER the local endpoint had been replaced, and no load has been
	// accepted since
	dirty := false
	for i, h := range steps {
		if h.local == "a" {
			if !seenL[h.localID] {
				seenL[h.localID], wantL[h.localID], expL[h.localID] = true, "dn", "dn"
			}
		}
		if h.remote && !seenR[h.remoteID] {
			seenR[h.remoteID], wantR[h.remoteID], expR[h.remoteID] = true, "dn", "dn"
		}
		if h.local != "b" && h.fail != "" {
			// rejected late: the property's expectation stays that of the last ACCEPTED config
			if err := caddy.Load(p.histConfig(h, ports), true); err == nil {
				out.Failures = append(out.Failures, core.Failure{Class: "unloadable-config-accepted",
					What: fmt.Sprintf("load %d cannot be provisioned (%s), yet it was not rejected", i+1, h.fail)})
			}
			dirty = true
			for id := range seenL {
				expL[id] = "dn"
			}
			if h.local == "a" {
				expL[h.localID] = map[bool]string{false: "ok", true: "no"}[h.tight]
			}
			if h.fail == "key" {
				for id := range seenR {
					expR[id] = "dn"
				}
			}
			out.Tags = append(out.Tags, "hist:rejected-late:"+h.fail)
		} else if h.local == "b" {
			// an admin address that cannot be bound: a foreign socket (no SO_REUSEPORT) holds the port
			foreign, err := net.Listen("tcp", "127.0.0.1:0")
			if err != nil {
				panic(err)
			}
			ports[-1] = foreign.Addr().(*net.TCPAddr).Port
			err = caddy.Load(p.histConfig(h, ports), true)
			foreign.Close()
			if err == nil {
				out.Failures = append(out.Failures, core.Failure{Class: "unbindable-admin-address-accepted",
					What: fmt.Sprintf("load %d names an admin address held by another socket, yet it was not rejected", i+1)})
			}
		} else {
			if err := caddy.Load(p.histConfig(h, ports), true); err != nil {
				panic(fmt.Sprintf("hist op: caddy.Load of step %d failed: %v", i, err))
			}
			dirty = false
			for id := range wantL {
				wantL[id] = "dn"
			}
			for id := range wantR {
				wantR[id] = "dn"
			}
			if h.local == "a" {
				seenL[h.localID] = true
				wantL[h.localID] = map[bool]string{false: "ok", true: "no"}[h.tight]
			}
			if h.remote {
				seenR[h.remoteID] = true
				b := make([]byte, 4)
				for k := range b {
					b[k] = histExpect(h.acl, k)
				}
				wantR[h.remoteID] = string(b)
			}
		}
		var parts []string
		var ids []int
		for id := range seenL {
			ids = append(ids, id)
		}
		sort.Ints(ids)
		for _, id := range ids {
			want := wantL[id]
			if !dirty {
				expL[id] = want
			}
			got := probeLocal(ports[id], expL[id])
			parts = append(parts, fmt.Sprintf("L%d:%s", id, got))
			if got != want {
				switch {
				case dirty && want == "dn":
					out.Failures = append(out.Failures, core.Failure{Class: "rejected-config-local-admin-endpoint-live",
						What: fmt.Sprintf("after load %d (a load was REJECTED and none accepted since) local address %d, which the running config does not configure, answers (%s): the admin endpoint of a config that was never accepted is listening", i+1, id, got)})
				case dirty && want == "no" && (got == "mix" || got == "ok"):
					out.Failures = append(out.Failures, core.Failure{Class: "rejected-config-origin-policy-enforced",
						What: fmt.Sprintf("after load %d (a load was REJECTED and none accepted since) the running config allows only the origin c13-only.example on local address %d, yet requests with the Host 127.0.0.1:<port> are served there (%s of 32): the endpoint enforces the origins of a config that was never accepted", i+1, id, got)})
				case want == "dn":
					out.Failures = append(out.Failures, core.Failure{Class: "local-admin-outlives-its-config",
						What: fmt.Sprintf("after load %d the local admin endpoint of an EARLIER config (address %d) still answers (%s)", i+1, id, got)})
				case want == "no" && (got == "mix" || got == "ok"):
					out.Failures = append(out.Failures, core.Failure{Class: "local-stale-origin-policy",
						What: fmt.Sprintf("after load %d the running config allows only the origin c13-only.example on local address %d, yet requests with the Host 127.0.0.1:<port> are served there (%s of 32: an endpoint with the policy of an earlier config is still listening)", i+1, id, got)})
				}
			}
		}
		ids = nil
		for id := range seenR {
			ids = append(ids, id)
		}
		sort.Ints(ids)
		for _, id := range ids {
			want := wantR[id]
			if !dirty {
				expR[id] = want
			}
			got := p.probeRemote(ports[id], expR[id])
			parts = append(parts, fmt.Sprintf("R%d:%s", id, got))
			if got != want {
				switch {
				case want == "dn":
					out.Failures = append(out.Failures, core.Failure{Class: "remote-admin-outlives-its-config",
						What: fmt.Sprintf("after load %d, whose running config has no remote endpoint on address %d, the remote admin endpoint of an EARLIER config is still up there and answers the keys 0..3 with %q (s = served): it enforces an access list that is no longer configured", i+1, id, got)})
				case got != "dn":
					for k := 0; k < 4; k++ {
						if got[k] == 's' && want[k] != 's' {
							out.Failures = append(out.Failures, core.Failure{Class: "remote-stale-access-list",
								What: fmt.Sprintf("after load %d key %d is served on the remote endpoint although the CURRENT access list does not authorise it (answers %q, expected %q)", i+1, k, got, want)})
							break
						}
					}
				}
			}
		}
		res = append(res, strings.Join(parts, " "))
	}
	out.Impl = strings.Join(res, " / ")
	out.Tags = append(out.Tags, fmt.Sprintf("hist:steps=%d", len(steps)))
	return out
}
