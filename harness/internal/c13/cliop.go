package c13

import (
	"encoding/json"
	"fmt"
	"net"
	"net/http"
	"os"
	"regexp"
	"strconv"
	"strings"
	"time"

	"github.com/caddyserver/caddy/v2"
	caddycmd "github.com/caddyserver/caddy/v2/cmd"

	"verif/harness/internal/core"
)

// `cli <addressFlag> <admin.listen | ~> <origins> <eo>`: the CLIENT side of the admin endpoint. The
// real DetermineAdminAPIAddress picks the address `caddy stop|reload|…` would talk to, the config is
// started with the real caddy.Load, and the real AdminAPIRequest sends GET /config/ over the network.
// The free TCP port is written PORT in the line and substituted here.

var cliErr = regexp.MustCompile(`HTTP (\d+): (.*)$`)

func cliParse(s string) (network, host string, port uint, ok bool) {
	a, err := caddy.ParseNetworkAddress(s)
	if err != nil || a.PortRangeSize() != 1 {
		return "", "", 0, false
	}
	return a.Network, a.Host, a.StartPort, true
}

func (p *prop) runCli(f []string) core.Outcome {
	bad := core.Outcome{Impl: "bad-op", Tags: []string{"bad-op", "trivial"}}
	if len(f) != 5 {
		return bad
	}
	flag, e1 := core.UnHex(f[1])
	cfgl := ""
	var e2 error
	if f[2] != "~" {
		cfgl, e2 = core.UnHex(f[2])
	}
	dummy := "req L 3a30:n " + f[3] + " " + f[4] + " ~ . . 474554 78 2f . -:1:-:- -:1:-:- ~"
	c, ok := parseCase(dummy)
	if e1 != nil || e2 != nil || !ok {
		return bad
	}
	for _, s := range []string{flag, cfgl} {
		for i := 0; i < len(s); i++ {
			if s[i] < 32 || s[i] > 126 || s[i] == '{' {
				return bad
			}
		}
	}
	admin := map[string]any{"config": map[string]any{"persist": false}}
	if cfgl != "" {
		admin["listen"] = cfgl
	}
	if !c.originsNil {
		os := []string{}
		for _, u := range c.origins {
			os = append(os, u.raw)
		}
		admin["origins"] = os
	}
	if c.eo {
		admin["enforce_origin"] = true
	}
	var base map[string]any
	json.Unmarshal([]byte(baseCfg), &base)
	base["admin"] = admin
	cfgJSON, _ := json.Marshal(base)

	// the address the CLI would use: the REAL resolution, on the config as written (PORT symbolic)
	adminAddr, err := caddycmd.DetermineAdminAPIAddress(flag, cfgJSON, "caddy.json", "")
	if err != nil {
		return core.Outcome{Impl: "unclassified:determine", Tags: []string{"op:cli"}}
	}
	serverListen := cfgl
	if serverListen == "" {
		serverListen = defaultLocalListen
	}
	port := strconv.Itoa(freePort())
	subst := func(s string) string { return strings.ReplaceAll(s, "PORT", port) }
	model := func(s string) string { return strings.ReplaceAll(s, "PORT", "2019") }
	sn, sh, sp, ok := cliParse(model(serverListen))
	bindable := ok && (sn == "tcp" && sp == 2019 && contains([]string{"127.0.0.1", "localhost", "127.0.0.2"}, sh) ||
		sn == "unix" && (sh == "c13-cli.sock" || sh == "c13-default.sock"))
	if !bindable {
		return bad
	}
	same := adminAddr == serverListen
	if an, ah, ap, ok := cliParse(model(adminAddr)); !ok {
		same = true
	} else if an == "tcp" && sn == "tcp" && ap == sp && contains([]string{"127.0.0.1", "localhost"}, ah) && contains([]string{"127.0.0.1", "localhost"}, sh) {
		same = true
	}
	if !same {
		return bad
	}
	out := core.Outcome{Tags: []string{"op:cli"}}
	// oracle 1: --address beats the config beats the default
	want := flag
	if want == "" {
		want = cfgl
	}
	if want == "" {
		want = defaultLocalListen
	}
	if adminAddr != want {
		out.Failures = append(out.Failures, core.Failure{Class: "cli-admin-address-resolution",
			What: fmt.Sprintf("DetermineAdminAPIAddress(--address %q, config with admin.listen %q) = %q, expected %q", flag, cfgl, adminAddr, want)})
	}
	// start the endpoint of that config for real and let the real CLI request code talk to it
	curPats = nil
	var final map[string]any
	json.Unmarshal(cfgJSON, &final)
	if cfgl != "" {
		final["admin"].(map[string]any)["listen"] = subst(cfgl)
	}
	if os, ok := final["admin"].(map[string]any)["origins"].([]any); ok {
		for i := range os {
			os[i] = subst(os[i].(string))
		}
	}
	started, _ := json.Marshal(final)
	if err := caddy.Load(started, true); err != nil {
		panic("cli op: caddy.Load failed: " + err.Error())
	}
	defer func() {
		if err := caddy.Load([]byte(baseCfg), true); err != nil {
			panic("restoring base config: " + err.Error())
		}
		// the stop of this case's admin server is asynchronous; a unix socket path is shared by
		// consecutive cases (the old server may still accept on it, and unlinks the path when its
		// listener closes): wait until it is really gone before the next case starts (harness
		// synchronisation only — no outcome is read here)
		if sn == "unix" {
			for deadline := time.Now().Add(5 * time.Second); time.Now().Before(deadline); time.Sleep(5 * time.Millisecond) {
				conn, derr := net.DialTimeout("unix", sh, time.Second)
				if derr == nil {
					conn.Close()
					continue
				}
				if _, serr := os.Stat(sh); serr != nil {
					break
				}
			}
		}
	}()
	outcome := ""
	resp, err := caddycmd.AdminAPIRequest(subst(adminAddr), http.MethodGet, "/config/", nil, nil)
	switch {
	case err == nil:
		resp.Body.Close()
		outcome = "served"
	case strings.HasPrefix(err.Error(), "invalid admin address"):
		outcome = "invalid-address"
	default:
		outcome = "unclassified:" + err.Error()
		if m := cliErr.FindStringSubmatch(strings.TrimSpace(err.Error())); m != nil {
			code, _ := strconv.Atoi(m[1])
			if why := classifyRefusal(code, []byte(m[2])); why != "" {
				outcome = "refused:" + why
			}
		}
	}
	out.Impl = core.Hex(adminAddr) + " " + outcome
	out.Tags = append(out.Tags, "cli:"+strings.SplitN(outcome, ":", 2)[0])
	// oracle 2: the CLI is served only if what it sends is allowed by the endpoint's own spec
	if outcome == "served" {
		var mo []urlT
		for _, u := range c.origins {
			mo = append(mo, urlTable(model(u.raw)))
		}
		cc := &acase{listen: model(serverListen), originsNil: c.originsNil, origins: mo, eo: c.eo}
		s := specOf(cc)
		an, ah, ap, _ := cliParse(model(adminAddr))
		if s.known && s.specific && an == "tcp" {
			host := netJoin(ah, ap)
			if !contains(s.allowedHosts, host) {
				out.Failures = append(out.Failures, core.Failure{Class: "host-gate-bypassed:cli",
					What: fmt.Sprintf("the CLI's request with Host %q was served by the endpoint on %q whose allowed origins are %q", host, serverListen, s.allowedHosts)})
			}
		}
	}
	return out
}

func netJoin(h string, p uint) string {
	if strings.Contains(h, ":") {
		return "[" + h + "]:" + strconv.Itoa(int(p))
	}
	return h + ":" + strconv.Itoa(int(p))
}

var cliListens = []string{"127.0.0.1:PORT", "localhost:PORT", "127.0.0.2:PORT", "unix/c13-cli.sock", "", "tcp/127.0.0.1:PORT", "127.0.0.1:0PORT"}

func genCli(rng *core.Rand) string {
	cfgl := rng.Pick(cliListens)
	flag := ""
	switch rng.Intn(6) {
	case 0:
		flag = cfgl
	case 1:
		if strings.Contains(cfgl, "PORT") && !strings.Contains(cfgl, "127.0.0.2") {
			flag = rng.Pick([]string{"localhost:PORT", "127.0.0.1:PORT", "tcp/localhost:PORT"})
		}
	case 2:
		if cfgl == "" {
			flag = defaultLocalListen
		}
	}
	origins := "~"
	switch rng.Intn(6) {
	case 0:
		origins = "."
	case 1:
		origins = urlTable("127.0.0.1:PORT").enc()
	case 2:
		origins = urlTable("example.com").enc() + ";" + urlTable("http://localhost:PORT").enc()
	}
	l := "~"
	if cfgl != "" {
		l = core.Hex(cfgl)
	}
	return fmt.Sprintf("cli %s %s %s %d", core.Hex(flag), l, origins, rng.Intn(2))
}
