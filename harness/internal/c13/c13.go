// Package c13: the admin endpoint's request gate (admin.go) — correspondence cases against the
// REAL adminHandler (built by the verif hook caddy.VerifAdminHandler from a real AdminConfig) and
// an implementation-only oracle that restates the property in Go: a request that the property says
// must be refused (foreign Host on a specific address, missing / foreign Origin under
// enforce_origin, websocket upgrade, unlisted or under-privileged client key on the remote
// endpoint) must get a refusal, must not reach a probe route and must leave the config unchanged.
package c13

import (
	"bytes"
	"context"
	"crypto/ed25519"
	"crypto/tls"
	"crypto/x509"
	"crypto/x509/pkix"
	"encoding/base64"
	"encoding/json"
	"fmt"
	"io"
	"math/big"
	"net"
	"net/http"
	"net/http/httptest"
	"net/netip"
	"net/url"
	"os"
	"path"
	"regexp"
	rpprof "runtime/pprof"
	"sort"
	"strconv"
	"strings"
	"sync"
	"time"

	"github.com/caddyserver/caddy/v2"

	"verif/harness/internal/core"
)

const (
	nKeys   = 8
	maxHops = 16
	// the harness's replacement for caddy.DefaultAdminListen (same constant in Driver.lean)
	defaultLocalListen = "unix/c13-default.sock"
)

// ---------------------------------------------------------------- probe modules

// probeApp is a do-nothing app that accepts any JSON, so that /config/ has something to read and
// mutate.
type probeApp struct{ raw json.RawMessage }

func (probeApp) CaddyModule() caddy.ModuleInfo {
	return caddy.ModuleInfo{ID: "verifprobe", New: func() caddy.Module { return new(probeApp) }}
}
func (p *probeApp) UnmarshalJSON(b []byte) error { p.raw = append([]byte(nil), b...); return nil }
func (probeApp) Start() error                    { return nil }
func (probeApp) Stop() error                     { return nil }

// probeRouter is an admin.api module; its route table is whatever the current case says.
type probeRouter struct{}

var (
	curPats []string // patterns the probe router registers for the handler being built
	hits    int      // invocations of probe handlers during the current request
	hitLog  []string // "<pattern> <path>" per invocation
)

func (probeRouter) CaddyModule() caddy.ModuleInfo {
	return caddy.ModuleInfo{ID: "admin.api.verifprobe", New: func() caddy.Module { return new(probeRouter) }}
}

func (probeRouter) Routes() []caddy.AdminRoute {
	var out []caddy.AdminRoute
	for _, p := range curPats {
		pat := p
		out = append(out, caddy.AdminRoute{Pattern: pat, Handler: caddy.AdminHandlerFunc(func(w http.ResponseWriter, r *http.Request) error {
			hits++
			hitLog = append(hitLog, pat+" "+r.URL.Path)
			w.WriteHeader(200)
			return nil
		})})
	}
	return out
}

// ---------------------------------------------------------------- process-wide setup

type prop struct {
	dir    string
	certs  []*x509.Certificate
	privs  []ed25519.PrivateKey
	b64    []string
	open   http.Handler // handler without any enforcement, used to read the config back
	base   string       // canonical JSON of the base config as GET /config/ returns it
	inited bool
	mu     sync.Mutex
}

func New() core.Prop { return &prop{} }

func (*prop) ID() string { return "C13" }

const baseCfg = `{"admin":{"disabled":true,"config":{"persist":false}},` +
	`"logging":{"logs":{"default":{"writer":{"output":"discard"}}}},` +
	`"apps":{"verifprobe":{"@id":"app","n":1,"list":[{"@id":"item0","v":0},{"v":1}],"sub":{"@id":"sub","k":"v"}}}}`

func (p *prop) init() {
	if p.inited {
		return
	}
	p.inited = true
	os.MkdirAll("/verif/.run", 0o755)
	dir, err := os.MkdirTemp("/verif/.run", "c13-")
	if err != nil {
		panic(err)
	}
	p.dir = dir
	os.Setenv("XDG_DATA_HOME", dir+"/data")
	os.Setenv("XDG_CONFIG_HOME", dir+"/config")
	os.Setenv("HOME", dir)
	// a config without an "admin" section must never open localhost:2019 from inside the harness
	// (relative unix socket paths of the protocol live in the private directory)
	if err := os.Chdir(dir); err != nil {
		panic(err)
	}
	caddy.DefaultAdminListen = defaultLocalListen
	// the environment placeholders in `listen` may refer to (same table in Driver.lean)
	for _, e := range os.Environ() {
		if strings.HasPrefix(e, "C13_") {
			os.Unsetenv(strings.SplitN(e, "=", 2)[0])
		}
	}
	for k, v := range map[string]string{"C13_HOST": "localhost", "C13_IP": "192.168.1.5", "C13_PORT": "2019",
		"C13_WILD": "0.0.0.0", "C13_EMPTY": "", "C13_BRACE": "{env.C13_HOST}"} {
		os.Setenv(k, v)
	}
	caddy.ConfigAutosavePath = dir + "/autosave.json"
	caddy.RegisterModule(probeApp{})
	caddy.RegisterModule(probeRouter{})
	for i := 0; i < nKeys; i++ {
		seed := bytes.Repeat([]byte{byte(i + 1)}, ed25519.SeedSize)
		priv := ed25519.NewKeyFromSeed(seed)
		tmpl := &x509.Certificate{SerialNumber: big.NewInt(int64(i + 1)), Subject: pkix.Name{CommonName: "k" + strconv.Itoa(i)},
			NotBefore: time.Unix(0, 0), NotAfter: time.Unix(4000000000, 0)}
		der, err := x509.CreateCertificate(nil, tmpl, tmpl, priv.Public(), priv)
		if err != nil {
			panic(err)
		}
		c, err := x509.ParseCertificate(der)
		if err != nil {
			panic(err)
		}
		p.certs = append(p.certs, c)
		p.privs = append(p.privs, priv)
		p.b64 = append(p.b64, base64.StdEncoding.EncodeToString(der))
	}
	// routes contributed by the real admin.api modules linked into this binary (through the
	// Caddyfile adapter's imports); Driver.lean lists the same patterns as `linkedModulePats`
	var linked []string
	for _, m := range caddy.GetModules("admin.api") {
		if m.ID == "admin.api.verifprobe" {
			continue
		}
		for _, r := range m.New().(caddy.AdminRouter).Routes() {
			linked = append(linked, r.Pattern)
		}
	}
	sort.Strings(linked)
	if strings.Join(linked, " ") != strings.Join(linkedModulePats, " ") {
		panic(fmt.Sprintf("admin.api routes linked into the harness are %q, the model expects %q", linked, linkedModulePats))
	}
	if err := caddy.Load([]byte(baseCfg), true); err != nil {
		panic("loading base config: " + err.Error())
	}
	// keep the CPU profiler busy: /debug/pprof/profile then answers at once ("already in use")
	// instead of spending 200 ms per request in Start/StopCPUProfile
	rpprof.StartCPUProfile(io.Discard)
	p.open, err = caddy.VerifAdminHandler(&caddy.AdminConfig{}, caddy.NetworkAddress{Network: "unix", Host: dir + "/none.sock"}, false)
	if err != nil {
		panic(err)
	}
	p.base = p.readConfig()
}

// Finish removes the private directory.
func (p *prop) Finish(*core.Session) {
	if p.dir != "" {
		caddy.Stop()
		os.RemoveAll(p.dir)
	}
}

func (p *prop) readConfig() string {
	rec := httptest.NewRecorder()
	p.open.ServeHTTP(rec, mkReq("GET", "verif", "/config/", nil, nil))
	return strings.TrimSpace(rec.Body.String())
}

func mkReq(method, host, pth string, hdr http.Header, cs *tls.ConnectionState) *http.Request {
	if hdr == nil {
		hdr = http.Header{}
	}
	var body = http.NoBody
	r := &http.Request{Method: method, URL: &url.URL{Path: pth}, Proto: "HTTP/1.1", ProtoMajor: 1, ProtoMinor: 1,
		Header: hdr, Host: host, RequestURI: pth, RemoteAddr: "127.0.0.1:50000", Body: body, TLS: cs}
	if method == "POST" || method == "PUT" || method == "PATCH" {
		hdr.Set("Content-Type", "application/json")
		r.Body = readCloser{strings.NewReader("7")}
	}
	// pprof's profile/trace handlers sleep until the duration is over or the request context is
	// done: hand them a request whose client has already gone away
	ctx, cancel := context.WithCancel(context.Background())
	cancel()
	return r.WithContext(ctx)
}

type readCloser struct{ *strings.Reader }

func (readCloser) Close() error { return nil }

// ---------------------------------------------------------------- the case

type urlT struct {
	raw, scheme, host string
	ok                bool
}

type perm struct {
	methods, paths       []string
	methodsNil, pathsNil bool
}

type access struct {
	keys  []int
	perms []perm
}

type acase struct {
	remote             bool
	load               bool // drive the case through caddy.Load instead of the hook
	mayStop            bool // POST that can end at /stop: run with the exiting flag set
	listen             string
	ipc                string
	originsNil         bool
	origins            []urlT
	eo                 bool
	aclNil             bool
	acl                []access
	pats               []string
	idxKeys, idxVals   []string
	method, host, path string
	upg                []string
	origin, referer    urlT
	tlsNil             bool
	chains             [][]int
}

func hexList(xs []string, sep string) string {
	if len(xs) == 0 {
		return "."
	}
	var o []string
	for _, x := range xs {
		o = append(o, core.Hex(x))
	}
	return strings.Join(o, sep)
}

func b01(b bool) string {
	if b {
		return "1"
	}
	return "0"
}

func (u urlT) enc() string {
	return core.Hex(u.raw) + ":" + b01(u.ok) + ":" + core.Hex(u.scheme) + ":" + core.Hex(u.host)
}

func optHexList(xs []string, isNil bool) string {
	if isNil {
		return "~"
	}
	return hexList(xs, ",")
}

func ints(xs []int) string {
	if len(xs) == 0 {
		return "."
	}
	var o []string
	for _, x := range xs {
		o = append(o, strconv.Itoa(x))
	}
	return strings.Join(o, ",")
}

func (c *acase) line() string {
	var f []string
	if c.load {
		f = append(f, "load")
	} else {
		f = append(f, "req")
	}
	if c.remote {
		f = append(f, "R")
	} else {
		f = append(f, "L")
	}
	f = append(f, core.Hex(c.listen)+":"+c.ipc)
	switch {
	case c.originsNil:
		f = append(f, "~")
	case len(c.origins) == 0:
		f = append(f, ".")
	default:
		var o []string
		for _, u := range c.origins {
			o = append(o, u.enc())
		}
		f = append(f, strings.Join(o, ";"))
	}
	f = append(f, b01(c.eo))
	switch {
	case c.aclNil:
		f = append(f, "~")
	case len(c.acl) == 0:
		f = append(f, ".")
	default:
		var o []string
		for _, a := range c.acl {
			ps := "."
			if len(a.perms) > 0 {
				var pp []string
				for _, p := range a.perms {
					pp = append(pp, optHexList(p.methods, p.methodsNil)+"|"+optHexList(p.paths, p.pathsNil))
				}
				ps = strings.Join(pp, "+")
			}
			o = append(o, ints(a.keys)+"/"+ps)
		}
		f = append(f, strings.Join(o, ";"))
	}
	f = append(f, hexList(c.pats, ","))
	if len(c.idxKeys) == 0 {
		f = append(f, ".")
	} else {
		var o []string
		for i := range c.idxKeys {
			o = append(o, core.Hex(c.idxKeys[i])+":"+core.Hex(c.idxVals[i]))
		}
		f = append(f, strings.Join(o, ";"))
	}
	f = append(f, core.Hex(c.method), core.Hex(c.host), core.Hex(c.path), hexList(c.upg, ","), c.origin.enc(), c.referer.enc())
	switch {
	case c.tlsNil:
		f = append(f, "~")
	case len(c.chains) == 0:
		f = append(f, ".")
	default:
		var o []string
		for _, ch := range c.chains {
			o = append(o, ints(ch))
		}
		f = append(f, strings.Join(o, ";"))
	}
	return strings.Join(f, " ")
}

// ---- parsing (mirrors Driver.lean; anything else is bad-op)

func unhexList(s, sep string) ([]string, bool) {
	if s == "." {
		return nil, true
	}
	var out []string
	for _, x := range strings.Split(s, sep) {
		v, err := core.UnHex(x)
		if err != nil {
			return nil, false
		}
		out = append(out, v)
	}
	return out, true
}

func parseBool(s string) (bool, bool) {
	switch s {
	case "0":
		return false, true
	case "1":
		return true, true
	}
	return false, false
}

func parseURLT(s string) (urlT, bool) {
	a := strings.Split(s, ":")
	if len(a) != 4 {
		return urlT{}, false
	}
	raw, e1 := core.UnHex(a[0])
	ok, e2 := parseBool(a[1])
	sc, e3 := core.UnHex(a[2])
	h, e4 := core.UnHex(a[3])
	if e1 != nil || !e2 || e3 != nil || e4 != nil {
		return urlT{}, false
	}
	return urlT{raw: raw, ok: ok, scheme: sc, host: h}, true
}

func parseNat(s string) (int, bool) {
	if s == "" || len(s) > 9 {
		return 0, false
	}
	for _, c := range s {
		if c < '0' || c > '9' {
			return 0, false
		}
	}
	n, _ := strconv.Atoi(s)
	return n, true
}

func parseInts(s string) ([]int, bool) {
	if s == "." {
		return nil, true
	}
	var out []int
	for _, x := range strings.Split(s, ",") {
		n, ok := parseNat(x)
		if !ok {
			return nil, false
		}
		out = append(out, n)
	}
	return out, true
}

func allLt(xs []int, n int) bool {
	for _, x := range xs {
		if x >= n {
			return false
		}
	}
	return true
}

func parseCase(line string) (*acase, bool) {
	f := strings.Fields(line)
	if len(f) != 15 || f[0] != "req" && f[0] != "load" {
		return nil, false
	}
	c := &acase{load: f[0] == "load"}
	switch f[1] {
	case "L":
	case "R":
		c.remote = true
	default:
		return nil, false
	}
	a := strings.Split(f[2], ":")
	if len(a) != 2 {
		return nil, false
	}
	var e1 error
	c.listen, e1 = core.UnHex(a[0])
	if e1 != nil || len(a[1]) != 1 || !strings.Contains("nulo", a[1]) {
		return nil, false
	}
	c.ipc = a[1]
	switch f[3] {
	case "~":
		c.originsNil = true
	case ".":
	default:
		for _, e := range strings.Split(f[3], ";") {
			u, ok := parseURLT(e)
			if !ok {
				return nil, false
			}
			c.origins = append(c.origins, u)
		}
	}
	var ok bool
	if c.eo, ok = parseBool(f[4]); !ok {
		return nil, false
	}
	switch f[5] {
	case "~":
		c.aclNil = true
	case ".":
	default:
		for _, e := range strings.Split(f[5], ";") {
			kp := strings.Split(e, "/")
			if len(kp) != 2 {
				return nil, false
			}
			var ac access
			if ac.keys, ok = parseInts(kp[0]); !ok || !allLt(ac.keys, nKeys) {
				return nil, false
			}
			if kp[1] != "." {
				for _, ps := range strings.Split(kp[1], "+") {
					mp := strings.Split(ps, "|")
					if len(mp) != 2 {
						return nil, false
					}
					var pm perm
					if mp[0] == "~" {
						pm.methodsNil = true
					} else if pm.methods, ok = unhexList(mp[0], ","); !ok {
						return nil, false
					}
					if mp[1] == "~" {
						pm.pathsNil = true
					} else if pm.paths, ok = unhexList(mp[1], ","); !ok {
						return nil, false
					}
					ac.perms = append(ac.perms, pm)
				}
			}
			c.acl = append(c.acl, ac)
		}
	}
	if c.pats, ok = unhexList(f[6], ","); !ok {
		return nil, false
	}
	if f[7] != "." {
		for _, e := range strings.Split(f[7], ";") {
			kv := strings.Split(e, ":")
			if len(kv) != 2 {
				return nil, false
			}
			k, e1 := core.UnHex(kv[0])
			v, e2 := core.UnHex(kv[1])
			if e1 != nil || e2 != nil {
				return nil, false
			}
			c.idxKeys = append(c.idxKeys, k)
			c.idxVals = append(c.idxVals, v)
		}
	}
	var e error
	if c.method, e = core.UnHex(f[8]); e != nil {
		return nil, false
	}
	if c.host, e = core.UnHex(f[9]); e != nil {
		return nil, false
	}
	if c.path, e = core.UnHex(f[10]); e != nil {
		return nil, false
	}
	if c.upg, ok = unhexList(f[11], ","); !ok {
		return nil, false
	}
	if c.origin, ok = parseURLT(f[12]); !ok {
		return nil, false
	}
	if c.referer, ok = parseURLT(f[13]); !ok {
		return nil, false
	}
	switch f[14] {
	case "~":
		c.tlsNil = true
	case ".":
	default:
		for _, ch := range strings.Split(f[14], ";") {
			ks, ok := parseInts(ch)
			if !ok || len(ks) == 0 || !allLt(ks, nKeys) {
				return nil, false
			}
			c.chains = append(c.chains, ks)
		}
	}
	return c, true
}

// ---- protocol domain (mirrors Driver.lean)

// patterns of the real admin.api modules linked into the harness (sorted)
var linkedModulePats = []string{"/adapt", "/load", "/pki/"}

var builtinPats = []string{"/config/", "/id/", "/stop", "/debug/pprof/", "/debug/pprof/cmdline", "/debug/pprof/profile",
	"/debug/pprof/symbol", "/debug/pprof/trace", "/debug/vars"}

func safeBytes(s string) bool {
	for i := 0; i < len(s); i++ {
		b := s[i]
		if !(b >= '0' && b <= '9' || b >= 'A' && b <= 'Z' || b >= 'a' && b <= 'z' || b == '/' || b == '.' || b == '_' || b == '-' || b == '~') {
			return false
		}
	}
	return true
}

// isCleanPath: the mux serves p itself (no 301 to a cleaned path)
func isCleanPath(p string) bool {
	if p == "" || p[0] != '/' {
		return false
	}
	segs := strings.Split(p[1:], "/")
	for i, s := range segs {
		last := i == len(segs)-1
		if s == "" && last {
			continue
		}
		if s == "" || s == "." || s == ".." {
			return false
		}
	}
	return true
}

func contains(xs []string, x string) bool {
	for _, y := range xs {
		if x == y {
			return true
		}
	}
	return false
}

func distinct(xs []string) bool {
	for i := range xs {
		if contains(xs[i+1:], xs[i]) {
			return false
		}
	}
	return true
}

// idChain: the paths handleConfigID would produce from p, ignoring gate and mux; ok=false when
// longer than maxHops.
func idChain(keys, vals []string, p string) ([]string, bool) {
	chain := []string{p}
	for hop := 0; ; hop++ {
		parts := strings.Split(p, "/")
		if len(parts) < 3 || parts[2] == "" || parts[0] != "" || parts[1] != "id" {
			return chain, true
		}
		exp, found := "", false
		for i, k := range keys {
			if k == parts[2] {
				exp, found = vals[i], true
				break
			}
		}
		if !found {
			return chain, true
		}
		if hop >= maxHops {
			return nil, false
		}
		p = path.Join(append([]string{exp}, parts[3:]...)...)
		if p == "/config" {
			p += "/"
		}
		chain = append(chain, p)
	}
}

func asciiLower(s string) string {
	b := []byte(s)
	for i, c := range b {
		if c >= 'A' && c <= 'Z' {
			b[i] = c + 32
		}
	}
	return string(b)
}

func isASCII(s string) bool {
	for i := 0; i < len(s); i++ {
		if s[i] >= 0x80 {
			return false
		}
	}
	return true
}

func alphaOnly(s string) bool {
	if s == "" {
		return false
	}
	for i := 0; i < len(s); i++ {
		if !(s[i] >= 'A' && s[i] <= 'Z' || s[i] >= 'a' && s[i] <= 'z') {
			return false
		}
	}
	return true
}

// inDomain returns "" when the case may be run, else the answer to print.
func (c *acase) inDomain() string {
	for i := 0; i < len(c.listen); i++ {
		if b := c.listen[i]; b < 32 || b > 126 {
			return "bad-op" // ToLower/TrimSpace are only modelled on printable ASCII
		}
	}
	// placeholders: only the harness's own environment variables; host name, working directory,
	// clock and file providers are outside the protocol
	if strings.Contains(c.listen, "system.") || strings.Contains(c.listen, "time.") || strings.Contains(c.listen, "file.") {
		return "bad-op"
	}
	for i := 0; i < len(c.listen); i++ {
		if strings.HasPrefix(c.listen[i:], "env.") && !strings.HasPrefix(c.listen[i:], "env.C13_") {
			return "bad-op"
		}
	}
	for _, u := range c.upg {
		if !isASCII(u) {
			return "bad-op" // strings.ToLower is only modelled on ASCII
		}
	}
	for _, p := range c.pats {
		if !safeBytes(p) || !isCleanPath(p) || contains(builtinPats, p) || contains(linkedModulePats, p) {
			return "bad-op"
		}
	}
	if !distinct(c.pats) || !distinct(c.idxKeys) {
		return "bad-op"
	}
	for _, v := range c.idxVals {
		if !safeBytes(v) {
			return "bad-op" // rewritten paths stay in the mux's unescaped alphabet
		}
	}
	if !alphaOnly(c.method) {
		return "bad-op"
	}
	if c.path == "" || c.path[0] != '/' || !safeBytes(c.path) {
		return "bad-op"
	}
	chain, ok := idChain(c.idxKeys, c.idxVals, c.path)
	if !ok {
		return "too-many-redirects"
	}
	if c.method == "CONNECT" {
		for _, q := range chain {
			if q != "" && q[0] != '/' {
				return "bad-op" // CONNECT on a path that lost its leading slash: slash counting of the routing tree is not modelled
			}
		}
	}
	c.mayStop = c.method == "POST" && contains(chain, "/stop")
	return ""
}

// ---- tables: what the standard library says (the model receives these with the case)

func urlTable(raw string) urlT {
	u, err := url.Parse(raw)
	if err != nil {
		return urlT{raw: raw}
	}
	return urlT{raw: raw, ok: true, scheme: u.Scheme, host: u.Host}
}

func ipClass(host string) string {
	ip, err := netip.ParseAddr(host)
	switch {
	case err != nil:
		return "n"
	case ip.IsUnspecified():
		return "u"
	case ip.IsLoopback():
		return "l"
	}
	return "o"
}

// tablesOK checks every table of the case against the real parsers.
func (c *acase) tablesOK(addr caddy.NetworkAddress) (caddy.NetworkAddress, bool) {
	if ipClass(addr.Host) != c.ipc {
		return addr, false
	}
	for _, o := range c.origins {
		if strings.Contains(o.raw, "://") && urlTable(o.raw) != o {
			return addr, false
		}
	}
	if urlTable(c.origin.raw) != c.origin || urlTable(c.referer.raw) != c.referer {
		return addr, false
	}
	return addr, true
}

// ---------------------------------------------------------------- running one case on the real code

type obs struct {
	extra   []core.Failure // failures noticed while setting the case up (load op)
	final   string         // as printed
	refused bool
	status  int
	pattern string
	path    string
	cors    int
	hits    int
	hitLog  []string
}

func classifyRefusal(status int, body []byte) string {
	var e struct {
		Error string `json:"error"`
	}
	if json.Unmarshal(body, &e) != nil {
		return ""
	}
	m := e.Error
	switch {
	case status == 403 && m == "not authorized to use this method":
		return "acl-method"
	case status == 403 && m == "not authorized to access this path":
		return "acl-path"
	case status == 401 && m == "client identity not authorized":
		return "acl-identity"
	case status == 500 && m == "websocket connections aren't allowed":
		return "websocket"
	case status == 403 && strings.HasPrefix(m, "host not allowed"):
		return "host"
	case status == 403 && m == "required Origin header is missing or invalid":
		return "origin-missing"
	case status == 403 && strings.HasPrefix(m, "client is not allowed to access from origin"):
		return "origin-denied"
	}
	return ""
}

// inDomainAddr: the domain conditions that need the parsed address (mirrors Driver.lean)
func (c *acase) inDomainAddr(addr caddy.NetworkAddress) string {
	if strings.HasPrefix(addr.Network, "unix") {
		if i := strings.Index(addr.Host, "|"); i >= 0 && len(addr.Host)-i-1 > 6 {
			return "bad-op" // permission bits are modelled up to 6 octal digits
		}
	}
	if c.load {
		tcpOK := addr.Network == "tcp" && addr.StartPort == 0 && contains([]string{"localhost", "127.0.0.1", "127.0.0.2", "", "0.0.0.0"}, addr.Host)
		unixOK := addr.Network == "unix" && (strings.HasPrefix(addr.Host, "c13-load") || addr.Host == "c13-default.sock")
		if !tcpOK && !unixOK {
			return "bad-op" // not bindable from inside the harness
		}
		if c.remote && c.aclNil {
			return "bad-op" // no remote endpoint is started without admin.remote
		}
	}
	return ""
}

// configJSON renders the case as the JSON config a user would write.
func (p *prop) configJSON(c *acase) []byte {
	admin := map[string]any{"config": map[string]any{"persist": false}}
	if !c.originsNil {
		os := []string{}
		for _, u := range c.origins {
			os = append(os, u.raw)
		}
		admin["origins"] = os
	}
	if c.eo {
		admin["enforce_origin"] = true
	}
	if !c.remote {
		if c.listen != "" {
			admin["listen"] = c.listen
		}
	} else {
		loadSeq++
		admin["listen"] = fmt.Sprintf("unix/c13-local-%d.sock", loadSeq)
		admin["identity"] = map[string]any{"issuers": []any{}}
	}
	if !c.aclNil {
		acl := []any{}
		for _, a := range c.acl {
			aa := map[string]any{}
			keys := []string{}
			for _, k := range a.keys {
				keys = append(keys, p.b64[k])
			}
			aa["public_keys"] = keys
			if len(a.perms) > 0 {
				perms := []any{}
				for _, pm := range a.perms {
					ap := map[string]any{}
					if !pm.methodsNil {
						ap["methods"] = append([]string{}, pm.methods...)
					}
					if !pm.pathsNil {
						ap["paths"] = append([]string{}, pm.paths...)
					}
					perms = append(perms, ap)
				}
				aa["permissions"] = perms
			}
			acl = append(acl, aa)
		}
		remote := map[string]any{"access_control": acl}
		if c.remote && c.listen != "" {
			remote["listen"] = c.listen
		}
		if c.remote {
			admin["remote"] = remote
		}
	}
	var base map[string]any
	json.Unmarshal([]byte(baseCfg), &base)
	base["admin"] = admin
	if !c.remote && c.listen == "" && c.originsNil && !c.eo {
		// everything is the default: leave the whole "admin" object out, so that the
		// `cfg.Admin == nil` branch of replaceLocalAdminServer supplies it
		delete(base, "admin")
	}
	b, err := json.Marshal(base)
	if err != nil {
		panic(err)
	}
	return b
}

var loadSeq int

// execLoad drives the case through the real start-up path: the JSON config is decoded and run by
// caddy.Load, replaceLocalAdminServer / replaceRemoteAdminServer build the handler (real listen
// address parsing, real public-key extraction), and the request is sent to the handler installed in
// the running server. Returns the config as read back after the load (the state the request sees).
func (p *prop) execLoad(c *acase) (o obs, before string) {
	curPats = c.pats
	if err := caddy.Load(p.configJSON(c), true); err != nil {
		panic("load op: caddy.Load failed: " + err.Error())
	}
	h, tlsCfg := caddy.VerifRunningAdminHandler(c.remote)
	if h == nil {
		panic("load op: no running admin server")
	}
	before = p.readConfig()
	o = p.serve(c, h)
	if c.remote {
		if tlsCfg == nil || tlsCfg.ClientAuth != tls.RequireAndVerifyClientCert {
			o.extra = append(o.extra, core.Failure{Class: "remote-tls-not-mutual",
				What: "the remote admin server does not require and verify a client certificate"})
		} else {
			want := map[string]bool{}
			for _, a := range c.acl {
				for _, k := range a.keys {
					want[string(p.certs[k].RawSubject)] = true
				}
			}
			//nolint:staticcheck // Subjects is fine for a pool built from explicit certificates
			if got := len(tlsCfg.ClientCAs.Subjects()); got != len(want) {
				o.extra = append(o.extra, core.Failure{Class: "remote-client-ca-pool-differs",
					What: fmt.Sprintf("client CA pool has %d subjects, the access controls list %d distinct certificates", got, len(want))})
			}
		}
	}
	return o, before
}

func (p *prop) exec(c *acase, addr caddy.NetworkAddress) (o obs) {
	cfg := &caddy.AdminConfig{Listen: c.listen, EnforceOrigin: c.eo}
	if !c.originsNil {
		cfg.Origins = []string{}
		for _, u := range c.origins {
			cfg.Origins = append(cfg.Origins, u.raw)
		}
	}
	if !c.aclNil {
		cfg.Remote = &caddy.RemoteAdmin{AccessControl: []*caddy.AdminAccess{}}
		for _, a := range c.acl {
			aa := &caddy.AdminAccess{}
			for _, k := range a.keys {
				aa.PublicKeys = append(aa.PublicKeys, p.b64[k])
			}
			for _, pm := range a.perms {
				ap := caddy.AdminPermissions{}
				if !pm.methodsNil {
					ap.Methods = append([]string{}, pm.methods...)
				}
				if !pm.pathsNil {
					ap.Paths = append([]string{}, pm.paths...)
				}
				aa.Permissions = append(aa.Permissions, ap)
			}
			cfg.Remote.AccessControl = append(cfg.Remote.AccessControl, aa)
		}
	}
	curPats = c.pats
	h, err := caddy.VerifAdminHandler(cfg, addr, c.remote)
	if err != nil {
		panic(err)
	}
	o = p.serve(c, h)
	o.extra = append(o.extra, p.probeAllowed(c, h)...)
	return o
}

// probeAllowed asks the handler directly which Hosts / Origins it accepts, for a list of candidates
// an over-generous default or a sloppy comparison would let in, and compares with the allowed origins
// of the specification (oracle only; GET on a path nobody serves, so nothing can change).
func (p *prop) probeAllowed(c *acase, h http.Handler) (fs []core.Failure) {
	if c.remote || len(c.upg) > 0 {
		return nil
	}
	sum := 0
	for i := 0; i < len(c.listen); i++ {
		sum += int(c.listen[i])
	}
	if (sum+len(c.host)+len(c.path))%3 != 0 {
		return nil // a third of the cases
	}
	s := specOf(c)
	if !s.known {
		return nil
	}
	_, ahost, port, _ := specListen(c.listen, false)
	cands := []string{"0.0.0.0:" + port, "[::]:" + port, ":" + port, "localhost:" + port, "127.0.0.1:" + port, "[::1]:" + port,
		"localhost", "127.0.0.1", "localhost.:" + port, "ip6-localhost:" + port, "example.com", "evil.com:" + port, "",
		net.JoinHostPort(ahost, port), strings.ToUpper(net.JoinHostPort(ahost, port)), ahost, net.JoinHostPort(ahost, "80"), "*:" + port, "*"}
	for _, a := range s.allowed {
		cands = append(cands, a[1], a[1]+".", "x"+a[1], a[1]+":1")
	}
	accepted := func(host, origin string) bool {
		hdr := http.Header{}
		if origin != "" {
			hdr.Set("Origin", origin)
		}
		rec := httptest.NewRecorder()
		req := mkReq("GET", host, "/c13-allowed-probe", hdr, nil)
		func() {
			defer func() { recover() }()
			h.ServeHTTP(rec, req)
		}()
		return classifyRefusal(rec.Code, rec.Body.Bytes()) == ""
	}
	switch {
	case s.specific && !c.eo:
		for _, cand := range cands {
			if got, want := accepted(cand, ""), contains(s.allowedHosts, cand); got != want && got {
				fs = append(fs, core.Failure{Class: "host-gate-bypassed:probe",
					What: fmt.Sprintf("the endpoint on %q (allowed origins %q) accepts Host %q", c.listen, s.allowedHosts, cand)})
				return fs
			}
		}
	case c.eo && (!s.specific || len(s.allowedHosts) > 0):
		host := "x"
		if s.specific {
			host = s.allowedHosts[0]
		}
		for _, cand := range cands {
			origin := "http://" + cand
			u, err := url.Parse(origin)
			if err != nil || cand == "" {
				continue
			}
			want := false
			for _, a := range s.allowed {
				if (a[0] == "" || a[0] == "http") && a[1] == u.Host {
					want = true
				}
			}
			if got := accepted(host, origin); got && !want {
				fs = append(fs, core.Failure{Class: "origin-gate-bypassed:probe",
					What: fmt.Sprintf("the endpoint on %q (allowed origins %q) accepts Origin %q", c.listen, s.allowed, origin)})
				return fs
			}
		}
	}
	return fs
}

// serve sends the case's request to h and classifies what happened.
func (p *prop) serve(c *acase, h http.Handler) (o obs) {
	idx := map[string]string{}
	for i, k := range c.idxKeys {
		idx[k] = c.idxVals[i]
	}
	old := caddy.VerifSwapConfigIndex(idx)
	defer caddy.VerifSwapConfigIndex(old)

	hdr := http.Header{}
	for _, u := range c.upg {
		hdr.Add("Upgrade", u)
	}
	if c.origin.raw != "" {
		hdr.Set("Origin", c.origin.raw)
	}
	if c.referer.raw != "" {
		hdr.Set("Referer", c.referer.raw)
	}
	var cs *tls.ConnectionState
	if !c.tlsNil {
		cs = &tls.ConnectionState{HandshakeComplete: true}
		for _, ch := range c.chains {
			var certs []*x509.Certificate
			for _, k := range ch {
				certs = append(certs, p.certs[k])
			}
			cs.VerifiedChains = append(cs.VerifiedChains, certs)
		}
		// what the client PRESENTED is not what was VERIFIED: offer every certificate there, listed
		// ones included; only VerifiedChains may count
		cs.PeerCertificates = append(cs.PeerCertificates, p.certs...)
	}
	req := mkReq(c.method, c.host, c.path, hdr, cs)
	rec := httptest.NewRecorder()
	hits, hitLog = 0, nil
	panicked := false
	func() {
		defer func() {
			if r := recover(); r != nil {
				panicked = true
			}
		}()
		if c.mayStop {
			// the real /stop handler calls exitProcess, which does nothing when the process is
			// already marked as exiting: the handler is reached for real, the harness survives
			defer caddy.VerifSetExiting(caddy.VerifSetExiting(true))
		}
		h.ServeHTTP(rec, req)
	}()
	o.hits, o.hitLog = hits, hitLog
	o.status, o.pattern, o.path = rec.Code, req.Pattern, req.URL.Path
	if rec.Header().Get("Access-Control-Allow-Origin") != "" || len(rec.Header()["Access-Control-Allow-Origin"]) > 0 {
		o.cors = 1
		if rec.Header().Get("Access-Control-Allow-Methods") != "" {
			o.cors = 2
		}
	}
	// CORS headers (oracle): only on a local endpoint with enforce_origin, only echoing the
	// request's own origin (scheme://[user@]host, nothing else of it), never a wildcard; the
	// method/header/credential grants only on a preflight
	if acao := rec.Header()["Access-Control-Allow-Origin"]; len(acao) > 0 {
		raw := c.origin.raw
		if raw == "" {
			raw = c.referer.raw
		}
		want := "\x00unparsable"
		if u, err := url.Parse(raw); err == nil {
			u.Path, u.RawPath, u.Fragment, u.RawFragment, u.RawQuery = "", "", "", "", ""
			want = u.String()
		}
		switch {
		case c.remote || !c.eo:
			o.extra = append(o.extra, core.Failure{Class: "cors-header-without-origin-enforcement",
				What: fmt.Sprintf("Access-Control-Allow-Origin %q sent by an endpoint that does not enforce origins", acao)})
		case len(acao) != 1 || acao[0] != want || raw == "":
			o.extra = append(o.extra, core.Failure{Class: "cors-origin-not-echoed",
				What: fmt.Sprintf("Access-Control-Allow-Origin is %q for the request origin %q (expected %q)", acao, raw, want)})
		}
	}
	if len(rec.Header()["Access-Control-Allow-Methods"])+len(rec.Header()["Access-Control-Allow-Credentials"])+len(rec.Header()["Access-Control-Allow-Headers"]) > 0 &&
		(c.method != "OPTIONS" || len(rec.Header()["Access-Control-Allow-Origin"]) == 0) {
		o.extra = append(o.extra, core.Failure{Class: "cors-grants-outside-preflight",
			What: "Access-Control-Allow-Methods/-Headers/-Credentials on a response that is not an allowed OPTIONS preflight"})
	}
	why := classifyRefusal(rec.Code, rec.Body.Bytes())
	switch {
	case panicked:
		o.final = "panic"
	case why != "":
		o.final, o.refused = "refused:"+why, true
		if req.Pattern == "" && len(rec.Header()["Access-Control-Allow-Origin"]) > 0 {
			o.extra = append(o.extra, core.Failure{Class: "cors-header-on-refusal",
				What: "a request refused before any handler ran carries Access-Control-Allow-Origin"})
		}
	case rec.Code == 301:
		o.final = "mux-redirect"
	case req.Pattern == "" && rec.Code == 404:
		o.final = "mux-notfound"
	case req.Pattern == "/id/" && rec.Code == 400:
		o.final = "id-bad"
	case req.Pattern == "/id/" && rec.Code == 404:
		o.final = "id-unknown"
	case req.Pattern != "":
		o.final = "handled:" + core.Hex(req.Pattern)
	default:
		o.final = fmt.Sprintf("unclassified:%d", rec.Code)
	}
	return o
}

// ---------------------------------------------------------------- the property, restated over Go values (oracle)

type spec struct {
	known        bool     // the listen string is of the plain documented form
	specific     bool     // local endpoint bound to a specific address
	allowedHosts []string // hosts of the allowed origins
	allowed      [][2]string
}

// specListen reads a WELL-FORMED listen string the way the documentation describes it
// ("network/host:port", network optional, IPv6 hosts in brackets) — on purpose not via caddy's
// parser, so that a change there cannot move the oracle along with the code. ok=false: the
// string is not of the plain documented form and the oracle makes no Host claim for it.
var envPlaceholder = regexp.MustCompile(`\{env\.([A-Za-z0-9_]+)\}`)

// specExpand expands {env.NAME} placeholders the way the documentation describes (each one is
// replaced by the variable's value, once). mustFail: some placeholder expands to nothing — the
// listen address is then unusable and the endpoint must not start (above all it must not come up on
// the address with that part missing, e.g. ":2019"). ok=false: other placeholder syntax is
// present and the oracle makes no claim.
func specExpand(listen string) (out string, mustFail, ok bool) {
	out = envPlaceholder.ReplaceAllStringFunc(listen, func(m string) string {
		v := os.Getenv(envPlaceholder.FindStringSubmatch(m)[1])
		if v == "" {
			mustFail = true
		}
		return "\x00" + v + "\x00"
	})
	plain := strings.ReplaceAll(out, "\x00", "")
	rest := envPlaceholder.ReplaceAllString(listen, "")
	if strings.ContainsAny(rest, "{}\\") {
		return plain, false, false
	}
	return plain, mustFail, true
}

func specListen(listen string, remote bool) (network, host, port string, ok bool) {
	if strings.ContainsAny(listen, "{}\\") {
		exp, mustFail, okx := specExpand(listen)
		if !okx || mustFail || strings.ContainsAny(exp, "{}\\") {
			return
		}
		listen = exp
	}
	if listen == "" {
		if remote {
			listen = ":2021"
		} else {
			listen = defaultLocalListen
		}
	}
	network = "tcp"
	if i := strings.Index(listen, "/"); i >= 0 {
		if n := strings.ToLower(strings.TrimSpace(listen[:i])); n != "" {
			network = n
		}
		listen = listen[i+1:]
	}
	if strings.HasPrefix(network, "unix") || strings.HasPrefix(network, "fd") {
		return network, listen, "0", true
	}
	switch {
	case strings.HasPrefix(listen, "["):
		j := strings.Index(listen, "]")
		if j < 0 {
			return
		}
		host = listen[1:j]
		switch rest := listen[j+1:]; {
		case rest == "":
		case rest[0] == ':':
			port = rest[1:]
		default:
			return
		}
	case strings.Count(listen, ":") == 1:
		i := strings.Index(listen, ":")
		host, port = listen[:i], listen[i+1:]
	default: // no port: a name, an IPv4 address or a bare IPv6 address
		host = listen
	}
	if strings.ContainsAny(host, "[]/ ") {
		return
	}
	if port == "" {
		port = "0"
	}
	n, err := strconv.ParseUint(port, 10, 16)
	if err != nil {
		return
	}
	return network, host, strconv.FormatUint(n, 10), true
}

func specOf(c *acase) spec {
	var s spec
	network, ahost, port, okListen := specListen(c.listen, c.remote)
	s.known = okListen
	unixOrFd := strings.HasPrefix(network, "unix") || strings.HasPrefix(network, "fd")
	wild := ahost == ""
	loop := ahost == "localhost"
	if ip, err := netip.ParseAddr(ahost); err == nil {
		wild = wild || ip.IsUnspecified()
		loop = loop || ip.IsLoopback()
	}
	s.specific = okListen && !unixOrFd && !wild
	if !c.originsNil {
		for _, o := range c.origins {
			if strings.Contains(o.raw, "://") {
				u, err := url.Parse(o.raw)
				if err != nil {
					continue
				}
				s.allowed = append(s.allowed, [2]string{u.Scheme, u.Host})
			} else {
				s.allowed = append(s.allowed, [2]string{"", o.raw})
			}
		}
	} else if !unixOrFd {
		if loop {
			for _, h := range []string{"localhost", "::1", "127.0.0.1"} {
				s.allowed = append(s.allowed, [2]string{"", net.JoinHostPort(h, port)})
			}
		} else {
			s.allowed = append(s.allowed, [2]string{"", net.JoinHostPort(ahost, port)})
		}
	}
	for _, a := range s.allowed {
		s.allowedHosts = append(s.allowedHosts, a[1])
	}
	return s
}

func permAllows(pm perm, method, pth string) bool {
	if !pm.methodsNil && !contains(pm.methods, method) {
		return false
	}
	if pm.pathsNil {
		return true
	}
	for _, ap := range pm.paths {
		if strings.HasPrefix(pth, ap) {
			return true
		}
	}
	return false
}

// authorised: some presented key is listed in an ACL entry all of whose permissions allow (method, path)
func authorised(c *acase, pth string) (listed, ok bool) {
	for _, ch := range c.chains {
		for _, k := range ch {
			for _, a := range c.acl {
				in := false
				for _, ak := range a.keys {
					in = in || ak == k
				}
				if !in {
					continue
				}
				listed = true
				all := true
				for _, pm := range a.perms {
					all = all && permAllows(pm, c.method, pth)
				}
				if all {
					ok = true
				}
			}
		}
	}
	return
}

func (p *prop) oracle(c *acase, o obs, stateChanged bool) (fs []core.Failure, tags []string) {
	served := !o.refused && o.final != "panic"
	touched := served || o.hits > 0 || stateChanged
	fail := func(class, what string) {
		fs = append(fs, core.Failure{Class: class, What: fmt.Sprintf("%s (outcome %s, status %d, probe hits %d, config changed %v)", what, o.final, o.status, o.hits, stateChanged)})
	}
	// a refusal issued before any handler ran must leave no trace at all
	if o.refused && o.pattern == "" && (o.hits > 0 || stateChanged) {
		fail("refused-but-effect", "request was answered with a refusal but a handler ran or the config changed")
	}
	if !c.remote {
		s := specOf(c)
		// websocket upgrades are always refused: any Upgrade value, any ASCII casing
		ws := false
		for _, u := range c.upg {
			ws = ws || strings.Contains(asciiLower(u), "websocket")
		}
		if ws {
			tags = append(tags, "spec:websocket")
			if touched {
				fail("ws-upgrade-not-refused", fmt.Sprintf("websocket upgrade request (Upgrade values %q) was not refused", c.upg))
			} else if o.final != "refused:websocket" {
				fail("ws-upgrade-refusal-not-websocket", "websocket upgrade on a local endpoint was refused by another check than the websocket check")
			}
			return
		}
		if s.specific {
			tags = append(tags, "spec:specific-address")
			if !contains(s.allowedHosts, c.host) {
				tags = append(tags, "spec:foreign-host")
				if touched {
					fail("host-gate-bypassed", fmt.Sprintf("Host %q is not an allowed origin %q of the specific listen address %q, yet the request was not refused", c.host, s.allowedHosts, c.listen))
				}
				return
			}
		}
		if c.eo {
			tags = append(tags, "spec:enforce-origin")
			raw := c.origin.raw
			if raw == "" {
				raw = c.referer.raw
			}
			if raw == "" {
				tags = append(tags, "spec:origin-missing")
				if touched {
					fail("origin-missing-accepted", "request without Origin/Referer passed origin enforcement")
				}
				return
			}
			okOrigin := false
			if u, err := url.Parse(raw); err == nil {
				for _, a := range s.allowed {
					if (a[0] == "" || a[0] == u.Scheme) && a[1] == u.Host {
						okOrigin = true
					}
				}
			}
			if !okOrigin && (s.known || !c.originsNil) {
				tags = append(tags, "spec:foreign-origin")
				if touched {
					fail("origin-gate-bypassed", fmt.Sprintf("Origin/Referer %q is not an allowed origin %q, yet the request was not refused", raw, s.allowed))
				}
				return
			}
		}
		return
	}
	// remote endpoint
	if c.aclNil {
		return
	}
	if c.tlsNil {
		if touched {
			fail("remote-served-without-tls", "remote endpoint served a request without a TLS connection state")
		}
		return
	}
	listed, ok1 := authorised(c, c.path)
	_, ok2 := authorised(c, o.path)
	switch {
	case !listed:
		tags = append(tags, "spec:unlisted-identity")
		if touched {
			fail("remote-unlisted-key-served", "no presented certificate carries a listed public key, yet the request was not refused")
		}
	case !ok1:
		tags = append(tags, "spec:acl-denies")
		if touched {
			fail("remote-acl-bypassed", fmt.Sprintf("no listed key's permissions allow %s %s, yet the request was not refused", c.method, c.path))
		}
	case !ok2 && served:
		tags = append(tags, "spec:acl-denies-redirect-target")
		fail("remote-acl-bypassed:redirect-target", fmt.Sprintf("permissions allow %s %s but not the /id/ redirect target %s, which was served", c.method, c.path, o.path))
	}
	if o.final == "refused:acl-identity" && o.status != 401 {
		fail("remote-identity-refusal-not-401", "unlisted identity was not answered with 401")
	}
	return
}

func (p *prop) Run(line string) core.Outcome {
	p.mu.Lock()
	defer p.mu.Unlock()
	p.init()
	if f := strings.Fields(line); len(f) > 0 && f[0] == "cf" {
		return p.runCf(f)
	}
	if f := strings.Fields(line); len(f) > 0 && f[0] == "cli" {
		return p.runCli(f)
	}
	if f := strings.Fields(line); len(f) > 0 && f[0] == "hist" {
		return p.runHist(line, f)
	}
	if f := strings.Fields(line); len(f) > 0 && f[0] == "ip" {
		return p.runIP(f)
	}
	if f := strings.Fields(line); len(f) > 0 && f[0] == "url" {
		return p.runURL(f)
	}
	c, ok := parseCase(line)
	if !ok {
		return core.Outcome{Impl: "bad-op", Tags: []string{"bad-op", "trivial"}}
	}
	if ans := c.inDomain(); ans != "" {
		return core.Outcome{Impl: ans, Tags: []string{ans, "trivial"}}
	}
	if exp, err := caddy.NewReplacer().ReplaceOrErr(c.listen, true, true); err == nil {
		if exp == "" {
			exp = defaultLocalListen
			if c.remote {
				exp = ":2021"
			}
		}
		if i := strings.Index(exp, "/"); i >= 0 && strings.HasPrefix(strings.ToLower(strings.TrimSpace(exp[:i])), "unix") {
			if j := strings.Index(exp[i+1:], "|"); j >= 0 && len(exp[i+1:])-j-1 > 6 {
				return core.Outcome{Impl: "bad-op", Tags: []string{"bad-op", "trivial"}} // permission bits are modelled up to 6 octal digits
			}
		}
	}
	// the listen string goes through the real parseAdminListenAddr (the model parses it itself)
	addr, err := caddy.VerifParseAdminListenAddr(c.listen, c.remote)
	if err != nil {
		return core.Outcome{Impl: "listen-error", Tags: []string{"listen-error"}}
	}
	var setup []core.Failure
	if _, mustFail, okx := specExpand(c.listen); okx && mustFail {
		setup = append(setup, core.Failure{Class: "listen-placeholder-error-ignored",
			What: fmt.Sprintf("listen address %q contains a placeholder that expands to nothing, yet it was accepted as %s/%s:%d", c.listen, addr.Network, addr.Host, addr.StartPort)})
	}
	if ans := c.inDomainAddr(addr); ans != "" {
		return core.Outcome{Impl: ans, Tags: []string{ans, "trivial"}}
	}
	addr, ok = c.tablesOK(addr)
	if !ok {
		return core.Outcome{Impl: "bad-table", Tags: []string{"bad-table", "trivial"}}
	}
	before := p.base
	var o obs
	if c.load {
		o, before = p.execLoad(c)
	} else {
		o = p.exec(c, addr)
	}
	after := p.readConfig()
	stateChanged := after != before
	if stateChanged || c.load {
		if err := caddy.Load([]byte(baseCfg), true); err != nil {
			panic("restoring base config: " + err.Error())
		}
		if p.readConfig() != p.base {
			panic("base config not restored")
		}
	}
	out := core.Outcome{Impl: fmt.Sprintf("%s %s %d %d", o.final, core.Hex(o.path), o.cors, o.hits)}
	fs, tags := p.oracle(c, o, stateChanged)
	out.Failures = fs
	out.Tags = append(tags, "final:"+strings.SplitN(o.final, ":", 2)[0])
	if o.refused {
		out.Tags = append(out.Tags, o.final)
	}
	if c.remote {
		out.Tags = append(out.Tags, "side:remote")
	} else {
		out.Tags = append(out.Tags, "side:local")
	}
	if stateChanged {
		out.Tags = append(out.Tags, "config-mutated")
	}
	if o.path != c.path {
		out.Tags = append(out.Tags, "id-redirected")
	}
	if o.hits > 0 {
		out.Tags = append(out.Tags, "probe-hit")
	}
	if o.cors > 0 {
		out.Tags = append(out.Tags, fmt.Sprintf("cors:%d", o.cors))
	}
	if c.load {
		out.Tags = append(out.Tags, "via-caddy-load")
	}
	out.Failures = append(out.Failures, o.extra...)
	out.Failures = append(out.Failures, setup...)
	if strings.ContainsAny(c.listen, "{}") {
		out.Tags = append(out.Tags, "listen-placeholder")
	}
	if len(tags) == 0 && !c.remote && !c.eo && len(c.upg) == 0 {
		out.Tags = append(out.Tags, "trivial")
	}
	return out
}
