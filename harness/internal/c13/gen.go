package c13

import (
	"fmt"
	"strings"

	"github.com/caddyserver/caddy/v2"

	"verif/harness/internal/core"
)

var localListens = []string{
	"localhost:2019", "localhost:2019", "127.0.0.1:2019", "[::1]:2019", ":2019", "0.0.0.0:2019", "[::]:2019",
	"192.168.1.5:2019", "admin.example.com:8443", "10.0.0.7:0", "tcp/localhost:2020", "tcp4/127.0.0.2:2019",
	"udp/192.168.1.5:53", "unix//run/caddy.sock", "unix/@caddy", "unixgram//x.sock", "unix//run/c.sock|0220", "fd/3", "fdgram/4", "",
	"localhost", "[::ffff:127.0.0.1]:2019", "[::ffff:0.0.0.0]:2019", "[fe80::1]:2019", "LOCALHOST:2019", "::1",
	"example.com:80", "0.0.0.0", "[2001:db8::1]:2019", "127.0.0.1:65535",
	"localhost:02019", " TCP /localhost:2019", "Unix//run/x.sock", "tcp/:0", "[::1]", "tcp6/[::1]:2019", "localhost:2019-2019",
	"[::ffff:127.0.0.1]:2019", "[0:0:0:0:0:0:0:0]:2019", "[::%eth0]:2019", "[::1%eth0]:2019", "127.0.0.01:2019", "127.1:2019", "[::0]:2019", "0.0.0.0.0:2019",
	"FD/5", "unix//run/c.sock|0600", "udp/:53", "[localhost]:2019", "127.0.0.1:0", "localhost:0", ":0",
}

// listen strings the real parser rejects (or nearly): the endpoint does not start
var badListens = []string{
	"localhost:2019-2020", "localhost:x", "localhost:99999", "unix//run/c.sock|0444", "unix//run/c.sock|rw", "unix//run/c.sock|",
	"[::1", "a:b:c", "localhost:-1", "localhost:2020-2019", "[::1]x:1", "::1]:80", "tcp/[::1]]:80", "localhost:", "unix//x|0200|1",
	"localhost:+80", "[[::1]]:80", "a]b", "unix//run/c.sock|0222222", "unix//run/c.sock|02222222",
}

// placeholders in the listen string (expanded by the real global replacer)
var placeholderListens = []string{
	"{env.C13_HOST}:{env.C13_PORT}", "{env.C13_IP}:2019", "{env.C13_UNSET}:2019", "{env.C13_EMPTY}:2019", "{env.C13_WILD}:2019",
	"{unknown.key}:2019", "{env.C13_HOST:2019", "\\{env.C13_HOST}:2019", "{env.C13_BRACE}:2019", "localhost:{env.C13_PORT}",
	"{env.C13_HOST}", "{}:2019", "}{:1", "{env.C13_HOST}{env.C13_EMPTY}:2019", "{env.C13_IP}:{env.C13_UNSET}", "tcp/{env.C13_IP}:2019",
	"unix/{env.C13_HOST}.sock", "{env.C13_EMPTY}", "{http.request.host}:2019", "{env.C13_HOST}}:2019",
}

// what the load op may bind
var loadListens = []string{"localhost:0", "127.0.0.1:0", "127.0.0.2:0", ":0", "0.0.0.0:0", "tcp/localhost:0", "127.0.0.1", "localhost", "0.0.0.0", "unix/c13-load-%d.sock", "", ""}

var remoteListens = []string{":2021", "", "0.0.0.0:2021", "admin.example.com:2021", "localhost:2021"}

var originPool = []string{
	"localhost:2019", "127.0.0.1:2019", "[::1]:2019", "example.com", "https://example.com", "http://localhost:2019",
	"https://admin.example.com:8443/path?q=1#f", "", "://bad", "http://[::1", "HTTP://UP.example", "file:///x",
	"example.com:443", "http://", "https://localhost:2019", "//slashes", "admin.example.com:8443", "192.168.1.5:2019",
}

var probePatPool = []string{
	"/probe", "/probe/", "/probe/sub/", "/probe/sub/leaf", "/", "/config/special", "/config/sub/", "/id/x/", "/stop/",
	"/metrics", "/loadx", "/adapt/", "/pki/sub/", "/reverse_proxy/", "/debug/pprof/extra", "/idx",
}

var idxKeyPool = []string{"app", "item0", "sub", "a", "b", "c", "loop", "x", "my.id", "stop"}

var idxValPool = []string{
	"/config/apps/verifprobe", "/config/apps/verifprobe/list/0", "/config/apps/verifprobe/sub", "/config/apps/verifprobe/n",
	"/config", "/config/", "/config/apps/..", "/probe", "/probe/sub/leaf", "/probe/sub", "/stop", "/id/b", "/id/c", "/id/a", "/id/loop", "/debug/vars", "", "relative/x",
	"/config/apps/../../stop", "/", "/id", "/nope", "/config/apps/verifprobe/", "/id/c/..", "/config//apps",
}

var pathPool = []string{
	"/config/", "/config/apps/verifprobe", "/config/apps/verifprobe/n", "/config/apps/verifprobe/list/0", "/config/apps/verifprobe/list",
	"/config/apps/verifprobe/n2", "/config", "/config/admin", "/config/logging",
	"/id/app", "/id/item0/v", "/id/sub/k", "/id/", "/id", "/id/nope", "/id/a", "/id/b", "/id/c", "/id/loop", "/id/x/y", "/id/a/n", "/id/stop",
	"/id/my.id", "/id/app/", "/id/a/../b",
	"/stop", "/stop/", "/debug/vars", "/debug/pprof/", "/debug/pprof/cmdline", "/debug/pprof/symbol", "/debug/pprof/profile",
	"/debug/pprof/trace", "/debug/pprof", "/debug", "/debug/pprof/goroutine", "/", "/nope", "/config/../stop", "//config/", "/config//apps", "/./config/",
	"/probe", "/probe/", "/probe/x", "/probe/sub", "/probe/sub/", "/probe/sub/leaf", "/probe/sub/leaf/deeper", "/config/special", "/config/sub/x",
	"/metrics", "/load", "/adapt", "/pki", "/pki/ca/other", "/pki/x", "/reverse_proxy/upstreams", "/reverse_proxy", "/idx", "/configx", "/stopx",
}

var methodPool = []string{"GET", "GET", "GET", "GET", "POST", "PUT", "PATCH", "DELETE", "OPTIONS", "OPTIONS", "HEAD", "CONNECT", "get", "TRACE"}

var upgradePool = []string{"websocket", "WebSocket", "WEBSOCKET", "h2c", "websocket, foo", "foo,websocket", "xwebsocketx", "", "web socket", "Websocket", "h2c, WebSocket", "websocke", "TLS/1.0", "wEbSoCkEt"}

var aclMethodPool = []string{"GET", "POST", "PUT", "DELETE", "OPTIONS", "get", "PATCH"}

var aclPathPool = []string{"/config/", "/config/apps/", "/id/", "/", "/probe", "/stop", "/debug/", "/config", "/id/a", "/config/apps/verifprobe/list"}

func pickN(rng *core.Rand, pool []string, n int) []string {
	var out []string
	for len(out) < n {
		x := rng.Pick(pool)
		if !contains(out, x) {
			out = append(out, x)
		}
	}
	return out
}

func hostVariants(rng *core.Rand, allowed []string, addr caddy.NetworkAddress) string {
	base := "localhost:2019"
	if len(allowed) > 0 {
		base = rng.Pick(allowed)
	}
	switch rng.Intn(16) {
	case 0, 1, 2, 3, 4, 5, 6:
		return base
	case 7:
		return strings.ToUpper(base)
	case 8:
		if i := strings.LastIndex(base, ":"); i > 0 {
			return base[:i]
		}
		return base + ":1"
	case 9:
		return "evil.com"
	case 10:
		return ""
	case 11:
		return base + ".evil.com"
	case 12:
		return rng.Pick([]string{"localhost:2019", "127.0.0.1:2019", "[::1]:2019", "localhost", "::1:2019"})
	case 13:
		return addr.JoinHostPort(0)
	case 14:
		if i := strings.LastIndex(base, ":"); i >= 0 {
			return "evil.com" + base[i:]
		}
		return "evil.com"
	default:
		return base + " "
	}
}

func originHeader(rng *core.Rand, allowed [][2]string) string {
	h := "example.com"
	sc := ""
	if len(allowed) > 0 {
		a := allowed[rng.Intn(len(allowed))]
		sc, h = a[0], a[1]
	}
	if sc == "" {
		sc = rng.Pick([]string{"http", "https"})
	}
	switch rng.Intn(18) {
	case 0, 1, 2, 3, 4:
		return sc + "://" + h
	case 5:
		return sc + "://" + h + "/some/path?x=1#frag"
	case 6:
		return ""
	case 7:
		return "http://evil.com"
	case 8:
		return "null"
	case 9:
		return h
	case 10:
		return "http://" + h + ".evil.com"
	case 11:
		return "http://[::1"
	case 12:
		return "//" + h
	case 13:
		return strings.ToUpper(sc) + "://" + h
	case 14:
		return sc + "://" + strings.ToUpper(h)
	case 15:
		return rng.Pick([]string{"file://", "%zz", "http://user@" + h, "ftp://" + h, "https://example.com", "http://evil." + h, "http://evil" + h, sc + "://" + h + "x"})
	case 16:
		return "other://" + h
	default:
		return "http://" + h + "@evil.com"
	}
}

var genSeq int

func (p *prop) genCase(rng *core.Rand, load bool) string {
	c := &acase{load: load}
	c.remote = rng.Chance(3, 10)
	switch {
	case load:
		c.listen = rng.Pick(loadListens)
		if strings.Contains(c.listen, "%d") {
			genSeq++
			c.listen = fmt.Sprintf(c.listen, genSeq)
		}
	case rng.Chance(1, 40):
		c.listen = rng.Pick(badListens)
	case rng.Chance(1, 30):
		c.listen = rng.Pick(placeholderListens)
	case c.remote:
		c.listen = rng.Pick(remoteListens)
	default:
		c.listen = rng.Pick(localListens)
	}
	if !load && rng.Chance(1, 25) {
		// random edits: the model parses the string itself, so anything printable goes
		const alpha = "[]::://||--0129 atcpunixfdUX.%@{}"
		b := []byte(c.listen)
		for n := 1 + rng.Intn(2); n > 0; n-- {
			i := rng.Intn(len(b) + 1)
			switch rng.Intn(3) {
			case 0:
				b = append(b[:i], append([]byte{alpha[rng.Intn(len(alpha))]}, b[i:]...)...)
			case 1:
				if i < len(b) {
					b = append(b[:i], b[i+1:]...)
				}
			default:
				if i < len(b) {
					b[i] = alpha[rng.Intn(len(alpha))]
				}
			}
		}
		c.listen = string(b)
	}
	addr, err := caddy.VerifParseAdminListenAddr(c.listen, c.remote)
	c.ipc = "n"
	if err == nil {
		c.ipc = ipClass(addr.Host)
	}
	// origins
	switch r := rng.Intn(20); {
	case r < 9 || c.remote && r < 16:
		c.originsNil = true
	case r == 9:
	default:
		raws := pickN(rng, originPool, 1+rng.Intn(3))
		if rng.Chance(1, 3) {
			raws[0] = addr.JoinHostPort(0)
		}
		for _, raw := range raws {
			c.origins = append(c.origins, urlTable(raw))
		}
	}
	c.eo = rng.Chance(4, 10)
	// ACL
	switch r := rng.Intn(20); {
	case !c.remote && r < 17 || c.remote && r == 0 && !load:
		c.aclNil = true
	case r == 1:
	default:
		for n := 1 + rng.Intn(3); n > 0; n-- {
			var a access
			for k := rng.Intn(4); k > 0; k-- {
				a.keys = append(a.keys, rng.Intn(6))
			}
			for k := rng.Intn(3); k > 0; k-- {
				var pm perm
				switch r := rng.Intn(20); {
				case r < 8:
					pm.methodsNil = true
				case r == 8:
				default:
					pm.methods = pickN(rng, aclMethodPool, 1+rng.Intn(3))
				}
				switch r := rng.Intn(20); {
				case r < 6:
					pm.pathsNil = true
				case r == 6:
				default:
					pm.paths = pickN(rng, aclPathPool, 1+rng.Intn(3))
				}
				a.perms = append(a.perms, pm)
			}
			c.acl = append(c.acl, a)
		}
	}
	// module routes and the id index
	c.pats = pickN(rng, probePatPool, rng.Intn(4))
	if rng.Chance(1, 2) {
		keys := pickN(rng, idxKeyPool, 1+rng.Intn(4))
		for _, k := range keys {
			c.idxKeys = append(c.idxKeys, k)
			if k == "loop" {
				c.idxVals = append(c.idxVals, "/id/loop")
			} else {
				c.idxVals = append(c.idxVals, rng.Pick(idxValPool))
			}
		}
	}
	// request
	s := specOf(c)
	c.method = rng.Pick(methodPool)
	c.host = hostVariants(rng, s.allowedHosts, addr)
	switch rng.Intn(10) {
	case 0:
		if len(c.pats) > 0 {
			c.path = rng.Pick(c.pats)
			if rng.Chance(1, 2) && strings.HasSuffix(c.path, "/") {
				c.path += "deeper/x"
			}
			break
		}
		fallthrough
	case 1:
		if len(c.idxKeys) > 0 {
			c.path = "/id/" + rng.Pick(c.idxKeys)
			if rng.Chance(1, 3) {
				c.path += rng.Pick([]string{"/n", "/", "/list/0", "/..", "/x/y"})
			}
			break
		}
		fallthrough
	default:
		c.path = rng.Pick(pathPool)
	}
	if rng.Chance(1, 40) {
		// the most dangerous request: POST /stop, directly or through an /id/ redirect
		c.method, c.path = "POST", "/stop"
		if rng.Chance(1, 3) {
			c.idxKeys, c.idxVals = append(c.idxKeys, "halt"), append(c.idxVals, rng.Pick([]string{"/stop", "/config/../stop", "/"}))
			c.path = rng.Pick([]string{"/id/halt", "/id/halt/stop"})
		}
	}
	if rng.Chance(1, 8) {
		for n := 1 + rng.Intn(2); n > 0; n-- {
			c.upg = append(c.upg, rng.Pick(upgradePool))
		}
	}
	if c.eo || rng.Chance(1, 5) {
		if !rng.Chance(1, 6) {
			c.origin = urlTable(originHeader(rng, s.allowed))
		}
		if rng.Chance(1, 4) {
			c.referer = urlTable(originHeader(rng, s.allowed))
		}
	}
	if c.origin.raw == "" {
		c.origin = urlTable("")
	}
	if c.referer.raw == "" {
		c.referer = urlTable("")
	}
	// TLS state
	if c.remote && !rng.Chance(1, 30) || !c.remote && rng.Chance(1, 10) {
		listedKeys := []int{}
		for _, a := range c.acl {
			listedKeys = append(listedKeys, a.keys...)
		}
		for n := rng.Intn(3); n > 0; n-- {
			var ch []int
			for k := 1 + rng.Intn(3); k > 0; k-- {
				if len(listedKeys) > 0 && rng.Chance(2, 3) {
					ch = append(ch, listedKeys[rng.Intn(len(listedKeys))])
				} else {
					ch = append(ch, rng.Intn(nKeys))
				}
			}
			c.chains = append(c.chains, ch)
		}
	} else {
		c.tlsNil = true
	}
	return c.line()
}

var malformed = []string{
	"req",
	"nop L",
	"req X 6c6f63616c686f73743a32303139:n ~ 0 ~ . . 474554 6c6f63616c686f73743a32303139 2f636f6e6669672f . -:1:-:- -:1:-:- ~",
	"req L 6c6f63616c686f73743a32303139:n ~ 0 ~ . . 474554 6c6f63616c686f73743a32303139 2f636f6e6669672f . -:1:-:- -:1:-:-",
	"req L 6c6f63616c686f73743a32303139:n ~ 2 ~ . . 474554 6c6f63616c686f73743a32303139 2f636f6e6669672f . -:1:-:- -:1:-:- ~",
	"req L 6c6f63616c686f73743a32303139:q ~ 0 ~ . . 474554 6c6f63616c686f73743a32303139 2f636f6e6669672f . -:1:-:- -:1:-:- ~",
	"req L 6c6f63616c686f73743a32303139:n ~ 0 ~ . . 474554 6c6f63616c686f73743a32303139 2f636f6e6669672 . -:1:-:- -:1:-:- ~",
	"req L 6c6f63616c686f73743a32303139:n ~ 0 ~ . . 474554 zz 2f636f6e6669672f . -:1:-:- -:1:-:- ~",
	// path with a byte outside the safe alphabet ("/a b")
	"req L 6c6f63616c686f73743a32303139:n ~ 0 ~ . . 474554 6c6f63616c686f73743a32303139 2f612062 . -:1:-:- -:1:-:- ~",
	// path not starting with "/"
	"req L 6c6f63616c686f73743a32303139:n ~ 0 ~ . . 474554 6c6f63616c686f73743a32303139 636f6e666967 . -:1:-:- -:1:-:- ~",
	// probe pattern equal to a built-in ("/stop"), duplicate probe patterns
	"req L 6c6f63616c686f73743a32303139:n ~ 0 ~ 2f73746f70 . 474554 6c6f63616c686f73743a32303139 2f636f6e6669672f . -:1:-:- -:1:-:- ~",
	"req L 6c6f63616c686f73743a32303139:n ~ 0 ~ 2f70,2f70 . 474554 6c6f63616c686f73743a32303139 2f636f6e6669672f . -:1:-:- -:1:-:- ~",
	// CONNECT with an unclean path (a valid case: the mux does not canonicalise CONNECT), empty method, key id 8
	"req L 6c6f63616c686f73743a32303139:n ~ 0 ~ . . 434f4e4e454354 6c6f63616c686f73743a32303139 2f2f61 . -:1:-:- -:1:-:- ~",
	"req L 6c6f63616c686f73743a32303139:n ~ 0 ~ . . 504f5354 6c6f63616c686f73743a32303139 2f73746f70 . -:1:-:- -:1:-:- ~",
	"req L 6c6f63616c686f73743a32303139:n ~ 0 ~ . . - 6c6f63616c686f73743a32303139 2f636f6e6669672f . -:1:-:- -:1:-:- ~",
	"req R 3a32303231:n ~ 0 0/. . . 474554 78 2f636f6e6669672f . -:1:-:- -:1:-:- 8",
	"req R 3a32303231:n ~ 0 0/. . . 474554 78 2f636f6e6669672f . -:1:-:- -:1:-:- 1;",
	// non-ASCII Upgrade value (K = U+212A KELVIN SIGN lower-cases to k in Go)
	"req L 6c6f63616c686f73743a32303139:n ~ 0 ~ . . 474554 6c6f63616c686f73743a32303139 2f636f6e6669672f 776562736f63e284aa6574 -:1:-:- -:1:-:- ~",
	// the address field in its former five-part form, a listen string with a placeholder brace
	"req L 6c6f63616c686f73743a32303139:746370:6c6f63616c686f7374:2019:n ~ 0 ~ . . 474554 6c6f63616c686f73743a32303139 2f636f6e6669672f . -:1:-:- -:1:-:- ~",
	"req L 7b656e762e587d3a32303139:n ~ 0 ~ . . 474554 6c6f63616c686f73743a32303139 2f636f6e6669672f . -:1:-:- -:1:-:- ~",
	// load op on an address the harness must not bind (localhost:2019), remote load without access controls
	"load L 6c6f63616c686f73743a32303139:n ~ 0 ~ . . 474554 6c6f63616c686f73743a32303139 2f636f6e6669672f . -:1:-:- -:1:-:- ~",
	"load R 3a30:n ~ 0 ~ . . 474554 78 2f636f6e6669672f . -:1:-:- -:1:-:- .",
	// id loop: /id/loop -> /id/loop
	"req L 6c6f63616c686f73743a32303139:n ~ 0 ~ . 6c6f6f70:2f69642f6c6f6f70 474554 6c6f63616c686f73743a32303139 2f69642f6c6f6f70 . -:1:-:- -:1:-:- ~",
}

// genHist: a history of 2-7 loads that switches the endpoints on and off, moves them between
// addresses and changes the access list
func genHist(rng *core.Rand) string {
	var steps []string
	for n := 2 + rng.Intn(6); n > 0; n-- {
		local := rng.Pick([]string{"a0", "a0", "a1", "t0", "t0", "t1", "d", "n", "b", "b"})
		remote := "~"
		if local != "n" && local != "b" && rng.Chance(3, 5) {
			var entries []string
			for e := rng.Intn(3); e >= 0; e-- {
				var keys []int
				for k := rng.Intn(3); k > 0; k-- {
					keys = append(keys, rng.Intn(4))
				}
				perms := "."
				switch rng.Intn(5) {
				case 0:
					perms = core.Hex("GET") + "|" + core.Hex("/config/")
				case 1:
					perms = core.Hex("POST") + "," + core.Hex("PUT") + "|~"
				case 2:
					perms = "~|" + core.Hex("/id/") + "," + core.Hex("/stop")
				case 3:
					perms = core.Hex("GET") + "|~+~|" + core.Hex("/config")
				}
				entries = append(entries, ints(keys)+"/"+perms)
			}
			remote = rng.Pick([]string{"a2", "a2", "a3"}) + "=" + strings.Join(entries, ";")
			if rng.Chance(1, 8) {
				remote = rng.Pick([]string{"a2", "a3"}) + "=."
			}
		}
		// loads that are REJECTED LATE (after the local endpoint was replaced): an app that cannot be
		// provisioned, or an access list entry whose public key cannot be decoded
		if local != "n" && local != "b" && rng.Chance(1, 4) {
			local += "!"
		} else if remote != "~" && rng.Chance(1, 5) {
			remote = "x" + remote[1:]
		}
		steps = append(steps, local+"@"+remote)
	}
	return "hist " + strings.Join(steps, " ")
}

func (p *prop) Generate(rng *core.Rand, tier string, emit func(string)) {
	p.mu.Lock()
	p.init()
	p.mu.Unlock()
	n := 20000
	switch tier {
	case "thorough":
		n = 300000
	case "search":
		n = 40000
	}
	for _, m := range malformed {
		emit(m)
	}
	// lifecycle: histories of loads with network probes of every address ever configured
	emit("hist a0@a2=0/. a0@~")
	emit("hist a0@a2=0/. a0@a3=1/. d@~")
	emit("hist a0@~ a1@~ d@~ a0@~")
	emit("hist n@a2=0/.")
	// a load whose admin listener cannot be bound, then origins tightened / endpoint moved / disabled
	emit("hist a0@~ b@~ t0@~")
	emit("hist a0@~ b@~ a1@~")
	emit("hist a0@a2=0/. b@~ d@~")
	emit("hist t0@~ b@~ a0@~ b@~ b@~ t0@~ t1@~")
	emit("hist a0@a2=0/. a0@a2=1/" + core.Hex("POST") + "|~ a0@a2=. n@~")
	// loads rejected late: while provisioning apps (!) / for an undecodable remote public key (x)
	emit("hist a0@a2=0/. t0@x2=1/. a0@~")
	emit("hist a0@a2=0/. d!@a3=1/. a0@a2=0/.")
	emit("hist t0@~ t0!@~ b@~ a1@~ a1!@x3=2/.")
	emit("hist a0@a2=0/. a0@x2=. a0!@~ a0@a2=1/.")
	nh := 10
	if tier == "thorough" {
		nh = 150
	} else if tier == "search" {
		nh = 30
	}
	for i := 0; i < nh; i++ {
		emit(genHist(rng))
	}
	// the CLI side: address resolution and the request `caddy stop|reload` sends, against the real endpoint
	for i := 0; i < nh*6; i++ {
		emit(genCli(rng))
	}
	nload := n / 25
	for i := 0; i < n; i++ {
		emit(p.genCase(rng, false))
		if i%25 == 0 && nload > 0 {
			emit(p.genCase(rng, true))
		}
		if i%20 == 0 {
			emit(genCf(rng))
		}
		if i%5 == 0 {
			emit(genURL(rng))
		}
		if i%10 == 0 {
			emit(genIP(rng))
		}
	}
}
