package c13

import (
	"strings"

	"verif/harness/internal/core"
)

// `ip <hex>`: net/netip.ParseAddr + IsUnspecified / IsLoopback against the byte-level model.

func (p *prop) runIP(f []string) core.Outcome {
	if len(f) != 2 {
		return core.Outcome{Impl: "bad-op", Tags: []string{"bad-op", "trivial"}}
	}
	raw, err := core.UnHex(f[1])
	if err != nil {
		return core.Outcome{Impl: "bad-op", Tags: []string{"bad-op", "trivial"}}
	}
	c := ipClass(raw)
	out := core.Outcome{Impl: c, Tags: []string{"op:ip", "ip:" + c}}
	if !strings.ContainsAny(raw, ".:%") {
		out.Tags = append(out.Tags, "trivial")
	}
	return out
}

var ipPieces = []string{
	"0", "00", "1", "127", "255", "256", "01", "10", ".", ".", "..", ":", ":", "::", ":::", "%", "%eth0", "%25", "ffff", "FFFF", "fe80", "0000", "00000", "1ffff", "g",
	"0.0.0.0", "127.0.0.1", "1.2.3.4", "1.2.3", "1.2.3.4.5", "a", "f", "abcd", " ", "[", "]", "x", "-", "/",
}

var ipWhole = []string{
	"0.0.0.0", "127.0.0.1", "127.255.255.254", "128.0.0.1", "::", "::1", "::%eth0", "::1%eth0", "0:0:0:0:0:0:0:0", "0:0:0:0:0:0:0:1",
	"::ffff:127.0.0.1", "::ffff:0.0.0.0", "::ffff:7f00:1", "::127.0.0.1", "0:0:0:0:0:ffff:127.0.0.1", "1:2:3:4:5:6:7:8", "1:2:3:4:5:6:7::",
	"1:2:3:4:5:6:7:8::", "::1:2:3:4:5:6:7:8", "1::2::3", "1:2:3:4:5:6:1.2.3.4", "1:2:3:4:5:1.2.3.4", "1:2:3:4:5:6:7:1.2.3.4", "::1.2.3.4",
	"fe80::1%", "fe80::1%eth0", "1:", ":1", "1::", "::0", "00::", "0::0", "12345::", "::00001", "::1.2.3", "::1.2.3.256", "::01.2.3.4",
	"localhost", "", "1.2.3.04", "1.2.3.4%eth0", "0.0.0.00", "0x7f.0.0.1", "127.1", "::ffff:7f00:0001", "0:0:0:0:0:0:0::", "::0:0:0:0:0:0:0:0",
}

func genIP(rng *core.Rand) string {
	if rng.Chance(1, 2) {
		return "ip " + core.Hex(rng.Pick(ipWhole))
	}
	var sb strings.Builder
	for n := 1 + rng.Intn(9); n > 0; n-- {
		sb.WriteString(rng.Pick(ipPieces))
	}
	return "ip " + core.Hex(sb.String())
}
