package c13

import (
	"encoding/json"
	"fmt"
	"strings"

	"github.com/caddyserver/caddy/v2/caddyconfig"
	_ "github.com/caddyserver/caddy/v2/caddyconfig/httpcaddyfile" // registers the caddyfile adapter

	"verif/harness/internal/core"
)

// the Caddyfile `admin` global option: the case is rendered as a Caddyfile, adapted by the real
// adapter (lexer, dispenser, parseOptAdmin, JSON marshalling of AdminConfig) and the "admin"
// object of the resulting JSON is printed canonically.

func cfTokenOK(t string) bool {
	if t == "" || t == "import" {
		return false
	}
	for i := 0; i < len(t); i++ {
		b := t[i]
		if !(b >= '0' && b <= ':' || b >= 'A' && b <= 'Z' || b >= 'a' && b <= 'z' || b == '.' || b == '_' || b == '/' || b == '-') {
			return false
		}
	}
	return true
}

func (p *prop) runCf(f []string) core.Outcome {
	bad := core.Outcome{Impl: "bad-op", Tags: []string{"bad-op", "trivial"}}
	if len(f) != 3 {
		return bad
	}
	args, ok := unhexList(f[1], ",")
	if !ok {
		return bad
	}
	var lines [][]string
	hasBlock := f[2] != "~"
	if hasBlock && f[2] != "." {
		for _, l := range strings.Split(f[2], ";") {
			toks, ok := unhexList(l, ",")
			if !ok {
				return bad
			}
			lines = append(lines, toks)
		}
	}
	for _, a := range args {
		if !cfTokenOK(a) {
			return bad
		}
	}
	for _, l := range lines {
		if len(l) == 0 {
			return bad
		}
		for _, t := range l {
			if !cfTokenOK(t) {
				return bad
			}
		}
	}
	var sb strings.Builder
	sb.WriteString("{\n\tadmin")
	for _, a := range args {
		sb.WriteString(" " + a)
	}
	if hasBlock {
		sb.WriteString(" {\n")
		for _, l := range lines {
			sb.WriteString("\t\t" + strings.Join(l, " ") + "\n")
		}
		sb.WriteString("\t}")
	}
	sb.WriteString("\n}\n")
	out := core.Outcome{Tags: []string{"op:cf"}}
	js, _, err := caddyconfig.GetAdapter("caddyfile").Adapt([]byte(sb.String()), nil)
	if err != nil {
		out.Impl = "err"
		out.Tags = append(out.Tags, "cf:err")
		return out
	}
	var cfg struct {
		Admin *struct {
			Disabled      bool      `json:"disabled"`
			Listen        string    `json:"listen"`
			EnforceOrigin bool      `json:"enforce_origin"`
			Origins       *[]string `json:"origins"`
		} `json:"admin"`
	}
	if err := json.Unmarshal(js, &cfg); err != nil || cfg.Admin == nil {
		out.Impl = "unclassified"
		return out
	}
	a := cfg.Admin
	os := "~"
	if a.Origins != nil {
		os = hexList(*a.Origins, ",")
	}
	out.Impl = fmt.Sprintf("ok %s %s %s %s", b01(a.Disabled), core.Hex(a.Listen), b01(a.EnforceOrigin), os)
	if a.EnforceOrigin {
		out.Tags = append(out.Tags, "cf:enforce_origin")
	}
	if a.Origins != nil {
		out.Tags = append(out.Tags, "cf:origins")
	}
	if a.Disabled {
		out.Tags = append(out.Tags, "cf:off")
	}
	// oracle: the enforce flag is on only if the user wrote it; origins only those the user wrote
	written := false
	var all []string
	for _, l := range lines {
		directive := true // still at a position where a token is read as a parameter name
		for _, t := range l {
			if directive && t == "enforce_origin" {
				written = true
			} else {
				directive = false // `origins` takes the rest of the line as its arguments
			}
			all = append(all, t)
		}
	}
	if a.EnforceOrigin != written {
		out.Failures = append(out.Failures, core.Failure{Class: "caddyfile-enforce-origin-flag",
			What: fmt.Sprintf("Caddyfile admin option: enforce_origin written=%v but the adapted config says %v", written, a.EnforceOrigin)})
	}
	if a.Origins != nil {
		for _, o := range *a.Origins {
			if !contains(all, o) {
				out.Failures = append(out.Failures, core.Failure{Class: "caddyfile-origin-not-written",
					What: fmt.Sprintf("Caddyfile admin option: adapted config allows origin %q which the Caddyfile does not mention", o)})
			}
		}
	}
	return out
}

var cfWords = []string{"enforce_origin", "origins", "localhost:2019", "example.com", "https://example.com", "off", "x", "127.0.0.1:2019", ":2019", "unix//run/c.sock", "enforce_origins", "origin"}

func genCf(rng *core.Rand) string {
	var args []string
	switch rng.Intn(8) {
	case 0, 1:
	case 2:
		args = []string{"off"}
	case 3:
		args = []string{rng.Pick(cfWords), rng.Pick(cfWords)}
	default:
		args = []string{rng.Pick([]string{"localhost:2019", ":2019", "127.0.0.1:2999", "unix//run/c.sock", "example.com:80"})}
	}
	block := "~"
	if rng.Chance(3, 4) {
		var ls []string
		for n := rng.Intn(4); n > 0; n-- {
			var toks []string
			switch rng.Intn(6) {
			case 0, 1:
				toks = []string{"enforce_origin"}
			case 2, 3:
				toks = []string{"origins"}
				for k := rng.Intn(4); k > 0; k-- {
					toks = append(toks, rng.Pick(cfWords))
				}
			case 4:
				toks = []string{"enforce_origin", "origins", rng.Pick(cfWords)}
			default:
				for k := 1 + rng.Intn(3); k > 0; k-- {
					toks = append(toks, rng.Pick(cfWords))
				}
			}
			ls = append(ls, hexList(toks, ","))
		}
		block = "."
		if len(ls) > 0 {
			block = strings.Join(ls, ";")
		}
	}
	return "cf " + hexList(args, ",") + " " + block
}
