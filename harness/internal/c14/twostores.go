package c14

// The `cs` cases of C14: WHICH storage the CA lives on.  modules/caddypki/ca.go CA.Provision takes the CA's own
// `storage` module if its config names one, else ctx.Storage() (the config's global storage).  A reload can add,
// drop or replace that module; the property's "reloaded unchanged by every later start-up" is per storage.
//
//	cs <ev>;<ev>;…     ev = <g|o><s|l>:<fault>    g: the CA's config names no storage (global module verif_c14)
//	                                              o: "storage":{"module":"verif_c14_own"} in the CA's config
//	                   s|l and fault as in `ca` (fault armed on the SELECTED storage)
//	answer per event: <g|o>:<result> [<operations on the selected storage>] {<selected storage>} | {<other storage>}
//
// Oracle (implementation only): a start-up performs no operation on the storage its config does not select; per
// storage, the root of the first successful start-up is stored unchanged ever after and used by every later
// successful start-up on that storage; an uninterrupted start-up succeeds with a consistent chain that is what
// the selected storage holds.

import (
	"bytes"
	"crypto"
	"fmt"
	"sort"
	"strings"

	"github.com/caddyserver/caddy/v2"
	"github.com/caddyserver/certmagic"

	"verif/harness/internal/core"
)

var ownStore = &faultStore{data: map[string][]byte{}}

type ownStorageModule struct{}

func (ownStorageModule) CaddyModule() caddy.ModuleInfo {
	return caddy.ModuleInfo{ID: "caddy.storage.verif_c14_own", New: func() caddy.Module { return new(ownStorageModule) }}
}

func (*ownStorageModule) CertMagicStorage() (certmagic.Storage, error) { return ownStore, nil }

func init() {
	caddy.RegisterModule(ownStorageModule{})
}

type csEvent struct {
	own bool
	ev  caEvent
}

func parseCSEvents(s string) ([]csEvent, bool) {
	var out []csEvent
	for _, p := range strings.Split(s, ";") {
		if len(p) < 2 || (p[0] != 'g' && p[0] != 'o') {
			return nil, false
		}
		evs, ok := parseCAEvents(p[1:])
		if !ok || len(evs) != 1 || evs[0].tamper != "" || evs[0].tick {
			return nil, false
		}
		out = append(out, csEvent{own: p[0] == 'o', ev: evs[0]})
	}
	return out, true
}

func storeToksOf(nm *namer, st *faultStore) []tok {
	var toks []tok
	for j, ck := range caKeys {
		if j > 0 {
			toks = append(toks, tok{s: ","})
		}
		toks = append(toks, tok{s: ck.short + "="})
		if v, ok := st.get(ck.key); ok {
			nm.learnBlob(v)
			toks = append(toks, nm.blobToks(v)...)
		} else {
			toks = append(toks, tok{s: "-"})
		}
	}
	return toks
}

// storeProblemOn: storeProblem for an arbitrary store
func storeProblemOn(st *faultStore, r startResult) string {
	rc, _ := st.get(caKeys[0].key)
	rk, _ := st.get(caKeys[1].key)
	ic, _ := st.get(caKeys[2].key)
	ik, _ := st.get(caKeys[3].key)
	c, err := decodeCert(rc)
	if err != nil || !c.Equal(r.root) {
		return "the root certificate on the selected storage is not the one in use"
	}
	k, err := certmagic.PEMDecodePrivateKey(rk)
	if err != nil || !samePub(k.Public(), r.root.PublicKey) {
		return "the root key on the selected storage does not belong to the root in use"
	}
	c, err = decodeCert(ic)
	if err != nil || !c.Equal(r.inter) {
		return "the intermediate certificate on the selected storage is not the one in use"
	}
	k, err = certmagic.PEMDecodePrivateKey(ik)
	if err != nil || !samePub(k.Public(), r.inter.PublicKey) {
		return "the intermediate key on the selected storage does not belong to the intermediate in use"
	}
	return ""
}

func runCS(line, hist string) core.Outcome {
	evs, ok := parseCSEvents(hist)
	if !ok {
		return core.Outcome{Impl: "bad-op"}
	}
	theStore.reset()
	ownStore.reset()
	nm := &namer{pubs: map[string]crypto.PublicKey{}, signers: map[[32]byte]string{},
		blobs: map[[32]byte]decoded{}, chains: map[[32]byte]string{}}
	var o core.Outcome
	var toks []tok
	fail := func(class, what string) {
		o.Failures = append(o.Failures, core.Failure{Case: line, Class: class, What: what})
	}
	tags := map[string]bool{}
	stopRunning := func() {}
	defer func() { stopRunning() }()
	type fixed struct {
		set    bool
		rc, rk []byte
	}
	roots := map[bool]*fixed{false: {}, true: {}}
	anyFault := false
	prevOwn, switched := false, false
	for i, e := range evs {
		if i > 0 {
			toks = append(toks, tok{s: " ; "})
			if e.own != prevOwn {
				switched = true
				tags["storage-replaced-by-reload"] = true
			}
		}
		prevOwn = e.own
		sel, other, name := theStore, ownStore, "g:"
		if e.own {
			sel, other, name = ownStore, theStore, "o:"
			tags["own-storage"] = true
		}
		otherBefore := map[string][]byte{}
		for _, ck := range caKeys {
			if v, ok := other.get(ck.key); ok {
				otherBefore[ck.key] = v
			}
		}
		stopRunning()
		r, stop := startOnceOn(e.ev, e.own)
		stopRunning = func() {}
		if r.kind == "ok" {
			stopRunning = stop
		} else {
			stop()
		}
		log := sel.log
		fired := e.ev.fault && e.ev.idx <= len(log)
		if fired {
			anyFault = true
			tags["fault:"+e.ev.mode] = true
		}
		for _, op := range log {
			if op.kind == "S" {
				nm.learnBlob(op.value)
			}
		}
		for _, ck := range caKeys {
			if v, ok := sel.get(ck.key); ok {
				nm.learnBlob(v)
			}
		}
		toks = append(toks, tok{s: name})
		switch r.kind {
		case "ok":
			toks = append(toks, tok{s: "ok(r="})
			toks = append(toks, nm.certToks(r.root)...)
			toks = append(toks, tok{s: ",i="})
			toks = append(toks, nm.certToks(r.inter)...)
			toks = append(toks, tok{s: ",k="})
			if r.ikey != nil {
				toks = append(toks, tok{s: "k"}, tok{id: nm.learn(r.ikey.Public())})
			} else {
				toks = append(toks, tok{s: "?"})
			}
			toks = append(toks, tok{s: ")"})
		case "err":
			toks = append(toks, tok{s: "err:" + r.class})
			tags["err:"+r.class] = true
		default:
			toks = append(toks, tok{s: "crash"})
		}
		toks = append(toks, tok{s: " ["})
		for j, op := range log {
			if j > 0 {
				toks = append(toks, tok{s: ","})
			}
			switch op.kind {
			case "S":
				toks = append(toks, tok{s: "S:" + shortKey(op.key) + "="})
				toks = append(toks, nm.blobToks(op.value)...)
			default:
				toks = append(toks, tok{s: op.kind + ":" + shortKey(op.key)})
			}
		}
		toks = append(toks, tok{s: "] {"})
		toks = append(toks, storeToksOf(nm, sel)...)
		toks = append(toks, tok{s: "} | {"})
		toks = append(toks, storeToksOf(nm, other)...)
		toks = append(toks, tok{s: "}"})

		// ---- oracle
		if len(other.log) > 0 {
			fail("cs-start-up-touched-unselected-storage",
				fmt.Sprintf("start-up %d of %q performed %d operation(s) (first: %s %s) on the storage its config does not select",
					i+1, hist, len(other.log), other.log[0].kind, shortKey(other.log[0].key)))
		}
		for _, ck := range caKeys {
			v, ok := other.get(ck.key)
			if b, had := otherBefore[ck.key]; had != ok || !bytes.Equal(v, b) {
				fail("cs-start-up-touched-unselected-storage", fmt.Sprintf("start-up %d of %q changed %s on the storage its config does not select", i+1, hist, ck.short))
			}
		}
		if !fired {
			switch r.kind {
			case "ok":
				if p := nm.chainProblemMemo(r); p != "" {
					fail("ca-inconsistent-chain-after-startup", fmt.Sprintf("start-up %d of %q succeeded but: %s", i+1, hist, p))
				} else if p := storeProblemOn(sel, r); p != "" {
					fail("cs-selected-storage-does-not-hold-the-ca-in-use", fmt.Sprintf("start-up %d of %q succeeded but: %s", i+1, hist, p))
				}
			default:
				fail("ca-startup-fails-after-interruption",
					fmt.Sprintf("uninterrupted start-up %d of %q did not succeed: %s %s %s", i+1, hist, r.kind, r.class, r.msg))
			}
		}
		for _, own := range []bool{false, true} {
			st, fx := theStore, roots[own]
			if own {
				st = ownStore
			}
			rcNow, _ := st.get(caKeys[0].key)
			rkNow, _ := st.get(caKeys[1].key)
			if fx.set {
				if !bytes.Equal(rcNow, fx.rc) || !bytes.Equal(rkNow, fx.rk) {
					fail("cs-root-changed-on-its-storage",
						fmt.Sprintf("start-up %d of %q changed the root stored on a storage where a start-up had succeeded", i+1, hist))
					fx.rc, fx.rk = rcNow, rkNow
				}
				if own == e.own && r.kind == "ok" {
					if c, err := decodeCert(fx.rc); err != nil || !c.Equal(r.root) {
						fail("cs-root-not-reloaded-from-its-storage",
							fmt.Sprintf("start-up %d of %q uses a root other than the one the first successful start-up on this storage left there", i+1, hist))
					}
					if switched {
						tags["root-reloaded-after-storage-switched-back"] = true
					}
				}
			} else if own == e.own && r.kind == "ok" {
				fx.set, fx.rc, fx.rk = true, rcNow, rkNow
			}
		}
	}
	o.Impl = renderToks(toks)
	o.Tags = append(o.Tags, "cs")
	if !anyFault && len(evs) == 1 {
		o.Tags = append(o.Tags, "trivial")
	}
	for t := range tags {
		o.Tags = append(o.Tags, "cs:"+t)
	}
	sort.Strings(o.Tags)
	return o
}
