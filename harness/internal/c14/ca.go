package c14

// The CA half of C14: a fault-injecting certmagic.Storage (registered as the caddy module
// caddy.storage.verif_c14), a runner that starts the REAL pki app (Provision + Start) again and
// again on whatever an interrupted start-up left in that storage, and the implementation-only
// oracle (chain consistency with crypto/x509, root / intermediate stability).

import (
	"bytes"
	"context"
	"crypto"
	"crypto/ecdsa"
	"crypto/elliptic"
	"crypto/rand"
	"crypto/sha256"
	"crypto/x509"
	"crypto/x509/pkix"
	"encoding/hex"
	"encoding/json"
	"encoding/pem"
	"errors"
	"fmt"
	"io/fs"
	"math/big"
	"sort"
	"strconv"
	"strings"
	"sync"
	"time"

	"github.com/caddyserver/caddy/v2"
	"github.com/caddyserver/caddy/v2/modules/caddypki"
	"github.com/caddyserver/certmagic"

	"verif/harness/internal/core"
)

// ---------------------------------------------------------------- fault-injecting storage

type opRec struct {
	kind  string // L S D E I T K U
	key   string
	value []byte
}

type crashSignal struct{}

var errInjected = errors.New("verif: injected storage I/O error")

type faultStore struct {
	mu       sync.Mutex
	data     map[string][]byte
	nops     int
	faultIdx int    // 0 = none
	mode     string // cb ca fb fa
	log      []opRec
	quiet    bool // observation by the harness: no log, no faults
}

var theStore = &faultStore{data: map[string][]byte{}}

func (s *faultStore) reset() {
	s.mu.Lock()
	defer s.mu.Unlock()
	s.data = map[string][]byte{}
	s.nops, s.faultIdx, s.mode, s.log = 0, 0, "", nil
}

func (s *faultStore) begin(idx int, mode string) {
	s.mu.Lock()
	defer s.mu.Unlock()
	s.nops, s.faultIdx, s.mode, s.log = 0, idx, mode, nil
}

// op registers one storage operation; it returns the fault mode that fires at it ("" = none).
func (s *faultStore) op(kind, key string, value []byte) string {
	if s.quiet {
		return ""
	}
	s.nops++
	s.log = append(s.log, opRec{kind, key, append([]byte(nil), value...)})
	if s.faultIdx != 0 && s.nops == s.faultIdx {
		return s.mode
	}
	return ""
}

func (s *faultStore) Store(_ context.Context, key string, value []byte) error {
	s.mu.Lock()
	defer s.mu.Unlock()
	put := func() { s.data[key] = append([]byte(nil), value...) }
	switch s.op("S", key, value) {
	case "cb":
		panic(crashSignal{})
	case "ca":
		put()
		panic(crashSignal{})
	case "fb":
		return errInjected
	case "fa":
		put()
		return errInjected
	}
	put()
	return nil
}

func (s *faultStore) Load(_ context.Context, key string) ([]byte, error) {
	s.mu.Lock()
	defer s.mu.Unlock()
	switch s.op("L", key, nil) {
	case "cb", "ca":
		panic(crashSignal{})
	case "fb", "fa":
		return nil, errInjected
	}
	v, ok := s.data[key]
	if !ok {
		return nil, fs.ErrNotExist
	}
	return append([]byte(nil), v...), nil
}

func (s *faultStore) Delete(_ context.Context, key string) error {
	s.mu.Lock()
	defer s.mu.Unlock()
	switch s.op("D", key, nil) {
	case "cb":
		panic(crashSignal{})
	case "ca":
		delete(s.data, key)
		panic(crashSignal{})
	case "fb":
		return errInjected
	case "fa":
		delete(s.data, key)
		return errInjected
	}
	if _, ok := s.data[key]; !ok {
		return fs.ErrNotExist
	}
	delete(s.data, key)
	return nil
}

func (s *faultStore) Exists(_ context.Context, key string) bool {
	s.mu.Lock()
	defer s.mu.Unlock()
	switch s.op("E", key, nil) {
	case "cb", "ca":
		panic(crashSignal{})
	}
	_, ok := s.data[key]
	return ok
}

func (s *faultStore) List(_ context.Context, path string, recursive bool) ([]string, error) {
	s.mu.Lock()
	defer s.mu.Unlock()
	switch s.op("I", path, nil) {
	case "cb", "ca":
		panic(crashSignal{})
	case "fb", "fa":
		return nil, errInjected
	}
	var out []string
	for k := range s.data {
		if strings.HasPrefix(k, path) {
			out = append(out, k)
		}
	}
	sort.Strings(out)
	if len(out) == 0 {
		return nil, fs.ErrNotExist
	}
	return out, nil
}

func (s *faultStore) Stat(_ context.Context, key string) (certmagic.KeyInfo, error) {
	s.mu.Lock()
	defer s.mu.Unlock()
	switch s.op("T", key, nil) {
	case "cb", "ca":
		panic(crashSignal{})
	case "fb", "fa":
		return certmagic.KeyInfo{}, errInjected
	}
	v, ok := s.data[key]
	if !ok {
		return certmagic.KeyInfo{}, fs.ErrNotExist
	}
	return certmagic.KeyInfo{Key: key, Size: int64(len(v)), IsTerminal: true}, nil
}

func (s *faultStore) Lock(_ context.Context, name string) error {
	s.mu.Lock()
	defer s.mu.Unlock()
	switch s.op("K", name, nil) {
	case "cb", "ca":
		panic(crashSignal{})
	case "fb", "fa":
		return errInjected
	}
	return nil
}

func (s *faultStore) Unlock(_ context.Context, name string) error {
	s.mu.Lock()
	defer s.mu.Unlock()
	switch s.op("U", name, nil) {
	case "cb", "ca":
		panic(crashSignal{})
	case "fb", "fa":
		return errInjected
	}
	return nil
}

func (s *faultStore) tamper(ev caEvent) {
	s.mu.Lock()
	defer s.mu.Unlock()
	if ev.tamper == "c" {
		if v, ok := s.data[ev.src]; ok {
			s.data[ev.dst] = append([]byte(nil), v...)
			return
		}
	}
	delete(s.data, ev.dst)
}

func (s *faultStore) get(key string) ([]byte, bool) {
	s.mu.Lock()
	defer s.mu.Unlock()
	v, ok := s.data[key]
	return v, ok
}

// storageModule is the caddy module through which the pki app reaches theStore.
type storageModule struct{}

func (storageModule) CaddyModule() caddy.ModuleInfo {
	return caddy.ModuleInfo{ID: "caddy.storage.verif_c14", New: func() caddy.Module { return new(storageModule) }}
}

func (*storageModule) CertMagicStorage() (certmagic.Storage, error) { return theStore, nil }

func init() {
	caddy.RegisterModule(storageModule{})
}

// ---------------------------------------------------------------- the base context

var (
	baseOnce sync.Once
	baseCtx  caddy.Context
	baseErr  error
)

func base() (caddy.Context, error) {
	baseOnce.Do(func() {
		cfg := &caddy.Config{
			Admin: &caddy.AdminConfig{Disabled: true},
			Logging: &caddy.Logging{Logs: map[string]*caddy.CustomLog{
				"default": {BaseLog: caddy.BaseLog{WriterRaw: json.RawMessage(`{"output":"discard"}`)}},
			}},
			StorageRaw: json.RawMessage(`{"module":"verif_c14"}`),
		}
		baseCtx, baseErr = caddy.ProvisionContext(cfg)
	})
	return baseCtx, baseErr
}

// ---------------------------------------------------------------- canonical naming

const caID = "local"

var caKeys = []struct{ short, key string }{
	{"rc", "pki/authorities/" + caID + "/root.crt"},
	{"rk", "pki/authorities/" + caID + "/root.key"},
	{"ic", "pki/authorities/" + caID + "/intermediate.crt"},
	{"ik", "pki/authorities/" + caID + "/intermediate.key"},
}

func shortKey(k string) string {
	for _, c := range caKeys {
		if c.key == k {
			return c.short
		}
	}
	return "?" + core.Hex(k)
}

// tok is a piece of the answer: literal text or a raw key identity to be renamed.
type tok struct {
	s  string
	id string
}

type decoded struct {
	cert *x509.Certificate
	pub  crypto.PublicKey // of a private key blob
}

type namer struct {
	blobs   map[[32]byte]decoded
	chains  map[[32]byte]string         // (root, inter, key) already judged by chainProblem
	pubs    map[string]crypto.PublicKey // raw id -> public key (every key ever seen in this case)
	signers map[[32]byte]string         // certificate (hash of its DER) -> raw id of the key that signed it
}

func spkiID(pub crypto.PublicKey) string {
	der, err := x509.MarshalPKIXPublicKey(pub)
	if err != nil {
		return "unmarshalable"
	}
	h := sha256.Sum256(der)
	return hex.EncodeToString(h[:8])
}

func (n *namer) learn(pub crypto.PublicKey) string {
	id := spkiID(pub)
	n.pubs[id] = pub
	return id
}

func decodeCert(pemBytes []byte) (*x509.Certificate, error) {
	blk, _ := pem.Decode(pemBytes)
	if blk == nil || blk.Type != "CERTIFICATE" {
		return nil, fmt.Errorf("no certificate PEM")
	}
	return x509.ParseCertificate(blk.Bytes)
}

func (n *namer) decode(v []byte) decoded {
	h := sha256.Sum256(v)
	if d, ok := n.blobs[h]; ok {
		return d
	}
	var d decoded
	if c, err := decodeCert(v); err == nil {
		d.cert = c
	} else if k, err := certmagic.PEMDecodePrivateKey(v); err == nil {
		d.pub = k.Public()
	}
	n.blobs[h] = d
	return d
}

// learnBlob records the public keys a stored value reveals.
func (n *namer) learnBlob(v []byte) {
	d := n.decode(v)
	if d.cert != nil {
		n.learn(d.cert.PublicKey)
	} else if d.pub != nil {
		n.learn(d.pub)
	}
}

func (n *namer) signerOf(c *x509.Certificate) (string, bool) {
	h := sha256.Sum256(c.Raw)
	if id, ok := n.signers[h]; ok {
		return id, true
	}
	id, ok := n.findSigner(c)
	if ok {
		n.signers[h] = id
	}
	return id, ok
}

func (n *namer) findSigner(c *x509.Certificate) (string, bool) {
	ids := make([]string, 0, len(n.pubs))
	for id := range n.pubs {
		ids = append(ids, id)
	}
	sort.Strings(ids)
	for _, id := range ids {
		parent := &x509.Certificate{PublicKey: n.pubs[id], PublicKeyAlgorithm: c.PublicKeyAlgorithm}
		if _, ok := n.pubs[id].(*ecdsa.PublicKey); ok {
			parent.PublicKeyAlgorithm = x509.ECDSA
		}
		if parent.CheckSignature(c.SignatureAlgorithm, c.RawTBSCertificate, c.Signature) == nil {
			return id, true
		}
	}
	return "", false
}

func (n *namer) certToks(c *x509.Certificate) []tok {
	out := []tok{{s: "c"}, {id: n.learn(c.PublicKey)}, {s: "/"}}
	if sg, ok := n.signerOf(c); ok {
		return append(out, tok{id: sg})
	}
	return append(out, tok{s: "?"})
}

func (n *namer) blobToks(v []byte) []tok {
	d := n.decode(v)
	if d.cert != nil {
		return n.certToks(d.cert)
	}
	if d.pub != nil {
		return []tok{{s: "k"}, {id: n.learn(d.pub)}}
	}
	return []tok{{s: "?"}}
}

func renderToks(ts []tok) string {
	var sb strings.Builder
	seen := map[string]int{}
	for _, t := range ts {
		if t.id == "" {
			sb.WriteString(t.s)
			continue
		}
		i, ok := seen[t.id]
		if !ok {
			i = len(seen)
			seen[t.id] = i
		}
		sb.WriteString(strconv.Itoa(i))
	}
	return sb.String()
}

// ---------------------------------------------------------------- one start-up

type caEvent struct {
	life  string // s | l
	idx   int
	mode  string
	fault bool
	tick  bool // m: a maintenance pass of the process the latest start-up left running
	// tampering between two start-ups (not an interruption): delete a value / copy one over another
	tamper   string // "" | d | c
	src, dst string
}

func longKey(short string) (string, bool) {
	for _, c := range caKeys {
		if c.short == short {
			return c.key, true
		}
	}
	return "", false
}

func parseCAEvents(s string) ([]caEvent, bool) {
	var out []caEvent
	for _, p := range strings.Split(s, ";") {
		a := strings.Split(p, ":")
		if len(a) == 2 && a[0] == "d" {
			k, ok := longKey(a[1])
			if !ok {
				return nil, false
			}
			out = append(out, caEvent{tamper: "d", dst: k})
			continue
		}
		if len(a) == 2 && a[0] == "c" {
			ab := strings.Split(a[1], ">")
			if len(ab) != 2 {
				return nil, false
			}
			src, ok1 := longKey(ab[0])
			dst, ok2 := longKey(ab[1])
			if !ok1 || !ok2 {
				return nil, false
			}
			out = append(out, caEvent{tamper: "c", src: src, dst: dst})
			continue
		}
		if len(a) != 2 || (a[0] != "s" && a[0] != "l" && a[0] != "m") {
			return nil, false
		}
		ev := caEvent{life: a[0], tick: a[0] == "m"}
		if a[1] != "-" {
			if len(a[1]) < 3 {
				return nil, false
			}
			m := a[1][len(a[1])-2:]
			if m != "cb" && m != "ca" && m != "fb" && m != "fa" {
				return nil, false
			}
			ds := a[1][:len(a[1])-2]
			for _, ch := range ds {
				if ch < '0' || ch > '9' {
					return nil, false
				}
			}
			k, err := strconv.Atoi(ds)
			if err != nil || k == 0 {
				return nil, false
			}
			ev.idx, ev.mode, ev.fault = k, m, true
		}
		out = append(out, ev)
	}
	return out, true
}

func errClassCA(err error) string {
	s := err.Error()
	for _, c := range []struct{ sub, class string }{
		{"loading root cert:", "load-root-cert"},
		{"generating root:", "gen-root"},
		{"parsing root certificate PEM", "parse-root-cert"},
		{"loading root key", "load-root-key"},
		{"decoding root key", "decode-root-key"},
		{"loading intermediate cert:", "load-inter-cert"},
		{"generating new intermediate cert", "gen-inter"},
		{"decoding intermediate certificate PEM", "decode-inter-cert"},
		{"loading intermediate key", "load-inter-key"},
		{"decoding intermediate key", "decode-inter-key"},
	} {
		if strings.Contains(s, c.sub) {
			return c.class
		}
	}
	return "other"
}

type startResult struct {
	kind  string // ok err crash
	class string
	msg   string
	root  *x509.Certificate
	inter *x509.Certificate
	ikey  crypto.Signer
	rkey  crypto.Signer
	rkErr error
	app   *caddypki.PKI // the running instance (kind ok)
	// the intermediate pair held between Provision and Start does not match (seen only after
	// an interrupted renewal; Start's own renewal replaces it)
	mismatchBeforeStart bool
}

func pkiJSON(life string) json.RawMessage { return pkiJSONOn(life, false) }

func pkiJSONOn(life string, own bool) json.RawMessage {
	ca := map[string]any{"install_trust": false}
	if own {
		ca["storage"] = map[string]any{"module": "verif_c14_own"}
	}
	if life == "s" {
		ca["intermediate_lifetime"] = 1 // one nanosecond: inside its renewal window as soon as it exists
	}
	b, _ := json.Marshal(map[string]any{"certificate_authorities": map[string]any{caID: ca}})
	return b
}

// startOnce = one start-up of the pki app (Provision, then Start) on theStore.
// observe reads what a running instance holds in memory.
func observe(app *caddypki.PKI) startResult {
	ca := app.CAs[caID]
	r := startResult{kind: "ok", root: ca.RootCertificate(), inter: ca.IntermediateCertificate(), app: app}
	if k, ok := ca.IntermediateKey().(crypto.Signer); ok {
		r.ikey = k
	}
	// RootKey() goes to storage: observe without logging or faults
	theStore.quiet, ownStore.quiet = true, true
	rk, err := ca.RootKey()
	theStore.quiet, ownStore.quiet = false, false
	if s, ok := rk.(crypto.Signer); ok && err == nil {
		r.rkey = s
	} else {
		r.rkErr = err
	}
	return r
}

// tickOnce = one maintenance pass (renewCerts, through the hook VerifRenewCerts) of a running instance.
func tickOnce(app *caddypki.PKI, ev caEvent) (res startResult) {
	if ev.fault {
		theStore.begin(ev.idx, ev.mode)
	} else {
		theStore.begin(0, "")
	}
	done := make(chan startResult, 1)
	go func() {
		defer func() {
			if p := recover(); p != nil {
				if _, ok := p.(crashSignal); ok {
					done <- startResult{kind: "crash"}
					return
				}
				done <- startResult{kind: "err", class: "panic", msg: fmt.Sprint(p)}
			}
		}()
		app.VerifRenewCerts()
		done <- observe(app)
	}()
	select {
	case res = <-done:
	case <-time.After(20 * time.Second):
		res = startResult{kind: "err", class: "timeout"}
	}
	return res
}

// startOnce = one start-up of the pki app (Provision, then Start) on theStore. The instance keeps
// running until stop is called.
func startOnce(ev caEvent) (res startResult, stop func()) { return startOnceOn(ev, false) }

// startOnceOn: own = the CA's config names a storage module of its own (ownStore, twostores.go); the
// fault of the event is armed on the storage the config selects, the other one only records.
func startOnceOn(ev caEvent, own bool) (res startResult, stop func()) {
	b, err := base()
	if err != nil {
		return startResult{kind: "err", class: "harness-base-context", msg: err.Error()}, func() {}
	}
	sel, other := theStore, ownStore
	if own {
		sel, other = ownStore, theStore
	}
	other.begin(0, "")
	if ev.fault {
		sel.begin(ev.idx, ev.mode)
	} else {
		sel.begin(0, "")
	}
	ctx, cancel := caddy.NewContext(b)
	done := make(chan startResult, 1)
	go func() {
		var r startResult
		defer func() {
			if p := recover(); p != nil {
				if _, ok := p.(crashSignal); ok {
					done <- startResult{kind: "crash"}
					return
				}
				done <- startResult{kind: "err", class: "panic", msg: fmt.Sprint(p)}
				return
			}
			done <- r
		}()
		val, err := ctx.LoadModuleByID("pki", pkiJSONOn(ev.life, own))
		if err != nil {
			r = startResult{kind: "err", class: errClassCA(err), msg: err.Error()}
			return
		}
		app := val.(*caddypki.PKI)
		mismatch := false
		if ca0 := app.CAs[caID]; ca0 != nil {
			if k, ok := ca0.IntermediateKey().(crypto.Signer); ok && ca0.IntermediateCertificate() != nil {
				mismatch = !samePub(k.Public(), ca0.IntermediateCertificate().PublicKey)
			}
		}
		defer func() { r.mismatchBeforeStart = mismatch }()
		if err := app.Start(); err != nil {
			r = startResult{kind: "err", class: "start", msg: err.Error()}
			return
		}
		r = observe(app)
	}()
	select {
	case res = <-done:
	case <-time.After(20 * time.Second):
		res = startResult{kind: "err", class: "timeout"}
	}
	return res, cancel
}

func samePub(a, b crypto.PublicKey) bool {
	type eq interface{ Equal(crypto.PublicKey) bool }
	if x, ok := a.(eq); ok {
		return x.Equal(b)
	}
	return false
}

// needsRenewal is caddypki's formula (maintain.go), evaluated by the oracle on a stored certificate.
func needsRenewal(c *x509.Certificate) bool {
	lifetime := c.NotAfter.Sub(c.NotBefore)
	window := time.Duration(float64(lifetime) * 0.2)
	return time.Now().After(c.NotAfter.Add(-window))
}

// chainProblem is the consistency part of the property evaluated with crypto/x509 on what a
// successful start-up holds in memory and on what it left in storage.
func chainProblem(r startResult) string {
	if r.root == nil || r.inter == nil || r.ikey == nil {
		return "start-up succeeded without root / intermediate / intermediate key"
	}
	if err := r.root.CheckSignatureFrom(r.root); err != nil {
		return "root certificate is not self-signed: " + err.Error()
	}
	if err := r.inter.CheckSignatureFrom(r.root); err != nil {
		return "intermediate is not signed by the root: " + err.Error()
	}
	if !samePub(r.ikey.Public(), r.inter.PublicKey) {
		return "intermediate key does not belong to the intermediate certificate"
	}
	if r.rkey == nil {
		return fmt.Sprintf("root key cannot be loaded after a successful start-up: %v", r.rkErr)
	}
	if !samePub(r.rkey.Public(), r.root.PublicKey) {
		return "root key does not belong to the root certificate"
	}
	// end to end: a leaf issued with the intermediate key verifies up to the root
	lk, err := ecdsa.GenerateKey(elliptic.P256(), rand.Reader)
	if err != nil {
		return ""
	}
	tmpl := &x509.Certificate{
		SerialNumber: big.NewInt(14), Subject: pkix.Name{CommonName: "leaf.c14.test"},
		DNSNames:  []string{"leaf.c14.test"},
		NotBefore: r.inter.NotBefore.Add(-time.Hour), NotAfter: r.inter.NotAfter.Add(time.Hour),
		KeyUsage: x509.KeyUsageDigitalSignature, ExtKeyUsage: []x509.ExtKeyUsage{x509.ExtKeyUsageServerAuth},
	}
	der, err := x509.CreateCertificate(rand.Reader, tmpl, r.inter, lk.Public(), r.ikey)
	if err != nil {
		return "issuing a leaf with the intermediate key failed: " + err.Error()
	}
	leaf, err := x509.ParseCertificate(der)
	if err != nil {
		return "issued leaf does not parse: " + err.Error()
	}
	roots, inters := x509.NewCertPool(), x509.NewCertPool()
	roots.AddCert(r.root)
	inters.AddCert(r.inter)
	if _, err := leaf.Verify(x509.VerifyOptions{Roots: roots, Intermediates: inters, CurrentTime: r.inter.NotBefore,
		DNSName: "leaf.c14.test"}); err != nil {
		return "leaf issued by the intermediate does not verify up to the root: " + err.Error()
	}
	return ""
}

// chainProblemMemo: the same (root, intermediate, key) triple is judged once per case.
func (n *namer) chainProblemMemo(r startResult) string {
	if r.root == nil || r.inter == nil || r.ikey == nil || r.rkey == nil {
		return chainProblem(r)
	}
	h := sha256.New()
	h.Write(r.root.Raw)
	h.Write(r.inter.Raw)
	h.Write([]byte(spkiID(r.ikey.Public())))
	h.Write([]byte(spkiID(r.rkey.Public())))
	var k [32]byte
	copy(k[:], h.Sum(nil))
	if p, ok := n.chains[k]; ok {
		return p
	}
	p := chainProblem(r)
	n.chains[k] = p
	return p
}

func storeProblem(r startResult) string {
	rc, _ := theStore.get(caKeys[0].key)
	rk, _ := theStore.get(caKeys[1].key)
	ic, _ := theStore.get(caKeys[2].key)
	ik, _ := theStore.get(caKeys[3].key)
	c, err := decodeCert(rc)
	if err != nil || !c.Equal(r.root) {
		return "stored root certificate is not the one in use"
	}
	k, err := certmagic.PEMDecodePrivateKey(rk)
	if err != nil || !samePub(k.Public(), r.root.PublicKey) {
		return "stored root key does not belong to the root in use"
	}
	c, err = decodeCert(ic)
	if err != nil || !c.Equal(r.inter) {
		return "stored intermediate certificate is not the one in use"
	}
	k, err = certmagic.PEMDecodePrivateKey(ik)
	if err != nil || !samePub(k.Public(), r.inter.PublicKey) {
		return "stored intermediate key does not belong to the intermediate in use"
	}
	return ""
}

// runCA runs one `ca` history.
func runCA(line, hist string) core.Outcome {
	evs, ok := parseCAEvents(hist)
	if !ok {
		return core.Outcome{Impl: "bad-op"}
	}
	theStore.reset()
	nm := &namer{pubs: map[string]crypto.PublicKey{}, signers: map[[32]byte]string{},
		blobs: map[[32]byte]decoded{}, chains: map[[32]byte]string{}}
	var o core.Outcome
	var toks []tok
	fail := func(class, what string) {
		o.Failures = append(o.Failures, core.Failure{Case: line, Class: class, What: what})
	}
	tags := map[string]bool{}
	var running *caddypki.PKI // the process the latest start-up left running
	stopRunning := func() {}
	defer func() { stopRunning() }()
	var stableRC, stableRK []byte // root as of the first successful start-up
	rootFixed := false
	anyFault := false
	tampered := false // after tampering the property promises nothing: correspondence only
	for i, ev := range evs {
		if i > 0 {
			toks = append(toks, tok{s: " ; "})
		}
		if ev.tamper != "" {
			theStore.tamper(ev)
			tampered = true
			tags["tampered"] = true
			toks = append(toks, tok{s: "T {"})
			for j, ck := range caKeys {
				if j > 0 {
					toks = append(toks, tok{s: ","})
				}
				toks = append(toks, tok{s: ck.short + "="})
				if v, ok := theStore.get(ck.key); ok {
					nm.learnBlob(v)
					toks = append(toks, nm.blobToks(v)...)
				} else {
					toks = append(toks, tok{s: "-"})
				}
			}
			toks = append(toks, tok{s: "}"})
			continue
		}
		// state before, for the stability clauses
		icBefore, icPresent := theStore.get(caKeys[2].key)
		ikBefore, _ := theStore.get(caKeys[3].key)
		interDue, interOwnKey := true, false
		if icPresent {
			if c, err := decodeCert(icBefore); err == nil {
				interDue = needsRenewal(c)
				if k, err := certmagic.PEMDecodePrivateKey(ikBefore); err == nil {
					interOwnKey = samePub(k.Public(), c.PublicKey)
				}
			}
		}
		var r startResult
		if ev.tick {
			tags["maintenance-pass"] = true
			if running == nil {
				toks = append(toks, tok{s: "m:norun {"})
				for j, ck := range caKeys {
					if j > 0 {
						toks = append(toks, tok{s: ","})
					}
					toks = append(toks, tok{s: ck.short + "="})
					if v, ok := theStore.get(ck.key); ok {
						nm.learnBlob(v)
						toks = append(toks, nm.blobToks(v)...)
					} else {
						toks = append(toks, tok{s: "-"})
					}
				}
				toks = append(toks, tok{s: "}"})
				continue
			}
			toks = append(toks, tok{s: "m:"})
			r = tickOnce(running, ev)
			if r.kind != "ok" {
				stopRunning() // the process died
				running, stopRunning = nil, func() {}
			}
		} else {
			stopRunning() // a new start-up: the old process is gone
			var stop func()
			r, stop = startOnce(ev)
			running, stopRunning = nil, func() {}
			if r.kind == "ok" {
				running, stopRunning = r.app, stop
			} else {
				stop()
			}
		}
		log := theStore.log
		fired := ev.fault && ev.idx <= len(log)
		if fired {
			anyFault = true
			tags["fault:"+ev.mode] = true
			tags["fault-at:"+log[ev.idx-1].kind+":"+shortKey(log[ev.idx-1].key)] = true
			if ev.tick {
				tags["maintenance-pass-interrupted:"+ev.mode] = true
			}
			if ev.mode == "fa" && r.kind == "ok" && log[ev.idx-1].kind == "S" && shortKey(log[ev.idx-1].key) == "ic" {
				// the error is only logged: from now on this process's memory and the storage disagree
				tags["swallowed-cert-write-error-after-effect"] = true
			}
		}
		for _, op := range log {
			if op.kind == "S" {
				nm.learnBlob(op.value)
			}
		}
		for _, ck := range caKeys {
			if v, ok := theStore.get(ck.key); ok {
				nm.learnBlob(v)
			}
		}
		// ---- canonical answer
		switch r.kind {
		case "ok":
			toks = append(toks, tok{s: "ok(r="})
			toks = append(toks, nm.certToks(r.root)...)
			toks = append(toks, tok{s: ",i="})
			toks = append(toks, nm.certToks(r.inter)...)
			toks = append(toks, tok{s: ",k="})
			if r.ikey != nil {
				toks = append(toks, tok{s: "k"}, tok{id: nm.learn(r.ikey.Public())})
			} else {
				toks = append(toks, tok{s: "?"})
			}
			toks = append(toks, tok{s: ")"})
		case "err":
			toks = append(toks, tok{s: "err:" + r.class})
			tags["err:"+r.class] = true
		default:
			toks = append(toks, tok{s: "crash"})
		}
		toks = append(toks, tok{s: " ["})
		renewed := false
		nStores := 0
		for j, op := range log {
			if j > 0 {
				toks = append(toks, tok{s: ","})
			}
			switch op.kind {
			case "L":
				toks = append(toks, tok{s: "L:" + shortKey(op.key)})
			case "S":
				toks = append(toks, tok{s: "S:" + shortKey(op.key) + "="})
				toks = append(toks, nm.blobToks(op.value)...)
				nStores++
			default:
				toks = append(toks, tok{s: op.kind + ":" + shortKey(op.key)})
			}
		}
		if nStores > 4 || (nStores > 0 && icPresent) {
			renewed = true
		}
		toks = append(toks, tok{s: "] {"})
		for j, ck := range caKeys {
			if j > 0 {
				toks = append(toks, tok{s: ","})
			}
			toks = append(toks, tok{s: ck.short + "="})
			if v, ok := theStore.get(ck.key); ok {
				toks = append(toks, nm.blobToks(v)...)
			} else {
				toks = append(toks, tok{s: "-"})
			}
		}
		toks = append(toks, tok{s: "}"})
		if renewed {
			tags["renewal"] = true
		}
		if r.mismatchBeforeStart {
			tags["provision-held-mismatched-intermediate-until-start-renewed-it"] = true
		}
		if !fired && i > 0 && anyFault {
			tags["restart-after-interruption"] = true
		}

		// ---- oracle (implementation only)
		if tampered {
			continue
		}
		rcNow, _ := theStore.get(caKeys[0].key)
		rkNow, _ := theStore.get(caKeys[1].key)
		icNow, icNowOK := theStore.get(caKeys[2].key)
		ikNow, _ := theStore.get(caKeys[3].key)
		if !fired && !ev.tick {
			// an uninterrupted start-up on whatever earlier (interrupted) start-ups left behind
			switch r.kind {
			case "ok":
				if p := nm.chainProblemMemo(r); p != "" {
					fail("ca-inconsistent-chain-after-startup", fmt.Sprintf("start-up %d of %q succeeded but: %s", i+1, hist, p))
				} else if p := storeProblem(r); p != "" {
					fail("ca-store-incomplete-after-startup", fmt.Sprintf("start-up %d of %q succeeded but: %s", i+1, hist, p))
				}
			default:
				fail("ca-startup-fails-after-interruption",
					fmt.Sprintf("uninterrupted start-up %d of %q did not succeed: %s %s %s", i+1, hist, r.kind, r.class, r.msg))
			}
		}
		if rootFixed {
			if !bytes.Equal(rcNow, stableRC) || !bytes.Equal(rkNow, stableRK) {
				fail("ca-root-changed-after-successful-startup",
					fmt.Sprintf("start-up %d of %q changed the stored root certificate or key", i+1, hist))
				stableRC, stableRK = rcNow, rkNow
			}
			if r.kind == "ok" {
				if c, err := decodeCert(stableRC); err != nil || !c.Equal(r.root) {
					fail("ca-root-changed-after-successful-startup",
						fmt.Sprintf("start-up %d of %q uses a different root than the first successful start-up", i+1, hist))
				}
			}
		} else if r.kind == "ok" {
			rootFixed, stableRC, stableRK = true, rcNow, rkNow
		}
		// "the intermediate is reloaded unchanged until it is renewed": a stored certificate outside
		// its renewal window WITH ITS OWN KEY next to it survives every start-up, interrupted or not
		// (a foreign key — left by an interrupted renewal — makes the next start-up replace the pair;
		// a running process renews by what it holds in memory)
		if icPresent && !interDue && interOwnKey && !ev.tick {
			if !icNowOK || !bytes.Equal(icNow, icBefore) || !bytes.Equal(ikNow, ikBefore) {
				fail("ca-intermediate-changed-without-renewal",
					fmt.Sprintf("start-up %d of %q changed a stored intermediate that is not inside its renewal window", i+1, hist))
			} else if r.kind == "ok" {
				if c, err := decodeCert(icBefore); err != nil || !c.Equal(r.inter) {
					fail("ca-intermediate-changed-without-renewal",
						fmt.Sprintf("start-up %d of %q uses an intermediate other than the stored, still valid one", i+1, hist))
				}
			}
		}
	}
	o.Impl = renderToks(toks)
	o.Tags = append(o.Tags, "ca")
	if !anyFault && len(evs) == 1 {
		o.Tags = append(o.Tags, "trivial")
	}
	for t := range tags {
		o.Tags = append(o.Tags, "ca:"+t)
	}
	sort.Strings(o.Tags)
	return o
}
