package c14

// The autosave half of C14.  A history of config loads is executed by CHILD processes (this same
// binary, `c14child`) calling the real caddy.Load with caddy.ConfigAutosavePath in a private
// directory; every child runs under `strace`, which
//   - records the real sequence of file operations on autosave.json / autosave.json.tmp
//     (open-truncate, write with its payload, rename, anything else), delimited by marker
//     system calls the child issues around each load and from inside a probe app's
//     Provision/Start/Stop;
//   - kills the child, or makes the call fail with EIO, exactly at the k-th such operation.
// The parent replays the observed operations on a two-file simulation to obtain the file
// content at every instant, reads the real files whenever a process has ended, and samples the
// real autosave file concurrently.

import (
	"bufio"
	"bytes"
	"encoding/json"
	"fmt"
	"os"
	"os/exec"
	"path/filepath"
	"reflect"
	"regexp"
	"runtime"
	"sort"
	"strconv"
	"strings"
	"sync"
	"sync/atomic"
	"syscall"
	"time"

	"github.com/caddyserver/caddy/v2"

	"verif/harness/internal/core"
)

// ---------------------------------------------------------------- protocol

type asEvent struct {
	restart bool
	resume  bool // U: restart with --resume (the new process loads what the autosave file holds)
	corrupt bool // a resume whose file content is not a config of this protocol
	n       string
	persist byte // d p n
	flags   string
	fault   byte // 0 K F
	k       int
	raw     string
}

func (e asEvent) has(c byte) bool { return strings.IndexByte(e.flags, c) >= 0 }
func (e asEvent) rejected() bool  { return e.has('x') || e.has('y') || e.has('j') }

// token names the config text: number plus every flag that is part of the JSON.
func (e asEvent) token() string {
	if e.has('z') {
		return "null"
	}
	return e.n + string(e.persist) + strings.ReplaceAll(e.flags, "f", "")
}

func parseASEvents(s string) ([]asEvent, bool) {
	var out []asEvent
	faultsInLife := 0
	for _, p := range strings.Split(s, ";") {
		if p == "R" {
			out = append(out, asEvent{restart: true, raw: p})
			faultsInLife = 0
			continue
		}
		if p == "U" {
			out = append(out, asEvent{resume: true, raw: p})
			faultsInLife = 0
			continue
		}
		a := strings.Split(p, ":")
		if len(a) != 3 || len(a[0]) < 2 || a[0][0] != 'L' || len(a[1]) < 1 {
			return nil, false
		}
		ev := asEvent{n: a[0][1:], persist: a[1][0], flags: a[1][1:], raw: p}
		for _, c := range ev.n {
			if c < '0' || c > '9' {
				return nil, false
			}
		}
		if ev.persist != 'd' && ev.persist != 'p' && ev.persist != 'n' {
			return nil, false
		}
		seen := map[rune]bool{}
		for _, c := range ev.flags {
			if !strings.ContainsRune("fxyjizuv", c) || seen[c] {
				return nil, false
			}
			seen[c] = true
		}
		if seen['z'] && (seen['x'] || seen['y'] || seen['j'] || seen['i'] || seen['u'] || seen['v']) {
			return nil, false // a null config has no app that could fail and no @id
		}
		if (seen['i'] && seen['u']) || (seen['i'] && seen['v']) || (seen['u'] && seen['v']) {
			return nil, false // one @id variant per config: i on the app, u the same renamed, v moved to another object
		}
		if a[2] != "-" {
			if len(a[2]) < 2 || (a[2][0] != 'K' && a[2][0] != 'F') {
				return nil, false
			}
			for _, c := range a[2][1:] {
				if c < '0' || c > '9' {
					return nil, false
				}
			}
			k, err := strconv.Atoi(a[2][1:])
			if err != nil || k == 0 {
				return nil, false
			}
			ev.fault, ev.k = a[2][0], k
			faultsInLife++
			if faultsInLife > 1 {
				return nil, false // one fault per process life (between two R)
			}
		}
		out = append(out, ev)
	}
	return out, true
}

// configJSON is the config a load event pushes.
func (e asEvent) configJSON() []byte {
	if e.has('z') {
		return []byte("null")
	}
	admin := map[string]any{"disabled": true}
	switch e.persist {
	case 'p':
		admin["config"] = map[string]any{"persist": true}
	case 'n':
		admin["config"] = map[string]any{"persist": false}
	}
	n, _ := strconv.Atoi(e.n)
	// (the probe's own "tok" field leaves the id letters out: documents that differ in i/u/v differ
	// in @id tags and in nothing else)
	probe := map[string]any{"n": n, "tok": strings.NewReplacer("i", "", "u", "", "v", "").Replace(e.token())}
	if e.has('x') {
		probe["fail"] = "provision"
	}
	if e.has('y') {
		probe["fail"] = "start"
	}
	// @id tags (meta fields: stripped before the config is decoded, kept in the document): the same
	// config with the tag on the app (i), renamed (u) or moved to the default log (v) differs ONLY in ids
	if e.has('i') {
		probe["@id"] = "id" + e.n
	}
	if e.has('u') {
		probe["@id"] = "jd" + e.n
	}
	defaultLog := map[string]any{"writer": map[string]any{"output": "discard"}}
	if e.has('v') {
		defaultLog["@id"] = "id" + e.n
	}
	cfg := map[string]any{
		"admin":   admin,
		"logging": map[string]any{"logs": map[string]any{"default": defaultLog}},
		"apps":    map[string]any{"c14probe": probe},
	}
	if e.has('j') {
		cfg["c14_unknown_field"] = 1
	}
	b, _ := json.Marshal(cfg)
	return b
}

// tokenOfContent maps file content back to a config token: "-" absent is handled by the caller,
// "e" empty, "<tok>" when the content is a complete JSON document equal to that config as caddy
// re-encodes it, "~" anything else.
func tokenOfContent(c []byte, evs []asEvent) string {
	if len(c) == 0 {
		return "e"
	}
	if string(c) == "null" {
		return "null"
	}
	var v any
	if json.Unmarshal(c, &v) != nil {
		return "~"
	}
	for _, e := range evs {
		if e.restart || e.resume || e.has('z') {
			continue
		}
		var w any
		if json.Unmarshal(e.configJSON(), &w) == nil && reflect.DeepEqual(v, w) {
			return e.token()
		}
	}
	return "~"
}

// ---------------------------------------------------------------- the child

// markers: faccessat(<dir>/mark, mode) — the mode tells what happened
const (
	mkBegin     = 0 // a load begins
	mkEndOK     = 1 // Load returned nil and the running context changed
	mkEndSame   = 2 // Load returned nil, nothing was reloaded
	mkEndRej    = 3 // Load returned an error
	mkProvision = 4 // probe app provisioned
	mkStart     = 5 // probe app started
	mkStop      = 6 // probe app stopped
)

var childDir string

func mark(mode int) {
	if childDir == "" {
		return
	}
	_ = syscall.Faccessat(-100 /* AT_FDCWD */, filepath.Join(childDir, "mark"), uint32(mode), 0)
}

// probeApp is the only app of the pushed configs.
type probeApp struct {
	N    int    `json:"n"`
	Tok  string `json:"tok,omitempty"`
	Fail string `json:"fail,omitempty"`
}

func (probeApp) CaddyModule() caddy.ModuleInfo {
	return caddy.ModuleInfo{ID: "c14probe", New: func() caddy.Module { return new(probeApp) }}
}

func (p *probeApp) Provision(caddy.Context) error {
	mark(mkProvision)
	if p.Fail == "provision" {
		return fmt.Errorf("c14probe: provision fails")
	}
	return nil
}

func (p *probeApp) Start() error {
	if p.Fail == "start" {
		return fmt.Errorf("c14probe: start fails")
	}
	mark(mkStart)
	return nil
}

func (p *probeApp) Stop() error {
	mark(mkStop)
	return nil
}

func init() {
	caddy.RegisterModule(probeApp{})
}

// ChildMain: c14child <dir> <ev>;<ev>;…  (load events only)
func ChildMain(args []string) {
	runtime.LockOSThread() // the injected faults count system calls per thread
	if len(args) != 2 {
		os.Exit(3)
	}
	childDir = args[0]
	evs, ok := parseASEvents(args[1])
	if !ok {
		os.Exit(3)
	}
	caddy.ConfigAutosavePath = filepath.Join(childDir, "autosave.json")
	out := bufio.NewWriter(os.Stdout)
	// every load runs on this (locked) thread; the tracer's output is read for this thread only
	fmt.Fprintf(out, "pid %d %d\n", os.Getpid(), syscall.Gettid())
	out.Flush()
	for _, ev := range evs {
		if ev.restart {
			continue
		}
		cfgJSON, force := ev.configJSON(), ev.has('f')
		if ev.resume {
			// cmd/commandfuncs.go cmdRun with --resume: read the autosave file, Load(config, true)
			b, err := os.ReadFile(caddy.ConfigAutosavePath)
			if err != nil {
				continue
			}
			cfgJSON, force = b, true
		}
		before := caddy.ActiveContext().Context
		mark(mkBegin)
		err := caddy.Load(cfgJSON, force)
		after := caddy.ActiveContext().Context
		switch {
		case err != nil:
			mark(mkEndRej)
			fmt.Fprintf(out, "rej %s\n", strings.ReplaceAll(err.Error(), "\n", " "))
		case before == after:
			mark(mkEndSame)
			fmt.Fprintln(out, "same")
		default:
			mark(mkEndOK)
			fmt.Fprintln(out, "ok")
		}
		out.Flush()
	}
	os.Exit(0)
}

// ---------------------------------------------------------------- strace

type traceOp struct {
	marker   int    // >= 0 for a marker
	name     string // c w mv or the raw system call name
	file     string // p | t
	dst      string
	data     []byte
	complete bool // the call returned success (its effect happened)
	killed   bool // the process was killed at this call
	failed   bool // returned an error
	injected bool // … because strace injected it (otherwise the call failed by itself)
	readOnly bool // a read-only open: no effect, kept only because strace counts it
	sys      string
}

var (
	reLine    = regexp.MustCompile(`^(\d+)\s+(.*)$`)
	reResumed = regexp.MustCompile(`^<\.\.\. (\w+) resumed>(.*)$`)
	reCall    = regexp.MustCompile(`^(\w+)\((.*)$`)
	reQuoted  = regexp.MustCompile(`"((?:[^"\\]|\\.)*)"`)
	reRet     = regexp.MustCompile(`\)\s+= (-?\d+|\?)`)
)

func cUnescape(s string) []byte {
	var out []byte
	for i := 0; i < len(s); i++ {
		c := s[i]
		if c != '\\' || i+1 >= len(s) {
			out = append(out, c)
			continue
		}
		i++
		switch s[i] {
		case 'n':
			out = append(out, '\n')
		case 't':
			out = append(out, '\t')
		case 'r':
			out = append(out, '\r')
		case 'v':
			out = append(out, '\v')
		case 'f':
			out = append(out, '\f')
		case 'x':
			if i+2 < len(s) {
				if v, err := strconv.ParseUint(s[i+1:i+3], 16, 8); err == nil {
					out = append(out, byte(v))
					i += 2
					continue
				}
			}
			out = append(out, 'x')
		case '0', '1', '2', '3', '4', '5', '6', '7':
			j := i
			for j < len(s) && j < i+3 && s[j] >= '0' && s[j] <= '7' {
				j++
			}
			v, _ := strconv.ParseUint(s[i:j], 8, 16)
			out = append(out, byte(v))
			i = j - 1
		default:
			out = append(out, s[i])
		}
	}
	return out
}

// parseTrace turns strace output into the ordered list of markers and file operations.
// Only the lines of thread mainTid are read ("" = all): when a process is killed strace repeats the
// system call in progress once for every thread of the dying process.
func parseTrace(text, dir, mainTid string) []traceOp {
	pathP := filepath.Join(dir, "autosave.json")
	pathT := pathP + ".tmp"
	pathM := filepath.Join(dir, "mark")
	fileOf := func(p string) string {
		switch p {
		case pathP:
			return "p"
		case pathT:
			return "t"
		}
		return ""
	}
	pending := map[string]string{} // pid -> unfinished call text
	var ops []traceOp
	handle := func(call string, unfinished bool) {
		m := reCall.FindStringSubmatch(call)
		if m == nil {
			return
		}
		sys, rest := m[1], m[2]
		ret := ""
		if r := reRet.FindAllStringSubmatch(rest, -1); len(r) > 0 {
			ret = r[len(r)-1][1]
		}
		complete := !unfinished && ret != "" && ret != "?" && !strings.HasPrefix(ret, "-")
		failed := !unfinished && strings.HasPrefix(ret, "-")
		strs := reQuoted.FindAllStringSubmatch(rest, -1)
		arg := func(i int) string {
			if i < len(strs) {
				return string(cUnescape(strs[i][1]))
			}
			return ""
		}
		fdFile := func() string { // first "<path>" annotation of a descriptor argument
			i := strings.Index(rest, "<")
			j := strings.Index(rest, ">")
			if i < 0 || j < i {
				return ""
			}
			return fileOf(strings.TrimSuffix(rest[i+1:j], " (deleted)"))
		}
		op := traceOp{marker: -1, complete: complete, failed: failed, killed: unfinished || ret == "?", sys: sys,
			injected: strings.Contains(rest, "(INJECTED)")}
		switch sys {
		case "faccessat", "faccessat2":
			if arg(0) == pathM {
				mode := 0
				a := rest
				if strings.Contains(a, "R_OK") {
					mode |= 4
				}
				if strings.Contains(a, "W_OK") {
					mode |= 2
				}
				if strings.Contains(a, "X_OK") {
					mode |= 1
				}
				op.marker = mode
				ops = append(ops, op)
			}
			return
		case "openat", "open", "creat":
			f := fileOf(arg(0))
			if f == "" {
				return
			}
			if sys != "creat" && !strings.Contains(rest, "O_TRUNC") && !strings.Contains(rest, "O_CREAT") &&
				!strings.Contains(rest, "O_WRONLY") && !strings.Contains(rest, "O_RDWR") {
				op.name, op.file, op.readOnly = "ro", f, true
				ops = append(ops, op)
				return
			}
			op.name, op.file = "c", f
			if !strings.Contains(rest, "O_TRUNC") && sys != "creat" {
				op.name = "open-no-trunc"
				if strings.Contains(rest, "O_EXCL") {
					op.name = "x" // exclusive create: refused when the file exists
				}
			}
		case "write", "pwrite64":
			f := fdFile()
			if f == "" {
				return
			}
			op.name, op.file, op.data = "w", f, cUnescape(func() string {
				if len(strs) > 0 {
					return strs[0][1]
				}
				return ""
			}())
			if complete {
				if n, err := strconv.Atoi(ret); err == nil && n < len(op.data) {
					op.data = op.data[:n]
					op.name = "w-short"
				}
			}
		case "rename", "renameat", "renameat2":
			a, b := fileOf(arg(0)), fileOf(arg(1))
			if a == "" && b == "" {
				return
			}
			op.name, op.file, op.dst = "mv", a, b
		case "close", "fsync", "fdatasync", "fstat", "newfstatat", "fcntl", "lseek", "read", "readlinkat", "epoll_ctl":
			return
		default:
			f := fdFile()
			if f == "" {
				f = fileOf(arg(0))
			}
			if f == "" {
				return
			}
			op.name, op.file = sys, f
		}
		ops = append(ops, op)
	}
	for _, ln := range strings.Split(text, "\n") {
		m := reLine.FindStringSubmatch(ln)
		if m == nil {
			continue
		}
		pid, body := m[1], m[2]
		if mainTid != "" && pid != mainTid {
			continue
		}
		if strings.HasPrefix(body, "+++") || strings.HasPrefix(body, "---") {
			continue
		}
		if r := reResumed.FindStringSubmatch(body); r != nil {
			if strings.Contains(r[2], "= ?") {
				// resumed only to report that the process is gone: keep it as killed
				if p, ok := pending[pid]; ok {
					handle(p, true)
					delete(pending, pid)
				}
				continue
			}
			if p, ok := pending[pid]; ok {
				handle(p+r[2], false)
				delete(pending, pid)
			}
			continue
		}
		if strings.HasSuffix(body, "<unfinished ...>") {
			pending[pid] = strings.TrimSuffix(body, "<unfinished ...>")
			continue
		}
		handle(body, false)
	}
	// calls that never finished: the process was killed inside them (before they took effect:
	// the injected signal is delivered on entry)
	pids := make([]string, 0, len(pending))
	for pid := range pending {
		pids = append(pids, pid)
	}
	sort.Strings(pids)
	for _, pid := range pids {
		handle(pending[pid], true)
	}
	return ops
}

var straceSyscalls = "openat,open,creat,write,pwrite64,writev,rename,renameat,renameat2,unlink,unlinkat,truncate,ftruncate,link,linkat,symlinkat,faccessat,faccessat2"

type segResult struct {
	ops      []traceOp
	stdout   []string
	killed   bool
	exitErr  string
	traceTxt string
}

// runSegment runs the load events of one process life under strace. inject = extra strace args.
func runSegment(dir string, evs []asEvent, inject []string) segResult {
	var specs []string
	for _, e := range evs {
		specs = append(specs, e.raw)
	}
	exe, err := os.Executable()
	if err != nil {
		return segResult{exitErr: err.Error()}
	}
	tf := filepath.Join(dir, fmt.Sprintf("trace-%d.txt", atomic.AddInt64(&traceSeq, 1)))
	pathP := filepath.Join(dir, "autosave.json")
	args := []string{"-f", "-y", "-s", "262144", "-o", tf,
		"-P", pathP, "-P", pathP + ".tmp", "-P", filepath.Join(dir, "mark"),
		"-e", "trace=" + straceSyscalls, "-e", "signal=none"}
	args = append(args, inject...)
	args = append(args, exe, "c14child", dir, strings.Join(specs, ";"))
	cmd := exec.Command("strace", args...)
	cmd.Env = append(os.Environ(),
		"XDG_DATA_HOME="+filepath.Join(dir, "data"), "XDG_CONFIG_HOME="+filepath.Join(dir, "config"),
		"HOME="+dir, "CADDY_ADMIN=unix/"+filepath.Join(dir, "admin.sock"))
	var stdout bytes.Buffer
	cmd.Stdout = &stdout
	cmd.Dir = dir
	if err := cmd.Start(); err != nil {
		return segResult{exitErr: "strace: " + err.Error()}
	}
	done := make(chan error, 1)
	go func() { done <- cmd.Wait() }()
	var werr error
	select {
	case werr = <-done:
	case <-time.After(60 * time.Second):
		cmd.Process.Kill()
		<-done
		return segResult{exitErr: "timeout"}
	}
	res := segResult{}
	if werr != nil {
		res.exitErr = werr.Error()
		if ee, ok := werr.(*exec.ExitError); ok {
			if ws, ok := ee.Sys().(syscall.WaitStatus); ok && (ws.Signaled() || ws.ExitStatus() == 137) {
				res.killed = true
			}
		}
	}
	tb, _ := os.ReadFile(tf)
	os.Remove(tf)
	res.traceTxt = string(tb)
	if strings.Contains(res.traceTxt, "+++ killed by SIGKILL +++") {
		res.killed = true
	}
	mainTid := ""
	for _, l := range strings.Split(strings.TrimSpace(stdout.String()), "\n") {
		if f := strings.Fields(l); len(f) == 3 && f[0] == "pid" && mainTid == "" {
			mainTid = f[2]
			continue
		}
		if l != "" {
			res.stdout = append(res.stdout, l)
		}
	}
	res.ops = parseTrace(res.traceTxt, dir, mainTid)
	return res
}

var traceSeq int64

// sysOfOp names the system call the tree uses for an observed operation (for fault placement).
func isFileOp(o traceOp) bool { return o.marker < 0 }

// ---------------------------------------------------------------- simulation of the observed operations

type simFS struct {
	p, t *[]byte
}

func (s *simFS) get(f string) **[]byte {
	if f == "p" {
		return &s.p
	}
	return &s.t
}

func (s *simFS) apply(o traceOp) {
	if !o.complete {
		return
	}
	switch o.name {
	case "c":
		e := []byte{}
		*s.get(o.file) = &e
	case "open-no-trunc", "x":
		if *s.get(o.file) == nil {
			e := []byte{}
			*s.get(o.file) = &e
		}
	case "w", "w-short":
		if cur := *s.get(o.file); cur != nil {
			n := append(append([]byte(nil), *cur...), o.data...)
			*s.get(o.file) = &n
		}
	case "mv":
		if o.file != "" && o.dst != "" {
			if cur := *s.get(o.file); cur != nil {
				*s.get(o.dst) = cur
				*s.get(o.file) = nil
			}
		} else if o.dst != "" { // something else moved onto our file: content unknown
			u := []byte("?moved-in?")
			*s.get(o.dst) = &u
		} else if o.file != "" {
			*s.get(o.file) = nil
		}
	case "unlink", "unlinkat":
		*s.get(o.file) = nil
	case "truncate", "ftruncate":
		if cur := *s.get(o.file); cur != nil {
			e := []byte{}
			*s.get(o.file) = &e
		}
	}
}

func contentTok(c *[]byte, evs []asEvent) string {
	if c == nil {
		return "-"
	}
	return tokenOfContent(*c, evs)
}

func readTok(path string, evs []asEvent) (string, []byte) {
	b, err := os.ReadFile(path)
	if err != nil {
		return "-", nil
	}
	return tokenOfContent(b, evs), b
}

func opName(o traceOp, evs []asEvent) string {
	switch o.name {
	case "c":
		return "c:" + o.file
	case "w":
		return "w:" + o.file + ":" + tokenOfContent(o.data, evs)
	case "mv":
		a, b := o.file, o.dst
		if a == "" {
			a = "?"
		}
		if b == "" {
			b = "?"
		}
		return "mv:" + a + ">" + b
	}
	return o.name + ":" + o.file
}

// ---------------------------------------------------------------- one `as` history

type sampler struct {
	stop chan struct{}
	wg   sync.WaitGroup
	mu   sync.Mutex
	bad  []string
	n    int
}

func startSampler(path string, evs []asEvent, pushed map[string]bool) *sampler {
	s := &sampler{stop: make(chan struct{})}
	s.wg.Add(1)
	go func() {
		defer s.wg.Done()
		for {
			select {
			case <-s.stop:
				return
			default:
			}
			b, err := os.ReadFile(path)
			if err == nil {
				t := tokenOfContent(b, evs)
				s.mu.Lock()
				s.n++
				if !pushed[t] && len(s.bad) < 3 {
					s.bad = append(s.bad, fmt.Sprintf("%q", truncate(string(b), 80)))
				}
				s.mu.Unlock()
			}
			time.Sleep(200 * time.Microsecond)
		}
	}()
	return s
}

func truncate(s string, n int) string {
	if len(s) > n {
		return s[:n] + "…"
	}
	return s
}

func runAS(line, hist string) core.Outcome {
	evs, ok := parseASEvents(hist)
	if !ok {
		return core.Outcome{Impl: "bad-op"}
	}
	var o core.Outcome
	fail := func(class, what string) {
		o.Failures = append(o.Failures, core.Failure{Case: line, Class: class, What: what})
	}
	if err := os.MkdirAll("/verif/.run", 0o755); err != nil {
		return core.Outcome{Impl: "harness-error"}
	}
	dir, err := os.MkdirTemp("/verif/.run", "c14as-")
	if err != nil {
		return core.Outcome{Impl: "harness-error"}
	}
	defer os.RemoveAll(dir)
	pathP := filepath.Join(dir, "autosave.json")
	pathT := pathP + ".tmp"

	// the configs that may legitimately be in the file: those of loads without a reject flag
	pushed := map[string]bool{}
	for _, e := range evs {
		if !e.restart && !e.rejected() {
			pushed[e.token()] = true
		}
	}
	smp := startSampler(pathP, evs, pushed)
	defer func() { close(smp.stop); smp.wg.Wait() }()

	tags := map[string]bool{}
	sim := &simFS{}
	accepted := map[string]bool{} // tokens of configs whose load has (so far) succeeded
	var outs []string
	var lastPersisted string // token the file must hold after the latest completed persisting load
	havePersisted := false

	checkInstant := func(where string) {
		if sim.p == nil {
			return
		}
		t := tokenOfContent(*sim.p, evs)
		if !accepted[t] {
			fail("autosave-file-not-a-complete-accepted-config",
				fmt.Sprintf("%s of %q the autosave file holds %q (%s), which is not a complete copy of a config that had been loaded successfully",
					where, hist, truncate(string(*sim.p), 60), t))
		}
	}

	i := 0
	for i < len(evs) {
		if evs[i].restart {
			outs = append(outs, "R[]{p="+contentTok(sim.p, evs)+",t="+contentTok(sim.t, evs)+"}")
			tags["restart"] = true
			i++
			continue
		}
		// one process life: the events up to the next restart (at most one of them carries a
		// fault); a kill ends the process early and the rest of the life runs in a new one
		j := i
		if evs[j].resume {
			j++ // a resume opens a life
		}
		for j < len(evs) && !evs[j].restart && !evs[j].resume {
			j++
		}
		life := append([]asEvent(nil), evs[i:j]...)
		resumeTok := ""
		havePersistedBefore, lastPersistedBefore := havePersisted, lastPersisted
		if life[0].resume {
			tags["resume"] = true
			tok := contentTok(sim.p, evs)
			resumeTok = tok
			if tok == "-" {
				// no autosave file: nothing is resumed
				outs = append(outs, "U:-[]{p="+contentTok(sim.p, evs)+",t="+contentTok(sim.t, evs)+"}")
				life = life[1:]
			} else {
				life[0] = resumeEvent(tok)
			}
		}
		pos := 0
		for pos < len(life) {
			seg := life[pos:]
			faultAt := -1
			for q, e := range seg {
				if e.fault != 0 {
					faultAt = q
					break
				}
			}
			var inject []string
			if faultAt >= 0 {
				// learn where the k-th file operation of that load is, from a fault-free run of the
				// same process life on a copy of the directory
				probeDir, err := os.MkdirTemp("/verif/.run", "c14as-probe-")
				if err == nil {
					copyIfExists(pathP, filepath.Join(probeDir, "autosave.json"))
					copyIfExists(pathT, filepath.Join(probeDir, "autosave.json.tmp"))
					pr := runSegment(probeDir, seg, nil)
					os.RemoveAll(probeDir)
					counts := map[string]int{}
					load, kk := -1, 0
					for _, op := range pr.ops {
						if op.marker == mkBegin {
							load++
							kk = 0
							continue
						}
						if op.marker >= 0 {
							// markers are faccessat calls: they count, too
							counts[op.sys]++
							continue
						}
						counts[op.sys]++
						if load == faultAt {
							kk++
							if kk == seg[faultAt].k {
								what := "signal=KILL"
								if seg[faultAt].fault == 'F' {
									what = "error=EIO"
								}
								inject = []string{"-e", fmt.Sprintf("inject=%s:%s:when=%d", op.sys, what, counts[op.sys])}
								break
							}
						}
					}
				}
			}
			res := runSegment(dir, seg, inject)
			if res.exitErr != "" && !res.killed {
				fail("harness-child-failed", fmt.Sprintf("child process of %q: %s", hist, res.exitErr))
			}
			// split the observed operations per load
			type loadObs struct {
				ops       []traceOp
				end       int
				started   bool
				stopped   bool
				provision bool
				order     []string
			}
			var obs []*loadObs
			var cur *loadObs
			for _, op := range res.ops {
				if op.readOnly {
					continue
				}
				switch {
				case op.marker == mkBegin:
					cur = &loadObs{end: -1}
					obs = append(obs, cur)
				case cur == nil:
					// before the first load: nothing may touch the files
					if op.marker < 0 {
						fail("autosave-written-outside-a-load", fmt.Sprintf("file operation %s before any load of %q", opName(op, evs), hist))
					}
				case op.marker == mkEndOK || op.marker == mkEndSame || op.marker == mkEndRej:
					cur.end = op.marker
				case op.marker == mkProvision:
					cur.provision = true
					cur.order = append(cur.order, "provision")
				case op.marker == mkStart:
					cur.started = true
					cur.order = append(cur.order, "start")
				case op.marker == mkStop:
					cur.stopped = true
					cur.order = append(cur.order, "stop")
				default:
					cur.ops = append(cur.ops, op)
					cur.order = append(cur.order, "file")
				}
			}
			hadRunning := false // does this process have a running probe config
			curTok := ""        // the document this process is running
			ran := len(obs)
			if ran > len(seg) {
				ran = len(seg)
			}
			if !res.killed && ran < len(seg) {
				fail("harness-child-failed", fmt.Sprintf("child process of %q ran %d of %d loads", hist, ran, len(seg)))
				ran = len(seg)
			}
			for li, ev := range seg[:ran] {
				var lo *loadObs
				if li < len(obs) {
					lo = obs[li]
				}
				if lo == nil {
					outs = append(outs, "notrun[]{p="+contentTok(sim.p, evs)+",t="+contentTok(sim.t, evs)+"}")
					continue
				}
				resName := "killed"
				switch lo.end {
				case mkEndOK:
					resName = "ok"
				case mkEndSame:
					resName = "same"
				case mkEndRej:
					resName = "rej"
				}
				tags["load:"+resName] = true
				persistsOn := ev.persist != 'n' && !ev.has('z')
				if resName == "ok" {
					if persistsOn {
						tags["persist:on"] = true
					} else {
						tags["persist:off"] = true
					}
				}
				// a config counts as successfully loaded once its app has started (the run succeeded);
				// for the null config there is no app: it counts from the first file operation on
				isAccepted := lo.end == mkEndOK || (lo.end == -1 && (lo.started || ev.has('z')))
				var names []string
				firstFile := true
				for _, op := range lo.ops {
					if firstFile {
						firstFile = false
						if isAccepted {
							accepted[ev.token()] = true
						}
						// mechanism: written only after the new config runs and the old one was stopped
						if !ev.has('z') {
							ord := strings.Join(lo.order, ",")
							fileAt := strings.Index(ord, "file")
							if !lo.started || strings.Index(ord, "start") > fileAt || (hadRunning && (!lo.stopped || strings.Index(ord, "stop") > fileAt)) {
								fail("autosave-written-before-config-swap",
									fmt.Sprintf("load %s of %q touched the autosave file before the new config was started and the old one stopped (%s)", ev.raw, hist, ord))
							}
						}
					}
					names = append(names, opName(op, evs))
					if op.name == "w" && tokenOfContent(op.data, evs) != ev.token() {
						fail("autosave-writes-something-else",
							fmt.Sprintf("load %s of %q wrote %q to %s", ev.raw, hist, truncate(string(op.data), 60), op.file))
					}
					if op.failed {
						tags["fault:fail:"+op.name] = true
					}
					if op.killed {
						tags["fault:kill:"+op.name] = true
					}
					sim.apply(op)
					checkInstant(fmt.Sprintf("after operation %s of load %s", opName(op, evs), ev.raw))
				}
				if isAccepted {
					accepted[ev.token()] = true
				}
				if len(lo.ops) > 0 {
					if resName == "rej" {
						fail("autosave-written-for-rejected-config", fmt.Sprintf("load %s of %q was rejected but performed %v", ev.raw, hist, names))
					}
					if resName == "same" {
						fail("autosave-written-for-unchanged-config", fmt.Sprintf("load %s of %q was a no-op but performed %v", ev.raw, hist, names))
					}
					if !persistsOn {
						fail("autosave-written-although-persistence-off",
							fmt.Sprintf("load %s of %q has persistence off (or a null config) but performed %v", ev.raw, hist, names))
					}
				}
				if resName == "ok" && persistsOn {
					anyFault := false
					for _, op := range lo.ops {
						// only an INJECTED fault excuses a load that returned without having saved;
						// an operation that fails by itself (e.g. EEXIST on a leftover temp file) does not
						if op.killed || (op.failed && op.injected) {
							anyFault = true
						}
						if op.failed && !op.injected {
							tags["operation-failed-by-itself"] = true
						}
					}
					if !anyFault {
						lastPersisted, havePersisted = ev.token(), true
						if got := contentTok(sim.p, evs); got != ev.token() {
							fail("autosave-not-latest-after-load-returned",
								fmt.Sprintf("load %s of %q returned but the autosave file holds %s", ev.raw, hist, got))
						}
					}
				}
				if resName == "same" && !ev.resume {
					// Load returned nil and nothing was reloaded: that is right only for the very document
					// that is running — "equal after removing the @id tags" is not "equal": the tags are part
					// of what --resume must bring back
					if ev.token() != curTok {
						fail("autosave-push-accepted-without-reload",
							fmt.Sprintf("load %s of %q returned nil without a reload although the running document is %s; the autosave file holds %s",
								ev.raw, hist, curTok, contentTok(sim.p, evs)))
					}
				}
				if resName == "ok" {
					curTok = ev.token()
				}
				if resName == "ok" || (resName == "killed" && lo.started) {
					hadRunning = !ev.has('z')
				}
				prefix := ""
				if ev.resume {
					prefix = "U:" + resumeTok + "="
					// --resume must get the latest config whose persisted load had returned
					if resName != "ok" {
						fail("autosave-resume-fails",
							fmt.Sprintf("restart with --resume in %q could not load the autosave file (%s): %s", hist, resumeTok, resName))
					}
					if havePersistedBefore && resumeTok != lastPersistedBefore {
						fail("autosave-resume-gets-outdated-config",
							fmt.Sprintf("restart with --resume in %q loaded %s, the latest config whose load had returned is %s",
								hist, resumeTok, lastPersistedBefore))
					}
				}
				outs = append(outs, prefix+resName+"["+strings.Join(names, ",")+"]{p="+contentTok(sim.p, evs)+",t="+contentTok(sim.t, evs)+"}")
				if !ev.resume && ev.rejected() != (resName == "rej") && resName != "killed" && resName != "same" {
					fail("harness-probe-config-verdict", fmt.Sprintf("load %s of %q: expected rejected=%v, got %s", ev.raw, hist, ev.rejected(), resName))
				}
			}
			// the process has ended: the real files must be what the observed operations add up to
			gotP, rawP := readTok(pathP, evs)
			gotT, _ := readTok(pathT, evs)
			if gotP != contentTok(sim.p, evs) || gotT != contentTok(sim.t, evs) {
				fail("harness-trace-does-not-explain-files",
					fmt.Sprintf("after a process of %q the files are p=%s t=%s but the observed operations give p=%s t=%s",
						hist, gotP, gotT, contentTok(sim.p, evs), contentTok(sim.t, evs)))
			}
			if rawP != nil && !accepted[gotP] {
				fail("autosave-file-not-a-complete-accepted-config",
					fmt.Sprintf("after a process of %q ended the autosave file holds %q", hist, truncate(string(rawP), 60)))
			}
			if havePersisted && gotP != lastPersisted {
				// later loads of the same process may legitimately not persist; but nothing else may change it
				fail("autosave-not-latest-after-load-returned",
					fmt.Sprintf("after a process of %q ended the autosave file holds %s, the latest persisted load was %s", hist, gotP, lastPersisted))
			}
			if res.killed {
				tags["process-killed"] = true
				if ran == 0 {
					ran = 1
				}
				pos += ran
			} else {
				pos = len(life)
			}
		}
		i = j
	}
	close(smp.stop)
	smp.wg.Wait()
	smp.stop = make(chan struct{}) // the deferred close needs an open channel
	if len(smp.bad) > 0 {
		fail("autosave-file-incomplete-when-sampled",
			fmt.Sprintf("while %q ran, a concurrent reader saw the autosave file as %s", hist, strings.Join(smp.bad, " / ")))
	}
	o.Impl = strings.Join(outs, " ")
	o.Tags = append(o.Tags, "as")
	for t := range tags {
		o.Tags = append(o.Tags, "as:"+t)
	}
	sort.Strings(o.Tags)
	return o
}

// resumeEvent is what the parent expects of a `U`: the load of the config named by the token the
// autosave file holds, with forceReload.
func resumeEvent(tok string) asEvent {
	ev := asEvent{resume: true, raw: "U", persist: 'd', flags: "f"}
	if tok == "null" {
		ev.flags = "fz"
		ev.n = "0"
		return ev
	}
	i := 0
	for i < len(tok) && tok[i] >= '0' && tok[i] <= '9' {
		i++
	}
	if i == 0 || i >= len(tok) || !strings.ContainsRune("dpn", rune(tok[i])) {
		ev.corrupt = true
		ev.n = "0"
		return ev
	}
	ev.n, ev.persist = tok[:i], tok[i]
	for _, c := range tok[i+1:] {
		if !strings.ContainsRune("xyjiuv", c) {
			ev.corrupt = true
			return ev
		}
		ev.flags += string(c)
	}
	return ev
}

func copyIfExists(src, dst string) {
	if b, err := os.ReadFile(src); err == nil {
		os.WriteFile(dst, b, 0o600)
	}
}
