// Package c14: persisted state (local CA, autosaved config) survives any interruption.
//
//	ca <ev>;…   start-ups of the real pki app on a fault-injecting storage (ca.go)
//	as <ev>;…   config loads by real caddy processes under strace (autosave.go)
//
// The protocol is described in lean/CaddyModel/C14/Driver.lean.
package c14

import (
	"fmt"
	"os"
	"runtime"
	"strings"
	"sync"
	"syscall"

	"verif/harness/internal/core"
)

type prop struct{}

func New() core.Prop {
	// the pki app and caddy's default logger write to stderr: keep the check's output readable
	if os.Getenv("VERIF_C14_STDERR") == "" {
		if f, err := os.OpenFile(os.DevNull, os.O_WRONLY, 0); err == nil {
			_ = syscall.Dup3(int(f.Fd()), 2, 0)
		}
	}
	return prop{}
}

func (prop) ID() string { return "C14" }

// memo of autosave cases computed ahead of time by Generate's worker pool (every `as` case runs
// in its own directory and its own processes, so they are independent of one another; a case is
// still a pure function of its line)
var (
	memoMu sync.Mutex
	memo   = map[string]*core.Outcome{}
)

func (prop) Run(line string) core.Outcome {
	memoMu.Lock()
	if o, ok := memo[line]; ok {
		delete(memo, line)
		memoMu.Unlock()
		return *o
	}
	memoMu.Unlock()
	return runLine(line)
}

func runLine(line string) core.Outcome {
	f := strings.Fields(line)
	if len(f) == 4 && f[0] == "rs" {
		return runRS(line, f[1:])
	}
	if len(f) != 2 {
		return core.Outcome{Impl: "bad-op"}
	}
	switch f[0] {
	case "ca":
		return runCA(line, f[1])
	case "cs":
		return runCS(line, f[1])
	case "as":
		return runAS(line, f[1])
	case "fs":
		return runFS(line, f[1])
	}
	return core.Outcome{Impl: "bad-op"}
}

func safeRunLine(line string) (o core.Outcome) {
	defer func() {
		if r := recover(); r != nil {
			o = core.Outcome{Impl: "panic", Tags: []string{"panic"},
				Failures: []core.Failure{{Case: line, Class: "harness-recovered-panic", What: fmt.Sprint(r)}}}
		}
	}()
	return runLine(line)
}

var modes = []string{"cb", "ca", "fb", "fa"}

// seedParity: 0 or 1, fixed for one run (derived once from the run's generator)
var parityOnce sync.Once
var parity uint64

func seedParity(rng *core.Rand) uint64 {
	parityOnce.Do(func() { parity = rng.Fork().U64() % 2 })
	return parity
}

func caFault(rng *core.Rand, maxK int) string {
	return fmt.Sprintf("%d%s", 1+rng.Intn(maxK), modes[rng.Intn(4)])
}

func life(rng *core.Rand, shortNum, den int) string {
	if rng.Chance(shortNum, den) {
		return "s"
	}
	return "l"
}

func (prop) Generate(rng *core.Rand, tier string, emit0 func(string)) {
	var lines []string
	emit := func(l string) { lines = append(lines, l) }
	defer func() {
		// autosave cases are slow (processes under strace): compute them on a worker pool while
		// the CA cases, which share one in-process storage, run in order
		var todo []string
		seen := map[string]bool{}
		for _, l := range lines {
			if (strings.HasPrefix(l, "as ") || strings.HasPrefix(l, "fs ") || strings.HasPrefix(l, "rs ")) && !seen[l] {
				seen[l] = true
				todo = append(todo, l)
			}
		}
		ch := make(chan string)
		results := map[string]chan *core.Outcome{}
		for _, l := range todo {
			results[l] = make(chan *core.Outcome, 1)
		}
		workers := runtime.NumCPU()
		if workers > 12 {
			workers = 12
		}
		for w := 0; w < workers; w++ {
			go func() {
				for l := range ch {
					o := safeRunLine(l)
					results[l] <- &o
				}
			}()
		}
		go func() {
			for _, l := range todo {
				ch <- l
			}
			close(ch)
		}()
		used := map[string]bool{}
		for _, l := range lines {
			if c, ok := results[l]; ok && !used[l] {
				used[l] = true
				o := <-c
				memoMu.Lock()
				memo[l] = o
				memoMu.Unlock()
			}
			emit0(l)
		}
	}()
	nCA, nAS, nFaultAS := 1100, 70, 40
	switch tier {
	case "thorough":
		nCA, nAS, nFaultAS = 30000, 500, 300
	case "search":
		nCA, nAS, nFaultAS = 3000, 60, 40
	}
	rca, ras, rbad := rng.Fork(), rng.Fork(), rng.Fork()

	// ---- CA, systematic: every crash point and every fault placement of
	//   (a) the creation from an empty storage, (b) a start-up that renews the intermediate,
	//   (c) the second interruption after a first one,
	// each followed by uninterrupted restarts
	for _, l := range []string{"l", "s"} {
		for k := 1; k <= 11; k++ {
			for _, m := range modes {
				emit(fmt.Sprintf("ca %s:%d%s;l:-;l:-", l, k, m))
				emit(fmt.Sprintf("ca %s:%d%s;s:-;l:-", l, k, m))
			}
		}
	}
	for k := 1; k <= 9; k++ {
		for _, m := range modes {
			emit(fmt.Sprintf("ca s:-;l:%d%s;l:-;s:-", k, m))       // interrupted renewal of an existing chain
			emit(fmt.Sprintf("ca l:-;l:%d%s;l:-", k, m))           // interrupted reload
			emit(fmt.Sprintf("ca l:2ca;l:%d%s;l:-;l:-", k, m))     // twice in a row (root)
			emit(fmt.Sprintf("ca l:5ca;l:%d%s;s:-;l:-", k, m))     // twice in a row (intermediate)
			emit(fmt.Sprintf("ca s:-;s:7ca;l:%d%s;l:-;l:-", k, m)) // interrupted renewal, interrupted again
		}
	}
	// tampering (values deleted or copied over one another between start-ups): reaches the
	// decode-error branches and the signer/parent mismatch; no promise is made, model = code only
	emit("ca l:-;d:rk;l:-;c:ik>rk;l:-;d:ic;l:-;c:rk>rc;l:-;c:ic>ik;l:-")
	emit("ca l:-;c:rc>ik;l:-;c:rk>ic;l:-")
	emit("ca l:-;c:rc>rk;l:-;s:-")
	emit("ca s:-;d:ik;l:-;l:-")
	emit("ca l:-;d:rc;l:-;l:-")
	keyNames := []string{"rc", "rk", "ic", "ik"}
	for c := 0; c < nCA/20; c++ {
		var evs []string
		for i, n := 0, 2+rca.Intn(6); i < n; i++ {
			switch rca.Intn(4) {
			case 0:
				evs = append(evs, "d:"+rca.Pick(keyNames))
			case 1:
				evs = append(evs, "c:"+rca.Pick(keyNames)+">"+rca.Pick(keyNames))
			default:
				f := "-"
				if rca.Chance(1, 3) {
					f = caFault(rca, 11)
				}
				evs = append(evs, life(rca, 1, 3)+":"+f)
			}
		}
		emit("ca " + strings.Join(evs, ";"))
	}
	// RENEWAL AT RUN TIME (maintenance pass of the process a start-up left running, hook
	// VerifRenewCerts): every crash point and fault placement of a pass that renews, then restarts
	for k := 1; k <= 5; k++ {
		for _, m := range modes {
			emit(fmt.Sprintf("ca s:-;m:%d%s;l:-;l:-", k, m))     // a synced pass, interrupted
			emit(fmt.Sprintf("ca s:-;m:%d%s;m:-;s:-;m:-", k, m)) // … the process lives on (fb/fa) or not
			emit(fmt.Sprintf("ca s:3ca;s:-;m:-;m:%d%s;l:-", k, m))
		}
	}
	emit("ca m:-;l:-;m:-;s:-;m:-;m:2cb;m:-;l:1cb;m:-")
	// memory and storage of a running process disagree (the certificate write of a renewal reports
	// an error after taking effect; only logged), then every crash point and fault of its next pass
	// (Witness.recovery_with_runtime_renewal_old_code_fails is the k=3 case)
	for k := 1; k <= 5; k++ {
		for _, m := range modes {
			emit(fmt.Sprintf("ca s:-;l:8fa;m:%d%s;l:-;l:-", k, m))
			emit(fmt.Sprintf("ca s:-;m:4fa;m:%d%s;l:-", k, m))
		}
	}
	for c := 0; c < nCA/10; c++ {
		var evs []string
		for i, n := 0, 2+rca.Intn(7); i < n; i++ {
			f := "-"
			if rca.Chance(1, 2) {
				f = caFault(rca, 9)
			}
			if i > 0 && rca.Chance(1, 2) {
				evs = append(evs, "m:"+f)
			} else {
				evs = append(evs, life(rca, 3, 5)+":"+f)
			}
		}
		evs = append(evs, "l:-")
		emit("ca " + strings.Join(evs, ";"))
	}
	emit("ca l:-")
	emit("ca s:-")
	emit("ca l:-;l:-;l:-")
	emit("ca s:-;s:-;l:-;l:-")
	// ---- CA, random histories
	for c := 0; c < nCA; c++ {
		n := 1 + rca.Intn(7)
		if rca.Chance(1, 15) {
			n = 8 + rca.Intn(10)
		}
		var evs []string
		for i := 0; i < n; i++ {
			f := "-"
			if rca.Chance(3, 5) {
				f = caFault(rca, 11)
			}
			evs = append(evs, life(rca, 2, 5)+":"+f)
		}
		if rca.Chance(4, 5) {
			evs = append(evs, life(rca, 1, 4)+":-")
		}
		emit("ca " + strings.Join(evs, ";"))
	}

	// ---- the CA on the real certmagic.FileStorage (child processes under strace): every one of the
	// 26 file operations of the creation (2 reads, 4 Stores of 6 operations) killed / failing with
	// EIO, then an uninterrupted restart; the same for a reload, a renewing start-up and a second
	// interruption, sampled in the quick tier
	step := 5
	if tier == "thorough" {
		step = 1
	}
	for k := 1; k <= 27; k++ {
		emit(fmt.Sprintf("fs l:K%d;l:-", k))
		if step == 1 || k%2 == int(seedParity(rng)) || k >= 26 {
			emit(fmt.Sprintf("fs l:F%d;l:-", k))
		}
	}
	rfs := rng.Fork()
	for k := 1 + rfs.Intn(step); k <= 41; k += step {
		ft := rfs.Pick([]string{"K", "F"})
		emit(fmt.Sprintf("fs s:%s%d;l:-;s:-", ft, k))     // creation + immediate renewal
		emit(fmt.Sprintf("fs s:-;l:%s%d;l:-;l:-", ft, k)) // reload + renewal of an existing chain
	}
	for k := 1 + rfs.Intn(step); k <= 26; k += step {
		emit(fmt.Sprintf("fs l:K10;l:%s%d;l:-", rfs.Pick([]string{"K", "F"}), k)) // a second interruption
		emit(fmt.Sprintf("fs l:F21;s:%s%d;l:-", rfs.Pick([]string{"K", "F"}), k))
	}
	emit("fs l:-;l:-;s:-;l:-")
	nFS := 3
	if tier == "thorough" {
		nFS = 150
	} else if tier == "search" {
		nFS = 20
	}
	for c := 0; c < nFS; c++ {
		var evs []string
		for i, n := 0, 1+rfs.Intn(4); i < n; i++ {
			f := "-"
			if rfs.Chance(2, 3) {
				f = fmt.Sprintf("%s%d", rfs.Pick([]string{"K", "F"}), 1+rfs.Intn(40))
			}
			evs = append(evs, life(rfs, 2, 5)+":"+f)
		}
		evs = append(evs, "l:-")
		emit("fs " + strings.Join(evs, ";"))
	}

	// ---- the resume side through the real command line (`caddy run --resume --envfile …`): every
	// process environment x every env-file set: push, SIGKILL, restart with --resume
	rsEnvs := []string{"x-h1", "x0h1", "xeh1", "x-h-", "x-he", "x3h-"}
	rsFiles := []string{".", "_", "x=2", "h=3", "x=2,h=3", "h=3/x=2", "x=e", "o=1,x=2", "x=2/x=3", "o=0/_/h=0"}
	for _, e := range rsEnvs {
		for _, fl := range rsFiles {
			emit(fmt.Sprintf("rs %s %s S:r:1p;P:2p;K;S:r:1p", e, fl))
		}
	}
	// the persistence flag through the real Caddyfile adapter: `persist_config off` / absent
	for _, e := range []string{"x-h1", "x0h1"} {
		for _, fl := range []string{".", "x=2"} {
			emit(fmt.Sprintf("rs %s %s S:-:c5n;P:2p;K;S:r:c6d;K;S:-:c7d;K;S:r:c8n;K;S:-:c9n;K;S:r:c3d", e, fl))
			emit(fmt.Sprintf("rs %s %s S:r:c4n;K;S:r:c5d;P:6n;K;S:r:c7n", e, fl))
		}
	}
	// the CA on caddy's DEFAULT storage through the command line: the data directory is AppDataDir of
	// the environment after the env files; the root must be the same in every process of a history
	for _, e := range []string{"x-h1d-", "x-h1d0", "x-h-d-", "x0h1de", "x-h1"} {
		for _, fl := range []string{".", "d=2", "h=3", "d=2/d=3", "x=2,d=2"} {
			emit(fmt.Sprintf("rs %s %s S:-:1pk;K;S:r:2pk;P:3dk;P:3dk;K;S:-:4d;P:5pk;K;S:r:6nk", e, fl))
		}
	}
	// @id tags through the admin API: POST /load of documents that differ from the running one only in
	// ids (added, renamed, removed), sub-path writes (PATCH /config/apps/…) and writes through /id/…;
	// after every returned push the autosave file must be the document the server holds, ids included
	for _, e := range []string{"x-h1", "x0h1"} {
		for _, fl := range []string{".", "x=2"} {
			emit(fmt.Sprintf("rs %s %s S:-:1p;P:1pi;P:1pu;P:1p;P:1pi;K;S:r:9d;P:1p;K;S:r:9d", e, fl))
			emit(fmt.Sprintf("rs %s %s S:-:1p;Q:1pi;I:1pu;I:2d;Q:2di;I:3nu;Q:5px;Q:5d;K;S:r:9d;I:6p", e, fl))
			emit(fmt.Sprintf("rs %s %s S:-:1n;P:1ni;P:2di;P:2du;I:2d;Q:2di;I:2d;K;S:r:9n", e, fl))
		}
	}
	rrs := rng.Fork()
	nRS := 12
	if tier == "thorough" {
		nRS = 300
	} else if tier == "search" {
		nRS = 40
	}
	for c := 0; c < nRS; c++ {
		var evs []string
		next := 1
		evs = append(evs, fmt.Sprintf("S:%s:%d%s", rrs.Pick([]string{"r", "-"}), next, rrs.Pick([]string{"p", "d", "n"})))
		for i, n := 0, 2+rrs.Intn(7); i < n; i++ {
			next++
			switch rrs.Intn(6) {
			case 0:
				evs = append(evs, "K")
			case 1, 2:
				if rrs.Chance(1, 3) {
					evs = append(evs, fmt.Sprintf("S:%s:c%d%s", rrs.Pick([]string{"r", "r", "-"}), next, rrs.Pick([]string{"d", "n"})))
				} else {
					evs = append(evs, fmt.Sprintf("S:%s:%d%s", rrs.Pick([]string{"r", "r", "-"}), next, rrs.Pick([]string{"p", "d", "n"})))
				}
			default:
				x := ""
				if rrs.Chance(1, 8) {
					x = "x"
				}
				n := next
				if rrs.Chance(1, 5) && next > 2 {
					n = 1 + rrs.Intn(next-1) // push an earlier number again
				}
				idl := ""
				if x == "" && rrs.Chance(1, 2) {
					idl = rrs.Pick([]string{"i", "u"})
				}
				evs = append(evs, fmt.Sprintf("%s:%d%s%s%s", rrs.Pick([]string{"P", "P", "P", "Q", "I"}), n, rrs.Pick([]string{"p", "p", "d", "n"}), x, idl))
			}
		}
		evs = append(evs, "K", "S:r:99d")
		emit(fmt.Sprintf("rs %s %s %s", rrs.Pick(rsEnvs), rrs.Pick(rsFiles), strings.Join(evs, ";")))
	}

	// ---- which storage the CA lives on (`cs`): the CA's own `storage` module added / dropped / replaced by reloads,
	// every interruption point of a creation on one storage between start-ups on the other
	for _, m := range []string{"cb", "ca", "fb", "fa"} {
		for k := 1; k <= 10; k++ {
			emit(fmt.Sprintf("cs gl:-;ol:%d%s;gl:-;ol:-;gs:-;ol:-", k, m))
			emit(fmt.Sprintf("cs ol:%d%s;gl:%d%s;ol:-;gl:-;os:-;gl:-", k, m, 11-k, m))
		}
	}
	nCS := 20
	if tier == "thorough" {
		nCS = 600
	} else if tier == "search" {
		nCS = 100
	}
	rcs := rng.Fork()
	for c := 0; c < nCS; c++ {
		var evs []string
		for i, n := 0, 2+rcs.Intn(7); i < n; i++ {
			f := "-"
			if rcs.Chance(2, 5) {
				f = fmt.Sprintf("%d%s", 1+rcs.Intn(12), rcs.Pick([]string{"cb", "ca", "fb", "fa"}))
			}
			evs = append(evs, rcs.Pick([]string{"g", "o"})+rcs.Pick([]string{"l", "l", "s"})+":"+f)
		}
		evs = append(evs, "gl:-", "ol:-")
		emit("cs " + strings.Join(evs, ";"))
	}

	// ---- the /load endpoint itself (caddyconfig/load.go handleLoad): Caddyfile bodies (`text/caddyfile`: what is
	// saved is the ADAPTED document), `Cache-Control: must-revalidate` (F: forced — an unchanged document is loaded
	// and saved again) and a header that merely CONTAINS it (G: compared with ==, not forced), refused bodies
	for _, e := range []string{"x-h1", "x0h1", "x-h-"} {
		for _, fl := range []string{".", "x=2"} {
			emit(fmt.Sprintf("rs %s %s S:-:1p;P:c2d;P:c2d;F:c2d;G:c2d;P:c3b;K;S:r:9d;F:c2d;G:c4n;F:c4n;K;S:r:9d", e, fl))
			emit(fmt.Sprintf("rs %s %s S:-:c5d;P:c5d;F:c5d;G:c5d;P:c6n;F:c6n;P:c7b;F:c7b;P:c7d;Q:1p;K;S:r:1n;F:1n;F:2p;G:2p;F:2px;K;S:r:1n", e, fl))
			emit(fmt.Sprintf("rs %s %s S:-:1n;F:1n;F:2pk;F:2pk;G:2pk;P:c4b;P:c4d;F:3dk;K;S:r:1d;F:3dk", e, fl))
			emit(fmt.Sprintf("rs %s %s S:-:1p;M:2p;X:2p;Y:2p;X:c3d;Y:1p;M:c3d;P:2p;Y:2p;K;S:r:9d", e, fl))
		}
	}
	nEP := 8
	if tier == "thorough" {
		nEP = 200
	} else if tier == "search" {
		nEP = 40
	}
	rep := rng.Fork()
	for c := 0; c < nEP; c++ {
		var evs []string
		last := "1p"
		if rep.Chance(1, 3) {
			last = "c1d"
		}
		evs = append(evs, "S:"+rep.Pick([]string{"r", "-"})+":"+last)
		next := 1
		for i, n := 0, 3+rep.Intn(7); i < n; i++ {
			switch rep.Intn(8) {
			case 0:
				evs = append(evs, "K", fmt.Sprintf("S:r:%d%s", 50+i, rep.Pick([]string{"p", "d", "n"})))
				continue
			}
			tok := last
			if !rep.Chance(2, 5) { // otherwise: the document pushed before, once more
				next++
				if rep.Chance(1, 2) {
					tok = fmt.Sprintf("c%d%s", next, rep.Pick([]string{"d", "d", "n", "b"}))
				} else {
					tok = fmt.Sprintf("%d%s%s", next, rep.Pick([]string{"p", "d", "n"}), rep.Pick([]string{"", "", "", "x", "i", "k"}))
				}
			}
			kind := rep.Pick([]string{"P", "P", "F", "F", "F", "G", "G", "M", "X", "Y"})
			evs = append(evs, kind+":"+tok)
			if !strings.Contains("MXY", kind) {
				last = tok
			}
		}
		evs = append(evs, "K", "S:r:99d")
		emit(fmt.Sprintf("rs %s %s %s", rep.Pick(rsEnvs), rep.Pick(rsFiles), strings.Join(evs, ";")))
	}

	// ---- autosave, systematic: persistence on/off/default, rejected loads, unchanged config,
	// forced reload, @id, null config, restarts
	emit("as L1:d:-;L1:d:-;L1:df:-;L2:p:-;L3:n:-;L3:n:-;L4:px:-;L5:dy:-;L6:dj:-;L7:di:-;R;L7:di:-;L8:n:-;R;L9:d:-")
	// @id tags: pushes that differ from the running document ONLY in ids (added, renamed, moved,
	// removed), forced and not; the autosave file must follow each of them, and --resume must get it
	emit("as L1:d:-;L1:di:-;L1:du:-;L1:dv:-;L1:d:-;L1:di:-;L1:di:-;U;L1:du:-;R;L1:dv:-")
	emit("as L2:pi:-;L2:pu:-;U;L2:pi:-;L2:pif:-;L2:p:-;L3:pv:-;L3:pi:-;U")
	emit("as L4:ni:-;L4:nu:-;L5:di:-;L5:dix:-;L5:du:K2;L5:dv:-;U")
	emit("as L1:n:-;L2:nx:-;R;L3:n:-")
	emit("as L1:px:-;L2:dy:-;L3:p:-;L4:dj:-;L3:p:-;L3:pf:-")
	emit("as L1:dz:-;L2:d:-;L3:dz:-;L3:dz:-;R;L4:p:-")
	// every kill point and every failing operation of the first autosave, of a later one, and
	// of one after a restart; followed by more loads and restarts
	for k := 1; k <= 4; k++ {
		for _, ft := range []string{"K", "F"} {
			emit(fmt.Sprintf("as L1:d:%s%d;L2:d:-;R;L3:p:-", ft, k))
			emit(fmt.Sprintf("as L1:d:-;L2:p:%s%d;L2:p:-;L3:n:-;R;L2:p:-", ft, k))
			emit(fmt.Sprintf("as L1:p:-;R;L2:di:%s%d;R;L3:d:-", ft, k))
		}
	}
	// LEFTOVER STATE: an autosave is killed at each of its operations (the temp file is then absent,
	// empty, or complete but not renamed); the next process performs one or more successful loads,
	// each of which must end with the file equal to its config; then `--resume` must get the latest
	for k := 1; k <= 3; k++ {
		emit(fmt.Sprintf("as L1:d:K%d;L2:d:-;U;L3:p:-;U", k))                 // during the very first autosave
		emit(fmt.Sprintf("as L1:d:-;L2:p:K%d;L3:d:-;L4:p:-;U;L5:d:-;R;U", k)) // during a later one
		emit(fmt.Sprintf("as L1:p:-;U;L2:d:K%d;U;L3:di:-;L3:di:-;U", k))      // in a resumed process
		emit(fmt.Sprintf("as L1:d:-;L2:p:F%d;L3:d:-;U;L4:p:-", k))            // a failing operation instead of a death
	}
	emit("as U;L1:d:-;U;U;L2:n:-;U")
	// ---- autosave, random histories
	asCase := func(withFault bool) {
		n := 2 + ras.Intn(7)
		var evs []string
		faultUsed := false
		next := 1
		var loaded []string
		for i := 0; i < n; i++ {
			if i > 0 && ras.Chance(1, 5) {
				evs = append(evs, ras.Pick([]string{"R", "R", "U"}))
				faultUsed = false
				continue
			}
			id := next
			if len(loaded) > 0 && ras.Chance(1, 4) {
				// push an earlier config again (same text when the flags agree), now and then with
				// different @id tags only
				h := loaded[ras.Intn(len(loaded))]
				if ras.Chance(1, 2) {
					h = strings.NewReplacer("i", "", "u", "", "v", "").Replace(h[strings.Index(h, ":"):])
					h = loaded[0][:0] + strings.SplitN(loaded[ras.Intn(len(loaded))], ":", 2)[0] + h + ras.Pick([]string{"", "i", "u", "v"})
				}
				evs = append(evs, h+":-")
				continue
			}
			next++
			p := []string{"d", "d", "p", "p", "n"}[ras.Intn(5)]
			fl := ""
			if ras.Chance(1, 6) {
				fl += "f"
			}
			switch ras.Intn(12) {
			case 0:
				fl += "x"
			case 1:
				fl += "y"
			case 2:
				fl += "j"
			}
			if ras.Chance(1, 3) {
				fl += ras.Pick([]string{"i", "u", "v"})
			}
			if ras.Chance(1, 25) && !strings.ContainsAny(fl, "xyji") {
				fl += "z"
			}
			head := fmt.Sprintf("L%d:%s%s", id, p, fl)
			ft := "-"
			if withFault && !faultUsed && ras.Chance(1, 2) {
				ft = fmt.Sprintf("%s%d", []string{"K", "F"}[ras.Intn(2)], 1+ras.Intn(4))
				faultUsed = true
			}
			evs = append(evs, head+":"+ft)
			if !strings.ContainsAny(fl, "xyj") {
				loaded = append(loaded, strings.Replace(head, "f", "", 1))
			}
		}
		if ras.Chance(1, 3) {
			evs = append(evs, "U")
		}
		emit("as " + strings.Join(evs, ";"))
	}
	for c := 0; c < nAS; c++ {
		asCase(false)
	}
	for c := 0; c < nFaultAS; c++ {
		asCase(true)
	}

	// ---- malformed
	bad := []string{"ca", "ca ", "ca x", "ca l", "ca l:", "ca l:0cb", "ca l:3xx", "ca m:-", "ca l:-;", "ca l:-;;l:-", "ca l:-3cb", "ca m", "ca m:", "ca m:0cb", "ca m:-:-", "ca d:xx", "ca c:rc", "ca c:rc>zz", "ca d:", "ca c:rc>rk>ik",
		"as", "as L", "as L1", "as L1:d", "as L1:q:-", "as L1:d:K0", "as L1:d:X1", "as L1:dd:-", "as Lx:d:-", "as R;", "as L1:d:K1;L2:d:F1", "as U:", "as u", "as L1:d:-;UU",
		"rs", "rs x-h1", "rs x-h1 .", "rs x-h1 . Q", "rs xzh1 . K", "rs x-h1 x=- K", "rs x-h1 x=2,x=3 K", "rs x-h1 . S:r:1px", "rs x-h1 . P:1q", "rs x-h1 . S:z:1p", "rs x-h1dz . K", "rs x-h1d . K", "rs x-h1 d=- K", "rs x-h1 . S:-:1pxk", "rs x-h1 . S:-:c1dk", "rs x-h1 . Q:1pk", "rs x-h1 . I:c1d", "rs x-h1 . P:1piu", "rs x-h1 . Q:1pv", "rs x-h1 . S:-:1pik", "rs x-h1 . S:-:c1p", "rs x-h1 . S:-:c1nx", "rs x-h1 . P:c1p", "rs x-h1 . S:-:c1b", "rs x-h1 . Q:c1d", "rs x-h1 . F:c1bx", "rs x-h1 . H:1p", "rs x-h1 . MX:1p", "rs x-h1 . Y:c1p", "rs x-h1 . F", "rs x-h1 . S:-:c", "cs", "cs l:-", "cs gm:-", "cs gd:rc", "cs xl:-", "cs gl:0cb", "cs gl:-;", "cs gl:- x", "fs", "fs l", "fs l:K0", "fs l:X1", "fs m:-", "fs l:-;", "fs l:3cb", "zz l:-", "ca l:- extra", "as L1:dff:-", "ca l:1cb:2", "as L1:d:-:3"}
	for _, b := range bad {
		emit(b)
	}
	for c := 0; c < 20; c++ {
		var sb strings.Builder
		for j := rbad.Intn(10); j >= 0; j-- {
			sb.WriteString(rbad.Pick([]string{"l", "s", ":", ";", "-", "1", "cb", "fa", "L", "R", "d", "K", "F", "x"}))
		}
		emit(rbad.Pick([]string{"ca ", "as "}) + sb.String())
	}
}
