package c14

// The `fs` cases of C14: the real pki app on the real certmagic.FileStorage (caddy's default
// storage module file_system rooted in a private directory).  Every start-up is its own CHILD
// process (`c14child-fs`) under strace, which records the file operations FileStorage performs
// in that directory (temp file creation, fchmod, write with its payload, fsync, close, rename,
// unlink, reads of key files) and kills the child, or fails the call with EIO, exactly at the
// k-th of them.  The parent compares sequence, result and what is left in the directory with the
// model (FileStore.lean: execFS) and evaluates the property on the real files with crypto/x509.

import (
	"bytes"
	"crypto"
	"crypto/sha256"
	"crypto/x509"
	"encoding/base64"
	"encoding/json"
	"fmt"
	"io"
	"os"
	"os/exec"
	"path/filepath"
	"runtime"
	"sort"
	"strconv"
	"strings"
	"syscall"
	"time"

	"github.com/caddyserver/caddy/v2"
	"github.com/caddyserver/caddy/v2/modules/caddypki"
	_ "github.com/caddyserver/caddy/v2/modules/filestorage"
	"github.com/caddyserver/certmagic"

	"verif/harness/internal/core"
)

// ---------------------------------------------------------------- the child

// ChildFSMain: c14child-fs <storeRoot> <s|l>
func ChildFSMain(args []string) {
	runtime.LockOSThread() // strace counts system calls per thread; all storage calls happen here
	if len(args) != 2 {
		os.Exit(3)
	}
	// the locked main goroutine runs on the thread group leader: its thread id is the process id
	fmt.Printf("pid %d %d\n", os.Getpid(), syscall.Gettid())
	stor, _ := json.Marshal(map[string]any{"module": "file_system", "root": args[0]})
	cfg := &caddy.Config{
		Admin: &caddy.AdminConfig{Disabled: true},
		Logging: &caddy.Logging{Logs: map[string]*caddy.CustomLog{
			"default": {BaseLog: caddy.BaseLog{WriterRaw: json.RawMessage(`{"output":"discard"}`)}},
		}},
		StorageRaw: stor,
		AppsRaw:    caddy.ModuleMap{"pki": pkiJSON(args[1])},
	}
	ctx, err := caddy.ProvisionContext(cfg)
	if err != nil {
		fmt.Printf("err %s\n", strings.ReplaceAll(err.Error(), "\n", " "))
		os.Exit(0)
	}
	appI, err := ctx.App("pki")
	if err != nil {
		fmt.Printf("err app: %v\n", err)
		os.Exit(0)
	}
	app := appI.(*caddypki.PKI)
	if err := app.Start(); err != nil {
		fmt.Printf("err start: %v\n", err)
		os.Exit(0)
	}
	ca := app.CAs[caID]
	r := startResult{kind: "ok", root: ca.RootCertificate(), inter: ca.IntermediateCertificate()}
	if k, ok := ca.IntermediateKey().(crypto.Signer); ok {
		r.ikey = k
	}
	ikPub := ""
	if r.ikey != nil {
		if der, err := x509.MarshalPKIXPublicKey(r.ikey.Public()); err == nil {
			ikPub = base64.StdEncoding.EncodeToString(der)
		}
	}
	// the end-to-end part of the oracle needs the private key: do it here, without touching storage
	r.rkey = fakeRootKey{pub: r.root.PublicKey} // the parent checks the stored root key itself
	problem := chainProblem(r)
	// what follows is not part of the start-up the model describes: tell the tracer to stop looking
	_ = syscall.Faccessat(-100 /* AT_FDCWD */, filepath.Join(args[0], "mark"), 0, 0)
	// STORAGE CLEANING (what caddytls's periodic cleanStorageUnits runs on this very storage) must
	// leave the CA's files alone, whatever temp files an interrupted Store left next to them
	before := snapshotDir(filepath.Join(args[0], "pki"))
	cleanErr := certmagic.CleanStorage(ctx, ctx.Storage(), certmagic.CleanStorageOptions{
		OCSPStaples: true, ExpiredCerts: true, ExpiredCertGracePeriod: 24 * time.Hour,
	})
	clean := "same"
	if after := snapshotDir(filepath.Join(args[0], "pki")); after != before {
		clean = "changed"
	}
	if cleanErr != nil {
		clean += ":" + strings.ReplaceAll(cleanErr.Error(), " ", "_")
	}
	fmt.Printf("ok %s %s %s %s clean:%s\n", base64.StdEncoding.EncodeToString(r.root.Raw), base64.StdEncoding.EncodeToString(r.inter.Raw),
		ikPub, "p:"+base64.StdEncoding.EncodeToString([]byte(problem)), clean)
	os.Exit(0)
}

// snapshotDir: names and contents of everything under dir.
func snapshotDir(dir string) string {
	var sb strings.Builder
	filepath.Walk(dir, func(p string, info os.FileInfo, err error) error {
		if err != nil || info.IsDir() {
			return nil
		}
		b, _ := os.ReadFile(p)
		fmt.Fprintf(&sb, "%s %x\n", p, sha256.Sum256(b))
		return nil
	})
	return sb.String()
}

// fakeRootKey satisfies chainProblem's "root key belongs to the root" clause, which the parent
// evaluates on the stored file instead.
type fakeRootKey struct{ pub crypto.PublicKey }

func (f fakeRootKey) Public() crypto.PublicKey { return f.pub }
func (f fakeRootKey) Sign(_ io.Reader, _ []byte, _ crypto.SignerOpts) ([]byte, error) {
	return nil, fmt.Errorf("not a key")
}

// ---------------------------------------------------------------- strace

type fsOp struct {
	name    string // rd t+ ch w sy cl mv rm, or the system call name
	key     string // rc rk ic ik for rd / mv
	data    []byte
	sys     string
	sysNo   int  // this is the n-th call of that system call on the main thread
	done    bool // returned success
	killed  bool
	failed  bool
	inject  bool
	natural bool // failed by itself with ENOENT (a key file that does not exist)
}

const fsSyscalls = "faccessat,faccessat2,openat,fchmod,fchmodat,write,pwrite64,fsync,fdatasync,close,rename,renameat,renameat2,unlink,unlinkat,truncate,ftruncate,link,linkat"

func fsKeyOfPath(storeRoot, p string) (short string, inDir bool) {
	dir := filepath.Join(storeRoot, "pki", "authorities", caID)
	if filepath.Dir(p) != dir {
		return "", false
	}
	for _, ck := range caKeys {
		if filepath.Base(ck.key) == filepath.Base(p) {
			return ck.short, true
		}
	}
	return "", true // a temp file
}

// parseFSTrace: the main thread's file operations inside the CA's directory, numbered per system call.
func parseFSTrace(text, storeRoot, mainPid string) []fsOp {
	lines := strings.Split(text, "\n")
	if mainPid == "" {
		// the child did not get as far as saying so: the thread group leader has the smallest id
		best := -1
		for _, ln := range lines {
			if m := reLine.FindStringSubmatch(ln); m != nil {
				if n, err := strconv.Atoi(m[1]); err == nil && (best < 0 || n < best) {
					best = n
				}
			}
		}
		if best >= 0 {
			mainPid = strconv.Itoa(best)
		}
	}
	counts := map[string]int{}
	pending := ""
	pendingNo := 0
	var ops []fsOp
	handle := func(call string, unfinished bool, sysNo int) {
		m := reCall.FindStringSubmatch(call)
		if m == nil {
			return
		}
		sys, rest := m[1], m[2]
		ret := ""
		if r := reRet.FindAllStringSubmatch(rest, -1); len(r) > 0 {
			ret = r[len(r)-1][1]
		}
		op := fsOp{sys: sys, sysNo: sysNo, inject: strings.Contains(rest, "(INJECTED)")}
		op.done = !unfinished && ret != "" && ret != "?" && !strings.HasPrefix(ret, "-")
		op.failed = !unfinished && strings.HasPrefix(ret, "-")
		op.killed = unfinished || ret == "?"
		op.natural = op.failed && !op.inject && strings.Contains(rest, "ENOENT")
		strs := reQuoted.FindAllStringSubmatch(rest, -1)
		arg := func(i int) string {
			if i < len(strs) {
				return string(cUnescape(strs[i][1]))
			}
			return ""
		}
		fdPath := func() string {
			i := strings.Index(rest, "<")
			j := strings.Index(rest, ">")
			if i < 0 || j < i {
				return ""
			}
			return strings.TrimSuffix(rest[i+1:j], " (deleted)")
		}
		switch sys {
		case "openat":
			k, in := fsKeyOfPath(storeRoot, arg(0))
			if !in {
				return
			}
			switch {
			case strings.Contains(rest, "O_CREAT") && strings.Contains(rest, "O_EXCL") && k == "":
				op.name = "t+"
			case !strings.Contains(rest, "O_CREAT") && !strings.Contains(rest, "O_TRUNC") && !strings.Contains(rest, "O_WRONLY") && !strings.Contains(rest, "O_RDWR") && k != "":
				op.name, op.key = "rd", k
			default:
				op.name = "open?" // a key file opened for writing, or a temp file opened otherwise
				op.key = k
			}
		case "fchmod":
			if _, in := fsKeyOfPath(storeRoot, fdPath()); !in {
				return
			}
			op.name = "ch"
		case "write", "pwrite64":
			k, in := fsKeyOfPath(storeRoot, fdPath())
			if !in {
				return
			}
			op.name = "w"
			if k != "" {
				op.name = "w-key?" // FileStorage never writes a key file in place
				op.key = k
			}
			if len(strs) > 0 {
				op.data = cUnescape(strs[0][1])
			}
			if op.done {
				if n, err := strconv.Atoi(ret); err == nil && n < len(op.data) {
					op.name = "w-short"
				}
			}
		case "fsync", "fdatasync":
			if _, in := fsKeyOfPath(storeRoot, fdPath()); !in {
				return
			}
			op.name = "sy"
		case "close":
			k, in := fsKeyOfPath(storeRoot, fdPath())
			if !in || k != "" {
				return // closing a key file after reading it
			}
			op.name = "cl"
		case "rename", "renameat", "renameat2":
			_, inA := fsKeyOfPath(storeRoot, arg(0))
			kb, inB := fsKeyOfPath(storeRoot, arg(1))
			if !inA && !inB {
				return
			}
			op.name, op.key = "mv", kb
			if kb == "" {
				op.key = "?"
			}
		case "unlink", "unlinkat":
			k, in := fsKeyOfPath(storeRoot, arg(0))
			if !in {
				return
			}
			op.name = "rm"
			if k != "" {
				op.name, op.key = "rm-key?", k
			}
		default:
			p := fdPath()
			if _, in := fsKeyOfPath(storeRoot, p); !in {
				if _, in2 := fsKeyOfPath(storeRoot, arg(0)); !in2 {
					return
				}
			}
			op.name = sys + "?"
		}
		ops = append(ops, op)
	}
	for _, ln := range lines {
		m := reLine.FindStringSubmatch(ln)
		if m == nil || m[1] != mainPid {
			continue
		}
		body := m[2]
		if strings.HasPrefix(body, "+++") || strings.HasPrefix(body, "---") {
			continue
		}
		if r := reResumed.FindStringSubmatch(body); r != nil {
			if pending != "" {
				if strings.Contains(r[2], "= ?") {
					handle(pending, true, pendingNo)
				} else {
					handle(pending+r[2], false, pendingNo)
				}
				pending = ""
			}
			continue
		}
		cm := reCall.FindStringSubmatch(body)
		if cm == nil {
			continue
		}
		if strings.HasPrefix(cm[1], "faccessat") {
			if strings.Contains(body, filepath.Join(storeRoot, "mark")) {
				break // the start-up is over; what follows is the harness's own epilogue
			}
			continue
		}
		counts[cm[1]]++
		if strings.HasSuffix(body, "<unfinished ...>") {
			pending, pendingNo = strings.TrimSuffix(body, "<unfinished ...>"), counts[cm[1]]
			continue
		}
		handle(body, false, counts[cm[1]])
	}
	if pending != "" {
		handle(pending, true, pendingNo)
	}
	return ops
}

type fsChildResult struct {
	ops     []fsOp
	out     string
	killed  bool
	exitErr string
}

func runFSChild(work, storeRoot, life string, inject []string) fsChildResult {
	exe, err := os.Executable()
	if err != nil {
		return fsChildResult{exitErr: err.Error()}
	}
	tf := filepath.Join(work, fmt.Sprintf("trace-%d.txt", time.Now().UnixNano()))
	args := []string{"-f", "-y", "-s", "16384", "-o", tf, "-e", "trace=" + fsSyscalls, "-e", "signal=none"}
	args = append(args, inject...)
	args = append(args, exe, "c14child-fs", storeRoot, life)
	cmd := exec.Command("strace", args...)
	cmd.Env = append(os.Environ(), "XDG_DATA_HOME="+filepath.Join(work, "data"), "XDG_CONFIG_HOME="+filepath.Join(work, "config"), "HOME="+work)
	var stdout bytes.Buffer
	cmd.Stdout = &stdout
	cmd.Dir = work
	if err := cmd.Start(); err != nil {
		return fsChildResult{exitErr: "strace: " + err.Error()}
	}
	done := make(chan error, 1)
	go func() { done <- cmd.Wait() }()
	var werr error
	select {
	case werr = <-done:
	case <-time.After(60 * time.Second):
		cmd.Process.Kill()
		<-done
		return fsChildResult{exitErr: "timeout"}
	}
	res := fsChildResult{out: strings.TrimSpace(stdout.String())}
	if werr != nil {
		res.exitErr = werr.Error()
		if ee, ok := werr.(*exec.ExitError); ok {
			if ws, ok := ee.Sys().(syscall.WaitStatus); ok && (ws.Signaled() || ws.ExitStatus() == 137) {
				res.killed = true
			}
		}
	}
	tb, _ := os.ReadFile(tf)
	os.Remove(tf)
	if strings.Contains(string(tb), "+++ killed by SIGKILL +++") {
		res.killed = true
	}
	// first line of the child's output: "pid <pid> <tid of the thread doing the work>"
	mainPid := ""
	if f := strings.Fields(res.out); len(f) >= 3 && f[0] == "pid" {
		mainPid = f[2]
		if i := strings.Index(res.out, "\n"); i >= 0 {
			res.out = strings.TrimSpace(res.out[i+1:])
		} else {
			res.out = ""
		}
	}
	res.ops = parseFSTrace(string(tb), storeRoot, mainPid)
	return res
}

// ---------------------------------------------------------------- one `fs` history

type fsEvent struct {
	life  string
	fault byte // 0 K F
	k     int
}

func parseFSEvents(s string) ([]fsEvent, bool) {
	var out []fsEvent
	for _, p := range strings.Split(s, ";") {
		a := strings.Split(p, ":")
		if len(a) != 2 || (a[0] != "s" && a[0] != "l") {
			return nil, false
		}
		ev := fsEvent{life: a[0]}
		if a[1] != "-" {
			if len(a[1]) < 2 || (a[1][0] != 'K' && a[1][0] != 'F') {
				return nil, false
			}
			for _, c := range a[1][1:] {
				if c < '0' || c > '9' {
					return nil, false
				}
			}
			k, err := strconv.Atoi(a[1][1:])
			if err != nil || k == 0 {
				return nil, false
			}
			ev.fault, ev.k = a[1][0], k
		}
		out = append(out, ev)
	}
	return out, true
}

func copyTree(src, dst string) {
	filepath.Walk(src, func(p string, info os.FileInfo, err error) error {
		if err != nil {
			return nil
		}
		rel, _ := filepath.Rel(src, p)
		if info.IsDir() {
			os.MkdirAll(filepath.Join(dst, rel), 0o700)
			return nil
		}
		if b, err := os.ReadFile(p); err == nil {
			os.WriteFile(filepath.Join(dst, rel), b, 0o600)
		}
		return nil
	})
}

// runFS runs one `fs` history. The fault is placed by counting the main thread's system calls in
// a fault-free probe run; the Go runtime now and then issues a write of its own there, so a run
// whose fault did not hit the intended operation is thrown away and the whole case repeated.
func runFS(line, hist string) core.Outcome {
	evs, ok := parseFSEvents(hist)
	if !ok {
		return core.Outcome{Impl: "bad-op"}
	}
	var o core.Outcome
	for attempt := 0; attempt < 4; attempt++ {
		var misplaced bool
		o, misplaced = runFSOnce(line, hist, evs)
		if !misplaced {
			break
		}
	}
	return o
}

func runFSOnce(line, hist string, evs []fsEvent) (o core.Outcome, misplaced bool) {
	fail := func(class, what string) {
		if class == "harness-fault-misplaced" {
			misplaced = true
		}
		o.Failures = append(o.Failures, core.Failure{Case: line, Class: class, What: what})
	}
	work, err := os.MkdirTemp("/verif/.run", "c14fs-")
	if err != nil {
		return core.Outcome{Impl: "harness-error"}, false
	}
	defer os.RemoveAll(work)
	storeRoot := filepath.Join(work, "store")
	caDir := filepath.Join(storeRoot, "pki", "authorities", caID)
	// the directories are NOT created here: the first Store's MkdirAll makes them, as in a fresh install
	nm := &namer{pubs: map[string]crypto.PublicKey{}, signers: map[[32]byte]string{},
		blobs: map[[32]byte]decoded{}, chains: map[[32]byte]string{}}
	tags := map[string]bool{}
	var toks []tok
	var stableRC, stableRK []byte
	rootFixed := false
	readKey := func(short string) ([]byte, bool) {
		for _, ck := range caKeys {
			if ck.short == short {
				b, err := os.ReadFile(filepath.Join(caDir, filepath.Base(ck.key)))
				return b, err == nil
			}
		}
		return nil, false
	}
	for i, ev := range evs {
		if i > 0 {
			toks = append(toks, tok{s: " ; "})
		}
		var inject []string
		wantSys, wantNo := "", 0
		if ev.fault != 0 {
			// where is the k-th file operation? ask a fault-free run on a copy of the directory
			probe, err := os.MkdirTemp("/verif/.run", "c14fs-probe-")
			if err == nil {
				copyTree(storeRoot, filepath.Join(probe, "store"))
				pr := runFSChild(probe, filepath.Join(probe, "store"), ev.life, nil)
				os.RemoveAll(probe)
				if ev.k <= len(pr.ops) {
					op := pr.ops[ev.k-1]
					what := "signal=KILL"
					if ev.fault == 'F' {
						what = "error=EIO"
					}
					wantSys, wantNo = op.sys, op.sysNo
					inject = []string{"-e", fmt.Sprintf("inject=%s:%s:when=%d", op.sys, what, op.sysNo)}
				}
			}
		}
		res := runFSChild(work, storeRoot, ev.life, inject)
		if res.exitErr != "" && !res.killed {
			fail("harness-child-failed", fmt.Sprintf("child of %q: %s", hist, res.exitErr))
		}
		if len(res.ops) == 0 && !res.killed {
			// every start-up reads root.crt at least: the trace was not attributed; repeat the case
			fail("harness-fault-misplaced", fmt.Sprintf("event %d of %q: no file operation was observed", i+1, hist))
			o.Impl = "fault-misplaced"
			return o, true
		}
		// did the fault land where it was aimed?
		if wantSys != "" {
			hit := false
			for j, op := range res.ops {
				if op.killed || (op.failed && op.inject) {
					hit = j == ev.k-1 && op.sys == wantSys
				}
			}
			if !hit {
				fail("harness-fault-misplaced", fmt.Sprintf("event %d of %q: the injected fault did not hit file operation %d (%s #%d)", i+1, hist, ev.k, wantSys, wantNo))
				o.Impl = "fault-misplaced"
				return o, true
			}
			tags["fault:"+string(ev.fault)+":"+res.opNameAt(ev.k-1)] = true
		}
		for _, op := range res.ops {
			if op.name == "w" {
				nm.learnBlob(op.data)
			}
		}
		for _, ck := range caKeys {
			if b, ok := readKey(ck.short); ok {
				nm.learnBlob(b)
			}
		}
		// ---- result
		var r startResult
		fields := strings.Fields(res.out)
		switch {
		case res.killed:
			r.kind = "crash"
			toks = append(toks, tok{s: "crash"})
		case len(fields) >= 1 && fields[0] == "err":
			r.kind = "err"
			r.class = errClassCA(fmt.Errorf("%s", res.out))
			toks = append(toks, tok{s: "err:" + r.class})
			tags["err:"+r.class] = true
		case len(fields) == 6 && fields[0] == "ok":
			r.kind = "ok"
			rootDER, _ := base64.StdEncoding.DecodeString(fields[1])
			interDER, _ := base64.StdEncoding.DecodeString(fields[2])
			ikDER, _ := base64.StdEncoding.DecodeString(fields[3])
			problem, _ := base64.StdEncoding.DecodeString(strings.TrimPrefix(fields[4], "p:"))
			r.root, _ = x509.ParseCertificate(rootDER)
			r.inter, _ = x509.ParseCertificate(interDER)
			ikPub, _ := x509.ParsePKIXPublicKey(ikDER)
			if r.root == nil || r.inter == nil || ikPub == nil {
				fail("harness-child-failed", fmt.Sprintf("child of %q printed an unreadable result", hist))
				toks = append(toks, tok{s: "ok(?)"})
				break
			}
			toks = append(toks, tok{s: "ok(r="})
			toks = append(toks, nm.certToks(r.root)...)
			toks = append(toks, tok{s: ",i="})
			toks = append(toks, nm.certToks(r.inter)...)
			toks = append(toks, tok{s: ",k=k"}, tok{id: nm.learn(ikPub)}, tok{s: ")"})
			if c := strings.TrimPrefix(fields[5], "clean:"); c != "same" {
				fail("fs-storage-cleaning-touched-ca-files", fmt.Sprintf("after start-up %d of %q certmagic.CleanStorage on the same storage: %s", i+1, hist, c))
			} else {
				tags["storage-cleaned"] = true
			}
			if ev.fault == 0 || ev.k > len(res.ops) {
				if len(problem) > 0 {
					fail("fs-inconsistent-chain-after-startup", fmt.Sprintf("start-up %d of %q on FileStorage succeeded but: %s", i+1, hist, problem))
				}
			}
		default:
			r.kind = "err"
			toks = append(toks, tok{s: "err:child-output"})
			fail("harness-child-failed", fmt.Sprintf("child of %q printed %q", hist, truncate(res.out, 80)))
		}
		// ---- operations
		toks = append(toks, tok{s: " ["})
		for j, op := range res.ops {
			if j > 0 {
				toks = append(toks, tok{s: ","})
			}
			switch op.name {
			case "rd", "mv":
				toks = append(toks, tok{s: op.name + ":" + op.key})
			case "w":
				toks = append(toks, tok{s: "w:"})
				toks = append(toks, nm.blobToks(op.data)...)
			default:
				s := op.name
				if op.key != "" {
					s += ":" + op.key
				}
				toks = append(toks, tok{s: s})
			}
		}
		toks = append(toks, tok{s: "] {"})
		// ---- what is in the directory now
		for j, ck := range caKeys {
			if j > 0 {
				toks = append(toks, tok{s: ","})
			}
			toks = append(toks, tok{s: ck.short + "="})
			if b, ok := readKey(ck.short); ok {
				bt := nm.blobToks(b)
				toks = append(toks, bt...)
				// FileStorage's promise: a key file is never torn
				if len(bt) == 1 && bt[0].s == "?" {
					fail("fs-key-file-torn", fmt.Sprintf("after start-up %d of %q the file of %s does not decode (%d bytes)", i+1, hist, ck.short, len(b)))
				}
			} else {
				toks = append(toks, tok{s: "-"})
			}
		}
		var kinds []string
		if ents, err := os.ReadDir(caDir); err == nil {
			for _, e := range ents {
				if k, _ := fsKeyOfPath(storeRoot, filepath.Join(caDir, e.Name())); k != "" {
					continue
				}
				b, _ := os.ReadFile(filepath.Join(caDir, e.Name()))
				switch d := nm.decode(b); {
				case len(b) == 0:
					kinds = append(kinds, "e")
				case d.cert != nil || d.pub != nil:
					kinds = append(kinds, "w")
				default:
					kinds = append(kinds, "p")
				}
			}
		}
		sort.Strings(kinds)
		if len(kinds) > 0 {
			tags["temp-files-left"] = true
		}
		toks = append(toks, tok{s: ";tmp=" + strings.Join(kinds, ",") + "}"})

		// ---- oracle on the real files
		fired := ev.fault != 0 && ev.k <= len(res.ops)
		rcNow, _ := readKey("rc")
		rkNow, _ := readKey("rk")
		if !fired {
			if r.kind != "ok" {
				fail("fs-startup-fails-after-interruption",
					fmt.Sprintf("uninterrupted start-up %d of %q on FileStorage did not succeed: %s %s", i+1, hist, r.kind, truncate(res.out, 160)))
			} else if r.root != nil {
				ic, _ := readKey("ic")
				ik, _ := readKey("ik")
				c, err := decodeCert(rcNow)
				k, err2 := certmagic.PEMDecodePrivateKey(rkNow)
				c2, err3 := decodeCert(ic)
				k2, err4 := certmagic.PEMDecodePrivateKey(ik)
				if err != nil || err2 != nil || err3 != nil || err4 != nil || !c.Equal(r.root) || !samePub(k.Public(), r.root.PublicKey) ||
					!c2.Equal(r.inter) || !samePub(k2.Public(), r.inter.PublicKey) {
					fail("fs-store-incomplete-after-startup", fmt.Sprintf("start-up %d of %q on FileStorage succeeded but the files are not the chain in use", i+1, hist))
				}
			}
		}
		if rootFixed {
			if !bytes.Equal(rcNow, stableRC) || !bytes.Equal(rkNow, stableRK) {
				fail("fs-root-changed-after-successful-startup", fmt.Sprintf("start-up %d of %q on FileStorage changed the root files", i+1, hist))
				stableRC, stableRK = rcNow, rkNow
			}
		} else if r.kind == "ok" {
			rootFixed, stableRC, stableRK = true, rcNow, rkNow
		}
		if fired && i+1 < len(evs) {
			tags["restart-after-file-fault"] = true
		}
	}
	o.Impl = renderToks(toks)
	o.Tags = append(o.Tags, "fs")
	for t := range tags {
		o.Tags = append(o.Tags, "fs:"+t)
	}
	sort.Strings(o.Tags)
	return o, misplaced
}

func (r fsChildResult) opNameAt(i int) string {
	if i >= 0 && i < len(r.ops) {
		return r.ops[i].name
	}
	return "none"
}
