package c14

// The `rs` cases of C14: the RESUME side of autosave through the real command line.
//
// cmd/commandfuncs.go cmdRun (an anchor of C14) is the consumer of the autosave file: with
// --resume it reads caddy.ConfigAutosavePath and loads what it finds instead of --config. Where
// that path is depends on the environment (XDG_CONFIG_HOME, HOME) AFTER the --envfile files were
// processed (cmd/main.go loadEnvFromFile re-computes the package variable), and the writer
// (caddy.go) uses the same variable at the time of each load. The property's "recoverable after a
// restart" needs reader and writer to agree for every environment and every env file.
//
//	rs <env> <files> <ev>;<ev>;…
//	    env   = x<val>h<val>[d<val>]  XDG_CONFIG_HOME, HOME [and XDG_DATA_HOME] of the process: - unset | e empty | 0..3 a directory
//	                                  (without d: XDG_DATA_HOME is a fixed private directory)
//	    files = . | <file>/<file>/…   the --envfile files, in order; file = _ (empty) | <var>=<val>,…  var = x | h | o
//	    ev    = S:<r|->:<cfg>   start `caddy run [--resume] --envfile … --config <file holding cfg>` (a new process)
//	          | P:<cfg>         POST /load <cfg> on the admin socket of the running process
//	          | Q:<cfg>         PATCH /config/apps/c14probe with the app object of <cfg> (a sub-path write: persistence
//	                            flag and pki app stay those of the running document)
//	          | I:<cfg>         PATCH /id/a with that object (works iff the running document tags the app with @id a)
//	          | K               SIGKILL the running process
//	    cfg   = <n><p|d|n>[x|k][i|u]   (i / u: the app object carries "@id":"a" / "@id":"b" — the same config with a
//	                            different letter differs ONLY in ids)   config number (k = with the pki app on caddy's DEFAULT storage: the answer then shows the
//	                            running root and the root.crt under the data directory of the environment after / before
//	                            the env files: /r<id>, ra=<id>, rb=<id>), admin.config.persist true / absent / false, x = its app fails to provision
//	          | c<n><d|n>       (S only) a CADDYFILE, adapted by the real httpcaddyfile adapter (`--adapter caddyfile`):
//	                            global options `admin … { origins n<n>.c14.test }` (the number) and, for n, `persist_config off`
//	answer per event: S=<running config>|S=fail   P=<ok|rej>   K   each followed by {a=<autosave file at the path
//	the environment AFTER the env files gives>,b=<… at the path the process environment alone gives>}
//
// The real command runs: this binary started with VERIF_C14_AS_CADDY=1 hands control to
// caddycmd.Main() (cobra root, flag parsing, cmdRun) before anything of the harness runs.

import (
	"encoding/json"
	"fmt"
	"io"
	"net/http"
	"os"
	"os/exec"
	"path/filepath"
	"reflect"
	"sort"
	"strconv"
	"strings"
	"syscall"
	"time"

	_ "github.com/caddyserver/caddy/v2/caddyconfig/httpcaddyfile"
	caddycmd "github.com/caddyserver/caddy/v2/cmd"

	"verif/harness/internal/core"
)

const asCaddyEnvC14 = "VERIF_C14_AS_CADDY"

func init() {
	if os.Getenv(asCaddyEnvC14) == "1" {
		caddycmd.Main() // `run` never returns; errors exit with the command's status
		os.Exit(0)
	}
}

type rsVal struct {
	kind byte // - e d
	dir  int
}

func parseRSVal(s string) (rsVal, bool) {
	switch s {
	case "-":
		return rsVal{kind: '-'}, true
	case "e":
		return rsVal{kind: 'e'}, true
	case "0", "1", "2", "3":
		return rsVal{kind: 'd', dir: int(s[0] - '0')}, true
	}
	return rsVal{}, false
}

type rsAssign struct {
	v   byte // x h o
	val rsVal
}

type rsCfg struct {
	n         string
	persist   byte
	fail      bool
	pki       bool
	id        byte // 0 | i | u
	caddyfile bool
	broken    bool // (pushes only) a Caddyfile the adapter refuses
}

func (c rsCfg) token() string {
	t := c.n + string(c.persist)
	if c.caddyfile {
		t = "c" + t
		if c.broken {
			t = "c" + c.n + "b"
		}
	}
	if c.fail {
		t += "x"
	}
	if c.pki {
		t += "k"
	}
	if c.id != 0 {
		t += string(c.id)
	}
	return t
}

func parseRSCfg(s string) (rsCfg, bool) {
	if strings.HasPrefix(s, "c") {
		if n := strings.TrimSuffix(s[1:], "b"); n != s[1:] && n != "" && strings.Trim(n, "0123456789") == "" {
			return rsCfg{n: n, persist: 'd', caddyfile: true, broken: true}, true
		}
		c, ok := parseRSCfg(s[1:])
		if !ok || c.fail || c.pki || c.id != 0 || c.persist == 'p' {
			return rsCfg{}, false
		}
		c.caddyfile = true
		return c, true
	}
	i := 0
	for i < len(s) && s[i] >= '0' && s[i] <= '9' {
		i++
	}
	if i == 0 || i >= len(s) || !strings.ContainsRune("pdn", rune(s[i])) {
		return rsCfg{}, false
	}
	c := rsCfg{n: s[:i], persist: s[i]}
	rest := s[i+1:]
	if strings.HasSuffix(rest, "i") || strings.HasSuffix(rest, "u") {
		c.id = rest[len(rest)-1]
		rest = rest[:len(rest)-1]
	}
	switch rest {
	case "":
	case "x":
		c.fail = true
	case "k":
		c.pki = true
	default:
		return rsCfg{}, false
	}
	return c, true
}

type rsEvent struct {
	kind   byte // S P K
	resume bool
	cfg    rsCfg
}

type rsCase struct {
	data      rsVal // XDG_DATA_HOME; kind 0 = not part of the case (a fixed private directory)
	xdg, home rsVal
	files     [][]rsAssign
	evs       []rsEvent
}

func parseRS(f []string) (rsCase, bool) {
	var c rsCase
	if len(f) != 3 {
		return c, false
	}
	e := f[0]
	if len(e) == 6 && e[4] == 'd' {
		v, ok := parseRSVal(e[5:6])
		if !ok {
			return c, false
		}
		c.data = v
		e = e[:4]
	}
	if len(e) != 4 || e[0] != 'x' || e[2] != 'h' {
		return c, false
	}
	var ok1, ok2 bool
	c.xdg, ok1 = parseRSVal(e[1:2])
	c.home, ok2 = parseRSVal(e[3:4])
	if !ok1 || !ok2 {
		return c, false
	}
	if f[1] != "." {
		for _, fs := range strings.Split(f[1], "/") {
			var as []rsAssign
			if fs != "_" {
				for _, a := range strings.Split(fs, ",") {
					kv := strings.Split(a, "=")
					if len(kv) != 2 || len(kv[0]) != 1 || !strings.Contains("xhod", kv[0]) {
						return c, false
					}
					v, ok := parseRSVal(kv[1])
					if !ok || v.kind == '-' {
						return c, false
					}
					for _, prev := range as {
						if prev.v == kv[0][0] {
							return c, false // one assignment per variable and file
						}
					}
					as = append(as, rsAssign{kv[0][0], v})
				}
			}
			c.files = append(c.files, as)
		}
	}
	for _, es := range strings.Split(f[2], ";") {
		a := strings.Split(es, ":")
		switch {
		case len(a) == 1 && a[0] == "K":
			c.evs = append(c.evs, rsEvent{kind: 'K'})
		case len(a) == 2 && len(a[0]) == 1 && strings.Contains("PFGMXY", a[0]):
			cfg, ok := parseRSCfg(a[1])
			if !ok {
				return c, false
			}
			c.evs = append(c.evs, rsEvent{kind: a[0][0], cfg: cfg})
		case len(a) == 2 && (a[0] == "Q" || a[0] == "I"):
			cfg, ok := parseRSCfg(a[1])
			if !ok || cfg.caddyfile || cfg.pki {
				return c, false
			}
			c.evs = append(c.evs, rsEvent{kind: a[0][0], cfg: cfg})
		case len(a) == 3 && a[0] == "S" && (a[1] == "r" || a[1] == "-"):
			cfg, ok := parseRSCfg(a[2])
			if !ok || cfg.fail || cfg.broken {
				return c, false
			}
			c.evs = append(c.evs, rsEvent{kind: 'S', resume: a[1] == "r", cfg: cfg})
		default:
			return c, false
		}
	}
	return c, true
}

// ---- the two places the autosave file can be: by the process environment alone ("b"), and by
// the environment after the env files ("a")

type rsEnv struct{ xdg, home, data rsVal }

func (e rsEnv) apply(file []rsAssign) rsEnv {
	for _, a := range file {
		switch a.v {
		case 'x':
			if e.xdg.kind == '-' { // "do not overwrite existing environment variables" (LookupEnv)
				e.xdg = a.val
			}
		case 'h':
			if e.home.kind == '-' {
				e.home = a.val
			}
		case 'd':
			if e.data.kind == '-' {
				e.data = a.val
			}
		}
	}
	return e
}

// rootPath: root.crt of CA "local" on caddy's default storage (AppDataDir: XDG_DATA_HOME, else
// HOME/.local/share, else ./caddy)
func (e rsEnv) rootPath(work string) string {
	base := filepath.Join(work, "cwd", "caddy")
	switch {
	case e.data.kind == 0:
		base = filepath.Join(work, "data", "caddy")
	case e.data.kind == 'd':
		base = filepath.Join(work, "d"+strconv.Itoa(e.data.dir), "caddy")
	case e.home.kind == 'd':
		base = filepath.Join(work, "d"+strconv.Itoa(e.home.dir), ".local", "share", "caddy")
	}
	return filepath.Join(base, "pki", "authorities", "local", "root.crt")
}

func (e rsEnv) autosavePath(work string) string {
	if e.xdg.kind == 'd' {
		return filepath.Join(work, "d"+strconv.Itoa(e.xdg.dir), "caddy", "autosave.json")
	}
	if e.home.kind == 'd' {
		return filepath.Join(work, "d"+strconv.Itoa(e.home.dir), ".config", "caddy", "autosave.json")
	}
	return filepath.Join(work, "cwd", "caddy", "autosave.json")
}

func (c rsCfg) json(sock string) []byte {
	admin := map[string]any{"listen": "unix/" + sock}
	switch c.persist {
	case 'p':
		admin["config"] = map[string]any{"persist": true}
	case 'n':
		admin["config"] = map[string]any{"persist": false}
	}
	apps := map[string]any{"c14probe": c.probeObject()}
	if c.pki {
		apps["pki"] = map[string]any{"certificate_authorities": map[string]any{"local": map[string]any{"install_trust": false}}}
	}
	b, _ := json.Marshal(map[string]any{
		"admin":   admin,
		"logging": map[string]any{"logs": map[string]any{"default": map[string]any{"writer": map[string]any{"output": "discard"}}}},
		"apps":    apps,
	})
	return b
}

// caddyfileText is the Caddyfile of a c-config.
func (c rsCfg) caddyfileText(sock string) []byte {
	var sb strings.Builder
	sb.WriteString("{\n\tadmin unix/" + sock + " {\n\t\torigins n" + c.n + ".c14.test\n\t}\n")
	if c.persist == 'n' {
		sb.WriteString("\tpersist_config off\n")
	}
	if c.broken {
		sb.WriteString("\tc14_no_such_global_option on\n")
	}
	sb.WriteString("}\n")
	return []byte(sb.String())
}

// probeObject: the app object; its own "tok" leaves the id letter out, so that i / u / none differ
// in the @id tag and in nothing else
func (c rsCfg) probeObject() map[string]any {
	n, _ := strconv.Atoi(c.n)
	plain := c
	plain.id = 0
	probe := map[string]any{"n": n, "tok": plain.token()}
	if c.fail {
		probe["fail"] = "provision"
	}
	switch c.id {
	case 'i':
		probe["@id"] = "a"
	case 'u':
		probe["@id"] = "b"
	}
	return probe
}

// tokOfJSON: the token of a config document ("-" none, "~" not one of ours)
func tokOfJSON(b []byte) string {
	if b == nil {
		return "-"
	}
	// a config adapted from one of our Caddyfiles: the number is in the admin origin
	var cf struct {
		Admin struct {
			Origins []string `json:"origins"`
			Config  *struct {
				Persist *bool `json:"persist"`
			} `json:"config"`
		} `json:"admin"`
	}
	if json.Unmarshal(b, &cf) == nil && len(cf.Admin.Origins) == 1 && strings.HasPrefix(cf.Admin.Origins[0], "n") &&
		strings.HasSuffix(cf.Admin.Origins[0], ".c14.test") {
		n := strings.TrimSuffix(strings.TrimPrefix(cf.Admin.Origins[0], "n"), ".c14.test")
		if _, err := strconv.Atoi(n); err == nil {
			letter := "d"
			if cf.Admin.Config != nil && cf.Admin.Config.Persist != nil {
				letter = map[bool]string{true: "p", false: "n"}[*cf.Admin.Config.Persist]
			}
			return "c" + n + letter // a document adapted from a Caddyfile has no probe app: its token says so
		}
	}
	var v struct {
		Admin struct {
			Config *struct {
				Persist *bool `json:"persist"`
			} `json:"config"`
		} `json:"admin"`
		Apps struct {
			P struct {
				N    int    `json:"n"`
				Tok  string `json:"tok"`
				Fail string `json:"fail"`
				ID   string `json:"@id"`
			} `json:"c14probe"`
			PKI json.RawMessage `json:"pki"`
		} `json:"apps"`
	}
	if json.Unmarshal(b, &v) != nil || v.Apps.P.Tok == "" {
		return "~"
	}
	// the token is read off the document's own fields (a sub-path write changes only some of them)
	c := rsCfg{n: strconv.Itoa(v.Apps.P.N), persist: 'd', fail: v.Apps.P.Fail != "", pki: len(v.Apps.PKI) > 0}
	if v.Admin.Config != nil && v.Admin.Config.Persist != nil {
		c.persist = map[bool]byte{true: 'p', false: 'n'}[*v.Admin.Config.Persist]
	}
	switch v.Apps.P.ID {
	case "a":
		c.id = 'i'
	case "b":
		c.id = 'u'
	}
	return c.token()
}

func runRS(line string, f []string) core.Outcome {
	c, ok := parseRS(f)
	if !ok {
		return core.Outcome{Impl: "bad-op"}
	}
	var o core.Outcome
	fail := func(class, what string) {
		o.Failures = append(o.Failures, core.Failure{Case: line, Class: class, What: what})
	}
	work, err := os.MkdirTemp("/verif/.run", "c14rs-")
	if err != nil {
		return core.Outcome{Impl: "harness-error"}
	}
	defer os.RemoveAll(work)
	for i := 0; i < 4; i++ {
		os.MkdirAll(filepath.Join(work, "d"+strconv.Itoa(i)), 0o700)
	}
	os.MkdirAll(filepath.Join(work, "cwd"), 0o700)
	sock := filepath.Join(work, "a.sock")
	adminAddr := "unix/" + sock
	valStr := func(v rsVal) string {
		if v.kind == 'd' {
			return filepath.Join(work, "d"+strconv.Itoa(v.dir))
		}
		return ""
	}
	// env files
	var envArgs []string
	for i, file := range c.files {
		var sb strings.Builder
		sb.WriteString("# C14 rs case\n")
		for _, a := range file {
			name := map[byte]string{'x': "XDG_CONFIG_HOME", 'h': "HOME", 'o': "C14_OTHER", 'd': "XDG_DATA_HOME"}[a.v]
			fmt.Fprintf(&sb, "%s=%s\n", name, valStr(a.val))
		}
		p := filepath.Join(work, fmt.Sprintf("env%d", i))
		os.WriteFile(p, []byte(sb.String()), 0o600)
		envArgs = append(envArgs, "--envfile", p)
	}
	penv := rsEnv{c.xdg, c.home, c.data}
	aenv := penv
	for _, file := range c.files {
		aenv = aenv.apply(file)
	}
	pathA, pathB := aenv.autosavePath(work), penv.autosavePath(work)
	fileTok := func(p string) string {
		b, err := os.ReadFile(p)
		if err != nil {
			return "-"
		}
		return tokOfJSON(b)
	}
	tags := map[string]bool{}
	// root identities, named in order of first appearance
	rootIDs := map[string]int{}
	rootID := func(pemBytes []byte) string {
		c, err := decodeCert(pemBytes)
		if err != nil {
			if len(pemBytes) == 0 {
				return "-"
			}
			return "?"
		}
		k := string(c.Raw)
		if _, ok := rootIDs[k]; !ok {
			rootIDs[k] = len(rootIDs)
		}
		return strconv.Itoa(rootIDs[k])
	}
	rootA, rootB := aenv.rootPath(work), penv.rootPath(work)
	usesPKI := false
	for _, ev := range c.evs {
		if ev.cfg.pki {
			usesPKI = true
		}
	}
	state := func() string {
		s := "{a=" + fileTok(pathA) + ",b=" + fileTok(pathB)
		if usesPKI {
			ba, _ := os.ReadFile(rootA)
			bb, _ := os.ReadFile(rootB)
			s += ",ra=" + rootID(ba) + ",rb=" + rootID(bb)
		}
		return s + "}"
	}
	// the root the running process uses (admin API of the pki app)
	runningRoot := func() []byte {
		resp, err := caddycmd.AdminAPIRequest(adminAddr, http.MethodGet, "/pki/ca/local", nil, nil)
		if err != nil {
			return nil
		}
		defer resp.Body.Close()
		var v struct {
			Root string `json:"root_certificate"`
		}
		if resp.StatusCode != 200 || json.NewDecoder(resp.Body).Decode(&v) != nil {
			return nil
		}
		return []byte(v.Root)
	}
	var firstRoot []byte // the root of the first process that had one: every later process must use it
	checkRoot := func(i int, tok string) string {
		cfg, ok := parseRSCfg(tok)
		if !ok || !cfg.pki {
			return ""
		}
		r := runningRoot()
		id := rootID(r)
		tags["pki-on-default-storage"] = true
		if firstRoot == nil {
			firstRoot = r
		} else if string(r) != string(firstRoot) {
			fail("rs-root-not-reloaded-unchanged",
				fmt.Sprintf("event %d of %q: the running CA root is not the one an earlier process of this history (same environment, same env files) created", i+1, line))
		}
		return "/r" + id
	}

	var proc *exec.Cmd
	var procExited chan struct{}
	kill := func() {
		if proc != nil {
			proc.Process.Signal(syscall.SIGKILL)
			<-procExited
			proc = nil
			os.Remove(sock)
		}
	}
	defer kill()
	running := func() (string, bool) {
		resp, err := caddycmd.AdminAPIRequest(adminAddr, http.MethodGet, "/config/", nil, nil)
		if err != nil {
			return "", false
		}
		defer resp.Body.Close()
		b, _ := io.ReadAll(resp.Body)
		if resp.StatusCode != 200 {
			return "", false
		}
		return tokOfJSON(b), true
	}
	if pathA != pathB {
		tags["envfile-moves-autosave-path"] = true
	}
	var outs []string
	lastPersisted := "" // the latest config whose load returned with persistence on, in any process of this case
	for i, ev := range c.evs {
		switch ev.kind {
		case 'K':
			if proc != nil {
				tags["kill"] = true
			}
			kill()
			outs = append(outs, "K"+state())
		case 'P', 'F', 'G', 'M', 'X', 'Y', 'Q', 'I':
			kind := string(ev.kind)
			if proc == nil {
				outs = append(outs, kind+"=norun"+state())
				continue
			}
			runTokBefore, _ := running()
			method, uri, body := http.MethodPost, "/load", ev.cfg.json(sock)
			hdr := http.Header{"Content-Type": []string{"application/json"}}
			isLoad := strings.ContainsRune("PFGMXY", rune(ev.kind))
			refusedEarly := strings.ContainsRune("MXY", rune(ev.kind)) // answered before caddy.Load
			if isLoad {
				// the /load endpoint: adapter by Content-Type, forced reload by Cache-Control
				if ev.cfg.caddyfile {
					body = ev.cfg.caddyfileText(sock)
					hdr.Set("Content-Type", "text/caddyfile")
					tags["push:caddyfile-body"] = true
				}
				switch ev.kind {
				case 'F':
					hdr.Set("Cache-Control", "must-revalidate")
					tags["push:must-revalidate"] = true
				case 'G':
					hdr.Set("Cache-Control", "no-cache, must-revalidate")
					tags["push:cache-control-list"] = true
				case 'M':
					method = http.MethodPut
					tags["push:wrong-method"] = true
				case 'X':
					hdr.Set("Content-Type", "text/c14nosuchadapter")
					tags["push:unknown-adapter"] = true
				case 'Y':
					hdr.Set("Content-Type", "c14malformed")
					hdr.Set("Cache-Control", "must-revalidate")
					tags["push:malformed-content-type"] = true
				}
			}
			inoBefore, existedBefore := inodeOf(pathA)
			expect := ev.cfg
			if !isLoad {
				// a sub-path write: only the app object is replaced
				method, uri = http.MethodPatch, "/config/apps/c14probe"
				if ev.kind == 'I' {
					uri = "/id/a"
				}
				body, _ = json.Marshal(ev.cfg.probeObject())
				if rc, ok := parseRSCfg(runTokBefore); ok {
					expect.persist, expect.pki = rc.persist, rc.pki
				}
				tags["push:"+kind] = true
			}
			resp, err := caddycmd.AdminAPIRequest(adminAddr, method, uri, hdr, strings.NewReader(string(body)))
			ev.cfg = expect
			res := "rej"
			if err == nil {
				io.Copy(io.Discard, resp.Body)
				resp.Body.Close()
				if resp.StatusCode == 200 {
					res = "ok"
				}
			}
			tags["push:"+res] = true
			if ev.cfg.id != 0 {
				tags["push:with-id"] = true
			}
			if res == "ok" && ev.cfg.persist != 'n' {
				lastPersisted = ev.cfg.token()
				if got := fileTok(pathA); got != lastPersisted {
					fail("rs-autosave-not-latest-after-push-returned",
						fmt.Sprintf("event %d of %q: %s %s of %s returned 200 but the autosave file at the environment's path holds %s", i+1, line, method, uri, lastPersisted, got))
				}
				// the file is a copy of the DOCUMENT the server now holds, @id tags included
				var fileDoc, liveDoc any
				fb, _ := os.ReadFile(pathA)
				if resp, err := caddycmd.AdminAPIRequest(adminAddr, http.MethodGet, "/config/", nil, nil); err == nil {
					lb, _ := io.ReadAll(resp.Body)
					resp.Body.Close()
					if json.Unmarshal(fb, &fileDoc) != nil || json.Unmarshal(lb, &liveDoc) != nil || !reflect.DeepEqual(fileDoc, liveDoc) {
						fail("rs-autosave-differs-from-running-document",
							fmt.Sprintf("event %d of %q: after %s %s returned, GET /config/ and the autosave file are different documents (file: %s, running: %s)",
								i+1, line, method, uri, tokOfJSON(fb), tokOfJSON(lb)))
					}
				}
			}
			inoAfter, existsAfter := inodeOf(pathA)
			written := existsAfter && (!existedBefore || inoAfter != inoBefore)
			if written {
				tags["push:autosave-rewritten"] = true
			}
			if res == "ok" && ev.cfg.persist != 'n' {
				fb, _ := os.ReadFile(pathA)
				if ev.cfg.caddyfile {
					// what is saved is the ADAPTED document: JSON, never the Caddyfile text that was sent
					var doc map[string]any
					if string(fb) == string(body) || json.Unmarshal(fb, &doc) != nil {
						fail("rs-autosave-holds-unadapted-body",
							fmt.Sprintf("event %d of %q: a Caddyfile was pushed to /load and accepted; the autosave file is not the adapted JSON document (%d bytes, starts %q)",
								i+1, line, len(fb), firstBytes(fb, 24)))
					}
				}
				// a push that is not byte-identical to the running document, and every forced one, re-writes the file
				if (ev.kind == 'F' || runTokBefore != ev.cfg.token()) && !written {
					fail("rs-returned-push-did-not-rewrite-autosave",
						fmt.Sprintf("event %d of %q: %s %s of %s (running before: %s, Cache-Control %q) returned 200 with persistence on, but the autosave file was not written again",
							i+1, line, method, uri, ev.cfg.token(), runTokBefore, hdr.Get("Cache-Control")))
				}
			}
			if res != "ok" && written {
				fail("rs-refused-push-wrote-autosave",
					fmt.Sprintf("event %d of %q: %s %s of %s was refused, yet the autosave file was written", i+1, line, method, uri, ev.cfg.token()))
			}
			if refusedEarly && res == "ok" {
				fail("rs-load-endpoint-accepted-request-it-must-refuse",
					fmt.Sprintf("event %d of %q: %s %s with Content-Type %q returned 200", i+1, line, method, uri, hdr.Get("Content-Type")))
			}
			if isLoad && !refusedEarly && (res == "ok") == (ev.cfg.fail || ev.cfg.broken) {
				fail("harness-probe-config-verdict", fmt.Sprintf("event %d of %q: push of %s: %s", i+1, line, ev.cfg.token(), res))
			}
			rr := ""
			if res == "ok" {
				rr = checkRoot(i, ev.cfg.token())
			}
			if res == "ok" && written {
				res += "!"
			}
			outs = append(outs, kind+"="+res+rr+state())
		case 'S':
			kill() // a new start means the old process is gone
			cfgPath := filepath.Join(work, fmt.Sprintf("config%d.json", i))
			args := []string{"run"}
			if ev.resume {
				args = append(args, "--resume")
			}
			args = append(args, envArgs...)
			if ev.cfg.caddyfile {
				tags["caddyfile-config"] = true
				cfgPath = filepath.Join(work, fmt.Sprintf("Caddyfile%d", i))
				os.WriteFile(cfgPath, ev.cfg.caddyfileText(sock), 0o600)
				args = append(args, "--config", cfgPath, "--adapter", "caddyfile")
			} else {
				os.WriteFile(cfgPath, ev.cfg.json(sock), 0o600)
				args = append(args, "--config", cfgPath)
			}
			autosaveBefore, _ := os.ReadFile(pathA)
			exe, _ := os.Executable()
			cmd := exec.Command(exe, args...)
			cmd.Dir = filepath.Join(work, "cwd")
			cmd.Env = []string{asCaddyEnvC14 + "=1", "PATH=" + os.Getenv("PATH")}
			switch c.data.kind {
			case 0:
				cmd.Env = append(cmd.Env, "XDG_DATA_HOME="+filepath.Join(work, "data"))
			case '-':
			default:
				cmd.Env = append(cmd.Env, "XDG_DATA_HOME="+valStr(c.data))
			}
			if c.xdg.kind != '-' {
				cmd.Env = append(cmd.Env, "XDG_CONFIG_HOME="+valStr(c.xdg))
			}
			if c.home.kind != '-' {
				cmd.Env = append(cmd.Env, "HOME="+valStr(c.home))
			}
			if err := cmd.Start(); err != nil {
				fail("harness-child-failed", err.Error())
				outs = append(outs, "S=fail"+state())
				continue
			}
			exited := make(chan struct{})
			go func(p *exec.Cmd) { p.Wait(); close(exited) }(cmd)
			proc, procExited = cmd, exited
			tok, up := "", false
			deadline := time.Now().Add(20 * time.Second)
		wait:
			for time.Now().Before(deadline) {
				select {
				case <-exited:
					break wait
				default:
				}
				if t, ok := running(); ok {
					tok, up = t, true
					break
				}
				time.Sleep(15 * time.Millisecond)
			}
			if !up {
				kill()
				fail("rs-start-failed", fmt.Sprintf("event %d of %q: `caddy %s` did not come up", i+1, line, strings.Join(args, " ")))
				outs = append(outs, "S=fail"+state())
				continue
			}
			if ev.resume {
				tags["resume"] = true
				// the property: a restart with --resume recovers the latest config that was persisted
				if lastPersisted != "" && tok != lastPersisted {
					fail("rs-resume-does-not-recover-latest-persisted-config",
						fmt.Sprintf("event %d of %q: `caddy run --resume` came up running %s; the latest config whose load had returned with persistence on is %s (autosave at the environment's path: %s, at the process environment's path: %s)",
							i+1, line, tok, lastPersisted, fileTok(pathA), fileTok(pathB)))
				}
			}
			// what came up is the --config file iff its number shows; then it must say about persistence
			// what the file says (for a Caddyfile: across the adapter), and act on it
			if got, ok := parseRSCfg(tok); ok && got.n == ev.cfg.n && got.persist != ev.cfg.persist {
				fail("rs-config-persistence-flag-lost",
					fmt.Sprintf("event %d of %q: the config file says persistence %q, the running config says %q", i+1, line, string(ev.cfg.persist), string(got.persist)))
				if now, _ := os.ReadFile(pathA); ev.cfg.persist == 'n' && string(now) != string(autosaveBefore) {
					fail("rs-autosave-written-although-persistence-off",
						fmt.Sprintf("event %d of %q: the config file turns persistence off, yet starting with it changed the autosave file to %s", i+1, line, tokOfJSON(now)))
				}
			}
			// the start-up's own load persists, too — unless its config says not to
			if len(tok) > 0 && tok != "~" {
				if cfg, ok := parseRSCfg(tok); ok && cfg.persist != 'n' {
					lastPersisted = tok
					if got := fileTok(pathA); got != tok {
						fail("rs-autosave-not-latest-after-start", fmt.Sprintf("event %d of %q: came up running %s, the autosave file holds %s", i+1, line, tok, got))
					}
				} else if ok {
					tags["start:persist-off"] = true
					if now, _ := os.ReadFile(pathA); string(now) != string(autosaveBefore) {
						fail("rs-autosave-written-although-persistence-off",
							fmt.Sprintf("event %d of %q: the config that came up (%s) has persistence off, yet the autosave file changed to %s", i+1, line, tok, tokOfJSON(now)))
					}
				}
			}
			outs = append(outs, "S="+tok+checkRoot(i, tok)+state())
		}
	}
	o.Impl = strings.Join(outs, " ")
	o.Tags = append(o.Tags, "rs")
	for t := range tags {
		o.Tags = append(o.Tags, "rs:"+t)
	}
	sort.Strings(o.Tags)
	return o
}

// inodeOf: the inode of a file (a rename over it installs another one)
func inodeOf(p string) (uint64, bool) {
	fi, err := os.Stat(p)
	if err != nil {
		return 0, false
	}
	if st, ok := fi.Sys().(*syscall.Stat_t); ok {
		return st.Ino, true
	}
	return 0, true
}

func firstBytes(b []byte, n int) string {
	if len(b) > n {
		b = b[:n]
	}
	return string(b)
}
