package c18

// `httprw`: the URI part of the real rewrite handler (modules/caddyhttp/rewrite) on a request whose
// path and query carry placeholder syntax. The model (CaddyModel/C18/Rewrite.lean) must give the same
// Path / RawQuery / Fragment; the impl-only oracle is the property itself: text that came out of an
// expansion (the request's path and query) is not expanded again, so neither secret can show up
// unless the TEMPLATE names it.

import (
	"context"
	"fmt"
	"net/http/httptest"
	"os"
	"strings"
	"sync"

	"github.com/caddyserver/caddy/v2/modules/caddyhttp"
	"github.com/caddyserver/caddy/v2/modules/caddyhttp/rewrite"

	"verif/harness/internal/core"
)

// a secret file addressed RELATIVE to the working directory: its name survives path.Split and the
// URL escapers unchanged, so (unlike the absolute @SECRETFILE@ token) it can flow through the handler
const rwFile = "c18rwsecret.txt"

var rwFileOnce sync.Once

func rwSecretFile() {
	rwFileOnce.Do(func() {
		if err := os.WriteFile(rwFile, []byte(fileContent), 0o600); err != nil {
			panic(err)
		}
	})
}

var rwPieces = []string{
	"/", "/files/", "/r", "x", "-", ".", "%2F", "%7B", "%zz", "%", " ", "+", "&", "=", "a=b", "k=", "&&",
	"{http.request.uri.path}", "{http.request.uri.path}", "{http.request.uri.path.file}", "{http.request.uri.path.dir}",
	"{http.request.uri}", "{http.request.uri.query}", "{http.request.uri.query}", "{http.request.uri.prefixed_query}",
	"{env." + secretEnv + "}", "{env.VERIF_C18_UNSET}", "{zz.unk}", "{", "}", "\\{", "{http.request.uri.path", "?", "?", "#",
}

var rwPathPieces = []string{
	"/", "/", "/x", "a", "b.txt", "?", "?q=", "{env." + secretEnv + "}", "{file." + rwFile + "}", "{http.request.uri.query}",
	"%", "%41", " ", "&", "=", "#", "{", "}", "+", "é", "{zz.unk}", ";", ",", "!", "*", "'", "(", ")", ":", "@", "$", "[", "]", "\\", "\"", "<", "|", "~", "_",
}

var rwQueryPieces = []string{
	"", "q=", "a=b", "&", "=", "{env." + secretEnv + "}", "{file." + rwFile + "}", "{http.request.uri.path}", "%7B", "+", "x", "{", "}", "?", "/",
}

func genRewrite(rng *core.Rand, emit func(string)) {
	cat := func(ps []string, max int) string {
		var sb strings.Builder
		for j := rng.Intn(max); j > 0; j-- {
			sb.WriteString(rng.Pick(ps))
		}
		return sb.String()
	}
	var tmpl string
	switch rng.Intn(6) {
	case 0: // the documented "strip the query" idiom and its relatives
		tmpl = rng.Pick([]string{"{http.request.uri.path}?", "/files/{http.request.uri.path.file}?", "/x{http.request.uri}?",
			"{http.request.uri.path.dir}index?", "/p{http.request.uri.prefixed_query}?", "/files/{http.request.uri.path.file}?#f", "{http.request.uri}", "/a{http.request.uri}#{http.request.uri.query}"})
	case 1:
		tmpl = cat(rwPieces, 5) + "?" + cat(rwPieces, 4)
	default:
		tmpl = cat(rwPieces, 7)
	}
	path := "/" + cat(rwPathPieces, 6)
	secret := rng.Pick([]string{"S3CR3T-ENV-9942", "S3CR3T-ENV-9942", "S3CR3T-ENV-9942", "a&b=c d", ""})
	emit(fmt.Sprintf("httprw %s %s %s %s", core.Hex(tmpl), core.Hex(path), core.Hex(cat(rwQueryPieces, 4)), core.Hex(secret)))
}

func runRewrite(line string, f []string) core.Outcome {
	var v [4]string
	for i := 0; i < 4; i++ {
		s, err := core.UnHex(f[i+1])
		if err != nil {
			return core.Outcome{Impl: "bad-op"}
		}
		v[i] = s
	}
	tmpl, path, rawQuery, secret := v[0], v[1], v[2], v[3]
	os.Setenv(secretEnv, secret)
	defer os.Unsetenv(secretEnv)
	rwSecretFile()

	req := httptest.NewRequest("GET", "http://example.test/", nil)
	req.URL.Path, req.URL.RawPath, req.URL.RawQuery = path, "", rawQuery
	req.RequestURI = req.URL.RequestURI()
	ctx := context.WithValue(req.Context(), caddyhttp.VarsCtxKey, map[string]any{})
	req = req.WithContext(ctx)
	repl := caddyhttp.NewTestReplacer(req)

	o := core.Outcome{Tags: []string{"op:httprw"}}
	panicked := func() (p any) {
		defer func() { p = recover() }()
		rewrite.Rewrite{URI: tmpl}.Rewrite(req, repl)
		return nil
	}()
	if panicked != nil {
		o.Impl = "panic"
		return o
	}
	o.Impl = "ok " + core.Hex(req.URL.Path) + " " + core.Hex(req.URL.RawQuery) + " " + core.Hex(req.URL.Fragment)

	if strings.ContainsAny(path+rawQuery, "{}") {
		o.Tags = append(o.Tags, "attacker-value-has-braces")
	}
	qi := strings.IndexByte(tmpl, '?')
	if hi := strings.IndexByte(tmpl, '#'); qi >= 0 && (hi < 0 || qi < hi) {
		if qi+1 == len(tmpl) || tmpl[qi+1] == '#' {
			o.Tags = append(o.Tags, "rw:empty-explicit-query")
			if strings.Contains(path, "?") {
				o.Tags = append(o.Tags, "rw:query-injected-through-path")
			}
		} else {
			o.Tags = append(o.Tags, "rw:explicit-query")
		}
	} else {
		o.Tags = append(o.Tags, "rw:no-query-part")
	}
	outAll := req.URL.Path + "\x00" + req.URL.RawQuery + "\x00" + req.URL.Fragment
	if len(secret) >= 8 && !strings.ContainsAny(secret, "{}") && strings.Contains(outAll, secret) && !strings.Contains(tmpl, "env."+secretEnv) {
		o.Failures = append(o.Failures, core.Failure{Class: "rewrite-expands-request-text",
			What: fmt.Sprintf("rewrite %q of a request with path %q and query %q: the rewritten URI (path %q, query %q, fragment %q) contains the value of $%s although the template does not name it — request text was expanded", tmpl, path, rawQuery, req.URL.Path, req.URL.RawQuery, req.URL.Fragment, secretEnv)})
	}
	if strings.Contains(outAll, fileContent) {
		o.Failures = append(o.Failures, core.Failure{Class: "rewrite-expands-request-text",
			What: fmt.Sprintf("rewrite %q of a request with path %q and query %q: the rewritten URI (path %q, query %q) contains the content of the secret file — request text was expanded", tmpl, path, rawQuery, req.URL.Path, req.URL.RawQuery)})
	}
	return o
}
