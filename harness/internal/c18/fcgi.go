package c18

// `fcgi`: the CGI variable table of the REAL FastCGI transport (modules/caddyhttp/reverseproxy/fastcgi:
// Transport.buildEnv). A provisioned http app runs `authentication {c18user}` (a probe provider that reports
// the X-User header as the user id) and `reverse_proxy` with `transport fastcgi` (one configured `env` entry, `root`,
// at most one `split_path` entry); the upstream is an in-process FastCGI responder on a private unix socket that
// records the PARAMS record it receives. Model: CaddyModel/C18/Fcgi.lean.
//
// fcgi <envKey> <envTmpl> <rootTmpl> <split> <path> <rawQuery> <X-In> <user> <secret>
// Answer: ok + the values (hex, `!` = absent) of envKey QUERY_STRING REQUEST_URI DOCUMENT_URI PATH_INFO SCRIPT_NAME
// SCRIPT_FILENAME PATH_TRANSLATED DOCUMENT_ROOT REMOTE_USER CONTENT_TYPE HTTP_X_IN | err:provision | err:fcgi.

import (
	"encoding/binary"
	"encoding/json"
	"fmt"
	"io"
	"net"
	"net/http"
	"net/http/httptest"
	"os"
	"path/filepath"
	"sort"
	"strings"
	"sync"
	"time"

	"github.com/caddyserver/caddy/v2"
	"github.com/caddyserver/caddy/v2/modules/caddyhttp"
	"github.com/caddyserver/caddy/v2/modules/caddyhttp/caddyauth"
	_ "github.com/caddyserver/caddy/v2/modules/caddyhttp/reverseproxy/fastcgi"

	"verif/harness/internal/core"
)

// ---- probe authentication provider: the user id is the X-User header

type userProbe struct{}

func (userProbe) CaddyModule() caddy.ModuleInfo {
	return caddy.ModuleInfo{ID: "http.authentication.providers.c18user", New: func() caddy.Module { return new(userProbe) }}
}

func (userProbe) Authenticate(_ http.ResponseWriter, r *http.Request) (caddyauth.User, bool, error) {
	return caddyauth.User{ID: strings.Join(r.Header["X-User"], ", ")}, true, nil
}

func init() { caddy.RegisterModule(userProbe{}) }

// ---- in-process FastCGI responder

var (
	fcgiOnce sync.Once
	fcgiDir  string
	fcgiSock string
	fcgiErr  error
	fcgiLn   net.Listener
	fcgiGot  = make(chan map[string]string, 16)
)

func fcgiStart() error {
	fcgiOnce.Do(func() {
		os.MkdirAll("/verif/.run", 0o755)
		fcgiDir, fcgiErr = os.MkdirTemp("/verif/.run", "c18fcgi")
		if fcgiErr != nil {
			return
		}
		fcgiSock = filepath.Join(fcgiDir, "s")
		fcgiLn, fcgiErr = net.Listen("unix", fcgiSock)
		if fcgiErr != nil {
			return
		}
		go func() {
			for {
				c, err := fcgiLn.Accept()
				if err != nil {
					return
				}
				go fcgiConn(c)
			}
		}()
	})
	return fcgiErr
}

func fcgiCleanup() {
	if fcgiLn != nil {
		fcgiLn.Close()
	}
	if fcgiDir != "" {
		os.RemoveAll(fcgiDir)
	}
}

func fcgiRecord(w io.Writer, typ byte, id uint16, content []byte) {
	h := [8]byte{1, typ, byte(id >> 8), byte(id), byte(len(content) >> 8), byte(len(content)), 0, 0}
	w.Write(h[:])
	w.Write(content)
}

func fcgiPairs(b []byte) map[string]string {
	m := map[string]string{}
	rdLen := func() (int, bool) {
		if len(b) == 0 {
			return 0, false
		}
		if b[0] < 128 {
			n := int(b[0])
			b = b[1:]
			return n, true
		}
		if len(b) < 4 {
			return 0, false
		}
		n := int(binary.BigEndian.Uint32(b[:4]) & 0x7fffffff)
		b = b[4:]
		return n, true
	}
	for len(b) > 0 {
		nl, ok1 := rdLen()
		vl, ok2 := rdLen()
		if !ok1 || !ok2 || nl+vl > len(b) {
			break
		}
		m[string(b[:nl])] = string(b[nl : nl+vl])
		b = b[nl+vl:]
	}
	return m
}

func fcgiConn(c net.Conn) {
	defer c.Close()
	c.SetDeadline(time.Now().Add(3 * time.Second))
	var params []byte
	var id uint16
	for {
		var h [8]byte
		if _, err := io.ReadFull(c, h[:]); err != nil {
			return
		}
		id = uint16(h[2])<<8 | uint16(h[3])
		n := int(h[4])<<8 | int(h[5])
		body := make([]byte, n+int(h[6]))
		if _, err := io.ReadFull(c, body); err != nil {
			return
		}
		body = body[:n]
		switch h[1] {
		case 4: // PARAMS
			params = append(params, body...)
		case 5: // STDIN
			if n == 0 {
				select {
				case fcgiGot <- fcgiPairs(params):
				default:
				}
				fcgiRecord(c, 6, id, []byte("Status: 200 OK\r\nContent-Type: text/plain\r\n\r\nok"))
				fcgiRecord(c, 6, id, nil)
				fcgiRecord(c, 3, id, make([]byte, 8))
				return
			}
		}
	}
}

// ---- generator

var fcgiEnvKeys = []string{"APP_ENV", "APP_ENV", "APP_ENV", "X_TENANT", "QUERY_STRING", "HTTP_X_IN", "SCRIPT_NAME", "DOCUMENT_ROOT", "REMOTE_USER", "PATH_TRANSLATED", "REQUEST_URI"}

var fcgiEnvTemplates = []string{
	"{http.request.header.X-In}", "{http.request.header.X-In}", "{http.request.uri.query}", "{http.request.uri}", "{http.request.uri.path}",
	"{http.auth.user.id}", "{env." + secretEnv + "}", "static", "pre-{http.request.header.X-In}-post", "\\{x\\}", "{zz.unk}", "{file." + rwFile + "}",
	"{http.request.header.X-User}/{http.request.uri.path.file}", "", "{http.request.header.Content-Type}{http.request.uri.prefixed_query}",
}

var fcgiRoots = []string{
	"/srv/app", "/srv/app", "/srv/app", "/srv/{http.request.header.X-In}", "/srv/{zz.unk}/x", "/{http.request.uri.query}", "/srv/../a//b/", "/", "/{zz.unk}",
}

var fcgiPaths = []string{
	"/index.php", "/index.php", "/index.php/extra/{env." + secretEnv + "}", "/{env." + secretEnv + "}.php/info", "/a/../b.php", "/x{http.request.uri}.php",
	"/\\{a\\}", "/dir/", "/", "/A.PhP/{file." + rwFile + "}", "/a b.php", "//x.php//y", "/{zz.unk}.php", "/p.php/{env." + secretEnv + "}/../q", "/%41.php",
}

var fcgiQueries = []string{
	"", "", "x={env." + secretEnv + "}", "{file." + rwFile + "}", "a=1&b={http.request.uri}", "\\{env." + secretEnv + "\\}", "q=%7Benv.X%7D", "a b", "{zz.unk}", "{env." + secretEnv + "}",
}

var fcgiValues = []string{
	"plain", "", "{env." + secretEnv + "}", "{env." + secretEnv + "}", "\\{env." + secretEnv + "}", "{file." + rwFile + "}", "{http.request.uri}", "{zz.unk}", "{", "}",
	"a{b", "\\", "text/html; x={env." + secretEnv + "}", "{http.request.header.X-In}", "alice", "{http.auth.user.id}", "..", "../{env." + secretEnv + "}",
}

func genFcgi(rng *core.Rand, emit func(string)) {
	emit(fmt.Sprintf("fcgi %s %s %s %s %s %s %s %s %s", core.Hex(rng.Pick(fcgiEnvKeys)), core.Hex(rng.Pick(fcgiEnvTemplates)), core.Hex(rng.Pick(fcgiRoots)),
		core.Hex(rng.Pick([]string{"", ".php", ".php", ".php", ".PHP", "/"})), core.Hex(rng.Pick(fcgiPaths)), core.Hex(rng.Pick(fcgiQueries)),
		core.Hex(rng.Pick(fcgiValues)), core.Hex(rng.Pick(fcgiValues)), core.Hex(rng.Pick([]string{"s3cr3t-fcgi", "s3cr3t-fcgi", ""}))))
}

func isPrintable(ss ...string) bool {
	for _, s := range ss {
		for i := 0; i < len(s); i++ {
			if s[i] < 32 || s[i] >= 127 {
				return false
			}
		}
	}
	return true
}

var fcgiObserved = []string{"QUERY_STRING", "REQUEST_URI", "DOCUMENT_URI", "PATH_INFO", "SCRIPT_NAME", "SCRIPT_FILENAME", "PATH_TRANSLATED", "DOCUMENT_ROOT", "REMOTE_USER", "CONTENT_TYPE", "HTTP_X_IN"}

func runFcgi(line string, f []string) core.Outcome {
	bad := core.Outcome{Impl: "bad-op"}
	var v [9]string
	for i := 0; i < 9; i++ {
		s, err := core.UnHex(f[i+1])
		if err != nil {
			return bad
		}
		v[i] = s
	}
	envKey, envT, rootT, split, path, rq, xin, user, secret := v[0], v[1], v[2], v[3], v[4], v[5], v[6], v[7], v[8]
	if !isPrintable(v[:]...) {
		return bad
	}
	keyOK := envKey != "" && envKey != "REQUEST_METHOD" && envKey != "CONTENT_LENGTH" && (!strings.HasPrefix(envKey, "HTTP_") || envKey == "HTTP_X_IN")
	if !keyOK || !strings.HasPrefix(rootT, "/") || !strings.HasPrefix(path, "/") {
		return bad
	}
	if err := fcgiStart(); err != nil {
		return core.Outcome{Impl: "err:harness"}
	}
	os.Setenv(secretEnv, secret)
	defer os.Unsetenv(secretEnv)
	consFiles()
	o := core.Outcome{Tags: []string{"op:fcgi"}}
	transport := map[string]any{"protocol": "fastcgi", "env": map[string]string{envKey: envT}, "root": rootT}
	if split != "" {
		transport["split_path"] = []string{split}
	}
	cfgv := map[string]any{"servers": map[string]any{"s": map[string]any{
		"listen": []string{":0"}, "automatic_https": map[string]any{"disable": true},
		"routes": []any{map[string]any{"handle": []any{
			map[string]any{"handler": "authentication", "providers": map[string]any{"c18user": map[string]any{}}},
			map[string]any{"handler": "reverse_proxy", "upstreams": []any{map[string]any{"dial": "unix/" + fcgiSock}}, "transport": transport},
		}}},
	}}}
	raw, _ := json.Marshal(cfgv)
	b, err := zooBaseCtx()
	if err != nil {
		return core.Outcome{Impl: "err:harness"}
	}
	ctx, cancel := caddy.NewContext(b)
	defer cancel()
	app, err := ctx.LoadModuleByID("http", json.RawMessage(raw))
	if err != nil {
		o.Impl = "err:provision"
		return o
	}
	req := httptest.NewRequest("GET", "http://example.test/", nil)
	req.URL.Path = path
	req.URL.RawPath = ""
	req.URL.RawQuery = rq
	req.RequestURI = req.URL.RequestURI()
	req.Header["X-In"] = []string{xin}
	req.Header["Content-Type"] = []string{xin}
	req.Header["X-User"] = []string{user}
	rec := httptest.NewRecorder()
	for len(fcgiGot) > 0 {
		<-fcgiGot
	}
	func() {
		defer func() {
			if p := recover(); p != nil {
				rec.Body.WriteString(fmt.Sprint("PANIC:", p))
			}
		}()
		app.(*caddyhttp.App).Servers["s"].ServeHTTP(rec, req)
	}()
	if strings.Contains(rec.Body.String(), "PANIC:") {
		o.Impl = "panic"
		return o
	}
	var got map[string]string
	select {
	case got = <-fcgiGot:
	case <-time.After(2 * time.Second):
		o.Impl = "err:fcgi"
		return o
	}
	show := func(k string) string {
		if val, ok := got[k]; ok {
			return core.Hex(val)
		}
		return "!"
	}
	parts := []string{"ok", show(envKey)}
	for _, k := range fcgiObserved {
		parts = append(parts, show(k))
	}
	o.Impl = strings.Join(parts, " ")
	if strings.ContainsAny(path+rq+xin+user, "{}") {
		o.Tags = append(o.Tags, "attacker-value-has-braces")
	} else {
		o.Tags = append(o.Tags, "trivial")
	}
	if got["PATH_INFO"] != "" {
		o.Tags = append(o.Tags, "fcgi:path-info")
	}
	if _, isReqVar := map[string]bool{"QUERY_STRING": true, "HTTP_X_IN": true, "SCRIPT_NAME": true, "REMOTE_USER": true, "REQUEST_URI": true}[envKey]; isReqVar {
		o.Tags = append(o.Tags, "fcgi:env-key-collides-with-request-variable")
	}

	// ---- oracle (implementation only): a request-controlled CGI variable is the request text, byte for byte
	what := fmt.Sprintf("fastcgi env{%q: %q} root %q split %q on GET path=%q query=%q X-In=%q X-User=%q", envKey, envT, rootT, split, path, rq, xin, user)
	fail := func(k, want string) {
		if k != "HTTP_X_IN" && k != "HTTP_X_USER" && k != "HTTP_CONTENT_TYPE" && k == envKey {
			return // overridden by configuration
		}
		if got[k] != want {
			o.Failures = append(o.Failures, core.Failure{Class: "fastcgi-request-variable-differs-from-request-text",
				What: fmt.Sprintf("%s: the backend receives %s=%q, the request says %q — request text was scanned for placeholders", what, k, got[k], want)})
		}
	}
	fail("QUERY_STRING", rq)
	fail("HTTP_X_IN", xin)
	fail("HTTP_CONTENT_TYPE", xin)
	fail("HTTP_X_USER", user)
	fail("CONTENT_TYPE", xin)
	fail("REMOTE_USER", user)
	fail("REQUEST_URI", req.URL.RequestURI())
	if envKey != "DOCUMENT_URI" && envKey != "PATH_INFO" {
		if got["DOCUMENT_URI"]+got["PATH_INFO"] != path {
			o.Failures = append(o.Failures, core.Failure{Class: "fastcgi-request-variable-differs-from-request-text",
				What: fmt.Sprintf("%s: DOCUMENT_URI %q + PATH_INFO %q is not the request path", what, got["DOCUMENT_URI"], got["PATH_INFO"])})
		}
	}
	if envKey != "DOCUMENT_URI" && envKey != "SCRIPT_NAME" {
		fail("SCRIPT_NAME", got["DOCUMENT_URI"])
	}
	// no value of the table carries the server's secrets unless a configured template names them
	keys := make([]string, 0, len(got))
	for k := range got {
		keys = append(keys, k)
	}
	sort.Strings(keys)
	var all []string
	for _, k := range keys {
		all = append(all, got[k])
	}
	secretOracle(&o, "fastcgi-env-expands-request-text", what, strings.Join(all, "\x00"), secret, envT, rootT)
	return o
}
