package c18

// `httphost`: the host matcher of a REAL provisioned server that went through automatic HTTPS
// phase 1 (auto-HTTPS not disabled, listener on a non-HTTP port, certificates and redirects off).
// Phase 1 expands every host pattern with the global replacer at provision time; the matcher expands
// it again per request. The patterns use global placeholders ({env.*}, {file.*}) whose VALUES carry
// placeholder syntax / escapes. Model: CaddyModel/C18/HostGlue.lean (two-stage pipeline).
//
// httphost <pattern1> <pattern2> <$VERIF_C18_SITE> <content of ./c18site.txt> <Host> <X-Tenant> <$VERIF_C18_SECRET>
// Answer: ok <m1><m2> (which of the two one-pattern host matchers matched) | err:provision.

import (
	"encoding/json"
	"fmt"
	"net/http/httptest"
	"net/url"
	"os"
	"strings"

	"github.com/caddyserver/caddy/v2"
	"github.com/caddyserver/caddy/v2/caddyconfig"
	_ "github.com/caddyserver/caddy/v2/caddyconfig/httpcaddyfile"
	"github.com/caddyserver/caddy/v2/modules/caddyhttp"

	"verif/harness/internal/core"
)

const (
	siteEnv  = "VERIF_C18_SITE"
	siteFile = "c18site.txt"
)

var hostPatterns = []string{
	"{env." + siteEnv + "}", "{env." + siteEnv + "}", "{file." + siteFile + "}", "{file." + siteFile + "}",
	"\\{http.request.header.X-Tenant\\}", "\\{env." + secretEnv + "\\}", "{http.request.header.X-Tenant}", "plain.example",
	"*.{env." + siteEnv + "}", "{env." + siteEnv + "}.example", "x{zz.unk}.example", "{env." + secretEnv + "}", "{http.request.host}",
	"\\{env." + siteEnv + "}", "{env.VERIF_C18_UNSET}", "*.example",
}

var hostValues = []string{
	"site.example", "site.example", "{http.request.header.X-Tenant}", "{http.request.header.X-Tenant}", "{env." + secretEnv + "}",
	"{http.request.host}", "\\{http.request.header.X-Tenant\\}", "*.example", "", "a{zz.unk}.example", "example", "{file." + siteFile + "}",
}

var hostHosts = []string{
	"site.example", "attacker.example", "s3cret.example", "{http.request.header.X-Tenant}", "plain.example", "SITE.EXAMPLE", "x.example",
	"{env." + secretEnv + "}", "a.example", "site.example.example", ".example", "{http.request.host}", "{file." + siteFile + "}",
}

func genHost(rng *core.Rand, emit func(string)) {
	file := rng.Pick(hostValues)
	if rng.Chance(1, 2) {
		file += rng.Pick([]string{"\n", "\r\n", "\n\n"})
	}
	emit(fmt.Sprintf("httphost %s %s %s %s %s %s %s", core.Hex(rng.Pick(hostPatterns)), core.Hex(rng.Pick(hostPatterns)),
		core.Hex(rng.Pick(hostValues)), core.Hex(file), core.Hex(rng.Pick(hostHosts)),
		core.Hex(rng.Pick([]string{"attacker.example", "site.example", "s3cret.example", "", "{env." + secretEnv + "}", "plain.example"})),
		core.Hex(rng.Pick([]string{"s3cret.example", "s3cret.example", ""}))))
}

func hostConfig(p1, p2 string) []byte {
	route := func(p, name string) map[string]any {
		return map[string]any{
			"match":  []any{map[string]any{"host": []string{p}}},
			"handle": []any{map[string]any{"handler": "headers", "response": map[string]any{"set": map[string]any{name: []string{"1"}}}}},
		}
	}
	cfg := map[string]any{"servers": map[string]any{"s": map[string]any{
		"listen":          []string{"127.0.0.1:0"},
		"protocols":       []string{"h1"},
		"automatic_https": map[string]any{"disable_redirects": true, "disable_certificates": true},
		"routes": []any{route(p1, "X-M1"), route(p2, "X-M2"),
			map[string]any{"handle": []any{map[string]any{"handler": "static_response", "body": "done"}}}},
	}}}
	b, _ := json.Marshal(cfg)
	return b
}

// hostProvision provisions the http app with the two host routes (phase 1 of automatic HTTPS included).
func hostProvision(p1, p2 string) (*caddyhttp.Server, func(), error) {
	b, err := zooBaseCtx()
	if err != nil {
		return nil, nil, err
	}
	ctx, cancel := caddy.NewContext(b)
	v, err := ctx.LoadModuleByID("http", json.RawMessage(hostConfig(p1, p2)))
	if err != nil {
		cancel()
		return nil, nil, err
	}
	return v.(*caddyhttp.App).Servers["s"], cancel, nil
}

func hostRequest(srv *caddyhttp.Server, host, tenant string) (m1, m2 bool, body string) {
	req := httptest.NewRequest("GET", "http://example.test/", nil)
	req.Host = host
	req.Header["X-Tenant"] = []string{tenant}
	rec := httptest.NewRecorder()
	func() {
		defer func() {
			if p := recover(); p != nil {
				rec.Body.WriteString(fmt.Sprint("PANIC:", p))
			}
		}()
		srv.ServeHTTP(rec, req)
	}()
	return rec.Header().Get("X-M1") == "1", rec.Header().Get("X-M2") == "1", rec.Body.String()
}

func runHost(line string, f []string) core.Outcome {
	bad := core.Outcome{Impl: "bad-op"}
	var v [7]string
	for i := 0; i < 7; i++ {
		s, err := core.UnHex(f[i+1])
		if err != nil {
			return bad
		}
		v[i] = s
	}
	p1, p2, site, file, host, tenant, secret := v[0], v[1], v[2], v[3], v[4], v[5], v[6]
	if !isASCII(v[:]...) || host == "" || strings.ContainsAny(host, ":[]") || strings.ContainsAny(p1+p2+site+file+host+tenant+secret, "\x00") {
		return bad
	}
	os.Setenv(siteEnv, site)
	os.Setenv(secretEnv, secret)
	defer os.Unsetenv(siteEnv)
	defer os.Unsetenv(secretEnv)
	if err := os.WriteFile(siteFile, []byte(file), 0o600); err != nil {
		return core.Outcome{Impl: "err:harness"}
	}
	defer os.Remove(siteFile)

	o := core.Outcome{Tags: []string{"op:httphost"}}
	srv, cancel, err := hostProvision(p1, p2)
	if err != nil {
		o.Impl = "err:provision"
		o.Tags = append(o.Tags, "host:err-provision")
		return o
	}
	defer cancel()
	m1, m2, body := hostRequest(srv, host, tenant)
	if body != "done" {
		o.Impl = "err:serve " + core.Hex(body)
		return o
	}
	bit := func(b bool) string {
		if b {
			return "1"
		}
		return "0"
	}
	o.Impl = "ok " + bit(m1) + bit(m2)
	if m1 || m2 {
		o.Tags = append(o.Tags, "host:matched")
	}
	if strings.ContainsAny(site+file, "{}") {
		o.Tags = append(o.Tags, "host:value-has-braces")
	}

	// ---- oracle (implementation only, the property itself): a pattern that consists of ONE global
	// placeholder matches iff the Host header IS the placeholder's value, byte for byte up to case —
	// whatever placeholder syntax that value contains (no `*` in the value: that is a wildcard).
	fileVal := strings.TrimSuffix(strings.TrimSuffix(file, "\n"), "\r")
	for i, p := range []string{p1, p2} {
		var val string
		switch p {
		case "{env." + siteEnv + "}":
			val = site
		case "{file." + siteFile + "}":
			val = fileVal
		case "{env." + secretEnv + "}":
			val = secret
		default:
			continue
		}
		if strings.Contains(val, "*") || val == "" {
			continue
		}
		got := []bool{m1, m2}[i]
		if want := strings.EqualFold(host, val); got != want {
			o.Failures = append(o.Failures, core.Failure{Class: "host-matcher-rescans-provisioned-value",
				What: fmt.Sprintf("host pattern %q, whose value is %q: a request with Host %q (X-Tenant %q) gives match=%v, comparing the Host with the value verbatim gives %v — the substituted value was scanned for placeholders again", p, val, host, tenant, got, want)})
			break
		}
	}
	// escaped braces stay text: `\{…\}` is the literal `{…}`
	for i, p := range []string{p1, p2} {
		if strings.HasPrefix(p, "\\{") && strings.HasSuffix(p, "\\}") && strings.Count(p, "{") == 1 && !strings.Contains(p, "*") {
			lit := "{" + p[2:len(p)-2] + "}"
			got := []bool{m1, m2}[i]
			if want := strings.EqualFold(host, lit); got != want {
				o.Failures = append(o.Failures, core.Failure{Class: "host-matcher-rescans-provisioned-value",
					What: fmt.Sprintf("host pattern %q (escaped braces = the literal text %q): a request with Host %q (X-Tenant %q) gives match=%v, want %v — the escape was consumed by one expansion and the text expanded by another", p, lit, host, tenant, got, want)})
				break
			}
		}
	}
	return o
}

// ---------------------------------------------------------------- templates behind respond
//
// httptpl <bodyTmpl> <X-In> <q> <secret>: a provisioned server with `templates` in front of
// `static_response` (Content-Type text/plain, body bodyTmpl). Two stages by configuration: the replacer
// expands the body (ReplaceKnown), then the templates handler EXECUTES the result as a Go template. The
// cases keep to the one template action the model covers, {{placeholder "key"}} / {{ph "key"}} (both sides
// answer `unsupported` when the expanded body has any other `{{`). Answer: ok <response body>.

var tplPieces = []string{
	"{{placeholder \"http.request.header.X-In\"}}", "{{ph \"http.request.uri.query.q\"}}", "{{placeholder \"env." + secretEnv + "\"}}",
	"{{ph \"file." + rwFile + "\"}}", "{{placeholder \"zz.unk\"}}", "{http.request.header.X-In}", "{http.request.uri.query.q}", "{zz.unk}",
	"a", " ", "}}", "{", "}", "\\{", "x=", "|", "{http.request.header.X-In", "{{ph \"http.vars.v\"}}",
}

var tplAttacker = []string{
	"", "plain", "{env." + secretEnv + "}", "{{placeholder \"env." + secretEnv + "\"}}", "{{ph \"http.request.uri.query.q\"}}",
	"{file." + rwFile + "}", "{{ph \"file." + rwFile + "\"}}", "}}", "{http.request.header.X-In}", "x}}y", "{{ph \"zz.unk\"}}",
}

func genTpl(rng *core.Rand, emit func(string)) {
	var sb strings.Builder
	for j := 1 + rng.Intn(5); j > 0; j-- {
		sb.WriteString(rng.Pick(tplPieces))
	}
	emit(fmt.Sprintf("httptpl %s %s %s %s", core.Hex(sb.String()), core.Hex(rng.Pick(tplAttacker)), core.Hex(rng.Pick(tplAttacker)),
		core.Hex(rng.Pick([]string{"S3CR3T-ENV-9942", "S3CR3T-ENV-9942", ""}))))
}

// tplSupported: every `{{` of s starts {{placeholder "KEY"}} or {{ph "KEY"}} with KEY over [A-Za-z0-9._-].
func tplSupported(s string) bool {
	for {
		i := strings.Index(s, "{{")
		if i < 0 {
			return true
		}
		s = s[i:]
		var rest string
		switch {
		case strings.HasPrefix(s, "{{placeholder \""):
			rest = s[len("{{placeholder \""):]
		case strings.HasPrefix(s, "{{ph \""):
			rest = s[len("{{ph \""):]
		default:
			return false
		}
		j := 0
		for j < len(rest) && (rest[j] == '.' || rest[j] == '_' || rest[j] == '-' || rest[j] >= '0' && rest[j] <= '9' || rest[j] >= 'A' && rest[j] <= 'Z' || rest[j] >= 'a' && rest[j] <= 'z') {
			j++
		}
		if j == 0 || !strings.HasPrefix(rest[j:], "\"}}") {
			return false
		}
		s = rest[j+3:]
	}
}

func runTpl(line string, f []string) core.Outcome {
	bad := core.Outcome{Impl: "bad-op"}
	var v [4]string
	for i := 0; i < 4; i++ {
		s, err := core.UnHex(f[i+1])
		if err != nil {
			return bad
		}
		v[i] = s
	}
	bodyT, xin, q, secret := v[0], v[1], v[2], v[3]
	if !isASCII(v[:]...) {
		return bad
	}
	os.Setenv(secretEnv, secret)
	defer os.Unsetenv(secretEnv)
	consFiles()
	o := core.Outcome{Tags: []string{"op:httptpl"}}
	// the expanded body, computed independently, decides whether the case is inside the modelled fragment
	{
		_, repl := consRequest(xin, q, "/")
		if !tplSupported(repl.ReplaceKnown(bodyT, "")) {
			o.Impl = "unsupported"
			o.Tags = append(o.Tags, "trivial")
			return o
		}
	}
	cfgv := map[string]any{"servers": map[string]any{"s": map[string]any{
		"listen": []string{":0"}, "automatic_https": map[string]any{"disable": true},
		"routes": []any{map[string]any{"handle": []any{
			map[string]any{"handler": "templates"},
			map[string]any{"handler": "static_response", "headers": map[string]any{"Content-Type": []string{"text/plain"}}, "body": bodyT},
		}}},
	}}}
	raw, _ := json.Marshal(cfgv)
	b, err := zooBaseCtx()
	if err != nil {
		return core.Outcome{Impl: "err:harness"}
	}
	ctx, cancel := caddy.NewContext(b)
	defer cancel()
	app, err := ctx.LoadModuleByID("http", json.RawMessage(raw))
	if err != nil {
		o.Impl = "err:provision"
		return o
	}
	req := httptest.NewRequest("GET", "http://example.test/", nil)
	req.URL.RawQuery = "q=" + url.QueryEscape(q)
	req.RequestURI = req.URL.RequestURI()
	req.Header["X-In"] = []string{xin}
	rec := httptest.NewRecorder()
	func() {
		defer func() {
			if p := recover(); p != nil {
				rec.Body.WriteString(fmt.Sprint("PANIC:", p))
			}
		}()
		app.(*caddyhttp.App).Servers["s"].ServeHTTP(rec, req)
	}()
	if rec.Code != 200 {
		o.Impl = fmt.Sprintf("err:status %d", rec.Code)
		return o
	}
	out := rec.Body.String()
	o.Impl = "ok " + core.Hex(out)
	if strings.Contains(bodyT, "{{") {
		o.Tags = append(o.Tags, "tpl:configured-action")
	}
	if strings.Contains(xin+q, "{{") {
		o.Tags = append(o.Tags, "tpl:attacker-value-has-action")
	}
	// oracle: the file provider is not available inside templates, and what a template action inserted is
	// final — a secret shows up only if the text that stage 2 executed names it
	if strings.Contains(out, fileContent) {
		o.Failures = append(o.Failures, core.Failure{Class: "template-reads-file-placeholder",
			What: fmt.Sprintf("templates behind respond %q (X-In=%q q=%q): the response %q contains the content of the secret file — {file.*} must not be available to template actions", bodyT, xin, q, out)})
	}
	if len(secret) >= 8 && strings.Contains(out, secret) && !strings.Contains(bodyT+xin+q, "\"env."+secretEnv+"\"") && !strings.Contains(bodyT, "{env."+secretEnv+"}") {
		o.Failures = append(o.Failures, core.Failure{Class: "template-output-rescanned",
			What: fmt.Sprintf("templates behind respond %q (X-In=%q q=%q): the response %q contains $%s although neither the configured body nor the executed text names it in an action — an inserted value was scanned again", bodyT, xin, q, out, secretEnv)})
	}
	return o
}

// ---------------------------------------------------------------- Caddyfile {$ENV} in front of the replacer
//
// cfenv <bodySrc> <$VERIF_C18_CF | !> <X-In> <secret>: the REAL Caddyfile adapter on
//     { admin off; auto_https off }   http://example.test { respond "B:<bodySrc>" }
// with the process environment VERIF_C18_CF (unset for "!") / VERIF_C18_SECRET, then the adapted http app is
// provisioned and serves one request. `{$NAME}` is spliced into the text at adapt time, `{env.NAME}` is
// looked up per request. Answer: ok <response body>.

const cfEnvName = "VERIF_C18_CF"

var cfBodyPieces = []string{
	"{$" + cfEnvName + "}", "{$" + cfEnvName + "}", "{env." + cfEnvName + "}", "{env." + cfEnvName + "}", "{$" + cfEnvName + ":dflt}",
	"{$VERIF_C18_UNSET}", "{$VERIF_C18_UNSET:{http.request.header.X-In}}", "{$" + secretEnv + "}", "{http.request.header.X-In}",
	"{$}", "{$:x}", "a", "-", "|", "{zz.unk}", "{env." + secretEnv + "}", "}", "{", "{${$" + cfEnvName + "}}",
}

var cfValues = []string{
	"plain", "{http.request.header.X-In}", "{http.request.header.X-In}", "{env." + secretEnv + "}", "{$" + secretEnv + "}", "", "a b", "}", "{",
	"{zz.unk}", "x{http.request.header.X-In}y",
}

func genCfEnv(rng *core.Rand, emit func(string)) {
	var sb strings.Builder
	for j := 1 + rng.Intn(4); j > 0; j-- {
		sb.WriteString(rng.Pick(cfBodyPieces))
	}
	val := core.Hex(rng.Pick(cfValues))
	if rng.Chance(1, 8) {
		val = "!"
	}
	emit(fmt.Sprintf("cfenv %s %s %s %s", core.Hex(sb.String()), val,
		core.Hex(rng.Pick([]string{"plain", "{env." + secretEnv + "}", "", "xin-{zz.unk}", "{$" + secretEnv + "}"})),
		core.Hex(rng.Pick([]string{"S3CR3T-ENV-9942", "S3CR3T-ENV-9942", ""}))))
}

func cfLexSafe(s string) bool {
	for i := 0; i < len(s); i++ {
		if c := s[i]; c == '"' || c == '\\' || c == '\n' || c == '\r' || c == '`' || c < 32 || c >= 0x80 {
			return false
		}
	}
	return true
}

func cfSpansClose(s string) bool {
	for i := 0; i+1 < len(s); i++ {
		if s[i] == '{' && s[i+1] == '$' && !strings.Contains(s[i+1:], "}") {
			return false
		}
	}
	return true
}

func runCfEnv(line string, f []string) core.Outcome {
	bad := core.Outcome{Impl: "bad-op"}
	var v [4]string
	for i := 0; i < 4; i++ {
		if i == 1 && f[2] == "!" {
			continue
		}
		s, err := core.UnHex(f[i+1])
		if err != nil {
			return bad
		}
		v[i] = s
	}
	bodySrc, val, xin, secret := v[0], v[1], v[2], v[3]
	unset := f[2] == "!"
	if !cfLexSafe(bodySrc) || !cfLexSafe(val) || !cfLexSafe(secret) || !isASCII(xin) || !cfSpansClose(bodySrc) {
		return bad
	}
	if unset {
		os.Unsetenv(cfEnvName)
	} else {
		os.Setenv(cfEnvName, val)
	}
	os.Setenv(secretEnv, secret)
	defer os.Unsetenv(cfEnvName)
	defer os.Unsetenv(secretEnv)
	consFiles()

	o := core.Outcome{Tags: []string{"op:cfenv"}}
	src := "{\n\tadmin off\n\tauto_https off\n}\nhttp://example.test {\n\trespond \"B:" + bodySrc + "\"\n}\n"
	adapter := caddyconfig.GetAdapter("caddyfile")
	if adapter == nil {
		return core.Outcome{Impl: "err:harness"}
	}
	cfgJSON, _, err := adapter.Adapt([]byte(src), map[string]any{"filename": "Caddyfile"})
	if err != nil {
		o.Impl = "err:adapt"
		return o
	}
	var whole struct {
		Apps map[string]json.RawMessage `json:"apps"`
	}
	if json.Unmarshal(cfgJSON, &whole) != nil || whole.Apps["http"] == nil {
		o.Impl = "err:adapt"
		return o
	}
	b, err := zooBaseCtx()
	if err != nil {
		return core.Outcome{Impl: "err:harness"}
	}
	ctx, cancel := caddy.NewContext(b)
	defer cancel()
	app, err := ctx.LoadModuleByID("http", whole.Apps["http"])
	if err != nil {
		o.Impl = "err:provision"
		return o
	}
	var srv *caddyhttp.Server
	for _, s := range app.(*caddyhttp.App).Servers {
		srv = s
	}
	req := httptest.NewRequest("GET", "http://example.test/", nil)
	req.Host = "example.test"
	req.Header["X-In"] = []string{xin}
	rec := httptest.NewRecorder()
	func() {
		defer func() {
			if p := recover(); p != nil {
				rec.Body.WriteString(fmt.Sprint("PANIC:", p))
			}
		}()
		srv.ServeHTTP(rec, req)
	}()
	out := rec.Body.String()
	o.Impl = "ok " + core.Hex(out)
	if strings.Contains(bodySrc, "{$"+cfEnvName) {
		o.Tags = append(o.Tags, "cf:parse-time-env")
	}
	if strings.Contains(bodySrc, "{env."+cfEnvName+"}") {
		o.Tags = append(o.Tags, "cf:run-time-env")
	}
	if strings.ContainsAny(val, "{}") {
		o.Tags = append(o.Tags, "cf:value-has-braces")
	}
	// oracle: request data (X-In) is data at every stage — the secret shows up only if the Caddyfile source or
	// the adapting process's environment value names it
	if len(secret) >= 8 && strings.Contains(out, secret) && !strings.Contains(bodySrc+"\x00"+val, secretEnv) {
		o.Failures = append(o.Failures, core.Failure{Class: "caddyfile-env-stage-expands-request-text",
			What: fmt.Sprintf("respond %q with $%s=%q, X-In=%q: the response %q contains $%s, which neither the Caddyfile nor the variable's value names — request text was expanded", "B:"+bodySrc, cfEnvName, val, xin, out, secretEnv)})
	}
	// oracle: the parse-time stage is single-pass too — a `{$…}` inside the spliced VALUE is not substituted
	if len(secret) >= 8 && strings.Contains(out, secret) && !strings.Contains(bodySrc, secretEnv) && !strings.Contains(val, "{env."+secretEnv+"}") {
		o.Failures = append(o.Failures, core.Failure{Class: "caddyfile-env-value-rescanned",
			What: fmt.Sprintf("respond %q with $%s=%q: the response %q contains $%s although only the VALUE of $%s names it as {$…} — the spliced value was searched for {$…} again", "B:"+bodySrc, cfEnvName, val, out, secretEnv, cfEnvName)})
	}
	// oracle: with the variable used at RUN time only, its value is data
	if !strings.Contains(bodySrc, "{$") && strings.Contains(bodySrc, "{env."+cfEnvName+"}") && !unset && len(secret) >= 8 &&
		strings.Contains(out, secret) && !strings.Contains(bodySrc, secretEnv) {
		o.Failures = append(o.Failures, core.Failure{Class: "caddyfile-env-stage-expands-request-text",
			What: fmt.Sprintf("respond %q with $%s=%q: {env.%s} is a run-time placeholder, its value must stay text, but the response %q contains $%s", "B:"+bodySrc, cfEnvName, val, cfEnvName, out, secretEnv)})
	}
	return o
}
