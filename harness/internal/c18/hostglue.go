package c18

// `httphost`: the host matcher of a REAL provisioned server that went through automatic HTTPS
// phase 1 (auto-HTTPS not disabled, listener on a non-HTTP port, certificates and redirects off).
// Phase 1 expands every host pattern with the global replacer at provision time; the matcher expands
// it again per request. The patterns use global placeholders ({env.*}, {file.*}) whose VALUES carry
// placeholder syntax / escapes. Model: CaddyModel/C18/HostGlue.lean (two-stage pipeline).
//
// httphost <pattern1> <pattern2> <$VERIF_C18_SITE> <content of ./c18site.txt> <Host> <X-Tenant> <$VERIF_C18_SECRET>
// Answer: ok <m1><m2> (which of the two one-pattern host matchers matched) | err:provision.

import (
	"encoding/json"
	"fmt"
	"net/http/httptest"
	"os"
	"strings"

	"github.com/caddyserver/caddy/v2"
	"github.com/caddyserver/caddy/v2/modules/caddyhttp"

	"verif/harness/internal/core"
)

const (
	siteEnv  = "VERIF_C18_SITE"
	siteFile = "c18site.txt"
)

var hostPatterns = []string{
	"{env." + siteEnv + "}", "{env." + siteEnv + "}", "{file." + siteFile + "}", "{file." + siteFile + "}",
	"\\{http.request.header.X-Tenant\\}", "\\{env." + secretEnv + "\\}", "{http.request.header.X-Tenant}", "plain.example",
	"*.{env." + siteEnv + "}", "{env." + siteEnv + "}.example", "x{zz.unk}.example", "{env." + secretEnv + "}", "{http.request.host}",
	"\\{env." + siteEnv + "}", "{env.VERIF_C18_UNSET}", "*.example",
}

var hostValues = []string{
	"site.example", "site.example", "{http.request.header.X-Tenant}", "{http.request.header.X-Tenant}", "{env." + secretEnv + "}",
	"{http.request.host}", "\\{http.request.header.X-Tenant\\}", "*.example", "", "a{zz.unk}.example", "example", "{file." + siteFile + "}",
}

var hostHosts = []string{
	"site.example", "attacker.example", "s3cret.example", "{http.request.header.X-Tenant}", "plain.example", "SITE.EXAMPLE", "x.example",
	"{env." + secretEnv + "}", "a.example", "site.example.example", ".example", "{http.request.host}", "{file." + siteFile + "}",
}

func genHost(rng *core.Rand, emit func(string)) {
	file := rng.Pick(hostValues)
	if rng.Chance(1, 2) {
		file += rng.Pick([]string{"\n", "\r\n", "\n\n"})
	}
	emit(fmt.Sprintf("httphost %s %s %s %s %s %s %s", core.Hex(rng.Pick(hostPatterns)), core.Hex(rng.Pick(hostPatterns)),
		core.Hex(rng.Pick(hostValues)), core.Hex(file), core.Hex(rng.Pick(hostHosts)),
		core.Hex(rng.Pick([]string{"attacker.example", "site.example", "s3cret.example", "", "{env." + secretEnv + "}", "plain.example"})),
		core.Hex(rng.Pick([]string{"s3cret.example", "s3cret.example", ""}))))
}

func hostConfig(p1, p2 string) []byte {
	route := func(p, name string) map[string]any {
		return map[string]any{
			"match":  []any{map[string]any{"host": []string{p}}},
			"handle": []any{map[string]any{"handler": "headers", "response": map[string]any{"set": map[string]any{name: []string{"1"}}}}},
		}
	}
	cfg := map[string]any{"servers": map[string]any{"s": map[string]any{
		"listen":          []string{"127.0.0.1:0"},
		"protocols":       []string{"h1"},
		"automatic_https": map[string]any{"disable_redirects": true, "disable_certificates": true},
		"routes": []any{route(p1, "X-M1"), route(p2, "X-M2"),
			map[string]any{"handle": []any{map[string]any{"handler": "static_response", "body": "done"}}}},
	}}}
	b, _ := json.Marshal(cfg)
	return b
}

// hostProvision provisions the http app with the two host routes (phase 1 of automatic HTTPS included).
func hostProvision(p1, p2 string) (*caddyhttp.Server, func(), error) {
	b, err := zooBaseCtx()
	if err != nil {
		return nil, nil, err
	}
	ctx, cancel := caddy.NewContext(b)
	v, err := ctx.LoadModuleByID("http", json.RawMessage(hostConfig(p1, p2)))
	if err != nil {
		cancel()
		return nil, nil, err
	}
	return v.(*caddyhttp.App).Servers["s"], cancel, nil
}

func hostRequest(srv *caddyhttp.Server, host, tenant string) (m1, m2 bool, body string) {
	req := httptest.NewRequest("GET", "http://example.test/", nil)
	req.Host = host
	req.Header["X-Tenant"] = []string{tenant}
	rec := httptest.NewRecorder()
	func() {
		defer func() {
			if p := recover(); p != nil {
				rec.Body.WriteString(fmt.Sprint("PANIC:", p))
			}
		}()
		srv.ServeHTTP(rec, req)
	}()
	return rec.Header().Get("X-M1") == "1", rec.Header().Get("X-M2") == "1", rec.Body.String()
}

func runHost(line string, f []string) core.Outcome {
	bad := core.Outcome{Impl: "bad-op"}
	var v [7]string
	for i := 0; i < 7; i++ {
		s, err := core.UnHex(f[i+1])
		if err != nil {
			return bad
		}
		v[i] = s
	}
	p1, p2, site, file, host, tenant, secret := v[0], v[1], v[2], v[3], v[4], v[5], v[6]
	if !isASCII(v[:]...) || host == "" || strings.ContainsAny(host, ":[]") || strings.ContainsAny(p1+p2+site+file+host+tenant+secret, "\x00") {
		return bad
	}
	os.Setenv(siteEnv, site)
	os.Setenv(secretEnv, secret)
	defer os.Unsetenv(siteEnv)
	defer os.Unsetenv(secretEnv)
	if err := os.WriteFile(siteFile, []byte(file), 0o600); err != nil {
		return core.Outcome{Impl: "err:harness"}
	}
	defer os.Remove(siteFile)

	o := core.Outcome{Tags: []string{"op:httphost"}}
	srv, cancel, err := hostProvision(p1, p2)
	if err != nil {
		o.Impl = "err:provision"
		o.Tags = append(o.Tags, "host:err-provision")
		return o
	}
	defer cancel()
	m1, m2, body := hostRequest(srv, host, tenant)
	if body != "done" {
		o.Impl = "err:serve " + core.Hex(body)
		return o
	}
	bit := func(b bool) string {
		if b {
			return "1"
		}
		return "0"
	}
	o.Impl = "ok " + bit(m1) + bit(m2)
	if m1 || m2 {
		o.Tags = append(o.Tags, "host:matched")
	}
	if strings.ContainsAny(site+file, "{}") {
		o.Tags = append(o.Tags, "host:value-has-braces")
	}

	// ---- oracle (implementation only, the property itself): a pattern that consists of ONE global
	// placeholder matches iff the Host header IS the placeholder's value, byte for byte up to case —
	// whatever placeholder syntax that value contains (no `*` in the value: that is a wildcard).
	fileVal := strings.TrimSuffix(strings.TrimSuffix(file, "\n"), "\r")
	for i, p := range []string{p1, p2} {
		var val string
		switch p {
		case "{env." + siteEnv + "}":
			val = site
		case "{file." + siteFile + "}":
			val = fileVal
		case "{env." + secretEnv + "}":
			val = secret
		default:
			continue
		}
		if strings.Contains(val, "*") || val == "" {
			continue
		}
		got := []bool{m1, m2}[i]
		if want := strings.EqualFold(host, val); got != want {
			o.Failures = append(o.Failures, core.Failure{Class: "host-matcher-rescans-provisioned-value",
				What: fmt.Sprintf("host pattern %q, whose value is %q: a request with Host %q (X-Tenant %q) gives match=%v, comparing the Host with the value verbatim gives %v — the substituted value was scanned for placeholders again", p, val, host, tenant, got, want)})
			break
		}
	}
	// escaped braces stay text: `\{…\}` is the literal `{…}`
	for i, p := range []string{p1, p2} {
		if strings.HasPrefix(p, "\\{") && strings.HasSuffix(p, "\\}") && strings.Count(p, "{") == 1 && !strings.Contains(p, "*") {
			lit := "{" + p[2:len(p)-2] + "}"
			got := []bool{m1, m2}[i]
			if want := strings.EqualFold(host, lit); got != want {
				o.Failures = append(o.Failures, core.Failure{Class: "host-matcher-rescans-provisioned-value",
					What: fmt.Sprintf("host pattern %q (escaped braces = the literal text %q): a request with Host %q (X-Tenant %q) gives match=%v, want %v — the escape was consumed by one expansion and the text expanded by another", p, lit, host, tenant, got, want)})
				break
			}
		}
	}
	return o
}
