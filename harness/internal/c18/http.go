package c18

// End-to-end stream: the real HTTP replacer (full provider chain incl. env./file.), the real
// `vars` middleware and `static_response` handler. Request-controlled values carry placeholder
// syntax naming a secret environment variable and a secret file; the oracle is that neither
// secret ever shows up unless the TEMPLATE (configuration) itself names it.

import (
	"context"
	"fmt"
	"net/http"
	"net/http/httptest"
	"net/url"
	"os"
	"path/filepath"
	"strings"
	"sync"

	"github.com/caddyserver/caddy/v2"
	"github.com/caddyserver/caddy/v2/modules/caddyhttp"

	"verif/harness/internal/core"
)

const secretEnv = "VERIF_C18_SECRET"

var (
	fileOnce    sync.Once
	secretFile  string
	fileContent = "F1LE-C0NTENT-7731"
)

// fileToken stands for the absolute path of the secret file inside protocol lines (the real path
// differs from run to run); it is expanded when a case is run and folded back in the answer.
const fileToken = "@SECRETFILE@"

func expandTok(s string) string { return strings.ReplaceAll(s, fileToken, secretFilePath()) }
func foldTok(s string) string   { return strings.ReplaceAll(s, secretFilePath(), fileToken) }

func secretFilePath() string {
	fileOnce.Do(func() {
		dir, err := os.MkdirTemp(".", "c18secret")
		if err != nil {
			panic(err)
		}
		abs, _ := filepath.Abs(dir)
		secretFile = filepath.Join(abs, "secret.txt")
		if err := os.WriteFile(secretFile, []byte(fileContent), 0o600); err != nil {
			panic(err)
		}
	})
	return secretFile
}

var tmplPieces = []string{
	"{http.request.header.X-In}", "{http.request.header.x-in}", "{http.request.uri.query.q}", "{http.request.uri.path}",
	"{http.vars.v}", "{env." + secretEnv + "}", "{zz.unk}", "{", "}", "\\", "a", "z", " ", "-", ".", "{}", "\\{", "\\}",
	"{http.request.header.X-In", "{http.vars.v", "http.request.uri.query.q}", "{env.VERIF_C18_UNSET}", "{http.request.uri.query.z}",
}

func attackerValues() []string {
	return []string{
		"", "plain", "{env." + secretEnv + "}", "{file." + fileToken + "}", "{http.vars.v}", "{http.request.header.X-In}",
		"{http.request.uri.query.q}", "{{env." + secretEnv + "}}", "\\{env." + secretEnv + "}", "{env." + secretEnv, "}", "{", "a}b{c",
		"{zz.unk}", "x{env." + secretEnv + "}y",
	}
}

func genHTTP(rng *core.Rand, emit func(string)) {
	mk := func(max int) string {
		var sb strings.Builder
		for j := rng.Intn(max); j > 0; j-- {
			sb.WriteString(rng.Pick(tmplPieces))
		}
		return sb.String()
	}
	av := attackerValues()
	secret := rng.Pick([]string{"S3CR3T-ENV-9942", "S3CR3T-ENV-9942", "{http.request.header.X-In}", ""})
	path := "/" + rng.Pick([]string{"", "p", "{env." + secretEnv + "}", "a/{http.vars.v}", "{zz.unk}"})
	emit(fmt.Sprintf("http %s %s %s %s %s %s %s", core.Hex(mk(6)), core.Hex(mk(4)), core.Hex(mk(4)),
		core.Hex(rng.Pick(av)), core.Hex(rng.Pick(av)), core.Hex(path), core.Hex(secret)))
}

type nextNop struct{}

func (nextNop) ServeHTTP(http.ResponseWriter, *http.Request) error { return nil }

func runHTTP(line string, f []string) core.Outcome {
	var v [7]string
	for i := 0; i < 7; i++ {
		s, err := core.UnHex(f[i+1])
		if err != nil {
			return core.Outcome{Impl: "bad-op"}
		}
		v[i] = s
	}
	bodyT, hdrT, varT, xin, q, path, secret := v[0], v[1], v[2], expandTok(v[3]), expandTok(v[4]), expandTok(v[5]), v[6]
	os.Setenv(secretEnv, secret)
	defer os.Unsetenv(secretEnv)

	req := httptest.NewRequest("GET", "http://example.test/", nil)
	req.URL.Path = path
	req.URL.RawQuery = "q=" + url.QueryEscape(q)
	req.Header["X-In"] = []string{xin}
	ctx := context.WithValue(req.Context(), caddyhttp.VarsCtxKey, map[string]any{})
	req = req.WithContext(ctx)
	caddyhttp.NewTestReplacer(req) // installs the real replacer (global + http providers) in req's context

	rec := httptest.NewRecorder()
	resp := caddyhttp.StaticResponse{Body: bodyT, Headers: http.Header{"X-Out": []string{hdrT}}}
	vars := caddyhttp.VarsMiddleware{"v": varT}
	err := vars.ServeHTTP(rec, req, caddyhttp.HandlerFunc(func(w http.ResponseWriter, r *http.Request) error {
		return resp.ServeHTTP(w, r, nextNop{})
	}))
	o := core.Outcome{Tags: []string{"op:http"}}
	if err != nil {
		o.Impl = "err:handler"
		return o
	}
	body := rec.Body.String()
	hout := ""
	if hv := rec.Header()["X-Out"]; len(hv) > 0 {
		hout = hv[0]
	}
	o.Impl = "ok " + core.Hex(foldTok(body)) + " " + core.Hex(foldTok(hout))

	tmplAll := bodyT + "\x00" + hdrT + "\x00" + varT
	attacker := xin + "\x00" + q + "\x00" + path
	if strings.ContainsAny(attacker, "{}") {
		o.Tags = append(o.Tags, "attacker-value-has-braces")
	}
	if strings.Contains(tmplAll, "{http.vars.v}") {
		o.Tags = append(o.Tags, "uses-vars")
	}
	outAll := body + "\x00" + hout
	// oracle: the env secret appears only if a template names it
	if len(secret) >= 8 && !strings.ContainsAny(secret, "{}") && strings.Contains(outAll, secret) &&
		!strings.Contains(tmplAll, "env."+secretEnv) {
		o.Failures = append(o.Failures, core.Failure{Class: "env-secret-leaked-via-request-value",
			What: fmt.Sprintf("response contains the value of $%s although no template names it: body=%q X-Out=%q (X-In=%q q=%q path=%q)", secretEnv, body, hout, xin, q, path)})
	}
	// oracle: the secret file's content never appears (no template ever uses file.)
	if strings.Contains(outAll, fileContent) {
		o.Failures = append(o.Failures, core.Failure{Class: "file-content-leaked-via-request-value",
			What: fmt.Sprintf("response contains the content of %s: body=%q X-Out=%q (X-In=%q q=%q path=%q)", secretFilePath(), body, hout, xin, q, path)})
	}
	return o
}

// ---------------------------------------------------------------- vars / vars_regexp matchers

var matcherKeys = []string{
	"{http.request.header.X-In}", "{http.request.uri.query.q}", "v", "{http.vars.v}", "{zz.unk}", "w",
	"{env." + secretEnv + "}", "{http.request.header.x-in}", "{{http.vars.v}}", "{v", "v}",
}

func genMatcher(rng *core.Rand, emit func(string)) {
	av := attackerValues()
	secret := rng.Pick([]string{"S3CR3T-ENV-9942", "S3CR3T-ENV-9942", "plain", ""})
	mvals := []string{"{env." + secretEnv + "}", "plain", "", "{http.request.header.X-In}", "{zz.unk}", "S3CR3T-ENV-9942", "x{env." + secretEnv + "}y", "\\{env." + secretEnv + "}"}
	emit(fmt.Sprintf("httpm %s %s %s %s %s %s", core.Hex(rng.Pick(matcherKeys)), core.Hex(rng.Pick(mvals)),
		core.Hex(rng.Pick(av)), core.Hex(rng.Pick(av)), core.Hex(rng.Pick(av)), core.Hex(secret)))
}

func runMatcher(line string, f []string) core.Outcome {
	var v [6]string
	for i := 0; i < 6; i++ {
		s, err := core.UnHex(f[i+1])
		if err != nil {
			return core.Outcome{Impl: "bad-op"}
		}
		v[i] = s
	}
	key, mval, varV, xin, q, secret := v[0], v[1], expandTok(v[2]), expandTok(v[3]), expandTok(v[4]), v[5]
	os.Setenv(secretEnv, secret)
	defer os.Unsetenv(secretEnv)

	req := httptest.NewRequest("GET", "http://example.test/", nil)
	req.URL.RawQuery = "q=" + url.QueryEscape(q)
	req.Header["X-In"] = []string{xin}
	vars := map[string]any{"v": varV} // as the vars handler would have stored a request-derived value
	ctx := context.WithValue(req.Context(), caddyhttp.VarsCtxKey, vars)
	req = req.WithContext(ctx)
	repl := caddyhttp.NewTestReplacer(req)

	// the raw (request-controlled) value the matchers are about, obtained independently
	var raw string
	if strings.HasPrefix(key, "{") && strings.HasSuffix(key, "}") && strings.Count(key, "{") == 1 {
		val, _ := repl.Get(strings.Trim(key, "{}"))
		if s, ok := val.(string); ok {
			raw = s
		} else if val != nil {
			raw = fmt.Sprint(val)
		}
	} else if s, ok := vars[key].(string); ok {
		raw = s
	}

	m1, err := caddyhttp.VarsMatcher{key: []string{mval}}.MatchWithError(req)
	if err != nil {
		return core.Outcome{Impl: "err:matcher"}
	}
	re := &caddyhttp.MatchRegexp{Pattern: "(?s)^(.*)$", Name: "n"}
	mre := caddyhttp.MatchVarsRE{key: re}
	if err := mre.Provision(caddy.Context{}); err != nil {
		return core.Outcome{Impl: "err:provision"}
	}
	m2, err := mre.MatchWithError(req)
	if err != nil || !m2 {
		return core.Outcome{Impl: "err:matcher-re"}
	}
	capV, _ := repl.Get("http.regexp.n.1")
	captured, _ := capV.(string)

	o := core.Outcome{Tags: []string{"op:httpm"}}
	b := "0"
	if m1 {
		b = "1"
		o.Tags = append(o.Tags, "vars-matched")
	}
	o.Impl = "ok " + b + " " + core.Hex(foldTok(captured))
	if strings.ContainsAny(raw, "{}") {
		o.Tags = append(o.Tags, "matcher-value-has-braces")
	}
	// oracle (the property itself): the request-controlled value is compared / captured VERBATIM
	want := raw == repl.ReplaceAll(mval, "")
	if m1 != want {
		o.Failures = append(o.Failures, core.Failure{Class: "vars-matcher-rescans-value",
			What: fmt.Sprintf("vars matcher key=%q value=%q: actual value %q compared as if it were re-expanded (got match=%v, verbatim comparison gives %v)", key, mval, raw, m1, want)})
	}
	if captured != raw {
		o.Failures = append(o.Failures, core.Failure{Class: "vars-regexp-rescans-value",
			What: fmt.Sprintf("vars_regexp key=%q: the actual value %q reaches the regular expression as %q — it was scanned for placeholders again", key, raw, captured)})
	}
	return o
}

// ---------------------------------------------------------------- two requests, same handler instances

func genHTTP2(rng *core.Rand, emit func(string)) {
	mk := func(max int) string {
		var sb strings.Builder
		for j := 1 + rng.Intn(max); j > 0; j-- {
			sb.WriteString(rng.Pick(tmplPieces))
		}
		return sb.String()
	}
	av := attackerValues()
	body := mk(3) + "{http.vars.v}" + mk(2)
	kind := rng.Pick([]string{"s", "l", "l"})
	vart := rng.Pick([]string{"{http.request.uri.query.q}", "{http.request.header.X-In}", mk(3)})
	emit(fmt.Sprintf("http2 %s %s %s %s %s %s %s %s", core.Hex(body), kind, core.Hex(vart),
		core.Hex(rng.Pick(av)), core.Hex(rng.Pick(av)), core.Hex(rng.Pick(av)), core.Hex(rng.Pick(av)), core.Hex("S3CR3T-ENV-9942")))
}

func runHTTP2(line string, f []string) core.Outcome {
	kind := f[2]
	var v [7]string
	for i, idx := range []int{1, 3, 4, 5, 6, 7, 8} {
		s, err := core.UnHex(f[idx])
		if err != nil {
			return core.Outcome{Impl: "bad-op"}
		}
		v[i] = s
	}
	if kind != "s" && kind != "l" {
		return core.Outcome{Impl: "bad-op"}
	}
	bodyT, varT, secret := v[0], v[1], v[6]
	reqs := [][2]string{{expandTok(v[2]), expandTok(v[3])}, {expandTok(v[4]), expandTok(v[5])}}
	os.Setenv(secretEnv, secret)
	defer os.Unsetenv(secretEnv)

	mkHandlers := func() (caddyhttp.VarsMiddleware, caddyhttp.StaticResponse) {
		var val any = varT
		if kind == "l" {
			val = []any{"static", varT} // what JSON decoding of a list-valued variable yields
		}
		return caddyhttp.VarsMiddleware{"v": val}, caddyhttp.StaticResponse{Body: bodyT}
	}
	serve := func(vars caddyhttp.VarsMiddleware, resp caddyhttp.StaticResponse, xin, q string) (string, error) {
		req := httptest.NewRequest("GET", "http://example.test/", nil)
		req.URL.RawQuery = "q=" + url.QueryEscape(q)
		req.Header["X-In"] = []string{xin}
		ctx := context.WithValue(req.Context(), caddyhttp.VarsCtxKey, map[string]any{})
		req = req.WithContext(ctx)
		caddyhttp.NewTestReplacer(req)
		rec := httptest.NewRecorder()
		err := vars.ServeHTTP(rec, req, caddyhttp.HandlerFunc(func(w http.ResponseWriter, r *http.Request) error {
			return resp.ServeHTTP(w, r, nextNop{})
		}))
		return rec.Body.String(), err
	}
	vars, resp := mkHandlers()
	var outs []string
	for _, rq := range reqs {
		b, err := serve(vars, resp, rq[0], rq[1])
		if err != nil {
			return core.Outcome{Impl: "err:handler"}
		}
		outs = append(outs, b)
	}
	o := core.Outcome{Impl: "ok " + core.Hex(foldTok(outs[0])) + " " + core.Hex(foldTok(outs[1])), Tags: []string{"op:http2", "varkind:" + kind}}
	// oracle 1: history independence — request 2 on the used handlers = request 2 on fresh handlers
	fv, fr := mkHandlers()
	fresh, _ := serve(fv, fr, reqs[1][0], reqs[1][1])
	if fresh != outs[1] {
		o.Failures = append(o.Failures, core.Failure{Class: "response-depends-on-earlier-request",
			What: fmt.Sprintf("second request rendered %q on handlers that served %q before, but %q on fresh handlers: text substituted for request 1 is being expanded for request 2", outs[1], reqs[0], fresh)})
	}
	// oracle 2: secret only if a template names it
	for _, b := range outs {
		if strings.Contains(b, secret) && !strings.Contains(bodyT+"\x00"+varT, "env."+secretEnv) {
			o.Failures = append(o.Failures, core.Failure{Class: "env-secret-leaked-via-request-value",
				What: fmt.Sprintf("response %q contains the value of $%s although no template names it", b, secretEnv)})
			break
		}
	}
	return o
}
