package c18

// "Handler zoo": requests whose header / query / cookie / path / host carry placeholder syntax are
// served by a REAL provisioned caddy HTTP server whose handlers (vars, map, headers, rewrite,
// static_response) expand templates that refer to those request parts. No model is involved — the
// answer line is the constant `zoo`; what is evaluated is the property itself on the implementation:
//   (1) the secret environment variable / secret file content never appears anywhere in a response
//       (the configuration never names them);
//   (2) history independence: the second request of a case gets the same response from the server
//       that already served the first request as from a freshly provisioned server.

import (
	"encoding/json"
	"fmt"
	"net/http/httptest"
	"net/url"
	"os"
	"sort"
	"strings"
	"sync"

	"github.com/caddyserver/caddy/v2"
	"github.com/caddyserver/caddy/v2/modules/caddyhttp"
	_ "github.com/caddyserver/caddy/v2/modules/standard"
	"golang.org/x/crypto/bcrypt"

	"verif/harness/internal/core"
)

var zooConfigs = []string{
	// 0: everything at once
	`{"servers":{"s":{"listen":[":0"],"automatic_https":{"disable":true},"routes":[
	  {"handle":[{"handler":"vars","v":"{http.request.header.X-In}","l":["static","{http.request.uri.query.q}"],"o":{"k":"{http.request.header.X-In}"}}]},
	  {"handle":[{"handler":"map","source":"{http.request.uri.query.q}","destinations":["{m}"],"mappings":[{"input":"plain","outputs":["mapped-{http.request.header.X-In}"]},{"input_regexp":"^x(.*)$","outputs":["cap-${1}-end"]}],"defaults":["{http.request.header.X-In}"]}]},
	  {"handle":[{"handler":"headers","request":{"set":{"X-Req":["{http.request.uri.query.q}"]}},"response":{"set":{"X-Resp":["{http.vars.v}|{http.request.header.X-In}|{m}|{http.request.cookie.c}"]},"add":{"X-Add":["{http.request.uri.path}"]}}}]},
	  {"handle":[{"handler":"rewrite","uri":"/r{http.request.uri.path}?z={http.request.uri.query.q}&{http.request.uri.query}"}]},
	  {"handle":[{"handler":"static_response","headers":{"X-Static":["{http.request.host}|{http.vars.l}"]},"body":"v={http.vars.v} l={http.vars.l} o={http.vars.o} m={m} xreq={http.request.header.X-Req} uri={http.request.uri} cookie={http.request.cookie.c} host={http.request.host} q={http.request.uri.query.q} unk={zz.unk}"}]}
	]}}}`,
	// 1: matchers deciding on request-derived values, then respond with capture groups
	`{"servers":{"s":{"listen":[":0"],"automatic_https":{"disable":true},"routes":[
	  {"handle":[{"handler":"vars","tok":"{http.request.uri.query.q}"}]},
	  {"match":[{"vars":{"tok":["{env.VERIF_C18_ZOO_ADMIN}"]}}],"handle":[{"handler":"static_response","body":"ADMIN-AREA"}],"terminal":true},
	  {"match":[{"vars_regexp":{"{http.request.header.X-In}":{"name":"r","pattern":"^(.*)$"}}}],"handle":[{"handler":"static_response","body":"re={http.regexp.r.1} tok={http.vars.tok}"}],"terminal":true},
	  {"handle":[{"handler":"static_response","body":"fallthrough tok={http.vars.tok}"}]}
	]}}}`,
	// 2: header matcher + path_regexp + rewrite with captured groups + respond via error route
	`{"servers":{"s":{"listen":[":0"],"automatic_https":{"disable":true},"routes":[
	  {"match":[{"path_regexp":{"name":"p","pattern":"^/(.*)$"}}],"handle":[{"handler":"headers","response":{"set":{"X-Cap":["{http.regexp.p.1}"]}}}]},
	  {"match":[{"header":{"X-In":["{env.VERIF_C18_ZOO_ADMIN}"]}}],"handle":[{"handler":"static_response","body":"ADMIN-AREA"}],"terminal":true},
	  {"match":[{"query":{"q":["{env.VERIF_C18_ZOO_ADMIN}"]}}],"handle":[{"handler":"static_response","body":"ADMIN-AREA"}],"terminal":true},
	  {"handle":[{"handler":"error","status_code":"418","error":"msg {http.request.header.X-In}"}]}
	],"errors":{"routes":[{"handle":[{"handler":"static_response","body":"err={http.error.message} code={http.error.status_code} xin={http.request.header.X-In}"}]}]}}}}`,
	// 3: rewrite idioms with an empty query part ("strip the query"), then the rewritten URI is echoed
	`{"servers":{"s":{"listen":[":0"],"automatic_https":{"disable":true},"routes":[
	  {"match":[{"path":["/f/*"]}],"handle":[{"handler":"rewrite","uri":"/files/{http.request.uri.path.file}?"}]},
	  {"match":[{"path":["/u/*"]}],"handle":[{"handler":"rewrite","uri":"/x{http.request.uri}?"}]},
	  {"match":[{"path":["/d/*"]}],"handle":[{"handler":"rewrite","uri":"{http.request.uri.path.dir}index?#{http.request.uri.path.file}"}]},
	  {"handle":[{"handler":"static_response","body":"uri={http.request.uri} q={http.request.uri.query} path={http.request.uri.path}"}]}
	]}}}`,
	// 4: fields that are expanded when the server is PROVISIONED: the server goes through automatic HTTPS
	// phase 1 (not disabled, a non-HTTP port, certificates and redirects off), which expands the host
	// patterns with the global replacer before the matcher expands them again per request; and a basic-auth
	// account name taken from the environment. The VALUES of these variables contain placeholder syntax.
	`{"servers":{"s":{"listen":["127.0.0.1:0"],"protocols":["h1"],"automatic_https":{"disable_redirects":true,"disable_certificates":true},"routes":[
	  {"match":[{"host":["{env.VERIF_C18_ZOO_SITE}"]}],"handle":[{"handler":"static_response","body":"ENV-ROUTE"}],"terminal":true},
	  {"match":[{"host":["\\{http.request.header.X-In\\}"]}],"handle":[{"handler":"static_response","body":"ESC-ROUTE"}],"terminal":true},
	  {"match":[{"path":["/auth/*"]}],"handle":[{"handler":"authentication","providers":{"http_basic":{"accounts":[{"username":"{env.VERIF_C18_ZOO_USER}","password":"@BCRYPT@"}]}}},
	     {"handler":"static_response","body":"AUTHED"}],"terminal":true},
	  {"handle":[{"handler":"static_response","body":"fallthrough host={http.request.host}"}]}
	]}}}`,
}

const zooAdmin = "ADM1N-T0KEN-5512"

// values of the variables config 4 reads at provision time: placeholder syntax that must stay text
const (
	zooSite = "{http.request.header.X-In}"
	zooUser = "{http.request.uri.query.q}"
	zooPass = "pw-7781"
)

var (
	zooHashOnce sync.Once
	zooHash     string
)

func zooConfig(idx int) string {
	zooHashOnce.Do(func() {
		h, err := bcrypt.GenerateFromPassword([]byte(zooPass), bcrypt.MinCost)
		if err != nil {
			panic(err)
		}
		zooHash = string(h)
	})
	return strings.ReplaceAll(zooConfigs[idx], "@BCRYPT@", zooHash)
}

var (
	zooOnce sync.Once
	zooBase caddy.Context
	zooErr  error
	zooDir  string
)

func zooBaseCtx() (caddy.Context, error) {
	zooOnce.Do(func() {
		dir, err := os.MkdirTemp(".", "c18zoo")
		if err != nil {
			zooErr = err
			return
		}
		zooDir = dir
		os.Setenv("XDG_DATA_HOME", dir)
		os.Setenv("XDG_CONFIG_HOME", dir)
		caddy.DefaultStorage.Path = dir
		cfg := &caddy.Config{
			Admin: &caddy.AdminConfig{Disabled: true},
			Logging: &caddy.Logging{Logs: map[string]*caddy.CustomLog{
				"default": {BaseLog: caddy.BaseLog{WriterRaw: json.RawMessage(`{"output":"discard"}`)}},
			}},
			AppsRaw: caddy.ModuleMap{},
		}
		zooBase, zooErr = caddy.ProvisionContext(cfg)
		if zooErr != nil {
			return
		}
		if _, zooErr = zooBase.App("tls"); zooErr != nil {
			return
		}
		_, zooErr = zooBase.App("events")
	})
	return zooBase, zooErr
}

type zooReq struct{ xin, q, cookie, path, host string }

func zooServe(srv *caddyhttp.Server, r zooReq) string {
	req := httptest.NewRequest("GET", "http://example.test/", nil)
	// the request target as it would arrive on the wire: literal braces in the path are legal there
	// and make net/url keep the client's spelling in URL.RawPath
	if u, err := url.ParseRequestURI(r.path + "?q=" + url.QueryEscape(r.q)); err == nil {
		req.URL.Path, req.URL.RawPath, req.URL.RawQuery = u.Path, u.RawPath, u.RawQuery
	} else {
		req.URL.Path = r.path
		req.URL.RawQuery = "q=" + url.QueryEscape(r.q)
	}
	req.RequestURI = req.URL.RequestURI()
	req.Host = r.host
	req.Header["X-In"] = []string{r.xin}
	if r.cookie != "" {
		req.Header["Cookie"] = []string{"c=" + r.cookie}
	}
	if strings.HasPrefix(r.path, "/auth/") {
		req.SetBasicAuth(r.q, zooPass) // the client presents q as the account name
	}
	rec := httptest.NewRecorder()
	func() {
		defer func() {
			if p := recover(); p != nil {
				rec.Body.WriteString(fmt.Sprint("PANIC:", p))
			}
		}()
		srv.ServeHTTP(rec, req)
	}()
	var hs []string
	for k, v := range rec.Header() {
		if k == "Server" || k == "Date" || k == "Content-Length" {
			continue
		}
		hs = append(hs, k+"="+strings.Join(v, ","))
	}
	sort.Strings(hs)
	return fmt.Sprintf("%d|%s|%s", rec.Code, strings.Join(hs, ";"), rec.Body.String())
}

func zooServer(cfgIdx int) (*caddyhttp.Server, func(), error) {
	b, err := zooBaseCtx()
	if err != nil {
		return nil, nil, err
	}
	ctx, cancel := caddy.NewContext(b)
	v, err := ctx.LoadModuleByID("http", json.RawMessage(zooConfig(cfgIdx)))
	if err != nil {
		cancel()
		return nil, nil, err
	}
	return v.(*caddyhttp.App).Servers["s"], cancel, nil
}

func genZoo(rng *core.Rand, emit func(string)) {
	av := append(attackerValues(), "{env.VERIF_C18_ZOO_ADMIN}", zooAdmin, "{http.regexp.r.1}", "{http.error.message}", "{m}", "{http.request.cookie.c}",
		// values the map handler's regexp mapping `^x(.*)$` captures: the captured request text must stay text
		"x{env."+secretEnv+"}", "x{file."+fileToken+"}", "xplain", "x{http.request.header.X-In}")
	paths := []string{"/", "/p", "/{env." + secretEnv + "}", "/a/{http.vars.v}", "/{zz.unk}", "/{env.VERIF_C18_ZOO_ADMIN}",
		"/x%7Benv." + secretEnv + "%7D", "/{file." + fileToken + "}", "/a\\{b",
		"/f/a%3Fq=%7Benv." + secretEnv + "%7D", "/u/a%3F%7Benv." + secretEnv + "%7D", "/d/x%3F%7Benv." + secretEnv + "%7D", "/f/%3F{env." + secretEnv + "}"}
	hosts := []string{"example.test", "{env." + secretEnv + "}", "example.test:80"}
	cookieVals := []string{"", "plain", "{env." + secretEnv + "}", "{http.vars.v}"}
	pickReq := func() string {
		return strings.Join([]string{core.Hex(rng.Pick(av)), core.Hex(rng.Pick(av)), core.Hex(rng.Pick(cookieVals)), core.Hex(rng.Pick(paths)), core.Hex(rng.Pick(hosts))}, ",")
	}
	idx := rng.Intn(len(zooConfigs))
	if idx == 4 {
		// the client names a host / an account in another request field and asks for exactly that
		pick4 := func() string {
			x := rng.Pick([]string{"plain", "tenant.example", zooSite, zooUser, "{env." + secretEnv + "}", "example.test"})
			q := rng.Pick([]string{x, x, "plain", zooUser, zooSite})
			host := rng.Pick([]string{x, x, "example.test", zooSite, "{http.request.header.X-In}"})
			path := rng.Pick([]string{"/", "/p"})
			if rng.Chance(1, 150) {
				// rare: an unknown account costs a bcrypt comparison against caddy's cost-14 anti-timing hash (~1 s);
				// corpus/C18/provisioned-fields.txt replays one such request on every run
				path = "/auth/x"
			}
			return strings.Join([]string{core.Hex(x), core.Hex(q), core.Hex(""), core.Hex(path), core.Hex(host)}, ",")
		}
		emit(fmt.Sprintf("zoo 4 %s %s", pick4(), pick4()))
		return
	}
	emit(fmt.Sprintf("zoo %d %s %s", idx, pickReq(), pickReq()))
}

func parseZooReq(s string) (zooReq, bool) {
	p := strings.Split(s, ",")
	if len(p) != 5 {
		return zooReq{}, false
	}
	var v [5]string
	for i := range p {
		x, err := core.UnHex(p[i])
		if err != nil {
			return zooReq{}, false
		}
		v[i] = x
	}
	return zooReq{expandTok(v[0]), expandTok(v[1]), expandTok(v[2]), expandTok(v[3]), expandTok(v[4])}, true
}

func runZoo(line string, f []string) core.Outcome {
	var idx int
	if _, err := fmt.Sscanf(f[1], "%d", &idx); err != nil || idx < 0 || idx >= len(zooConfigs) {
		return core.Outcome{Impl: "bad-op"}
	}
	r1, ok1 := parseZooReq(f[2])
	r2, ok2 := parseZooReq(f[3])
	if !ok1 || !ok2 {
		return core.Outcome{Impl: "bad-op"}
	}
	secret := "S3CR3T-ENV-9942"
	os.Setenv(secretEnv, secret)
	os.Setenv("VERIF_C18_ZOO_ADMIN", zooAdmin)
	os.Setenv("VERIF_C18_ZOO_SITE", zooSite)
	os.Setenv("VERIF_C18_ZOO_USER", zooUser)
	defer os.Unsetenv(secretEnv)
	secretFilePath()

	srv, cancel, err := zooServer(idx)
	if err != nil {
		return core.Outcome{Impl: "zoo", Failures: []core.Failure{{Class: "zoo-config-does-not-provision", What: err.Error()}}}
	}
	defer cancel()
	out1 := zooServe(srv, r1)
	out2 := zooServe(srv, r2)
	fresh, cancel2, err := zooServer(idx)
	if err != nil {
		return core.Outcome{Impl: "zoo"}
	}
	defer cancel2()
	out2fresh := zooServe(fresh, r2)

	o := core.Outcome{Impl: "zoo", Tags: []string{"op:zoo", fmt.Sprintf("zoo-config:%d", idx)}}
	if strings.Contains(out1+out2, "ADMIN-AREA") {
		o.Tags = append(o.Tags, "zoo-admin-area-reached")
	}
	for n, out := range []string{out1, out2} {
		if strings.Contains(out, secret) {
			o.Failures = append(o.Failures, core.Failure{Class: "zoo-env-secret-leaked",
				What: fmt.Sprintf("config %d, request %d: response contains the value of $%s, which no handler template names: %q", idx, n+1, secretEnv, out)})
			break
		}
		if strings.Contains(out, fileContent) {
			o.Failures = append(o.Failures, core.Failure{Class: "zoo-file-content-leaked",
				What: fmt.Sprintf("config %d, request %d: response contains the content of the secret file: %q", idx, n+1, out)})
			break
		}
		if strings.Contains(out, "PANIC:") {
			o.Failures = append(o.Failures, core.Failure{Class: "zoo-handler-panic", What: out})
			break
		}
	}
	// the admin area is reachable only by presenting the admin token itself
	for n, rq := range []zooReq{r1, r2} {
		out := []string{out1, out2}[n]
		if strings.Contains(out, "ADMIN-AREA") && rq.xin != zooAdmin && rq.q != zooAdmin {
			o.Failures = append(o.Failures, core.Failure{Class: "zoo-matcher-accepts-placeholder-text-as-secret",
				What: fmt.Sprintf("config %d: a request that does not carry the admin token (X-In=%q q=%q) reached the area guarded by a matcher on {env.VERIF_C18_ZOO_ADMIN}: %q", idx, rq.xin, rq.q, out)})
			break
		}
	}
	// fields expanded at provision time (config 4): their VALUES are compared as text at request time
	if idx == 4 {
		hostOnly := func(h string) string {
			if i := strings.LastIndexByte(h, ':'); i >= 0 && !strings.Contains(h[i:], "}") {
				return h[:i]
			}
			return h
		}
		for n, rq := range []zooReq{r1, r2} {
			out := []string{out1, out2}[n]
			if strings.Contains(out, "ENV-ROUTE") && !strings.EqualFold(hostOnly(rq.host), zooSite) {
				o.Failures = append(o.Failures, core.Failure{Class: "zoo-provisioned-value-rescanned",
					What: fmt.Sprintf("config 4: host pattern {env.VERIF_C18_ZOO_SITE} (value %q) matched a request with Host %q, X-In %q: the value was expanded again at request time: %q", zooSite, rq.host, rq.xin, out)})
				break
			}
			if strings.Contains(out, "ESC-ROUTE") && !strings.EqualFold(hostOnly(rq.host), "{http.request.header.X-In}") {
				o.Failures = append(o.Failures, core.Failure{Class: "zoo-provisioned-value-rescanned",
					What: fmt.Sprintf("config 4: the escaped host pattern \\{http.request.header.X-In\\} matched a request with Host %q, X-In %q: the escape was consumed by one expansion and the text expanded by another: %q", rq.host, rq.xin, out)})
				break
			}
			if strings.Contains(out, "AUTHED") && rq.q != zooUser {
				o.Failures = append(o.Failures, core.Failure{Class: "zoo-provisioned-value-rescanned",
					What: fmt.Sprintf("config 4: basic-auth account {env.VERIF_C18_ZOO_USER} (value %q) accepted the account name %q: %q", zooUser, rq.q, out)})
				break
			}
			if strings.Contains(out, "ENV-ROUTE") || strings.Contains(out, "ESC-ROUTE") || strings.Contains(out, "AUTHED") {
				o.Tags = append(o.Tags, "zoo-provisioned-field-matched")
			}
		}
	}
	if out2 != out2fresh {
		o.Failures = append(o.Failures, core.Failure{Class: "zoo-response-depends-on-earlier-request",
			What: fmt.Sprintf("config %d: second request answered %q by the server that served another request before, %q by a fresh server", idx, out2, out2fresh)})
	}
	return o
}

func zooCleanup() {
	os.Remove(rwFile)
	if zooDir != "" {
		os.RemoveAll(zooDir)
	}
	if secretFile != "" {
		os.RemoveAll(strings.TrimSuffix(secretFile, "/secret.txt"))
	}
}
