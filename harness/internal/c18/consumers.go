package c18

// Correspondence streams for the handlers that CONSUME the replacer on request-derived text:
//   httpmap  the map handler (lazy lookup closure, exact / regexp mappings, defaults)
//   httphdr  the headers handler (request and response operations)
//   httprwm  the rewrite handler's modifiers (strip prefix / suffix, uri_substring, path_regexp)
// The models are CaddyModel/C18/{MapH,Headers,RwMods}.lean. Regular expressions are taken from two
// families the models cover exactly (Regex.lean); all fields are ASCII.

import (
	"context"
	"encoding/json"
	"fmt"
	"net/http"
	"net/http/httptest"
	"net/url"
	"os"
	"regexp"
	"sort"
	"strconv"
	"strings"
	"sync"

	"github.com/caddyserver/caddy/v2"
	"github.com/caddyserver/caddy/v2/modules/caddyhttp"
	"github.com/caddyserver/caddy/v2/modules/caddyhttp/headers"
	maphandler "github.com/caddyserver/caddy/v2/modules/caddyhttp/map"
	"github.com/caddyserver/caddy/v2/modules/caddyhttp/rewrite"

	"verif/harness/internal/core"
)

const crlfFile = "c18crlf.txt"

var consFilesOnce sync.Once

func consFiles() {
	rwSecretFile()
	consFilesOnce.Do(func() {
		if err := os.WriteFile(crlfFile, []byte("CRLF-F1LE\r\n"), 0o600); err != nil {
			panic(err)
		}
	})
}

func isASCII(ss ...string) bool {
	for _, s := range ss {
		for i := 0; i < len(s); i++ {
			if s[i] >= 0x80 {
				return false
			}
		}
	}
	return true
}

// patText builds the pattern of one of the two modelled families.
func patText(kind, p, s string) (string, bool) {
	switch kind {
	case "a":
		return "^" + regexp.QuoteMeta(p) + "(.*)" + regexp.QuoteMeta(s) + "$", true
	case "l":
		if p == "" {
			return "", false
		}
		return regexp.QuoteMeta(p), true
	}
	return "", false
}

// unhexAll decodes the fields f[from:]; "!" (nil / absent) is kept as it is.
func unhexAll(f []string, skip map[int]bool) ([]string, bool) {
	out := make([]string, len(f))
	for i, x := range f {
		if skip[i] || x == "!" {
			out[i] = x
			continue
		}
		s, err := core.UnHex(x)
		if err != nil {
			return nil, false
		}
		out[i] = s
	}
	return out, true
}

func consRequest(xin, q, path string) (*http.Request, *caddy.Replacer) {
	req := httptest.NewRequest("GET", "http://example.test/", nil)
	req.URL.Path = path
	req.URL.RawQuery = "q=" + url.QueryEscape(q)
	req.RequestURI = req.URL.RequestURI()
	req.Header = http.Header{"X-In": []string{xin}}
	ctx := context.WithValue(req.Context(), caddyhttp.VarsCtxKey, map[string]any{})
	req = req.WithContext(ctx)
	return req, caddyhttp.NewTestReplacer(req)
}

var consAttacker = []string{
	"", "plain", "xplain", "{env." + secretEnv + "}", "x{env." + secretEnv + "}", "{file." + rwFile + "}", "x{file." + rwFile + "}y",
	"{http.request.header.X-In}", "x{http.request.uri.query.q}", "$1", "x$1{", "}", "{", "x\\{env." + secretEnv + "}", "x{zz.unk}", "a/b",
}

func secretOracle(o *core.Outcome, class, what, out, secret string, templates ...string) {
	all := strings.Join(templates, "\x00")
	if len(secret) >= 8 && !strings.ContainsAny(secret, "{}$") && strings.Contains(out, secret) && !strings.Contains(all, "env."+secretEnv) {
		o.Failures = append(o.Failures, core.Failure{Class: class,
			What: fmt.Sprintf("%s: the result %q contains the value of $%s although no configured template names it — request text was expanded", what, out, secretEnv)})
	}
	if strings.Contains(out, fileContent) && !strings.Contains(all, "file."+rwFile) {
		o.Failures = append(o.Failures, core.Failure{Class: class,
			What: fmt.Sprintf("%s: the result %q contains the content of the secret file although no configured template names it — request text was expanded", what, out)})
	}
}

// ---------------------------------------------------------------- map handler
//
// httpmap <source> <er|re> <exIn> <exOutM> <exOutN> <a|l> <P> <S> <reOutM> <reOutN> <defM> <defN> <probe> <X-In> <q> <secret>
// destinations {m} {n}; one exact and one regexp mapping in the given order; "!" = null output /
// absent default. Answer: ok <ReplaceAll(probe) behind the handler> | err:validate.

var mapSources = []string{
	"{http.request.uri.query.q}", "{http.request.uri.query.q}", "{http.request.header.X-In}", "x{http.request.uri.query.q}",
	"{http.request.uri.query.q}{http.request.header.X-In}", "plain", "{zz.unk}x", "{file." + crlfFile + "}",
}

var mapOutputs = []string{
	"mapped-{http.request.header.X-In}", "cap-${1}-end", "$1", "${1}{http.request.header.X-In}", "$0|$1", "$$1", "${1", "$x$1", "$01", "${0}",
	"lit", "", "{http.vars.v}", "{file." + crlfFile + "}", "{zz.unk}", "\\{a}", "{http.request.uri.query.q}",
}

func genMap(rng *core.Rand, emit func(string)) {
	opt := func(s string) string {
		if rng.Chance(1, 8) {
			return "!"
		}
		return core.Hex(s)
	}
	outN := func() string {
		if rng.Chance(1, 5) {
			return rng.Pick([]string{"{m}", "n:{m}", "{m}{m}"})
		}
		return rng.Pick(mapOutputs)
	}
	kind := rng.Pick([]string{"a", "a", "a", "l"})
	p := rng.Pick([]string{"x", "x", "", "pl", "{", "x{"})
	s := rng.Pick([]string{"", "", "}", "y", "n"})
	exIn := rng.Pick([]string{"plain", "plain", "", "xplain", "{env." + secretEnv + "}", "^x(.*)$"})
	defM, defN := "!", "!"
	switch rng.Intn(4) {
	case 0:
	case 1:
		defM = core.Hex(rng.Pick(mapOutputs)) // one default for two destinations: rejected by Validate
	default:
		defM, defN = core.Hex(rng.Pick(mapOutputs)), core.Hex(outN())
	}
	probe := rng.Pick([]string{"{m}|{n}", "{m}|{n}", "{n}", "m={m}", "{m}{m}|{zz.unk}|{n}", "{http.request.header.X-In}|{m}"})
	secret := rng.Pick([]string{"S3CR3T-ENV-9942", "S3CR3T-ENV-9942", ""})
	emit(fmt.Sprintf("httpmap %s %s %s %s %s %s %s %s %s %s %s %s %s %s %s %s",
		core.Hex(rng.Pick(mapSources)), rng.Pick([]string{"er", "re"}), core.Hex(exIn), opt(rng.Pick(mapOutputs)), opt(outN()),
		kind, core.Hex(p), core.Hex(s), opt(rng.Pick(mapOutputs)), opt(outN()), defM, defN,
		core.Hex(probe), core.Hex(rng.Pick(consAttacker)), core.Hex(rng.Pick(consAttacker)), core.Hex(secret)))
}

func mapCyclic(source, exM, exN, reM, reN, defM, defN string) bool {
	has := func(s string, subs ...string) bool {
		for _, x := range subs {
			if strings.Contains(s, x) {
				return true
			}
		}
		return false
	}
	return has(source+"\x00"+exM+"\x00"+reM+"\x00"+defM, "{m}", "{n}") || has(exN+"\x00"+reN+"\x00"+defN, "{n}")
}

func runMap(line string, f []string) core.Outcome {
	bad := core.Outcome{Impl: "bad-op"}
	v, ok := unhexAll(f, map[int]bool{0: true, 2: true, 6: true})
	if !ok || !isASCII(v...) {
		return bad
	}
	source, order, exIn, exM, exN, kind, p, s, reM, reN, defM, defN, probe, xin, q, secret :=
		v[1], v[2], v[3], v[4], v[5], v[6], v[7], v[8], v[9], v[10], v[11], v[12], v[13], v[14], v[15], v[16]
	pat, okp := patText(kind, p, s)
	if !okp || (order != "er" && order != "re") || source == "!" || exIn == "!" || p == "!" || s == "!" || probe == "!" || xin == "!" || q == "!" || secret == "!" {
		return bad
	}
	if defM == "!" && defN != "!" {
		return bad
	}
	if mapCyclic(source, exM, exN, reM, reN, defM, defN) {
		return bad
	}
	out := func(x string) any {
		if x == "!" {
			return nil
		}
		return x
	}
	ex := maphandler.Mapping{Input: exIn, Outputs: []any{out(exM), out(exN)}}
	re := maphandler.Mapping{InputRegexp: pat, Outputs: []any{out(reM), out(reN)}}
	h := maphandler.Handler{Source: source, Destinations: []string{"{m}", "{n}"}}
	if order == "er" {
		h.Mappings = []maphandler.Mapping{ex, re}
	} else {
		h.Mappings = []maphandler.Mapping{re, ex}
	}
	if defM != "!" {
		h.Defaults = []string{defM}
		if defN != "!" {
			h.Defaults = append(h.Defaults, defN)
		}
	}
	o := core.Outcome{Tags: []string{"op:httpmap", "map-order:" + order, "map-pat:" + kind}}
	if err := h.Provision(caddy.Context{}); err != nil {
		o.Impl = "err:provision"
		return o
	}
	if err := h.Validate(); err != nil {
		o.Impl = "err:validate"
		o.Tags = append(o.Tags, "err:validate")
		return o
	}
	os.Setenv(secretEnv, secret)
	defer os.Unsetenv(secretEnv)
	consFiles()
	req, repl := consRequest(xin, q, "/")
	var got string
	panicked := func() (pv any) {
		defer func() { pv = recover() }()
		return h.ServeHTTP(httptest.NewRecorder(), req, caddyhttp.HandlerFunc(func(http.ResponseWriter, *http.Request) error {
			got = repl.ReplaceAll(probe, "")
			return nil
		}))
	}()
	if panicked != nil {
		o.Impl = "panic"
		return o
	}
	o.Impl = "ok " + core.Hex(got)
	if strings.ContainsAny(xin+q, "{}") {
		o.Tags = append(o.Tags, "attacker-value-has-braces")
	}
	if m := regexp.MustCompile(pat).FindStringSubmatchIndex(repl.ReplaceAll(source, "")); m != nil {
		o.Tags = append(o.Tags, "map-regexp-matched")
	}
	secretOracle(&o, "map-expands-request-text", fmt.Sprintf("map source %q, regexp %q, request X-In=%q q=%q", source, pat, xin, q),
		got, secret, source, exM, exN, reM, reN, defM, defN, probe)
	return o
}

// ---------------------------------------------------------------- headers handler
//
// httphdr <q|s> <addF> <addV> <setF> <setV1> <setV2> <del1> <del2> <repF> <s|a|l> <search|P> <S> <replace> <X-In> <q> <secret>
// q: the operations are request operations (ApplyToRequest, Host juggling included); s: response
// operations applied at once to a response header map that already holds upstream-like fields.
// Initial map on either side: X-In=[xin] X-Fixed=[fixed-abc] X-Two=[one, xin]. "!" = absent.
// Answer: ok <sorted map dump> <r.Host afterwards>.

var hdrFields = []string{"X-New", "x-in", "X-In", "X-Fixed", "x-two", "{http.request.header.X-In}", "X-{http.request.uri.query.q}", "host", "*", "X Sp", "{zz.unk}"}

var hdrVals = []string{
	"{http.request.header.X-In}", "v-{http.request.uri.query.q}", "lit", "", "{http.request.header.X-Two}", "{http.request.header.X-New}",
	"{zz.unk}", "{file." + crlfFile + "}", "\\{a}", "{http.vars.v}", "$1", "{http.request.header.Host}",
}

var hdrDeletes = []string{"X-Fixed", "x-in", "*", "x-*", "*-two", "*i*", "**", "{http.request.header.X-In}", "X-New", "{zz.unk}", "*{http.request.uri.query.q}"}

func genHdr(rng *core.Rand, emit func(string)) {
	abs := func(p int, s string) string {
		if rng.Chance(1, p) {
			return "!"
		}
		return core.Hex(s)
	}
	addF, addV := "!", "!"
	if rng.Chance(2, 3) {
		addF, addV = core.Hex(rng.Pick(hdrFields)), core.Hex(rng.Pick(hdrVals))
	}
	setF, setV1, setV2 := "!", "!", "!"
	if rng.Chance(2, 3) {
		setF, setV1, setV2 = core.Hex(rng.Pick(hdrFields)), core.Hex(rng.Pick(hdrVals)), abs(2, rng.Pick(hdrVals))
	}
	repF, kind, a, b, repl := "!", "s", "-", "-", "-"
	if rng.Chance(2, 3) {
		repF = core.Hex(rng.Pick([]string{"X-In", "x-in", "*", "X-Two", "{http.request.header.X-In}", "X-New", "{zz.unk}"}))
		kind = rng.Pick([]string{"s", "s", "a", "l"})
		switch kind {
		case "s":
			a = core.Hex(rng.Pick([]string{"x", "{", "}", "{http.request.uri.query.q}", "", "plain", "env", "{zz.unk}"}))
		case "a":
			a, b = core.Hex(rng.Pick([]string{"x", "", "{", "pl"})), core.Hex(rng.Pick([]string{"", "}", "n", "y"}))
		case "l":
			a = core.Hex(rng.Pick([]string{"x", "{", "}", "env.", "a"}))
		}
		repl = core.Hex(rng.Pick([]string{"R", "", "[$1]", "${1}{http.request.uri.query.q}", "$0$0", "{http.request.uri.query.q}", "{env." + secretEnv, "{zz.unk}", "$$", "{"}))
	}
	secret := rng.Pick([]string{"S3CR3T-ENV-9942", "S3CR3T-ENV-9942", ""})
	emit(fmt.Sprintf("httphdr %s %s %s %s %s %s %s %s %s %s %s %s %s %s %s %s", rng.Pick([]string{"q", "s"}), addF, addV, setF, setV1, setV2,
		abs(2, rng.Pick(hdrDeletes)), abs(3, rng.Pick(hdrDeletes)), repF, kind, a, b, repl,
		core.Hex(rng.Pick(consAttacker)), core.Hex(rng.Pick(consAttacker)), core.Hex(secret)))
}

func dumpHeader(h http.Header) string {
	if len(h) == 0 {
		return "-"
	}
	keys := make([]string, 0, len(h))
	for k := range h {
		keys = append(keys, k)
	}
	sort.Strings(keys)
	var parts []string
	for _, k := range keys {
		var vs []string
		for _, v := range h[k] {
			vs = append(vs, core.Hex(v))
		}
		parts = append(parts, core.Hex(k)+"="+strings.Join(vs, ","))
	}
	return strings.Join(parts, ";")
}

func runHdr(line string, f []string) core.Outcome {
	bad := core.Outcome{Impl: "bad-op"}
	v, ok := unhexAll(f, map[int]bool{0: true, 1: true, 10: true})
	if !ok || !isASCII(v...) {
		return bad
	}
	side, addF, addV, setF, setV1, setV2, del1, del2, repF, kind, ra, rb, rrepl, xin, q, secret :=
		v[1], v[2], v[3], v[4], v[5], v[6], v[7], v[8], v[9], v[10], v[11], v[12], v[13], v[14], v[15], v[16]
	if (side != "q" && side != "s") || (addF == "!") != (addV == "!") || (setF == "!") != (setV1 == "!") || (setF == "!" && setV2 != "!") ||
		xin == "!" || q == "!" || secret == "!" || ra == "!" || rb == "!" || rrepl == "!" {
		return bad
	}
	ops := &headers.HeaderOps{}
	var templates []string
	if addF != "!" {
		ops.Add = http.Header{addF: []string{addV}}
		templates = append(templates, addF, addV)
	}
	if setF != "!" {
		vals := []string{setV1}
		if setV2 != "!" {
			vals = append(vals, setV2)
		}
		ops.Set = http.Header{setF: vals}
		templates = append(templates, setF)
		templates = append(templates, vals...)
	}
	for _, d := range []string{del1, del2} {
		if d != "!" {
			ops.Delete = append(ops.Delete, d)
			templates = append(templates, d)
		}
	}
	if repF != "!" {
		r := headers.Replacement{Replace: rrepl}
		switch kind {
		case "s":
			r.Search = ra
		case "a", "l":
			pat, okp := patText(kind, ra, rb)
			if !okp {
				return bad
			}
			r.SearchRegexp = pat
		default:
			return bad
		}
		ops.Replace = map[string][]headers.Replacement{repF: {r}}
		templates = append(templates, repF, r.Search, rrepl)
	} else if kind != "s" {
		return bad
	}
	h := headers.Handler{}
	if side == "q" {
		h.Request = ops
	} else {
		h.Response = &headers.RespHeaderOps{HeaderOps: ops}
	}
	o := core.Outcome{Tags: []string{"op:httphdr", "hdr-side:" + side}}
	if err := h.Provision(caddy.Context{}); err != nil {
		o.Impl = "err:provision"
		return o
	}
	if err := h.Validate(); err != nil {
		o.Impl = "err:validate"
		return o
	}
	os.Setenv(secretEnv, secret)
	defer os.Unsetenv(secretEnv)
	consFiles()
	req, _ := consRequest(xin, q, "/")
	initial := func() http.Header {
		return http.Header{"X-In": []string{xin}, "X-Fixed": []string{"fixed-abc"}, "X-Two": []string{"one", xin}}
	}
	rec := httptest.NewRecorder()
	if side == "q" {
		req.Header = initial()
	} else {
		for k, vs := range initial() {
			rec.Header()[k] = vs
		}
	}
	var after http.Header
	var host string
	panicked := func() (pv any) {
		defer func() { pv = recover() }()
		return h.ServeHTTP(rec, req, caddyhttp.HandlerFunc(func(w http.ResponseWriter, r *http.Request) error {
			if side == "q" {
				after, host = r.Header.Clone(), r.Host
			} else {
				after, host = w.Header().Clone(), r.Host
			}
			return nil
		}))
	}()
	if panicked != nil {
		o.Impl = "panic"
		return o
	}
	o.Impl = "ok " + dumpHeader(after) + " " + core.Hex(host)
	if strings.ContainsAny(xin+q, "{}") {
		o.Tags = append(o.Tags, "attacker-value-has-braces")
	}
	if repF != "!" {
		o.Tags = append(o.Tags, "hdr-replace:"+kind)
	}
	secretOracle(&o, "headers-expand-request-text", fmt.Sprintf("headers %s-side ops on X-In=%q q=%q", side, xin, q),
		dumpPlain(after)+"\x00"+host, secret, templates...)
	return o
}

func dumpPlain(h http.Header) string {
	var sb strings.Builder
	for k, vs := range h {
		sb.WriteString(k + "\x00" + strings.Join(vs, "\x00") + "\x00")
	}
	return sb.String()
}

// ---------------------------------------------------------------- rewrite modifiers
//
// httprwm <prefix> <suffix> <subFind> <subReplace> <subLimit> <a|l|-> <P> <S> <reReplace> <path> <rawQuery> <secret>
// strip_path_prefix, strip_path_suffix, one uri_substring entry, one path_regexp entry (empty = not
// configured) on a request with the given URL.Path (RawPath empty) and RawQuery.
// Answer: ok <Path> <RawPath> <RawQuery> afterwards.

var rwmOperands = []string{
	"", "", "/a", "a", "/A", "/a/", "b", "/x%2Fy", "%2f", "//", "/a//b", ".txt", "/{http.request.uri.query}", "{http.request.uri.path}",
	"{env.VERIF_C18_UNSET}", "{zz.unk}", "/a{zz.unk}", "{", "}", "q", "=", "{http.request.uri}",
}

var rwmReplacements = []string{
	"", "R", "/", "$1", "[$1]", "${1}x", "%7B", "%41", "%", "{http.request.uri.query}", "{env." + secretEnv + "}", "{zz.unk}", "{", "?", "%2F", "a",
}

var rwmPathPieces = []string{
	"/", "/", "a", "a", "b", "A", "x/y", "//", ".", "..", "/./", ".txt", "%", "%41", " ", "{env." + secretEnv + "}", "{http.request.uri.query}", "{", "}", "?", "q", "+", "x%2Fy", "%2f", "&", "=",
}

func genRwm(rng *core.Rand, emit func(string)) {
	cat := func(ps []string, max int) string {
		var sb strings.Builder
		for j := rng.Intn(max); j > 0; j-- {
			sb.WriteString(rng.Pick(ps))
		}
		return sb.String()
	}
	pre, suf, sf, sr, lim, kind, p, s, rr := "", "", "", "", 0, "-", "", "", ""
	if rng.Chance(1, 2) {
		pre = rng.Pick(rwmOperands)
	}
	if rng.Chance(1, 3) {
		suf = rng.Pick(rwmOperands)
	}
	if rng.Chance(1, 2) {
		sf, sr, lim = rng.Pick(rwmOperands), rng.Pick(rwmReplacements), []int{0, 0, 1, 2}[rng.Intn(4)]
	}
	if rng.Chance(1, 2) {
		kind = rng.Pick([]string{"a", "l"})
		if kind == "a" {
			p, s = rng.Pick([]string{"/a", "/", "", "/x"}), rng.Pick([]string{"", ".txt", "/", "}"})
		} else {
			p = rng.Pick([]string{"a", "/", "{", "}", "%", "//", "env"})
		}
		rr = rng.Pick(rwmReplacements)
	}
	path := "/" + cat(rwmPathPieces, 6)
	secret := rng.Pick([]string{"S3CR3T-ENV-9942", "S3CR3T-ENV-9942", "a&b=c d", ""})
	emit(fmt.Sprintf("httprwm %s %s %s %s %d %s %s %s %s %s %s %s", core.Hex(pre), core.Hex(suf), core.Hex(sf), core.Hex(sr), lim, kind,
		core.Hex(p), core.Hex(s), core.Hex(rr), core.Hex(path), core.Hex(cat(rwQueryPieces, 4)), core.Hex(secret)))
}

func runRwm(line string, f []string) core.Outcome {
	bad := core.Outcome{Impl: "bad-op"}
	v, ok := unhexAll(f, map[int]bool{0: true, 5: true, 6: true})
	if !ok || !isASCII(v...) {
		return bad
	}
	for _, x := range v {
		if x == "!" {
			return bad
		}
	}
	pre, suf, sf, sr, kind, p, s, rr, path, rawQuery, secret := v[1], v[2], v[3], v[4], v[6], v[7], v[8], v[9], v[10], v[11], v[12]
	lim, err := strconv.Atoi(f[5])
	if err != nil || lim < 0 || lim > 9 || strings.HasPrefix(f[5], "+") {
		return bad
	}
	cfg := map[string]any{}
	if pre != "" {
		cfg["strip_path_prefix"] = pre
	}
	if suf != "" {
		cfg["strip_path_suffix"] = suf
	}
	if sf != "" {
		cfg["uri_substring"] = []any{map[string]any{"find": sf, "replace": sr, "limit": lim}}
	}
	switch kind {
	case "-":
	case "a", "l":
		pat, okp := patText(kind, p, s)
		if !okp {
			return bad
		}
		cfg["path_regexp"] = []any{map[string]any{"find": pat, "replace": rr}}
	default:
		return bad
	}
	raw, _ := json.Marshal(cfg)
	var rw rewrite.Rewrite
	if err := json.Unmarshal(raw, &rw); err != nil {
		return core.Outcome{Impl: "err:config"}
	}
	o := core.Outcome{Tags: []string{"op:httprwm"}}
	if err := rw.Provision(caddy.Context{}); err != nil {
		o.Impl = "err:provision"
		return o
	}
	os.Setenv(secretEnv, secret)
	defer os.Unsetenv(secretEnv)
	consFiles()
	req := httptest.NewRequest("GET", "http://example.test/", nil)
	req.URL.Path, req.URL.RawPath, req.URL.RawQuery = path, "", rawQuery
	req.RequestURI = req.URL.RequestURI()
	ctx := context.WithValue(req.Context(), caddyhttp.VarsCtxKey, map[string]any{})
	req = req.WithContext(ctx)
	repl := caddyhttp.NewTestReplacer(req)
	panicked := func() (pv any) {
		defer func() { pv = recover() }()
		rw.Rewrite(req, repl)
		return nil
	}()
	if panicked != nil {
		o.Impl = "panic"
		return o
	}
	o.Impl = "ok " + core.Hex(req.URL.Path) + " " + core.Hex(req.URL.RawPath) + " " + core.Hex(req.URL.RawQuery)
	if strings.ContainsAny(path+rawQuery, "{}") {
		o.Tags = append(o.Tags, "attacker-value-has-braces")
	}
	for k := range cfg {
		o.Tags = append(o.Tags, "rwm:"+k)
	}
	if req.URL.Path != path || req.URL.RawQuery != rawQuery {
		o.Tags = append(o.Tags, "rwm:changed")
	}
	secretOracle(&o, "rewrite-expands-request-text", fmt.Sprintf("rewrite modifiers %s on path %q query %q", raw, path, rawQuery),
		req.URL.Path+"\x00"+req.URL.RawPath+"\x00"+req.URL.RawQuery, secret, pre, suf, sf, sr, rr)
	return o
}

// ---------------------------------------------------------------- a chain of consumers
//
// httpchain <varTmpl> <mapSource> <a|l> <P> <S> <reOut> <mapDefault> <hdrTmpl> <bodyTmpl> <X-In> <q> <secret>
// vars {v: varTmpl} → map (source, one regexp mapping → reOut, default; destination {m}) → headers (response
// set X-Out: hdrTmpl) → static_response (body). What one handler substituted is the next handler's DATA:
// {http.vars.v} and {m} carry request text through four expansions. Answer: ok <body> <X-Out>.

var chainTemplates = []string{
	"{http.vars.v}", "{http.vars.v}", "{m}", "{m}", "v={http.vars.v} m={m}", "{http.request.header.X-In}", "{http.request.uri.query.q}",
	"x{http.vars.v}", "x{http.request.uri.query.q}", "{m}|{http.vars.v}|{zz.unk}", "lit", "", "\\{m}", "{http.vars.v", "{file." + crlfFile + "}",
}

func genChain(rng *core.Rand, emit func(string)) {
	noM := func() string {
		for {
			t := rng.Pick(chainTemplates)
			if !strings.Contains(t, "{m}") {
				return t
			}
		}
	}
	kind := rng.Pick([]string{"a", "a", "l"})
	p, s := rng.Pick([]string{"x", "x", "", "{"}), rng.Pick([]string{"", "", "}"})
	if kind == "l" {
		p = rng.Pick([]string{"x", "{", "env"})
	}
	emit(fmt.Sprintf("httpchain %s %s %s %s %s %s %s %s %s %s %s %s", core.Hex(noM()), core.Hex(noM()), kind, core.Hex(p), core.Hex(s),
		core.Hex(rng.Pick([]string{"cap-${1}-end", "$1", "$0", "[${1}]{http.request.header.X-In}", "lit"})), core.Hex(noM()),
		core.Hex(rng.Pick(chainTemplates)), core.Hex(rng.Pick(chainTemplates)),
		core.Hex(rng.Pick(consAttacker)), core.Hex(rng.Pick(consAttacker)), core.Hex(rng.Pick([]string{"S3CR3T-ENV-9942", "S3CR3T-ENV-9942", ""}))))
}

func runChain(line string, f []string) core.Outcome {
	bad := core.Outcome{Impl: "bad-op"}
	v, ok := unhexAll(f, map[int]bool{0: true, 3: true})
	if !ok || !isASCII(v...) {
		return bad
	}
	for _, x := range v {
		if x == "!" {
			return bad
		}
	}
	varT, srcT, kind, p, s, reOut, defT, hdrT, bodyT, xin, q, secret := v[1], v[2], v[3], v[4], v[5], v[6], v[7], v[8], v[9], v[10], v[11], v[12]
	pat, okp := patText(kind, p, s)
	if !okp || strings.Contains(varT+"\x00"+srcT+"\x00"+defT, "{m}") {
		return bad
	}
	mh := maphandler.Handler{Source: srcT, Destinations: []string{"{m}"}, Defaults: []string{defT},
		Mappings: []maphandler.Mapping{{InputRegexp: pat, Outputs: []any{reOut}}}}
	hh := headers.Handler{Response: &headers.RespHeaderOps{HeaderOps: &headers.HeaderOps{Set: http.Header{"X-Out": []string{hdrT}}}}}
	o := core.Outcome{Tags: []string{"op:httpchain"}}
	if mh.Provision(caddy.Context{}) != nil || mh.Validate() != nil || hh.Provision(caddy.Context{}) != nil || hh.Validate() != nil {
		o.Impl = "err:provision"
		return o
	}
	os.Setenv(secretEnv, secret)
	defer os.Unsetenv(secretEnv)
	consFiles()
	req, _ := consRequest(xin, q, "/")
	rec := httptest.NewRecorder()
	vars := caddyhttp.VarsMiddleware{"v": varT}
	resp := caddyhttp.StaticResponse{Body: bodyT}
	var herr error
	panicked := func() (pv any) {
		defer func() { pv = recover() }()
		herr = vars.ServeHTTP(rec, req, caddyhttp.HandlerFunc(func(w http.ResponseWriter, r *http.Request) error {
			return mh.ServeHTTP(w, r, caddyhttp.HandlerFunc(func(w http.ResponseWriter, r *http.Request) error {
				return hh.ServeHTTP(w, r, caddyhttp.HandlerFunc(func(w http.ResponseWriter, r *http.Request) error {
					return resp.ServeHTTP(w, r, nextNop{})
				}))
			}))
		}))
		return nil
	}()
	if panicked != nil {
		o.Impl = "panic"
		return o
	}
	if herr != nil {
		o.Impl = "err:handler"
		return o
	}
	body, xout := rec.Body.String(), strings.Join(rec.Header()["X-Out"], "\x00")
	o.Impl = "ok " + core.Hex(body) + " " + core.Hex(xout)
	if strings.ContainsAny(xin+q, "{}") {
		o.Tags = append(o.Tags, "attacker-value-has-braces")
	}
	if strings.Contains(hdrT+bodyT, "{m}") && strings.Contains(srcT, "http.vars.v") {
		o.Tags = append(o.Tags, "chain:vars-map-out")
	}
	secretOracle(&o, "chain-expands-request-text", fmt.Sprintf("vars→map→headers→respond on X-In=%q q=%q", xin, q),
		body+"\x00"+xout, secret, varT, srcT, reOut, defT, hdrT, bodyT)
	return o
}
