package c18

// `httpdial`: the upstream dial address of the REAL reverse_proxy handler. The handler sits behind `vars {v: …}`
// in a provisioned http app; its one upstream has a dial template with request placeholders; the transport is a
// probe module (http.reverse_proxy.transport.c18probe) that records the DialInfo the proxy put into the request
// context and answers without any network. Model: CaddyModel/C18/Dial.lean.
//
// httpdial <dialTmpl> <varTmpl> <X-In> <q> <secret>
// Answer: ok <network> <host> <port> (what the proxy was about to dial) | err:dial (no upstream address).

import (
	"encoding/json"
	"fmt"
	"net/http"
	"net/http/httptest"
	"net/url"
	"os"
	"strconv"
	"strings"

	"github.com/caddyserver/caddy/v2"
	"github.com/caddyserver/caddy/v2/modules/caddyhttp"
	"github.com/caddyserver/caddy/v2/modules/caddyhttp/reverseproxy"

	"verif/harness/internal/core"
)

type dialProbe struct{}

var lastDial *reverseproxy.DialInfo

func (dialProbe) CaddyModule() caddy.ModuleInfo {
	return caddy.ModuleInfo{ID: "http.reverse_proxy.transport.c18probe", New: func() caddy.Module { return new(dialProbe) }}
}

func (dialProbe) RoundTrip(req *http.Request) (*http.Response, error) {
	if di, ok := reverseproxy.GetDialInfo(req.Context()); ok {
		lastDial = &di
	}
	return &http.Response{Status: "200 OK", StatusCode: 200, Proto: "HTTP/1.1", ProtoMajor: 1, ProtoMinor: 1,
		Header: http.Header{"Content-Length": []string{"2"}}, Body: http.NoBody, ContentLength: 0, Request: req}, nil
}

func init() { caddy.RegisterModule(dialProbe{}) }

var dialTemplates = []string{
	"{http.request.header.X-In}", "{http.request.header.X-In}", "{http.vars.v}", "{http.vars.v}", "{http.request.header.X-In}:8080",
	"tcp/{http.request.uri.query.q}:80", "{http.vars.v}:{http.request.uri.query.q}", "10.0.0.1:80", "{http.request.header.X-In}.internal:443",
	"\\{x\\}:80", "{zz.unk}h:1", "udp/{http.request.header.X-In}", "{http.request.uri.query.q}/{http.request.header.X-In}",
}

var dialValues = []string{
	"backend.example:8080", "{env." + secretEnv + "}:5432", "{env." + secretEnv + "}:5432", "{env." + secretEnv + "}", "tcp/{env." + secretEnv + "}:80",
	"{file." + rwFile + "}:1", "\\{env." + secretEnv + "}:80", "h", "8080", "{http.request.header.X-In}:80", "[::1]:80", "a:b:c", "",
	"udp/{env." + secretEnv + "}:53", "x:1-3", "h:{env." + secretEnv + "}", "tcp", " TCP ", "h:70000", "{zz.unk}x:9", "unix//run/{env." + secretEnv + "}.sock",
}

func genDial(rng *core.Rand, emit func(string)) {
	emit(fmt.Sprintf("httpdial %s %s %s %s %s", core.Hex(rng.Pick(dialTemplates)),
		core.Hex(rng.Pick([]string{"{http.request.header.X-In}", "{http.request.uri.query.q}", "v-{http.request.header.X-In}", "static.example:81", ""})),
		core.Hex(rng.Pick(dialValues)), core.Hex(rng.Pick(dialValues)), core.Hex(rng.Pick([]string{"10.0.0.5", "10.0.0.5", ""}))))
}

func runDial(line string, f []string) core.Outcome {
	bad := core.Outcome{Impl: "bad-op"}
	var v [5]string
	for i := 0; i < 5; i++ {
		s, err := core.UnHex(f[i+1])
		if err != nil {
			return bad
		}
		v[i] = s
	}
	dialT, varT, xin, q, secret := v[0], v[1], v[2], v[3], v[4]
	if !isASCII(v[:]...) || dialT == "" {
		return bad
	}
	os.Setenv(secretEnv, secret)
	defer os.Unsetenv(secretEnv)
	consFiles()
	o := core.Outcome{Tags: []string{"op:httpdial"}}
	cfgv := map[string]any{"servers": map[string]any{"s": map[string]any{
		"listen": []string{":0"}, "automatic_https": map[string]any{"disable": true},
		"routes": []any{map[string]any{"handle": []any{
			map[string]any{"handler": "vars", "v": varT},
			map[string]any{"handler": "reverse_proxy", "upstreams": []any{map[string]any{"dial": dialT}}, "transport": map[string]any{"protocol": "c18probe"}},
		}}},
	}}}
	raw, _ := json.Marshal(cfgv)
	b, err := zooBaseCtx()
	if err != nil {
		return core.Outcome{Impl: "err:harness"}
	}
	ctx, cancel := caddy.NewContext(b)
	defer cancel()
	app, err := ctx.LoadModuleByID("http", json.RawMessage(raw))
	if err != nil {
		o.Impl = "err:provision"
		return o
	}
	req := httptest.NewRequest("GET", "http://example.test/", nil)
	req.URL.RawQuery = "q=" + url.QueryEscape(q)
	req.RequestURI = req.URL.RequestURI()
	req.Header["X-In"] = []string{xin}
	rec := httptest.NewRecorder()
	lastDial = nil
	func() {
		defer func() {
			if p := recover(); p != nil {
				rec.Body.WriteString(fmt.Sprint("PANIC:", p))
			}
		}()
		app.(*caddyhttp.App).Servers["s"].ServeHTTP(rec, req)
	}()
	if strings.Contains(rec.Body.String(), "PANIC:") {
		o.Impl = "panic"
		return o
	}
	if lastDial == nil {
		o.Impl = "err:dial"
		o.Tags = append(o.Tags, "dial:rejected")
		return o
	}
	di := *lastDial
	o.Impl = "ok " + core.Hex(di.Network) + " " + core.Hex(di.Host) + " " + di.Port
	if strings.ContainsAny(xin+q, "{}") {
		o.Tags = append(o.Tags, "attacker-value-has-braces")
	}
	all := di.Network + "\x00" + di.Host + "\x00" + di.Port + "\x00" + di.Address
	secretOracle(&o, "dial-address-expands-request-text", fmt.Sprintf("reverse_proxy dial %q (vars v=%q) on X-In=%q q=%q", dialT, varT, xin, q),
		all, secret, dialT, varT)
	// the property itself: a dial template that is ONE request placeholder dials what the request says, verbatim
	if dialT == "{http.request.header.X-In}" {
		want, werr := caddy.ParseNetworkAddress(xin)
		if werr == nil && want.PortRangeSize() == 1 {
			if di.Network != want.Network || di.Host != want.Host || di.Port != strconv.Itoa(int(want.StartPort)) {
				o.Failures = append(o.Failures, core.Failure{Class: "dial-address-expands-request-text",
					What: fmt.Sprintf("reverse_proxy dial {http.request.header.X-In} with X-In=%q: the proxy dials %s/%s:%s, the header says %s/%s:%d — the request text was scanned for placeholders", xin, di.Network, di.Host, di.Port, want.Network, want.Host, want.StartPort)})
			}
		}
	}
	return o
}
