// Package c18: placeholder expansion (replacer.go) — correspondence cases and
// the impl-side oracle (two-run marker relation, lookups are input substrings).
package c18

import (
	"fmt"
	"sort"
	"strconv"
	"strings"
	"time"

	"github.com/caddyserver/caddy/v2"

	"verif/harness/internal/core"
)

type prop struct{}

func New() core.Prop { return prop{} }

func (prop) ID() string { return "C18" }

// Finish removes the private directories the streams created.
func (prop) Finish(*core.Session) { zooCleanup(); fcgiCleanup() }

var pieces = []string{
	"{", "}", "\\", "a", "b", "env.X", ".", " ", "{a}", "{b}", "{c}", "{unk}", "\\{", "\\}",
	"{a{b}", "{}", "{{", "}}", "{e1}", "{a\\}", "\\\\", "{env.X}", "x", "{a}{b}", "\\{a}", "{a\\}b}",
}

var keys = []string{"a", "b", "c", "a{b", "", "env.X", "e1", "a\\", "a\\}b", "{a"}

var vals = []string{
	"", "v", "{a}", "{b}", "{env.HOME}", "\\{", "}", "{", "{file./etc/passwd}", "x}y{z", "\\", "{c}", "w w",
}

type kv struct{ k, v string }

// modes of the cost / costf cases: orerr = ReplaceOrErr(false, true), orkeep = ReplaceOrErr(false, false)
var costModes = []string{"all", "known", "orerr", "orkeep"}

func envField(env []kv) string {
	if len(env) == 0 {
		return "."
	}
	var parts []string
	for _, e := range env {
		parts = append(parts, core.Hex(e.k)+":"+core.Hex(e.v))
	}
	return strings.Join(parts, ";")
}

func parseEnv(s string) ([]kv, error) {
	if s == "." {
		return nil, nil
	}
	var out []kv
	for _, p := range strings.Split(s, ";") {
		a := strings.Split(p, ":")
		if len(a) != 2 {
			return nil, fmt.Errorf("bad env")
		}
		k, err := core.UnHex(a[0])
		if err != nil {
			return nil, err
		}
		v, err := core.UnHex(a[1])
		if err != nil {
			return nil, err
		}
		out = append(out, kv{k, v})
	}
	return out, nil
}

func (prop) Generate(rng *core.Rand, tier string, emit func(string)) {
	n := 20000
	if tier == "thorough" {
		n = 400000
	} else if tier == "search" {
		n = 60000
	}
	emit("cost all 200000 4")
	// families on which every mode must stay linear (the unclosed-placeholder guard): '{'^n + tail
	for _, mode := range costModes {
		emit("costf " + mode + " 20000 4 " + core.Hex("{") + " " + core.Hex("\\}x"))
		emit("costf " + mode + " 20000 4 " + core.Hex("{") + " " + core.Hex("a"))
		emit("costf " + mode + " 20000 4 " + core.Hex("{a\\}") + " " + core.Hex("x"))
	}
	emit("cost orerr 200000 4")
	// the modes that KEEP unknown placeholders resume the scan behind the opener, inside the text the
	// search for the closing brace just walked over: nested openers must not search again (lastEnd).
	// Sizes are those at which the code without the remembered brace is clearly quadratic but finishes.
	for _, mode := range []string{"known", "orkeep"} {
		emit("cost " + mode + " 20000 4")
		emit("costf " + mode + " 20000 4 " + core.Hex("{a") + " " + core.Hex("}"))
		emit("costf " + mode + " 20000 4 " + core.Hex("{") + " " + core.Hex("\\}x}"))
		emit("costf " + mode + " 2000 4 " + core.Hex("{\\}") + " " + core.Hex("}"))
		emit("costf " + mode + " 2000 4 " + core.Hex("{a}{\\}") + " " + core.Hex("}"))
	}
	for c := 0; c < n/4; c++ {
		genHTTP(rng.Fork(), emit)
	}
	for c := 0; c < n/8; c++ {
		genMatcher(rng.Fork(), emit)
	}
	for c := 0; c < n/8; c++ {
		genHTTP2(rng.Fork(), emit)
	}
	for c := 0; c < n/20; c++ {
		genZoo(rng.Fork(), emit)
	}
	for c := 0; c < n/4; c++ {
		genRewrite(rng.Fork(), emit)
	}
	for c := 0; c < n/8; c++ {
		genMap(rng.Fork(), emit)
	}
	for c := 0; c < n/8; c++ {
		genHdr(rng.Fork(), emit)
	}
	for c := 0; c < n/8; c++ {
		genRwm(rng.Fork(), emit)
	}
	for c := 0; c < n/20; c++ {
		genHost(rng.Fork(), emit)
	}
	for c := 0; c < n/10; c++ {
		genChain(rng.Fork(), emit)
	}
	for c := 0; c < n/20; c++ {
		genTpl(rng.Fork(), emit)
	}
	for c := 0; c < n/20; c++ {
		genCfEnv(rng.Fork(), emit)
	}
	for c := 0; c < n/10; c++ {
		genDial(rng.Fork(), emit)
	}
	for c := 0; c < n/16; c++ {
		genFcgi(rng.Fork(), emit)
	}
	for c := 0; c < n; c++ {
		var sb strings.Builder
		np := rng.Intn(9)
		if rng.Chance(1, 20) {
			np = rng.Intn(40)
		}
		for j := 0; j < np; j++ {
			sb.WriteString(rng.Pick(pieces))
		}
		inp := sb.String()
		if rng.Chance(1, 200) {
			// many unclosed openers (the >100 guard)
			inp = strings.Repeat("{", 95+rng.Intn(12)) + inp
		}
		if rng.Chance(1, 100) {
			// the same guard reached through BOTH ways an opener can be found unclosed: no closer at
			// all, or only escaped closers (the inner loop's `continue scan`)
			unit := rng.Pick([]string{"{", "{", "{a", "{\\", "x{"})
			tail := rng.Pick([]string{"", "}", "\\}", "\\}x", "\\}x}", "a", "\\}\\}x", "\\}{a}", "\\}x{", "\\} \\}"})
			inp = strings.Repeat(unit, 96+rng.Intn(12)) + tail
		}
		var env []kv
		seen := map[string]bool{}
		for j := rng.Intn(5); j > 0; j-- {
			k := rng.Pick(keys)
			if seen[k] {
				continue
			}
			seen[k] = true
			env = append(env, kv{k, rng.Pick(vals)})
		}
		ef := envField(env)
		switch rng.Intn(4) {
		case 0:
			emit(fmt.Sprintf("all %s %s %s", core.Hex(inp), core.Hex(rng.Pick([]string{"", "", "E", "{a}"})), ef))
		case 1:
			emit(fmt.Sprintf("known %s %s %s", core.Hex(inp), core.Hex(rng.Pick([]string{"", "", "E", "{a}"})), ef))
		case 2:
			emit(fmt.Sprintf("orerr %s %d%d %s", core.Hex(inp), rng.Intn(2), rng.Intn(2), ef))
		case 3:
			emit(fmt.Sprintf("func %s %d %s", core.Hex(inp), rng.Intn(5), ef))
		}
	}
}

func harnessFunc(id int) caddy.ReplacementFunc {
	switch id {
	case 0:
		return func(_ string, v any) (any, error) { return v, nil }
	case 1:
		return func(_ string, v any) (any, error) {
			b := []byte(caddy.ToString(v))
			for i, c := range b {
				if c >= 'a' && c <= 'z' {
					b[i] = c - 32
				}
			}
			return string(b), nil
		}
	case 2:
		return func(_ string, v any) (any, error) { return "{" + caddy.ToString(v) + "}", nil }
	case 3:
		return func(k string, v any) (any, error) {
			if strings.HasPrefix(k, "e") {
				return nil, fmt.Errorf("func error")
			}
			return v, nil
		}
	case 4:
		return func(k string, _ any) (any, error) { return k, nil }
	}
	return nil
}

func errClass(err error) string {
	s := err.Error()
	switch {
	case strings.HasPrefix(s, "too many unclosed"):
		return "err:toomany"
	case strings.HasPrefix(s, "unrecognized placeholder"):
		return "err:unknown"
	case strings.HasPrefix(s, "evaluated placeholder"):
		return "err:empty"
	case s == "func error":
		return "err:func"
	}
	return "err:other"
}

// call runs one API call; lookups collects every key the replacer asked for.
func call(op, inp, arg string, env []kv, lookups *[]string) (out string, err error) {
	repl := caddy.NewEmptyReplacer()
	m := map[string]string{}
	for _, e := range env {
		m[e.k] = e.v
	}
	repl.Map(func(key string) (any, bool) {
		if lookups != nil {
			*lookups = append(*lookups, key)
		}
		v, ok := m[key]
		return v, ok
	})
	switch op {
	case "all":
		return repl.ReplaceAll(inp, arg), nil
	case "known":
		return repl.ReplaceKnown(inp, arg), nil
	case "orerr":
		return repl.ReplaceOrErr(inp, arg[0] == '1', arg[1] == '1')
	case "func":
		id, _ := strconv.Atoi(arg)
		return repl.ReplaceFunc(inp, harnessFunc(id))
	}
	return "", fmt.Errorf("bad op")
}

func render(out string, err error) string {
	if err != nil {
		return errClass(err)
	}
	return "ok " + core.Hex(out)
}

func (prop) Run(line string) core.Outcome {
	f := strings.Fields(line)
	if len(f) == 4 && f[0] == "cost" {
		return runCost(line, f, "{", "}")
	}
	if len(f) == 6 && f[0] == "costf" {
		unit, e1 := core.UnHex(f[4])
		tail, e2 := core.UnHex(f[5])
		if e1 != nil || e2 != nil || unit == "" {
			return core.Outcome{Impl: "bad-op"}
		}
		return runCost(line, f, unit, tail)
	}
	if len(f) == 8 && f[0] == "http" {
		return runHTTP(line, f)
	}
	if len(f) == 4 && f[0] == "zoo" {
		return runZoo(line, f)
	}
	if len(f) == 9 && f[0] == "http2" {
		return runHTTP2(line, f)
	}
	if len(f) == 5 && f[0] == "httprw" {
		return runRewrite(line, f)
	}
	if len(f) == 10 && f[0] == "fcgi" {
		return runFcgi(line, f)
	}
	if len(f) == 6 && f[0] == "httpdial" {
		return runDial(line, f)
	}
	if len(f) == 5 && f[0] == "cfenv" {
		return runCfEnv(line, f)
	}
	if len(f) == 5 && f[0] == "httptpl" {
		return runTpl(line, f)
	}
	if len(f) == 8 && f[0] == "httphost" {
		return runHost(line, f)
	}
	if len(f) == 13 && f[0] == "httpchain" {
		return runChain(line, f)
	}
	if len(f) == 13 && f[0] == "httprwm" {
		return runRwm(line, f)
	}
	if len(f) == 17 && f[0] == "httphdr" {
		return runHdr(line, f)
	}
	if len(f) == 17 && f[0] == "httpmap" {
		return runMap(line, f)
	}
	if len(f) == 7 && f[0] == "httpm" {
		return runMatcher(line, f)
	}
	if len(f) != 4 {
		return core.Outcome{Impl: "bad-op"}
	}
	op := f[0]
	inp, e1 := core.UnHex(f[1])
	env, e3 := parseEnv(f[3])
	arg := f[2]
	if op == "all" || op == "known" {
		var e2 error
		arg, e2 = core.UnHex(f[2])
		if e2 != nil {
			return core.Outcome{Impl: "bad-op"}
		}
	}
	if e1 != nil || e3 != nil {
		return core.Outcome{Impl: "bad-op"}
	}
	var lookups []string
	out, err := call(op, inp, arg, env, &lookups)
	o := core.Outcome{Impl: render(out, err)}

	// ---- tags
	o.Tags = append(o.Tags, "op:"+op)
	if !strings.ContainsAny(inp, "{}") {
		o.Tags = append(o.Tags, "trivial")
	}
	if err != nil {
		o.Tags = append(o.Tags, errClass(err))
	}
	if len(lookups) > 0 {
		o.Tags = append(o.Tags, "lookups>0")
	}
	hitBrace := false
	for _, e := range env {
		if strings.ContainsAny(e.v, "{}") {
			for _, k := range lookups {
				if k == e.k {
					hitBrace = true
				}
			}
		}
	}
	if hitBrace {
		o.Tags = append(o.Tags, "substituted-value-has-braces")
	}

	// ---- oracle 1: every lookup key is a literal substring of the input
	for _, k := range lookups {
		if !strings.Contains(inp, "{"+k+"}") {
			o.Failures = append(o.Failures, core.Failure{Class: "lookup-not-in-input",
				What: fmt.Sprintf("replacer looked up key %q which is not a placeholder of the input %q", k, inp)})
			break
		}
	}
	// ---- oracle 2 (two-run relation): substituted text is never re-scanned.
	// Re-bind every non-empty value to an opaque marker without braces/backslashes;
	// the marker run's output with markers expanded must equal the real output.
	if op != "func" || arg == "0" {
		var menv []kv
		var pairs []string
		for i, e := range env {
			if e.v == "" {
				menv = append(menv, e)
				continue
			}
			mk := "\x01" + string(rune('A'+i)) + "\x02"
			menv = append(menv, kv{e.k, mk})
			pairs = append(pairs, mk, e.v)
		}
		marg := arg
		if (op == "all" || op == "known") && arg != "" {
			marg = "\x01Z\x02"
			pairs = append(pairs, marg, arg)
		}
		mout, merr := call(op, inp, marg, menv, nil)
		exp := strings.NewReplacer(pairs...).Replace(mout)
		if (err == nil) != (merr == nil) || (err == nil && exp != out) {
			o.Failures = append(o.Failures, core.Failure{Class: "value-rescanned",
				What: fmt.Sprintf("output depends on the syntax of substituted values: got %q, marker run gives %q", out, exp)})
		}
	}
	// ---- oracle 3: no braces ⇒ identity
	if !strings.ContainsAny(inp, "{}") && (err != nil || out != inp) {
		o.Failures = append(o.Failures, core.Failure{Class: "no-brace-input-changed", What: fmt.Sprintf("%q -> %q", inp, out)})
	}
	return o
}

// cost <mode> <n> <mult>: time the family "{"^n + "}" (costf: unit^n + tail) at n and mult*n.
func runCost(line string, f []string, unit, tail string) core.Outcome {
	n, _ := strconv.Atoi(f[2])
	mult, _ := strconv.Atoi(f[3])
	okMode := false
	for _, m := range costModes {
		okMode = okMode || m == f[1]
	}
	if !okMode || n <= 0 || mult <= 1 || n*mult*len(unit) > 4000000 {
		return core.Outcome{Impl: "bad-op"}
	}
	// one measurement = best of 3 runs; a run that does not finish within 2 s is abandoned (its
	// goroutine is left to finish in the background) and reported as 2 s — far beyond linear here
	measure := func(k int) time.Duration {
		inp := strings.Repeat(unit, k) + tail
		var ds []time.Duration
		for r := 0; r < 3; r++ {
			done := make(chan time.Duration, 1)
			go func() {
				t0 := time.Now()
				switch f[1] {
				case "known":
					call("known", inp, "", nil, nil)
				case "all":
					call("all", inp, "", nil, nil)
				case "orerr":
					call("orerr", inp, "01", nil, nil)
				case "orkeep":
					call("orerr", inp, "00", nil, nil)
				}
				done <- time.Since(t0)
			}()
			select {
			case d := <-done:
				ds = append(ds, d)
			case <-time.After(2 * time.Second):
				return 2 * time.Second
			}
		}
		sort.Slice(ds, func(i, j int) bool { return ds[i] < ds[j] })
		return ds[0]
	}
	t1, t2 := measure(n), measure(n*mult)
	o := core.Outcome{Impl: "cost", Tags: []string{"cost:" + f[1]}}
	// quadratic growth would give mult^2; linear gives mult. Flag only clear cases.
	if t2 > 40*time.Millisecond && float64(t2) > float64(t1)*float64(mult)*2 {
		cls := "superlinear-cost:" + f[1]
		if f[0] == "costf" {
			cls = "superlinear-cost-family:" + f[1]
		}
		o.Failures = append(o.Failures, core.Failure{Class: cls,
			What: fmt.Sprintf("%s on "+strconv.Quote(unit)+"^n+"+strconv.Quote(tail)+" took %v for n=%d and %v for n=%d (x%d input, x%.1f time)",
				f[1], t1, n, t2, n*mult, mult, float64(t2)/float64(t1))})
	}
	return o
}
