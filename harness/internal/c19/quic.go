package c19

// The glue that FEEDS the first-match algorithm over HTTP/3: one QUIC (UDP) listener survives config
// reloads; caddy's sharedQUICState forwards every QUIC ClientHello to the GetConfigForClient of the
// tls.Config it considers active. The `quic` op drives the REAL caddy.NetworkAddress.ListenQUIC /
// listener Close through a reload history and asks, with real QUIC handshakes on 127.0.0.1, which
// config's GetConfigForClient answers.
//
//	quic <ops>     ops = comma-separated: o<k> open a listener with config k (1..9; what a starting
//	               server does), c<k> close it (what a stopping server does), p probe
//	  answer: one token per probe: a<k> (config k's GetConfigForClient answered) | a- (no handshake)

import (
	"context"
	"crypto/tls"
	"fmt"
	"net"
	"strconv"
	"strings"
	"sync/atomic"
	"time"

	"github.com/caddyserver/caddy/v2"
	"github.com/quic-go/quic-go"

	"verif/harness/internal/core"
)

type quicOp struct {
	kind byte // 'o', 'c', 'p'
	k    int
}

func parseQuicOps(s string) ([]quicOp, bool) {
	var ops []quicOp
	for _, t := range strings.Split(s, ",") {
		switch {
		case t == "p":
			ops = append(ops, quicOp{'p', 0})
		case len(t) == 2 && (t[0] == 'o' || t[0] == 'c') && t[1] >= '1' && t[1] <= '9':
			ops = append(ops, quicOp{t[0], int(t[1] - '0')})
		default:
			return nil, false
		}
	}
	return ops, true
}

// quicProtocolOK: the histories the protocol admits — a config is opened at most once at a time and
// never re-opened after its close, only open listeners are closed, and at most two configs are
// registered at any time (the invariant the code documents; with more, the successor of a removed
// active config depends on Go's map iteration order).
func quicProtocolOK(ops []quicOp) bool {
	open := map[int]bool{}
	used := map[int]bool{}
	for _, op := range ops {
		switch op.kind {
		case 'o':
			if used[op.k] {
				return false
			}
			used[op.k] = true
			open[op.k] = true
			if len(open) > 2 {
				return false
			}
		case 'c':
			if !open[op.k] {
				return false
			}
			delete(open, op.k)
		}
	}
	return true
}

func (p *prop) runQUIC(f []string) core.Outcome {
	ops, ok := parseQuicOps(f[1])
	if !ok || !quicProtocolOK(ops) {
		return core.Outcome{Impl: "bad-op"}
	}
	var o core.Outcome
	tag := func(t string) { o.Tags = append(o.Tags, t) }
	fail := func(class, what string) {
		o.Failures = append(o.Failures, core.Failure{Class: class, What: what})
	}
	tag("quic")
	// a private UDP port on the loopback interface
	pc, err := net.ListenPacket("udp", "127.0.0.1:0")
	if err != nil {
		return core.Outcome{Impl: "harness-no-udp-port"}
	}
	port := pc.LocalAddr().(*net.UDPAddr).Port
	pc.Close()
	na, err := caddy.ParseNetworkAddress("udp/127.0.0.1:" + strconv.Itoa(port))
	if err != nil {
		return core.Outcome{Impl: "harness-bad-address"}
	}
	var answered atomic.Int32
	cert := p.e2eCert
	listeners := map[int]interface{ Close() error }{}
	defer func() {
		for _, l := range listeners {
			l.Close()
		}
	}()
	var out []string
	open := map[int]bool{}
	newest := 0
	for _, op := range ops {
		switch op.kind {
		case 'o':
			k := op.k
			cfg := &tls.Config{GetConfigForClient: func(*tls.ClientHelloInfo) (*tls.Config, error) {
				answered.Store(int32(k))
				return &tls.Config{Certificates: []tls.Certificate{cert}, NextProtos: []string{"h3"}, MinVersion: tls.VersionTLS13}, nil
			}}
			ln, err := na.ListenQUIC(context.Background(), 0, net.ListenConfig{}, cfg)
			if err != nil {
				return core.Outcome{Impl: "listen-error", Failures: []core.Failure{{Class: "harness-quic-listen-error", What: err.Error()}}}
			}
			listeners[k] = ln
			open[k] = true
			newest = k
		case 'c':
			listeners[op.k].Close()
			delete(listeners, op.k)
			delete(open, op.k)
		case 'p':
			answered.Store(0)
			timeout := 1500 * time.Millisecond
			if len(open) == 0 {
				timeout = 120 * time.Millisecond // nobody listens: the dial can only time out
			}
			ctx, cancel := context.WithTimeout(context.Background(), timeout)
			conn, err := quic.DialAddr(ctx, "127.0.0.1:"+strconv.Itoa(port), &tls.Config{InsecureSkipVerify: true, NextProtos: []string{"h3"}, ServerName: "probe.test"}, &quic.Config{})
			cancel()
			if err == nil {
				conn.CloseWithError(0, "")
			}
			k := int(answered.Load())
			if k == 0 {
				out = append(out, "a-")
				tag("quic:no-handshake")
				if len(open) > 0 {
					fail("quic-no-handshake-although-listening", fmt.Sprintf("history %s: a listener is open but the QUIC handshake did not reach any config (%v)", f[1], err))
				}
				continue
			}
			out = append(out, "a"+strconv.Itoa(k))
			// ---- oracle: the policy list consulted over QUIC is that of a config whose server is
			// still running — after a completed reload (exactly one left) the current config's
			if !open[k] {
				fail("quic-hello-answered-by-closed-config", fmt.Sprintf("history %s: a QUIC ClientHello was matched against the connection policies of config %d, whose listener has been closed; running: %v (newest %d)", f[1], k, keys(open), newest))
			} else if len(open) == 1 {
				tag("quic:probe-after-completed-reload")
			} else {
				tag("quic:probe-during-reload")
			}
		}
	}
	if len(out) == 0 {
		out = []string{"-"}
		tag("trivial")
	}
	o.Impl = strings.Join(out, " ")
	return o
}

func keys(m map[int]bool) []int {
	var ks []int
	for k := 1; k <= 9; k++ {
		if m[k] {
			ks = append(ks, k)
		}
	}
	return ks
}
