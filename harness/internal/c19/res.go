package c19

// TLS session resumption ACROSS connection policies. The tls app is configured with session_tickets,
// so all policies of the server share the session ticket keys (STEK): a ticket issued under one
// policy decrypts under every other. crypto/tls does not re-verify a resumed session's client
// certificate against the ClientCAs of the config it resumes on and does not call
// VerifyPeerCertificate on resumption, so whether a client that authenticated to site A can ride its
// ticket into site B (other CA, other verifier) is decided by caddy alone: buildStandardTLSConfig
// switches session tickets off for every policy that has a client_authentication block.
//
//	res <first> <second>    first, second ∈ a (policy sni a.test, client auth with CA 1),
//	                        b (sni b.test, client auth with CA 2), c (the catch-all policy, no client auth).
//	    One client holding a certificate issued by CA 1 and ONE session cache slot for all names:
//	    a real handshake under <first>, then a real handshake under <second> offering whatever
//	    session the first one left.
//	  answer: h1=<ok|f> h2=<ok|f> resumed=<0|1>

import (
	"crypto/ecdsa"
	"crypto/elliptic"
	"crypto/rand"
	"crypto/tls"
	"crypto/x509"
	"crypto/x509/pkix"
	"encoding/base64"
	"encoding/json"
	"encoding/pem"
	"fmt"
	"math/big"
	"net"
	"time"

	"github.com/caddyserver/caddy/v2"
	"github.com/caddyserver/caddy/v2/modules/caddyhttp"
	_ "github.com/caddyserver/caddy/v2/modules/caddytls/standardstek"

	"verif/harness/internal/core"
)

type resEnv struct {
	ready   bool
	err     error
	tlsCfg  *tls.Config
	cliCert tls.Certificate
	ln      net.Listener
}

// oneSlotCache: a client session cache that offers the last session it was given under ANY name
type oneSlotCache struct{ s *tls.ClientSessionState }

func (c *oneSlotCache) Get(string) (*tls.ClientSessionState, bool) { return c.s, c.s != nil }
func (c *oneSlotCache) Put(_ string, s *tls.ClientSessionState) {
	if s != nil {
		c.s = s
	}
}

func mkCA(cn string) (*x509.Certificate, *ecdsa.PrivateKey, []byte, error) {
	key, err := ecdsa.GenerateKey(elliptic.P256(), rand.Reader)
	if err != nil {
		return nil, nil, nil, err
	}
	tmpl := &x509.Certificate{SerialNumber: big.NewInt(11), Subject: pkix.Name{CommonName: cn},
		NotBefore: time.Now().Add(-time.Hour), NotAfter: time.Now().Add(72 * time.Hour), IsCA: true,
		BasicConstraintsValid: true, KeyUsage: x509.KeyUsageCertSign | x509.KeyUsageDigitalSignature}
	der, err := x509.CreateCertificate(rand.Reader, tmpl, tmpl, &key.PublicKey, key)
	if err != nil {
		return nil, nil, nil, err
	}
	c, err := x509.ParseCertificate(der)
	return c, key, der, err
}

func (p *prop) setupRes() error {
	if p.res.ready {
		return p.res.err
	}
	p.res.ready = true
	p.res.err = func() error {
		ca1, ca1Key, ca1DER, err := mkCA("c19 client CA 1")
		if err != nil {
			return err
		}
		_, _, ca2DER, err := mkCA("c19 client CA 2")
		if err != nil {
			return err
		}
		// the client's certificate, issued by CA 1
		ck, err := ecdsa.GenerateKey(elliptic.P256(), rand.Reader)
		if err != nil {
			return err
		}
		ct := &x509.Certificate{SerialNumber: big.NewInt(12), Subject: pkix.Name{CommonName: "c19 client"},
			NotBefore: time.Now().Add(-time.Hour), NotAfter: time.Now().Add(72 * time.Hour),
			KeyUsage: x509.KeyUsageDigitalSignature, ExtKeyUsage: []x509.ExtKeyUsage{x509.ExtKeyUsageClientAuth}}
		cder, err := x509.CreateCertificate(rand.Reader, ct, ca1, &ck.PublicKey, ca1Key)
		if err != nil {
			return err
		}
		p.res.cliCert = tls.Certificate{Certificate: [][]byte{cder}, PrivateKey: ck}
		// server certificates
		var loads []any
		for _, n := range []string{"a.test", "b.test", "public.test"} {
			c, k, err := selfSigned(n)
			if err != nil {
				return err
			}
			loads = append(loads, map[string]any{"certificate": c, "key": k})
		}
		_ = pem.Decode
		tlsRaw, _ := json.Marshal(map[string]any{
			"certificates":    map[string]any{"load_pem": loads},
			"session_tickets": map[string]any{}, // shared, rotated session ticket keys for every policy
		})
		cfg := &caddy.Config{Logging: &caddy.Logging{Logs: map[string]*caddy.CustomLog{
			"default": {BaseLog: caddy.BaseLog{WriterRaw: json.RawMessage(`{"output":"discard"}`)}},
		}}, AppsRaw: caddy.ModuleMap{"tls": tlsRaw}}
		ctx, err := caddy.ProvisionContext(cfg)
		if err != nil {
			return err
		}
		b64 := func(der []byte) string { return base64.StdEncoding.EncodeToString(der) }
		pols := []any{
			map[string]any{"match": map[string]any{"sni": []string{"a.test"}}, "client_authentication": map[string]any{"trusted_ca_certs": []string{b64(ca1DER)}}},
			map[string]any{"match": map[string]any{"sni": []string{"b.test"}}, "client_authentication": map[string]any{"trusted_ca_certs": []string{b64(ca2DER)}}},
			map[string]any{"fallback_sni": "public.test"},
		}
		raw, _ := json.Marshal(map[string]any{"servers": map[string]any{"s": map[string]any{
			"listen": []string{":443"}, "automatic_https": map[string]any{"disable": true},
			"tls_connection_policies": pols}}})
		v, err := ctx.LoadModuleByID("http", raw)
		if err != nil {
			return err
		}
		p.res.tlsCfg = v.(*caddyhttp.App).Servers["s"].TLSConnPolicies.TLSConfig(ctx)
		p.res.ln, err = net.Listen("tcp", "127.0.0.1:0")
		return err
	}()
	return p.res.err
}

var debugRes = false

var resNames = map[string]string{"a": "a.test", "b": "b.test", "c": "public.test"}

// resHandshake: one real handshake over an in-memory pipe; the server writes one byte after it so
// that the client reads the session ticket that follows a TLS 1.3 handshake.
func (p *prop) resHandshake(sni string, cache tls.ClientSessionCache) (ok, resumed bool) {
	// a loopback TCP connection (buffered; net.Pipe's synchronous writes can deadlock when both
	// ends write, as happens around the post-handshake session ticket)
	c1, err0 := net.Dial("tcp", p.res.ln.Addr().String())
	if err0 != nil {
		return false, false
	}
	c2, err0 := p.res.ln.Accept()
	if err0 != nil {
		c1.Close()
		return false, false
	}
	dl := time.Now().Add(3 * time.Second)
	c1.SetDeadline(dl)
	c2.SetDeadline(dl)
	cli := tls.Client(c1, &tls.Config{ServerName: sni, InsecureSkipVerify: true, ClientSessionCache: cache,
		Certificates: []tls.Certificate{p.res.cliCert}})
	srv := tls.Server(c2, p.res.tlsCfg)
	done := make(chan struct{})
	go func() {
		defer close(done)
		if cli.Handshake() == nil {
			buf := make([]byte, 1)
			cli.Read(buf) // the server's verdict on the client certificate, the ticket, the byte
		}
	}()
	err := srv.Handshake()
	if err != nil && debugRes {
		fmt.Println("res handshake", sni, "error:", err)
	}
	if err == nil {
		resumed = srv.ConnectionState().DidResume
		srv.Write([]byte{'x'})
	}
	<-done
	c2.Close()
	c1.Close()
	return err == nil, resumed
}

func (p *prop) runRes(f []string) core.Outcome {
	first, ok1 := resNames[f[1]]
	second, ok2 := resNames[f[2]]
	if !ok1 || !ok2 {
		return core.Outcome{Impl: "bad-op"}
	}
	if err := p.setupRes(); err != nil {
		return core.Outcome{Impl: "harness-res-setup-failed", Failures: []core.Failure{{Class: "harness-setup-failed", What: err.Error()}}}
	}
	var o core.Outcome
	o.Tags = append(o.Tags, "res", "res:"+f[1]+"->"+f[2])
	cache := &oneSlotCache{}
	h1, _ := p.resHandshake(first, cache)
	h2, resumed := p.resHandshake(second, cache)
	s := func(b bool) string {
		if b {
			return "ok"
		}
		return "f"
	}
	o.Impl = fmt.Sprintf("h1=%s h2=%s resumed=%s", s(h1), s(h2), b01(resumed))
	if resumed {
		o.Tags = append(o.Tags, "res:resumed")
	}
	// ---- the property: a connection policy with client authentication is not reached on the
	// strength of a session established under another policy
	if resumed && f[1] != f[2] && f[2] != "c" {
		o.Failures = append(o.Failures, core.Failure{Class: "client-auth-policy-resumed-from-other-policy",
			What: fmt.Sprintf("a session established under %s was resumed under %s: the client-auth policy of %s accepted the connection without verifying a client certificate against ITS trust settings", first, second, second)})
	}
	if h2 && f[2] == "b" {
		o.Failures = append(o.Failures, core.Failure{Class: "client-auth-policy-accepts-foreign-certificate",
			What: fmt.Sprintf("after a handshake under %s, a handshake under b.test (client auth with CA 2) completed for a client whose certificate is issued by CA 1 (resumed=%v)", first, resumed)})
	}
	return o
}
