package c19

// The strict SNI-Host check is PER REQUEST: the SNI is fixed by the handshake, but Host (:authority) is
// chosen by the client for every request of a connection. The `conn` op is ONE real connection (TLS over
// TCP with HTTP/1.1 keep-alive, HTTP/2 streams, or a QUIC connection with HTTP/3) to a real caddy http
// app started with App.Start (real listeners, net/http's ConnContext/BaseContext, the h2 and h3 servers)
// carrying a SEQUENCE of requests; the observable is the verdict per request.
//
//	conn <srv> <proto> <hs> <sniHex> <hostHex>,<hostHex>,…        1–8 requests
//	    srv a: policies [sni secret.test + client auth require, catch-all (fallback_sni public.test)],
//	           routes secret.test, public.test, catch-all; strict_sni_host unset (⇒ on by default)
//	    srv b: policies [catch-all], routes secret.test, catch-all; strict_sni_host unset (⇒ off)
//	    srv c: policies [catch-all], routes secret.test, public.test, catch-all; strict_sni_host true
//	    proto h1 | h2 | h3; hs = f | ok as observed; Host over [A-Za-z0-9.:-], empty (`-`) with h1 only
//	  answer: hs=f | hs=ok strict=<0|1> <v1> <v2> …     v = in:k | in:* | 421 | s<code> | x (no response)

import (
	"bufio"
	"context"
	"crypto/tls"
	"encoding/json"
	"fmt"
	"net"
	"net/http"
	"net/url"
	"strconv"
	"strings"
	"time"

	"github.com/caddyserver/caddy/v2/modules/caddyhttp"
	"github.com/quic-go/quic-go"
	"github.com/quic-go/quic-go/http3"
	"golang.org/x/net/http2"

	"verif/harness/internal/core"
)

type connEnv struct {
	ready bool
	err   error
	app   *caddyhttp.App
	port  map[string]int
}

// freeDualPort: a port number free for TCP and for UDP on 127.0.0.1 (HTTP/3 listens on the same number)
func freeDualPort() (int, error) {
	for try := 0; try < 50; try++ {
		port, err := freeTCPPort()
		if err != nil {
			return 0, err
		}
		pc, err := net.ListenPacket("udp", "127.0.0.1:"+strconv.Itoa(port))
		if err != nil {
			continue
		}
		pc.Close()
		return port, nil
	}
	return 0, fmt.Errorf("no port free for both tcp and udp")
}

var connSrvSites = map[string][]string{"a": e2eSites, "b": {"secret.test"}, "c": e2eSites}

func (p *prop) setupConn() error {
	if p.conn.ready {
		return p.conn.err
	}
	p.conn.ready = true
	p.conn.err = func() error {
		p.conn.port = map[string]int{}
		servers := map[string]any{}
		for _, name := range []string{"a", "b", "c"} {
			port, err := freeDualPort()
			if err != nil {
				return err
			}
			p.conn.port[name] = port
			var pols []any
			if name == "a" {
				pols = append(pols, map[string]any{"match": map[string]any{"sni": []string{"secret.test"}},
					"client_authentication": map[string]any{"mode": "require"}})
			}
			pols = append(pols, map[string]any{"fallback_sni": "public.test"})
			var routes []any
			for i, s := range connSrvSites[name] {
				routes = append(routes, map[string]any{
					"match":    []any{map[string]any{"host": []string{s}}},
					"handle":   []any{map[string]any{"handler": "verif_c19_probe", "site": strconv.Itoa(i)}},
					"terminal": true,
				})
			}
			routes = append(routes, map[string]any{"handle": []any{map[string]any{"handler": "verif_c19_probe", "site": "*"}}})
			srv := map[string]any{
				"listen":    []string{"127.0.0.1:" + strconv.Itoa(port)},
				"protocols": []string{"h1", "h2", "h3"}, "automatic_https": map[string]any{"disable": true},
				"routes": routes, "tls_connection_policies": pols}
			if name == "c" {
				srv["strict_sni_host"] = true
			}
			servers[name] = srv
		}
		raw, _ := json.Marshal(map[string]any{"servers": servers, "https_port": p.conn.port["a"], "http_port": 1})
		v, err := p.ctx.LoadModuleByID("http", raw)
		if err != nil {
			return err
		}
		p.conn.app = v.(*caddyhttp.App)
		return p.conn.app.Start()
	}()
	return p.conn.err
}

func verdictOf(resp *http.Response) string {
	site := resp.Header.Get("X-C19-Site")
	switch {
	case resp.StatusCode == 200 && site != "":
		return "in:" + site
	case resp.StatusCode == http.StatusMisdirectedRequest:
		return "421"
	}
	return "s" + strconv.Itoa(resp.StatusCode)
}

// connRequests: ONE real connection to server srv under the given SNI (no client certificate) and the
// requests, in order, on it. hs "f" if the handshake fails (with TLS 1.3 a refused client learns it on
// its first read). A request without a response is "x" (and so are all later ones of a dead connection).
func (p *prop) connRequests(srv, proto, sni string, hosts []string) (hs string, res []string) {
	addr := "127.0.0.1:" + strconv.Itoa(p.conn.port[srv])
	res = make([]string, len(hosts))
	for i := range res {
		res[i] = "x"
	}
	mkReq := func(ctx context.Context, host string) *http.Request {
		r, _ := http.NewRequestWithContext(ctx, "GET", "https://"+addr+"/", nil)
		r.URL = &url.URL{Scheme: "https", Host: addr, Path: "/"}
		r.Host = host
		return r
	}
	ctx, cancel := context.WithTimeout(context.Background(), 6*time.Second)
	defer cancel()
	var rt func(*http.Request) (*http.Response, error)
	switch proto {
	case "h1":
		d := &net.Dialer{Timeout: 2 * time.Second}
		c, err := tls.DialWithDialer(d, "tcp", addr, &tls.Config{ServerName: sni, InsecureSkipVerify: true, NextProtos: []string{"http/1.1"}})
		if err != nil {
			return "f", res
		}
		defer c.Close()
		c.SetDeadline(time.Now().Add(5 * time.Second))
		br := bufio.NewReader(c)
		dead := false
		for i, h := range hosts {
			if dead {
				break
			}
			// keep-alive: no Connection header; an empty Host field is a valid HTTP/1.1 request
			if _, err := fmt.Fprintf(c, "GET / HTTP/1.1\r\nHost: %s\r\n\r\n", h); err != nil {
				dead = true
				break
			}
			resp, err := http.ReadResponse(br, nil)
			if err != nil {
				if i == 0 {
					return "f", res
				}
				dead = true
				break
			}
			// drain the body so that the next response starts at the reader's position
			var buf [512]byte
			for {
				if _, e := resp.Body.Read(buf[:]); e != nil {
					break
				}
			}
			resp.Body.Close()
			res[i] = verdictOf(resp)
		}
		return "ok", res
	case "h2":
		d := &net.Dialer{Timeout: 2 * time.Second}
		c, err := tls.DialWithDialer(d, "tcp", addr, &tls.Config{ServerName: sni, InsecureSkipVerify: true, NextProtos: []string{"h2"}})
		if err != nil {
			return "f", res
		}
		defer c.Close()
		if c.ConnectionState().NegotiatedProtocol != "h2" {
			return "f", res
		}
		c.SetDeadline(time.Now().Add(5 * time.Second))
		cc, err := (&http2.Transport{}).NewClientConn(c)
		if err != nil {
			return "f", res
		}
		defer cc.Close()
		rt = cc.RoundTrip
	case "h3":
		qc, err := quic.DialAddr(ctx, addr, &tls.Config{ServerName: sni, InsecureSkipVerify: true, NextProtos: []string{"h3"}},
			&quic.Config{HandshakeIdleTimeout: 2 * time.Second, MaxIdleTimeout: 5 * time.Second})
		if err != nil {
			return "f", res
		}
		defer qc.CloseWithError(0, "")
		tr := &http3.Transport{}
		defer tr.Close()
		rt = tr.NewClientConn(qc).RoundTrip
	default:
		return "f", res
	}
	for i, h := range hosts {
		resp, err := rt(mkReq(ctx, h))
		if err != nil {
			if i == 0 {
				return "f", res
			}
			break
		}
		resp.Body.Close()
		res[i] = verdictOf(resp)
	}
	return "ok", res
}

func connHostOK(h, proto string) bool {
	if h == "" {
		return proto == "h1" // Go's h2/h3 clients cannot send an empty :authority
	}
	return fullHostOK(h)
}

// refStrictPass: the property's reading of "Host names the host of the SNI" — independent of the code
// under test: port stripped by the standard library, ASCII case-insensitive comparison
func refStrictPass(sni, host string) bool {
	hn, _, err := net.SplitHostPort(host)
	if err != nil {
		hn = host
	}
	return isASCII(sni) && foldEq(sni, hn)
}

func (p *prop) runConn(f []string) core.Outcome {
	bad := core.Outcome{Impl: "bad-op"}
	srv, proto := f[1], f[2]
	if _, ok := connSrvSites[srv]; !ok || (proto != "h1" && proto != "h2" && proto != "h3") || (f[3] != "f" && f[3] != "ok") {
		return bad
	}
	sni, e1 := core.UnHex(f[4])
	if e1 != nil || !isASCII(sni) || !e2eSNIOK(sni) {
		return bad
	}
	hx := strings.Split(f[5], ",")
	if len(hx) < 1 || len(hx) > 8 {
		return bad
	}
	var hosts []string
	for _, x := range hx {
		h, err := core.UnHex(x)
		if err != nil || x == "" || !connHostOK(h, proto) {
			return bad
		}
		hosts = append(hosts, h)
	}
	if err := p.setupConn(); err != nil {
		return core.Outcome{Impl: "harness-conn-setup-failed", Failures: []core.Failure{{Class: "harness-setup-failed", What: err.Error()}}}
	}
	var o core.Outcome
	o.Tags = append(o.Tags, "conn", "conn:srv-"+srv, "conn:"+proto, "conn:n="+strconv.Itoa(len(hosts)))
	hs, res := p.connRequests(srv, proto, sni, hosts)
	if hs == "f" {
		o.Impl = "hs=f"
		o.Tags = append(o.Tags, "conn:hs=f")
		return o
	}
	s := p.conn.app.Servers[srv]
	strict := s.StrictSNIHost != nil && *s.StrictSNIHost
	o.Impl = "hs=ok strict=" + b01(strict) + " " + strings.Join(res, " ")
	seq := func(k int) string {
		var sb strings.Builder
		for i := 0; i <= k; i++ {
			fmt.Fprintf(&sb, " [%d] Host %q -> %s;", i+1, hosts[i], res[i])
		}
		return sb.String()
	}
	what := fmt.Sprintf("real server (App.Start) %s, ONE %s connection with SNI %q and no client certificate:", srv, proto, sni)
	passedBefore := false
	for k, v := range res {
		o.Tags = append(o.Tags, "conn:"+strings.SplitN(v, ":", 2)[0])
		served := strings.HasPrefix(v, "in:")
		pass := refStrictPass(sni, hosts[k])
		if k > 0 && passedBefore && !pass {
			o.Tags = append(o.Tags, "conn:mismatch-after-match")
		}
		// ---- the property, on the implementation alone: under strict mode a request whose Host names another
		// host than the connection's SNI is never routed to a handler — whatever was sent before it
		if strict && served && !pass {
			o.Failures = append(o.Failures, core.Failure{Class: "connection-request-served-under-other-sni",
				What: what + seq(k) + fmt.Sprintf(" request %d was routed to a handler although strict SNI-Host checking is in effect and its Host differs from the SNI", k+1)})
		}
		if srv == "a" && v == "in:0" {
			o.Failures = append(o.Failures, core.Failure{Class: "connection-client-auth-site-reached-without-certificate",
				What: what + seq(k) + fmt.Sprintf(" request %d reached the handler of secret.test, whose connection policy requires a client certificate", k+1)})
		}
		if v == "x" {
			o.Failures = append(o.Failures, core.Failure{Class: "connection-request-unanswered",
				What: what + seq(k) + fmt.Sprintf(" request %d got no response", k+1)})
			break
		}
		passedBefore = passedBefore || pass
	}
	if srv == "a" && foldEq(sni, "secret.test") {
		o.Failures = append(o.Failures, core.Failure{Class: "running-server-client-auth-handshake-completes-without-certificate",
			What: fmt.Sprintf("real server (App.Start): a %s handshake with SNI %q completed and was served although its first-match policy requires a client certificate", proto, sni)})
	}
	// ---- two-run relation: the verdict on request k of a connection is the verdict on that request alone
	// (first request of a fresh connection under the same SNI)
	alone := map[string]string{hosts[0]: res[0]}
	for k := 1; k < len(hosts); k++ {
		if res[k] == "x" {
			break
		}
		want, seen := alone[hosts[k]]
		if !seen {
			hs1, r1 := p.connRequests(srv, proto, sni, hosts[k:k+1])
			if hs1 != "ok" {
				continue
			}
			want = r1[0]
			alone[hosts[k]] = want
		}
		if want != res[k] {
			o.Failures = append(o.Failures, core.Failure{Class: "connection-verdict-depends-on-earlier-requests",
				What: what + seq(k) + fmt.Sprintf(" but the same request alone on a fresh connection under the same SNI -> %s", want)})
			break
		}
	}
	return o
}

func (p *prop) genConn(rng *core.Rand) string {
	srv := rng.Pick([]string{"a", "a", "a", "b", "c", "c"})
	proto := rng.Pick([]string{"h1", "h1", "h2", "h2", "h3"})
	sni := rng.Pick([]string{"public.test", "public.test", "other.test", "Public.Test", "x.secret.test", "secret.test", "secret"})
	port := strconv.Itoa(p.conn.port[srv])
	pick := func() string {
		switch rng.Intn(9) {
		case 0, 1:
			return sni
		case 2:
			return mixCase(rng, sni) + ":" + port
		case 3, 4:
			return rng.Pick([]string{"secret.test", "secret.test", "SECRET.test", "secret.test:" + port, "Secret.Test:443"})
		case 5:
			return rng.Pick([]string{"public.test", "other.test", "secret.test.", "public.test:", "a:b:c", "x.secret.test"})
		case 6:
			if proto == "h1" {
				return ""
			}
			return mixCase(rng, "secret.test")
		case 7:
			return mixCase(rng, sni)
		default:
			return "public.test"
		}
	}
	n := 1 + rng.Intn(6)
	var hosts []string
	// the shape that matters most: a request that passes, then one naming another site of the same server
	if rng.Chance(1, 2) {
		hosts = append(hosts, rng.Pick([]string{sni, mixCase(rng, sni), sni + ":" + port}))
	}
	for len(hosts) < n {
		hosts = append(hosts, pick())
	}
	var hx []string
	for i, h := range hosts {
		if !connHostOK(h, proto) {
			h = "public.test"
			hosts[i] = h
		}
		hx = append(hx, core.Hex(h))
	}
	hs, _ := p.connRequests(srv, proto, sni, hosts[:1])
	return fmt.Sprintf("conn %s %s %s %s %s", srv, proto, hs, core.Hex(sni), strings.Join(hx, ","))
}
