package c19

// The consumer glue, end to end: a REAL caddyhttp App.Start (listeners from caddy.Listen, the tls
// placeholder listener wrapper, tls.NewListener with the server's TLSConnPolicies.TLSConfig, net/http's
// server with caddy's Server as handler) for an app with TWO servers on private loopback ports; each
// case is a real TLS connection (client without certificate) and one HTTP/1.1 request on it.
//
//	full <srv> <hs> <sniHex> <hostHex>
//	    srv a: policies [sni secret.test + client auth require, catch-all (fallback_sni public.test)],
//	           routes secret.test, public.test, catch-all; strict_sni_host unset
//	    srv b: policies [catch-all (fallback_sni public.test)], routes secret.test, catch-all
//	    hs = f | ok as observed when the line was written; Host over [A-Za-z0-9.:-]
//	  answer: hs=f | hs=ok strict=<0|1> <in:k|in:*|421|s<code>>

import (
	"bufio"
	"crypto/tls"
	"encoding/json"
	"fmt"
	"net"
	"net/http"
	"strconv"
	"strings"
	"time"

	"github.com/caddyserver/caddy/v2/modules/caddyhttp"

	"verif/harness/internal/core"
)

type fullEnv struct {
	ready bool
	err   error
	app   *caddyhttp.App
	port  map[string]int
}

func freeTCPPort() (int, error) {
	ln, err := net.Listen("tcp", "127.0.0.1:0")
	if err != nil {
		return 0, err
	}
	defer ln.Close()
	return ln.Addr().(*net.TCPAddr).Port, nil
}

func (p *prop) setupFull() error {
	if p.full.ready {
		return p.full.err
	}
	p.full.ready = true
	p.full.err = func() error {
		p.full.port = map[string]int{}
		servers := map[string]any{}
		for _, name := range []string{"a", "b"} {
			port, err := freeTCPPort()
			if err != nil {
				return err
			}
			p.full.port[name] = port
			var pols []any
			sites := []string{"secret.test"}
			if name == "a" {
				pols = append(pols, map[string]any{"match": map[string]any{"sni": []string{"secret.test"}},
					"client_authentication": map[string]any{"mode": "require"}})
				sites = e2eSites
			}
			pols = append(pols, map[string]any{"fallback_sni": "public.test"})
			var routes []any
			for i, s := range sites {
				routes = append(routes, map[string]any{
					"match":    []any{map[string]any{"host": []string{s}}},
					"handle":   []any{map[string]any{"handler": "verif_c19_probe", "site": strconv.Itoa(i)}},
					"terminal": true,
				})
			}
			routes = append(routes, map[string]any{"handle": []any{map[string]any{"handler": "verif_c19_probe", "site": "*"}}})
			servers[name] = map[string]any{
				"listen":    []string{"127.0.0.1:" + strconv.Itoa(port)},
				"protocols": []string{"h1", "h2"}, "automatic_https": map[string]any{"disable": true},
				"routes": routes, "tls_connection_policies": pols}
		}
		raw, _ := json.Marshal(map[string]any{"servers": servers, "https_port": p.full.port["a"], "http_port": 1})
		v, err := p.ctx.LoadModuleByID("http", raw)
		if err != nil {
			return err
		}
		p.full.app = v.(*caddyhttp.App)
		return p.full.app.Start()
	}()
	return p.full.err
}

func fullHostOK(h string) bool {
	if h == "" {
		return false
	}
	for i := 0; i < len(h); i++ {
		c := h[i]
		if !(c >= 'a' && c <= 'z' || c >= 'A' && c <= 'Z' || c >= '0' && c <= '9' || c == '.' || c == ':' || c == '-') {
			return false
		}
	}
	return true
}

// fullRequest: a real TLS connection to server srv and one request; hs "f" if the handshake fails
func (p *prop) fullRequest(srv, sni, host string) (hs, res string) {
	d := &net.Dialer{Timeout: 2 * time.Second}
	c, err := tls.DialWithDialer(d, "tcp", "127.0.0.1:"+strconv.Itoa(p.full.port[srv]),
		&tls.Config{ServerName: sni, InsecureSkipVerify: true, NextProtos: []string{"http/1.1"}})
	if err != nil {
		return "f", ""
	}
	defer c.Close()
	c.SetDeadline(time.Now().Add(3 * time.Second))
	fmt.Fprintf(c, "GET / HTTP/1.1\r\nHost: %s\r\nConnection: close\r\n\r\n", host)
	resp, err := http.ReadResponse(bufio.NewReader(c), nil)
	if err != nil {
		// TLS 1.3: a refused client (no certificate) learns it on its first read
		return "f", ""
	}
	defer resp.Body.Close()
	site := resp.Header.Get("X-C19-Site")
	switch {
	case resp.StatusCode == 200 && site != "":
		return "ok", "in:" + site
	case resp.StatusCode == http.StatusMisdirectedRequest:
		return "ok", "421"
	}
	return "ok", "s" + strconv.Itoa(resp.StatusCode)
}

func (p *prop) runFull(f []string) core.Outcome {
	bad := core.Outcome{Impl: "bad-op"}
	if (f[1] != "a" && f[1] != "b") || (f[2] != "f" && f[2] != "ok") {
		return bad
	}
	sni, e1 := core.UnHex(f[3])
	host, e2 := core.UnHex(f[4])
	if e1 != nil || e2 != nil || f[3] == "" || f[4] == "" || !isASCII(sni) || !e2eSNIOK(sni) || !fullHostOK(host) {
		return bad
	}
	if err := p.setupFull(); err != nil {
		return core.Outcome{Impl: "harness-full-setup-failed", Failures: []core.Failure{{Class: "harness-setup-failed", What: err.Error()}}}
	}
	var o core.Outcome
	o.Tags = append(o.Tags, "full", "full:srv-"+f[1])
	hs, res := p.fullRequest(f[1], sni, host)
	if hs == "f" {
		o.Impl = "hs=f"
		o.Tags = append(o.Tags, "full:hs=f")
		return o
	}
	srv := p.full.app.Servers[f[1]]
	strict := srv.StrictSNIHost != nil && *srv.StrictSNIHost
	o.Impl = "hs=ok strict=" + b01(strict) + " " + res
	o.Tags = append(o.Tags, "full:"+strings.SplitN(res, ":", 2)[0])
	// ---- the property on the running server: the client has no certificate, so on server a (whose
	// first policy demands one for secret.test) the secret.test handler is never reached
	if f[1] == "a" && res == "in:0" {
		o.Failures = append(o.Failures, core.Failure{Class: "running-server-client-auth-site-reached-without-certificate",
			What: fmt.Sprintf("real server (App.Start) with policies [sni secret.test + client auth require, catch-all]: TLS connection with SNI %q and no client certificate, Host %q: the request reached the handler of secret.test", sni, host)})
	}
	if f[1] == "a" && foldEq(sni, "secret.test") {
		o.Failures = append(o.Failures, core.Failure{Class: "running-server-client-auth-handshake-completes-without-certificate",
			What: fmt.Sprintf("real server (App.Start): a handshake with SNI %q completed and was served although its first-match policy requires a client certificate", sni)})
	}
	return o
}

func (p *prop) genFull(rng *core.Rand) string {
	srv := rng.Pick([]string{"a", "a", "b"})
	sni := rng.Pick([]string{"secret.test", "public.test", "other.test", "SECRET.test", "x.secret.test", "Public.Test", "secret"})
	var host string
	switch rng.Intn(6) {
	case 0, 1:
		host = sni
	case 2:
		host = "secret.test"
	case 3:
		host = mixCase(rng, sni) + ":" + strconv.Itoa(p.full.port[srv])
	case 4:
		host = rng.Pick([]string{"public.test", "SECRET.TEST:443", "secret.test.", "other.test", "secret.test:"})
	default:
		host = mixCase(rng, "secret.test")
	}
	if !fullHostOK(host) {
		host = "public.test"
	}
	hs, _ := p.fullRequest(srv, sni, host)
	return fmt.Sprintf("full %s %s %s %s", srv, hs, core.Hex(sni), core.Hex(host))
}
