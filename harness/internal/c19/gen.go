package c19

import (
	"fmt"
	"strings"

	"golang.org/x/net/idna"

	"verif/harness/internal/core"
)

var baseNames = []string{"a.test", "b.test", "secret.test", "x.a.test", "y.x.a.test", "c.example", "localhost", ""}

var cfgOddNames = []string{
	"\u00e9.test", "*.\u00e9.test",
	"\u017f.test", "k.test", "\u212a.TEST", "\u00c9.test", "\u00e9.test", "*.\u017f.test", "s.test",
	"A.Test", "SECRET.TEST", "*.a.test", "*.test", "*.*.test", "*", "*.x.a.test", "x.*.test", "*a.test",
	"*.", ".test", "a..test", "*.A.TEST", "*.*", "*.*.a.test", "*..test", "a.test.", "*.example",
}

var helloOddNames = []string{
	"xn--9ca.test", "XN--9CA.TEST", "xn--9ba.test", "x.xn--9ca.test",
	"\u017fecret.test", "a.te\u017ft", "\u017fECRET.TEST", "\u212a.test", "\u00c9.test", "\u00e9.TEST", "x.\u017f.test",
	"A.TEST", "a.Test", "Secret.Test", "q.a.test", "Q.A.TEST", "z.y.x.a.test", ".a.test", "a..test", "x..test",
	"test", "a.test.", "[secret.test]", "*.a.test", "*", ".", "..", "c.EXAMPLE", "other.invalid",
}

func filler(rng *core.Rand) string { return fmt.Sprintf("h%d.test", rng.Intn(40)) }

func mixCase(rng *core.Rand, s string) string {
	b := []byte(s)
	for i, c := range b {
		if c >= 'a' && c <= 'z' && rng.Chance(1, 2) {
			b[i] = c - 32
		}
	}
	return string(b)
}

func genCfgName(rng *core.Rand, large bool) string {
	switch x := rng.Intn(10); {
	case x < 4 && large, x < 1:
		return filler(rng)
	case x < 7:
		return rng.Pick(baseNames)
	default:
		return rng.Pick(cfgOddNames)
	}
}

func genFlags(rng *core.Rand, authPct int) string {
	fl := ""
	if rng.Chance(12, 100) {
		fl = "d"
	}
	if rng.Chance(authPct, 100) {
		if rng.Chance(1, 8) {
			fl += "i"
		} else {
			fl += string(authShapes[rng.Intn(len(authShapes))])
		}
	}
	if fl == "" {
		fl = "-"
	}
	return fl
}

func genOpaque(rng *core.Rand) []int {
	var ids []int
	if rng.Chance(1, 2) {
		ids = append(ids, rng.Intn(nRemote))
	}
	if rng.Chance(1, 3) {
		ids = append(ids, nRemote+rng.Intn(nLocal))
	}
	if rng.Chance(1, 3) || len(ids) == 0 {
		ids = append(ids, nRemote+nLocal+rng.Intn(nRegexp))
	}
	return ids
}

func genPolicy(rng *core.Rand, large bool, authPct int) policy {
	pl := policy{flags: genFlags(rng, authPct)}
	names := func(n int, wild bool) {
		pl.hasSNI = true
		for i := 0; i < n; i++ {
			nm := genCfgName(rng, large)
			if wild {
				nm = rng.Pick(cfgOddNames)
			}
			pl.names = append(pl.names, nm)
		}
	}
	if large && rng.Chance(3, 4) {
		// bulk of a big list: exact names, so that the first match is often deep in the list
		pl.hasSNI = true
		for k := 1 + rng.Intn(2); k > 0; k-- {
			if rng.Chance(2, 3) {
				pl.names = append(pl.names, filler(rng))
			} else {
				pl.names = append(pl.names, rng.Pick(baseNames))
			}
		}
		if rng.Chance(1, 8) {
			pl.opq = genOpaque(rng)
		}
		return pl
	}
	switch x := rng.Intn(100); {
	case x < 10: // catch-all
	case x < 55:
		names(1+rng.Intn(3), false)
	case x < 68:
		names(1+rng.Intn(2), true)
	case x < 78:
		names(1+rng.Intn(2), false)
		pl.opq = genOpaque(rng)
	case x < 88:
		pl.opq = genOpaque(rng)
	case x < 92:
		pl.hasSNI = true // sni matcher without names: never matches
	default:
		names(1, false)
		names(1, true)
		if rng.Chance(1, 3) { // duplicate name inside one matcher
			pl.names = append(pl.names, pl.names[0])
		}
	}
	return pl
}

func fmtPolicies(pols []policy) string {
	if len(pols) == 0 {
		return "."
	}
	var sb strings.Builder
	for i, pl := range pols {
		if i > 0 {
			sb.WriteByte(';')
		}
		sb.WriteString(pl.flags)
		sb.WriteByte('/')
		switch {
		case !pl.hasSNI:
			sb.WriteByte('~')
		case len(pl.names) == 0:
			sb.WriteByte('.')
		default:
			for j, n := range pl.names {
				if j > 0 {
					sb.WriteByte(',')
				}
				sb.WriteString(core.Hex(n))
				if !isASCII(n) {
					a, err := idna.ToASCII(n)
					if err != nil || a == "" {
						a = "idna-error" // never matches what Run observes: the line answers idna-mismatch
					}
					sb.WriteString("=" + core.Hex(a))
				}
			}
		}
		sb.WriteByte('/')
		if len(pl.opq) == 0 {
			sb.WriteByte('~')
		}
		for _, id := range pl.opq {
			sb.WriteByte(byte('a' + id))
		}
	}
	return sb.String()
}

func (p *prop) fmtHello(sni string, r, l int) string {
	bits := make([]byte, nOpaque)
	for id := 0; id < nOpaque; id++ {
		bits[id] = '0'
		if p.matchers[id].Match(mkHello(sni, r, l)) {
			bits[id] = '1'
		}
	}
	return fmt.Sprintf("%s/%d/%d/%s", core.Hex(sni), r, l, bits)
}

func genSize(rng *core.Rand, tier string) int {
	switch x := rng.Intn(100); {
	case x < 30:
		return 1 + rng.Intn(8)
	case x < 45:
		return 9 + rng.Intn(22) // up to 30: just below the index threshold
	case x < 72:
		return 31 + rng.Intn(15) // just above it
	case x < 92:
		return 46 + rng.Intn(75)
	default:
		if tier == "quick" {
			return 121 + rng.Intn(100)
		}
		return 121 + rng.Intn(400)
	}
}

func (p *prop) genPol(rng *core.Rand, tier string) string {
	n := genSize(rng, tier)
	large := n > 12
	pols := make([]policy, n)
	for i := range pols {
		pols[i] = genPolicy(rng, large, 5)
	}
	// the shape the SNI index would get wrong: something that matches placed before an exact listing
	if rng.Chance(1, 3) && n >= 2 {
		j := 1 + rng.Intn(n-1)
		i := rng.Intn(j)
		nm := rng.Pick(baseNames[:6])
		pols[j] = policy{flags: genFlags(rng, 0), hasSNI: true, names: []string{nm}}
		switch rng.Intn(4) {
		case 0:
			pols[i] = policy{flags: genFlags(rng, 0)}
		case 1:
			pols[i] = policy{flags: genFlags(rng, 0), hasSNI: true, names: []string{mixCase(rng, nm), "*.test", "*.a.test"}}
		case 2:
			pols[i] = policy{flags: genFlags(rng, 0), opq: []int{5}} // remote_ip {} : every valid address
		case 3:
			pols[i] = policy{flags: genFlags(rng, 0), hasSNI: true, names: []string{"*.test", "*.*.test", "*.example"}}
		}
	}
	var listed []string
	for _, pl := range pols {
		for _, n := range pl.names {
			if !isASCII(n) && rng.Chance(1, 2) {
				if a, err := idna.ToASCII(n); err == nil { // what a client sends for an IDN
					n = a
				}
			}
			listed = append(listed, n)
		}
	}
	nh := 1 + rng.Intn(6)
	var hs []string
	for k := 0; k < nh; k++ {
		var sni string
		switch x := rng.Intn(10); {
		case x < 4 && len(listed) > 0:
			sni = listed[rng.Intn(len(listed))]
			if strings.Contains(sni, "*") && rng.Chance(2, 3) {
				sni = strings.Replace(sni, "*", rng.Pick([]string{"q", "x", "y.x", ""}), 1)
			}
			if rng.Chance(1, 5) {
				sni = mixCase(rng, sni)
			}
		case x < 7:
			sni = rng.Pick(baseNames)
		case x < 9:
			sni = rng.Pick(helloOddNames)
		default:
			sni = filler(rng)
		}
		if strings.ContainsAny(sni, "{}") {
			sni = "a.test"
		}
		r, l := rng.Intn(8), rng.Intn(8)
		if rng.Chance(2, 3) {
			r, l = rng.Intn(6), 6 // the common shape
		}
		hs = append(hs, p.fmtHello(sni, r, l))
	}
	live := "0"
	if p.live {
		live = "1"
	}
	return fmt.Sprintf("pol %s %s %s", live, fmtPolicies(pols), strings.Join(hs, ";"))
}

var siteNames = []string{"a.test", "b.test", "secret.test", "x.a.test", "localhost", "s1", "0", "test", "k.test", "*.secret.test", "*.a.test", "*.*.test", "*"}

func hostVariant(rng *core.Rand, x string, other string) string {
	switch rng.Intn(22) {
	case 0, 1, 2:
		return x
	case 3:
		return strings.ToUpper(x)
	case 4:
		return mixCase(rng, x)
	case 5:
		return x + ":443"
	case 6:
		return mixCase(rng, x) + ":8443"
	case 7:
		return x + ":"
	case 8:
		return x + ":80:90"
	case 9:
		return "[" + x + "]:443"
	case 10:
		return "[" + x + "]"
	case 11:
		return "[" + x
	case 12:
		return x + "]"
	case 13:
		return x + "."
	case 14:
		return other
	case 15:
		return other + ":443"
	case 16:
		return ""
	case 17:
		return ":443"
	case 18:
		if len(x) > 1 {
			return x[1:]
		}
		return "x" + x
	case 19:
		return "x" + x
	case 20:
		return "[" + other + "]"
	default:
		return rng.Pick([]string{"[::1]:443", "[::1]", "::1", "a.test:443:", "[a.test]x:1", "[[a.test]]:1", "a.test:http", " a.test", "a.test ", "[a.test]:", "[]", "[", "]", ":"})
	}
}

// unicodeVariant re-spells one letter with a non-ASCII character of the model's alphabet.
func unicodeVariant(rng *core.Rand, s string) string {
	pairs := [][2]string{{"s", "\u017f"}, {"S", "\u017f"}, {"k", "\u212a"}, {"K", "\u212a"}, {"e", "\u00e9"}, {"E", "\u00c9"}, {"t", "\u017f"}}
	for tries := 0; tries < 6; tries++ {
		pr := pairs[rng.Intn(len(pairs))]
		if i := strings.Index(s, pr[0]); i >= 0 {
			if rng.Chance(1, 2) {
				if j := strings.LastIndex(s, pr[0]); j >= 0 {
					i = j
				}
			}
			return s[:i] + pr[1] + s[i+len(pr[0]):]
		}
	}
	return s
}

func (p *prop) genEnf(rng *core.Rand) string {
	strict := rng.Pick([]string{"n", "n", "n", "n", "n", "t", "t", "t", "t", "f"})
	np := rng.Intn(5)
	if rng.Chance(1, 25) {
		np = 29 + rng.Intn(6)
	}
	pols := make([]policy, np)
	ap := []int{0, 40, 80}[rng.Intn(3)]
	for i := range pols {
		pols[i] = genPolicy(rng, false, ap)
	}
	var sites []string
	seen := map[string]bool{}
	for k := rng.Intn(5); k > 0; k-- {
		s := rng.Pick(siteNames)
		if !seen[s] {
			seen[s] = true
			sites = append(sites, s)
		}
	}
	sitesF := "."
	if len(sites) > 0 {
		var hx []string
		for _, s := range sites {
			hx = append(hx, core.Hex(s))
		}
		sitesF = strings.Join(hx, ",")
	}
	var rs []string
	for k := 1 + rng.Intn(6); k > 0; k-- {
		target := rng.Pick(siteNames)
		if len(sites) > 0 && rng.Chance(2, 3) {
			target = sites[rng.Intn(len(sites))]
		}
		other := rng.Pick(siteNames)
		// a wildcard site is addressed by an instance of its pattern (an empty label included)
		for strings.Contains(target, "*") {
			target = strings.Replace(target, "*", rng.Pick([]string{"x", "q", "", "X", "a.b", "y"}), 1)
		}
		for strings.Contains(other, "*") {
			other = strings.Replace(other, "*", rng.Pick([]string{"x", "", "z"}), 1)
		}
		if rng.Chance(1, 15) {
			target = rng.Pick([]string{"." + target, strings.Replace(target, ".", "..", 1)})
		}
		host := hostVariant(rng, target, other)
		var sni string
		switch x := rng.Intn(12); {
		case x < 4:
			sni = target
		case x < 5:
			sni = mixCase(rng, target)
		case x < 7:
			sni = other
		case x < 8:
			sni = ""
		case x < 11:
			// the raw Host string (what an attacker controlling both would send), sometimes re-cased
			sni = host
			if rng.Chance(1, 3) {
				sni = mixCase(rng, sni)
			}
		default:
			sni = hostVariant(rng, target, other)
		}
		// non-ASCII spellings: ſ for s, K for k (EqualFold-equal, not ToLower-equal / ToLower-equal), é for e (another name)
		if rng.Chance(1, 7) {
			sni = unicodeVariant(rng, sni)
		}
		if rng.Chance(1, 25) {
			host = unicodeVariant(rng, host)
		}
		t := "1"
		if rng.Chance(1, 8) {
			t = "0"
		} else if rng.Chance(1, 8) {
			t = "2"
		}
		rs = append(rs, fmt.Sprintf("%s/%s/%s", t, core.Hex(sni), core.Hex(host)))
	}
	return fmt.Sprintf("enf %s %s %s %s", strict, fmtPolicies(pols), sitesF, strings.Join(rs, ";"))
}

func (p *prop) genCF(rng *core.Rand) string {
	opt := rng.Pick([]string{"n", "n", "n", "n", "n", "b", "t", "f", "f", "x"})
	if opt == "x" && rng.Chance(2, 3) {
		opt = "n"
	}
	perm := []int{0, 1, 2, 3, 4, 5}
	for i := 5; i > 0; i-- {
		j := rng.Intn(i + 1)
		perm[i], perm[j] = perm[j], perm[i]
	}
	n := 1 + rng.Intn(4)
	common := "rqgRkflpv"
	rare := "xKFMjJP"
	var ss []string
	for _, idx := range perm[:n] {
		var subs string
		switch x := rng.Intn(10); {
		case x < 3:
			subs = "~"
		case x < 4:
			subs = "."
		default:
			for k := 1 + rng.Intn(3); k > 0; k-- {
				if rng.Chance(1, 9) {
					subs += string(rare[rng.Intn(len(rare))])
				} else {
					subs += string(common[rng.Intn(len(common))])
				}
			}
		}
		ss = append(ss, fmt.Sprintf("%d/%s", idx, subs))
	}
	return fmt.Sprintf("cf %s %s", opt, strings.Join(ss, ";"))
}

// genQUIC: a reload history of an HTTP/3 listener within the protocol (see quicProtocolOK)
func genQUIC(rng *core.Rand) string {
	var toks []string
	next, open := 1, []int{}
	n := 6 + rng.Intn(10)
	if rng.Chance(1, 2) {
		// what a running process does: start the next config's server, stop the previous one
		toks = append(toks, "o1")
		next, open = 2, []int{1}
		for len(toks) < n && next <= 9 {
			if rng.Chance(2, 3) {
				toks = append(toks, "p")
			}
			toks = append(toks, fmt.Sprintf("o%d", next))
			if rng.Chance(2, 3) {
				toks = append(toks, "p")
			}
			toks = append(toks, fmt.Sprintf("c%d", next-1))
			next++
		}
		toks = append(toks, "p")
		return "quic " + strings.Join(toks, ",")
	}
	for len(toks) < n {
		switch x := rng.Intn(10); {
		case x < 3 && len(open) < 2 && next <= 9:
			toks = append(toks, fmt.Sprintf("o%d", next))
			open = append(open, next)
			next++
		case x < 5 && len(open) > 0:
			i := rng.Intn(len(open))
			toks = append(toks, fmt.Sprintf("c%d", open[i]))
			open = append(open[:i], open[i+1:]...)
		case len(open) > 0 || rng.Chance(1, 6):
			toks = append(toks, "p")
		default:
			if next <= 9 {
				toks = append(toks, fmt.Sprintf("o%d", next))
				open = append(open, next)
				next++
			} else {
				toks = append(toks, "p")
			}
		}
	}
	return "quic " + strings.Join(toks, ",")
}

func (p *prop) genE2E(rng *core.Rand) string {
	names := []string{"secret.test", "SECRET.test", "Secret.Test", "[secret.test]", "[secret.test", "secret.test]",
		"[public.test]", "secret.test:443", "[SECRET.TEST]", "public.test]", " secret.test", "*.test"}
	if rng.Chance(3, 5) { // names under which a handshake completes
		names = []string{"public.test", "other.test", "x.secret.test", "secret", "test", "secret.tes", "ssecret.test", "secret.test.x", "PUBLIC.TEST", "localhost"}
	}
	sni := rng.Pick(names)
	if rng.Chance(1, 6) {
		sni = mixCase(rng, sni)
	}
	if rng.Chance(1, 5) {
		sni = unicodeVariant(rng, sni)
	}
	if !e2eSNIOK(sni) {
		sni = "public.test"
	}
	var host string
	switch x := rng.Intn(10); {
	case x < 4:
		host = hostVariant(rng, rng.Pick([]string{"secret.test", "public.test"}), "secret.test")
	case x < 7:
		host = sni
	case x < 8:
		host = mixCase(rng, sni) + ":443"
	default:
		host = hostVariant(rng, sni, "secret.test")
	}
	k := rng.Intn(nE2ESrv)
	if k == 3 {
		sni = rng.Pick([]string{".secret.test", "x.secret.test", "X.Secret.Test", "..secret.test", "public.test", "y.x.secret.test", ".SECRET.test", "secret.test", "x..secret.test", "other.test"})
		switch rng.Intn(4) {
		case 0:
			host = sni
		case 1:
			host = mixCase(rng, sni) + ":443"
		case 2:
			host = rng.Pick([]string{".secret.test", "x.secret.test", "q.secret.test:8443"})
		}
	}
	if k == 4 {
		sni = rng.Pick([]string{"xn--9ca.test", "XN--9CA.test", "public.test", "other.test", "xn--9ca.tes", "e.test", "\u00e9.test"})
		switch rng.Intn(4) {
		case 0:
			host = sni
		case 1:
			host = mixCase(rng, sni) + ":443"
		case 2:
			host = "xn--9ca.test"
		}
		if !isASCII(host) {
			host = "xn--9ca.test"
		}
	}
	hs, _ := p.handshake(k, sni)
	if hs != "f" && hs != "p0" && hs != "p1" {
		hs = "f" // Run prints what it observes; the disagreement is then visible
	}
	return fmt.Sprintf("e2e %d %s %s %s", k, hs, core.Hex(sni), core.Hex(host))
}

var malformed = []string{
	"conn", "conn d h1 ok 7365 7365", "conn a h4 ok 7365 7365", "conn a h1 x 7365 7365", "conn a h2 ok 7365 2d", "conn a h1 ok 7365 7365,,7365", "conn a h1 ok 7365 7365,", "conn a h1 ok 7365 5b5d", "conn a h1 ok 7365",
	"conn a h1 ok 7365 73,73,73,73,73,73,73,73,73", "conn a h1 ok 312e32 7365", "conn a h3 ok 7365 -",
	"full", "full c ok 7365 7365", "full a x 7365637265742e74657374 7365", "full a ok 7365637265742e74657374 5b5d", "full a ok 7365637265742e74657374",
	"res", "res a", "res a d", "res a b c", "res ab c",
	"quic", "quic o0", "quic o1,o1", "quic c1", "quic o1,o2,o3", "quic o1,c1,o1", "quic o1,,p", "quic o1 p", "quic x", "quic o1,c2",
	"cf2", "cf2 Z", "cf2 q r", "cf2 ~",
	"cf", "cf n", "cf n 2", "cf n 2/", "cf n 6/q", "cf n 2/q;2/r", "cf z 2/q", "cf n 2/Z", "cf n 2/q;", "cf n 2/q 1", "cf n 2/~q",
	"ca", "ca 1", "ca 00000000", "ca 0100000", "ca 2000000", "ca 1300000", "ca 1030000", "ca 1000006", "ca 100000x", "ca 1000000 1",
	"e2e", "e2e 0 f 2d 2d", "e2e 0 p1 7075626c69632e74657374", "e2e 1 p2 7075626c69632e74657374 2d", "e2e 0 p1 3132372e302e302e31 2d", "e2e 2 p1 612e 2d",
	"e2e 1 p1 c3a8 2d", "e2e 0 f zz 2d", "e2e 0 f 7075626c69632e74657374 2d x", "e2e 5 f 7075626c69632e74657374 2d", "e2e f 7075626c69632e74657374 2d", "e2e 00 f 7075626c69632e74657374 2d",
	"", "pol", "enf", "xyz 1 2 3", "pol 0 . .", "pol 2 . 2d/0/6/0000000000000000", "pol 0 -/~/~", "pol 0 -/~ 2d/0/6/0000000000000000",
	"pol 0 x/~/~ 2d/0/6/0000000000000000", "pol 0 dd/~/~ 2d/0/6/0000000000000000", "pol 0 -/zz/~ 2d/0/6/0000000000000000",
	"pol 0 -/7b/~ 2d/0/6/0000000000000000", "pol 0 -/c3a8/~ 2d/0/6/0000000000000000", "pol 0 -/~/ba 2d/0/6/0000000000000000",
	"pol 0 -/~/ab 2d/0/6/0000000000000000", "pol 0 -/~/q 2d/0/6/0000000000000000", "pol 0 -/~/ 2d/0/6/0000000000000000",
	"pol 0 -/~/~ 2d/8/6/0000000000000000", "pol 0 -/~/~ 2d/0/6/000000000000000", "pol 0 -/~/~ 2d/0/6/00000000000000002",
	"pol 0 -/~/~ /0/6/0000000000000000", "pol 0 -/~/~ 2d/0/6/0000000000000000;", "pol 0 -/~/~; 2d/0/6/0000000000000000",
	"pol 0 -/,/~ 2d/0/6/0000000000000000", "pol 0 -/61,/~ 2d/0/6/0000000000000000", "pol 0 -/6/~ 2d/0/6/0000000000000000",
	"pol 0 -/~/~ c3a8/0/6/0000000000000000", "pol 0 -/~/~ 2d/0/6/0000000000000000 extra",
	"enf n . . 1/2d/2d", "enf x . . 1/2d/2d", "enf n . . 3/2d/2d", "enf n . . 1/2d", "enf n . . 1//2d", "enf n . 41 1/2d/2d",
	"enf n . 61,61 1/2d/2d", "enf n . , 1/2d/2d", "enf n . 2d 1/2d/2d", "enf n . . 1/c3a8/2d", "enf n . . 1/2d/c3a8", "enf n . .",
	"enf t -/~/~ 61 1/61/61 x", "enf n . . 1/2d/2d;", "enf n -/~ . 1/2d/2d",
}

func mutate(rng *core.Rand, s string) string {
	if s == "" {
		return s
	}
	b := []byte(s)
	i := rng.Intn(len(b))
	switch rng.Intn(4) {
	case 0:
		return string(b[:i]) + string(b[i+1:])
	case 1:
		return string(b[:i]) + rng.Pick([]string{"/", ";", ",", " ", "~", ".", "g", "0", "-", "d"}) + string(b[i:])
	case 2:
		b[i] = rng.Pick([]string{"/", ";", ",", "~", ".", "z", "1", "-", "c"})[0]
		return string(b)
	default:
		return string(b[:i])
	}
}

// normalize: a mutated line that is still a well-formed `pol` case gets the liveness flag and the
// verdict bits re-observed (they are observations, not inputs one may choose freely).
func (p *prop) normalize(line string) string {
	var f []string
	for _, x := range strings.Split(line, " ") {
		if x != "" {
			f = append(f, x)
		}
	}
	// a mutated enf line that still parses: the IDNA forms its policy names carry are re-observed
	if len(f) == 5 && f[0] == "enf" {
		if pols, ok := parsePolicies(f[2]); ok && len(pols) > 0 {
			f[2] = fmtPolicies(pols)
			return strings.Join(f, " ")
		}
		return line
	}
	if len(f) != 4 || f[0] != "pol" || (f[1] != "0" && f[1] != "1") {
		return line
	}
	if pols, ok := parsePolicies(f[2]); !ok {
		return line
	} else if len(pols) > 0 {
		f[2] = fmtPolicies(pols)
	}
	hs, ok := parseHellos(f[3])
	if !ok {
		return line
	}
	var out []string
	for _, h := range hs {
		out = append(out, p.fmtHello(h.sni, h.r, h.l))
	}
	live := "0"
	if p.live {
		live = "1"
	}
	return fmt.Sprintf("pol %s %s %s", live, f[2], strings.Join(out, ";"))
}

func (p *prop) Generate(rng *core.Rand, tier string, emit func(string)) {
	if err := p.setup(); err != nil {
		emit("pol 0 . 2d/0/6/0000000000000000") // Run reports the setup failure
		return
	}
	nPol, nEnf, nBad, nE2E, nCF := 4500, 8000, 800, 600, 1200
	nQUIC, nFull := 60, 150
	nConn := 160
	switch tier {
	case "thorough":
		nPol, nEnf, nBad, nE2E, nCF = 60000, 100000, 5000, 6000, 20000
		nQUIC, nFull = 600, 2000
		nConn = 2500
	case "search":
		nPol, nEnf, nBad, nE2E, nCF = 8000, 12000, 0, 600, 2000
		nQUIC, nFull = 150, 300
		nConn = 400
	}
	rp, re, rb, r2 := rng.Fork(), rng.Fork(), rng.Fork(), rng.Fork()
	r3 := rng.Fork()
	r4 := rng.Fork()
	r5 := rng.Fork()
	r6 := rng.Fork()
	for _, m := range malformed {
		emit(m)
	}
	// session resumption across connection policies: every ordered pair, every run
	for _, x := range []string{"a", "b", "c"} {
		for _, y := range []string{"a", "b", "c"} {
			emit("res " + x + " " + y)
		}
	}
	// one site block on two ports: every single subdirective and a few combinations, every run
	for _, sub := range []string{".", "r", "q", "g", "R", "k", "f", "l", "j", "p", "v", "x", "K", "F", "qk", "vr", "pq", "lq", "kp"} {
		emit("cf2 " + sub)
	}
	// client_authentication field by field: EVERY combination, every run
	emit("ca 0000000")
	for a := 0; a < 3; a++ {
		for b := 0; b < 3; b++ {
			for c := 0; c < 3; c++ {
				for d := 0; d < 3; d++ {
					for e := 0; e < 2; e++ {
						for m := 0; m < 6; m++ {
							emit(fmt.Sprintf("ca 1%d%d%d%d%d%d", a, b, c, d, e, m))
						}
					}
				}
			}
		}
	}
	// interleave so that a truncated run still sees both kinds
	for i := 0; i < nPol || i < nEnf; i++ {
		if i < nPol {
			emit(p.genPol(rp, tier))
		}
		if i < nEnf {
			emit(p.genEnf(re))
		}
		if i < nE2E {
			emit(p.genE2E(r2))
		}
		if i < nCF {
			emit(p.genCF(r3))
		}
		if i < nQUIC {
			emit(genQUIC(r4))
		}
		if i < nFull && p.setupFull() == nil {
			emit(p.genFull(r5))
		}
		if i < nConn && p.setupConn() == nil {
			emit(p.genConn(r6))
		}
		if i < nBad {
			var base string
			if rb.Chance(1, 2) {
				base = p.genEnf(rb)
			} else {
				base = p.genPol(rb, "quick")
				if len(base) > 600 {
					base = "pol 0 -/612e74657374/a;d/~/~ 612e74657374/0/6/0000000000000000"
				}
			}
			emit(p.normalize(mutate(rb, base)))
		}
	}
}
