// Package c19: TLS connection-policy choice (ConnectionPolicies.Provision + TLSConfig's
// GetConfigForClient, including the size-triggered SNI index) and strict SNI-Host enforcement
// (App.Provision's auto-enable rule + Server.ServeHTTP's enforcementHandler + host routing).
//
// Protocol (one self-contained case per line):
//
//	pol <L> <policies> <hellos>
//	    L         0|1   liveness of the SNI index as observed on the real code when the line was
//	                    written (the model takes it as an input; the harness re-observes it)
//	    policies  .  |  P;P;…        P = <flags>/<sni>/<opq>
//	              flags  -, d (drop), one client-auth shape letter, or d followed by one:
//	                     c mode request, C mode require, g mode verify_if_given, k trusted_ca_certs,
//	                     K trusted_ca_certs + mode require_and_verify, a inline ca module,
//	                     f trusted_ca_certs_pem_files, l trusted_leaf_certs, v verifiers only (leaf,
//	                     no loaders), V verifiers only (leaf with a pem loader), w verifiers + mode
//	                     request, i empty client_authentication block (inactive)
//	              sni    ~ (no sni matcher) | . (sni matcher with no names) | N,N,…   N = hex, or for a
//	                     name with non-ASCII characters hex=hex: the name and what idna.ToASCII makes
//	                     of it (an external call, observed when the line was written, re-observed by Run)
//	              opq    ~ | increasing letters a..p: a-f remote_ip configs, g-j local_ip configs,
//	                     k-p sni_regexp configs (fixed tables below; at most one letter per kind)
//	    hellos    H;H;…   H = <sniHex>/<remoteAddrIdx>/<localAddrIdx>/<16 verdict bits>
//	              verdict bit k = what matcher config k answers for this hello (observed on the real
//	              matcher when the line was written; re-observed by Run)
//	  answer: live=<obs> r r …   r = c<i> (config of policy i) | drop | none
//
//	enf <strict> <policies> <sites> <reqs>
//	    strict    n (strict_sni_host absent) | t | f
//	    sites     . | hex,hex,…   one route per site (host matcher, exact name) then a catch-all route
//	    reqs      R;R;…   R = <tls 0|1|2>/<sniHex>/<hostHex>   (2: r.TLS is nil, the connection in the
//	              request context reports the TLS state and ServeHTTP fills r.TLS in)
//	  answer: strict=<0|1> r r …   r = in:<site index> | in:* | 421 | s<status>
//
//	ca <present><ca><trusted_ca_certs><pem_files><trusted_leaf><verifiers><mode>     (7 digits)
//	    one client_authentication block given field by field: present 0|1 (0: no block, all other
//	    digits 0); ca 0 | 1 inline ca module | 2 inline ca module that fails to load; trusted_ca_certs / trusted_ca_certs_pem_files /
//	    trusted_leaf_certs 0 absent | 1 loadable | 2 not loadable (bad base64, missing file);
//	    verifiers 0|1 (leaf verifier with a pem loader); mode 0 "" | 1 request | 2 require |
//	    3 verify_if_given | 4 require_and_verify | 5 an unknown string.
//	    The real ConnectionPolicies.Provision builds the tls.Config; the real App.Provision decides
//	    the strict_sni_host default for a server [this policy on sni secret.test, catch-all].
//	  answer: err | before=<Active() before> auth=<tls.ClientAuthType 0..4> cas=<ClientCAs!=nil>
//	          vpc=<VerifyPeerCertificate!=nil> tix=<SessionTicketsDisabled> ver=<a foreign client
//	          certificate is rejected by VerifyPeerCertificate> after=<Active() after> strict=<0|1>
//
//	cf <strictopt> <sites>
//	    a Caddyfile run through the REAL adapter, its http app through the real App.Provision.
//	    strictopt: n no option | b `strict_sni_host` | t `… on` | f `… insecure_off` | x `… off` (rejected)
//	    sites     S;S;…  S = <name index 0..5>/<subs>   (names a.test b.test secret.test k.test *.w.test é.test, distinct)
//	              subs  ~ no tls directive | . `tls { client_auth { } }` | letters, one per subdirective:
//	              r q g R x `mode request|require|verify_if_given|require_and_verify|bogus`,
//	              k K `trusted_ca_cert <good|bad base64>`, f F `trusted_ca_cert_file <readable|missing>`,
//	              l M `trusted_leaf_cert <good|bad>`, j J `trusted_leaf_cert_file <readable|missing>`,
//	              p P `trust_pool inline { trust_der <good|bad> }`, v `verifier verif_c19`
//	  answer: err:adapt | err:provision | strict=<0|1> a=<ClientAuth type of the policy chosen for each
//	          client name (site name; x.w.test and .w.test for the wildcard site; the A-label for the IDN
//	          site) and for zz.test> r=<for each of those SNIs, each client name as Host: in:<k>|in:*|421>
//
//	cf2 <subs>
//	    the Caddyfile `a.test:443, b.test:8443 { tls { client_auth { <subs> } } respond "S0" }` — ONE
//	    site block paired with TWO servers — through the real adapter and App.Provision (subs as in cf,
//	    `.` = empty block). Per server (A = :443 with its name a.test, B = :8443 with b.test):
//	  answer: err:adapt | err:provision | A strict=<0|1> a=<ClientAuth of the policy chosen for the
//	          server's own name><… for the other name> r=<own name as SNI and Host: in:0|in:*|421> B …
//
//	e2e <srv> <hs> <sniHex> <hostHex>
//	    a REAL crypto/tls handshake (client without certificate, over an in-memory pipe) against the
//	    TLSConfig of a provisioned server with policies [sni secret.test + client auth: srv 0 = mode
//	    require, srv 1 = a leaf verifier module and nothing else, srv 2 = trusted_leaf_certs only; srv 3
//	    protects the wildcard site *.secret.test, srv 4 the IDN site written "é.test" in the config],
//	    [catch-all, fallback_sni public.test], sites secret.test, public.test and strict_sni_host
//	    left to the auto-enable rule; then one request with that connection's ConnectionState.
//	    hs = f (handshake failed) | p<i> (completed under policy i) as observed when the line was written.
//	  answer: hs=f | hs=p<i> strict=<0|1> r      r as above
package c19

import (
	"context"
	"crypto/ecdsa"
	"crypto/elliptic"
	"crypto/rand"
	"crypto/tls"
	"crypto/x509"
	"crypto/x509/pkix"
	"encoding/base64"
	"encoding/json"
	"encoding/pem"
	"fmt"
	"math/big"
	"net"
	"net/http"
	"net/http/httptest"
	"net/netip"
	"os"
	"regexp"
	"strconv"
	"strings"
	"time"

	"github.com/caddyserver/caddy/v2"
	"github.com/caddyserver/caddy/v2/caddyconfig"
	"github.com/caddyserver/caddy/v2/caddyconfig/caddyfile"
	_ "github.com/caddyserver/caddy/v2/caddyconfig/httpcaddyfile"
	_ "github.com/caddyserver/caddy/v2/modules/caddyevents"
	"github.com/caddyserver/caddy/v2/modules/caddyhttp"
	"github.com/caddyserver/caddy/v2/modules/caddytls"
	"golang.org/x/net/idna"

	"verif/harness/internal/core"
)

// ---------------------------------------------------------------- fixed tables

type ipCfg struct{ ranges, not []string }

var remoteCfgs = []ipCfg{
	{ranges: []string{"10.0.0.0/8"}},
	{ranges: []string{"192.168.1.5"}},
	{not: []string{"10.0.0.0/8"}},
	{ranges: []string{"10.0.0.0/8"}, not: []string{"10.1.0.0/16"}},
	{ranges: []string{"::1", "fd00::/8"}},
	{},
}

var localCfgs = []ipCfg{
	{ranges: []string{"127.0.0.1"}},
	{ranges: []string{"10.0.0.0/8", "::1"}},
	{},
	{ranges: []string{"192.168.0.0/16"}},
}

var regexpCfgs = []string{`^a\.`, `test$`, `^[a-z.]+$`, `(?i)^A`, `.*`, `^$`}

const (
	nRemote = 6
	nLocal  = 4
	nRegexp = 6
	nOpaque = nRemote + nLocal + nRegexp
)

// addresses a hello's connection can have (index 7: not an IP at all)
var addrs = []string{"10.1.2.3:1234", "10.2.0.1:5", "192.168.1.5:443", "[::1]:80", "[fd00::1]:1", "203.0.113.9:9", "127.0.0.1:443", "pipe"}
var addrIPs = []string{"10.1.2.3", "10.2.0.1", "192.168.1.5", "::1", "fd00::1", "203.0.113.9", "127.0.0.1", ""}

func opaqueKind(id int) int { // 0 remote, 1 local, 2 regexp
	switch {
	case id < nRemote:
		return 0
	case id < nRemote+nLocal:
		return 1
	}
	return 2
}

func opaqueModule(id int) (name string, raw json.RawMessage) {
	switch opaqueKind(id) {
	case 0:
		c := remoteCfgs[id]
		m := map[string]any{}
		if c.ranges != nil {
			m["ranges"] = c.ranges
		}
		if c.not != nil {
			m["not_ranges"] = c.not
		}
		b, _ := json.Marshal(m)
		return "remote_ip", b
	case 1:
		c := localCfgs[id-nRemote]
		m := map[string]any{}
		if c.ranges != nil {
			m["ranges"] = c.ranges
		}
		b, _ := json.Marshal(m)
		return "local_ip", b
	}
	b, _ := json.Marshal(map[string]any{"pattern": regexpCfgs[id-nRemote-nLocal]})
	return "sni_regexp", b
}

// refVerdict: what matcher config id must answer, computed WITHOUT caddy (netip / regexp directly).
func refVerdict(id int, sni string, r, l int) bool {
	in := func(ip netip.Addr, rs []string) bool {
		for _, s := range rs {
			var p netip.Prefix
			if strings.Contains(s, "/") {
				p = netip.MustParsePrefix(s)
			} else {
				a := netip.MustParseAddr(s)
				p = netip.PrefixFrom(a, a.BitLen())
			}
			if p.Contains(ip) {
				return true
			}
		}
		return false
	}
	switch opaqueKind(id) {
	case 0:
		if addrIPs[r] == "" {
			return false
		}
		ip := netip.MustParseAddr(addrIPs[r])
		c := remoteCfgs[id]
		return (len(c.ranges) == 0 || in(ip, c.ranges)) && (len(c.not) == 0 || !in(ip, c.not))
	case 1:
		if addrIPs[l] == "" {
			return false
		}
		ip := netip.MustParseAddr(addrIPs[l])
		c := localCfgs[id-nRemote]
		return len(c.ranges) == 0 || in(ip, c.ranges)
	}
	return regexp.MustCompile(regexpCfgs[id-nRemote-nLocal]).MatchString(sni)
}

type strAddr string

func (strAddr) Network() string  { return "tcp" }
func (a strAddr) String() string { return string(a) }

type fakeConn struct {
	net.Conn
	r, l net.Addr
}

func (c fakeConn) RemoteAddr() net.Addr { return c.r }
func (c fakeConn) LocalAddr() net.Addr  { return c.l }

func mkHello(sni string, r, l int) *tls.ClientHelloInfo {
	return &tls.ClientHelloInfo{ServerName: sni, Conn: fakeConn{r: strAddr(addrs[r]), l: strAddr(addrs[l])}}
}

// ---------------------------------------------------------------- probe handler

type probeHandler struct {
	Site string `json:"site,omitempty"`
}

func (probeHandler) CaddyModule() caddy.ModuleInfo {
	return caddy.ModuleInfo{ID: "http.handlers.verif_c19_probe", New: func() caddy.Module { return new(probeHandler) }}
}

func (p probeHandler) ServeHTTP(w http.ResponseWriter, _ *http.Request, _ caddyhttp.Handler) error {
	w.Header().Set("X-C19-Site", p.Site)
	w.WriteHeader(http.StatusOK)
	return nil
}

// probeVerifier: a client-certificate verifier module usable from a Caddyfile (the built-in `leaf`
// verifier has no Caddyfile syntax); it rejects every certificate.
type probeVerifier struct{}

func (probeVerifier) CaddyModule() caddy.ModuleInfo {
	return caddy.ModuleInfo{ID: "tls.client_auth.verifier.verif_c19", New: func() caddy.Module { return new(probeVerifier) }}
}

func (probeVerifier) VerifyClientCertificate([][]byte, [][]*x509.Certificate) error {
	return fmt.Errorf("verif_c19: rejected")
}

func (*probeVerifier) UnmarshalCaddyfile(d *caddyfile.Dispenser) error {
	d.Next()
	return nil
}

func init() {
	caddy.RegisterModule(probeHandler{})
	caddy.RegisterModule(probeVerifier{})
}

// ---------------------------------------------------------------- prop

type prop struct {
	ready      bool
	initErr    error
	ctx        caddy.Context
	dir        string
	live       bool
	matchers   [nOpaque]caddytls.ConnectionMatcher
	e2eCert    tls.Certificate
	res        resEnv
	full       fullEnv
	conn       connEnv
	caB64      string
	caDER      []byte
	foreignDER []byte
	caPEM      string
	caFile     string
	e2eSrv     [nE2ESrv]*caddyhttp.Server
	e2eTLS     [nE2ESrv]*tls.Config
}

const nE2ESrv = 5

const authShapes = "cCgkKaflvVw" // the active client-auth shapes; 'i' is the inactive one

var e2eSites = []string{"secret.test", "public.test"}

// e2e server 3 protects a WILDCARD site (policy `sni *.secret.test`, route `host *.secret.test`)
func e2eSitesOf(k int) []string {
	switch k {
	case 3:
		return []string{"*.secret.test", "public.test"}
	case 4: // configured as "\u00e9.test" (see e2eConfigured); this is its IDNA form
		return []string{"xn--9ca.test", "public.test"}
	}
	return e2eSites
}

// e2eConfigured: the site names as written in the config. Server 4 protects an IDN site written in
// Unicode form, both in its connection policy (sni) and in its route (host).
func e2eConfigured(k int) []string {
	if k == 4 {
		return []string{"\u00e9.test", "public.test"}
	}
	return e2eSitesOf(k)
}

// hasEmptyLabel: one of the name's dot-separated labels is empty (leading / doubled / trailing dot;
// the empty name is one empty label)
func hasEmptyLabel(s string) bool {
	return s == "" || strings.HasPrefix(s, ".") || strings.HasSuffix(s, ".") || strings.Contains(s, "..")
}

// refHostWildcard: the HTTP-side reading of a wildcard pattern (caddyhttp host matcher): same number
// of labels, a `*` label matches any label — an empty one too —, the others case-insensitively.
func refHostWildcard(name, pattern string) bool {
	if !strings.Contains(pattern, "*") {
		return false
	}
	pp, nn := strings.Split(pattern, "."), strings.Split(name, ".")
	if len(pp) != len(nn) {
		return false
	}
	for i := range pp {
		if pp[i] != "*" && !strings.EqualFold(pp[i], nn[i]) {
			return false
		}
	}
	return true
}

// leftmostWildcard: the pattern's `*` labels form a prefix of its labels (the only wildcard shape the
// TLS side, certmagic.MatchWildcard, can match; `x.*.test` as an sni name matches nothing)
func leftmostWildcard(p string) bool {
	star := true
	for _, l := range strings.Split(p, ".") {
		if l == "*" {
			if !star {
				return false
			}
		} else {
			star = false
			if strings.Contains(l, "*") {
				return false
			}
		}
	}
	return true
}

const clsEmptyLabel = "empty-label-sni-reaches-wildcard-site"

func selfSigned(names ...string) (certPEM, keyPEM string, err error) {
	key, err := ecdsa.GenerateKey(elliptic.P256(), rand.Reader)
	if err != nil {
		return "", "", err
	}
	tmpl := &x509.Certificate{SerialNumber: big.NewInt(2), Subject: pkix.Name{CommonName: names[0]}, DNSNames: names,
		NotBefore: time.Now().Add(-time.Hour), NotAfter: time.Now().Add(48 * time.Hour), KeyUsage: x509.KeyUsageDigitalSignature,
		ExtKeyUsage: []x509.ExtKeyUsage{x509.ExtKeyUsageServerAuth}}
	der, err := x509.CreateCertificate(rand.Reader, tmpl, tmpl, &key.PublicKey, key)
	if err != nil {
		return "", "", err
	}
	kb, err := x509.MarshalECPrivateKey(key)
	if err != nil {
		return "", "", err
	}
	return string(pem.EncodeToMemory(&pem.Block{Type: "CERTIFICATE", Bytes: der})),
		string(pem.EncodeToMemory(&pem.Block{Type: "EC PRIVATE KEY", Bytes: kb})), nil
}

func New() core.Prop { return &prop{} }

func (*prop) ID() string { return "C19" }

func (p *prop) setup() error {
	if p.ready {
		return p.initErr
	}
	p.ready = true
	p.initErr = func() error {
		os.MkdirAll("/verif/.run", 0o755)
		d, err := os.MkdirTemp("/verif/.run", "c19-")
		if err != nil {
			return err
		}
		p.dir = d
		os.Setenv("XDG_DATA_HOME", d)
		os.Setenv("XDG_CONFIG_HOME", d)
		os.Setenv("HOME", d)
		c1, k1, err := selfSigned("secret.test")
		if err != nil {
			return err
		}
		if blk, _ := pem.Decode([]byte(c1)); blk != nil {
			p.foreignDER = blk.Bytes
		}
		c2, k2, err := selfSigned("public.test")
		if err != nil {
			return err
		}
		if p.e2eCert, err = tls.X509KeyPair([]byte(c2), []byte(k2)); err != nil {
			return err
		}
		c3, k3, err := selfSigned("*.secret.test")
		if err != nil {
			return err
		}
		c4, k4, err := selfSigned("xn--9ca.test")
		if err != nil {
			return err
		}
		tlsRaw, _ := json.Marshal(map[string]any{"certificates": map[string]any{"load_pem": []any{
			map[string]any{"certificate": c1, "key": k1}, map[string]any{"certificate": c2, "key": k2},
			map[string]any{"certificate": c3, "key": k3}, map[string]any{"certificate": c4, "key": k4}}}})
		cfg := &caddy.Config{Logging: &caddy.Logging{Logs: map[string]*caddy.CustomLog{
			"default": {BaseLog: caddy.BaseLog{WriterRaw: json.RawMessage(`{"output":"discard"}`)}},
		}}, AppsRaw: caddy.ModuleMap{"tls": tlsRaw}}
		ctx, err := caddy.ProvisionContext(cfg)
		if err != nil {
			return err
		}
		p.ctx = ctx
		for id := 0; id < nOpaque; id++ {
			name, raw := opaqueModule(id)
			v, err := ctx.LoadModuleByID("tls.handshake_match."+name, raw)
			if err != nil {
				return err
			}
			p.matchers[id] = v.(caddytls.ConnectionMatcher)
		}
		// a throw-away CA certificate for the trusted_ca_certs / inline ca shapes
		key, err := ecdsa.GenerateKey(elliptic.P256(), rand.Reader)
		if err != nil {
			return err
		}
		tmpl := &x509.Certificate{SerialNumber: big.NewInt(1), Subject: pkix.Name{CommonName: "c19"},
			NotBefore: time.Unix(0, 0), NotAfter: time.Unix(1<<33, 0), IsCA: true, BasicConstraintsValid: true,
			KeyUsage: x509.KeyUsageCertSign}
		der, err := x509.CreateCertificate(rand.Reader, tmpl, tmpl, &key.PublicKey, key)
		if err != nil {
			return err
		}
		p.caB64 = base64.StdEncoding.EncodeToString(der)
		p.caDER = der
		p.caPEM = string(pem.EncodeToMemory(&pem.Block{Type: "CERTIFICATE", Bytes: der}))
		p.caFile = d + "/c19-ca.pem"
		if err := os.WriteFile(p.caFile, []byte(p.caPEM), 0o600); err != nil {
			return err
		}
		p.live, err = p.probeLive()
		if err != nil {
			return err
		}
		return p.setupE2E()
	}()
	return p.initErr
}

func (p *prop) Finish(*core.Session) {
	if p.full.app != nil {
		p.full.app.Stop()
	}
	if p.conn.app != nil {
		p.conn.app.Stop()
	}
	if p.dir != "" {
		os.RemoveAll(p.dir)
	}
}

// probeLive decides on the real code whether the SNI index is ever populated: 31 policies,
// policy 0 without matchers, policy 5 `sni a.test`, all others `sni zz.test`; hello a.test.
// First-match answers policy 0; a populated index answers policy 5.
func (p *prop) probeLive() (bool, error) {
	var pols []policy
	for i := 0; i < 31; i++ {
		switch i {
		case 0:
			pols = append(pols, policy{flags: "-"})
		case 5:
			pols = append(pols, policy{flags: "-", hasSNI: true, names: []string{"a.test"}})
		default:
			pols = append(pols, policy{flags: "-", hasSNI: true, names: []string{"zz.test"}})
		}
	}
	cps, err := p.build(pols)
	if err != nil {
		return false, err
	}
	r := choiceOf(cps.TLSConfig(p.ctx).GetConfigForClient(mkHello("a.test", 0, 6)))
	switch r {
	case "c0":
		return false, nil
	case "c5":
		return true, nil
	}
	// neither: report "live" so that the model's answer differs visibly from an odd implementation
	return true, nil
}

// ---------------------------------------------------------------- parsing

type policy struct {
	flags  string
	hasSNI bool
	names  []string
	conv   []string // parallel to names: idna.ToASCII(name) for names that are not ASCII, else ""
	opq    []int
}

// idnaOK: every converted form a line carries is what idna.ToASCII answers now
func idnaOK(pols []policy) bool {
	for _, pl := range pols {
		for i, n := range pl.names {
			if i < len(pl.conv) && pl.conv[i] != "" {
				if a, err := idna.ToASCII(n); err != nil || a != pl.conv[i] {
					return false
				}
			}
		}
	}
	return true
}

// normNames: the names IDNA-normalised (what a client puts on the wire for them)
func (pl policy) normNames() []string {
	out := make([]string, len(pl.names))
	for i, n := range pl.names {
		out[i] = n
		if i < len(pl.conv) && pl.conv[i] != "" {
			out[i] = pl.conv[i]
		}
	}
	return out
}

func (pl policy) hasIDN() bool {
	for _, c := range pl.conv {
		if c != "" {
			return true
		}
	}
	return false
}

const clsIDN = "idn-sni-name-not-normalised"

func (pl policy) drop() bool { return strings.HasPrefix(pl.flags, "d") }
func (pl policy) authFlag() byte {
	f := strings.TrimPrefix(pl.flags, "d")
	if f == "" || f == "-" {
		return 0
	}
	return f[0]
}

// clientAuth: the policy requires / requests client certificates (what the property calls
// "a policy requiring client certificates"): any of the active shapes.
func (pl policy) clientAuth() bool {
	f := pl.authFlag()
	return f != 0 && strings.IndexByte(authShapes, f) >= 0
}

var okFlags = map[string]bool{"-": true, "d": true}

func init() {
	for _, c := range authShapes + "i" {
		okFlags[string(c)] = true
		okFlags["d"+string(c)] = true
	}
}

// asciiClean: the string is over the alphabet the model knows — ASCII plus the four non-ASCII
// characters ſ (U+017F), K (U+212A, Kelvin sign), É, é — and, if asked, has no braces.
func asciiClean(s string, noBraces bool) bool {
	for i := 0; i < len(s); {
		switch {
		case s[i] < 0x80:
			if noBraces && (s[i] == '{' || s[i] == '}') {
				return false
			}
			i++
		case strings.HasPrefix(s[i:], "\u017f"), strings.HasPrefix(s[i:], "\u00c9"), strings.HasPrefix(s[i:], "\u00e9"):
			i += 2
		case strings.HasPrefix(s[i:], "\u212a"):
			i += 3
		default:
			return false
		}
	}
	return true
}

func parsePolicies(s string) ([]policy, bool) {
	if s == "." {
		return nil, true
	}
	var out []policy
	for _, ps := range strings.Split(s, ";") {
		parts := strings.Split(ps, "/")
		if len(parts) != 3 || !okFlags[parts[0]] {
			return nil, false
		}
		pl := policy{flags: parts[0]}
		switch parts[1] {
		case "~":
		case ".":
			pl.hasSNI = true
		default:
			pl.hasSNI = true
			for _, tok := range strings.Split(parts[1], ",") {
				hc := strings.Split(tok, "=")
				if len(hc) > 2 || hc[0] == "" {
					return nil, false
				}
				n, err := core.UnHex(hc[0])
				if err != nil || !asciiClean(n, true) {
					return nil, false
				}
				conv := ""
				if len(hc) == 2 {
					conv, err = core.UnHex(hc[1])
					if err != nil || hc[1] == "" || !isASCII(conv) || !asciiClean(conv, true) {
						return nil, false
					}
				}
				// a converted form is carried exactly by the names that are not ASCII
				if isASCII(n) != (len(hc) == 1) {
					return nil, false
				}
				// an ASCII name with an ACE prefix is itself subject to IDNA validation at provision
				// time (invalid punycode is rejected): outside the model, which has no punycode
				if isASCII(n) && strings.Contains(asciiLower(n), "xn--") {
					return nil, false
				}
				pl.names = append(pl.names, n)
				pl.conv = append(pl.conv, conv)
			}
		}
		if parts[2] != "~" {
			if parts[2] == "" {
				return nil, false
			}
			last, kinds := -1, [3]bool{}
			for i := 0; i < len(parts[2]); i++ {
				c := parts[2][i]
				if c < 'a' || c > 'p' {
					return nil, false
				}
				id := int(c - 'a')
				if id <= last || kinds[opaqueKind(id)] {
					return nil, false
				}
				last = id
				kinds[opaqueKind(id)] = true
				pl.opq = append(pl.opq, id)
			}
		}
		out = append(out, pl)
	}
	return out, true
}

type hello struct {
	sni  string
	r, l int
	bits string
}

func parseHellos(s string) ([]hello, bool) {
	var out []hello
	for _, hs := range strings.Split(s, ";") {
		parts := strings.Split(hs, "/")
		if len(parts) != 4 || len(parts[1]) != 1 || len(parts[2]) != 1 || len(parts[3]) != nOpaque {
			return nil, false
		}
		sni, err := core.UnHex(parts[0])
		if err != nil || parts[0] == "" || !asciiClean(sni, false) {
			return nil, false
		}
		r, l := int(parts[1][0]-'0'), int(parts[2][0]-'0')
		if r < 0 || r > 7 || l < 0 || l > 7 {
			return nil, false
		}
		for i := 0; i < nOpaque; i++ {
			if parts[3][i] != '0' && parts[3][i] != '1' {
				return nil, false
			}
		}
		out = append(out, hello{sni, r, l, parts[3]})
	}
	return out, true
}

// ---------------------------------------------------------------- building the real objects

func (p *prop) policyJSON(i int, pl policy) map[string]any {
	m := map[string]any{"alpn": []string{"c19-" + strconv.Itoa(i)}}
	mm := map[string]any{}
	if pl.hasSNI {
		names := pl.names
		if names == nil {
			names = []string{}
		}
		mm["sni"] = names
	}
	for _, id := range pl.opq {
		name, raw := opaqueModule(id)
		mm[name] = raw
	}
	if len(mm) > 0 {
		m["match"] = mm
	}
	if pl.drop() {
		m["drop"] = true
	}
	if ca := p.clientAuthJSON(pl.authFlag()); ca != nil {
		m["client_authentication"] = ca
	}
	return m
}

// clientAuthJSON: the client_authentication block of a shape letter (nil: none).
func (p *prop) clientAuthJSON(shape byte) map[string]any {
	leaf := map[string]any{"verifier": "leaf"}
	leafPEM := map[string]any{"verifier": "leaf", "leaf_certs_loaders": []any{map[string]any{"loader": "pem", "certificates": []string{p.caPEM}}}}
	switch shape {
	case 'c':
		return map[string]any{"mode": "request"}
	case 'C':
		return map[string]any{"mode": "require"}
	case 'g':
		return map[string]any{"mode": "verify_if_given"}
	case 'k':
		return map[string]any{"trusted_ca_certs": []string{p.caB64}}
	case 'K':
		return map[string]any{"trusted_ca_certs": []string{p.caB64}, "mode": "require_and_verify"}
	case 'a':
		return map[string]any{"ca": map[string]any{"provider": "inline", "trusted_ca_certs": []string{p.caB64}}}
	case 'f':
		return map[string]any{"trusted_ca_certs_pem_files": []string{p.caFile}}
	case 'l':
		return map[string]any{"trusted_leaf_certs": []string{p.caB64}}
	case 'v':
		return map[string]any{"verifiers": []any{leaf}}
	case 'V':
		return map[string]any{"verifiers": []any{leafPEM}}
	case 'w':
		return map[string]any{"verifiers": []any{leafPEM}, "mode": "request"}
	case 'i':
		return map[string]any{}
	}
	return nil
}

func (p *prop) build(pols []policy) (caddytls.ConnectionPolicies, error) {
	arr := make([]any, len(pols))
	for i, pl := range pols {
		arr[i] = p.policyJSON(i, pl)
	}
	b, err := json.Marshal(arr)
	if err != nil {
		return nil, err
	}
	var cps caddytls.ConnectionPolicies
	if err := json.Unmarshal(b, &cps); err != nil {
		return nil, err
	}
	if err := cps.Provision(p.ctx); err != nil {
		return nil, err
	}
	return cps, nil
}

func choiceOf(cfg *tls.Config, err error) string {
	if err != nil {
		if strings.HasPrefix(err.Error(), "dropping connection") {
			return "drop"
		}
		if strings.HasPrefix(err.Error(), "no server TLS configuration available") {
			return "none"
		}
		return "err?"
	}
	if cfg == nil {
		return "nil?"
	}
	for _, np := range cfg.NextProtos {
		if strings.HasPrefix(np, "c19-") {
			return "c" + strings.TrimPrefix(np, "c19-")
		}
	}
	return "c?"
}

// ---------------------------------------------------------------- small reference helpers (oracle side)

// asciiLower is strings.ToLower on the model's alphabet, written from the Unicode tables rather
// than by calling it: A–Z ↦ a–z, K (Kelvin) ↦ k, É ↦ é; ſ (long s) is already lower case.
// Two names select the same TLS connection policies iff they are equal after this (foldEq).
func asciiLower(s string) string {
	s = strings.NewReplacer("\u212a", "k", "\u00c9", "\u00e9").Replace(s)
	b := []byte(s)
	for i, c := range b {
		if c >= 'A' && c <= 'Z' {
			b[i] = c + 32
		}
	}
	return string(b)
}

func isASCII(s string) bool {
	for i := 0; i < len(s); i++ {
		if s[i] >= 0x80 {
			return false
		}
	}
	return true
}

// unicodeFoldOnly: the known finding's signature — the SNI is not ASCII, differs from name after
// lower-casing (so it does not select name's connection policies), yet strings.EqualFold(sni, name).
func unicodeFoldOnly(sni, name string) bool {
	return !isASCII(sni) && !foldEq(sni, name) && strings.EqualFold(sni, name)
}

const clsUnicodeFold = "unicode-fold-sni-passes-strict-sni-host"

func foldEq(a, b string) bool { return asciiLower(a) == asciiLower(b) }

// ---------------------------------------------------------------- Run

func (p *prop) Run(line string) core.Outcome {
	if err := p.setup(); err != nil {
		return core.Outcome{Impl: "harness-setup-failed", Failures: []core.Failure{{Class: "harness-setup-failed", What: err.Error()}}}
	}
	var f []string
	for _, x := range strings.Split(line, " ") { // same field splitting as the Lean driver
		if x != "" {
			f = append(f, x)
		}
	}
	var o core.Outcome
	switch {
	case len(f) == 4 && f[0] == "pol":
		o = p.runPol(f)
	case len(f) == 5 && f[0] == "enf":
		o = p.runEnf(f)
	case len(f) == 5 && f[0] == "full":
		o = p.runFull(f)
	case len(f) == 6 && f[0] == "conn":
		o = p.runConn(f)
	case len(f) == 3 && f[0] == "res":
		o = p.runRes(f)
	case len(f) == 2 && f[0] == "quic":
		o = p.runQUIC(f)
	case len(f) == 2 && f[0] == "cf2":
		o = p.runCF2(f)
	case len(f) == 3 && f[0] == "cf":
		o = p.runCF(f)
	case len(f) == 2 && f[0] == "ca":
		o = p.runCA(f)
	case len(f) == 5 && f[0] == "e2e":
		o = p.runE2E(f)
	default:
		o = core.Outcome{Impl: "bad-op"}
	}
	if o.Impl == "bad-op" {
		o.Tags = []string{"bad-op", "trivial"}
	}
	return o
}

func (p *prop) runPol(f []string) core.Outcome {
	bad := core.Outcome{Impl: "bad-op"}
	if f[1] != "0" && f[1] != "1" {
		return bad
	}
	pols, ok := parsePolicies(f[2])
	if !ok {
		return bad
	}
	hellos, ok := parseHellos(f[3])
	if !ok {
		return bad
	}
	if !idnaOK(pols) {
		return core.Outcome{Impl: "idna-mismatch", Tags: []string{"idna-mismatch"}}
	}
	cps, err := p.build(pols)
	if err != nil {
		return core.Outcome{Impl: "provision-error", Failures: []core.Failure{{Class: "provision-error", What: err.Error()}}}
	}
	tlsCfg := cps.TLSConfig(p.ctx)
	var o core.Outcome
	tag := func(t string) { o.Tags = append(o.Tags, t) }
	fail := func(class, what string) {
		o.Failures = append(o.Failures, core.Failure{Class: class, What: what})
	}
	tag("pol")
	if len(pols) > 30 {
		tag("n>30")
	} else {
		tag("n<=30")
	}
	nontrivial := false
	for _, pl := range pols {
		if pl.hasSNI || len(pl.opq) > 0 {
			nontrivial = true
		}
	}
	if !nontrivial || len(pols) < 2 {
		tag("trivial")
	}
	live := "0"
	if p.live {
		live = "1"
	}
	if live != f[1] {
		tag("live-flag-differs-from-line")
	}
	out := []string{"live=" + live}
	for _, h := range hellos {
		hi := mkHello(h.sni, h.r, h.l)
		// --- observed verdicts of the real matcher modules must be the ones the line carries
		obs := make([]byte, nOpaque)
		for id := 0; id < nOpaque; id++ {
			obs[id] = '0'
			if p.matchers[id].Match(mkHello(h.sni, h.r, h.l)) {
				obs[id] = '1'
			}
			if (obs[id] == '1') != refVerdict(id, h.sni, h.r, h.l) {
				name, raw := opaqueModule(id)
				fail("matcher-verdict-wrong:"+name, fmt.Sprintf("%s %s answers %c for sni=%q remote=%s local=%s", name, raw, obs[id], h.sni, addrs[h.r], addrs[h.l]))
			}
		}
		if string(obs) != h.bits {
			out = append(out, "verdict-mismatch")
			tag("verdict-mismatch")
			continue
		}
		// --- the implementation's choice
		got := choiceOf(tlsCfg.GetConfigForClient(hi))
		out = append(out, got)
		// --- oracle: linear first-match over the configured order, each matcher asked on its own
		want, wantIdx := "none", -1
		exactLater := false
		for i, pl := range pols {
			m := true
			if pl.hasSNI {
				if pl.hasIDN() {
					// ask a matcher module loaded and provisioned the way the policy's own is
					m = p.sniModule(pl.names).Match(mkHello(h.sni, h.r, h.l))
				} else {
					m = caddytls.MatchServerName(pl.names).Match(mkHello(h.sni, h.r, h.l))
				}
				p.checkSNIMatcher(pl, h.sni, m, fail)
			}
			for _, id := range pl.opq {
				m = m && obs[id] == '1'
			}
			if m && wantIdx < 0 {
				wantIdx = i
				want = "c" + strconv.Itoa(i)
				if pl.drop() {
					want = "drop"
				}
			}
			if wantIdx >= 0 && i > wantIdx && pl.hasSNI {
				for _, n := range pl.names {
					if n == h.sni {
						exactLater = true
					}
				}
			}
		}
		switch {
		case wantIdx < 0:
			tag("res:none")
		case want == "drop":
			tag("res:drop")
		case wantIdx == 0:
			tag("res:first")
		default:
			tag("res:later")
		}
		if exactLater {
			tag("exact-sni-policy-shadowed-by-earlier-match")
			if len(pols) > 30 {
				tag("index-trap(n>30,shadowed-exact)")
			}
		}
		if wantIdx >= 0 && len(pols[wantIdx].opq) > 0 {
			tag("chosen-has-ip/regexp-matcher")
		}
		if got != want {
			refused := func(s string) bool { return s == "none" || s == "drop" }
			var class string
			switch {
			case refused(got) && refused(want):
				class = "" // both refuse the handshake; only the reason differs (correspondence will show it)
			case refused(got):
				class = "refused-though-a-policy-matches"
			case want == "drop" && got == "c"+strconv.Itoa(wantIdx):
				class = "drop-ignored"
			case refused(want):
				class = "policy-applied-though-first-match-refuses"
			case !strings.HasPrefix(got, "c") || got == "c?":
				class = "unknown-config-returned"
			default:
				gi, _ := strconv.Atoi(got[1:])
				if gi > wantIdx {
					class = "later-policy-chosen-over-first-match"
				} else {
					class = "non-matching-earlier-policy-chosen"
				}
			}
			if class != "" {
				fail(class, fmt.Sprintf("%d policies, hello sni=%q remote=%s local=%s: implementation answers %s, first match in configured order is %s",
					len(pols), h.sni, addrs[h.r], addrs[h.l], got, want))
			}
		}
	}
	o.Impl = strings.Join(out, " ")
	return o
}

// refWildcard is the documented rule for one configured name (certmagic.MatchWildcard, RFC 6125
// style, case-insensitive): equal names match; otherwise the name must contain `*` and equal the
// hello's name with its first k non-empty labels (k = 1, 2, …) each replaced by `*`.
// Written from the rule, independently of caddy/certmagic code.
func refWildcard(subject, wildcard string) bool {
	subject, wildcard = asciiLower(subject), asciiLower(wildcard)
	if subject == wildcard {
		return true
	}
	if !strings.Contains(wildcard, "*") {
		return false
	}
	labels := strings.Split(subject, ".")
	for i := range labels {
		if labels[i] == "" {
			continue
		}
		labels[i] = "*"
		if strings.Join(labels, ".") == wildcard {
			return true
		}
	}
	return false
}

// checkSNIMatcher: what the real sni matcher answers must be what the wildcard rule says (so that a
// broken matcher shows up as a concrete failing input, not only as a model disagreement).
func (p *prop) checkSNIMatcher(pl policy, sni string, got bool, fail func(string, string)) {
	want := false
	for _, n := range pl.normNames() {
		if refWildcard(sni, n) {
			want = true
		}
	}
	if want == got {
		return
	}
	switch {
	case pl.hasIDN():
		fail(clsIDN, fmt.Sprintf("sni %q (IDNA form %q) answers %v for hello %q; the rule applied to the IDNA form says %v", pl.names, pl.normNames(), got, sni, want))
	case want:
		fail("sni-matcher-misses-name", fmt.Sprintf("sni %q does not match hello %q although a listed name covers it", pl.names, sni))
	default:
		fail("sni-matcher-false-positive", fmt.Sprintf("sni %q matches hello %q although no listed name covers it", pl.names, sni))
	}
}

// sniModule loads a tls.handshake_match.sni module (provisioned by the real LoadModule machinery)
func (p *prop) sniModule(names []string) caddytls.ConnectionMatcher {
	raw, _ := json.Marshal(names)
	v, err := p.ctx.LoadModuleByID("tls.handshake_match.sni", raw)
	if err != nil {
		return caddytls.MatchServerName(names)
	}
	return v.(caddytls.ConnectionMatcher)
}

// ---------------------------------------------------------------- enforcement

type req struct {
	tls       bool
	viaConn   bool // r.TLS is nil; the connection in the request context reports the TLS state (ServeHTTP fills r.TLS in)
	sni, host string
}

// stateConn is a connection that knows its TLS state, as a listener wrapper's connection may
type stateConn struct {
	net.Conn
	st tls.ConnectionState
}

func (c stateConn) ConnectionState() tls.ConnectionState { return c.st }

func validSite(s string) bool {
	if s == "" {
		return false
	}
	for i := 0; i < len(s); i++ {
		c := s[i]
		if !(c >= 'a' && c <= 'z' || c >= '0' && c <= '9' || c == '.' || c == '*') {
			return false
		}
	}
	return true
}

// hostOnlyASCII: the Host without a `:digits` suffix (oracle side; only for plain shapes)
func hostOnlyASCII(h string) string {
	if m := wellFormedHost.FindStringSubmatch(h); m != nil {
		return m[1]
	}
	return h
}

var wellFormedHost = regexp.MustCompile(`^([A-Za-z0-9.-]*)(:[0-9]*)?$`)

func (p *prop) runEnf(f []string) core.Outcome {
	bad := core.Outcome{Impl: "bad-op"}
	if f[1] != "n" && f[1] != "t" && f[1] != "f" {
		return bad
	}
	pols, ok := parsePolicies(f[2])
	if !ok {
		return bad
	}
	if !idnaOK(pols) {
		return core.Outcome{Impl: "idna-mismatch", Tags: []string{"idna-mismatch"}}
	}
	var sites []string
	if f[3] != "." {
		seen := map[string]bool{}
		for _, h := range strings.Split(f[3], ",") {
			s, err := core.UnHex(h)
			if err != nil || !validSite(s) || seen[s] {
				return bad
			}
			seen[s] = true
			sites = append(sites, s)
		}
	}
	var reqs []req
	for _, rs := range strings.Split(f[4], ";") {
		parts := strings.Split(rs, "/")
		if len(parts) != 3 || (parts[0] != "0" && parts[0] != "1" && parts[0] != "2") || parts[1] == "" || parts[2] == "" {
			return bad
		}
		sni, e1 := core.UnHex(parts[1])
		host, e2 := core.UnHex(parts[2])
		if e1 != nil || e2 != nil || !asciiClean(sni, false) || !asciiClean(host, false) {
			return bad
		}
		reqs = append(reqs, req{parts[0] != "0", parts[0] == "2", sni, host})
	}

	// ---- the real server, provisioned by the real http app
	srvCfg := map[string]any{"listen": []string{":443"}, "automatic_https": map[string]any{"disable": true}}
	switch f[1] {
	case "t":
		srvCfg["strict_sni_host"] = true
	case "f":
		srvCfg["strict_sni_host"] = false
	}
	var routes []any
	for i, s := range sites {
		routes = append(routes, map[string]any{
			"match":    []any{map[string]any{"host": []string{s}}},
			"handle":   []any{map[string]any{"handler": "verif_c19_probe", "site": strconv.Itoa(i)}},
			"terminal": true,
		})
	}
	routes = append(routes, map[string]any{"handle": []any{map[string]any{"handler": "verif_c19_probe", "site": "*"}}})
	srvCfg["routes"] = routes
	if len(pols) > 0 {
		arr := make([]any, len(pols))
		for i, pl := range pols {
			arr[i] = p.policyJSON(i, pl)
		}
		srvCfg["tls_connection_policies"] = arr
	}
	raw, _ := json.Marshal(map[string]any{"servers": map[string]any{"s": srvCfg}})
	v, err := p.ctx.LoadModuleByID("http", raw)
	if err != nil {
		return core.Outcome{Impl: "provision-error", Failures: []core.Failure{{Class: "provision-error", What: err.Error()}}}
	}
	srv := v.(*caddyhttp.App).Servers["s"]

	var o core.Outcome
	tag := func(t string) { o.Tags = append(o.Tags, t) }
	fail := func(class, what string) {
		o.Failures = append(o.Failures, core.Failure{Class: class, What: what})
	}
	tag("enf")
	tag("strict-cfg:" + f[1])
	obsStrict := srv.StrictSNIHost != nil && *srv.StrictSNIHost
	anyAuth := false
	for _, pl := range pols {
		if pl.clientAuth() {
			anyAuth = true
			tag("auth-shape:" + string(pl.authFlag()))
		}
		if pl.authFlag() == 'i' {
			tag("auth-shape:i(inactive)")
		}
	}
	// the property: in effect when configured, and BY DEFAULT when a policy requires client certs
	wantStrict := f[1] == "t" || (f[1] == "n" && anyAuth)
	if f[1] == "n" && anyAuth {
		tag("auto-enabled")
	}
	out := []string{"strict=" + map[bool]string{false: "0", true: "1"}[obsStrict]}
	for _, rq := range reqs {
		r := httptest.NewRequest("GET", "https://placeholder.invalid/", nil)
		r.Host = rq.host
		r.TLS = nil
		if rq.viaConn {
			r = r.WithContext(context.WithValue(r.Context(), caddyhttp.ConnCtxKey, net.Conn(stateConn{st: tls.ConnectionState{ServerName: rq.sni}})))
			tag("req:tls-state-from-conn")
		} else if rq.tls {
			r.TLS = &tls.ConnectionState{ServerName: rq.sni}
		}
		rec := httptest.NewRecorder()
		srv.ServeHTTP(rec, r)
		site := rec.Header().Get("X-C19-Site")
		var res string
		switch {
		case rec.Code == 200 && site != "":
			res = "in:" + site
		case rec.Code == http.StatusMisdirectedRequest && site == "":
			res = "421"
		default:
			res = "s" + strconv.Itoa(rec.Code)
		}
		out = append(out, res)
		if !rq.tls {
			tag("req:plain")
		} else if res == "421" {
			tag("req:421")
		} else if obsStrict {
			tag("req:strict-pass")
			if rq.host != rq.sni {
				tag("req:strict-pass,host!=sni(case/port)")
			}
		} else {
			tag("req:tls-not-strict")
		}
		// ---- oracle: under (expected) strict checking a TLS request that reaches a handler was
		// routed by a host that IS the connection's SNI (ASCII case-insensitively)
		if wantStrict && rq.tls && strings.HasPrefix(res, "in:") {
			if strings.ContainsAny(rq.sni, "[]") {
				// An SNI with a bracket cannot belong to an established connection on this tree
				// (certmagic's GetCertificate rejects it; the e2e cases check that with real
				// handshakes), so what happens to it is outside the property. The latent mismatch
				// (enforcementHandler compares the raw Host, MatchHost strips one bracket) is counted.
				if site != "*" {
					if k, _ := strconv.Atoi(site); k < len(sites) && !foldEq(sites[k], rq.sni) {
						tag("latent:bracketed-sni-routed-to-unbracketed-site")
					}
				}
			} else if site != "*" {
				k, _ := strconv.Atoi(site)
				// the SNI must be covered by the TLS-side reading of the site's name / pattern
				// (a connection policy `sni <site>` would apply to this connection)
				if k < len(sites) && strings.Contains(sites[k], "*") && !leftmostWildcard(sites[k]) {
					// observation, not this property: an sni name with a wildcard that is not a
					// left-most label prefix matches nothing on the TLS side at all
					tag("observation:non-leftmost-wildcard-site")
				} else if k < len(sites) && !refWildcard(rq.sni, sites[k]) {
					class := "strict-sni-host-bypass"
					if obsStrict && unicodeFoldOnly(rq.sni, sites[k]) {
						class = clsUnicodeFold
					}
					if obsStrict && hasEmptyLabel(rq.sni) && refHostWildcard(rq.sni, sites[k]) {
						class = clsEmptyLabel
					}
					fail(class, fmt.Sprintf("strict SNI-Host in effect, connection SNI %q, Host %q: request was routed to the handler of site %q, whose name does not select the same connection policies as that SNI", rq.sni, rq.host, sites[k]))
				}
			} else if m := wellFormedHost.FindStringSubmatch(rq.host); m != nil && !foldEq(m[1], rq.sni) {
				class := "strict-sni-host-mismatch-reaches-handler"
				if obsStrict && unicodeFoldOnly(rq.sni, m[1]) {
					class = clsUnicodeFold
				}
				fail(class, fmt.Sprintf("strict SNI-Host in effect, connection SNI %q, Host %q names %q: request reached the catch-all handler", rq.sni, rq.host, m[1]))
			}
		}
	}
	// reported after the concrete bypasses it causes (if any), so that those come first
	if wantStrict && !obsStrict {
		fail("strict-sni-host-not-enabled", fmt.Sprintf("strict_sni_host=%s, client-auth policy present=%v, but the provisioned server does not enforce strict SNI-Host", f[1], anyAuth))
	}
	o.Impl = strings.Join(out, " ")
	return o
}

// ---------------------------------------------------------------- end to end (real handshake)

func (p *prop) setupE2E() error {
	for k, shape := range []byte{'C', 'V', 'l', 'C', 'C'} {
		pols := []any{
			map[string]any{"alpn": []string{"c19-0"}, "match": map[string]any{"sni": []string{e2eConfigured(k)[0]}},
				"client_authentication": p.clientAuthJSON(shape)},
			map[string]any{"alpn": []string{"c19-1"}, "fallback_sni": "public.test"},
		}
		var routes []any
		for i, s := range e2eConfigured(k) {
			routes = append(routes, map[string]any{
				"match":    []any{map[string]any{"host": []string{s}}},
				"handle":   []any{map[string]any{"handler": "verif_c19_probe", "site": strconv.Itoa(i)}},
				"terminal": true,
			})
		}
		routes = append(routes, map[string]any{"handle": []any{map[string]any{"handler": "verif_c19_probe", "site": "*"}}})
		raw, _ := json.Marshal(map[string]any{"servers": map[string]any{"s": map[string]any{
			"listen": []string{":443"}, "automatic_https": map[string]any{"disable": true},
			"routes": routes, "tls_connection_policies": pols}}})
		v, err := p.ctx.LoadModuleByID("http", raw)
		if err != nil {
			return err
		}
		p.e2eSrv[k] = v.(*caddyhttp.App).Servers["s"]
		p.e2eTLS[k] = p.e2eSrv[k].TLSConnPolicies.TLSConfig(p.ctx)
	}
	return nil
}

// handshake performs a real TLS handshake (client sends sni, offers both markers, has no certificate).
func (p *prop) handshake(k int, sni string) (hs string, st tls.ConnectionState) {
	c1, c2 := net.Pipe()
	dl := time.Now().Add(3 * time.Second)
	c1.SetDeadline(dl)
	c2.SetDeadline(dl)
	cli := tls.Client(c1, &tls.Config{ServerName: sni, InsecureSkipVerify: true, NextProtos: []string{"c19-0", "c19-1"}})
	srv := tls.Server(c2, p.e2eTLS[k])
	done := make(chan struct{})
	go func() {
		defer close(done)
		if cli.Handshake() == nil {
			// TLS 1.3: the client is done before the server has judged it; wait for its verdict
			buf := make([]byte, 1)
			cli.Read(buf)
		}
	}()
	err := srv.Handshake()
	if err == nil {
		st = srv.ConnectionState()
	}
	c2.Close()
	c1.Close()
	<-done
	if err != nil {
		return "f", st
	}
	if strings.HasPrefix(st.NegotiatedProtocol, "c19-") {
		return "p" + strings.TrimPrefix(st.NegotiatedProtocol, "c19-"), st
	}
	return "p?", st
}

// e2eSNIOK is the (deliberately simple, mirrored in the Lean driver) rule for SNIs of e2e cases:
// non-empty, no trailing dot, no '%', and a letter g-z/G-Z — which implies sniSendable.
func e2eSNIOK(s string) bool {
	if s == "" || strings.HasSuffix(s, ".") || strings.Contains(s, "%") {
		return false
	}
	for i := 0; i < len(s); i++ {
		if c := s[i] | 0x20; c >= 'g' && c <= 'z' && (s[i] >= 'A') {
			return sniSendable(s)
		}
	}
	return false
}

// sniSendable: Go's client puts the name on the wire unchanged iff it is not an IP literal and
// has no trailing dot (crypto/tls hostnameInSNI).
func sniSendable(s string) bool {
	if s == "" || strings.HasSuffix(s, ".") {
		return false
	}
	h := s
	if len(h) > 0 && h[0] == '[' && h[len(h)-1] == ']' {
		h = h[1 : len(h)-1]
	}
	if i := strings.LastIndex(h, "%"); i > 0 {
		h = h[:i]
	}
	return net.ParseIP(h) == nil
}

func (p *prop) runE2E(f []string) core.Outcome {
	bad := core.Outcome{Impl: "bad-op"}
	if len(f[1]) != 1 || f[1][0] < '0' || f[1][0] >= '0'+nE2ESrv {
		return bad
	}
	k := int(f[1][0] - '0')
	f = f[1:]
	if f[1] != "f" && f[1] != "p0" && f[1] != "p1" {
		return bad
	}
	sni, e1 := core.UnHex(f[2])
	host, e2 := core.UnHex(f[3])
	if e1 != nil || e2 != nil || f[2] == "" || f[3] == "" || !asciiClean(sni, false) || !asciiClean(host, false) || !e2eSNIOK(sni) {
		return bad
	}
	var o core.Outcome
	tag := func(t string) { o.Tags = append(o.Tags, t) }
	fail := func(class, what string) {
		o.Failures = append(o.Failures, core.Failure{Class: class, What: what})
	}
	tag("e2e")
	tag("e2e:srv" + strconv.Itoa(k))
	hs, st := p.handshake(k, sni)
	tag("e2e:hs=" + hs)
	if hs != f[1] {
		tag("e2e:handshake-result-differs-from-line")
	}
	if hs == "f" {
		o.Impl = "hs=f"
		return o
	}
	// ---- oracle on the handshake itself
	if st.ServerName != sni {
		fail("connection-state-sni-differs", fmt.Sprintf("client sent SNI %q, server ConnectionState.ServerName is %q", sni, st.ServerName))
	}
	if strings.ContainsAny(sni, "[]") {
		fail("bracketed-sni-completes-handshake", fmt.Sprintf("a handshake with SNI %q completed (under policy %s); strict SNI-Host does not bind bracketed names", sni, hs))
	}
	if refWildcard(sni, e2eSitesOf(k)[0]) && hs != "p0" {
		cls := "later-policy-chosen-over-first-match"
		if k == 4 {
			cls = clsIDN
		}
		fail(cls, fmt.Sprintf("real handshake with SNI %q completed under policy %s; first match is the client-auth policy 0", sni, hs))
	}
	if hs == "p0" {
		fail("client-auth-handshake-completes-without-certificate", fmt.Sprintf("handshake with SNI %q completed under the client-auth policy although the client has no certificate", sni))
	}
	r := httptest.NewRequest("GET", "https://placeholder.invalid/", nil)
	r.Host = host
	r.TLS = &st
	rec := httptest.NewRecorder()
	srv := p.e2eSrv[k]
	obsStrict := srv.StrictSNIHost != nil && *srv.StrictSNIHost
	srv.ServeHTTP(rec, r)
	site := rec.Header().Get("X-C19-Site")
	var res string
	switch {
	case rec.Code == 200 && site != "":
		res = "in:" + site
	case rec.Code == http.StatusMisdirectedRequest && site == "":
		res = "421"
	default:
		res = "s" + strconv.Itoa(rec.Code)
	}
	tag("e2e:" + strings.SplitN(res, ":", 2)[0])
	// ---- the property, end to end: the client has no certificate, so the handler of the
	// client-auth site must never be entered
	if res == "in:0" {
		class := "client-auth-site-reached-without-certificate"
		if obsStrict && unicodeFoldOnly(sni, e2eSites[0]) {
			class = clsUnicodeFold
		}
		if obsStrict && k == 4 && foldEq(sni, e2eSitesOf(k)[0]) {
			class = clsIDN
		}
		if obsStrict && k == 3 && hasEmptyLabel(sni) && refHostWildcard(sni, e2eSitesOf(k)[0]) {
			class = clsEmptyLabel
		}
		fail(class, fmt.Sprintf("connection SNI %q (policy %s, no client certificate), Host %q: request reached the handler of %s", sni, hs, host, e2eSitesOf(k)[0]))
	}
	if !obsStrict {
		fail("strict-sni-host-not-enabled", fmt.Sprintf("e2e server %d (client-auth shape %c) has a client-auth policy and no explicit strict_sni_host, but does not enforce strict SNI-Host", k, "CVlCC"[k]))
	}
	o.Impl = "hs=" + hs + " strict=" + map[bool]string{false: "0", true: "1"}[obsStrict] + " " + res
	return o
}

// ---------------------------------------------------------------- client_authentication, field by field

var caModes = []string{"", "request", "require", "verify_if_given", "require_and_verify", "bogus_mode"}

func b01(b bool) string {
	if b {
		return "1"
	}
	return "0"
}

func (p *prop) runCA(f []string) core.Outcome {
	bad := core.Outcome{Impl: "bad-op"}
	d := f[1]
	if len(d) != 7 {
		return bad
	}
	lim := "1222215"
	for i := 0; i < 7; i++ {
		if d[i] < '0' || d[i] > lim[i] {
			return bad
		}
	}
	if d[0] == '0' && d != "0000000" {
		return bad
	}
	var o core.Outcome
	tag := func(t string) { o.Tags = append(o.Tags, t) }
	fail := func(class, what string) {
		o.Failures = append(o.Failures, core.Failure{Class: class, What: what})
	}
	tag("ca")
	pol := map[string]any{"alpn": []string{"c19-0"}, "match": map[string]any{"sni": []string{"secret.test"}}}
	var block map[string]any
	if d[0] == '1' {
		block = map[string]any{}
		switch d[1] {
		case '1':
			block["ca"] = map[string]any{"provider": "inline", "trusted_ca_certs": []string{p.caB64}}
		case '2':
			block["ca"] = map[string]any{"provider": "inline", "trusted_ca_certs": []string{"!!!not-base64!!!"}}
		}
		switch d[2] {
		case '1':
			block["trusted_ca_certs"] = []string{p.caB64}
		case '2':
			block["trusted_ca_certs"] = []string{"!!!not-base64!!!"}
		}
		switch d[3] {
		case '1':
			block["trusted_ca_certs_pem_files"] = []string{p.caFile}
		case '2':
			block["trusted_ca_certs_pem_files"] = []string{p.dir + "/does-not-exist.pem"}
		}
		switch d[4] {
		case '1':
			block["trusted_leaf_certs"] = []string{p.caB64}
		case '2':
			block["trusted_leaf_certs"] = []string{"!!!not-base64!!!"}
		}
		if d[5] == '1' {
			block["verifiers"] = []any{map[string]any{"verifier": "leaf", "leaf_certs_loaders": []any{map[string]any{"loader": "pem", "certificates": []string{p.caPEM}}}}}
		}
		if m := caModes[d[6]-'0']; m != "" {
			block["mode"] = m
		}
		pol["client_authentication"] = block
	}
	raw, _ := json.Marshal([]any{pol})
	var cps caddytls.ConnectionPolicies
	if err := json.Unmarshal(raw, &cps); err != nil {
		return core.Outcome{Impl: "harness-json-error"}
	}
	before := cps[0].ClientAuthentication != nil && cps[0].ClientAuthentication.Active()
	if err := cps.Provision(p.ctx); err != nil {
		tag("ca:err")
		// the http app must refuse the same block
		if _, err2 := p.loadServer("n", []any{pol, map[string]any{"alpn": []string{"c19-1"}}}, nil); err2 == nil {
			return core.Outcome{Impl: "err-policy-but-app-ok", Tags: o.Tags}
		}
		o.Impl = "err"
		return o
	}
	cfg := cps[0].TLSConfig
	after := cps[0].ClientAuthentication != nil && cps[0].ClientAuthentication.Active()
	ver := false
	if cfg.VerifyPeerCertificate != nil {
		ver = cfg.VerifyPeerCertificate([][]byte{p.foreignDER}, nil) != nil
	}
	srv, err := p.loadServer("n", []any{pol, map[string]any{"alpn": []string{"c19-1"}}}, nil)
	if err != nil {
		return core.Outcome{Impl: "app-err", Tags: o.Tags}
	}
	strict := srv.StrictSNIHost != nil && *srv.StrictSNIHost
	o.Impl = fmt.Sprintf("before=%s auth=%d cas=%s vpc=%s tix=%s ver=%s after=%s strict=%s", b01(before), int(cfg.ClientAuth),
		b01(cfg.ClientCAs != nil), b01(cfg.VerifyPeerCertificate != nil), b01(cfg.SessionTicketsDisabled), b01(ver), b01(after), b01(strict))
	tag(fmt.Sprintf("ca:auth=%d", int(cfg.ClientAuth)))
	if before != after {
		tag("ca:active-changes-with-provisioning")
	}
	if d == "0000000" || d == "1000000" {
		tag("trivial")
	}
	// ---- oracle, on the real tls.Config (not on Active()): a policy that asks clients for a
	// certificate puts strict SNI-Host in effect by default
	if cfg.ClientAuth != tls.NoClientCert && !strict {
		fail("strict-sni-host-not-enabled", fmt.Sprintf("client_authentication %s builds a tls.Config with ClientAuth=%v, strict_sni_host is not set, but the provisioned server does not enforce strict SNI-Host", mustJSON(block), cfg.ClientAuth))
	}
	// a configured certificate verifier (verifier module / trusted leaf certificate) is in force
	if (d[5] == '1' || d[4] == '1') && !ver {
		fail("client-cert-verifier-not-installed", fmt.Sprintf("client_authentication %s: a foreign client certificate passes VerifyPeerCertificate", mustJSON(block)))
	}
	// any trust material or verifier without a mode must REQUIRE a certificate
	if d[6] == '0' && d[1:6] != "00000" && cfg.ClientAuth != tls.RequireAnyClientCert && cfg.ClientAuth != tls.RequireAndVerifyClientCert {
		fail("client-cert-not-required", fmt.Sprintf("client_authentication %s (no mode): ClientAuth=%v does not require a certificate", mustJSON(block), cfg.ClientAuth))
	}
	return o
}

func mustJSON(v any) string {
	b, _ := json.Marshal(v)
	if len(b) > 300 {
		b = append(b[:300], "..."...)
	}
	return string(b)
}

// loadServer provisions a real http app with one server: strict n|t|f, the given policies, routes per site + catch-all.
func (p *prop) loadServer(strict string, pols []any, sites []string) (*caddyhttp.Server, error) {
	srvCfg := map[string]any{"listen": []string{":443"}, "automatic_https": map[string]any{"disable": true}}
	switch strict {
	case "t":
		srvCfg["strict_sni_host"] = true
	case "f":
		srvCfg["strict_sni_host"] = false
	}
	var routes []any
	for i, s := range sites {
		routes = append(routes, map[string]any{
			"match":    []any{map[string]any{"host": []string{s}}},
			"handle":   []any{map[string]any{"handler": "verif_c19_probe", "site": strconv.Itoa(i)}},
			"terminal": true,
		})
	}
	routes = append(routes, map[string]any{"handle": []any{map[string]any{"handler": "verif_c19_probe", "site": "*"}}})
	srvCfg["routes"] = routes
	if len(pols) > 0 {
		srvCfg["tls_connection_policies"] = pols
	}
	raw, _ := json.Marshal(map[string]any{"servers": map[string]any{"s": srvCfg}})
	v, err := p.ctx.LoadModuleByID("http", raw)
	if err != nil {
		return nil, err
	}
	return v.(*caddyhttp.App).Servers["s"], nil
}

// ---------------------------------------------------------------- Caddyfile glue

var cfNames = []string{"a.test", "b.test", "secret.test", "k.test", "*.w.test", "\u00e9.test"}

// cfInstances: the names a client uses for site idx — the name itself; for the wildcard site an
// instance and the empty-label non-instance; for the IDN site (written in Unicode form) its A-label
func cfInstances(idx int) []string {
	switch idx {
	case 4:
		return []string{"x.w.test", ".w.test"}
	case 5:
		return []string{"xn--9ca.test"}
	}
	return []string{cfNames[idx]}
}

func (p *prop) cfSub(c byte) (string, bool) {
	missing := p.dir + "/does-not-exist.pem"
	switch c {
	case 'r':
		return "mode request", true
	case 'q':
		return "mode require", true
	case 'g':
		return "mode verify_if_given", true
	case 'R':
		return "mode require_and_verify", true
	case 'x':
		return "mode bogus_mode", true
	case 'k':
		return "trusted_ca_cert " + p.caB64, true
	case 'K':
		return "trusted_ca_cert !!!not-base64!!!", true
	case 'f':
		return "trusted_ca_cert_file " + p.caFile, true
	case 'F':
		return "trusted_ca_cert_file " + missing, true
	case 'l':
		return "trusted_leaf_cert " + p.caB64, true
	case 'M':
		return "trusted_leaf_cert !!!not-base64!!!", true
	case 'j':
		return "trusted_leaf_cert_file " + p.caFile, true
	case 'J':
		return "trusted_leaf_cert_file " + missing, true
	case 'p':
		return "trust_pool inline {\n\t\t\t\ttrust_der " + p.caB64 + "\n\t\t\t}", true
	case 'P':
		return "trust_pool inline {\n\t\t\t\ttrust_der !!!not-base64!!!\n\t\t\t}", true
	case 'v':
		return "verifier verif_c19", true
	}
	return "", false
}

type cfSite struct {
	idx  int
	subs string // "~", ".", or letters
}

func (p *prop) runCF(f []string) core.Outcome {
	bad := core.Outcome{Impl: "bad-op"}
	var opt string
	switch f[1] {
	case "n":
	case "b":
		opt = "strict_sni_host"
	case "t":
		opt = "strict_sni_host on"
	case "f":
		opt = "strict_sni_host insecure_off"
	case "x":
		opt = "strict_sni_host off"
	default:
		return bad
	}
	var sites []cfSite
	seen := map[int]bool{}
	for _, ss := range strings.Split(f[2], ";") {
		parts := strings.Split(ss, "/")
		if len(parts) != 2 || len(parts[0]) != 1 || parts[0][0] < '0' || parts[0][0] > '5' || parts[1] == "" {
			return bad
		}
		i := int(parts[0][0] - '0')
		if seen[i] {
			return bad
		}
		seen[i] = true
		if parts[1] != "~" && parts[1] != "." {
			for k := 0; k < len(parts[1]); k++ {
				if _, ok := p.cfSub(parts[1][k]); !ok {
					return bad
				}
			}
		}
		sites = append(sites, cfSite{i, parts[1]})
	}
	var o core.Outcome
	tag := func(t string) { o.Tags = append(o.Tags, t) }
	fail := func(class, what string) {
		o.Failures = append(o.Failures, core.Failure{Class: class, What: what})
	}
	tag("cf")
	tag("cf:strictopt=" + f[1])
	// ---- the Caddyfile
	var sb strings.Builder
	sb.WriteString("{\n\tauto_https off\n")
	if opt != "" {
		sb.WriteString("\tservers {\n\t\t" + opt + "\n\t}\n")
	}
	sb.WriteString("}\n")
	anyBlock := false
	for k, st := range sites {
		fmt.Fprintf(&sb, "https://%s {\n", cfNames[st.idx])
		if st.subs != "~" {
			anyBlock = true
			sb.WriteString("\ttls {\n\t\tclient_auth {\n")
			if st.subs != "." {
				for j := 0; j < len(st.subs); j++ {
					line, _ := p.cfSub(st.subs[j])
					sb.WriteString("\t\t\t" + line + "\n")
				}
			}
			sb.WriteString("\t\t}\n\t}\n")
		}
		fmt.Fprintf(&sb, "\trespond \"S%d\"\n}\n", k)
	}
	if !anyBlock {
		tag("trivial")
	}
	adapter := caddyconfig.GetAdapter("caddyfile")
	if adapter == nil {
		return core.Outcome{Impl: "harness-no-caddyfile-adapter"}
	}
	cfgJSON, _, err := adapter.Adapt([]byte(sb.String()), map[string]any{"filename": "Caddyfile"})
	if err != nil {
		tag("cf:err:adapt")
		o.Impl = "err:adapt"
		return o
	}
	var top struct {
		Apps map[string]json.RawMessage `json:"apps"`
	}
	if err := json.Unmarshal(cfgJSON, &top); err != nil || top.Apps["http"] == nil {
		return core.Outcome{Impl: "harness-adapted-json-unreadable"}
	}
	v, err := p.ctx.LoadModuleByID("http", top.Apps["http"])
	if err != nil {
		tag("cf:err:provision")
		o.Impl = "err:provision"
		return o
	}
	app := v.(*caddyhttp.App)
	var srv *caddyhttp.Server
	for _, sv := range app.Servers {
		if len(sv.TLSConnPolicies) > 0 || srv == nil {
			srv = sv
		}
	}
	if srv == nil || len(app.Servers) != 1 {
		return core.Outcome{Impl: fmt.Sprintf("unexpected-servers:%d", len(app.Servers))}
	}
	strict := srv.StrictSNIHost != nil && *srv.StrictSNIHost
	tlsCfg := srv.TLSConnPolicies.TLSConfig(p.ctx)
	var names []string // what clients send: instances of the site names
	for _, st := range sites {
		names = append(names, cfInstances(st.idx)...)
	}
	probes := append(append([]string{}, names...), "zz.test")
	var auths strings.Builder
	var served []string
	anyCert := false
	authOf := map[string]tls.ClientAuthType{}
	for _, sni := range probes {
		cfg, err := tlsCfg.GetConfigForClient(mkHello(sni, 0, 6))
		if err != nil || cfg == nil {
			auths.WriteString("-")
			continue
		}
		auths.WriteString(strconv.Itoa(int(cfg.ClientAuth)))
		authOf[sni] = cfg.ClientAuth
		if cfg.ClientAuth != tls.NoClientCert {
			anyCert = true
		}
	}
	for _, sni := range probes {
		for _, host := range names {
			r := httptest.NewRequest("GET", "https://placeholder.invalid/", nil)
			r.Host = host
			r.TLS = &tls.ConnectionState{ServerName: sni}
			rec := httptest.NewRecorder()
			srv.ServeHTTP(rec, r)
			body := rec.Body.String()
			var res string
			switch {
			case rec.Code == 200 && strings.HasPrefix(body, "S"):
				res = "in:" + body[1:]
			case rec.Code == 200 && body == "":
				res = "in:*"
			case rec.Code == http.StatusMisdirectedRequest:
				res = "421"
			default:
				res = "s" + strconv.Itoa(rec.Code)
			}
			served = append(served, res)
			// ---- the property through the Caddyfile: a request routed to a site whose own
			// connection policy asks for a client certificate arrived on a connection whose policy
			// asked for one too (same ClientAuth type), unless strict checking was switched off
			if f[1] != "f" && strings.HasPrefix(res, "in:") && res != "in:*" {
				if k, err := strconv.Atoi(res[3:]); err == nil && k < len(sites) && sites[k].subs != "~" && sites[k].subs != "." && authOf[sni] == tls.NoClientCert {
					class := "client-auth-site-reached-under-other-policy"
					if sites[k].idx == 5 {
						class = clsIDN
					}
					fail(class, fmt.Sprintf("Caddyfile:\n%s\nSNI %q (its connection policy asks for no client certificate), Host %q: request reached the handler of site %s, which has a client_auth block", sb.String(), sni, host, cfNames[sites[k].idx]))
				}
			}
		}
	}
	if anyCert && f[1] != "f" && !strict {
		fail("strict-sni-host-not-enabled", fmt.Sprintf("Caddyfile:\n%s\na connection policy asks for client certificates, strict_sni_host is not switched off, but the server does not enforce strict SNI-Host", sb.String()))
	}
	if anyCert {
		tag("cf:some-policy-asks-for-cert")
	}
	o.Impl = "strict=" + b01(strict) + " a=" + auths.String() + " r=" + strings.Join(served, ",")
	return o
}

// ---------------------------------------------------------------- one site block, two servers

const clsAliasing = "multi-port-block-policy-aliasing"

func (p *prop) runCF2(f []string) core.Outcome {
	subs := f[1]
	if subs == "" {
		return core.Outcome{Impl: "bad-op"}
	}
	if subs != "." {
		for k := 0; k < len(subs); k++ {
			if _, ok := p.cfSub(subs[k]); !ok {
				return core.Outcome{Impl: "bad-op"}
			}
		}
	}
	var o core.Outcome
	tag := func(t string) { o.Tags = append(o.Tags, t) }
	fail := func(class, what string) {
		o.Failures = append(o.Failures, core.Failure{Class: class, What: what})
	}
	tag("cf2")
	var sb strings.Builder
	sb.WriteString("{\n\tauto_https off\n}\na.test:443, b.test:8443 {\n\ttls {\n\t\tclient_auth {\n")
	if subs != "." {
		for j := 0; j < len(subs); j++ {
			line, _ := p.cfSub(subs[j])
			sb.WriteString("\t\t\t" + line + "\n")
		}
	}
	sb.WriteString("\t\t}\n\t}\n\trespond \"S0\"\n}\n")
	adapter := caddyconfig.GetAdapter("caddyfile")
	cfgJSON, _, err := adapter.Adapt([]byte(sb.String()), map[string]any{"filename": "Caddyfile"})
	if err != nil {
		o.Impl = "err:adapt"
		return o
	}
	var top struct {
		Apps map[string]json.RawMessage `json:"apps"`
	}
	if err := json.Unmarshal(cfgJSON, &top); err != nil || top.Apps["http"] == nil {
		return core.Outcome{Impl: "harness-adapted-json-unreadable"}
	}
	v, err := p.ctx.LoadModuleByID("http", top.Apps["http"])
	if err != nil {
		o.Impl = "err:provision"
		return o
	}
	app := v.(*caddyhttp.App)
	var out []string
	for _, sv := range []struct{ label, listen, own, other string }{{"A", ":443", "a.test", "b.test"}, {"B", ":8443", "b.test", "a.test"}} {
		var srv *caddyhttp.Server
		for _, s := range app.Servers {
			if len(s.Listen) == 1 && s.Listen[0] == sv.listen {
				srv = s
			}
		}
		if srv == nil {
			return core.Outcome{Impl: "no-server-for-" + sv.listen}
		}
		strict := srv.StrictSNIHost != nil && *srv.StrictSNIHost
		tlsCfg := srv.TLSConnPolicies.TLSConfig(p.ctx)
		auth := func(sni string) (string, tls.ClientAuthType) {
			cfg, err := tlsCfg.GetConfigForClient(mkHello(sni, 0, 6))
			if err != nil || cfg == nil {
				return "-", tls.NoClientCert
			}
			return strconv.Itoa(int(cfg.ClientAuth)), cfg.ClientAuth
		}
		aOwn, tOwn := auth(sv.own)
		aOther, _ := auth(sv.other)
		r := httptest.NewRequest("GET", "https://placeholder.invalid/", nil)
		r.Host = sv.own + sv.listen
		r.TLS = &tls.ConnectionState{ServerName: sv.own}
		rec := httptest.NewRecorder()
		srv.ServeHTTP(rec, r)
		var res string
		switch body := rec.Body.String(); {
		case rec.Code == 200 && body == "S0":
			res = "in:0"
		case rec.Code == 200 && body == "":
			res = "in:*"
		case rec.Code == http.StatusMisdirectedRequest:
			res = "421"
		default:
			res = "s" + strconv.Itoa(rec.Code)
		}
		out = append(out, fmt.Sprintf("%s strict=%s a=%s%s r=%s", sv.label, b01(strict), aOwn, aOther, res))
		// ---- the property through the Caddyfile: the block demands client certificates, so the
		// connection on which its site is reached was asked for one
		if subs != "." && res == "in:0" && tOwn == tls.NoClientCert {
			fail(clsAliasing, fmt.Sprintf("Caddyfile:\n%s\nserver %s: SNI %q gets a connection policy that asks for no client certificate, yet the request reaches the site, whose block has client_auth", sb.String(), sv.listen, sv.own))
		}
	}
	o.Impl = strings.Join(out, " ")
	return o
}
