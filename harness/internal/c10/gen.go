package c10

import (
	"strings"

	"verif/harness/internal/core"
)

var rangePool = []string{
	"10.0.0.0/8", "192.168.0.0/16", "172.16.0.0/12", "127.0.0.1", "::1", "fd00::/8", "2001:db8::/32",
	"203.0.113.7/32", "fe80::/10", "::ffff:10.0.0.0/104", "198.51.100.0/24", "0.0.0.0/0", "::/0", "2001:DB8:1::/48",
}

// addresses inside and outside the pool's ranges, canonical and not
var addrPool = []string{
	"10.1.2.3", "10.0.0.1", "192.168.1.1", "172.16.5.5", "127.0.0.1", "127.0.0.2", "203.0.113.7", "198.51.100.9",
	"8.8.8.8", "1.2.3.4", "203.0.113.8", "100.64.0.1",
	"::1", "::2", "fd00::1", "2001:db8::5", "2001:DB8:0:0::5", "2001:db8:1::9", "fe80::1", "::ffff:10.1.2.3",
	"0:0:0:0:0:0:0:1", "2606:4700::1111", "2a00::1", "::",
}

var zonePool = []string{"eth0", "1", "lo", "e%x", ""}

var headerNamePool = []string{
	"X-Forwarded-For", "x-forwarded-for", "X-Real-IP", "X-Real-Ip", "CF-Connecting-IP", "Forwarded",
	"X-Client", "x-client", "X Bad", "Client_IP",
}

var junkPool = []string{
	"unknown", "", " ", "_hidden", "1.2.3", "1.2.3.4.5", "999.1.1.1", "01.2.3.4", "example.com", "example.com:80",
	"[", "]", "[]:1", ":", "::1::", "1.2.3.4:", ":80", "for=1.2.3.4", "\"1.2.3.4\"", "%", "%eth0", "1.2.3.4%", "\t", "\xa0", "\xc2",
}

var hostPool = []string{"example.com", "example.com:8443", "", "[::1]:80", "EXAMPLE.com", "a.test", "10.0.0.1", "evil.test"}

func pickAddr(r *core.Rand) string { return r.Pick(addrPool) }

func isV6(a string) bool { return strings.Contains(a, ":") }

// element is one comma-separated item of a client-IP header.
func element(r *core.Rand) string {
	a := pickAddr(r)
	switch r.Intn(16) {
	case 0, 1, 2, 3, 4, 5:
		return a
	case 6:
		if isV6(a) {
			return "[" + a + "]:" + r.Pick([]string{"443", "80", "0", "99999", "http"})
		}
		return a + ":" + r.Pick([]string{"443", "80", "0", "99999", "http"})
	case 7:
		if isV6(a) {
			return a + "%" + r.Pick(zonePool)
		}
		return a + "%" + r.Pick(zonePool)
	case 8:
		if isV6(a) {
			return "[" + a + "%" + r.Pick(zonePool) + "]:8080"
		}
		return a + ":80%x"
	case 9:
		return r.Pick([]string{" ", "\t", "  ", "\u00a0", "\u2003", "\u3000", "\u0085", " \t", "\u1680", "\u205f", "\u2028", "\u202f", "\u200a", "\u200b", "\xe2\x80", "\v", "\f"}) +
			a + r.Pick([]string{"", " ", "\t ", "\u00a0", "\u2003", "\u2029", "\u3000 ", "\xe2\x80\x80\x80", "\x85", "\xa0"})
	case 10:
		// space inside / before a bracketed or port-bearing form
		if isV6(a) {
			return " [" + a + "]:443"
		}
		return " " + a + ":443 "
	case 11:
		if isV6(a) {
			return "[" + a + "]"
		}
		return a + " :80"
	case 12, 13:
		return r.Pick(junkPool)
	case 14:
		return r.Pick(junkPool) + a
	default:
		return a + r.Pick(junkPool)
	}
}

func ipHeaderValue(r *core.Rand) string {
	n := 1 + r.Intn(3)
	if r.Chance(1, 10) {
		n = r.Intn(6)
	}
	var sb strings.Builder
	for i := 0; i < n; i++ {
		if i > 0 {
			sb.WriteString(r.Pick([]string{",", ", ", ", ", " ,", ",,"}))
		}
		sb.WriteString(element(r))
	}
	return sb.String()
}

func remoteAddr(r *core.Rand) string {
	a := pickAddr(r)
	port := r.Pick([]string{"51234", "80", "0", "443"})
	switch r.Intn(24) {
	case 0:
		return a // no port
	case 1:
		return r.Pick([]string{"", "@", "garbage", "/run/caddy.sock", ":", "[", "[]", "[::1]", "::1", "[::1]:80:90", "[::1]x:80", "1.2.3.4:80]", "a[b:80"})
	case 2:
		return r.Pick([]string{"example.com:80", "localhost:1", ":80", "1.2.3:80", "[fe80::1%]:1", "[%eth0]:1", "999.0.0.1:1", "[1.2.3.4.5]:1", "1.2.3.4%x:80"})
	case 3, 4:
		if isV6(a) {
			return "[" + a + "%" + r.Pick(zonePool) + "]:" + port
		}
		return a + "%" + r.Pick(zonePool) + ":" + port
	case 5:
		return a + ":" + r.Pick([]string{"", "http", "99999"})
	}
	if isV6(a) {
		return "[" + a + "]:" + port
	}
	return a + ":" + port
}

func ranges(r *core.Rand, max int) []string {
	n := 1 + r.Intn(max)
	out := []string{}
	for i := 0; i < n; i++ {
		out = append(out, r.Pick(rangePool[:len(rangePool)-3+r.Intn(4)]))
	}
	return out
}

func genCase(r *core.Rand) *kase {
	k := &kase{}
	// ---- configuration
	switch r.Intn(20) {
	case 0, 1, 2:
		k.srvTNil = true
	case 3:
		k.srvT = []string{}
	default:
		k.srvT = ranges(r, 3)
	}
	if !k.srvTNil && r.Chance(1, 4) {
		k.srvDyn = true
	}
	switch r.Intn(10) {
	case 0, 1, 2, 3:
		k.cihNil = true
	case 4:
		k.cih = []string{}
	default:
		n := 1 + r.Intn(3)
		for i := 0; i < n; i++ {
			k.cih = append(k.cih, r.Pick(headerNamePool))
		}
	}
	switch r.Intn(10) {
	case 0, 1, 2, 3:
		k.strict = 1
	case 4:
		k.strict = 2
	}
	k.hT = []string{}
	if r.Chance(1, 4) {
		k.hT = ranges(r, 2)
	}
	if r.Chance(1, 10) {
		for i := range k.omit {
			k.omit[i] = r.Chance(1, 2)
		}
	}
	// ---- exotic and invalid range expressions (provision-time parsing and its error path)
	if r.Chance(1, 25) {
		exotic := r.Pick([]string{"10.0.0.0/33", "nonsense", "10.0.0.1/", "::1/129", "1.2.3.4/8/8", "10.0.0.0/8%eth0", "/8", "256.0.0.1",
			"fe80::1%eth0", "10.1.2.3/8", "fe80::1%eth0", "2001:db8::5/32", "::ffff:10.0.0.1", "010.0.0.1"})
		if len(k.srvT) > 0 && !k.srvDyn && r.Chance(1, 2) {
			k.srvT[r.Intn(len(k.srvT))] = exotic
		} else {
			k.hT = append(k.hT, exotic)
		}
	}
	// ---- proxy loop: retried attempts, request header ops
	if r.Chance(1, 3) {
		k.fails = 1 + r.Intn(2)
	}
	if r.Chance(1, 2) {
		k.hops = 1 + r.Intn(2)
	}
	if r.Chance(1, 8) {
		k.mode = 1
	}
	if r.Chance(1, 3) {
		k.lb = 1 + r.Intn(2)
	} else if r.Chance(1, 8) {
		k.lb, k.fails, k.mode = 3, 0, 0 // fastcgi transport
	}
	// ---- connection
	k.remote = remoteAddr(r)
	if sp, err := parsePrefixes(k.srvT); err == nil && len(sp) > 0 && r.Chance(2, 5) {
		// bias towards a peer inside the server's trusted ranges
		for try := 0; try < 20; try++ {
			cand := remoteAddr(r)
			if pi := refPeer(cand); pi.addrOK && anyContains(sp, pi.addr) {
				k.remote = cand
				break
			}
		}
	}
	k.tls = r.Chance(1, 2)
	k.tlsConn = k.tls && r.Chance(1, 4)
	k.early = k.tls && !k.tlsConn && r.Chance(1, 5)
	k.host = r.Pick(hostPool)
	// ---- request header fields, wire order
	names := append([]string{}, k.effectiveCIH()...)
	names = append(names, "X-Forwarded-For")
	nh := r.Intn(4)
	if r.Chance(1, 12) {
		nh = 0
	}
	for i := 0; i < nh; i++ {
		n := r.Pick(names)
		if r.Chance(1, 6) {
			n = r.Pick(headerNamePool)
		}
		if r.Chance(1, 8) {
			n = strings.ToLower(n)
		}
		k.hdrs = append(k.hdrs, hdrField{n, ipHeaderValue(r)})
	}
	if r.Chance(1, 2) {
		k.hdrs = append(k.hdrs, hdrField{"X-Forwarded-Proto", r.Pick([]string{"https", "http", "", "HTTPS", "evil", "wss, https"})})
		if r.Chance(1, 5) {
			k.hdrs = append(k.hdrs, hdrField{"x-forwarded-proto", r.Pick([]string{"https", "http", ""})})
		}
	}
	if r.Chance(1, 2) {
		k.hdrs = append(k.hdrs, hdrField{"X-Forwarded-Host", r.Pick([]string{"evil.test", "", "a.test, b.test", "internal:8080"})})
		if r.Chance(1, 5) {
			k.hdrs = append(k.hdrs, hdrField{"X-Forwarded-Host", r.Pick([]string{"second.test", ""})})
		}
	}
	if r.Chance(1, 7) {
		k.hdrs = append(k.hdrs, hdrField{r.Pick([]string{"Connection", "connection"}), r.Pick([]string{
			"close", "keep-alive", "X-Forwarded-For", "x-forwarded-host, upgrade", "Upgrade", " x-forwarded-proto ,X-Forwarded-For",
			"X-Real-IP", "Connection", "x-forwarded-for,", "\tX-Forwarded-Host", "X-Forwarded-For X-Forwarded-Host",
		})})
		if r.Chance(1, 3) {
			k.hdrs = append(k.hdrs, hdrField{"Upgrade", "websocket"})
		}
	}
	if r.Chance(1, 10) {
		k.hdrs = append(k.hdrs, hdrField{r.Pick([]string{"User-Agent", "Te", "Accept", "Forwarded"}), r.Pick([]string{"x", "trailers", "for=10.0.0.1"})})
	}
	if k.lb == 3 && r.Chance(1, 50) {
		// a field spelled with underscores: CGI gives it the same variable name as the hyphenated field
		k.hdrs = append(k.hdrs, hdrField{r.Pick([]string{"X_Forwarded_For", "x_forwarded_proto", "X_Forwarded-Host", "X-Forwarded_For"}),
			r.Pick([]string{"6.6.6.6", "https", "evil.test"})})
	}
	// shuffle a little: wire order between different names must not matter, order within a name does
	if len(k.hdrs) > 1 && r.Chance(1, 3) {
		i, j := r.Intn(len(k.hdrs)), r.Intn(len(k.hdrs))
		k.hdrs[i], k.hdrs[j] = k.hdrs[j], k.hdrs[i]
	}
	return k
}

func (p *prop) Generate(rng *core.Rand, tier string, emit func(string)) {
	n := 16000
	switch tier {
	case "thorough":
		n = 250000
	case "search":
		n = 40000
	}
	// core.NewRand(seed) and core.NewRand(seed+1) are the same splitmix stream shifted by one
	// draw; forking first makes different seeds statistically independent.
	rng = rng.Fork()
	for c := 0; c < n; c++ {
		k := genCase(rng)
		emit(k.line())
	}
	// sequences of requests over one real keep-alive / HTTP/2 connection
	for c := 0; c < n/40; c++ {
		emit(genSeq(rng))
	}
	for _, l := range []string{"seq 12 1 . .", "seq 0 3 . .", "seq 0 1 .|.|.|.|. .", "seq 0 1 ."} {
		emit(l)
	}
	// templates' httpInclude: the virtual sub-request of an outer request
	for c := 0; c < n/16; c++ {
		k := genCase(rng)
		k.inc, k.lb, k.fails, k.mode, k.hops, k.srvDyn = true, 0, 0, 0, 0, false
		if rng.Chance(1, 2) && !k.srvTNil {
			k.srvT = append(k.srvT, rng.Pick([]string{"127.0.0.0/8", "127.0.0.1"}))
		}
		emit("inc" + strings.TrimPrefix(k.line(), "req"))
	}
	// handle_errors routes and handle_response routes: more handlers on the same request (paths.go)
	for c := 0; c < n/10; c++ {
		emit(genErq(rng))
	}
	for _, l := range []string{"erq 1 - nil nil 0 . 000 - 0 - . . 0 0 0 0 .", "erq 3 - nil nil 0 . 000 - 0 - . . 0 0 0 0 .",
		"erq 0 - nil nil 0 . 000 - 0 - . . 0 0 0 0 .", "erq 4 - nil nil 0 . 000 - 0 - . . 0 0 0 0 .", "erq 1 zz nil nil 0 . 000 - 0 - . . 0 0 0 0 .",
		"erq 1 - nil nil 0 . 000 - 0 - . . 1 0 0 0 .", "erq 2 - nil nil 0 . 000 - 0 - . . 0 1 0 0 .", "erq 2 - nil nil 0 . 000 - 0 - . . 0 0 1 0 .",
		"erq 2 - nil nil 0 . 000 - 0 - . . 0 0 0 2 .", "erq 1 -", "erq 2 - nil nil 0 . 000 - 0 - . . 0 0 0 0", "erq 1 - nil nil 0 nonsense 000 - 0 - . . 0 0 0 0 00"} {
		emit(l)
	}
	// Caddyfile glue: the adapter's reading of the options that configure all of the above
	ncf := n / 10
	for c := 0; c < ncf; c++ {
		emit(genCF(rng))
	}
	for _, l := range []string{"cf . 0 . . g", "cf _ 0 _ _ t", "cf . 3 . . g", "cf . 0 . .", "cf zz 0 . . g", "cf 2b 0 . . t", "cf . 0 . . x", "cf . 0 . . g a", "cf . 0 . . t p", "cf . 0 . . g r", "cf . 0 . . g x", "cf . 0 . . g a a"} {
		emit(l)
	}
	// PROXY protocol listener wrapper: who may say what the remote address is
	for c := 0; c < n/8; c++ {
		emit(genPP(rng))
	}
	for _, l := range []string{"pp . . - 746370 - - . j", "pp . . - 746370 312e322e332e343a35 - 312e322e332e34:312e322e332e34:-:-:0000 c", "pp . . 2d 746370 - - . j", "pp . . - 746370 - zz . j", "pp . . - 746370 - - .", "pp . . - 746370 - - . x"} {
		emit(l)
	}
	// a malformed stream: both sides must answer bad-op
	for _, l := range []string{
		"", "req", "nope 1 2 3", "req nil nil 0 . 000 - 0 - . . 0 0 0 0 .",
		"req nil nil 0 . 000 - 0 - . . 0 0 .", "req nil nil 3 . 000 - 0 - . . 0 0 0 0 .", "req nil nil 0 . 00 - 0 - . . 0 0 0 0 .",
		"req nil nil 0 . 000 zz 0 - . . 0 0 0 0 .", "req nil nil 0 . 000 - 4 - . . 0 0 0 0 .", "req 10.0.0.0/8 nil 0 nil 000 - 0 - . . 0 0 0 0 10",
		"req x!,y nil 0 . 000 - 0 - . . 0 0 0 0 10,10", "req nil nil 0 . 000 - 0 - 41 . 0 0 0 0 .", "req nil nil 0 . 000 - 0 - 41:42:43 . 0 0 0 0 .",
		"req nil nil 0 . 000 - 0 - . . 3 0 0 0 .", "req nil nil 0 . 000 - 0 - . . 1 3 0 0 .", "req nil nil 0 . 000 - 0 - . . 2 2 0 0 .", "req nil nil 0 . 000 - 0 - . . 0 0 2 0 .", "req nil nil 0 . 000 - 0 - . . 0 0 0 4 .", "req nil nil 0 . 000 - 0 - . . 0 0 0 .",
	} {
		emit(l)
	}
}
