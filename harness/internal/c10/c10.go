// Package c10: client address and X-Forwarded-* headers cannot be spoofed by untrusted peers.
//
// One case = one request served by a REAL caddyhttp.Server that was provisioned from JSON
// through the public API (caddy.ProvisionContext → App("http") → Server.ServeHTTP): static
// trusted-proxy ranges, client_ip_headers, trusted_proxies_strict, and one route
//
//	verif_c10_probe  →  reverse_proxy{trusted_proxies, transport: verif_c10}
//
// The probe records the vars PrepareRequest/determineTrustedProxy computed and (optionally)
// sets forwarding headers to nil ("omit", what an earlier handler may do); the transport
// module records the request reverse_proxy would have sent upstream.  No sockets are used.
//
// Protocol (fields separated by one space; byte strings hex, "-" = empty string):
//
//	req <srvT> <cih> <strict> <hT> <omit> <remote> <tls> <host> <hdrs> <tbl> <fails> <hops> <mode> <lb> <rt>
//
//	srvT   nil | . | cidr,cidr,…      server trusted_proxies (nil = not configured, . = []);
//	       dyn:. | dyn:cidr,…         the same ranges served by a request-scoped IPRangeSource module:
//	                                  ONE provisioned server answers every such case
//	cih    nil | . | hex,hex,…        client_ip_headers (nil = not configured → default)
//	strict 0|1|2                      trusted_proxies_strict
//	hT     . | cidr,cidr,…            reverse_proxy trusted_proxies
//	omit   three bits                 XFF/XFP/XFH set to nil by the probe before reverse_proxy
//	remote hex                        r.RemoteAddr
//	tls    0|1|2|3                    0 plain, 1 r.TLS set, 2 r.TLS nil but the connection in the context
//	                                  (ConnCtxKey) reports a TLS state — Server.ServeHTTP recovers it,
//	                                  3 r.TLS set with the handshake not complete (0-RTT early data)
//	host   hex                        r.Host
//	hdrs   . | name:value;…           request header fields in wire order (hex:hex)
//	tbl    . | sub:canon:sbits:hbits:fbits;…  netip's answers: every '%'-free substring of remote /
//	                                  a header value that netip.ParseAddr accepts, its
//	                                  String(), and Prefix.Contains for each srvT / hT range
//
//	fails  0|1|2                      round trips that fail before one succeeds: the transport reports
//	                                  the upstream down, reverse_proxy (load_balancing.retries 3) retries
//	hops   0|1|2                      reverse_proxy request header ops (header_up): none | set an unrelated
//	                                  field from an upstream placeholder | delete X-Forwarded-Host
//
//	lb     0|1|2|3                    reverse_proxy selection policy: default | client_ip_hash over three
//	                                  upstreams (oracle only) | cookie (answer field ck = Secure attribute) |
//	                                  3 = default policy with the real FASTCGI transport (php_fastcgi's) to a
//	                                  FastCGI responder of the harness: the answer ends in
//	                                  "fcgi ra=<REMOTE_ADDR> rp=<REMOTE_PORT> xff=<S> xfp=<S> xfh=<S>" with S the
//	                                  sorted set of values HTTP_X_FORWARDED_* was seen to take (absent | hex)
//	rt     . | PA,PA,…                 per range string of srvT then hT: netip.ParsePrefix ok, netip.ParseAddr ok
//	                                  (a configuration with an invalid range answers "provision-error")
//	mode   0|1                        0 GET over HTTP/1.1, 1 websocket over HTTP/2 (extended CONNECT,
//	                                  `:protocol: websocket`): ServeHTTP rewrites the prepared request
//
// Answer: "ip=<hex> tp=<0|1> ph=<hex> tm=<hex> lg=<hex> cm=<0|1> rm=<0|1> pp=<hex>/<port>|invalid ck=<0|1|-> xff=<H> xfp=<H> xfh=<H>"
//
//	ph = {http.vars.client_ip}, tm = templates' {{.ClientIP}}, lg = access-log field request.client_ip, cm / rm = the real client_ip /
//	remote_ip matchers over srvT ++ hT ++ fixedRanges, pp = the PROXY-protocol address reverse_proxy
//	derives for the upstream;  H = absent | nil | hex,hex,…
//
//	followed by " | xff=… xfp=… xfh=…" for every further attempt (fails+1 triples in all)
//
//	or "ip=<hex> tp=<0|1> err" when reverse_proxy refused the request (500, nothing sent).
package c10

import (
	"context"
	"crypto/sha256"
	"crypto/tls"
	"encoding/json"
	"fmt"
	"net"
	"net/http"
	"net/http/httptest"
	"net/netip"
	"net/url"
	"os"
	"sort"
	"strconv"
	"strings"
	"sync"

	"go.uber.org/zap/zapcore"

	"github.com/caddyserver/caddy/v2"
	"github.com/caddyserver/caddy/v2/modules/caddyhttp"
	"github.com/caddyserver/caddy/v2/modules/caddyhttp/reverseproxy"
	_ "github.com/caddyserver/caddy/v2/modules/caddyhttp/reverseproxy/fastcgi"
	"github.com/caddyserver/caddy/v2/modules/caddyhttp/templates"
	_ "github.com/caddyserver/caddy/v2/modules/caddyhttp/templates"

	"verif/harness/internal/core"
)

// ---------------------------------------------------------------- probe modules

type obsKey struct{}

// obs is what one request lets us observe.
type obs struct {
	probed                       bool
	clientIP                     string
	trusted                      bool
	sent                         bool
	out                          http.Header       // the attempt that succeeded (the last one)
	attempts                     []http.Header     // every attempt handed to the transport, in order
	upstreams                    []string          // … and the upstream each one was directed to
	incBody                      string            // op inc: what the included sub-request answered
	env                          map[string]string // lb=3: the CGI parameters the FastCGI responder received
	envSets                      [3]map[string]bool
	cookie                       string         // Secure attribute of the sticky cookie(s): "1", "0", "mixed", "-" (none set)
	failLeft                     int            // round trips that still have to fail (upstream "down")
	dynRanges                    []netip.Prefix // what the request-scoped IPRangeSource answers for this request
	outHost                      string
	matchedIP                    bool   // real `client_ip` matcher over matcherRanges
	tmplIP                       string // templates' {{.ClientIP}}
	celRan, celClient, celRemote bool   // the CEL forms of both matchers, when the probe carries them
	remoteHit                    bool   // real `remote_ip` matcher over the same ranges
	placeh                       string // {http.vars.client_ip} as the request's replacer expands it
	logIP                        string // the access log's request.client_ip field (LoggableHTTPRequest)
	logHas                       bool
	ctx                          context.Context // the prepared request's context (vars map), to read what reverse_proxy stored
	spoil                        string          // op erq: what the stage-one handler writes into r.RemoteAddr (hasSpoil)
	hasSpoil                     bool
	remoteHostPh                 string // {http.request.remote.host} as the probing handler's replacer expands it
}

var fwdNames = [3]string{"X-Forwarded-For", "X-Forwarded-Proto", "X-Forwarded-Host"}

// Probe is an HTTP handler placed before reverse_proxy.
type Probe struct {
	Omit   []string `json:"omit,omitempty"`
	Ranges []string `json:"ranges,omitempty"` // evaluated with the real `client_ip` matcher (ip_matchers.go)

	CEL bool `json:"cel,omitempty"` // also evaluate the CEL forms client_ip(…) / remote_ip(…)

	// op erq: a stage-one handler sits in the PRIMARY route, in front of whatever raises the error / of the outer
	// reverse_proxy: it records nothing, stores nil under the omitted fields and (per request) overwrites r.RemoteAddr
	Stage1 bool `json:"stage1,omitempty"`

	cm  *caddyhttp.MatchClientIP
	rm  *caddyhttp.MatchRemoteIP
	cmx *caddyhttp.MatchExpression
	rmx *caddyhttp.MatchExpression
}

func (p *Probe) Provision(ctx caddy.Context) error {
	if len(p.Ranges) > 0 {
		p.cm = &caddyhttp.MatchClientIP{Ranges: p.Ranges}
		if err := p.cm.Provision(ctx); err != nil {
			return err
		}
		p.rm = &caddyhttp.MatchRemoteIP{Ranges: p.Ranges}
		if err := p.rm.Provision(ctx); err != nil {
			return err
		}
		if p.CEL {
			args := "'" + strings.Join(p.Ranges, "', '") + "'"
			p.cmx = &caddyhttp.MatchExpression{Expr: "client_ip(" + args + ")"}
			if err := p.cmx.Provision(ctx); err != nil {
				return err
			}
			p.rmx = &caddyhttp.MatchExpression{Expr: "remote_ip(" + args + ")"}
			return p.rmx.Provision(ctx)
		}
	}
	return nil
}

func (*Probe) CaddyModule() caddy.ModuleInfo {
	return caddy.ModuleInfo{ID: "http.handlers.verif_c10_probe", New: func() caddy.Module { return new(Probe) }}
}

func (p *Probe) ServeHTTP(w http.ResponseWriter, r *http.Request, next caddyhttp.Handler) error {
	if p.Stage1 {
		if o, ok := r.Context().Value(obsKey{}).(*obs); ok && o.hasSpoil {
			r.RemoteAddr = o.spoil
		}
		for _, n := range p.Omit {
			r.Header[n] = nil
		}
		return next.ServeHTTP(w, r)
	}
	if o, ok := r.Context().Value(obsKey{}).(*obs); ok {
		o.probed = true
		o.clientIP, _ = caddyhttp.GetVar(r.Context(), caddyhttp.ClientIPVarKey).(string)
		o.trusted, _ = caddyhttp.GetVar(r.Context(), caddyhttp.TrustedProxyVarKey).(bool)
		if p.cm != nil {
			o.matchedIP = p.cm.Match(r)
			o.remoteHit = p.rm.Match(r)
		}
		if p.cmx != nil {
			o.celRan = true
			o.celClient, _ = p.cmx.MatchWithError(r)
			o.celRemote, _ = p.rmx.MatchWithError(r)
		}
		if repl, ok := r.Context().Value(caddy.ReplacerCtxKey).(*caddy.Replacer); ok {
			o.placeh = repl.ReplaceAll("{http.vars.client_ip}", "")
			o.remoteHostPh = repl.ReplaceAll("{http.request.remote.host}", "")
		}
		o.tmplIP = (templates.TemplateContext{Req: r}).ClientIP()
		enc := zapcore.NewMapObjectEncoder()
		if err := (caddyhttp.LoggableHTTPRequest{Request: r}).MarshalLogObject(enc); err == nil {
			o.logIP, o.logHas = enc.Fields["client_ip"].(string)
		}
		o.ctx = r.Context()
	}
	for _, n := range p.Omit {
		r.Header[n] = nil
	}
	return next.ServeHTTP(w, r)
}

// Capture is a reverse_proxy transport that records the upstream request instead of sending it.
type Capture struct{}

func (Capture) CaddyModule() caddy.ModuleInfo {
	return caddy.ModuleInfo{ID: "http.reverse_proxy.transport.verif_c10", New: func() caddy.Module { return new(Capture) }}
}

func (Capture) RoundTrip(req *http.Request) (*http.Response, error) {
	if o, ok := req.Context().Value(obsKey{}).(*obs); ok {
		o.attempts = append(o.attempts, req.Header.Clone())
		o.upstreams = append(o.upstreams, req.URL.Host)
		if o.failLeft > 0 {
			o.failLeft--
			return nil, errUpstreamDown // reverse_proxy retries (GET, load_balancing.retries)
		}
		o.sent = true
		o.out = req.Header.Clone()
		o.outHost = req.Host
	}
	return &http.Response{
		StatusCode: 204, Status: "204 No Content", Proto: "HTTP/1.1", ProtoMajor: 1, ProtoMinor: 1,
		Header: http.Header{}, Body: http.NoBody, Request: req,
	}, nil
}

// tlsStateConn is a net.Conn that only knows its TLS state.
type tlsStateConn struct{ net.Conn }

func (tlsStateConn) ConnectionState() tls.ConnectionState {
	return tls.ConnectionState{HandshakeComplete: true, Version: tls.VersionTLS13}
}

// DynSource is an IPRangeSource whose answer depends on the request (its context): the interface
// server.go consumes, with ranges that differ from request to request on ONE provisioned server.
type DynSource struct{}

func (DynSource) CaddyModule() caddy.ModuleInfo {
	return caddy.ModuleInfo{ID: "http.ip_sources.verif_c10", New: func() caddy.Module { return new(DynSource) }}
}

func (DynSource) GetIPRanges(r *http.Request) []netip.Prefix {
	if o, ok := r.Context().Value(obsKey{}).(*obs); ok {
		return o.dynRanges
	}
	return nil
}

// virtualRemote is the RemoteAddr templates' httpInclude gives its virtual request (tplcontext.go).
const virtualRemote = "127.0.0.1:10000"

var fcgiNames = [3]string{"HTTP_X_FORWARDED_FOR", "HTTP_X_FORWARDED_PROTO", "HTTP_X_FORWARDED_HOST"}

// fcgiCollision: did the client send a field that is not one of the three forwarding fields but is spelled
// so that CGI gives it the same variable name (X_Forwarded_For)?
func fcgiCollision(hdrs []hdrField) bool {
	for _, f := range hdrs {
		n := strings.NewReplacer(" ", "_", "-", "_").Replace(strings.ToUpper(f.name))
		c := http.CanonicalHeaderKey(f.name)
		for i, e := range fcgiNames {
			if "HTTP_"+n == e && c != fwdNames[i] {
				return true
			}
		}
	}
	return false
}

var errUpstreamDown = fmt.Errorf("verif: upstream down")

var registerOnce sync.Once

func register() {
	registerOnce.Do(func() {
		caddy.RegisterModule(&Probe{})
		caddy.RegisterModule(Capture{})
		caddy.RegisterModule(DynSource{})
		caddy.RegisterModule(downTransport{})
		caddy.RegisterModule(okTransport{})
	})
}

// ---------------------------------------------------------------- cases

type hdrField struct{ name, value string }

type kase struct {
	srvT       []string // nil = not configured
	srvTNil    bool
	srvDyn     bool // the ranges come from a request-scoped IPRangeSource module (one server, changing ranges)
	cih        []string
	cihNil     bool
	strict     int
	hT         []string
	omit       [3]bool
	remote     string
	tls        bool
	early      bool // r.TLS set but the handshake is not complete: the request arrived as 0-RTT data
	tlsConn    bool // r.TLS is nil; the TLS state is only known through the connection in the context (listener wrappers)
	host       string
	hdrs       []hdrField
	tbl        string // as given on the line ("" when the line is being built)
	fails      int    // 0..2 round trips fail before one succeeds (proxy retry loop)
	inc        bool   // op inc: the request asks for /outer, whose template does {{httpInclude "/inner"}}
	noResample bool   // internal: do not repeat the request (fastcgi map-order sampling)
	rt         string // as given on the line: net/netip's verdict on every range string
	lb         int    // load-balancing policy: 0 default, 1 client_ip_hash over three upstreams, 2 cookie
	mode       int    // 0 plain GET over HTTP/1.1, 1 websocket over HTTP/2 (extended CONNECT with :protocol)
	hops       int    // request header ops of reverse_proxy: 0 none, 1 set an unrelated field, 2 delete X-Forwarded-Host
	via        int    // op erq: 0 = the primary route; 1|2 handle_errors routes; 3 handle_response routes (paths.go)
	spoil      string // op erq: what the stage-one handler writes into r.RemoteAddr
	hasSpoil   bool
}

func listField(xs []string, isNil bool, hexed bool) string {
	if isNil {
		return "nil"
	}
	if len(xs) == 0 {
		return "."
	}
	parts := make([]string, len(xs))
	for i, x := range xs {
		if hexed {
			parts[i] = core.Hex(x)
		} else {
			parts[i] = x
		}
	}
	return strings.Join(parts, ",")
}

func parseListField(s string, allowNil, hexed bool) (xs []string, isNil bool, ok bool) {
	switch {
	case s == "nil":
		return nil, true, allowNil
	case s == ".":
		return []string{}, false, true
	}
	for _, p := range strings.Split(s, ",") {
		if hexed {
			v, err := core.UnHex(p)
			if err != nil {
				return nil, false, false
			}
			xs = append(xs, v)
		} else {
			if !cidrSyntax(p) {
				return nil, false, false
			}
			xs = append(xs, p)
		}
	}
	return xs, false, true
}

// cidrSyntax is the (purely lexical) check both sides apply to a range field.
func cidrSyntax(p string) bool {
	if p == "" {
		return false
	}
	for i := 0; i < len(p); i++ {
		c := p[i]
		if !(c >= '0' && c <= '9' || c >= 'a' && c <= 'z' || c >= 'A' && c <= 'Z' || c == ':' || c == '.' || c == '/' || c == '%' || c == '_' || c == '-') {
			return false
		}
	}
	return true
}

func (k *kase) line() string {
	omit := ""
	for _, b := range k.omit {
		if b {
			omit += "1"
		} else {
			omit += "0"
		}
	}
	hd := "."
	if len(k.hdrs) > 0 {
		var ps []string
		for _, h := range k.hdrs {
			ps = append(ps, core.Hex(h.name)+":"+core.Hex(h.value))
		}
		hd = strings.Join(ps, ";")
	}
	tl := 0
	if k.tls {
		tl = 1
	}
	if k.tlsConn {
		tl = 2
	}
	if k.early {
		tl = 3
	}
	return fmt.Sprintf("req %s %s %d %s %s %s %d %s %s %s %d %d %d %d %s",
		k.srvField(), listField(k.cih, k.cihNil, true), k.strict,
		listField(k.hT, false, false), omit, core.Hex(k.remote), tl, core.Hex(k.host), hd, k.table(), k.fails, k.hops, k.mode, k.lb, k.rangeVerdicts())
}

func parseLine(line string) (*kase, bool) {
	f := strings.Fields(line)
	if len(f) != 16 || (f[0] != "req" && f[0] != "inc") {
		return nil, false
	}
	k := &kase{inc: f[0] == "inc"}
	var ok bool
	if strings.HasPrefix(f[1], "dyn:") {
		k.srvDyn = true
		if k.srvT, _, ok = parseListField(f[1][4:], false, false); !ok {
			return nil, false
		}
	} else if k.srvT, k.srvTNil, ok = parseListField(f[1], true, false); !ok {
		return nil, false
	}
	if k.cih, k.cihNil, ok = parseListField(f[2], true, true); !ok {
		return nil, false
	}
	switch f[3] {
	case "0", "1", "2":
		k.strict = int(f[3][0] - '0')
	default:
		return nil, false
	}
	if k.hT, _, ok = parseListField(f[4], false, false); !ok {
		return nil, false
	}
	if len(f[5]) != 3 {
		return nil, false
	}
	for i := 0; i < 3; i++ {
		switch f[5][i] {
		case '0':
		case '1':
			k.omit[i] = true
		default:
			return nil, false
		}
	}
	var err error
	if k.remote, err = core.UnHex(f[6]); err != nil {
		return nil, false
	}
	switch f[7] {
	case "0":
	case "1":
		k.tls = true
	case "2":
		k.tls, k.tlsConn = true, true
	case "3":
		k.tls, k.early = true, true
	default:
		return nil, false
	}
	if k.host, err = core.UnHex(f[8]); err != nil {
		return nil, false
	}
	if f[9] != "." {
		for _, p := range strings.Split(f[9], ";") {
			nv := strings.Split(p, ":")
			if len(nv) != 2 {
				return nil, false
			}
			n, e1 := core.UnHex(nv[0])
			v, e2 := core.UnHex(nv[1])
			if e1 != nil || e2 != nil {
				return nil, false
			}
			k.hdrs = append(k.hdrs, hdrField{n, v})
		}
	}
	k.tbl = f[10]
	k.rt = f[15]
	switch f[14] {
	case "0", "1", "2", "3":
		k.lb = int(f[14][0] - '0')
	default:
		return nil, false
	}
	switch f[13] {
	case "0":
	case "1":
		k.mode = 1
	default:
		return nil, false
	}
	for i, dst := range []*int{&k.fails, &k.hops} {
		switch f[11+i] {
		case "0", "1", "2":
			*dst = int(f[11+i][0] - '0')
		default:
			return nil, false
		}
	}
	return k, true
}

// ---------------------------------------------------------------- netip oracle table

// rangeVerdicts: for every range string of srvT then hT, two bits — does netip.ParsePrefix accept it,
// does netip.ParseAddr accept it ("." without ranges).  Which of the two caddy has to ask is glue
// (CIDRExpressionToPrefix, reverse_proxy Provision) and decided by the model.
func (k *kase) rangeVerdicts() string {
	var out []string
	for _, r := range append(append([]string{}, k.srvT...), k.hT...) {
		_, e1 := netip.ParsePrefix(r)
		_, e2 := netip.ParseAddr(r)
		out = append(out, b01(e1 == nil)+b01(e2 == nil))
	}
	if len(out) == 0 {
		return "."
	}
	return strings.Join(out, ",")
}

// rangesValid is the documented rule: an expression with a slash is a CIDR, anything else one address.
func rangesValid(xs []string) bool {
	_, err := parsePrefixes(xs)
	return err == nil
}

func addrByte(c byte) bool {
	return c >= '0' && c <= '9' || c >= 'a' && c <= 'f' || c >= 'A' && c <= 'F' || c == ':' || c == '.'
}

// parsePrefixes is the harness's own reading of a range list (CIDR, or a single address =
// full-length prefix) — deliberately NOT caddy's CIDRExpressionToPrefix, which is under test.
func parsePrefixes(xs []string) ([]netip.Prefix, error) {
	var out []netip.Prefix
	for _, x := range xs {
		if strings.Contains(x, "/") {
			p, err := netip.ParsePrefix(x)
			if err != nil {
				return nil, err
			}
			out = append(out, p)
			continue
		}
		a, err := netip.ParseAddr(x)
		if err != nil {
			return nil, err
		}
		out = append(out, netip.PrefixFrom(a, a.BitLen()))
	}
	return out, nil
}

func bits(ps []netip.Prefix, a netip.Addr) string {
	if len(ps) == 0 {
		return "-"
	}
	b := make([]byte, len(ps))
	for i, p := range ps {
		if p.Contains(a) {
			b[i] = '1'
		} else {
			b[i] = '0'
		}
	}
	return string(b)
}

// table lists what net/netip answers for every '%'-free substring of the remote address
// and of every header value that ParseAddr accepts.  It is computed without looking at
// how caddy cuts those strings up (the glue is what the model is about).
func (k *kase) table() string {
	sp, e1 := parsePrefixes(k.srvT)
	hp, e2 := parsePrefixes(k.hT)
	if e1 != nil || e2 != nil {
		return "!"
	}
	seen := map[string]netip.Addr{}
	scan := func(s string) {
		for i := 0; i < len(s); i++ {
			if !addrByte(s[i]) {
				continue
			}
			for j := i + 1; j <= len(s) && j-i <= 48 && addrByte(s[j-1]); j++ {
				sub := s[i:j]
				if _, ok := seen[sub]; ok {
					continue
				}
				if a, err := netip.ParseAddr(sub); err == nil {
					seen[sub] = a
				}
			}
		}
	}
	scan(k.remote)
	if k.hasSpoil {
		scan(k.spoil)
	}
	if k.inc {
		scan(virtualRemote) // the address templates' httpInclude gives its virtual request
	}
	for _, h := range k.hdrs {
		scan(h.value)
	}
	if len(seen) == 0 {
		return "."
	}
	// the consumers (client_ip matcher, PROXY protocol info) parse the attributed address again:
	// rows for the canonical spelling of every address as well
	for _, a := range seen {
		if c := a.String(); !strings.Contains(c, "%") {
			if b, err := netip.ParseAddr(c); err == nil {
				seen[c] = b
			}
		}
	}
	subs := make([]string, 0, len(seen))
	for s := range seen {
		subs = append(subs, s)
	}
	sort.Strings(subs)
	parts := make([]string, len(subs))
	for i, s := range subs {
		parts[i] = tableRow(s, seen[s], sp, hp)
	}
	return strings.Join(parts, ";")
}

func tableRow(sub string, a netip.Addr, sp, hp []netip.Prefix) string {
	return core.Hex(sub) + ":" + core.Hex(a.String()) + ":" + bits(sp, a) + ":" + bits(hp, a) + ":" + bits(fixedPrefixes, a)
}

// tableOK accepts the table given on the line iff it contains every row of the computed table
// and every additional row is also a correct netip answer (so that a shrunk case, whose strings
// have fewer substrings, keeps a valid table).
func (k *kase) tableOK(computed string) bool {
	if k.tbl == computed {
		return true
	}
	if k.tbl == "." || k.tbl == "" {
		return false
	}
	sp, e1 := parsePrefixes(k.srvT)
	hp, e2 := parsePrefixes(k.hT)
	if e1 != nil || e2 != nil {
		return false
	}
	given := map[string]bool{}
	subs := map[string]bool{}
	for _, row := range strings.Split(k.tbl, ";") {
		f := strings.Split(row, ":")
		if len(f) != 5 {
			return false
		}
		sub, err := core.UnHex(f[0])
		if err != nil || subs[sub] || strings.Contains(sub, "%") {
			return false
		}
		a, err := netip.ParseAddr(sub)
		if err != nil || tableRow(sub, a, sp, hp) != row {
			return false
		}
		subs[sub] = true
		given[row] = true
	}
	if computed != "." {
		for _, row := range strings.Split(computed, ";") {
			if !given[row] {
				return false
			}
		}
	}
	return true
}

// ---------------------------------------------------------------- provisioned servers (cached per configuration)

type prop struct {
	mu      sync.Mutex
	servers map[string]*caddyhttp.Server
	order   []string
	cancels map[string]func()
	dir     string
	seq     int
	seqSolo bool
}

func New() core.Prop {
	register()
	d, err := os.MkdirTemp("/verif/.run", "c10-home-")
	if err == nil {
		os.Setenv("HOME", d)
		os.Setenv("XDG_DATA_HOME", d+"/data")
		os.Setenv("XDG_CONFIG_HOME", d+"/config")
	}
	return &prop{servers: map[string]*caddyhttp.Server{}, cancels: map[string]func(){}, dir: d}
}

func (*prop) ID() string { return "C10" }

// Finish removes the private home directory.
func (p *prop) Finish(s *core.Session) {
	if s.Meta.Samples == nil {
		s.Meta.Samples = []string{} // meta.json must not carry null (./check slices it)
	}
	for _, c := range p.cancels {
		c()
	}
	if p.dir != "" {
		os.RemoveAll(p.dir)
	}
}

// fixedRanges end the range list of the probe's matchers; the last one carries a zone filter.
// (Same constants in lean/CaddyModel/C10/Driver.lean.)
var fixedRanges = []string{"10.0.0.0/8", "2001:db8::/32", "::1", "fe80::/10%eth0"}
var fixedZones = []string{"", "", "", "eth0"}
var fixedPrefixes = func() []netip.Prefix {
	var out []netip.Prefix
	for _, r := range fixedRanges {
		r, _, _ = strings.Cut(r, "%")
		ps, err := parsePrefixes([]string{r})
		if err != nil {
			panic(err)
		}
		out = append(out, ps[0])
	}
	return out
}()

// matcherRanges is what the probe's `client_ip` and `remote_ip` matchers are configured with:
// the server's ranges, the handler's ranges, then fixedRanges.
func (k *kase) matcherRanges() []string {
	out := []string{}
	if !k.srvDyn {
		out = append(out, k.srvT...)
	}
	out = append(out, k.hT...)
	return append(out, fixedRanges...)
}

func (k *kase) srvField() string {
	if k.srvDyn {
		return "dyn:" + listField(k.srvT, false, false)
	}
	return listField(k.srvT, k.srvTNil, false)
}

// cel: one configuration in eight also carries the CEL forms of the matchers (compiling them is slow).
func (k *kase) cel() bool {
	h := sha256.Sum256([]byte(k.cfgKey()))
	return h[0]%8 == 0
}

func (k *kase) cfgKey() string {
	srv := k.srvField()
	if k.srvDyn {
		srv = "dyn" // one provisioned server serves every range set
	}
	return fmt.Sprintf("%s|%s|%d|%s|%v|%d", srv, listField(k.cih, k.cihNil, true), k.strict,
		listField(k.hT, false, false), k.omit, k.via*100+k.hops*10+k.lb)
}

func (p *prop) server(k *kase) (*caddyhttp.Server, error) {
	key := k.cfgKey()
	p.mu.Lock()
	defer p.mu.Unlock()
	if s, ok := p.servers[key]; ok {
		return s, nil
	}
	srv := map[string]any{
		"listen":          []string{},
		"automatic_https": map[string]any{"disable": true},
	}
	if k.srvDyn {
		srv["trusted_proxies"] = map[string]any{"source": "verif_c10"}
	} else if !k.srvTNil {
		srv["trusted_proxies"] = map[string]any{"source": "static", "ranges": k.srvT}
	}
	if !k.cihNil {
		srv["client_ip_headers"] = append([]string{}, k.cih...)
	}
	if k.strict != 0 {
		srv["trusted_proxies_strict"] = k.strict
	}
	probe := map[string]any{"handler": "verif_c10_probe"}
	var omit []string
	for i, b := range k.omit {
		if b {
			omit = append(omit, fwdNames[i])
		}
	}
	if omit != nil {
		probe["omit"] = omit
	}
	if rangesValid(k.srvT) && rangesValid(k.hT) {
		probe["ranges"] = k.matcherRanges()
	} else {
		probe["ranges"] = fixedRanges // keep the probe's own provisioning out of the error path under test
	}
	if k.cel() {
		probe["cel"] = true
	}
	rp := map[string]any{
		"handler":   "reverse_proxy",
		"transport": map[string]any{"protocol": "verif_c10"},
		"upstreams": []any{map[string]any{"dial": "127.0.0.1:9"}},
		// a failed round trip of a GET is retried at once, up to 3 times
		"load_balancing": map[string]any{"retries": 3},
	}
	switch k.lb {
	case 1:
		rp["upstreams"] = []any{map[string]any{"dial": "127.0.0.1:9"}, map[string]any{"dial": "127.0.0.1:10"}, map[string]any{"dial": "127.0.0.1:11"}}
		rp["load_balancing"] = map[string]any{"retries": 3, "selection_policy": map[string]any{"policy": "client_ip_hash"}}
	case 2:
		rp["load_balancing"] = map[string]any{"retries": 3, "selection_policy": map[string]any{"policy": "cookie", "name": "lb"}}
	case 3:
		// the real fastcgi transport (what php_fastcgi configures) towards the harness's FastCGI responder
		rp["transport"] = map[string]any{"protocol": "fastcgi", "root": "/srv"}
		rp["upstreams"] = []any{map[string]any{"dial": fcgi().addr}}
	}
	switch k.hops {
	case 1:
		rp["headers"] = map[string]any{"request": map[string]any{"set": map[string]any{
			"X-Verif-Up": []string{"{http.reverse_proxy.upstream.hostport}"}}}}
	case 2:
		rp["headers"] = map[string]any{"request": map[string]any{"delete": []string{"X-Forwarded-Host"}}}
	}
	if len(k.hT) > 0 {
		rp["trusted_proxies"] = k.hT
	}
	plain := map[string]any{"Content-Type": []string{"text/plain"}}
	srv["routes"] = []any{
		// op inc: /outer is a template that includes /inner through a virtual sub-request (templates' httpInclude);
		// /inner answers with the client address and trusted flag attributed to the request it is served for
		map[string]any{"match": []any{map[string]any{"path": []string{"/inner"}}}, "handle": []any{
			map[string]any{"handler": "static_response", "headers": plain, "body": "{http.vars.client_ip}|{http.vars.trusted_proxy}"}}},
		map[string]any{"match": []any{map[string]any{"path": []string{"/outer"}}}, "handle": []any{
			map[string]any{"handler": "templates"},
			map[string]any{"handler": "static_response", "headers": plain, "body": "{{httpInclude \"/inner\"}}"}}},
		map[string]any{"handle": []any{probe, rp}},
	}
	if k.via != 0 {
		k.pathRoutes(srv, probe, rp, omit)
	}
	httpApp, _ := json.Marshal(map[string]any{"servers": map[string]any{"s": srv}})
	cfg := &caddy.Config{
		Admin: &caddy.AdminConfig{Disabled: true},
		Logging: &caddy.Logging{Logs: map[string]*caddy.CustomLog{
			"default": {BaseLog: caddy.BaseLog{WriterRaw: json.RawMessage(`{"output":"discard"}`)}},
		}},
		AppsRaw: caddy.ModuleMap{"http": httpApp},
	}
	ctx, err := caddy.ProvisionContext(cfg)
	if err != nil {
		return nil, err
	}
	appI, err := ctx.App("http")
	if err != nil {
		return nil, err
	}
	s := appI.(*caddyhttp.App).Servers["s"]
	if s == nil {
		return nil, fmt.Errorf("no server")
	}
	// keep the cache bounded
	if len(p.order) >= 512 {
		old := p.order[0]
		p.order = p.order[1:]
		delete(p.servers, old)
		delete(p.cancels, old)
	}
	p.servers[key] = s
	p.order = append(p.order, key)
	return s, nil
}

// ---------------------------------------------------------------- running one request

func hval(h http.Header, name string) string {
	v, ok := h[name]
	switch {
	case !ok:
		return "absent"
	case v == nil:
		return "nil"
	case len(v) == 0:
		return "empty"
	}
	ps := make([]string, len(v))
	for i, x := range v {
		ps[i] = core.Hex(x)
	}
	return strings.Join(ps, ",")
}

func b01(b bool) string {
	if b {
		return "1"
	}
	return "0"
}

// serve runs one request with the given header fields through the provisioned server.
func (p *prop) serve(k *kase, hdrs []hdrField) (string, *obs, error) {
	s, err := p.server(k)
	if err != nil {
		return "", nil, err
	}
	h := http.Header{}
	for _, f := range hdrs {
		h.Add(f.name, f.value)
	}
	o := &obs{failLeft: k.fails, spoil: k.spoil, hasSpoil: k.hasSpoil}
	if k.srvDyn {
		o.dynRanges, _ = parsePrefixes(k.srvT)
		if o.dynRanges == nil {
			o.dynRanges = []netip.Prefix{}
		}
	}
	path := "/"
	if k.inc {
		path = "/outer"
	}
	r := &http.Request{
		Method: "GET", URL: &url.URL{Path: path}, RequestURI: path,
		Proto: "HTTP/1.1", ProtoMajor: 1, ProtoMinor: 1,
		Header: h, Host: k.host, RemoteAddr: k.remote, Body: http.NoBody,
	}
	if k.mode == 1 {
		// RFC 8441 extended CONNECT: reverse_proxy's ServeHTTP rewrites the prepared clone into an
		// HTTP/1.1 websocket upgrade AFTER prepareRequest
		r.Method, r.Proto, r.ProtoMajor, r.ProtoMinor = "CONNECT", "HTTP/2.0", 2, 0
		h[":protocol"] = []string{"websocket"}
	}
	ctx := context.WithValue(context.Background(), obsKey{}, o)
	if k.tlsConn {
		// what a listener wrapper that terminates TLS without returning a *tls.Conn leaves behind:
		// Server.ServeHTTP recovers r.TLS from the connection stored under ConnCtxKey
		ctx = context.WithValue(ctx, caddyhttp.ConnCtxKey, tlsStateConn{})
	} else if k.tls {
		r.TLS = &tls.ConnectionState{HandshakeComplete: !k.early, Version: tls.VersionTLS13}
	}
	fcgiID := ""
	if k.lb == 3 {
		p.seq++
		fcgiID = strconv.Itoa(p.seq)
		h.Set("X-Verif-Id", fcgiID)
	}
	r = r.WithContext(ctx)
	w := httptest.NewRecorder()
	s.ServeHTTP(w, r)
	if k.inc {
		o.incBody = w.Body.String()
		return "inner=" + core.Hex(o.incBody) + " status=" + strconv.Itoa(w.Code), o, nil
	}
	if k.lb == 3 {
		o.env = fcgi().take(fcgiID)
	}
	if !o.probed {
		return "noprobe status=" + strconv.Itoa(w.Code), o, nil
	}
	o.cookie = "-"
	for _, c := range w.Header()["Set-Cookie"] {
		v := "0"
		if strings.Contains(c, "; Secure") {
			v = "1"
		}
		if o.cookie == "-" {
			o.cookie = v
		} else if o.cookie != v {
			o.cookie = "mixed"
		}
	}
	lg := "none"
	if o.logHas {
		lg = core.Hex(o.logIP)
	}
	pp := "unset"
	if o.ctx != nil {
		if info, ok := caddyhttp.GetVar(o.ctx, "reverse_proxy.proxy_protocol_info").(reverseproxy.ProxyProtocolInfo); ok {
			pp = "invalid"
			if info.AddrPort.IsValid() {
				pp = core.Hex(info.AddrPort.Addr().String()) + "/" + strconv.Itoa(int(info.AddrPort.Port()))
			}
		}
	}
	head := "ip=" + core.Hex(o.clientIP) + " tp=" + b01(o.trusted) + " ph=" + core.Hex(o.placeh) + " tm=" + core.Hex(o.tmplIP) + " lg=" + lg +
		" cm=" + b01(o.matchedIP) + " rm=" + b01(o.remoteHit) + " pp=" + pp + " ck=" + o.cookie
	if k.lb == 3 {
		if o.env == nil {
			if w.Code == 500 {
				return head + " err", o, nil
			}
			return head + " status=" + strconv.Itoa(w.Code), o, nil
		}
		// which of several fields with the same CGI name wins depends on Go's map order: collect what is
		// observable over repeated runs of the same request when the client sent such a field
		sets := [3]map[string]bool{{}, {}, {}}
		add := func(env map[string]string) {
			for i, n := range fcgiNames {
				if v, ok := env[n]; ok {
					sets[i][core.Hex(v)] = true
				} else {
					sets[i]["absent"] = true
				}
			}
		}
		add(o.env)
		if !k.noResample && fcgiCollision(hdrs) {
			k2 := *k
			k2.noResample = true
			for i := 0; i < 128; i++ {
				if _, o2, err := p.serve(&k2, hdrs); err == nil && o2.env != nil {
					add(o2.env)
				}
			}
		}
		o.envSets = sets
		show := func(m map[string]bool) string {
			var xs []string
			for x := range m {
				xs = append(xs, x)
			}
			sort.Strings(xs)
			return strings.Join(xs, "|")
		}
		return head + " fcgi ra=" + core.Hex(o.env["REMOTE_ADDR"]) + " rp=" + core.Hex(o.env["REMOTE_PORT"]) +
			" xff=" + show(sets[0]) + " xfp=" + show(sets[1]) + " xfh=" + show(sets[2]), o, nil
	}
	if !o.sent {
		if w.Code == 500 || k.via != 0 {
			// (a failing error route answers with the FIRST error's status)
			return head + " err", o, nil
		}
		return head + " status=" + strconv.Itoa(w.Code), o, nil
	}
	// one triple per attempt handed to the transport (fails+1 of them), in order
	var parts []string
	for _, a := range o.attempts {
		parts = append(parts, "xff="+hval(a, fwdNames[0])+" xfp="+hval(a, fwdNames[1])+" xfh="+hval(a, fwdNames[2]))
	}
	return head + " " + strings.Join(parts, " | "), o, nil
}

func (p *prop) Run(line string) core.Outcome {
	if f := strings.Fields(line); len(f) > 0 && f[0] == "cf" {
		return p.runCF(f)
	} else if len(f) > 0 && f[0] == "pp" {
		return p.runPP(f)
	} else if len(f) > 0 && f[0] == "seq" {
		return p.runSeq(f)
	} else if len(f) > 0 && f[0] == "erq" {
		return p.runErq(f)
	}
	k, ok := parseLine(line)
	if !ok {
		return core.Outcome{Impl: "bad-op"}
	}
	if k.inc && k.srvDyn {
		return core.Outcome{Impl: "bad-op"} // the virtual request has its own context: no request-scoped source
	}
	if k.rt != k.rangeVerdicts() {
		return core.Outcome{Impl: "bad-table", Tags: []string{"bad-table"}}
	}
	if !rangesValid(k.srvT) || !rangesValid(k.hT) {
		// a range that is neither a CIDR nor an address: provisioning has to fail
		if k.srvDyn && !rangesValid(k.srvT) {
			return core.Outcome{Impl: "bad-op"} // the request-scoped source is fed parsed prefixes only
		}
		if _, err := p.server(k); err != nil {
			return core.Outcome{Impl: "provision-error", Tags: []string{"provision-error:invalid-range"}}
		}
		return core.Outcome{Impl: "provisioned", Tags: []string{"provision-error:missed"},
			Failures: []core.Failure{{Class: "invalid-trusted-range-accepted",
				What: fmt.Sprintf("server trusted_proxies %q / reverse_proxy trusted_proxies %q provisioned although a range is invalid", k.srvT, k.hT)}}}
	}
	if t := k.table(); t == "!" {
		return core.Outcome{Impl: "bad-op"}
	} else if !k.tableOK(t) {
		return core.Outcome{Impl: "bad-table", Tags: []string{"bad-table"}}
	}
	impl, o, err := p.serve(k, k.hdrs)
	if err != nil {
		return core.Outcome{Impl: "provision-error", Tags: []string{"provision-error"},
			Failures: []core.Failure{{Class: "harness-provision-error", What: err.Error()}}}
	}
	out := core.Outcome{Impl: impl}
	if k.inc {
		p.incOracle(k, impl, &out)
		return out
	}
	p.tagsAndOracle(k, impl, o, &out)
	return out
}
