package c10

import (
	"fmt"

	"github.com/caddyserver/caddy/v2/modules/caddyhttp"
	"github.com/caddyserver/caddy/v2/modules/caddyhttp/reverseproxy"
	"net"
	"net/http"
	"net/netip"
	"net/textproto"
	"strings"

	"verif/harness/internal/core"
)

// The oracle evaluates the PROPERTY on the implementation's own observations.  It does not
// use the Lean model and it does not copy caddy's parsing glue: "who is the peer" is
// net.SplitHostPort + netip.ParseAddr of the socket address, "is it trusted" is
// Prefix.Contains over the configured ranges, and header contents are only interpreted
// when every element is unambiguous (a bare address, addr:port, [v6]:port, or text that
// contains no address at all).

type peerInfo struct {
	splitOK bool
	addrOK  bool
	addr    netip.Addr
	host    string // socket host without zone
}

func refPeer(remote string) peerInfo {
	var p peerInfo
	host, _, err := net.SplitHostPort(remote)
	if err != nil {
		return p
	}
	p.splitOK = true
	if i := strings.IndexByte(host, '%'); i >= 0 {
		host = host[:i]
	}
	p.host = host
	a, err := netip.ParseAddr(host)
	if err != nil {
		return p
	}
	p.addrOK, p.addr = true, a
	return p
}

func anyContains(ps []netip.Prefix, a netip.Addr) bool {
	for _, p := range ps {
		if p.Contains(a) {
			return true
		}
	}
	return false
}

const (
	partJunk = iota
	partAddr
	partQuirky
)

func hasAddrSubstring(s string) bool {
	for i := 0; i < len(s); i++ {
		if !addrByte(s[i]) {
			continue
		}
		for j := i + 1; j <= len(s) && j-i <= 48 && addrByte(s[j-1]); j++ {
			if _, err := netip.ParseAddr(s[i:j]); err == nil {
				return true
			}
		}
	}
	return false
}

func refPart(p string) (int, netip.Addr) {
	t := strings.Trim(p, " \t")
	if a, err := netip.ParseAddr(t); err == nil {
		return partAddr, a.WithZone("")
	}
	if ap, err := netip.ParseAddrPort(p); err == nil {
		return partAddr, ap.Addr().WithZone("")
	}
	if !hasAddrSubstring(p) {
		return partJunk, netip.Addr{}
	}
	return partQuirky, netip.Addr{}
}

func isFwdName(k *kase, canon string) bool {
	if canon == "Connection" {
		return false // never varied: the two runs must carry the same Connection fields
	}
	for _, n := range fwdNames {
		if canon == n {
			return true
		}
	}
	if canon == "Forwarded" || canon == "X-Real-Ip" {
		return true
	}
	for _, n := range k.effectiveCIH() {
		if textproto.CanonicalMIMEHeaderKey(n) == canon {
			return true
		}
	}
	return false
}

func (k *kase) effectiveCIH() []string {
	if k.cihNil {
		return []string{"X-Forwarded-For"}
	}
	return k.cih
}

// connMentions reports whether a Connection header of the request names a forwarding header
// (hop-by-hop removal then deletes it before the X-Forwarded-* logic runs).
func connMentions(k *kase, hdrs []hdrField) bool {
	for _, f := range hdrs {
		if textproto.CanonicalMIMEHeaderKey(f.name) != "Connection" {
			continue
		}
		for _, sf := range strings.Split(f.value, ",") {
			c := textproto.CanonicalMIMEHeaderKey(textproto.TrimString(sf))
			for _, n := range fwdNames {
				if c == n {
					return true
				}
			}
		}
	}
	return false
}

func fwdPart(impl string) string {
	if i := strings.Index(impl, " xff="); i >= 0 {
		return impl[i:]
	}
	if strings.HasSuffix(impl, " err") {
		return " err"
	}
	return impl
}

// ipPart is everything that is derived from the attributed client address (before the attempts).
func ipPart(impl string) string {
	if i := strings.Index(impl, " xff="); i >= 0 {
		return impl[:i]
	}
	return strings.TrimSuffix(impl, " err")
}

// variants are the attacker's alternative choices of forwarding headers for the two-run relation.
func variants(k *kase) [][]hdrField {
	var stripped, spoofed, prepended []hdrField
	var spoof []hdrField
	spoof = append(spoof, hdrField{"X-Forwarded-For", "6.6.6.6, 10.9.9.9"}, hdrField{"X-Forwarded-Proto", "spoof"},
		hdrField{"X-Forwarded-Host", "evil.test"}, hdrField{"Forwarded", "for=6.6.6.6"})
	for _, n := range k.effectiveCIH() {
		if c := textproto.CanonicalMIMEHeaderKey(n); c != "X-Forwarded-For" && c != "Connection" {
			spoof = append(spoof, hdrField{n, "6.6.6.6"})
		}
	}
	for _, f := range k.hdrs {
		if !isFwdName(k, textproto.CanonicalMIMEHeaderKey(f.name)) {
			stripped = append(stripped, f)
		}
	}
	spoofed = append(append(spoofed, stripped...), spoof...)
	prepended = append(append(prepended, spoof...), k.hdrs...)
	return [][]hdrField{stripped, spoofed, prepended}
}

func (p *prop) tagsAndOracle(k *kase, impl string, o *obs, out *core.Outcome) {
	fail := func(class, what string) {
		out.Failures = append(out.Failures, core.Failure{Class: class, What: what})
	}
	tag := func(t string) { out.Tags = append(out.Tags, t) }

	sp, _ := parsePrefixes(k.srvT)
	hp, _ := parsePrefixes(k.hT)
	peer := refPeer(k.remote)
	srvTrusted := !k.srvTNil && peer.addrOK && anyContains(sp, peer.addr)
	hTrusted := peer.addrOK && anyContains(hp, peer.addr)
	conn := connMentions(k, k.hdrs)
	anyOmit := k.omit[0] || k.omit[1] || k.omit[2]

	// ---------------- tags
	switch {
	case !peer.splitOK:
		tag("remote:unsplittable")
	case !peer.addrOK:
		tag("remote:not-an-ip")
	case srvTrusted && k.strict > 0:
		tag("peer:trusted-strict")
	case srvTrusted:
		tag("peer:trusted")
	case hTrusted:
		tag("peer:handler-trusted-only")
	default:
		tag("peer:untrusted")
	}
	if k.srvTNil {
		tag("cfg:no-trusted-proxies")
	}
	if k.srvDyn {
		tag("cfg:request-scoped-range-source")
	}
	if k.cihNil {
		tag("cfg:default-client-ip-headers")
	}
	if anyOmit {
		tag("cfg:omit")
	}
	if conn {
		tag("hdr:connection-names-forwarding-header")
	}
	if len(k.hdrs) == 0 {
		tag("trivial")
	}
	if o != nil && o.sent {
		if v := o.out[fwdNames[0]]; len(v) == 1 && strings.Contains(v[0], ", ") {
			tag("xff:prior-kept")
		}
		if o.clientIP != "" && peer.addrOK && o.clientIP != peer.addr.String() {
			tag("client-ip:from-header")
		}
	}
	if !o.probed {
		fail("harness-no-probe", impl)
		return
	}

	// ---------------- OM: everything that consumes the attributed address sees exactly that address
	{
		mr := k.matcherRanges()
		var mp []netip.Prefix
		if !k.srvDyn {
			mp = append(mp, sp...)
		}
		mp = append(append(mp, hp...), fixedPrefixes...)
		var mz []string
		if !k.srvDyn {
			for _, r := range k.srvT {
				mz = append(mz, zoneOfRange(r))
			}
		}
		for _, r := range k.hT {
			mz = append(mz, zoneOfRange(r))
		}
		mz = append(mz, fixedZones...)
		zoneMatch := func(a netip.Addr, zone string) bool {
			for i, p := range mp {
				if p.Contains(a) && (mz[i] == "" || mz[i] == zone) {
					return true
				}
			}
			return false
		}
		want := false
		if a, err := netip.ParseAddr(o.clientIP); err == nil {
			want = zoneMatch(a, "")
		}
		if k.early {
			// 0-RTT data: the address cannot be verified yet, the matchers must refuse to match
			want = false
			tag("tls:early-data")
		}
		if o.matchedIP != want {
			fail("client-ip-matcher-disagrees", fmt.Sprintf("client_ip matcher over %v says %v for client_ip %q", mr, o.matchedIP, o.clientIP))
		}
		if o.matchedIP {
			tag("client_ip-matcher:match")
		}
		// remote_ip: the socket address (host part if there is a port), zone compared with the range's zone
		rhost := k.remote
		if h, _, err := net.SplitHostPort(k.remote); err == nil {
			rhost = h
		}
		rzone := ""
		if i := strings.IndexByte(rhost, '%'); i >= 0 {
			rzone = rhost[i+1:]
			rhost = rhost[:i]
			if j := strings.IndexByte(rzone, '%'); j >= 0 {
				rzone = rzone[:j]
			}
		}
		wantR := false
		if a, err := netip.ParseAddr(rhost); err == nil {
			wantR = zoneMatch(a, rzone)
		}
		if k.early {
			wantR = false
		}
		if o.remoteHit != wantR {
			fail("remote-ip-matcher-disagrees", fmt.Sprintf("remote_ip matcher over %v says %v for remote %q", mr, o.remoteHit, k.remote))
		}
		if o.remoteHit && rzone != "" {
			tag("remote_ip-matcher:zoned-match")
		}
		if o.celRan {
			tag("matchers:cel-form")
			if o.celClient != o.matchedIP || o.celRemote != o.remoteHit {
				fail("cel-matcher-disagrees-with-matcher", fmt.Sprintf("client_ip: matcher %v / CEL %v, remote_ip: matcher %v / CEL %v (client_ip %q, remote %q)",
					o.matchedIP, o.celClient, o.remoteHit, o.celRemote, o.clientIP, k.remote))
			}
		}
		if o.tmplIP != o.clientIP {
			fail("client-ip-template-differs", fmt.Sprintf("{{.ClientIP}} = %q, client_ip = %q", o.tmplIP, o.clientIP))
		}
		if o.placeh != o.clientIP {
			fail("client-ip-placeholder-differs", fmt.Sprintf("{http.vars.client_ip} = %q, client_ip = %q", o.placeh, o.clientIP))
		}
		if !o.logHas || o.logIP != o.clientIP {
			fail("client-ip-log-field-differs", fmt.Sprintf("access log client_ip = %q (present %v), client_ip = %q", o.logIP, o.logHas, o.clientIP))
		}
		if info, ok := caddyhttp.GetVar(o.ctx, "reverse_proxy.proxy_protocol_info").(reverseproxy.ProxyProtocolInfo); ok {
			a, err := netip.ParseAddr(o.clientIP)
			if (err == nil) != info.AddrPort.IsValid() || (err == nil && info.AddrPort.Addr() != a) {
				fail("proxy-protocol-address-differs", fmt.Sprintf("PROXY protocol address %v, client_ip %q", info.AddrPort, o.clientIP))
			}
		}
	}

	// ---------------- O0: the trusted flag is exactly "peer address is in a configured range"
	if o.trusted != srvTrusted {
		fail("trusted-flag-wrong", fmt.Sprintf("trusted_proxy var is %v but the peer %q is in the server's trusted ranges: %v", o.trusted, k.remote, srvTrusted))
	}

	// ---------------- OR: every attempt of the proxy loop carries the same forwarding fields
	for i := 1; i < len(o.attempts); i++ {
		for _, n := range fwdNames {
			a, aok := o.attempts[0][n]
			b, bok := o.attempts[i][n]
			_, _ = aok, bok // nil and absent both mean "not sent"
			if len(a) != len(b) || strings.Join(a, "\x00") != strings.Join(b, "\x00") {
				fail("retried-attempt-forwarded-headers-differ", fmt.Sprintf("attempt %d sends %s = %q, the first attempt sent %q (peer %q)", i+1, n, b, a, k.remote))
				break
			}
		}
	}
	if len(o.attempts) > 1 {
		tag(fmt.Sprintf("retry:attempts=%d,hops=%d", len(o.attempts), k.hops))
	}
	// ---------------- OL: the load balancer consumes the attributed address / the trusted flag
	if k.lb == 1 && len(o.upstreams) > 0 {
		tag("lb:client_ip_hash")
		for _, u := range o.upstreams[1:] {
			if u != o.upstreams[0] {
				fail("client-ip-hash-changes-between-attempts", fmt.Sprintf("attempts went to %v", o.upstreams))
				break
			}
		}
		// metamorphic: a direct, header-less connection from the attributed address lands on the same upstream
		if a, err := netip.ParseAddr(o.clientIP); err == nil {
			k2 := *k
			k2.remote = netip.AddrPortFrom(a, 1).String()
			k2.hdrs, k2.fails, k2.omit = nil, 0, [3]bool{}
			if _, o2, err := p.serve(&k2, nil); err == nil && len(o2.upstreams) > 0 && o2.clientIP == o.clientIP && o2.upstreams[0] != o.upstreams[0] {
				fail("client-ip-hash-not-a-function-of-client-ip", fmt.Sprintf("client_ip %q goes to %s, the same address connecting directly goes to %s", o.clientIP, o.upstreams[0], o2.upstreams[0]))
			}
		}
	}
	if k.lb == 2 && o.sent {
		tag("lb:cookie")
		want := k.tls
		if !k.srvTNil && refPeer(k.remote).addrOK {
			spx, _ := parsePrefixes(k.srvT)
			if anyContains(spx, refPeer(k.remote).addr) {
				if v := o.out[fwdNames[1]]; len(v) > 0 && v[len(v)-1] == "https" {
					want = true
				}
			}
		}
		if o.cookie != b01(want) {
			fail("sticky-cookie-secure-flag", fmt.Sprintf("cookie Secure = %s; TLS %v, X-Forwarded-Proto sent %q (peer %q)", o.cookie, k.tls, o.out[fwdNames[1]], k.remote))
		}
	}
	if o.sent && len(o.attempts) != k.fails+1 {
		fail("harness-attempt-count", fmt.Sprintf("%d attempts, expected %d", len(o.attempts), k.fails+1))
	}

	// ---------------- O6: a remote address that is not host:port / not an IP yields no client ip and sends nothing forged
	if !peer.splitOK {
		if o.clientIP != "" {
			fail("unparsable-remote-has-client-ip", fmt.Sprintf("remote %q, client_ip %q", k.remote, o.clientIP))
		}
		if o.sent {
			for _, n := range fwdNames {
				if _, ok := o.out[n]; ok {
					fail("unparsable-remote-forwards-headers", fmt.Sprintf("remote %q: %s = %q sent upstream", k.remote, n, o.out[n]))
					break
				}
			}
		}
		return
	}
	if !peer.addrOK {
		if o.clientIP != "" || o.sent {
			fail("non-ip-remote-accepted", fmt.Sprintf("remote %q: client_ip %q, sent upstream: %v", k.remote, o.clientIP, o.sent))
		}
		return
	}
	if k.lb == 3 {
		p.fcgiOracle(k, o, srvTrusted, hTrusted, peer, fail, tag)
		return
	}
	if !o.sent {
		fail("valid-remote-refused", fmt.Sprintf("remote %q: nothing was sent upstream (%s)", k.remote, impl))
		return
	}

	// what the connection itself says
	proto := "http"
	if k.tls {
		proto = "https"
	}
	connVals := [3]string{peer.host, proto, k.host}

	// ---------------- O1 + O2: untrusted peer
	if !srvTrusted {
		if o.clientIP != peer.addr.String() {
			fail("untrusted-client-ip-not-peer", fmt.Sprintf("peer %q is not trusted but client_ip is %q", k.remote, o.clientIP))
		}
	}
	if !srvTrusted && !hTrusted {
		for i, n := range fwdNames {
			v, ok := o.out[n]
			switch {
			case k.hops == 2 && i == 2:
				if ok {
					fail("header-up-delete-not-applied", fmt.Sprintf("the operator deletes X-Forwarded-Host but %q was sent", v))
				}
			case k.omit[i] && !conn:
				if len(v) != 0 { // nil, or dropped when the header map is copied for header_up: not sent either way
					fail("omit-not-honoured", fmt.Sprintf("%s was nil before reverse_proxy but %q was sent", n, v))
				}
			case k.omit[i] && conn:
				// the client asked for the (nil) field to be dropped hop-by-hop: it comes back with the connection's value
				if !(len(v) == 1 && v[0] == connVals[i]) && len(v) != 0 {
					fail("untrusted-forwarded-value-not-from-connection", fmt.Sprintf("%s = %q, connection says %q", n, v, connVals[i]))
				}
			default:
				if !(len(v) == 1 && v[0] == connVals[i]) {
					fail("untrusted-forwarded-value-not-from-connection", fmt.Sprintf("peer %q untrusted: %s = %q sent upstream, connection says %q", k.remote, n, v, connVals[i]))
				}
			}
		}
	}
	if !srvTrusted {
		// two-run relation: the attacker re-chooses every forwarding header
		for vi, hv := range variants(k) {
			impl2, o2, err := p.serve(k, hv)
			if err != nil {
				continue
			}
			if k.lb == 1 && len(o.upstreams) > 0 && len(o2.upstreams) > 0 && o2.upstreams[0] != o.upstreams[0] {
				fail("untrusted-header-influences-upstream-selection", fmt.Sprintf("variant %d of the forwarding headers moves the request from %s to %s", vi, o.upstreams[0], o2.upstreams[0]))
				break
			}
			if o2.matchedIP != o.matchedIP {
				fail("untrusted-header-influences-client-ip-matcher", fmt.Sprintf("variant %d of the forwarding headers flips the client_ip matcher", vi))
				break
			}
			if ipPart(impl2) != ipPart(impl) {
				fail("untrusted-header-influences-client-ip", fmt.Sprintf("variant %d of the forwarding headers changes %q into %q", vi, ipPart(impl), ipPart(impl2)))
				break
			}
			if !hTrusted && fwdPart(impl2) != fwdPart(impl) {
				// the variants carry the same Connection fields as the case, so even with a field
				// pre-set to nil the outcome must be identical (untrusted_forwarding_headers_irrelevant)
				fail("untrusted-header-influences-forwarded", fmt.Sprintf("variant %d of the forwarding headers changes %q into %q", vi, fwdPart(impl), fwdPart(impl2)))
				break
			}
		}
	}
	if !srvTrusted && !hTrusted && anyOmit && !conn {
		// NOT a property failure, only a histogram tag: with a field pre-set to nil by an earlier
		// handler, the peer's `Connection: <field>` makes reverse_proxy send the field after all —
		// with the connection's value (checked above), so C10 holds.  Model facts:
		// untrusted_noninterference_full_fails / _partial.
		var hv []hdrField
		for i, n := range fwdNames {
			if k.omit[i] {
				hv = append(append(hv, k.hdrs...), hdrField{"Connection", n})
				break
			}
		}
		if impl2, _, err := p.serve(k, hv); err == nil && fwdPart(impl2) != fwdPart(impl) {
			tag("omit:connection-header-revives-nil-field")
		}
	}

	// ---------------- O3/O4: trusted peer — which address becomes the client ip
	if srvTrusted {
		h := http.Header{}
		for _, f := range k.hdrs {
			h.Add(f.name, f.value)
		}
		clean := true
		var perHeader [][]netip.Addr // addresses per configured header, in order, junk dropped
		allowed := map[string]bool{peer.addr.String(): true}
		for _, n := range k.effectiveCIH() {
			var as []netip.Addr
			for _, v := range h.Values(n) {
				for _, part := range strings.Split(v, ",") {
					kind, a := refPart(part)
					switch kind {
					case partAddr:
						as = append(as, a)
					case partQuirky:
						clean = false
					}
				}
				// containment: every address that occurs anywhere in the value
				for i := 0; i < len(v); i++ {
					for j := i + 1; j <= len(v) && j-i <= 48; j++ {
						if !addrByte(v[i]) || !addrByte(v[j-1]) {
							break
						}
						if a, err := netip.ParseAddr(v[i:j]); err == nil {
							allowed[a.String()] = true
						}
					}
				}
			}
			perHeader = append(perHeader, as)
		}
		if !allowed[o.clientIP] {
			fail("client-ip-not-from-headers-or-peer", fmt.Sprintf("client_ip %q is neither the peer nor an address in a configured header", o.clientIP))
		}
		if clean {
			tag("trusted:clean-header-grammar")
			want := peer.addr.String()
			if k.strict > 0 {
			outer:
				for _, as := range perHeader {
					for i := len(as) - 1; i >= 0; i-- {
						if !anyContains(sp, as[i]) {
							want = as[i].String()
							break outer
						}
					}
				}
				if o.clientIP != want {
					fail("strict-not-rightmost-untrusted", fmt.Sprintf("strict mode: client_ip %q, right-most untrusted address is %q", o.clientIP, want))
				}
			} else {
			outer2:
				for _, as := range perHeader {
					for _, a := range as {
						want = a.String()
						break outer2
					}
				}
				if o.clientIP != want {
					fail("trusted-not-leftmost-valid", fmt.Sprintf("client_ip %q, left-most valid address is %q", o.clientIP, want))
				}
			}
		} else {
			tag("trusted:quirky-header-grammar")
		}
	}

	// ---------------- O5: trusted peer — prior values kept and appended to
	if (srvTrusted || hTrusted) && !conn {
		h := http.Header{}
		for _, f := range k.hdrs {
			h.Add(f.name, f.value)
		}
		for i, n := range fwdNames {
			if k.hops == 2 && i == 2 {
				if v, ok := o.out[n]; ok {
					fail("header-up-delete-not-applied", fmt.Sprintf("the operator deletes X-Forwarded-Host but %q was sent", v))
				}
				continue
			}
			if k.omit[i] {
				if v := o.out[n]; len(v) != 0 {
					fail("omit-not-honoured", fmt.Sprintf("%s was nil before reverse_proxy but %q was sent", n, v))
				}
				continue
			}
			prior := h.Values(n)
			want := connVals[i]
			if i == 0 {
				if j := strings.Join(prior, ", "); j != "" {
					want = j + ", " + peer.host
				}
			} else if len(prior) > 0 && prior[len(prior)-1] != "" {
				want = prior[len(prior)-1]
			}
			if v := o.out[n]; !(len(v) == 1 && v[0] == want) {
				fail("trusted-prior-not-kept", fmt.Sprintf("trusted peer: %s sent upstream is %q, expected %q", n, v, want))
			}
		}
	}
}

// zoneOfRange is the zone filter a matcher attaches to a range expression (text behind the first '%').
func zoneOfRange(r string) string {
	_, z, _ := strings.Cut(r, "%")
	z, _, _ = strings.Cut(z, "%")
	return z
}

// fcgiOracle: what a FastCGI application is told about the client (php_fastcgi).
func (p *prop) fcgiOracle(k *kase, o *obs, srvTrusted, hTrusted bool, peer peerInfo, fail func(string, string), tag func(string)) {
	tag("transport:fastcgi")
	if o.env == nil {
		fail("valid-remote-refused", fmt.Sprintf("remote %q: nothing reached the FastCGI application", k.remote))
		return
	}
	// REMOTE_ADDR / REMOTE_PORT are the socket's
	if host, port, err := net.SplitHostPort(k.remote); err == nil {
		if o.env["REMOTE_ADDR"] != host || o.env["REMOTE_PORT"] != port {
			fail("fastcgi-remote-addr-not-the-connection", fmt.Sprintf("REMOTE_ADDR %q REMOTE_PORT %q for the connection %q", o.env["REMOTE_ADDR"], o.env["REMOTE_PORT"], k.remote))
		}
	}
	if srvTrusted || hTrusted {
		return
	}
	proto := "http"
	if k.tls {
		proto = "https"
	}
	connVals := [3]string{peer.host, proto, k.host}
	collide := fcgiCollision(k.hdrs)
	if collide {
		tag("fastcgi:client-field-with-the-same-cgi-name")
	}
	for i, n := range fcgiNames {
		want := core.Hex(connVals[i])
		if k.omit[i] {
			continue // a field pre-set to nil: empty or absent, the model says which
		}
		if k.hops == 2 && i == 2 {
			want = "absent"
		}
		for v := range o.envSets[i] {
			if v != want {
				class := "fastcgi-forwarded-variable-not-from-connection"
				if collide {
					class = "fastcgi-underscore-field-overrides-forwarded-variable"
				}
				got, _ := core.UnHex(v)
				fail(class, fmt.Sprintf("untrusted peer %q: the application can see %s = %q, the connection says %q", k.remote, n, got, connVals[i]))
				return
			}
		}
	}
}

// incOracle: the sub-request templates' httpInclude makes for an UNTRUSTED peer's request must not
// attribute an address taken from that peer's headers (two-run relation over the forwarding headers).
func (p *prop) incOracle(k *kase, impl string, out *core.Outcome) {
	out.Tags = append(out.Tags, "op:inc")
	sp, _ := parsePrefixes(k.srvT)
	peer := refPeer(k.remote)
	srvTrusted := !k.srvTNil && peer.addrOK && anyContains(sp, peer.addr)
	if srvTrusted || !peer.addrOK {
		out.Tags = append(out.Tags, "inc:trusted-or-unusable-peer")
		return
	}
	if lo, err := netip.ParseAddr("127.0.0.1"); err == nil && !k.srvTNil && anyContains(sp, lo) {
		out.Tags = append(out.Tags, "inc:untrusted-peer,loopback-trusted")
	}
	for vi, hv := range variants(k) {
		impl2, _, err := p.serve(k, hv)
		if err != nil {
			continue
		}
		if impl2 != impl {
			a, _ := core.UnHex(strings.TrimPrefix(strings.Fields(impl)[0], "inner="))
			b, _ := core.UnHex(strings.TrimPrefix(strings.Fields(impl2)[0], "inner="))
			out.Failures = append(out.Failures, core.Failure{Class: "httpinclude-subrequest-honours-untrusted-forwarding-headers",
				What: fmt.Sprintf("untrusted peer %q: the included sub-request is attributed %q, with variant %d of the forwarding headers %q", k.remote, a, vi, b)})
			return
		}
	}
}
