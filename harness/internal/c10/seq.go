package c10

import (
	"bufio"
	"context"
	"crypto/tls"
	"encoding/json"
	"fmt"
	"io"
	"net"
	"net/http"
	"strings"
	"sync"
	"time"

	"golang.org/x/net/http2"

	"github.com/caddyserver/caddy/v2"
	"github.com/caddyserver/caddy/v2/modules/caddyhttp"
	_ "github.com/caddyserver/caddy/v2/modules/caddyhttp/headers"

	"verif/harness/internal/core"
)

// Sequences of requests over ONE real connection to a REAL listener of a running caddy:
//
//	seq <server> <proto> <reqs> <tbl>
//
//	server 0..11   which of twelve running servers (127.0.0.(server+1):<ephemeral>): trusted_proxies
//	               none | 127.0.0.0/8 (covers the peer) | 10.0.0.0/8  x  client_ip_headers default |
//	               [X-Real-IP, X-Forwarded-For]  x  trusted_proxies_strict 0 | 1   (index = 4*t + 2*h + s)
//	proto  1 | 2   HTTP/1.1 keep-alive | HTTP/2 (h2c, prior knowledge): every request on the SAME connection
//	reqs   r|r|…   2-4 requests, each `.` or name:value;… (hex) — sent one after the other
//	tbl            the `req` table (sbits: the server's range, hbits: the matcher range 6.6.6.0/24)
//
// Each server answers `{http.vars.client_ip}|{http.vars.trusted_proxy}` and a `client_ip 6.6.6.0/24` matcher route
// adds X-M: 1.  Answer: "<hex ip>/<t>/<m> | …", one triple per request, in order.

type seqServers struct {
	addrs [12]string
	err   error
}

var (
	seqOnce sync.Once
	seqSrv  seqServers
)

var seqTrusted = [3][]string{nil, {"127.0.0.0/8"}, {"10.0.0.0/8"}}
var seqCIH = [2][]string{nil, {"X-Real-IP", "X-Forwarded-For"}}

const seqMatcherRange = "6.6.6.0/24"

func seqStart() *seqServers {
	seqOnce.Do(func() {
		servers := map[string]any{}
		for i := 0; i < 12; i++ {
			srv := map[string]any{
				"listen":          []string{fmt.Sprintf("127.0.0.%d:0", i+1)},
				"automatic_https": map[string]any{"disable": true},
				"protocols":       []string{"h1", "h2c"},
				"routes": []any{
					map[string]any{"match": []any{map[string]any{"client_ip": map[string]any{"ranges": []string{seqMatcherRange}}}},
						"handle": []any{map[string]any{"handler": "headers", "response": map[string]any{"set": map[string]any{"X-M": []string{"1"}}}}}},
					map[string]any{"handle": []any{map[string]any{"handler": "static_response", "body": "{http.vars.client_ip}|{http.vars.trusted_proxy}"}}},
				},
			}
			if t := seqTrusted[i/4]; t != nil {
				srv["trusted_proxies"] = map[string]any{"source": "static", "ranges": t}
			}
			if h := seqCIH[(i/2)%2]; h != nil {
				srv["client_ip_headers"] = h
			}
			if i%2 == 1 {
				srv["trusted_proxies_strict"] = 1
			}
			servers[fmt.Sprintf("s%02d", i)] = srv
		}
		httpApp, _ := json.Marshal(map[string]any{"servers": servers, "grace_period": "1s"})
		cfg := &caddy.Config{
			Admin: &caddy.AdminConfig{Disabled: true},
			Logging: &caddy.Logging{Logs: map[string]*caddy.CustomLog{
				"default": {BaseLog: caddy.BaseLog{WriterRaw: json.RawMessage(`{"output":"discard"}`)}},
			}},
			AppsRaw: caddy.ModuleMap{"http": httpApp},
		}
		if err := caddy.Run(cfg); err != nil {
			seqSrv.err = err
			return
		}
		appI, err := caddy.ActiveContext().App("http")
		if err != nil {
			seqSrv.err = err
			return
		}
		for i := 0; i < 12; i++ {
			s := appI.(*caddyhttp.App).Servers[fmt.Sprintf("s%02d", i)]
			for _, ln := range s.Listeners() {
				if ln.Addr().Network() == "tcp" {
					seqSrv.addrs[i] = ln.Addr().String()
				}
			}
			if seqSrv.addrs[i] == "" {
				seqSrv.err = fmt.Errorf("server %d has no tcp listener", i)
			}
		}
	})
	return &seqSrv
}

func seqDial(addr string) (net.Conn, error) {
	d := net.Dialer{LocalAddr: &net.TCPAddr{IP: net.IPv4(127, 0, 0, 1)}, Timeout: 3 * time.Second}
	return d.Dial("tcp", addr)
}

func seqValueOK(v string) bool {
	for i := 0; i < len(v); i++ {
		if c := v[i]; (c < 0x20 && c != '\t') || c == 0x7f {
			return false
		}
	}
	return v == strings.TrimSpace(v) || strings.Trim(v, " \t") == v
}

func parseReqs(s string) ([][]hdrField, bool) {
	var out [][]hdrField
	for _, r := range strings.Split(s, "|") {
		var hs []hdrField
		if r != "." {
			for _, p := range strings.Split(r, ";") {
				nv := strings.Split(p, ":")
				if len(nv) != 2 {
					return nil, false
				}
				n, e1 := core.UnHex(nv[0])
				v, e2 := core.UnHex(nv[1])
				if e1 != nil || e2 != nil || n == "" || !tokenOK(strings.ReplaceAll(n, "_", "-")) || strings.ContainsAny(n, ":/.") || !seqValueOK(v) || strings.Trim(v, " \t") != v {
					return nil, false
				}
				hs = append(hs, hdrField{n, v})
			}
		}
		out = append(out, hs)
	}
	return out, len(out) >= 1 && len(out) <= 4
}

func reqsField(rs [][]hdrField) string {
	var ps []string
	for _, hs := range rs {
		if len(hs) == 0 {
			ps = append(ps, ".")
			continue
		}
		var fs []string
		for _, h := range hs {
			fs = append(fs, core.Hex(h.name)+":"+core.Hex(h.value))
		}
		ps = append(ps, strings.Join(fs, ";"))
	}
	return strings.Join(ps, "|")
}

func seqTable(server int, rs [][]hdrField) string {
	k := &kase{srvT: seqTrusted[server/4], hT: []string{seqMatcherRange}, remote: "127.0.0.1:1"}
	if k.srvT == nil {
		k.srvTNil = true
	}
	for _, hs := range rs {
		k.hdrs = append(k.hdrs, hs...)
	}
	return k.table()
}

func (p *prop) runSeq(f []string) core.Outcome {
	if len(f) != 5 || len(f[1]) == 0 || (f[2] != "1" && f[2] != "2") {
		return core.Outcome{Impl: "bad-op"}
	}
	server := 0
	for _, c := range f[1] {
		if c < '0' || c > '9' || len(f[1]) > 2 {
			return core.Outcome{Impl: "bad-op"}
		}
		server = server*10 + int(c-'0')
	}
	rs, ok := parseReqs(f[3])
	if !ok || server > 11 {
		return core.Outcome{Impl: "bad-op"}
	}
	if seqTable(server, rs) != f[4] {
		return core.Outcome{Impl: "bad-table", Tags: []string{"bad-table"}}
	}
	out := core.Outcome{Tags: []string{"op:seq", "seq:http" + f[2]}}
	ss := seqStart()
	if ss.err != nil {
		out.Impl = "seq-start-error"
		out.Failures = append(out.Failures, core.Failure{Class: "harness-seq-start", What: ss.err.Error()})
		return out
	}
	var answers []string
	record := func(resp *http.Response) error {
		body, err := io.ReadAll(resp.Body)
		resp.Body.Close()
		if err != nil {
			return err
		}
		ip, t, _ := strings.Cut(string(body), "|")
		answers = append(answers, core.Hex(ip)+"/"+b01(t == "true")+"/"+b01(resp.Header.Get("X-M") == "1"))
		return nil
	}
	if f[2] == "1" {
		conn, err := seqDial(ss.addrs[server])
		if err != nil {
			out.Impl = "dial-error"
			return out
		}
		defer conn.Close()
		conn.SetDeadline(time.Now().Add(10 * time.Second))
		br := bufio.NewReader(conn)
		for _, hs := range rs {
			var sb strings.Builder
			sb.WriteString("GET / HTTP/1.1\r\nHost: seq.test\r\n")
			for _, h := range hs {
				sb.WriteString(h.name + ": " + h.value + "\r\n")
			}
			sb.WriteString("\r\n")
			if _, err := io.WriteString(conn, sb.String()); err != nil {
				out.Impl = "write-error"
				return out
			}
			resp, err := http.ReadResponse(br, nil)
			if err != nil || record(resp) != nil {
				out.Impl = "read-error"
				return out
			}
		}
	} else {
		// one HTTP/2 connection (h2c with prior knowledge): every request is a stream on it
		dials := 0
		tr := &http2.Transport{AllowHTTP: true, DialTLSContext: func(ctx context.Context, network, addr string, _ *tls.Config) (net.Conn, error) {
			dials++
			return seqDial(addr)
		}}
		defer tr.CloseIdleConnections()
		for _, hs := range rs {
			req, _ := http.NewRequest("GET", "http://"+ss.addrs[server]+"/", nil)
			req.Host = "seq.test"
			for _, h := range hs {
				req.Header.Add(h.name, h.value)
			}
			resp, err := tr.RoundTrip(req)
			if err != nil || record(resp) != nil {
				out.Impl = "read-error"
				return out
			}
		}
		if dials != 1 {
			out.Impl = "h2-not-one-connection"
			return out
		}
	}
	out.Impl = strings.Join(answers, " | ")
	// ---- oracle (implementation only): history independence — every request alone on a fresh connection
	// gets the same answer as it got inside the sequence
	if !p.seqSolo {
		for i, hs := range rs {
			p.seqSolo = true
			solo := p.runSeq([]string{"seq", f[1], f[2], reqsField([][]hdrField{hs}), seqTable(server, [][]hdrField{hs})})
			p.seqSolo = false
			if solo.Impl != answers[i] {
				out.Failures = append(out.Failures, core.Failure{Class: "client-address-depends-on-earlier-requests-of-the-connection",
					What: fmt.Sprintf("request %d of %d on the connection is answered %q; alone on a connection it is answered %q", i+1, len(rs), answers[i], solo.Impl)})
				break
			}
		}
	}
	return out
}

var seqValues = []string{"6.6.6.6", "6.6.6.7, 10.0.0.1", "8.8.8.8", "10.9.9.9, 6.6.6.9", "junk, 6.6.6.1:80", "[2001:db8::5]:443", "127.0.0.1", "1.2.3.4,6.6.6.8"}

func genSeq(r *core.Rand) string {
	server := r.Intn(12)
	if r.Chance(1, 2) {
		server = 4 + r.Intn(4) // the peer is a trusted proxy
	}
	n := 2 + r.Intn(3)
	var rs [][]hdrField
	for i := 0; i < n; i++ {
		var hs []hdrField
		for j := r.Intn(3); j > 0; j-- {
			hs = append(hs, hdrField{r.Pick([]string{"X-Forwarded-For", "X-Real-IP", "x-forwarded-for", "X-Forwarded-For"}), r.Pick(seqValues)})
		}
		rs = append(rs, hs)
	}
	proto := "1"
	if r.Chance(1, 3) {
		proto = "2"
	}
	return fmt.Sprintf("seq %d %s %s %s", server, proto, reqsField(rs), seqTable(server, rs))
}
