package c10

import (
	"encoding/json"
	"fmt"
	"net/http"
	"sort"
	"strings"

	"github.com/caddyserver/caddy/v2/caddyconfig"
	_ "github.com/caddyserver/caddy/v2/caddyconfig/httpcaddyfile"
	_ "github.com/caddyserver/caddy/v2/modules/caddyhttp/reverseproxy/forwardauth"

	"verif/harness/internal/core"
)

// Caddyfile glue:  cf <srvTP> <strict> <cih> <rpTP> <target>
//
//	srvTP  . | line|line…    `trusted_proxies static <args>` lines of the global `servers` block
//	strict 0|1|2|x           number of `trusted_proxies_strict` lines; x = one line with an argument
//	cih    . | line|line…    `client_ip_headers <args>` lines
//	rpTP   . | line|line…    `trusted_proxies <args>` lines inside the site's reverse_proxy block
//	target g | t             g: global `servers { … }`, one site :80;  t: `servers :8443 { … }` with a second site
//	                         http://:8443 — the options must reach that server and ONLY that server
//	line = _ (no arguments) | hex,hex,…   (tokens over [A-Za-z0-9_.:/-])
//
// The real Caddyfile adapter turns the file into JSON; the answer is what reached the server and
// the handler:  "srv=<nil|.|hex,…> strict=<0|1> cih=<nil|hex,…> rp=<.|hex,…> up=<hex>"  or "err".
// `up` is what the `{client_ip}` shorthand in `header_up X-Client {client_ip}` became.

func tokenOK(t string) bool {
	if t == "" {
		return false
	}
	for i := 0; i < len(t); i++ {
		c := t[i]
		if !(c >= '0' && c <= '9' || c >= 'a' && c <= 'z' || c >= 'A' && c <= 'Z' || c == '_' || c == '.' || c == ':' || c == '/' || c == '-') {
			return false
		}
	}
	return true
}

func parseLines(s string) ([][]string, bool) {
	if s == "." {
		return nil, true
	}
	var out [][]string
	for _, l := range strings.Split(s, "|") {
		if l == "_" {
			out = append(out, []string{})
			continue
		}
		var args []string
		for _, h := range strings.Split(l, ",") {
			t, err := core.UnHex(h)
			if err != nil || !tokenOK(t) {
				return nil, false
			}
			args = append(args, t)
		}
		out = append(out, args)
	}
	return out, true
}

func linesField(ls [][]string) string {
	if len(ls) == 0 {
		return "."
	}
	var ps []string
	for _, l := range ls {
		if len(l) == 0 {
			ps = append(ps, "_")
			continue
		}
		hs := make([]string, len(l))
		for i, t := range l {
			hs[i] = core.Hex(t)
		}
		ps = append(ps, strings.Join(hs, ","))
	}
	return strings.Join(ps, "|")
}

func hexList(xs []string, nilWord string) string {
	if xs == nil {
		return nilWord
	}
	if len(xs) == 0 {
		return "."
	}
	hs := make([]string, len(xs))
	for i, x := range xs {
		hs[i] = core.Hex(x)
	}
	return strings.Join(hs, ",")
}

// findRP finds the reverse_proxy handler object in the adapted JSON.
func findRP(v any) map[string]any {
	switch t := v.(type) {
	case map[string]any:
		if t["handler"] == "reverse_proxy" {
			return t
		}
		for _, x := range t {
			if r := findRP(x); r != nil {
				return r
			}
		}
	case []any:
		for _, x := range t {
			if r := findRP(x); r != nil {
				return r
			}
		}
	}
	return nil
}

func strs(v any) []string {
	a, ok := v.([]any)
	if !ok {
		return nil
	}
	out := []string{}
	for _, x := range a {
		s, _ := x.(string)
		out = append(out, s)
	}
	return out
}

func (p *prop) runCF(f []string) core.Outcome {
	if (len(f) != 6 && len(f) != 7) || (f[5] != "g" && f[5] != "t") {
		return core.Outcome{Impl: "bad-op"}
	}
	// dir (optional 6th field): r reverse_proxy | a forward_auth | p php_fastcgi — the wrappers build a reverse_proxy
	// handler, pre-fill it and hand the remaining subdirectives to reverse_proxy's own parser; the answer then ends in
	// " pre=<.|hex,…>": the request header fields (sorted) the wrapper pre-filled (everything set besides X-Client)
	dir := "r"
	if len(f) == 7 {
		dir = f[6]
		if dir != "r" && dir != "a" && dir != "p" {
			return core.Outcome{Impl: "bad-op"}
		}
	}
	targeted := f[5] == "t"
	srvTP, ok1 := parseLines(f[1])
	cih, ok2 := parseLines(f[3])
	rpTP, ok3 := parseLines(f[4])
	if !ok1 || !ok2 || !ok3 {
		return core.Outcome{Impl: "bad-op"}
	}
	var sb strings.Builder
	var opts []string
	for _, l := range srvTP {
		opts = append(opts, "\t\ttrusted_proxies static "+strings.Join(l, " "))
	}
	switch f[2] {
	case "0":
	case "1", "2":
		for i := 0; i < int(f[2][0]-'0'); i++ {
			opts = append(opts, "\t\ttrusted_proxies_strict")
		}
	case "x":
		opts = append(opts, "\t\ttrusted_proxies_strict on")
	default:
		return core.Outcome{Impl: "bad-op"}
	}
	for _, l := range cih {
		opts = append(opts, "\t\tclient_ip_headers "+strings.Join(l, " "))
	}
	if len(opts) > 0 {
		if targeted {
			sb.WriteString("{\n\tservers :8443 {\n" + strings.Join(opts, "\n") + "\n\t}\n}\n")
		} else {
			sb.WriteString("{\n\tservers {\n" + strings.Join(opts, "\n") + "\n\t}\n}\n")
		}
	}
	if targeted {
		sb.WriteString("http://:8443 {\n\trespond ok\n}\n")
	}
	switch dir {
	case "a":
		sb.WriteString(":80 {\n\tforward_auth 127.0.0.1:9 {\n\t\turi /auth\n")
	case "p":
		sb.WriteString(":80 {\n\tphp_fastcgi 127.0.0.1:9 {\n")
	default:
		sb.WriteString(":80 {\n\treverse_proxy 127.0.0.1:9 {\n")
	}
	for _, l := range rpTP {
		sb.WriteString("\t\ttrusted_proxies " + strings.Join(l, " ") + "\n")
	}
	sb.WriteString("\t\theader_up X-Client {client_ip}\n\t}\n}\n")

	out := core.Outcome{Tags: []string{"op:cf"}}
	adapter := caddyconfig.GetAdapter("caddyfile")
	body, _, err := adapter.Adapt([]byte(sb.String()), map[string]any{"filename": "Caddyfile"})
	if err != nil {
		out.Impl = "err"
		out.Tags = append(out.Tags, "cf:err")
		return out
	}
	var cfg struct {
		Apps struct {
			HTTP struct {
				Servers map[string]map[string]any `json:"servers"`
			} `json:"http"`
		} `json:"apps"`
	}
	want := 1
	if targeted {
		want = 2
	}
	if err := json.Unmarshal(body, &cfg); err != nil || len(cfg.Apps.HTTP.Servers) != want {
		out.Impl = "adapt-shape"
		return out
	}
	// srv: the server the options are written for; rpSrv: the server with the reverse_proxy site (:80)
	var srv, rpSrv map[string]any
	for _, s := range cfg.Apps.HTTP.Servers {
		l := strs(s["listen"])
		if len(l) == 1 && l[0] == ":8443" {
			srv = s
		} else {
			rpSrv = s
		}
	}
	if !targeted {
		srv = rpSrv
	}
	if srv == nil || rpSrv == nil {
		out.Impl = "adapt-shape"
		return out
	}
	srvR := "nil"
	if tp, ok := srv["trusted_proxies"].(map[string]any); ok {
		if tp["source"] != "static" {
			out.Impl = "adapt-shape"
			return out
		}
		r := strs(tp["ranges"])
		if r == nil {
			r = []string{}
		}
		srvR = hexList(r, "nil")
	}
	strict := "0"
	if n, ok := srv["trusted_proxies_strict"].(float64); ok && n > 0 {
		strict = "1"
	}
	rp := findRP(rpSrv["routes"])
	if rp == nil {
		out.Impl = "adapt-shape"
		return out
	}
	rpR := strs(rp["trusted_proxies"])
	if rpR == nil {
		rpR = []string{}
	}
	up := ""
	pre := []string{}
	touched := []string{} // every request header field some operation of the adapted handler names
	if hs, ok := rp["headers"].(map[string]any); ok {
		if rq, ok := hs["request"].(map[string]any); ok {
			if set, ok := rq["set"].(map[string]any); ok {
				if v := strs(set["X-Client"]); len(v) == 1 {
					up = v[0]
				}
				for n := range set {
					if n != "X-Client" {
						pre = append(pre, n)
					}
				}
			}
			for op, v := range rq {
				switch t := v.(type) {
				case map[string]any:
					for n := range t {
						touched = append(touched, n)
					}
				case []any:
					touched = append(touched, strs(t)...)
				default:
					touched = append(touched, "?"+op)
				}
			}
		}
	}
	sort.Strings(pre)
	out.Impl = fmt.Sprintf("srv=%s strict=%s cih=%s rp=%s up=%s", srvR, strict, hexList(strs(srv["client_ip_headers"]), "nil"), hexList(rpR, "nil"), core.Hex(up))
	if len(f) == 7 {
		out.Impl += " pre=" + hexList(pre, ".")
		out.Tags = append(out.Tags, "cf:dir="+dir)
		// the wrapper hands the auth backend / the PHP application the forwarding fields reverse_proxy computes: no
		// operation of the adapted handler may name one of them (the operator wrote none here)
		for _, n := range touched {
			for _, fw := range fwdNames {
				if http.CanonicalHeaderKey(n) == fw {
					out.Failures = append(out.Failures, core.Failure{Class: "caddyfile-wrapper-touches-forwarding-field",
						What: fmt.Sprintf("directive %s: the adapted reverse_proxy handler has a request header operation on %q", dir, n)})
				}
			}
		}
	}
	if targeted {
		// the options were written for :8443 only: the :80 server must not have received any of them
		_, hasTP := rpSrv["trusted_proxies"]
		_, hasStrict := rpSrv["trusted_proxies_strict"]
		_, hasCIH := rpSrv["client_ip_headers"]
		out.Impl += " other=" + b01(hasTP) + b01(hasStrict) + b01(hasCIH)
		out.Tags = append(out.Tags, "cf:targeted")
		if hasTP || hasStrict || hasCIH {
			out.Failures = append(out.Failures, core.Failure{Class: "caddyfile-server-options-on-wrong-listener",
				What: "options written for `servers :8443` reached the :80 server"})
		}
	}

	// ---- oracle (implementation only): no range reaches the configuration that the operator did not
	// write (or that `private_ranges` stands for), header order is the written order, strict iff written
	private := map[string]bool{"192.168.0.0/16": true, "172.16.0.0/12": true, "10.0.0.0/8": true, "127.0.0.1/8": true, "fd00::/8": true, "::1": true}
	check := func(what string, got []string, lines [][]string) {
		written := map[string]bool{}
		priv := false
		for _, l := range lines {
			for _, t := range l {
				if t == "private_ranges" {
					priv = true
				} else {
					written[t] = true
				}
			}
		}
		for _, g := range got {
			if !written[g] && !(priv && private[g]) {
				out.Failures = append(out.Failures, core.Failure{Class: "caddyfile-unwritten-trusted-range",
					What: fmt.Sprintf("%s trusts %q which the Caddyfile does not name", what, g)})
				return
			}
		}
	}
	if tp, ok := srv["trusted_proxies"].(map[string]any); ok && len(srvTP) > 0 {
		check("server", strs(tp["ranges"]), srvTP[len(srvTP)-1:])
	}
	check("reverse_proxy", rpR, rpTP)
	var flat []string
	for _, l := range cih {
		flat = append(flat, l...)
	}
	if got := strs(srv["client_ip_headers"]); strings.Join(got, "\x00") != strings.Join(flat, "\x00") {
		out.Failures = append(out.Failures, core.Failure{Class: "caddyfile-client-ip-headers-order",
			What: fmt.Sprintf("client_ip_headers %q written, %q configured", flat, got)})
	}
	if (strict == "1") != (f[2] == "1" || f[2] == "2") {
		out.Failures = append(out.Failures, core.Failure{Class: "caddyfile-strict-flag", What: "trusted_proxies_strict written " + f[2] + " times, configured " + strict})
	}
	if up != "{http.vars.client_ip}" {
		out.Failures = append(out.Failures, core.Failure{Class: "caddyfile-client-ip-shorthand", What: fmt.Sprintf("{client_ip} became %q", up)})
	}
	return out
}

var cfRangeTokens = []string{"private_ranges", "10.0.0.0/8", "192.168.1.1", "fd00::/8", "::1", "203.0.113.0/24", "2001:db8::/32", "private_ranges", "static", "nonsense"}
var cfHeaderTokens = []string{"X-Forwarded-For", "X-Real-IP", "CF-Connecting-IP", "x-forwarded-for", "Forwarded", "X-Client"}

func genCF(r *core.Rand) string {
	lines := func(pool []string, maxLines, maxArgs int) [][]string {
		var out [][]string
		for n := r.Intn(maxLines + 1); n > 0; n-- {
			l := []string{}
			for a := r.Intn(maxArgs + 1); a > 0; a-- {
				l = append(l, r.Pick(pool))
			}
			out = append(out, l)
		}
		return out
	}
	strict := r.Pick([]string{"0", "0", "1", "1", "2", "x"})
	if r.Chance(9, 10) && strict == "x" {
		strict = "1"
	}
	line := fmt.Sprintf("cf %s %s %s %s %s", linesField(lines(cfRangeTokens, 2, 3)), strict,
		linesField(lines(cfHeaderTokens, 2, 3)), linesField(lines(cfRangeTokens, 2, 3)), r.Pick([]string{"g", "g", "t"}))
	if r.Chance(1, 2) {
		line += " " + r.Pick([]string{"a", "p", "a", "p", "r"})
	}
	return line
}
