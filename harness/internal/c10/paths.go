package c10

import (
	"fmt"
	"net"
	"net/http"
	"strings"

	"github.com/caddyserver/caddy/v2"

	"verif/harness/internal/core"
)

// Paths that run MORE handlers on the same request (server.go Server.ServeHTTP error path, reverseproxy.go
// handle_response routes):
//
//	erq <via> <spoil> <the 15 fields of req>
//
//	via    1   primary route: stage-one handler → `error` handler (502);  handle_errors routes: probe → reverse_proxy
//	       2   primary route: stage-one handler → reverse_proxy whose upstream is down (502); handle_errors routes as above
//	       3   primary route: stage-one handler → reverse_proxy (upstream answers 204) with handle_response routes
//	           probe → reverse_proxy
//	spoil  - | hex   the stage-one handler overwrites r.RemoteAddr with these bytes ("-" = leaves it alone).  It also
//	                 stores nil under the omitted forwarding fields (the `omit` bits).
//
// fails, hops, mode and lb must be 0.  The answer is the answer of `req` as observed INSIDE the error / response
// route, followed by " rh=<hex>" = {http.request.remote.host} there;  via 3 answers "noprobe status=500" when the
// outer reverse_proxy refuses the request (no response route runs).
//
// Server.ServeHTTP restores r.RemoteAddr from the original request before the error routes run (not the header);
// handle_response routes are served the request the handler was given (origReq), not its prepared clone.

// downTransport: the upstream is down, always.
type downTransport struct{}

func (downTransport) CaddyModule() caddy.ModuleInfo {
	return caddy.ModuleInfo{ID: "http.reverse_proxy.transport.verif_c10_down", New: func() caddy.Module { return new(downTransport) }}
}

func (downTransport) RoundTrip(*http.Request) (*http.Response, error) { return nil, errUpstreamDown }

// okTransport answers 204 and records nothing (the OUTER reverse_proxy of via 3).
type okTransport struct{}

func (okTransport) CaddyModule() caddy.ModuleInfo {
	return caddy.ModuleInfo{ID: "http.reverse_proxy.transport.verif_c10_ok", New: func() caddy.Module { return new(okTransport) }}
}

func (okTransport) RoundTrip(req *http.Request) (*http.Response, error) {
	return &http.Response{
		StatusCode: 204, Status: "204 No Content", Proto: "HTTP/1.1", ProtoMajor: 1, ProtoMinor: 1,
		Header: http.Header{}, Body: http.NoBody, Request: req,
	}, nil
}

// pathRoutes replaces the server's routes by the set-up of k.via.
func (k *kase) pathRoutes(srv, probe, rp map[string]any, omit []string) {
	stage1 := map[string]any{"handler": "verif_c10_probe", "stage1": true}
	if omit != nil {
		stage1["omit"] = omit
	}
	probe2 := map[string]any{}
	for n, v := range probe {
		if n != "omit" {
			probe2[n] = v
		}
	}
	inner := []any{map[string]any{"handle": []any{probe2, rp}}}
	other := func(transport string) map[string]any {
		m := map[string]any{
			"handler":   "reverse_proxy",
			"transport": map[string]any{"protocol": transport},
			"upstreams": []any{map[string]any{"dial": "127.0.0.1:9"}},
		}
		if len(k.hT) > 0 {
			m["trusted_proxies"] = k.hT
		}
		return m
	}
	switch k.via {
	case 1:
		srv["routes"] = []any{map[string]any{"handle": []any{stage1, map[string]any{"handler": "error", "status_code": 502}}}}
		srv["errors"] = map[string]any{"routes": inner}
	case 2:
		srv["routes"] = []any{map[string]any{"handle": []any{stage1, other("verif_c10_down")}}}
		srv["errors"] = map[string]any{"routes": inner}
	case 3:
		outer := other("verif_c10_ok")
		outer["handle_response"] = []any{map[string]any{"routes": inner}}
		srv["routes"] = []any{map[string]any{"handle": []any{stage1, outer}}}
	}
}

func (k *kase) erqLine() string {
	sp := "-"
	if k.hasSpoil {
		sp = core.Hex(k.spoil)
		if k.spoil == "" {
			sp = "00" // never generated; keeps the field non-empty
		}
	}
	return fmt.Sprintf("erq %d %s%s", k.via, sp, strings.TrimPrefix(k.line(), "req"))
}

func (p *prop) runErq(f []string) core.Outcome {
	if len(f) != 18 || len(f[1]) != 1 || f[1][0] < '1' || f[1][0] > '3' {
		return core.Outcome{Impl: "bad-op"}
	}
	k, ok := parseLine("req " + strings.Join(f[3:], " "))
	if !ok || k.fails != 0 || k.hops != 0 || k.mode != 0 || k.lb != 0 {
		return core.Outcome{Impl: "bad-op"}
	}
	k.via = int(f[1][0] - '0')
	if f[2] != "-" {
		sp, err := core.UnHex(f[2])
		if err != nil || sp == "" {
			return core.Outcome{Impl: "bad-op"}
		}
		k.spoil, k.hasSpoil = sp, true
	}
	if k.rt != k.rangeVerdicts() {
		return core.Outcome{Impl: "bad-table", Tags: []string{"bad-table"}}
	}
	if !rangesValid(k.srvT) || !rangesValid(k.hT) {
		return core.Outcome{Impl: "bad-op"} // provisioning errors are op req's
	}
	if t := k.table(); t == "!" {
		return core.Outcome{Impl: "bad-op"}
	} else if !k.tableOK(t) {
		return core.Outcome{Impl: "bad-table", Tags: []string{"bad-table"}}
	}
	impl, o, err := p.serve(k, k.hdrs)
	if err != nil {
		return core.Outcome{Impl: "provision-error", Tags: []string{"provision-error"},
			Failures: []core.Failure{{Class: "harness-provision-error", What: err.Error()}}}
	}
	out := core.Outcome{Tags: []string{"op:erq", fmt.Sprintf("erq:via=%d", k.via), "erq:spoil=" + b01(k.hasSpoil)}}
	fail := func(class, what string) {
		out.Failures = append(out.Failures, core.Failure{Class: class, What: what})
	}
	if !o.probed {
		out.Impl = impl
		out.Tags = append(out.Tags, "erq:noprobe")
		if k.via != 3 {
			fail("error-route-not-run", "the handle_errors route did not run: "+impl)
		}
		return out
	}
	out.Impl = impl + " rh=" + core.Hex(o.remoteHostPh)
	if o.trusted {
		out.Tags = append(out.Tags, "erq:trusted")
	}
	if !o.sent {
		out.Tags = append(out.Tags, "erq:err")
	}

	// ---- oracle (implementation only).  (1) the route that runs after an error (or on a response) attributes the
	// request exactly like the primary route would: same vars, same consumers, same forwarding headers.
	k0 := *k
	k0.via, k0.spoil, k0.hasSpoil = 0, "", false
	direct, _, err := p.serve(&k0, k.hdrs)
	what := map[int]string{1: "error-route", 2: "error-route", 3: "response-route"}[k.via]
	if err == nil && (k.via != 3 || !k.hasSpoil) && direct != impl {
		fail(what+"-attribution-differs", fmt.Sprintf("primary route: %s; %s (via %d): %s", direct, what, k.via, impl))
	}
	// (2) {http.request.remote.host} inside an error route is the connection's, whatever a handler wrote into r.RemoteAddr
	if k.via != 3 && !k.early {
		want := k.remote
		if h, _, err := net.SplitHostPort(k.remote); err == nil {
			want = h
		}
		if o.remoteHostPh != want {
			fail("error-route-remote-host-not-the-connection's", fmt.Sprintf("remote %q, stage-one wrote %q, {http.request.remote.host} = %q", k.remote, k.spoil, o.remoteHostPh))
		}
	}
	// (3) an untrusted peer: nothing in its header fields changes what the route sees (two-run, the fields dropped)
	peer := refPeer(k.remote)
	sp, _ := parsePrefixes(k.srvT)
	hp, _ := parsePrefixes(k.hT)
	if peer.addrOK && !anyContains(sp, peer.addr) && !anyContains(hp, peer.addr) && len(k.hdrs) > 0 && !connMentions(k, k.hdrs) && !k.hasSpoil {
		var rest []hdrField
		for _, h := range k.hdrs {
			if !isFwdName(k, http.CanonicalHeaderKey(h.name)) {
				rest = append(rest, h)
			}
		}
		if len(rest) != len(k.hdrs) {
			if bare, _, err := p.serve(k, rest); err == nil && bare != impl {
				fail(what+"-untrusted-header-influence", fmt.Sprintf("with the fields: %s; without: %s", impl, bare))
			}
			out.Tags = append(out.Tags, "erq:untrusted-two-run")
		}
	}
	return out
}

// genErq turns a generated request into an error-route / response-route case.
func genErq(r *core.Rand) string {
	k := genCase(r)
	for !rangesValid(k.srvT) || !rangesValid(k.hT) {
		k = genCase(r)
	}
	k.lb, k.fails, k.mode, k.hops = 0, 0, 0, 0
	k.via = 1 + r.Intn(3)
	if r.Chance(1, 3) {
		k.hasSpoil = true
		k.spoil = r.Pick([]string{"6.6.6.6:666", "10.0.0.1:1", "[::1]:9", "127.0.0.1:1", "garbage", "10.1.2.3", "[fe80::1%eth0]:1", "192.168.1.1:80"})
		if r.Chance(1, 3) {
			k.spoil = remoteAddr(r)
		}
		if k.spoil == "" {
			k.hasSpoil = false
		}
	}
	if r.Chance(1, 4) {
		for i := range k.omit {
			k.omit[i] = r.Chance(1, 2)
		}
	}
	return k.erqLine()
}
