package c10

import (
	"bufio"
	"encoding/binary"
	"io"
	"net"
	"sync"
)

// A minimal FastCGI responder (records BEGIN_REQUEST / PARAMS / STDIN in, STDOUT / END_REQUEST out):
// it keeps the raw CGI parameters reverse_proxy's real fastcgi transport sent, keyed by the value of
// HTTP_X_VERIF_ID.  (net/http/fcgi would fold REMOTE_ADDR / REMOTE_PORT into a request and lose text.)

type fcgiServer struct {
	addr string
	mu   sync.Mutex
	envs map[string]map[string]string
}

var (
	fcgiOnce sync.Once
	fcgiSrv  *fcgiServer
)

func fcgi() *fcgiServer {
	fcgiOnce.Do(func() {
		ln, err := net.Listen("tcp", "127.0.0.1:0")
		if err != nil {
			panic(err)
		}
		fcgiSrv = &fcgiServer{addr: ln.Addr().String(), envs: map[string]map[string]string{}}
		go func() {
			for {
				c, err := ln.Accept()
				if err != nil {
					return
				}
				go fcgiSrv.serve(c)
			}
		}()
	})
	return fcgiSrv
}

func (s *fcgiServer) take(id string) map[string]string {
	s.mu.Lock()
	defer s.mu.Unlock()
	e := s.envs[id]
	delete(s.envs, id)
	return e
}

func readSize(b []byte) (int, int) {
	if len(b) == 0 {
		return 0, 0
	}
	if b[0]>>7 == 0 {
		return int(b[0]), 1
	}
	if len(b) < 4 {
		return 0, 0
	}
	return int(binary.BigEndian.Uint32(b) & 0x7fffffff), 4
}

func (s *fcgiServer) serve(c net.Conn) {
	defer c.Close()
	r := bufio.NewReader(c)
	var params []byte
	for {
		var h [8]byte
		if _, err := io.ReadFull(r, h[:]); err != nil {
			return
		}
		typ, id := h[1], binary.BigEndian.Uint16(h[2:4])
		body := make([]byte, int(binary.BigEndian.Uint16(h[4:6]))+int(h[6]))
		if _, err := io.ReadFull(r, body); err != nil {
			return
		}
		body = body[:len(body)-int(h[6])]
		switch typ {
		case 1: // BEGIN_REQUEST
			params = nil
		case 4: // PARAMS
			params = append(params, body...)
		case 5: // STDIN
			if len(body) != 0 {
				continue
			}
			env := map[string]string{}
			for p := params; len(p) > 0; {
				nl, n1 := readSize(p)
				if n1 == 0 {
					break
				}
				vl, n2 := readSize(p[n1:])
				if n2 == 0 || n1+n2+nl+vl > len(p) {
					break
				}
				env[string(p[n1+n2:n1+n2+nl])] = string(p[n1+n2+nl : n1+n2+nl+vl])
				p = p[n1+n2+nl+vl:]
			}
			s.mu.Lock()
			s.envs[env["HTTP_X_VERIF_ID"]] = env
			s.mu.Unlock()
			out := []byte("Status: 204 No Content\r\nContent-Type: text/plain\r\n\r\n")
			rec := func(t byte, b []byte) {
				hd := [8]byte{1, t, byte(id >> 8), byte(id), byte(len(b) >> 8), byte(len(b)), 0, 0}
				c.Write(hd[:])
				c.Write(b)
			}
			rec(6, out)
			rec(6, nil)
			rec(3, make([]byte, 8))
			return
		}
	}
}
