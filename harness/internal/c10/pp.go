package c10

import (
	"bytes"
	"context"
	"encoding/json"
	"fmt"
	"net"
	"net/netip"
	"strings"
	"time"

	"github.com/caddyserver/caddy/v2"
	"github.com/caddyserver/caddy/v2/caddyconfig/caddyfile"
	"github.com/caddyserver/caddy/v2/modules/caddyhttp/proxyprotocol"

	"verif/harness/internal/core"
)

// PROXY protocol listener wrapper (modules/caddyhttp/proxyprotocol): it decides what RemoteAddr IS
// before any HTTP code runs — a PROXY header accepted from a peer outside `allow` is a spoofed client.
//
//	pp <allow> <deny> <fallback> <network> <peer> <claim> <tbl> <via>
//
//	allow, deny  . | expr,expr,…      ranges (the wrapper accepts CIDRs only: netip.ParsePrefix)
//	fallback     - | hex              fallback_policy as written in JSON (- = not written)
//	network      hex                  Network() of the accepted connection's remote address
//	peer         hex                  its String()
//	claim        - | hex              - = the peer sends no PROXY header; else the source "ip:port" a PROXY v1
//	                                  header of the peer claims
//	tbl          netip's answers for the peer string (allow bits, deny bits), as in `req`
//	via          j | c                the wrapper is configured from JSON | from a Caddyfile `proxy_protocol { … }`
//	                                  block (UnmarshalCaddyfile); both must configure the same wrapper
//
// The real module is loaded from JSON (caddy.Context.LoadModuleByID → UnmarshalJSON, Provision), its
// WrapListener wraps an in-memory listener whose only connection has the given remote address and bytes.
// Answer: "provision-error" | "refused" (Accept failed) | "addr=<hex> rd=<ok|err>" (RemoteAddr().String() after
// the first Read, and whether that Read failed).

type fakeAddr struct{ network, s string }

func (a fakeAddr) Network() string { return a.network }
func (a fakeAddr) String() string  { return a.s }

type fakeConn struct {
	r      *bytes.Reader
	remote net.Addr
}

func (c *fakeConn) Read(b []byte) (int, error)       { return c.r.Read(b) }
func (c *fakeConn) Write(b []byte) (int, error)      { return len(b), nil }
func (c *fakeConn) Close() error                     { return nil }
func (c *fakeConn) LocalAddr() net.Addr              { return fakeAddr{"tcp", "192.0.2.1:443"} }
func (c *fakeConn) RemoteAddr() net.Addr             { return c.remote }
func (c *fakeConn) SetDeadline(time.Time) error      { return nil }
func (c *fakeConn) SetReadDeadline(time.Time) error  { return nil }
func (c *fakeConn) SetWriteDeadline(time.Time) error { return nil }

type oneConnListener struct {
	c    net.Conn
	done bool
}

func (l *oneConnListener) Accept() (net.Conn, error) {
	if l.done {
		return nil, fmt.Errorf("closed")
	}
	l.done = true
	return l.c, nil
}
func (l *oneConnListener) Close() error   { return nil }
func (l *oneConnListener) Addr() net.Addr { return fakeAddr{"tcp", "192.0.2.1:443"} }

func ppRanges(s string) ([]string, bool) {
	xs, _, ok := parseListField(s, false, false)
	return xs, ok
}

// ppTable: the `req` table for the peer string (sbits = allow, hbits = deny) plus, when the peer's host
// carries a zone that netip accepts, a row for that zoned host (no range contains a zoned address).
func ppTable(allow, deny []string, peer string) string {
	k := &kase{srvT: allow, hT: deny, remote: peer}
	t := k.table()
	if t == "!" {
		return t
	}
	if host, _, err := net.SplitHostPort(peer); err == nil && strings.Contains(host, "%") {
		if a, err := netip.ParseAddr(host); err == nil {
			sp, _ := parsePrefixes(allow)
			hp, _ := parsePrefixes(deny)
			row := tableRow(host, a, sp, hp)
			if t == "." {
				t = row
			} else {
				t += ";" + row
			}
		}
	}
	return t
}

func allCIDR(xs []string) (slashless bool, invalid bool) {
	for _, x := range xs {
		if !strings.Contains(x, "/") {
			slashless = true
		} else if _, err := netip.ParsePrefix(x); err != nil {
			invalid = true
		}
	}
	return
}

func (p *prop) runPP(f []string) core.Outcome {
	if len(f) != 9 || (f[8] != "j" && f[8] != "c") {
		return core.Outcome{Impl: "bad-op"}
	}
	allow, ok1 := ppRanges(f[1])
	deny, ok2 := ppRanges(f[2])
	network, e3 := core.UnHex(f[4])
	peer, e4 := core.UnHex(f[5])
	if !ok1 || !ok2 || e3 != nil || e4 != nil {
		return core.Outcome{Impl: "bad-op"}
	}
	cfg := map[string]any{}
	if len(allow) > 0 {
		cfg["allow"] = allow
	}
	if len(deny) > 0 {
		cfg["deny"] = deny
	}
	fallback := ""
	if f[3] != "-" {
		fb, err := core.UnHex(f[3])
		if err != nil || fb == "" {
			return core.Outcome{Impl: "bad-op"}
		}
		fallback = fb
		cfg["fallback_policy"] = fb
	}
	claim := ""
	if f[6] != "-" {
		c, err := core.UnHex(f[6])
		if err != nil {
			return core.Outcome{Impl: "bad-op"}
		}
		if _, err := netip.ParseAddrPort(c); err != nil {
			return core.Outcome{Impl: "bad-op"}
		}
		claim = c
	}
	s1, i1 := allCIDR(allow)
	s2, i2 := allCIDR(deny)
	if i1 || i2 {
		return core.Outcome{Impl: "bad-op"} // an expression with a slash that netip rejects: never generated
	}
	out := core.Outcome{Tags: []string{"op:pp"}}
	raw, _ := json.Marshal(cfg)
	ctx, cancel := caddy.NewContext(caddy.Context{Context: context.Background()})
	defer cancel()
	var mod any
	var err error
	if f[8] == "j" {
		mod, err = ctx.LoadModuleByID("caddy.listeners.proxy_protocol", raw)
	} else {
		var sb strings.Builder
		sb.WriteString("proxy_protocol {\n")
		if len(allow) > 0 {
			sb.WriteString("\tallow " + strings.Join(allow, " ") + "\n")
		}
		for _, d := range deny { // one line per range: the lines must accumulate
			sb.WriteString("\tdeny " + d + "\n")
		}
		if fallback != "" {
			sb.WriteString("\tfallback_policy " + fallback + "\n")
		}
		sb.WriteString("}\n")
		w := new(proxyprotocol.ListenerWrapper)
		if err = w.UnmarshalCaddyfile(caddyfile.NewTestDispenser(sb.String())); err == nil {
			err = w.Provision(ctx)
		}
		mod = w
	}
	if err != nil {
		out.Impl = "provision-error"
		out.Tags = append(out.Tags, "pp:provision-error")
		if !(s1 || s2) && policyByName(fallback) >= 0 {
			out.Failures = append(out.Failures, core.Failure{Class: "harness-pp-provision-error", What: err.Error()})
		}
		return out
	}
	if s1 || s2 {
		// kept out of the table computation below (parsePrefixes would read a bare address as a /32)
		out.Impl = "provisioned"
		out.Failures = append(out.Failures, core.Failure{Class: "proxy-protocol-non-cidr-range-accepted", What: fmt.Sprintf("allow %q deny %q", allow, deny)})
		return out
	}
	if t := ppTable(allow, deny, peer); t == "!" || t != f[7] {
		return core.Outcome{Impl: "bad-table", Tags: []string{"bad-table"}}
	}
	data := "GET / HTTP/1.1\r\nHost: x\r\n\r\n"
	if claim != "" {
		ap := netip.MustParseAddrPort(claim)
		fam, dst := "TCP4", "192.0.2.1"
		if ap.Addr().Is6() {
			fam, dst = "TCP6", "2001:db8::1"
		}
		data = fmt.Sprintf("PROXY %s %s %s %d 443\r\n", fam, ap.Addr().String(), dst, ap.Port()) + data
	}
	ln := mod.(caddy.ListenerWrapper).WrapListener(&oneConnListener{c: &fakeConn{r: bytes.NewReader([]byte(data)), remote: fakeAddr{network, peer}}})
	conn, err := ln.Accept()
	if err != nil {
		out.Impl = "refused"
		out.Tags = append(out.Tags, "pp:refused")
		return out
	}
	buf := make([]byte, 8)
	_, rerr := conn.Read(buf)
	got := conn.RemoteAddr().String()
	rd := "ok"
	if rerr != nil {
		rd = "err"
	}
	out.Impl = "addr=" + core.Hex(got) + " rd=" + rd

	// ---- oracle (implementation only): the claimed address is believed only with permission.  "The peer is in
	// a range" is about its address — a zone (fe80::1%eth0, the form link-local peers have) is not part of it.
	permitted := strings.HasPrefix(network, "unix") || strings.HasPrefix(network, "fd")
	zoned, denied, allowed := false, false, false
	if !permitted {
		if host, _, err := net.SplitHostPort(peer); err == nil {
			if i := strings.IndexByte(host, '%'); i >= 0 {
				if _, err := netip.ParseAddr(host); err == nil {
					zoned = true
				}
				host = host[:i]
			}
			if a, err := netip.ParseAddr(host); err == nil {
				ap, _ := parsePrefixes(allow)
				dp, _ := parsePrefixes(deny)
				pol := policyByName(fallback)
				denied, allowed = anyContains(dp, a), anyContains(ap, a)
				permitted = !denied && (allowed || pol == 1 || pol == 3)
			}
		}
	}
	if got != peer {
		out.Tags = append(out.Tags, "pp:claimed-address-used")
		if !permitted {
			class := "proxy-header-believed-without-permission"
			if zoned && denied {
				class = "proxy-header-believed-from-denied-zoned-peer"
			}
			out.Failures = append(out.Failures, core.Failure{Class: class,
				What: fmt.Sprintf("peer %q (%s), allow %q deny %q fallback %q: RemoteAddr became %q", peer, network, allow, deny, fallback, got)})
		}
	} else if claim != "" {
		out.Tags = append(out.Tags, "pp:claimed-address-ignored")
		if zoned && allowed && !denied && rd == "ok" {
			out.Tags = append(out.Tags, "pp:zoned-peer-in-allow-not-believed") // same root cause, fail-safe direction
		}
	}
	return out
}

// policyByName mirrors the documented names: 0 IGNORE (default), 1 USE, 2 REJECT, 3 REQUIRE, 4 SKIP, -1 unknown.
func policyByName(s string) int {
	switch strings.ToUpper(s) {
	case "", "IGNORE":
		return 0
	case "USE":
		return 1
	case "REJECT":
		return 2
	case "REQUIRE":
		return 3
	case "SKIP":
		return 4
	}
	return -1
}

var ppCIDRs = []string{"10.0.0.0/8", "192.168.0.0/16", "127.0.0.0/8", "::1/128", "fd00::/8", "fe80::/10", "0.0.0.0/0", "203.0.113.7/32", "2001:db8::/32"}

func genPP(r *core.Rand) string {
	pick := func() []string {
		var out []string
		for n := r.Intn(3); n > 0; n-- {
			out = append(out, r.Pick(ppCIDRs[:len(ppCIDRs)-1+r.Intn(2)]))
		}
		if r.Chance(1, 40) {
			out = append(out, r.Pick([]string{"10.0.0.1", "::1", "private_ranges"}))
		}
		return out
	}
	allow, deny := pick(), []string{}
	if r.Chance(1, 3) {
		deny = pick()
	}
	fb := "-"
	if r.Chance(1, 2) {
		fb = core.Hex(r.Pick([]string{"IGNORE", "USE", "REJECT", "REQUIRE", "SKIP", "use", "Require", "ignore", "bogus", "skip"}))
	}
	network := "tcp"
	peer := remoteAddr(r)
	switch r.Intn(12) {
	case 0:
		network, peer = r.Pick([]string{"unix", "unixpacket", "fd", "fdgram"}), r.Pick([]string{"@", "/run/caddy.sock", "", "3"})
	case 1:
		network = r.Pick([]string{"tcp4", "tcp6", "udp", "un"})
	}
	claim := "-"
	if r.Chance(3, 4) {
		claim = core.Hex(r.Pick([]string{"6.6.6.6:7777", "10.9.9.9:1", "[2001:db8::6]:7777", "[::1]:80", "127.0.0.1:65535"}))
	}
	if r.Chance(1, 10) {
		// link-local peers: the form their socket address really has
		network, peer = "tcp", r.Pick([]string{"[fe80::1%eth0]:51234", "[fe80::1%1]:80", "[fe80::1]:80"})
		if r.Chance(1, 2) {
			deny = append(deny, "fe80::/10")
		} else {
			allow = append(allow, "fe80::/10")
		}
	}
	return ppLine(allow, deny, fb, network, peer, claim)
}

// ppLine renders a case; fb and claim are already protocol fields.
func ppLine(allow, deny []string, fb, network, peer, claim string) string {
	tbl := "."
	if s1, _ := allCIDR(allow); !s1 {
		if s2, _ := allCIDR(deny); !s2 {
			tbl = ppTable(allow, deny, peer)
		}
	}
	via := "j"
	if len(tbl)%3 == 0 { // deterministic in the case itself
		via = "c"
	}
	return fmt.Sprintf("pp %s %s %s %s %s %s %s %s", listField(allow, false, false), listField(deny, false, false), fb,
		core.Hex(network), core.Hex(peer), claim, tbl, via)
}
