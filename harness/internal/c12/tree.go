package c12

// Tree codec shared with lean/CaddyModel/C12/Driver.lean:
//
//	n | t | f | #<num># | s<hex>. | [tree…] | {<keyhex>.tree …}   (keys strictly sorted)
//
// Go side representation: nil, bool, json.Number, string, []any, map[string]any.

import (
	"bytes"
	"encoding/hex"
	"encoding/json"
	"fmt"
	"sort"
	"strings"
)

// no exponent-form numbers in the protocol: as an @id value (which any PATCH can make of them)
// the textual idRegexp eats only their mantissa; see Model.memberBreaks
var expTokens = map[string]bool{}

func allDigits(s string) bool {
	if s == "" {
		return false
	}
	for _, c := range s {
		if c < '0' || c > '9' {
			return false
		}
	}
	return true
}

// canonicalNum mirrors Driver.lean: plain decimals json.Marshal prints unchanged.
func canonicalNum(s string) bool {
	if expTokens[s] {
		return true
	}
	u := strings.TrimPrefix(s, "-")
	neg := u != s
	ip, fp, hasFrac := strings.Cut(u, ".")
	if !allDigits(ip) || !(ip == "0" || ip[0] != '0') {
		return false
	}
	if hasFrac && (!allDigits(fp) || fp[len(fp)-1] == '0') {
		return false
	}
	if len(ip)+len(fp) > 15 {
		return false
	}
	if neg && ip == "0" && !hasFrac {
		return false
	}
	if ip == "0" && hasFrac && len(fp)-len(strings.TrimLeft(fp, "0")) > 5 {
		return false
	}
	return true
}

func asciiOnly(s string) bool {
	for i := 0; i < len(s); i++ {
		if s[i] >= 128 {
			return false
		}
	}
	return true
}

func forbiddenName(k string) bool {
	l := strings.ToLower(k) // ASCII only here
	if l == "admin" || l == "logging" || l == "storage" || (l == "apps" && k != "apps") {
		return true
	}
	for _, seg := range strings.Split(k, "/") {
		if seg == ".." {
			return true
		}
	}
	// the textual idRegexp of RemoveMetaFields also fires inside a key that contains `"@id`
	// ({"q\"@id":1,"r":2} is loaded as {"q\"r":2}); not modelled
	return strings.Contains(k, "\"@id")
}

func hexOf(s string) string { return hex.EncodeToString([]byte(s)) }

func encTree(v any) string {
	var sb strings.Builder
	encTreeTo(&sb, v)
	return sb.String()
}

func encTreeTo(sb *strings.Builder, v any) {
	switch x := v.(type) {
	case nil:
		sb.WriteByte('n')
	case bool:
		if x {
			sb.WriteByte('t')
		} else {
			sb.WriteByte('f')
		}
	case json.Number:
		sb.WriteByte('#')
		sb.WriteString(string(x))
		sb.WriteByte('#')
	case string:
		sb.WriteByte('s')
		sb.WriteString(hexOf(x))
		sb.WriteByte('.')
	case []any:
		sb.WriteByte('[')
		for _, e := range x {
			encTreeTo(sb, e)
		}
		sb.WriteByte(']')
	case map[string]any:
		keys := make([]string, 0, len(x))
		for k := range x {
			keys = append(keys, k)
		}
		sort.Strings(keys)
		sb.WriteByte('{')
		for _, k := range keys {
			sb.WriteString(hexOf(k))
			sb.WriteByte('.')
			encTreeTo(sb, x[k])
		}
		sb.WriteByte('}')
	default:
		panic(fmt.Sprintf("encTree: unexpected %T", v))
	}
}

type treeParser struct {
	s string
	i int
}

func (p *treeParser) takeHex() (string, bool) {
	j := strings.IndexByte(p.s[p.i:], '.')
	if j < 0 {
		return "", false
	}
	h := p.s[p.i : p.i+j]
	for _, c := range h {
		if !((c >= '0' && c <= '9') || (c >= 'a' && c <= 'f')) {
			return "", false
		}
	}
	b, err := hex.DecodeString(h)
	if err != nil {
		return "", false
	}
	p.i += j + 1
	return string(b), true
}

func (p *treeParser) parse() (any, bool) {
	if p.i >= len(p.s) {
		return nil, false
	}
	c := p.s[p.i]
	p.i++
	switch c {
	case 'n':
		return nil, true
	case 't':
		return true, true
	case 'f':
		return false, true
	case '#':
		j := strings.IndexByte(p.s[p.i:], '#')
		if j < 0 {
			return nil, false
		}
		t := p.s[p.i : p.i+j]
		p.i += j + 1
		if !canonicalNum(t) {
			return nil, false
		}
		return json.Number(t), true
	case 's':
		s, ok := p.takeHex()
		if !ok || !asciiOnly(s) {
			return nil, false
		}
		return s, true
	case '[':
		out := []any{}
		for {
			if p.i < len(p.s) && p.s[p.i] == ']' {
				p.i++
				return out, true
			}
			e, ok := p.parse()
			if !ok {
				return nil, false
			}
			out = append(out, e)
		}
	case '{':
		out := map[string]any{}
		prev, has := "", false
		for {
			if p.i < len(p.s) && p.s[p.i] == '}' {
				p.i++
				return out, true
			}
			k, ok := p.takeHex()
			if !ok || !asciiOnly(k) || forbiddenName(k) {
				return nil, false
			}
			if has && !(prev < k) {
				return nil, false
			}
			prev, has = k, true
			v, ok := p.parse()
			if !ok {
				return nil, false
			}
			out[k] = v
		}
	}
	return nil, false
}

func parseTree(s string) (any, bool) {
	p := &treeParser{s: s}
	v, ok := p.parse()
	if !ok || p.i != len(s) {
		return nil, false
	}
	return v, true
}

// jsonText renders a tree as the JSON text sent to the real server.
func jsonText(v any) string {
	var sb strings.Builder
	jsonTextTo(&sb, v)
	return sb.String()
}

func jsonTextTo(sb *strings.Builder, v any) {
	switch x := v.(type) {
	case nil:
		sb.WriteString("null")
	case bool:
		if x {
			sb.WriteString("true")
		} else {
			sb.WriteString("false")
		}
	case json.Number:
		sb.WriteString(string(x))
	case string:
		b, _ := json.Marshal(x)
		sb.Write(b)
	case []any:
		sb.WriteByte('[')
		for i, e := range x {
			if i > 0 {
				sb.WriteByte(',')
			}
			jsonTextTo(sb, e)
		}
		sb.WriteByte(']')
	case map[string]any:
		keys := make([]string, 0, len(x))
		for k := range x {
			keys = append(keys, k)
		}
		sort.Strings(keys)
		sb.WriteByte('{')
		for i, k := range keys {
			if i > 0 {
				sb.WriteByte(',')
			}
			b, _ := json.Marshal(k)
			sb.Write(b)
			sb.WriteByte(':')
			jsonTextTo(sb, x[k])
		}
		sb.WriteByte('}')
	}
}

// decodeJSON decodes a response body keeping number texts.
func decodeJSON(b []byte) (any, error) {
	d := json.NewDecoder(bytes.NewReader(b))
	d.UseNumber()
	var v any
	if err := d.Decode(&v); err != nil {
		return nil, err
	}
	if d.More() {
		return nil, fmt.Errorf("trailing data")
	}
	return v, nil
}

func deepEqual(a, b any) bool { return encTree(a) == encTree(b) }

func clone(v any) any {
	switch x := v.(type) {
	case []any:
		out := make([]any, len(x))
		for i := range x {
			out[i] = clone(x[i])
		}
		return out
	case map[string]any:
		out := make(map[string]any, len(x))
		for k, e := range x {
			out[k] = clone(e)
		}
		return out
	}
	return v
}
