package c12

// Config loaders (caddy.go finishSettingUp): a config whose admin.config.load names a loader module
// makes caddy, once that config is running, pull another config from the loader and apply it with
// changeConfig(POST, "/config", pulled, "", false) - the same core, entered from a goroutine of the
// lifecycle instead of an HTTP handler. The loader here is a registered module that hands out the
// document of the case.

import (
	"bytes"
	"runtime"
	"strconv"
	"strings"
	"sync"
	"time"

	"github.com/caddyserver/caddy/v2"

	"verif/harness/internal/core"
)

type pullLoader struct{}

var (
	pullMu    sync.Mutex
	pullBytes []byte
	pullCalls int
)

func (pullLoader) CaddyModule() caddy.ModuleInfo {
	return caddy.ModuleInfo{ID: "caddy.config_loaders.c12pull", New: func() caddy.Module { return new(pullLoader) }}
}

// pullCtx: the context the loader was called with - that of the config naming the loader, which is
// the running config from the moment run() returns until the pulled config replaces it.
var pullCtx any

func (pullLoader) LoadConfig(ctx caddy.Context) ([]byte, error) {
	pullMu.Lock()
	defer pullMu.Unlock()
	pullCalls++
	pullCtx = ctx.Context
	return append([]byte(nil), pullBytes...), nil
}

// waitPullDone returns when no goroutine started by finishSettingUp (the one that applies a pulled
// config) is left: its stack carries the name of the closure it runs. Independent of machine load.
func waitPullDone() {
	buf := make([]byte, 4<<20)
	deadline := time.Now().Add(20 * time.Second)
	for time.Now().Before(deadline) {
		n := runtime.Stack(buf, true)
		if !bytes.Contains(buf[:n], []byte("finishSettingUp")) {
			return
		}
		time.Sleep(time.Millisecond)
	}
}

func runPull(line, appsS, pulledS string) core.Outcome {
	bad := core.Outcome{Impl: "bad-op"}
	sub, ok := parseTree(appsS)
	if !ok {
		return bad
	}
	var pulled []byte
	var pulledTree any
	switch pulledS {
	case "!":
		pulled = []byte(`{"a":`)
	case "-":
		return bad // a loader that returns nothing is retried only with load_delay; not in this op
	default:
		t, ok := parseTree(pulledS)
		if !ok {
			return bad
		}
		pulledTree = t
		pulled = []byte(jsonText(t))
	}
	reset()
	pullMu.Lock()
	pullBytes, pullCalls, pullCtx = pulled, 0, nil
	pullMu.Unlock()
	o := core.Outcome{Tags: []string{"pull"}}
	init := map[string]any{
		"admin": map[string]any{"config": map[string]any{"load": map[string]any{"module": "c12pull"}}},
		"apps":  map[string]any{"c12": sub},
	}
	start, _ := observe()
	r := do("POST", "/config/", []byte(jsonText(init)), map[string]string{"Content-Type": "application/json"})
	// let the goroutine that applies the pulled config run: a GET issued while changeConfig holds the
	// write lock returns only when it is done
	deadline := time.Now().Add(3 * time.Second)
	for r.status == 200 && time.Now().Before(deadline) {
		pullMu.Lock()
		c := pullCalls
		pullMu.Unlock()
		if c > 0 {
			break
		}
		time.Sleep(2 * time.Millisecond)
	}
	var mid any = caddy.ActiveContext().Context
	waitPullDone()
	pullMu.Lock()
	if pullCalls > 0 && pullCtx != nil {
		// sampled by the loader itself: under load the pulled config may already have been applied
		// when ActiveContext() was read above (which made an applied config look "not started")
		mid = pullCtx
	}
	pullMu.Unlock()
	end, fails := observe()
	o.Failures = append(o.Failures, fails...)
	loads := 0
	if mid != start.ctx {
		loads++
	}
	if end.ctx != mid {
		loads++
	}
	pullMu.Lock()
	calls := pullCalls
	pullMu.Unlock()
	// ---- oracle (implementation only)
	switch {
	case r.status != 200:
		if calls != 0 || end.cfg != nil {
			o.Failures = append(o.Failures, core.Failure{Case: line, Class: "loader-run-for-rejected-config",
				What: "the config naming the loader was rejected (" + strconv.Itoa(r.status) + ") but the loader was asked, or a document is in place"})
		}
	case calls != 1:
		o.Failures = append(o.Failures, core.Failure{Case: line, Class: "loader-not-asked-once",
			What: "the config naming the loader was accepted; the loader was asked " + strconv.Itoa(calls) + " times"})
	case loads == 2:
		o.Tags = append(o.Tags, "pull:applied")
		if !deepEqual(end.cfg, pulledTree) {
			o.Failures = append(o.Failures, core.Failure{Case: line, Class: "pulled-config-not-the-document",
				What: "the pulled config was started but GET /config/ gives " + jsonText(end.cfg) + ", the loader handed out " + string(pulled)})
		}
	default:
		o.Tags = append(o.Tags, "pull:refused")
		if !deepEqual(end.cfg, init) {
			o.Failures = append(o.Failures, core.Failure{Case: line, Class: "refused-pulled-config-changed-document",
				What: "the pulled config was not started but GET /config/ gives " + jsonText(end.cfg) + " instead of the config that named the loader"})
		}
	}
	// ---- the id index is that of the document in place (indexConfigObjects runs for a pulled config too)
	tags := map[string]bool{}
	checkIDs(end, &o.Failures, tags)
	if loads == 2 {
		now := map[string]bool{}
		idTexts(end.cfg, now)
		old := map[string]bool{}
		idTexts(init, old)
		for _, id := range sortedKeys(boolMap(old)) {
			if now[id] || id == "" || strings.Contains(id, "/") || id == "." || id == ".." {
				continue
			}
			if g := get("/id/" + id); g.status != 404 {
				o.Failures = append(o.Failures, core.Failure{Case: line, Class: "pulled-document-ids-not-indexed",
					What: "the pulled document " + jsonText(end.cfg) + " has no \"@id\": \"" + id + "\" (the replaced document had) but GET /id/" + id +
						" answers " + strconv.Itoa(g.status) + " " + string(g.body)})
			}
		}
	}
	for i := range o.Failures {
		if o.Failures[i].Class == "id-does-not-resolve" && loads == 2 {
			o.Failures[i].Class = "pulled-document-ids-not-indexed"
		}
	}
	// ---- one write through /id/ after the pull: PATCH the first id of the document in place
	follow := "noid"
	var ids []string
	{
		set := map[string]bool{}
		idTexts(end.cfg, set)
		for _, id := range sortedKeys(boolMap(set)) {
			if id != "" && !strings.Contains(id, "/") && id != "." && id != ".." {
				ids = append(ids, id)
			}
		}
	}
	if len(ids) > 0 {
		p := "/id/" + ids[0]
		if ambiguousID(end.cfg, p) {
			follow = "amb"
		} else {
			w := do("PATCH", p, []byte(`{"w":1}`), map[string]string{"Content-Type": "application/json"})
			waitPullDone() // a patch of a document that still names the loader pulls again: let it finish
			after, _ := observe()
			follow = showResp(w, &o.Failures, p) + "/" + after.cfgEnc
			o.Tags = append(o.Tags, "pull:id-write")
		}
	}
	for i := range o.Failures {
		o.Failures[i].Case = line
	}
	o.Impl = strconv.Itoa(r.status) + "/" + end.cfgEnc + "/" + strconv.Itoa(loads) + "/" + end.saved + "/" + follow
	return o
}

func (g *gen) pullOps(n int, emit func(string)) {
	for i := 0; i < n; i++ {
		sub := g.value(2)
		pulled := bodyOf(g.doc())
		if g.rng.Chance(1, 2) {
			// both documents carry @id tags, at DIFFERENT paths: "p1" moves, "o1" disappears, "q1" is new
			sub = map[string]any{"a": map[string]any{"@id": "p1", "v": g.scalar()}, "b": []any{map[string]any{"@id": "o1"}}, "c": g.value(1)}
			pulled = bodyOf(map[string]any{"apps": map[string]any{"c12": map[string]any{
				"a": map[string]any{"v": g.scalar()}, "m": []any{g.scalar(), map[string]any{"@id": "p1", "k": g.value(1)}},
				"n": map[string]any{"@id": "q1"}}}})
			emit("pull " + bodyOf(sub) + " " + pulled)
			continue
		}
		switch g.rng.Intn(8) {
		case 0:
			pulled = "!"
		case 1:
			pulled = bodyOf(map[string]any{"apps": map[string]any{"c12": map[string]any{"reject": true}}})
		case 2:
			pulled = bodyOf(map[string]any{"apps": map[string]any{"c12": sub}}) // the same apps, without the admin section
		}
		emit("pull " + bodyOf(sub) + " " + pulled)
	}
}
