package c12

// `caddy reload`: the real command function (cmd/commandfuncs.go cmdReload, reached through the
// real root command - caddycmd.VerifRunCommand - so flag definitions and parsing are the real ones) run in-process
// against the instance's REAL admin listener (a unix socket: caddy.DefaultAdminListen, which is also
// what the command falls back to when neither --address nor the file's admin.listen is given).
// Covers: LoadConfig (file, --adapter), DetermineAdminAPIAddress, AdminAPIRequest (Content-Type,
// Cache-Control for --force, Origin/Host), the listener's adminHandler as caddy itself built it,
// /load, caddy.Load, changeConfig.

import (
	"os"
	"regexp"
	"runtime/debug"
	"strconv"
	"strings"
	"time"

	"github.com/caddyserver/caddy/v2"
	caddycmd "github.com/caddyserver/caddy/v2/cmd"

	"verif/harness/internal/core"
)

var cliHTTPErr = regexp.MustCompile(`^caddy responded with error: HTTP (\d+): (.*)$`)

func runCLI(line, initS, fileS, flags string) core.Outcome {
	defer func() {
		if p := recover(); p != nil {
			if realStderr != nil {
				realStderr.WriteString(string(debug.Stack()))
			}
			panic(p)
		}
	}()
	bad := core.Outcome{Impl: "bad-op"}
	init, ok := parseTree(initS)
	if !ok {
		return bad
	}
	var fileBytes []byte
	switch fileS {
	case "-":
	case "!":
		fileBytes = []byte(`{"a":`)
	default:
		t, ok := parseTree(fileS)
		if !ok {
			return bad
		}
		fileBytes = []byte(jsonText(t))
	}
	if flags != "-" && (flags == "" || strings.Trim(flags, "fawx") != "") || (strings.Contains(flags, "w") && strings.Contains(flags, "x")) {
		return bad
	}
	reset()
	o := core.Outcome{Tags: []string{"cli"}}
	sock := "unix/" + privateDir + "/cli.sock"
	oldListen := caddy.DefaultAdminListen
	caddy.DefaultAdminListen = sock
	defer func() { caddy.DefaultAdminListen = oldListen }()
	js := map[string]string{"Content-Type": "application/json"}
	// the first load of a process starts the admin listener (on the unix socket now)
	if r := do("POST", "/config/", []byte("null"), js); r.status != 200 {
		o.Impl = "cli setup " + strconv.Itoa(r.status)
		return o
	}
	do("POST", "/config/", []byte(jsonText(init)), js)
	before, _ := observe()
	cfgFile := privateDir + "/reload.json"
	if err := os.WriteFile(cfgFile, fileBytes, 0o600); err != nil {
		o.Impl = "cli setup write"
		return o
	}
	args := []string{"--config", cfgFile}
	if strings.Contains(flags, "f") {
		args = append(args, "--force")
		o.Tags = append(o.Tags, "cli:force")
	}
	if strings.Contains(flags, "a") {
		args = append(args, "--address", sock)
	}
	if strings.Contains(flags, "w") {
		args = append(args, "--adapter", "c12wrap")
	}
	if strings.Contains(flags, "x") {
		args = append(args, "--adapter", "nosuch")
	}
	args = append([]string{"reload"}, args...)
	errc := make(chan error, 1)
	go func() {
		defer func() {
			if p := recover(); p != nil {
				errc <- &panicErr{p}
			}
		}()
		errc <- caddycmd.VerifRunCommand(args)
	}()
	var err error
	select {
	case err = <-errc:
	case <-time.After(45 * time.Second):
		o.Impl = "hung"
		o.Failures = append(o.Failures, core.Failure{Case: line, Class: "request-hung", What: "caddy reload did not return"})
		return o
	}
	res := "ok"
	if err != nil {
		msg := err.Error()
		if m := cliHTTPErr.FindStringSubmatch(strings.TrimSpace(msg)); m != nil {
			st, _ := strconv.Atoi(m[1])
			res = "F" + m[1] + ":" + errClass(st, []byte(m[2]))
		} else if strings.HasPrefix(msg, "sending configuration to instance: caddy responded with error: HTTP ") {
			rest := strings.TrimPrefix(msg, "sending configuration to instance: ")
			if m := cliHTTPErr.FindStringSubmatch(strings.TrimSpace(rest)); m != nil {
				st, _ := strconv.Atoi(m[1])
				res = "F" + m[1] + ":" + errClass(st, []byte(m[2]))
			} else {
				res = "cli-error"
			}
		} else if strings.HasPrefix(msg, "couldn't determine admin API address: unmarshaling admin listener address from config") {
			res = "presend" // the file is neither an object nor null and no --address was given
		} else if strings.HasPrefix(msg, "sending configuration to instance") || strings.HasPrefix(msg, "couldn't determine admin API address") {
			// the command could not reach the instance: never expected here
			res = "unreachable"
			o.Failures = append(o.Failures, core.Failure{Case: line, Class: "cli-cannot-reach-instance", What: msg})
		} else {
			res = "presend"
		}
	}
	after, fails := observe()
	o.Failures = append(o.Failures, fails...)
	loads := 0
	if after.ctx != before.ctx {
		loads = 1
	}
	o.Tags = append(o.Tags, "cli:"+strings.SplitN(res, ":", 2)[0])
	// ---- oracle (implementation only)
	switch {
	case res == "ok":
		var want any
		if fileS != "-" && fileS != "!" {
			want, _ = parseTree(fileS)
		}
		if strings.Contains(flags, "w") {
			want = map[string]any{"apps": map[string]any{"c12": want}}
		}
		if !deepEqual(want, after.cfg) {
			o.Failures = append(o.Failures, core.Failure{Case: line, Class: "cli-reload-wrong-document",
				What: "caddy reload exited 0 but the instance's GET /config/ gives " + jsonText(after.cfg) + ", the file holds " + jsonText(want)})
		}
		changed := after.cfgEnc != before.cfgEnc
		if (changed || strings.Contains(flags, "f")) && loads == 0 {
			o.Failures = append(o.Failures, core.Failure{Case: line, Class: "cli-reload-did-not-reload",
				What: "caddy reload (changed document or --force) exited 0 but no configuration was started"})
		}
		if !changed && !strings.Contains(flags, "f") && loads != 0 {
			o.Failures = append(o.Failures, core.Failure{Case: line, Class: "unchanged-config-reloaded",
				What: "caddy reload of the document that is already running, without --force, restarted the configuration"})
		}
	default:
		if after.cfgEnc != before.cfgEnc || loads != 0 || after.ids != before.ids {
			o.Failures = append(o.Failures, core.Failure{Case: line, Class: "failed-cli-reload-changed-state",
				What: "caddy reload failed (" + res + ") but the instance's configuration changed or was restarted"})
		}
	}
	o.Impl = res + "/" + after.cfgEnc + "/" + strconv.Itoa(loads)
	return o
}

type panicErr struct{ v any }

func (p *panicErr) Error() string { return "panic" }

// cliOps: documents the running instance may hold, files that are the same / near copies / other / broken.
func (g *gen) cliOps(n int, emit func(string)) {
	for i := 0; i < n; i++ {
		init := g.doc()
		file := bodyOf(g.doc())
		switch g.rng.Intn(8) {
		case 0, 1:
			file = bodyOf(init) // what is already running
		case 2:
			if nv, ok := nearCopy(clone(init)); ok {
				file = bodyOf(nv)
			}
		case 3:
			file = g.rng.Pick([]string{"!", "-"})
		}
		flags := g.rng.Pick([]string{"-", "-", "f", "f", "a", "fa", "w", "x", "fw"})
		if strings.Contains(flags, "w") && file != "!" && file != "-" {
			file = bodyOf(g.value(2))
		}
		emit("cli " + bodyOf(init) + " " + file + " " + flags)
	}
}
