package c12

// Generator: histories are grown step by step against the real server (reset first), so that
// most requests address something that exists in the configuration at that point. All
// choices come from rng; the emitted line is self-contained and is replayed from scratch by Run.

import (
	"encoding/json"
	"fmt"
	"strconv"
	"strings"

	"verif/harness/internal/core"
)

var (
	plainKeys  = []string{"a", "b", "c", "d", "e"}
	exoticKeys = []string{"0", "1", "k k", "...", "x/y", ".", "", "q\"r", "reject", "apps", "c12", "A", "-1", "id"}
	numPool    = []string{"0", "1", "2", "-1", "1.5", "7", "42", "1000000", "1234567", "0.00001", "0.0001", "123456", "-0.5", "0.000001", "99999999999999"}
	strPool    = []string{"", "x", "y", "hello", "a\"b", "<&>", "\n", "@id", "..."}
	idStrPool  = []string{"x", "y", "z", "w", "a b", "a/b", "", "q\"r", "dup", "7", ".", "id"}
	idNumPool  = []string{"7", "8", "1.5", "1000000", "1234567", "0.00001", "0.0001", "-3", "100000", "999999.5"}
	badIdxPool = []string{"x", "-1", "+0", "01", "-0", "99999999999999999999", "", "1.0", "0x1"}
)

type gen struct {
	rng   *core.Rand
	idSeq int
}

func (g *gen) key() string {
	if g.rng.Chance(1, 6) {
		return g.rng.Pick(exoticKeys)
	}
	return g.rng.Pick(plainKeys)
}

func (g *gen) idValue() any {
	switch g.rng.Intn(12) {
	case 0:
		return json.Number(g.rng.Pick(idNumPool))
	case 1:
		return []any{nil, true, []any{}, map[string]any{}, false}[g.rng.Intn(5)] // not indexable
	case 2, 3:
		return g.rng.Pick(idStrPool)
	case 4:
		return "dup"
	default:
		g.idSeq++
		return "i" + strconv.Itoa(g.idSeq%7)
	}
}

func (g *gen) scalar() any {
	switch g.rng.Intn(6) {
	case 0:
		return nil
	case 1:
		return g.rng.Chance(1, 2)
	case 2, 3:
		return json.Number(g.rng.Pick(numPool))
	default:
		return g.rng.Pick(strPool)
	}
}

func (g *gen) value(depth int) any {
	if depth <= 0 || g.rng.Chance(2, 5) {
		return g.scalar()
	}
	if g.rng.Chance(2, 5) {
		n := g.rng.Intn(4)
		out := make([]any, 0, n)
		for i := 0; i < n; i++ {
			if g.rng.Chance(1, 8) {
				out = append(out, []any{g.scalar(), g.scalar()}) // array directly in an array
			} else {
				out = append(out, g.value(depth-1))
			}
		}
		return out
	}
	return g.object(depth)
}

func (g *gen) object(depth int) map[string]any {
	out := map[string]any{}
	for i := g.rng.Intn(4); i > 0; i-- {
		k := g.key()
		if forbiddenName(k) {
			continue
		}
		out[k] = g.value(depth - 1)
	}
	if g.rng.Chance(1, 3) {
		out["@id"] = g.idValue()
	}
	return out
}

func (g *gen) doc() any {
	switch g.rng.Intn(20) {
	case 0:
		return nil
	case 1:
		return map[string]any{"apps": map[string]any{"c12": g.object(3), "other": map[string]any{}}} // unknown app
	case 2:
		return map[string]any{"zzz": json.Number("1")} // unknown top-level field
	case 3:
		return []any{g.scalar()}
	case 4:
		return map[string]any{"apps": nil}
	case 5:
		return map[string]any{"apps": map[string]any{"c12": g.value(2)}}
	case 6:
		return map[string]any{"@id": g.idValue(), "apps": map[string]any{"c12": g.object(3)}}
	}
	return map[string]any{"apps": map[string]any{"c12": g.object(3)}}
}

// pickPath walks the current configuration from /config and returns the segments reached and
// the node there.
func (g *gen) pickPath(cfg any, bias int) (segs []string, node any) {
	node = cfg
	// start inside the probe's subtree most of the time
	if m, ok := cfg.(map[string]any); ok && g.rng.Chance(9, 10) {
		if a, ok := m["apps"].(map[string]any); ok {
			if c, ok := a["c12"]; ok {
				segs, node = []string{"apps", "c12"}, c
			}
		}
	}
	for depth := 0; depth < 6; depth++ {
		if g.rng.Chance(1, bias) {
			break
		}
		switch x := node.(type) {
		case map[string]any:
			if len(x) == 0 {
				return
			}
			keys := sortedKeys(x)
			k := keys[g.rng.Intn(len(keys))]
			segs, node = append(segs, k), x[k]
		case []any:
			if len(x) == 0 {
				return
			}
			i := g.rng.Intn(len(x))
			segs, node = append(segs, strconv.Itoa(i)), x[i]
		default:
			return
		}
	}
	return
}

func sortedKeys(m map[string]any) []string {
	var tg []string
	for k := range m {
		tg = append(tg, k)
	}
	for i := 1; i < len(tg); i++ {
		for j := i; j > 0 && tg[j-1] > tg[j]; j-- {
			tg[j-1], tg[j] = tg[j], tg[j-1]
		}
	}
	return tg
}

func cfgPath(segs []string) string { return "/config/" + strings.Join(segs, "/") }

func stepLine(m, path, body, ifm, flags string) string {
	return m + "," + core.Hex(path) + "," + body + "," + ifm + "," + flags
}

func bodyOf(v any) string { return encTree(v) }

// session executes steps on the real server during generation.
type session struct {
	etags []etagRec
	lines []string
	gets  map[string]int // path -> last GET step index with an ETag
}

func (s *session) exec(line string) response {
	st, ok := parseStep(line)
	if !ok {
		panic("generator produced a malformed step: " + line)
	}
	hdr, _, _ := st.header(s.etags)
	r := do(methodName[st.m], st.path, st.bodyBytes(), st.headers(hdr))
	rec := etagRec{}
	if st.m == "G" && r.status == 200 {
		if p, h, ok := splitEtag(r.etag); ok {
			rec = etagRec{ok: true, path: p, hash: h, body: r.body}
			s.gets[st.path] = len(s.lines)
		}
	}
	s.etags = append(s.etags, rec)
	s.lines = append(s.lines, line)
	return r
}

func currentCfg() any {
	r := get("/config/")
	if r.status != 200 {
		return nil
	}
	v, _ := decodeJSON(r.body)
	return v
}

func (g *gen) flags() string {
	switch g.rng.Intn(48) {
	case 0, 1:
		return "f"
	case 2:
		return "c"
	case 3:
		return "fc"
	case 4:
		return g.rng.Pick([]string{"n", "u", "x", "m", "i", "w", "fu", "fx"})
	case 5:
		return g.rng.Pick([]string{"F", "F", "Fu"})
	}
	return "-"
}

// loadStep: POST /load (and now and then another method) with the whole range of Content-Types.
func (g *gen) loadStep(s *session) {
	m := "P"
	if g.rng.Chance(1, 10) {
		m = g.rng.Pick([]string{"G", "U", "D", "H", "A"})
	}
	var body string
	fl := g.rng.Pick([]string{"-", "-", "-", "n", "n", "u", "f", "fn", "w", "w", "fw", "x", "c", "m", "i"})
	switch {
	case strings.Contains(fl, "w"):
		v := g.value(3) // the adapter wraps it into {"apps":{"c12":…}}
		if g.rng.Chance(1, 3) {
			// a member "warn": adapted with a warning; with "reject" the load then fails
			m := g.object(2)
			m["warn"] = g.scalar()
			if g.rng.Chance(1, 3) {
				m["reject"] = true
			}
			v = m
		}
		body = bodyOf(v)
	default:
		body = bodyOf(g.doc())
	}
	if g.rng.Chance(1, 25) {
		body = g.rng.Pick([]string{"!", "-"})
	}
	if cur := currentCfg(); g.rng.Chance(1, 4) && !strings.Contains(fl, "w") {
		// load what is already there (errSameConfig unless forced); the null config also as an empty body
		body = bodyOf(cur)
		if cur == nil && g.rng.Chance(1, 2) {
			body = "-"
		}
	}
	if m == "G" || m == "H" || m == "D" {
		body, fl = "-", "-"
	}
	p := "/load"
	if g.rng.Chance(1, 6) {
		p = "/adapt"
	}
	if p == "/adapt" && m == "P" && body == "-" {
		body = "!" // an empty body to /adapt is outside the domain (see parseStep)
	}
	s.exec(stepLine(m, p, body, g.ifMatch(s, "/config/"), fl))
}

func (g *gen) ifMatch(s *session, path string) string {
	switch g.rng.Intn(24) {
	case 0, 1, 2, 3:
		if k, ok := s.gets[path]; ok {
			return "e" + strconv.Itoa(k)
		}
		if len(s.lines) > 0 {
			return "e" + strconv.Itoa(g.rng.Intn(len(s.lines)))
		}
	case 4:
		if len(s.lines) > 0 {
			return "e" + strconv.Itoa(g.rng.Intn(len(s.lines)+2))
		}
	case 5:
		if !strings.ContainsAny(path, " \t\n\v\f\r") {
			return "w" + core.Hex(path)
		}
	case 6:
		return "r" + core.Hex(g.rng.Pick([]string{"x", "\"", "\"\"", "\"a\"", "\"a b c\"", "a b", "\" a b", "\"/config/ x y\"", "\"  \""}))
	case 7:
		if len(s.lines) > 0 {
			return "p" + strconv.Itoa(g.rng.Intn(len(s.lines))) + "." + core.Hex(g.rng.Pick([]string{path, path + "/", "/config", "/foo", "...", "/", "/config/apps/c12", "config/apps"}))
		}
	}
	return "-"
}

func (g *gen) history(maxSteps int) string {
	reset()
	s := &session{gets: map[string]int{}}
	n := 1 + g.rng.Intn(maxSteps)
	if g.rng.Chance(9, 10) {
		s.exec(stepLine("P", "/config/", bodyOf(g.doc()), "-", "-"))
	}
	for len(s.lines) < n {
		cfg := currentCfg()
		segs, node := g.pickPath(cfg, 4)
		path := cfgPath(segs)
		arr, isArr := node.([]any)
		_, isObj := node.(map[string]any)
		wr := func(m, p string, body any) {
			b := "-"
			if m != "D" {
				b = bodyOf(body)
				if g.rng.Chance(1, 60) {
					b = "!"
				} else if g.rng.Chance(1, 60) {
					b = "-"
				}
			}
			s.exec(stepLine(m, p, b, g.ifMatch(s, p), g.flags()))
		}
		if g.rng.Chance(1, 14) {
			g.loadStep(s)
			continue
		}
		if g.rng.Chance(1, 25) {
			// write what is already there: unchanged (errSameConfig) unless the reload is forced
			fl := g.rng.Pick([]string{"-", "-", "f"})
			v := node
			if g.rng.Chance(1, 2) {
				// … or something that is ALMOST what is already there (one letter in another case):
				// that is a change and has to be loaded
				if nv, ok := nearCopy(clone(node)); ok {
					v = nv
				}
			}
			s.exec(stepLine(g.rng.Pick([]string{"A", "A", "P"}), path, bodyOf(v), "-", fl))
			continue
		}
		switch k := g.rng.Intn(100); {
		case k < 18:
			p := path
			if g.rng.Chance(1, 10) {
				p += g.rng.Pick([]string{"/", "/...", "/nope", "/0", "//x", "/./a", "/nope/deeper"})
			}
			s.exec(stepLine("G", p, "-", "-", "-"))
		case k < 28:
			wr("A", path, g.value(2))
		case k < 35:
			wr("D", path, nil)
		case k < 45:
			if isObj || g.rng.Chance(1, 5) {
				wr("U", path+"/"+g.rng.Pick(plainKeys), g.value(2))
			} else {
				wr("U", path, g.value(2))
			}
		case k < 48:
			// below something that does not exist: only PUT makes the maps on the way
			wr(g.rng.Pick([]string{"U", "U", "U", "P", "A", "D"}), path+"/"+g.rng.Pick(plainKeys)+"/"+g.rng.Pick(plainKeys)+g.rng.Pick([]string{"", "/n"}), g.value(1))
		case k < 56:
			wr("P", path, g.value(2))
		case k < 60:
			if g.rng.Chance(4, 5) {
				wr("P", path+"/...", []any{g.scalar(), g.value(1)})
			} else {
				wr("P", path+"/...", g.scalar())
			}
		case k < 75:
			// array element operations
			idx := g.rng.Pick(badIdxPool)
			if isArr && g.rng.Chance(5, 6) {
				idx = strconv.Itoa(g.rng.Intn(len(arr) + 2))
			} else if g.rng.Chance(1, 2) {
				idx = strconv.Itoa(g.rng.Intn(3))
			}
			m := g.rng.Pick([]string{"G", "U", "A", "D", "P", "U", "A", "D"})
			p := path + "/" + idx
			if m == "P" && g.rng.Chance(1, 3) {
				p += "/..."
			}
			if m == "G" {
				s.exec(stepLine("G", p, "-", "-", "-"))
			} else {
				wr(m, p, g.value(1))
			}
		case k < 86:
			// through /id/
			set := map[string]bool{}
			idTexts(cfg, set)
			id := g.rng.Pick(idStrPool)
			if len(set) > 0 && g.rng.Chance(9, 10) {
				ids := sortedKeys(boolMap(set))
				id = ids[g.rng.Intn(len(ids))]
				if g.rng.Chance(1, 3) {
					// prefer an id that more than one object carries (answer: ambiguous)
					for _, c := range ids {
						if idCandidates(cfg, c) > 1 {
							id = c
							break
						}
					}
				}
			}
			if strings.Contains(id, "..") {
				id = "x"
			}
			p := "/id/" + id + g.rng.Pick([]string{"", "", "", "/", "/a", "/0", "/b/c", "/...", "/@id"})
			m := g.rng.Pick([]string{"G", "G", "G", "A", "U", "P", "D"})
			if m == "G" {
				s.exec(stepLine("G", p, "-", "-", "-"))
			} else {
				wr(m, p, g.value(2))
			}
		case k < 91:
			m := g.rng.Pick([]string{"D", "U", "P", "A", "P"})
			wr(m, g.rng.Pick([]string{"/config/", "/config/", "/config/apps", "/config/apps/c12"}), g.doc())
		case k < 96:
			m := g.rng.Pick([]string{"U", "A", "P", "D"})
			wr(m, "/config/apps/c12/reject", g.rng.Chance(3, 4))
		case k < 98:
			s.exec(stepLine("H", path, "-", "-", "-"))
		default:
			// read-modify-write with an intervening writer
			s.exec(stepLine("G", path, "-", "-", "-"))
			if g.rng.Chance(1, 2) {
				s2, _ := g.pickPath(currentCfg(), 4)
				wr(g.rng.Pick([]string{"A", "D", "P"}), cfgPath(s2), g.value(1))
			}
			s.exec(stepLine("A", path, bodyOf(g.value(1)), "e"+strconv.Itoa(s.gets[path]), "-"))
		}
	}
	return "hist " + strings.Join(s.lines, ";")
}

func boolMap(m map[string]bool) map[string]any {
	out := map[string]any{}
	for k := range m {
		out[k] = true
	}
	return out
}

func (prop) Generate(rng *core.Rand, tier string, emit func(string)) {
	setup()
	n, ncas, maxSteps := 1500, 4, 16
	switch tier {
	case "thorough":
		n, ncas, maxSteps = 24000, 25, 30
	case "search":
		n, ncas, maxSteps = 4000, 6, 20
	}
	g := &gen{rng: rng.Fork()}
	g.strOps(n*2, emit)
	g.ggOps(n/10+20, emit)
	g.cliOps(n/25+20, emit)
	g.pullOps(n/25+20, emit)
	g.wireOps(n/5+60, emit)
	g.ovlOps(n/25+20, emit)

	for i := 0; i < n; i++ {
		line := g.history(maxSteps)
		if len(line) > 60000 {
			continue
		}
		emit(line)
		if ncas > 0 && i%(n/ncas+1) == 0 {
			emit(fmt.Sprintf("cas %d %d", 2+rng.Intn(5), 2+rng.Intn(6)))
		}
	}
	// last: if the lock discipline is broken these can end in a fatal "concurrent map read and
	// map write", which takes the process (and whatever was still to run) with it
	emit("idrace " + strconv.Itoa(100+rng.Intn(100)))
	emit("peek " + strconv.Itoa(2+rng.Intn(4)) + " " + strconv.Itoa(100+rng.Intn(100)))
}

func swapFirstLetter(s string) (string, bool) {
	for i := 0; i < len(s); i++ {
		c := s[i]
		if (c >= 'a' && c <= 'z') || (c >= 'A' && c <= 'Z') {
			return s[:i] + string(c^0x20) + s[i+1:], true
		}
	}
	return s, false
}

// nearCopy changes the case of one letter of the first string value (or harmless key) of v.
func nearCopy(v any) (any, bool) {
	switch x := v.(type) {
	case string:
		return swapFirstLetter(x)
	case []any:
		for i := range x {
			if nv, ok := nearCopy(x[i]); ok {
				x[i] = nv
				return x, true
			}
		}
	case map[string]any:
		for _, k := range sortedKeys(x) {
			if nv, ok := nearCopy(x[k]); ok {
				x[k] = nv
				return x, true
			}
		}
		for _, k := range sortedKeys(x) {
			nk, ok := swapFirstLetter(k)
			if _, taken := x[nk]; ok && !taken && !forbiddenName(nk) && k != "apps" && k != "c12" && k != "@id" && k != "reject" {
				x[nk] = x[k]
				delete(x, k)
				return x, true
			}
		}
	}
	return v, false
}

// ggOps: overlapping GETs on a loaded document. The first path is usually a large subtree, the
// others smaller ones (their encodings fit the buffer the first one was encoded into) or the same
// size with other content.
func (g *gen) ggOps(n int, emit func(string)) {
	for i := 0; i < n; i++ {
		c12 := map[string]any{
			"big":  []any{"aaaaaaaaaaaaaaaaaaaaaaaaaaaaaaaaaaaaaaaaaaaaaaaaaaaaaaaaaaaaaaaaaaaaaaaa", json.Number("1"), g.value(2), "zzzzzzzzzzzzzzzzzzzzzzzzzzzzzzzz"},
			"same": []any{"bbbbbbbbbbbbbbbbbbbbbbbbbbbbbbbbbbbbbbbbbbbbbbbbbbbbbbbbbbbbbbbbbbbbbbbb", json.Number("2"), g.value(2), "yyyyyyyyyyyyyyyyyyyyyyyyyyyyyyyy"},
			"s":    g.scalar(),
			"o":    map[string]any{"@id": "ggx", "k": g.value(1)},
		}
		doc := map[string]any{"apps": map[string]any{"c12": c12}}
		all := []string{"/config/", "/config/apps/c12", "/config/apps/c12/big", "/config/apps/c12/same", "/config/apps/c12/s",
			"/config/apps/c12/o", "/id/ggx", "/id/ggx/k", "/config/apps/c12/big/0", "/config/apps/c12/big/1", "/config/apps/c12/nope", "/config/apps/c12/s/x"}
		k := 2 + g.rng.Intn(3)
		line := "gg " + bodyOf(doc)
		for j := 0; j < k; j++ {
			p := g.rng.Pick(all)
			if j == 0 && g.rng.Chance(2, 3) {
				p = g.rng.Pick(all[:4]) // a large value first
			}
			line += " " + core.Hex(p)
		}
		emit(line)
	}
}
