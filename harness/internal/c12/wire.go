package c12

// wire op: one request whose request line is written byte by byte onto a connection of a real
// http.Server standing in front of the real adminHandler, so that net/http's own request parsing
// (url.ParseRequestURI: %-escapes, RawPath) and the ServeMux (which routes on the ESCAPED path)
// decide which handler runs and which document path it addresses.
//
//	wire <tree> <M> <hex request target> <body>
//	answer: <resp>/<config>/<ids>      resp as in hist, plus B400 = net/http refused the request line

import (
	"bufio"
	"bytes"
	"fmt"
	"io"
	"net"
	"net/http"
	"net/url"
	"strconv"
	"strings"
	"sync"
	"time"

	"verif/harness/internal/core"
)

var (
	wireOnce sync.Once
	wireSock string
	wireErr  error
)

func wireSetup() {
	wireOnce.Do(func() {
		wireSock = privateDir + "/wire.sock"
		ln, err := net.Listen("unix", wireSock)
		if err != nil {
			wireErr = err
			return
		}
		srv := &http.Server{Handler: handler, ReadHeaderTimeout: 30 * time.Second}
		go srv.Serve(ln)
	})
}

// doWire writes the request and reads one response.
func doWire(method string, target []byte, body []byte, hdr map[string]string) response {
	conn, err := net.DialTimeout("unix", wireSock, 10*time.Second)
	if err != nil {
		return response{status: 598, body: []byte(err.Error())}
	}
	defer conn.Close()
	conn.SetDeadline(time.Now().Add(45 * time.Second))
	var b bytes.Buffer
	b.WriteString(method + " ")
	b.Write(target)
	b.WriteString(" HTTP/1.1\r\nHost: localhost\r\nConnection: close\r\n")
	for k, v := range hdr {
		b.WriteString(k + ": " + v + "\r\n")
	}
	if body != nil {
		b.WriteString("Content-Length: " + strconv.Itoa(len(body)) + "\r\n")
	}
	b.WriteString("\r\n")
	b.Write(body)
	if _, err := conn.Write(b.Bytes()); err != nil {
		return response{status: 598, body: []byte(err.Error())}
	}
	resp, err := http.ReadResponse(bufio.NewReader(conn), nil)
	if err != nil {
		if ne, ok := err.(net.Error); ok && ne.Timeout() {
			return response{hung: true}
		}
		return response{status: 598, body: []byte(err.Error())}
	}
	defer resp.Body.Close()
	rb, _ := io.ReadAll(resp.Body)
	return response{status: resp.StatusCode, body: rb, etag: resp.Header.Get("Etag")}
}

func wireByteOK(c byte) bool { return (c >= 0x21 && c <= 0x7f) || (c >= 1 && c <= 8) }

// hasDupIDs: some index key is carried by more than one object.
func hasDupIDs(cfg any) bool {
	seen := map[string]bool{}
	dup := false
	var walk func(v any)
	walk = func(v any) {
		switch x := v.(type) {
		case []any:
			for _, e := range x {
				walk(e)
			}
		case map[string]any:
			for k, e := range x {
				if k == "@id" {
					var t string
					switch i := e.(type) {
					case string:
						t = i
					default:
						if s, ok := idNumText(e); ok {
							t = s
						} else {
							continue
						}
					}
					if seen[t] {
						dup = true
					}
					seen[t] = true
					continue
				}
				walk(e)
			}
		}
	}
	walk(cfg)
	return dup
}

func idNumText(v any) (string, bool) {
	if s, ok := v.(fmt.Stringer); ok { // json.Number
		return s.String(), true
	}
	return "", false
}

// wireDomain: the decoded path the real parser gives (ok=false: the target does not parse) and
// whether the case is inside the domain both sides agree on.
func wireDomain(m string, target string, body string) (decoded string, parses, inDomain bool) {
	u, err := url.ParseRequestURI(target)
	if err != nil {
		return "", false, true
	}
	p := u.Path
	for i := 0; i < len(p); i++ {
		if p[i] < 0x20 || p[i] > 0x7e {
			return p, true, false
		}
	}
	if !(strings.HasPrefix(p, "/config") || strings.HasPrefix(p, "/id") || strings.HasPrefix(p, "/load") || strings.HasPrefix(p, "/adapt")) {
		return p, true, false
	}
	for _, seg := range strings.Split(p, "/") {
		if seg == ".." && m == "G" && strings.HasPrefix(p, "/config/") {
			continue
		}
		if forbiddenName(seg) {
			return p, true, false
		}
	}
	if p == "/adapt" && m == "P" && body == "-" {
		return p, true, false
	}
	return p, true, true
}

func runWire(line, doc, m, hexTarget, body string) core.Outcome {
	bad := core.Outcome{Impl: "bad-op"}
	tree, ok := parseTree(doc)
	if !ok || hasDupIDs(tree) {
		return bad
	}
	if !strings.Contains("GPUAD", m) || len(m) != 1 {
		return bad
	}
	target, err := core.UnHex(hexTarget)
	if err != nil || target == "" || target[0] != '/' {
		return bad
	}
	for i := 0; i < len(target); i++ {
		if !wireByteOK(target[i]) {
			return bad
		}
	}
	st := step{m: m, body: body, ifm: "-"}
	switch body {
	case "-", "!":
	default:
		t, ok := parseTree(body)
		if !ok {
			return bad
		}
		st.tree, st.hasVal = t, true
	}
	decoded, parses, inDomain := wireDomain(m, target, body)
	if !inDomain {
		return bad
	}
	wireSetup()
	if wireErr != nil {
		return core.Outcome{Impl: "wire setup: " + wireErr.Error()}
	}
	o := core.Outcome{}
	tags := map[string]bool{"wire": true, "wire:m:" + m: true}
	js := map[string]string{"Content-Type": "application/json"}

	play := func(tgt string) (string, response, observation, observation) {
		reset()
		do("POST", "/config/", []byte(jsonText(tree)), js)
		prev, pf := observe()
		o.Failures = append(o.Failures, pf...)
		r := doWire(methodName[m], []byte(tgt), st.bodyBytes(), st.headers(""))
		var s string
		switch {
		case r.hung:
			s = "hung"
			o.Failures = append(o.Failures, core.Failure{Class: "request-hung", What: "request over the wire did not return"})
		case r.status == 400 && !bytes.HasPrefix(bytes.TrimSpace(r.body), []byte("{")):
			s = "B400"
		case m == "G":
			s, _ = showGet(r, &o.Failures)
		default:
			s = showResp(r, &o.Failures, decoded)
		}
		cur, cf := observe()
		o.Failures = append(o.Failures, cf...)
		return s, r, prev, cur
	}

	s, r, prev, cur := play(target)
	tags["wire:resp:"+strings.SplitN(s, ":", 2)[0]+classOf(s)] = true
	if strings.Contains(target, "%") {
		tags["wire:pct"] = true
	}
	if strings.Contains(strings.ToLower(target), "%2f") {
		tags["wire:pct-slash"] = true
	}
	if strings.Contains(strings.ToLower(target), "%2e") {
		tags["wire:pct-dot"] = true
	}
	if !parses {
		tags["wire:unparsable"] = true
	}
	o.Impl = s + "/" + cur.cfgEnc + "/" + cur.ids

	// ---- oracle, on the implementation alone
	if s == "B400" || r.status == 301 || (r.status == 404 && errClass(r.status, r.body) == "notfound") {
		// never reached a handler: nothing may have changed
		if cur.cfgEnc != prev.cfgEnc || cur.ids != prev.ids || cur.ctx != prev.ctx {
			o.Failures = append(o.Failures, core.Failure{Class: "unrouted-request-changed-config",
				What: fmt.Sprintf("%s %q was answered %d without reaching a config handler, but the configuration went from %s to %s", methodName[m], target, r.status, prev.cfgEnc, cur.cfgEnc)})
		}
	} else if parses {
		// (a) a GET answers the value at the DECODED path
		// (only for clean decoded paths: handleConfigID's path.Join drops "." and "//", the reference lookup does not)
		if m == "G" && r.status == 200 && !strings.Contains(decoded, "..") && routesToID(decoded) {
			oracleGet(step{m: "G", path: decoded}, r, prev, &o.Failures)
		}
		// (b) the spelling does not matter: the same request with the canonical encoding of the decoded
		// path, if that reaches a handler too, has the same answer and the same effect
		canon := (&url.URL{Path: decoded}).EscapedPath()
		if canon != target && !strings.Contains(target, "?") {
			s2, r2, _, cur2 := play(canon)
			reached := !(s2 == "B400" || r2.status == 301 || (r2.status == 404 && errClass(r2.status, r2.body) == "notfound"))
			if reached {
				tags["wire:respelled"] = true
				if s2 != s || cur2.cfgEnc != cur.cfgEnc || cur2.ids != cur.ids {
					o.Failures = append(o.Failures, core.Failure{Class: "encoded-path-addresses-other-value",
						What: fmt.Sprintf("%s %q (decoded path %q) answered %s and left %s; the same request spelled %q answered %s and left %s",
							methodName[m], target, decoded, strings.SplitN(s, "/", 2)[0], cur.cfgEnc, canon, strings.SplitN(s2, "/", 2)[0], cur2.cfgEnc)})
				}
			}
		}
	}
	for t := range tags {
		o.Tags = append(o.Tags, t)
	}
	for i := range o.Failures {
		o.Failures[i].Case = line
	}
	return o
}

// ---------------------------------------------------------------- generator

func (g *gen) spell(p string) string {
	var b strings.Builder
	mode := g.rng.Intn(4) // 0 canonical, 1 some bytes encoded, 2 heavily encoded, 3 with damage
	for i := 0; i < len(p); i++ {
		c := p[i]
		must := c <= 0x20 || c >= 0x7f || c == '%' || c == '?'
		enc := must
		switch mode {
		case 0:
			enc = must || c == '"' || c == '#' || c == '<' || c == '>'
		case 1, 3:
			enc = must || g.rng.Chance(1, 6)
		case 2:
			enc = must || g.rng.Chance(2, 3)
		}
		if c == '/' && i > 0 && mode != 0 {
			enc = g.rng.Chance(1, 12)
		}
		if c == '.' && mode != 0 && g.rng.Chance(1, 2) {
			enc = true
		}
		if enc {
			if g.rng.Chance(1, 2) {
				fmt.Fprintf(&b, "%%%02X", c)
			} else {
				fmt.Fprintf(&b, "%%%02x", c)
			}
		} else {
			b.WriteByte(c)
		}
	}
	s := b.String()
	if mode == 3 {
		switch g.rng.Intn(8) {
		case 0:
			s += "%"
		case 1:
			s += "%4"
		case 2:
			s += "%zz"
		case 3:
			s += "?x=%zz"
		case 4:
			s += "\x01"
		case 5:
			s += "\x7f"
		case 6:
			s += "?"
		case 7:
			s += "#frag"
		}
	}
	return s
}

func (g *gen) wireOps(n int, emit func(string)) {
	for i := 0; i < n; i++ {
		var doc any
		for try := 0; try < 20; try++ {
			doc = g.doc()
			if !hasDupIDs(doc) {
				break
			}
			doc = map[string]any{"apps": map[string]any{"c12": map[string]any{"a": []any{map[string]any{"@id": "x", "v": g.scalar()}}, "x/y": g.scalar(), "k k": g.scalar()}}}
		}
		segs, _ := g.pickPath(doc, 5)
		p := cfgPath(segs)
		m := g.rng.Pick([]string{"G", "G", "G", "P", "U", "A", "D"})
		switch g.rng.Intn(12) {
		case 0, 4, 5: // through /id/
			set := map[string]bool{}
			idTexts(doc, set)
			if ids := sortedKeys(boolMap(set)); len(ids) > 0 {
				p = "/id/" + g.rng.Pick(ids)
				if g.rng.Chance(1, 2) {
					p += "/" + g.key()
				}
			}
		case 1:
			p += "/" + g.key()
		case 2, 6:
			m = "G"
			if m == "G" {
				p += "/../" + g.key()
			}
		case 3:
			p = g.rng.Pick([]string{"/load", "/adapt", "/config", "/id", "/config/apps/", "/config//apps", "/config/./apps"})
			if p == "/load" || p == "/adapt" {
				m = "P"
			}
		}
		t := g.spell(p)
		switch g.rng.Intn(14) {
		case 0: // the first segment spelled with an escape
			t = strings.Replace(t, "/config", "/%63onfig", 1)
			t = strings.Replace(t, "/id/", "/i%64/", 1)
		case 1: // the separator after the first segment encoded: decodes to the same path, routes nowhere
			t = strings.Replace(t, "/config/", "/config%2F", 1)
			t = strings.Replace(t, "/id/", "/id%2f", 1)
		}
		body := "-"
		if m != "G" && m != "D" {
			body = bodyOf(g.value(1))
			if g.rng.Chance(1, 12) {
				body = "!"
			}
		}
		emit("wire " + bodyOf(doc) + " " + m + " " + core.Hex(t) + " " + body)
	}
}
