package c12

// Implementation-only oracle: a small reference JSON document store (the documented
// meaning of GET/POST/PUT/PATCH/DELETE on a path) evaluated on the configuration the
// real server reported BEFORE a request, compared with what it reports AFTER; plus
// "@id resolves to that object", "the apps saw the document without @id", and
// "If-Match succeeds only if the value is unchanged". Nothing here reads the Lean model.

import (
	"bytes"
	"encoding/json"
	"fmt"
	"strconv"
	"strings"

	"verif/harness/internal/core"
)

func segsOf(path string) (segs []string, ell bool) {
	c := strings.Trim(path, "/")
	if c == "" {
		return nil, false
	}
	segs = strings.Split(c, "/")
	if segs[len(segs)-1] == "..." {
		return segs[:len(segs)-1], true
	}
	return segs, false
}

func index(seg string, n int, allowEnd bool) (int, bool) {
	i, err := strconv.Atoi(seg)
	if err != nil || i < 0 || i > n || (i == n && !allowEnd) {
		return 0, false
	}
	return i, true
}

// specGet: the value at the path, if the path names one.
func specGet(node any, segs []string) (any, bool) {
	for _, s := range segs {
		switch p := node.(type) {
		case map[string]any:
			c, ok := p[s]
			if !ok {
				return nil, false
			}
			node = c
		case []any:
			i, ok := index(s, len(p), false)
			if !ok {
				return nil, false
			}
			node = p[i]
		default:
			return nil, false
		}
	}
	return node, true
}

// specApply: the document after the write, if the write is meaningful.
func specApply(node any, segs []string, m string, ell bool, body any) (any, bool) {
	seg := segs[0]
	if len(segs) == 1 {
		switch p := node.(type) {
		case map[string]any:
			out := make(map[string]any, len(p)+1)
			for k, v := range p {
				out[k] = v
			}
			child, exists := p[seg]
			switch m {
			case "P":
				if arr, ok := child.([]any); ok {
					na, ok := appendTo(arr, ell, body)
					if !ok {
						return nil, false
					}
					out[seg] = na
				} else {
					out[seg] = body
				}
			case "U":
				if exists {
					return nil, false
				}
				out[seg] = body
			case "A":
				if !exists {
					return nil, false
				}
				out[seg] = body
			case "D":
				if !exists {
					return nil, false
				}
				delete(out, seg)
			}
			return out, true
		case []any:
			switch m {
			case "P":
				return appendTo(p, ell, body)
			case "U":
				i, ok := index(seg, len(p), true)
				if !ok {
					return nil, false
				}
				out := append(append(append([]any{}, p[:i]...), body), p[i:]...)
				return out, true
			case "A":
				i, ok := index(seg, len(p), false)
				if !ok {
					return nil, false
				}
				out := append([]any{}, p...)
				out[i] = body
				return out, true
			case "D":
				i, ok := index(seg, len(p), false)
				if !ok {
					return nil, false
				}
				out := append(append([]any{}, p[:i]...), p[i+1:]...)
				return out, true
			}
		}
		return nil, false
	}
	switch p := node.(type) {
	case map[string]any:
		child, exists := p[seg]
		if !exists || child == nil {
			if m != "U" {
				return nil, false
			}
			child = map[string]any{}
		}
		nc, ok := specApply(child, segs[1:], m, ell, body)
		if !ok {
			return nil, false
		}
		out := make(map[string]any, len(p)+1)
		for k, v := range p {
			out[k] = v
		}
		out[seg] = nc
		return out, true
	case []any:
		i, ok := index(seg, len(p), false)
		if !ok {
			return nil, false
		}
		nc, ok := specApply(p[i], segs[1:], m, ell, body)
		if !ok {
			return nil, false
		}
		out := append([]any{}, p...)
		out[i] = nc
		return out, true
	}
	return nil, false
}

func appendTo(arr []any, ell bool, body any) (any, bool) {
	if ell {
		b, ok := body.([]any)
		if !ok {
			return nil, false
		}
		return append(append([]any{}, arr...), b...), true
	}
	return append(append([]any{}, arr...), body), true
}

// nestedArrayTarget: the last segment indexes an array that itself sits directly in an array.
func nestedArrayTarget(root any, segs []string) bool {
	if len(segs) < 2 {
		return false
	}
	holder, ok := specGet(root, segs[:len(segs)-2])
	if !ok {
		return false
	}
	if _, ok := holder.([]any); !ok {
		return false
	}
	parent, ok := specGet(root, segs[:len(segs)-1])
	if !ok {
		return false
	}
	_, ok = parent.([]any)
	return ok
}

type tagged struct {
	id   string
	num  bool
	segs []string // from the root map, starting with "config"
	obj  map[string]any
}

func findTagged(v any, segs []string, out *[]tagged) {
	switch x := v.(type) {
	case []any:
		for i, e := range x {
			findTagged(e, append(append([]string{}, segs...), strconv.Itoa(i)), out)
		}
	case map[string]any:
		for k, e := range x {
			if k == "@id" {
				switch t := e.(type) {
				case string:
					*out = append(*out, tagged{id: t, segs: segs, obj: x})
				case json.Number:
					*out = append(*out, tagged{id: string(t), num: true, segs: segs, obj: x})
				}
				continue
			}
			findTagged(e, append(append([]string{}, segs...), k), out)
		}
	}
}

func unaddressableKey(k string) bool {
	return k == "" || k == "." || k == ".." || strings.Contains(k, "/")
}

func anyUnaddressable(segs []string) bool {
	for _, s := range segs[1:] {
		if unaddressableKey(s) {
			return true
		}
	}
	return segs[len(segs)-1] == "..." // a trailing "..." is the append-elements marker, not a key
}

// resolve turns a request path into segments below the root map {"config": cfg}, resolving
// /id/<id>/… through the tagged objects of cfg. ok=false: the oracle has no opinion.
func resolve(path string, cfg any) (segs []string, ell bool, ok bool) {
	if strings.HasPrefix(path, "/config/") {
		segs, ell = segsOf(path)
		return segs, ell, len(segs) > 0
	}
	parts := strings.Split(path, "/")
	if len(parts) < 3 || parts[2] == "" {
		return nil, false, false
	}
	var tg []tagged
	findTagged(cfg, []string{"config"}, &tg)
	var hit []tagged
	for _, t := range tg {
		if t.id == parts[2] {
			hit = append(hit, t)
		}
	}
	if len(hit) != 1 || anyUnaddressable(hit[0].segs) {
		return nil, false, false
	}
	rest := strings.Trim(strings.Join(parts[3:], "/"), "/")
	segs = append([]string{}, hit[0].segs...)
	if rest != "" {
		segs = append(segs, strings.Split(rest, "/")...)
	}
	if segs[len(segs)-1] == "..." {
		return segs[:len(segs)-1], true, true
	}
	return segs, false, true
}

func rootOf(cfg any) map[string]any { return map[string]any{"config": cfg} }

func fail(fails *[]core.Failure, class, format string, a ...any) {
	*fails = append(*fails, core.Failure{Class: class, What: fmt.Sprintf(format, a...)})
}

// oracleGet: GET returns exactly the value at the path of the current configuration.
func oracleGet(st step, r response, prev observation, fails *[]core.Failure) {
	if strings.HasPrefix(prev.cfgEnc, "?") {
		return
	}
	segs, _, ok := resolve(st.path, prev.cfg)
	if !ok {
		return
	}
	root := rootOf(prev.cfg)
	want, defined := specGet(root, segs)
	nested := nestedArrayTarget(root, segs)
	switch {
	case r.status == 200 && len(bytes.TrimSpace(r.body)) == 0:
		if nested {
			fail(fails, "nested-array-element-not-addressable", "GET %s answered 200 with an empty body; the configuration has %s there", st.path, jsonText(want))
		} else {
			fail(fails, "get-empty-body", "GET %s answered 200 with an empty body", st.path)
		}
	case r.status == 200:
		got, err := decodeJSON(r.body)
		if err != nil {
			fail(fails, "get-body-not-json", "GET %s answered %q", st.path, r.body)
			return
		}
		if defined && !deepEqual(got, want) {
			fail(fails, "get-wrong-value", "GET %s answered %s but the configuration (GET /config/ just before) has %s there", st.path, jsonText(got), jsonText(want))
		}
		if !defined {
			// reading a key an object does not have answers null; anything else is invented
			parent, pok := specGet(root, segs[:len(segs)-1])
			_, isMap := parent.(map[string]any)
			if !(pok && isMap && got == nil) {
				fail(fails, "get-invented-value", "GET %s answered %s but the configuration has nothing at that path", st.path, jsonText(got))
			}
		}
	case r.status == 400 && defined:
		fail(fails, "get-refused-existing-path", "GET %s answered 400 but the configuration has %s there", st.path, jsonText(want))
	}
}

func stripIDs(v any) any {
	switch x := v.(type) {
	case []any:
		out := make([]any, len(x))
		for i := range x {
			out[i] = stripIDs(x[i])
		}
		return out
	case map[string]any:
		out := map[string]any{}
		for k, e := range x {
			if k != "@id" {
				out[k] = stripIDs(e)
			}
		}
		return out
	}
	return v
}

func probeSubtree(cfg any) (any, bool) {
	m, ok := cfg.(map[string]any)
	if !ok {
		return nil, false
	}
	a, ok := m["apps"].(map[string]any)
	if !ok {
		return nil, false
	}
	v, ok := a["c12"]
	return v, ok
}

// oracleWrite evaluates one non-GET step.
func oracleWrite(st step, r response, hdr string, ref *etagRec, pre *response, prev, cur observation,
	fails *[]core.Failure, tags map[string]bool) {
	if strings.HasPrefix(prev.cfgEnc, "?") || strings.HasPrefix(cur.cfgEnc, "?") {
		fail(fails, "config-unreadable", "GET /config/ failed around step %s %s", st.m, st.path)
		return
	}
	accepted := r.status == 200
	if st.path == "/adapt" {
		// adapting is a pure function of the request
		if cur.cfgEnc != prev.cfgEnc || cur.ids != prev.ids || cur.loads != prev.loads || cur.saw != prev.saw {
			fail(fails, "adapt-changed-state", "%s /adapt answered %d and the configuration, the id index or the running apps changed", methodName[st.m], r.status)
		}
		return
	}
	// ---- If-Match: a conditional write succeeds only if the value is unchanged
	// (/load does not take part: caddy.Load passes no If-Match to changeConfig)
	if ref != nil && pre != nil && (pre.status == 200 || pre.status == 400) && st.path != "/load" {
		unchanged := pre.status == 200 && bytes.Equal(pre.body, ref.body)
		if accepted && !unchanged {
			fail(fails, "if-match-stale-write-accepted", "%s %s with If-Match %s was accepted although the value changed since the ETag was issued (then %q, now %q)",
				methodName[st.m], st.path, hdr, ref.body, pre.body)
		}
		if r.status == 412 && unchanged {
			fail(fails, "if-match-fresh-write-refused", "%s %s with If-Match %s was refused (412) although the value is unchanged", methodName[st.m], st.path, hdr)
		}
		if unchanged {
			tags["ifmatch:fresh"] = true
		} else {
			tags["ifmatch:stale"] = true
		}
	}
	// ---- a rejected request changes nothing
	if !accepted {
		if cur.cfgEnc != prev.cfgEnc {
			fail(fails, "rejected-request-changed-config", "%s %s answered %d but GET /config/ changed from %s to %s",
				methodName[st.m], st.path, r.status, jsonText(prev.cfg), jsonText(cur.cfg))
		} else if cur.ids != prev.ids {
			fail(fails, "rejected-request-changed-id-index", "%s %s answered %d but /id/ resolution changed (%s -> %s)", methodName[st.m], st.path, r.status, prev.ids, cur.ids)
		}
		if cur.loads != prev.loads || cur.saw != prev.saw {
			fail(fails, "rejected-request-restarted-apps", "%s %s answered %d but the apps were started again", methodName[st.m], st.path, r.status)
		}
		return
	}
	if st.m == "H" {
		return
	}
	if st.path == "/load" {
		// replaces the entire configuration with the (adapted) body
		var want any
		if st.hasVal {
			want = st.tree
		}
		if st.ct == 'w' {
			want = map[string]any{"apps": map[string]any{"c12": want}}
		}
		if _, isArr := prev.cfg.([]any); !isArr && !deepEqual(want, cur.cfg) {
			fail(fails, "load-wrong-effect", "POST /load %s answered 200 but GET /config/ gives %s", jsonText(want), jsonText(cur.cfg))
		}
		tags["load:accepted"] = true
	}
	// ---- documented effect at the path and nowhere else
	root := rootOf(prev.cfg)
	if segs, ell, ok := resolve(st.path, prev.cfg); ok {
		if len(segs) == 1 && st.m == "U" && prev.cfg == nil {
			// GET /config/ reads null both for "config": null and for no "config" key at all
			// (after DELETE /config/); PUT is meaningful in the second case
			root = map[string]any{}
		}
		var body any
		if st.hasVal && st.m != "D" {
			body = st.tree
		}
		want, defined := specApply(root, segs, st.m, ell, body)
		switch {
		case nestedArrayTarget(root, segs) && cur.cfgEnc == prev.cfgEnc && !(defined && deepEqual(want.(map[string]any)["config"], cur.cfg)):
			fail(fails, "nested-array-element-not-addressable", "%s %s answered 200 and did nothing: the target is an element of an array that sits directly in an array (configuration %s)",
				methodName[st.m], st.path, jsonText(prev.cfg))
		case !defined:
			fail(fails, "write-accepted-on-invalid-path", "%s %s answered 200 but the path/method is not applicable to the configuration %s",
				methodName[st.m], st.path, jsonText(prev.cfg))
		case !deepEqual(want.(map[string]any)["config"], cur.cfg):
			fail(fails, "write-wrong-effect", "%s %s %s on %s gives %s; the reference document store gives %s",
				methodName[st.m], st.path, jsonText(body), jsonText(prev.cfg), jsonText(cur.cfg), jsonText(want.(map[string]any)["config"]))
		}
	}
	// ---- the running configuration is the document, minus @id
	changed := cur.cfgEnc != prev.cfgEnc
	if sub, ok := probeSubtree(cur.cfg); ok {
		if (changed || st.force) && cur.loads != prev.loads+1 {
			fail(fails, "config-changed-without-load", "%s %s changed the document (or forced a reload) but the probe app was started %d times", methodName[st.m], st.path, cur.loads-prev.loads)
		}
		if cur.loads != prev.loads {
			if !cur.hasSaw || !deepEqual(cur.sawTree, stripIDs(sub)) {
				fail(fails, "apps-saw-different-config", "the probe app was started with %s but the document has %s at /config/apps/c12", cur.saw, jsonText(sub))
			}
		}
	} else if cur.loads != prev.loads {
		fail(fails, "config-changed-without-load", "probe app started although the document has no /config/apps/c12")
	}
	if !changed && !st.force && cur.loads != prev.loads {
		fail(fails, "unchanged-config-reloaded", "%s %s left the document unchanged but the apps were restarted", methodName[st.m], st.path)
	}
	checkIDs(cur, fails, tags)
}

// checkIDs: every object tagged with a (unique, URL-expressible) @id is what GET /id/<id> returns.
func checkIDs(cur observation, fails *[]core.Failure, tags map[string]bool) {
	var tg []tagged
	findTagged(cur.cfg, []string{"config"}, &tg)
	count := map[string]int{}
	for _, t := range tg {
		count[t.id]++
	}
	for _, t := range tg {
		if count[t.id] != 1 || t.id == "" || t.id == "." || t.id == ".." || strings.Contains(t.id, "/") {
			continue
		}
		tags["id-checked"] = true
		r := cur.idResp[t.id]
		okBody := false
		if r.status == 200 {
			if got, err := decodeJSON(r.body); err == nil && deepEqual(got, t.obj) {
				okBody = true
			}
		}
		if okBody {
			continue
		}
		what := fmt.Sprintf("the object tagged \"@id\": %s at /%s is not what GET /id/%s returns (status %d, body %q)",
			jsonText(t.obj["@id"]), strings.Join(t.segs, "/"), t.id, r.status, r.body)
		switch {
		case nestedArrayTarget(rootOf(cur.cfg), t.segs) && r.status == 200 && len(r.body) == 0:
			fail(fails, "nested-array-element-not-addressable", "%s", what)
		case len(t.segs) == 1 && r.status == 301:
			fail(fails, "id-on-root-object-redirects", "%s", what)
		case anyUnaddressable(t.segs):
			fail(fails, "id-below-unaddressable-key", "%s", what)
		default:
			fail(fails, "id-does-not-resolve", "%s", what)
		}
	}
}
