package c12

// ovl op: two writers and a reader that are FORCED to overlap. The probe app holds the first
// writer inside Provision - i.e. inside changeConfig, after rawCfg has been mutated in place and
// while rawCfgMu is write-locked - until the second writer (its body already read into a pooled
// buffer) and the reader have been started and are waiting. Atomicity says: the outcome is that of
// one of the serial orders A;B;R or A;R;B, which are both run for real (and are the answer line).
//
//	ovl <tree> <M,path,body> <M,path,body> <hex path of the GET>
//	answer: <A;B;R answers and final config> | <A;R;B answers and final config>

import (
	"fmt"
	"strings"
	"sync"
	"time"

	"verif/harness/internal/core"
)

var gate struct {
	mu      sync.Mutex
	armed   bool
	entered chan struct{}
	release chan struct{}
}

// gateWait is called by the probe app's Provision: one shot, only when armed.
func gateWait() {
	gate.mu.Lock()
	if !gate.armed {
		gate.mu.Unlock()
		return
	}
	gate.armed = false
	e, r := gate.entered, gate.release
	gate.mu.Unlock()
	close(e)
	select {
	case <-r:
	case <-time.After(30 * time.Second):
	}
}

func armGate() (entered, release chan struct{}) {
	gate.mu.Lock()
	defer gate.mu.Unlock()
	gate.armed = true
	gate.entered, gate.release = make(chan struct{}), make(chan struct{})
	return gate.entered, gate.release
}

func disarmGate() {
	gate.mu.Lock()
	gate.armed = false
	gate.mu.Unlock()
}

func parseOvlStep(s string) (step, bool) {
	if strings.Count(s, ",") != 2 {
		return step{}, false
	}
	st, ok := parseStep(s + ",-,-")
	if !ok || !strings.Contains("PUAD", st.m) || !strings.HasPrefix(st.path, "/config/") {
		return st, false
	}
	return st, true
}

func runOvl(line, doc, sa, sb, hexPath string) core.Outcome {
	bad := core.Outcome{Impl: "bad-op"}
	tree, ok := parseTree(doc)
	if !ok {
		return bad
	}
	a, ok1 := parseOvlStep(sa)
	b, ok2 := parseOvlStep(sb)
	rp, err := core.UnHex(hexPath)
	if !ok1 || !ok2 || err != nil || !pathOK(rp) || !strings.HasPrefix(rp, "/config/") {
		return bad
	}
	o := core.Outcome{Tags: []string{"ovl"}}
	js := map[string]string{"Content-Type": "application/json"}
	load := func() {
		reset()
		disarmGate()
		do("POST", "/config/", []byte(jsonText(tree)), js)
	}
	send := func(st step) response { return do(methodName[st.m], st.path, st.bodyBytes(), st.headers("")) }
	show := func(ra, rb, rg response) string {
		sg, _ := showGet(rg, &o.Failures)
		c := get("/config/")
		enc := "?"
		if v, err := decodeJSON(c.body); err == nil && c.status == 200 {
			enc = encTree(v)
		}
		return showResp(ra, &o.Failures, a.path) + ";" + showResp(rb, &o.Failures, b.path) + ";" + sg + ";" + enc
	}
	// the two serial orders, for real
	load()
	ra := send(a)
	rb := send(b)
	rg := get(rp)
	o1 := show(ra, rb, rg)
	load()
	ra = send(a)
	rg = get(rp)
	rb = send(b)
	o2 := show(ra, rb, rg)
	o.Impl = o1 + "|" + o2
	if o1 != o2 {
		o.Tags = append(o.Tags, "ovl:orders-differ")
	}

	// the overlapped run
	load()
	entered, release := armGate()
	var xa, xb, xg response
	aDone, bDone, gDone := make(chan struct{}), make(chan struct{}), make(chan struct{})
	go func() { xa = send(a); close(aDone) }()
	held := false
	select {
	case <-entered:
		held = true
	case <-aDone:
	case <-time.After(45 * time.Second):
	}
	if !held {
		disarmGate() // A never reached the probe app: nothing is held, B must not be either
	}
	go func() { xb = send(b); close(bDone) }()
	go func() { xg = get(rp); close(gDone) }()
	if held {
		o.Tags = append(o.Tags, "ovl:held")
		early := ""
		// a request the mux answers itself (unclean path: 301) never gets as far as the lock
		reached := func(r response) bool { return r.status != 301 && !(r.status == 404 && errClass(r.status, r.body) == "notfound") }
		select {
		case <-bDone:
			if reached(xb) {
				early = fmt.Sprintf("%s %s", methodName[b.m], b.path)
			}
		case <-gDone:
			if reached(xg) {
				early = "GET " + rp
			}
		case <-time.After(25 * time.Millisecond):
		}
		if early != "" {
			o.Failures = append(o.Failures, core.Failure{Class: "request-completed-inside-another-write",
				What: fmt.Sprintf("%s was answered while %s %s was still inside changeConfig (held in the probe app's Provision, rawCfg already mutated)", early, methodName[a.m], a.path)})
		}
		close(release)
	}
	for _, c := range []chan struct{}{aDone, bDone, gDone} {
		select {
		case <-c:
		case <-time.After(60 * time.Second):
			o.Failures = append(o.Failures, core.Failure{Case: line, Class: "request-hung", What: "overlapped requests did not return"})
			o.Impl = "hung"
			return o
		}
	}
	ox := show(xa, xb, xg)
	switch ox {
	case o1:
		o.Tags = append(o.Tags, "ovl:as-ABR")
	case o2:
		o.Tags = append(o.Tags, "ovl:as-ARB")
	default:
		o.Failures = append(o.Failures, core.Failure{Class: "overlapped-history-not-serial",
			What: fmt.Sprintf("writer A (%s %s) held inside changeConfig while writer B (%s %s) and GET %s waited: the outcome %s is neither that of A;B;R (%s) nor of A;R;B (%s)",
				methodName[a.m], a.path, methodName[b.m], b.path, rp, ox, o1, o2)})
	}
	for i := range o.Failures {
		o.Failures[i].Case = line
	}
	return o
}

func (g *gen) ovlOps(n int, emit func(string)) {
	for i := 0; i < n; i++ {
		big := strings.Repeat("a", 40+g.rng.Intn(200))
		c12 := g.object(2)
		c12["n"] = []any{g.scalar(), big}
		doc := map[string]any{"apps": map[string]any{"c12": c12}}
		wstep := func() string {
			segs, _ := g.pickPath(doc, 4)
			p := cfgPath(segs)
			if g.rng.Chance(1, 3) {
				p = "/config/apps/c12/" + g.key()
			}
			m := g.rng.Pick([]string{"P", "U", "A", "D", "U", "A"})
			body := "-"
			if m != "D" {
				v := g.value(1)
				switch g.rng.Intn(6) {
				case 0:
					v = map[string]any{"reject": true, "pad": strings.Repeat("b", 30+g.rng.Intn(300))}
				case 1:
					v = []any{strings.Repeat("c", 30+g.rng.Intn(300)), g.scalar()}
				case 2:
					v = map[string]any{"@id": true}
				}
				body = bodyOf(v)
			}
			return m + "," + core.Hex(p) + "," + body
		}
		segs, _ := g.pickPath(doc, 3)
		rp := cfgPath(segs)
		if g.rng.Chance(1, 3) {
			rp = "/config/"
		}
		if !pathOK(rp) {
			rp = "/config/apps/c12"
		}
		emit("ovl " + bodyOf(doc) + " " + wstep() + " " + wstep() + " " + core.Hex(rp))
	}
}
