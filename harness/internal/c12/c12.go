// Package c12: the admin config API as an atomic JSON document store.
// Histories of admin requests are driven through the REAL adminHandler (in-process,
// caddy.VerifAdminHandler) against the real process-global config state, with a probe
// app (`c12`) that records what it is started with and can be told to reject.
package c12

import (
	"bytes"
	"encoding/hex"
	"encoding/json"
	"fmt"
	"io"
	"net/http"
	"net/http/httptest"
	"os"
	"path"
	"sort"
	"strconv"
	"strings"
	"sync"
	"syscall"
	"time"

	"github.com/caddyserver/caddy/v2"
	"github.com/caddyserver/caddy/v2/caddyconfig" // registers admin.api.load (/load, /adapt)
	"github.com/cespare/xxhash/v2"

	"verif/harness/internal/core"
)

type prop struct{}

func New() core.Prop { return prop{} }

func (prop) ID() string { return "C12" }

// ---------------------------------------------------------------- probe app

type probeApp struct{ raw []byte }

var (
	probeMu    sync.Mutex
	probeLoads int
	probeSaw   []byte
)

func (probeApp) CaddyModule() caddy.ModuleInfo {
	return caddy.ModuleInfo{ID: "c12", New: func() caddy.Module { return new(probeApp) }}
}

// UnmarshalJSON keeps the bytes caddy hands to the module: any JSON value is a valid
// probe config, so arbitrary subtrees can live under /config/apps/c12.
func (p *probeApp) UnmarshalJSON(b []byte) error {
	p.raw = append([]byte(nil), b...)
	return nil
}

func (p *probeApp) Provision(caddy.Context) error {
	gateWait() // ovl op: hold this load inside changeConfig (no-op unless armed)
	v, err := decodeJSON(p.raw)
	if err != nil {
		return err
	}
	if m, ok := v.(map[string]any); ok && m["reject"] == true {
		return fmt.Errorf("probe app was told to reject")
	}
	return nil
}

func (p *probeApp) Start() error {
	probeMu.Lock()
	probeLoads++
	probeSaw = p.raw
	probeMu.Unlock()
	return nil
}

func (p *probeApp) Stop() error { return nil }

// wrapAdapter is the one config adapter of the harness world ("c12wrap"):
// X -> {"apps":{"c12":X}}; an empty or undecodable body is an adapter error; an object with a
// member "warn" is adapted with one warning.
type wrapAdapter struct{}

func (wrapAdapter) Adapt(body []byte, _ map[string]any) ([]byte, []caddyconfig.Warning, error) {
	v, err := decodeJSON(body)
	if err != nil {
		return nil, nil, err
	}
	var warnings []caddyconfig.Warning
	if m, ok := v.(map[string]any); ok {
		if _, has := m["warn"]; has {
			warnings = []caddyconfig.Warning{{File: "c12", Line: 1, Directive: "warn", Message: "the body has a member \"warn\""}}
		}
	}
	return []byte(jsonText(map[string]any{"apps": map[string]any{"c12": v}})), warnings, nil
}

// splitWarnings: handleLoad writes the adapter's warnings (a JSON array) to the response BEFORE it
// calls caddy.Load - which commits the status line to 200; an error of the load is then appended
// by handleError as a second JSON value. Returns the response as it would have been without the
// warnings (status 400 for an appended error) and what was found.
func splitWarnings(r response) (plain response, warned, errAfter bool) {
	b := bytes.TrimSpace(r.body)
	if r.status != 200 || len(b) == 0 || b[0] != '[' {
		return r, false, false
	}
	dec := json.NewDecoder(bytes.NewReader(b))
	var w []any
	if dec.Decode(&w) != nil {
		return r, false, false
	}
	rest := bytes.TrimSpace(b[dec.InputOffset():])
	plain = r
	plain.body = rest
	if bytes.HasPrefix(rest, []byte(`{"error"`)) {
		plain.status = 400
		return plain, true, true
	}
	return plain, true, false
}

// ---------------------------------------------------------------- process set-up

var (
	setupOnce sync.Once
	handler   http.Handler
	setupErr  error
)

func setup() {
	setupOnce.Do(func() {
		caddy.RegisterModule(probeApp{})
		caddyconfig.RegisterAdapter("c12wrap", wrapAdapter{})
		caddy.RegisterModule(pullLoader{})
		os.MkdirAll("/verif/.run", 0o755)
		dir, err := os.MkdirTemp("/verif/.run", "c12-")
		if err != nil {
			setupErr = err
			return
		}
		privateDir = dir
		os.Setenv("XDG_DATA_HOME", dir)
		os.Setenv("XDG_CONFIG_HOME", dir)
		os.Setenv("HOME", dir)
		caddy.ConfigAutosavePath = dir + "/autosave.json"
		caddy.DefaultAdminListen = "127.0.0.1:0" // every load re-creates the admin listener (no name resolution)
		// caddy logs every admin request and every load to stderr
		if dn, err := os.OpenFile("/dev/null", os.O_WRONLY, 0); err == nil {
			if fd, err := syscall.Dup(2); err == nil {
				realStderr = os.NewFile(uintptr(fd), "stderr")
			}
			syscall.Dup3(int(dn.Fd()), 2, 0)
		}
		addr, err := caddy.ParseNetworkAddress("unix/" + dir + "/admin.sock")
		if err != nil {
			setupErr = err
			return
		}
		handler, setupErr = caddy.VerifAdminHandler(nil, addr, false)
	})
	if setupErr != nil {
		panic(setupErr)
	}
}

var (
	privateDir string
	realStderr *os.File
)

// Finish is called by core.Main after the last case.
func (prop) Finish(*core.Session) {
	if handler != nil {
		caddy.Stop()
	}
	if privateDir != "" {
		os.RemoveAll(privateDir)
	}
}

// reset puts the process-global admin state back to "nothing loaded yet".
func reset() {
	caddy.Stop()
	os.Remove(caddy.ConfigAutosavePath)
	probeMu.Lock()
	probeLoads = 0
	probeSaw = nil
	probeMu.Unlock()
}

// ---------------------------------------------------------------- one request

type response struct {
	status int
	body   []byte
	etag   string
	hung   bool
}

func do(method, path string, body []byte, hdr map[string]string) response {
	r := httptest.NewRequest(method, "http://localhost/", bytes.NewReader(body))
	r.URL.Path = path
	r.URL.RawPath = ""
	r.RequestURI = path
	for k, v := range hdr {
		r.Header[k] = []string{v}
		if k == "If-Match" {
			// a second If-Match field: the handlers read the first one only
			r.Header[k] = append(r.Header[k], `"/config/ 0000000000000000"`)
		}
	}
	w := httptest.NewRecorder()
	done := make(chan struct{})
	go func() {
		defer close(done)
		defer func() {
			if p := recover(); p != nil {
				w.Code = 599
				w.Body = bytes.NewBufferString(fmt.Sprint("panic: ", p))
			}
		}()
		handler.ServeHTTP(w, r)
	}()
	select {
	case <-done:
	case <-time.After(45 * time.Second):
		return response{hung: true}
	}
	b, _ := io.ReadAll(w.Body)
	return response{status: w.Code, body: b, etag: w.Header().Get("Etag")}
}

func get(path string) response { return do("GET", path, nil, nil) }

// errClass maps the error text of the real handler to the model's enum.
func errClass(status int, body []byte) string {
	var e struct {
		Error string `json:"error"`
	}
	if json.Unmarshal(body, &e) != nil {
		if status == 404 {
			return "notfound"
		}
		if status == 599 {
			return "panic"
		}
		return "unparsed"
	}
	m := e.Error
	switch {
	case strings.HasPrefix(m, "loading config: "): // handleLoad wraps the error of caddy.Load
		inner, _ := json.Marshal(map[string]string{"error": strings.TrimPrefix(m, "loading config: ")})
		return "L-" + errClass(status, inner)
	case strings.HasPrefix(m, "invalid Content-Type"):
		return "ct-invalid"
	case strings.HasPrefix(m, "malformed Content-Type"):
		return "ct-malformed"
	case strings.HasPrefix(m, "unrecognized config adapter"):
		return "adapter-unknown"
	case strings.HasPrefix(m, "adapting config using"):
		return "adapt-failed"
	case strings.HasPrefix(m, "json: error calling MarshalJSON for type json.RawMessage"):
		return "adapt-encode"
	case strings.HasPrefix(m, "loading new config"):
		return "load"
	case strings.HasPrefix(m, "indexing config"):
		return "index"
	case strings.HasPrefix(m, "unknown object ID"):
		return "id-unknown"
	case strings.HasPrefix(m, "request path is missing object ID"):
		return "id-missing"
	case strings.HasPrefix(m, "malformed object path"):
		return "id-malformed"
	case strings.HasPrefix(m, "decoding request body"):
		return "decode"
	case strings.HasPrefix(m, "no traversable path"):
		return "nopath"
	case strings.HasPrefix(m, "unacceptable content-type"):
		return "ctype"
	case strings.HasPrefix(m, "malformed If-Match header; expect quoted"):
		return "ifmatch-quote"
	case strings.HasPrefix(m, "malformed If-Match header; expect format"):
		return "ifmatch-format"
	case strings.HasPrefix(m, "If-Match header did not match"):
		return "precondition"
	case strings.HasPrefix(m, "final element is not an array"):
		return "notarray"
	case strings.HasPrefix(m, "invalid traversal path"):
		return "traversal"
	case strings.HasPrefix(m, "method ") && strings.HasSuffix(m, "not allowed"):
		return "method"
	case strings.HasPrefix(m, "[") && strings.Contains(m, "] invalid array index '"):
		return "badindex"
	case strings.HasPrefix(m, "[") && strings.Contains(m, "] array index out of bounds: "):
		return "oob"
	case strings.HasPrefix(m, "[") && strings.Contains(m, "] key already exists: "):
		return "exists"
	case strings.HasPrefix(m, "[") && strings.Contains(m, "] key does not exist: "):
		return "missing"
	}
	return "other"
}

// splitEtag parses `"<path> <hash>"` (the path may itself contain spaces).
func splitEtag(etag string) (path, hash string, ok bool) {
	if len(etag) < 2 || etag[0] != '"' || etag[len(etag)-1] != '"' {
		return "", "", false
	}
	in := etag[1 : len(etag)-1]
	i := strings.LastIndexByte(in, ' ')
	if i < 0 {
		return "", "", false
	}
	return in[:i], in[i+1:], true
}

// ---------------------------------------------------------------- protocol

type step struct {
	m          string // G P U A D H
	path       string
	body       string // "-" | "!" | tree
	ifm        string
	force      bool
	cacheOther bool
	ct         byte // 0 = application/json, else one of n u x c m i w (see Driver.lean ctOfChar)
	tree       any
	hasVal     bool
}

var contentTypes = map[byte]string{0: "application/json", 'n': "", 'u': "application/json; charset=utf-8",
	'x': "application/jsonx", 'c': "text/plain", 'm': "json", 'i': "text/plain; charset", 'w': "application/c12wrap"}

var methodName = map[string]string{"G": "GET", "P": "POST", "U": "PUT", "A": "PATCH", "D": "DELETE", "H": "HEAD"}

func pathOK(p string) bool {
	if !asciiOnly(p) || !(strings.HasPrefix(p, "/config/") || strings.HasPrefix(p, "/id/") || p == "/load" || p == "/adapt") {
		return false
	}
	for _, seg := range strings.Split(p, "/") {
		if forbiddenName(seg) {
			return false
		}
	}
	return true
}

func isSpaceByte(c byte) bool { return c == ' ' || (c >= 9 && c <= 13) }

func parseStep(s string) (step, bool) {
	f := strings.Split(s, ",")
	if len(f) != 5 {
		return step{}, false
	}
	st := step{m: f[0], body: f[2], ifm: f[3]}
	if _, ok := methodName[st.m]; !ok {
		return st, false
	}
	p, err := core.UnHex(f[1])
	if err != nil || !pathOK(p) {
		return st, false
	}
	st.path = p
	if p == "/adapt" && st.m == "P" && st.body == "-" {
		// not a function of the request: handleAdapt hands buf.Bytes() of a pooled buffer to
		// json.RawMessage, which encodes nil (a buffer never written to) as null and an empty
		// non-nil slice (a reused buffer) as nothing -> 200 {"result":null} or 500
		return st, false
	}
	switch st.body {
	case "-", "!":
	default:
		t, ok := parseTree(st.body)
		if !ok {
			return st, false
		}
		st.tree, st.hasVal = t, true
	}
	if fl := f[4]; fl != "-" {
		lead := false
		if strings.HasPrefix(fl, "f") {
			st.force, lead = true, true
			fl = fl[1:]
		} else if strings.HasPrefix(fl, "F") {
			// Cache-Control: "no-cache, must-revalidate": not the exact value the handlers compare with
			st.cacheOther, lead = true, true
			fl = fl[1:]
		}
		switch {
		case fl == "" && lead:
		case len(fl) == 1 && strings.Contains("nuxcmiw", fl):
			st.ct = fl[0]
		default:
			return st, false
		}
	}
	// If-Match syntax (resolution against earlier steps happens at run time)
	im := st.ifm
	switch {
	case im == "-":
	case strings.HasPrefix(im, "e"):
		if _, err := strconv.ParseUint(im[1:], 10, 31); err != nil || !allDigits(im[1:]) {
			return st, false
		}
	case strings.HasPrefix(im, "p"):
		a := strings.Split(im[1:], ".")
		if len(a) != 2 || !allDigits(a[0]) {
			return st, false
		}
		if _, err := strconv.ParseUint(a[0], 10, 31); err != nil {
			return st, false
		}
		p, err := core.UnHex(a[1])
		if err != nil || !asciiOnly(p) {
			return st, false
		}
	case strings.HasPrefix(im, "w"):
		p, err := core.UnHex(im[1:])
		if err != nil || p == "" || !asciiOnly(p) || strings.IndexFunc(p, func(r rune) bool { return isSpaceByte(byte(r)) }) >= 0 {
			return st, false
		}
	case strings.HasPrefix(im, "r"):
		b, err := core.UnHex(im[1:])
		if err != nil || b == "" || !asciiOnly(b) {
			return st, false
		}
		if len(b) >= 2 && b[0] == '"' && b[len(b)-1] == '"' && len(asciiFields(b[1:len(b)-1])) == 2 {
			return st, false
		}
	default:
		return st, false
	}
	return st, true
}

func asciiFields(s string) []string {
	return strings.FieldsFunc(s, func(r rune) bool { return r < 128 && isSpaceByte(byte(r)) })
}

type etagRec struct {
	ok         bool
	path, hash string
	body       []byte // what that GET returned
}

// header resolves the symbolic If-Match of a step against the ETags seen so far.
func (st step) header(etags []etagRec) (hdr string, ref *etagRec, refPath string) {
	im := st.ifm
	switch {
	case im == "-":
		return "", nil, ""
	case im[0] == 'e':
		k, _ := strconv.Atoi(im[1:])
		if k < len(etags) && etags[k].ok {
			e := etags[k]
			return `"` + e.path + " " + e.hash + `"`, &e, e.path
		}
		return "", nil, ""
	case im[0] == 'p':
		a := strings.Split(im[1:], ".")
		k, _ := strconv.Atoi(a[0])
		p, _ := core.UnHex(a[1])
		if k < len(etags) && etags[k].ok {
			e := etags[k]
			return `"` + p + " " + e.hash + `"`, &e, p
		}
		return "", nil, ""
	case im[0] == 'w':
		p, _ := core.UnHex(im[1:])
		return `"` + p + ` 0000000000000000"`, nil, ""
	default:
		b, _ := core.UnHex(im[1:])
		return b, nil, ""
	}
}

func (st step) bodyBytes() []byte {
	switch {
	case st.body == "-":
		return nil
	case st.body == "!":
		return []byte(`{"a":`)
	}
	return []byte(jsonText(st.tree))
}

func (st step) headers(ifMatch string) map[string]string {
	h := map[string]string{}
	if st.m != "G" && st.m != "D" && st.m != "H" {
		if ct := contentTypes[st.ct]; ct != "" {
			h["Content-Type"] = ct
		}
	}
	if st.force {
		h["Cache-Control"] = "must-revalidate"
	} else if st.cacheOther {
		h["Cache-Control"] = "no-cache, must-revalidate"
	}
	if ifMatch != "" {
		h["If-Match"] = ifMatch
	}
	return h
}

// ---------------------------------------------------------------- observation

type observation struct {
	resp    string
	cfg     any    // GET /config/ decoded
	cfgEnc  string // tree encoding of cfg
	ids     string
	idResp  map[string]response
	loads   int
	saved   string // tree of the autosave file, "-" if there is none
	ctx     any    // identity of the running config's context: changes with every load, also of configs without the probe app
	saw     string
	sawTree any
	hasSaw  bool
}

func idTexts(v any, out map[string]bool) {
	switch x := v.(type) {
	case []any:
		for _, e := range x {
			idTexts(e, out)
		}
	case map[string]any:
		for k, e := range x {
			if k == "@id" {
				switch t := e.(type) {
				case string:
					out[t] = true
				case json.Number:
					out[string(t)] = true
				}
				continue
			}
			idTexts(e, out)
		}
	}
}

func showResp(r response, fails *[]core.Failure, what string) string {
	switch {
	case r.hung:
		return "hung"
	case r.status == 301:
		return "r"
	case r.status == 200 && what == "/adapt":
		var out struct {
			Warnings []any           `json:"warnings"`
			Result   json.RawMessage `json:"result"`
		}
		if json.Unmarshal(r.body, &out) != nil {
			return "d:?"
		}
		v, err := decodeJSON(out.Result)
		if err != nil {
			return "d:?"
		}
		if len(out.Warnings) > 0 {
			return "dw:" + encTree(v)
		}
		return "d:" + encTree(v)
	case r.status == 200:
		return "w"
	default:
		return fmt.Sprintf("F%d:%s", r.status, errClass(r.status, r.body))
	}
}

// showGet renders a GET response and checks that the ETag is the hash of the body.
func showGet(r response, fails *[]core.Failure) (string, etagRec) {
	if r.hung || r.status != 200 {
		return showResp(r, fails, ""), etagRec{}
	}
	p, h, ok := splitEtag(r.etag)
	if !ok {
		*fails = append(*fails, core.Failure{Class: "etag-malformed", What: fmt.Sprintf("GET answered 200 with ETag %q", r.etag)})
		return "g:?:?", etagRec{}
	}
	d := xxhash.New()
	d.Write(r.body)
	if want := hex.EncodeToString(d.Sum(nil)); want != h {
		*fails = append(*fails, core.Failure{Class: "etag-not-hash-of-body",
			What: fmt.Sprintf("ETag %q is not the hash (%s) of the returned body %q", r.etag, want, r.body)})
	}
	enc := "-"
	if len(r.body) > 0 {
		v, err := decodeJSON(r.body)
		if err != nil {
			enc = "?"
		} else {
			enc = encTree(v)
		}
	}
	return "g:" + enc + ":" + core.Hex(p), etagRec{ok: true, path: p, hash: h, body: r.body}
}

func observe() (o observation, fails []core.Failure) {
	c := get("/config/")
	if c.status == 200 {
		if v, err := decodeJSON(c.body); err == nil {
			o.cfg = v
			o.cfgEnc = encTree(v)
		} else {
			o.cfgEnc = "?"
		}
	} else {
		o.cfgEnc = "?" + strconv.Itoa(c.status)
	}
	set := map[string]bool{}
	idTexts(o.cfg, set)
	ids := make([]string, 0, len(set))
	for k := range set {
		ids = append(ids, k)
	}
	sort.Strings(ids)
	o.idResp = map[string]response{}
	var parts []string
	for _, id := range ids {
		if ambiguousID(o.cfg, "/id/"+id) {
			// which object /id/ reaches depends on Go's map iteration order
			parts = append(parts, hexOf(id)+"=amb")
			continue
		}
		r := get("/id/" + id)
		o.idResp[id] = r
		s, rec := showGet(r, &fails)
		if rec.ok {
			s = core.Hex(rec.path)
		}
		parts = append(parts, hexOf(id)+"="+s)
	}
	o.ids = strings.Join(parts, ",")
	probeMu.Lock()
	o.loads = probeLoads
	saw := probeSaw
	probeMu.Unlock()
	o.ctx = caddy.ActiveContext().Context
	// what the autosave file holds (unsyncedDecodeAndRun writes every accepted non-null config there)
	o.saved = "-"
	if b, err := os.ReadFile(caddy.ConfigAutosavePath); err == nil {
		if v, err := decodeJSON(b); err == nil {
			o.saved = encTree(v)
		} else {
			o.saved = "?"
		}
	}
	o.saw = "-"
	if saw != nil {
		if v, err := decodeJSON(saw); err == nil {
			o.saw = encTree(v)
			o.sawTree, o.hasSaw = v, true
		} else {
			o.saw = "?"
		}
	}
	return o, fails
}

// ---------------------------------------------------------------- Run

func (prop) Run(line string) core.Outcome {
	setup()
	f := strings.Fields(line)
	switch {
	case len(f) == 2 && f[0] == "hist":
		return runHist(line, f[1])
	case len(f) == 3 && f[0] == "cas":
		return runCAS(f[1], f[2])
	case len(f) == 2 && f[0] == "idrace":
		return runIDRace(f[1])
	case len(f) == 3 && f[0] == "peek":
		return runPeek(f[1], f[2])
	}
	if len(f) == 3 && f[0] == "pull" {
		return runPull(line, f[1], f[2])
	}
	if len(f) == 4 && f[0] == "cli" {
		return runCLI(line, f[1], f[2], f[3])
	}
	if len(f) >= 4 && len(f) <= 6 && f[0] == "gg" {
		return runGG(line, f[1], f[2:])
	}
	if len(f) == 5 && f[0] == "ovl" {
		return runOvl(line, f[1], f[2], f[3], f[4])
	}
	if len(f) == 5 && f[0] == "wire" {
		return runWire(line, f[1], f[2], f[3], f[4])
	}
	if len(f) >= 2 {
		if o, ok := runStrOp(f); ok {
			return o
		}
	}
	return core.Outcome{Impl: "bad-op"}
}

func runHist(line, field string) core.Outcome {
	var steps []step
	for _, s := range strings.Split(field, ";") {
		st, ok := parseStep(s)
		if !ok {
			return core.Outcome{Impl: "bad-op"}
		}
		steps = append(steps, st)
	}
	var o core.Outcome
	tags := map[string]bool{}
	outs, status := playHist(steps, &o, tags)
	if len(outs) > 0 && outs[len(outs)-1] == "hung" {
		// a request that does not return is re-run alone (a loaded machine can stall one)
		// before it is reported; a real deadlock hangs again
		o = core.Outcome{}
		tags = map[string]bool{"rerun-after-hang": true}
		outs, status = playHist(steps, &o, tags)
	}
	o.Impl = strings.Join(outs, ";")

	// ---- two-run relation: a rejected request changes nothing that any later request can see.
	// Replay the history with the first rejected write (preferring one that was rejected after
	// the mutation: by the apps or by the indexer) replaced by a request that cannot touch
	// anything (HEAD -> 405) and compare every other answer.
	rej := -1
	for i, st := range steps {
		if st.m == "G" || st.m == "H" || i >= len(outs) || status[i] == 200 {
			continue
		}
		late := strings.HasPrefix(outs[i], "F500:load") || strings.HasPrefix(outs[i], "F500:index")
		if rej < 0 || (late && !strings.HasPrefix(outs[rej], "F500:load") && !strings.HasPrefix(outs[rej], "F500:index")) {
			rej = i
		}
	}
	if rej >= 0 && len(outs) == len(steps) {
		steps2 := append([]step{}, steps...)
		steps2[rej] = step{m: "H", path: steps[rej].path, body: "-", ifm: "-"}
		var o2 core.Outcome
		outs2, _ := playHist(steps2, &o2, map[string]bool{})
		if len(outs2) > 0 && outs2[len(outs2)-1] == "hung" {
			o2 = core.Outcome{}
			outs2, _ = playHist(steps2, &o2, map[string]bool{})
		}
		tags["two-run"] = true
		for i := range outs {
			if i == rej || i >= len(outs2) || outs[i] == outs2[i] {
				continue
			}
			class := "rejected-request-visible-later"
			for j := 0; j < rej; j++ {
				// a DELETE that was answered 200 and left the whole configuration null removed the
				// "config" key itself (DELETE /config/, /config/..., /id/<root id>/...)
				if f := strings.Split(outs[j], "/"); steps[j].m == "D" && status[j] == 200 && len(f) > 1 && f[1] == "n" {
					class = "rejected-request-recreates-deleted-config-key"
				}
			}
			o.Failures = append(o.Failures, core.Failure{Class: class,
				What: fmt.Sprintf("step %d (%s %s) was rejected (%s); with that request left out, step %d (%s %s) answers %q instead of %q",
					rej, methodName[steps[rej].m], steps[rej].path, strings.SplitN(outs[rej], "/", 2)[0], i, methodName[steps[i].m], steps[i].path,
					strings.SplitN(outs2[i], "/", 2)[0], strings.SplitN(outs[i], "/", 2)[0])})
			break
		}
	}

	for t := range tags {
		o.Tags = append(o.Tags, t)
	}
	sort.Strings(o.Tags)
	if len(steps) < 2 {
		o.Tags = append(o.Tags, "trivial")
	}
	for i := range o.Failures {
		o.Failures[i].Case = line
	}
	return o
}

// playHist runs a history from a fresh state; returns the per-step answers and HTTP statuses.
func playHist(steps []step, o *core.Outcome, tags map[string]bool) (outs []string, status []int) {
	reset()
	var etags []etagRec
	prev, pf := observe()
	o.Failures = append(o.Failures, pf...)
	allLoads := 0 // how often a config was started (any config: the context of the running config changed)
	for i, st := range steps {
		hdr, ref, refPath := st.header(etags)
		var pre *response
		if ref != nil && st.m != "G" && st.m != "H" && strings.HasPrefix(refPath, "/config/") {
			// what is at the ETag's path right now? (oracle for the If-Match clause)
			r := get(refPath)
			pre = &r
		}
		if strings.HasPrefix(st.path, "/id/") {
			if ambiguousID(prev.cfg, st.path) {
				// ambiguous id: the answer is not a function of the history; not executed
				status = append(status, 0)
				etags = append(etags, etagRec{})
				tags["resp:amb"] = true
				if st.m == "G" || st.m == "H" {
					outs = append(outs, "amb")
				} else {
					outs = append(outs, "amb/"+prev.cfgEnc+"/"+prev.ids+"/"+strconv.Itoa(prev.loads)+"/"+prev.saw+"/"+strconv.Itoa(allLoads)+"/"+prev.saved)
				}
				continue
			}
		}
		r := do(methodName[st.m], st.path, st.bodyBytes(), st.headers(hdr))
		warned, errAfter := false, false
		if st.path == "/load" {
			if r, warned, errAfter = splitWarnings(r); errAfter {
				tags["load:warned-then-rejected"] = true
				o.Failures = append(o.Failures, core.Failure{Class: "rejected-load-with-adapter-warnings-answered-200",
					What: fmt.Sprintf("step %d: POST /load (Content-Type %s) was rejected (%s) but the client was answered 200: the adapter's warnings had been written to the response before caddy.Load ran",
						i, contentTypes[st.ct], errClass(r.status, r.body))})
			}
		}
		status = append(status, r.status)
		if r.hung {
			o.Failures = append(o.Failures, core.Failure{Class: "request-hung", What: fmt.Sprintf("step %d did not return within 45s", i)})
			outs = append(outs, "hung")
			break
		}
		var rec etagRec
		var s string
		if st.m == "G" {
			s, rec = showGet(r, &o.Failures)
			oracleGet(st, r, prev, &o.Failures)
		} else {
			s = showResp(r, &o.Failures, st.path)
			if warned && errAfter {
				s = "W200:" + strings.TrimPrefix(classOf(s), ":")
			} else if warned {
				s = "ww"
				tags["load:warned"] = true
			}
		}
		etags = append(etags, rec)
		tags["m:"+st.m] = true
		tags["resp:"+strings.SplitN(s, ":", 2)[0]+classOf(s)] = true
		if st.m == "G" || st.m == "H" {
			outs = append(outs, s)
			continue
		}
		cur, cf := observe()
		o.Failures = append(o.Failures, cf...)
		reloaded := cur.ctx != prev.ctx
		if reloaded {
			allLoads++
		}
		oracleWrite(st, r, hdr, ref, pre, prev, cur, &o.Failures, tags)
		if r.status == 200 && st.path != "/adapt" && !reloaded && (st.force || cur.cfgEnc != prev.cfgEnc) {
			o.Failures = append(o.Failures, core.Failure{Class: "config-changed-without-load",
				What: fmt.Sprintf("%s %s changed the document (or forced a reload) but no configuration was started", methodName[st.m], st.path)})
		}
		// (the very first load of a process is a load even of the null config: nothing was running)
		if reloaded && (r.status != 200 || (!st.force && cur.cfgEnc == prev.cfgEnc && prev.ctx != nil)) {
			o.Failures = append(o.Failures, core.Failure{Class: "unchanged-config-reloaded",
				What: fmt.Sprintf("%s %s (answered %d) left the document unchanged without asking for a reload, but a configuration was started", methodName[st.m], st.path, r.status)})
		}
		// persistence: the autosave file is the last accepted non-null document, @id and all
		if reloaded && cur.cfg != nil && cur.saved != cur.cfgEnc {
			o.Failures = append(o.Failures, core.Failure{Class: "autosave-is-not-the-document",
				What: fmt.Sprintf("%s %s was accepted; GET /config/ gives %s but the autosave file holds %s", methodName[st.m], st.path, cur.cfgEnc, cur.saved)})
		}
		if !reloaded && cur.saved != prev.saved {
			o.Failures = append(o.Failures, core.Failure{Class: "autosave-written-without-load",
				What: fmt.Sprintf("%s %s (answered %d) started no configuration but the autosave file changed", methodName[st.m], st.path, r.status)})
		}
		outs = append(outs, s+"/"+cur.cfgEnc+"/"+cur.ids+"/"+strconv.Itoa(cur.loads)+"/"+cur.saw+"/"+strconv.Itoa(allLoads)+"/"+cur.saved)
		prev = cur
	}
	return outs, status
}

// indexKey is the key indexConfigObjects files an @id value under.
func indexKey(v any) (string, bool) {
	switch t := v.(type) {
	case string:
		return t, true
	case json.Number:
		f, err := strconv.ParseFloat(string(t), 64)
		if err != nil {
			return "", false
		}
		return strconv.FormatFloat(f, 'f', -1, 64), true // plain decimal notation
	}
	return "", false
}

// idCandidates counts the objects of cfg whose @id is indexed under key.
func idCandidates(cfg any, key string) int {
	n := 0
	var walk func(v any)
	walk = func(v any) {
		switch x := v.(type) {
		case []any:
			for _, e := range x {
				walk(e)
			}
		case map[string]any:
			for k, e := range x {
				if k == "@id" {
					if ik, ok := indexKey(e); ok && ik == key {
						n++
					}
					continue
				}
				walk(e)
			}
		}
	}
	walk(cfg)
	return n
}

// ambiguousID: the mux hands the path to handleConfigID and the id it names (the third
// path element) is carried by more than one object.
func ambiguousID(cfg any, p string) bool {
	if !routesToID(p) {
		return false
	}
	parts := strings.Split(p, "/")
	return len(parts) >= 3 && parts[2] != "" && idCandidates(cfg, parts[2]) > 1
}

// routesToID: the mux hands the path to handleConfigID (it is clean).
func routesToID(p string) bool {
	c := path.Clean(p)
	if strings.HasSuffix(p, "/") && c != "/" {
		c += "/"
	}
	return c == p
}

func classOf(s string) string {
	if strings.HasPrefix(s, "F") {
		if i := strings.IndexByte(s, ':'); i > 0 {
			return ":" + s[i+1:]
		}
	}
	return ""
}

// runCAS: k goroutines × n increments of a counter through GET + If-Match PATCH, retrying on 412.
func runCAS(ks, ns string) core.Outcome {
	k, e1 := strconv.Atoi(ks)
	n, e2 := strconv.Atoi(ns)
	if e1 != nil || e2 != nil || k < 1 || k > 64 || n < 1 || n > 1000 || !allDigits(ks) || !allDigits(ns) {
		return core.Outcome{Impl: "bad-op"}
	}
	reset()
	line := "cas " + ks + " " + ns
	o := core.Outcome{Tags: []string{"cas"}}
	if r := do("POST", "/config/", []byte(`{"apps":{"c12":{"n":0}}}`), map[string]string{"Content-Type": "application/json"}); r.status != 200 {
		o.Impl = "cas setup " + strconv.Itoa(r.status)
		return o
	}
	const p = "/config/apps/c12/n"
	var wg sync.WaitGroup
	var mu sync.Mutex
	successes, conflicts, other := 0, 0, 0
	for c := 0; c < k; c++ {
		wg.Add(1)
		go func() {
			defer wg.Done()
			for i := 0; i < n; i++ {
				for try := 0; try < 100000; try++ {
					g := get(p)
					if g.status != 200 {
						mu.Lock()
						other++
						mu.Unlock()
						return
					}
					cur, err := strconv.Atoi(strings.TrimSpace(string(g.body)))
					if err != nil {
						mu.Lock()
						other++
						mu.Unlock()
						return
					}
					w := do("PATCH", p, []byte(strconv.Itoa(cur+1)), map[string]string{"Content-Type": "application/json", "If-Match": g.etag})
					mu.Lock()
					switch w.status {
					case 200:
						successes++
					case 412:
						conflicts++
					default:
						other++
					}
					mu.Unlock()
					if w.status == 200 {
						break
					}
					if w.status != 412 {
						return
					}
				}
			}
		}()
	}
	done := make(chan struct{})
	go func() { wg.Wait(); close(done) }()
	select {
	case <-done:
	case <-time.After(120 * time.Second):
		o.Impl = "cas hung"
		o.Failures = append(o.Failures, core.Failure{Case: line, Class: "request-hung", What: "concurrent writers did not finish"})
		return o
	}
	g := get(p)
	final, _ := strconv.Atoi(strings.TrimSpace(string(g.body)))
	if conflicts > 0 {
		o.Tags = append(o.Tags, "cas-conflicts>0")
	}
	if final != successes || other != 0 {
		o.Failures = append(o.Failures, core.Failure{Case: line, Class: "lost-update",
			What: fmt.Sprintf("%d clients x %d conditional increments: %d writes were acknowledged (200), %d refused (412), %d other; the counter ends at %d", k, n, successes, conflicts, other, final)})
	}
	o.Impl = "cas " + strconv.Itoa(final)
	return o
}

// runIDRace samples, on the real handler, what Regions.lean says about /id/ requests: the index
// read (handleConfigID) and the write (changeConfig after the internal redirect) are two critical
// sections. One goroutine POSTs through /id/x/v, another keeps inserting an object in front of the
// tagged one and deleting it again; an insert that slips between the two sections makes the write
// land in the inserted object. The answer line is constant (the race is not a function of the
// input); a hit only shows as tag `idrace:hit`, and what is asserted is what holds in every
// interleaving: each state is a document in which "x" tags exactly one object.
func runIDRace(ns string) core.Outcome {
	n, err := strconv.Atoi(ns)
	if err != nil || n < 1 || n > 2000 || !allDigits(ns) {
		return core.Outcome{Impl: "bad-op"}
	}
	reset()
	o := core.Outcome{Impl: "idrace", Tags: []string{"idrace"}}
	js := map[string]string{"Content-Type": "application/json"}
	if r := do("POST", "/config/", []byte(`{"apps":{"c12":{"a":[{"@id":"x","v":0}]}}}`), js); r.status != 200 {
		o.Impl = "idrace setup " + strconv.Itoa(r.status)
		return o
	}
	var wg sync.WaitGroup
	stop := make(chan struct{})
	hits, stale, bad := 0, 0, ""
	wg.Add(2)
	go func() {
		defer wg.Done()
		defer close(stop)
		for i := 1; i <= n; i++ {
			// a stale resolution can also point past the end of the array (the inserted object was
			// deleted between the two sections): answered 500 "array index out of bounds"
			if r := do("POST", "/id/x/v", []byte(strconv.Itoa(i)), js); r.status != 200 {
				if r.status == 500 && strings.Contains(string(r.body), "array index out of bounds") {
					stale++
					continue
				}
				bad = fmt.Sprintf("POST /id/x/v answered %d %s", r.status, r.body)
				return
			}
		}
	}()
	go func() {
		defer wg.Done()
		for {
			select {
			case <-stop:
				return
			default:
			}
			do("PUT", "/config/apps/c12/a/0", []byte(`{"f":1}`), js)
			if g := get("/config/apps/c12/a/0"); strings.Contains(string(g.body), `"v"`) && strings.Contains(string(g.body), `"f"`) {
				hits++
			}
			do("DELETE", "/config/apps/c12/a/0", nil, nil)
		}
	}()
	done := make(chan struct{})
	go func() { wg.Wait(); close(done) }()
	select {
	case <-done:
	case <-time.After(120 * time.Second):
		o.Failures = append(o.Failures, core.Failure{Case: "idrace " + ns, Class: "request-hung", What: "id race run did not finish"})
		return o
	}
	if hits > 0 {
		o.Tags = append(o.Tags, "idrace:hit")
	}
	if stale > 0 {
		o.Tags = append(o.Tags, "idrace:stale-index")
	}
	g := get("/config/apps/c12/a")
	v, derr := decodeJSON(g.body)
	arr, _ := v.([]any)
	tagged := 0
	for _, e := range arr {
		if m, ok := e.(map[string]any); ok && m["@id"] == "x" {
			tagged++
		}
	}
	if bad != "" || derr != nil || tagged != 1 {
		o.Failures = append(o.Failures, core.Failure{Case: "idrace " + ns, Class: "id-race-corrupted-document",
			What: fmt.Sprintf("after concurrent /id/ writes and inserts: %s; /config/apps/c12/a = %s", bad, g.body)})
	}
	return o
}

// runPeek: a rejected request is never visible, not even while it is being processed.
// changeConfig mutates rawCfg in place, runs the new config and only then restores the old
// tree; all of that is one write-locked critical section (Regions.lean: the states other
// requests can see are the states between regions). One goroutine sends n writes that the
// probe app rejects (and n that the indexer rejects); k readers GET /config/ all the time and
// must never see a trace of them.
func runPeek(ks, ns string) core.Outcome {
	k, e1 := strconv.Atoi(ks)
	n, e2 := strconv.Atoi(ns)
	if e1 != nil || e2 != nil || k < 1 || k > 32 || n < 1 || n > 2000 || !allDigits(ks) || !allDigits(ns) {
		return core.Outcome{Impl: "bad-op"}
	}
	reset()
	line := "peek " + ks + " " + ns
	o := core.Outcome{Impl: "peek", Tags: []string{"peek"}}
	js := map[string]string{"Content-Type": "application/json"}
	const doc = `{"apps":{"c12":{"a":[1,2,3],"b":{"c":true}}}}`
	if r := do("POST", "/config/", []byte(doc), js); r.status != 200 {
		o.Impl = "peek setup " + strconv.Itoa(r.status)
		return o
	}
	want := get("/config/")
	stop := make(chan struct{})
	var wg sync.WaitGroup
	var mu sync.Mutex
	seen, reads := "", 0
	for i := 0; i < k; i++ {
		wg.Add(1)
		go func() {
			defer wg.Done()
			for {
				select {
				case <-stop:
					return
				default:
				}
				g := get("/config/")
				mu.Lock()
				reads++
				if g.status != 200 || !bytes.Equal(g.body, want.body) || g.etag != want.etag {
					if seen == "" {
						seen = fmt.Sprintf("status %d, ETag %s, body %s", g.status, g.etag, g.body)
					}
				}
				mu.Unlock()
			}
		}()
	}
	notRejected := 0
	for i := 0; i < n; i++ {
		if r := do("PUT", "/config/apps/c12/reject", []byte("true"), js); r.status == 200 {
			notRejected++
		}
		if r := do("POST", "/config/apps/c12/a", []byte(`{"@id":true}`), js); r.status == 200 {
			notRejected++
		}
	}
	close(stop)
	wg.Wait()
	if reads > 0 {
		o.Tags = append(o.Tags, "peek:reads>0")
	}
	if notRejected > 0 {
		o.Failures = append(o.Failures, core.Failure{Case: line, Class: "peek-write-not-rejected",
			What: fmt.Sprintf("%d of the writes that must be rejected were answered 200", notRejected)})
	}
	if seen != "" {
		o.Failures = append(o.Failures, core.Failure{Case: line, Class: "rejected-request-visible-to-concurrent-reader",
			What: "while requests that end up rejected were being processed, a concurrent GET /config/ returned " + seen + " instead of " + string(want.body)})
	}
	return o
}

// nestingWriter is the ResponseWriter of GET A in runGG: when the handler hands it the body (its
// first Write), it first serves complete GETs of the other paths through the same handler, on
// the same goroutine, and only then looks at the bytes it was given - like a slow client whose
// response is still being written while other requests come and go.
type nestingWriter struct {
	*httptest.ResponseRecorder
	nested func()
	done   bool
}

func (w *nestingWriter) Write(b []byte) (int, error) {
	if !w.done {
		w.done = true
		w.nested()
	}
	return w.ResponseRecorder.Write(b)
}

// runGG: overlapping GETs. Each GET has to answer the value at its own path, with the ETag of the
// bytes it sends, whatever other reads overlap with it.
func runGG(line, doc string, hexPaths []string) core.Outcome {
	tree, ok := parseTree(doc)
	if !ok {
		return core.Outcome{Impl: "bad-op"}
	}
	var paths []string
	for _, h := range hexPaths {
		p, err := core.UnHex(h)
		if err != nil || !pathOK(p) {
			return core.Outcome{Impl: "bad-op"}
		}
		paths = append(paths, p)
	}
	reset()
	o := core.Outcome{Tags: []string{"gg"}}
	do("POST", "/config/", []byte(jsonText(tree)), map[string]string{"Content-Type": "application/json"})
	// what each path answers when it is asked alone
	alone := make([]response, len(paths))
	for i, p := range paths {
		alone[i] = get(p)
	}
	serveGET := func(p string, w http.ResponseWriter) {
		r := httptest.NewRequest("GET", "http://localhost/", nil)
		r.URL.Path, r.URL.RawPath, r.RequestURI = p, "", p
		handler.ServeHTTP(w, r)
	}
	toResp := func(rec *httptest.ResponseRecorder) response {
		b, _ := io.ReadAll(rec.Body)
		return response{status: rec.Code, body: b, etag: rec.Header().Get("Etag")}
	}
	over := make([]response, len(paths))
	done := make(chan struct{})
	go func() {
		defer close(done)
		defer func() {
			if p := recover(); p != nil {
				over[0] = response{status: 599, body: []byte(fmt.Sprint("panic: ", p))}
			}
		}()
		// twice: the first round leaves the buffers of the pool where the second finds them
		for round := 0; round < 2; round++ {
			w := &nestingWriter{ResponseRecorder: httptest.NewRecorder()}
			w.nested = func() {
				for i := 1; i < len(paths); i++ {
					rec := httptest.NewRecorder()
					serveGET(paths[i], rec)
					over[i] = toResp(rec)
				}
			}
			serveGET(paths[0], w)
			over[0] = toResp(w.ResponseRecorder)
		}
	}()
	select {
	case <-done:
	case <-time.After(45 * time.Second):
		o.Impl = "hung"
		o.Failures = append(o.Failures, core.Failure{Case: line, Class: "request-hung", What: "overlapping GETs did not return"})
		return o
	}
	var outs []string
	for i, r := range over {
		s, _ := showGet(r, &o.Failures)
		outs = append(outs, s)
		if r.status != alone[i].status || !bytes.Equal(r.body, alone[i].body) || r.etag != alone[i].etag {
			o.Failures = append(o.Failures, core.Failure{Class: "overlapping-get-wrong-answer",
				What: fmt.Sprintf("GET %s, overlapping with GETs of %v, answered status %d ETag %s body %q; asked alone it answers status %d ETag %s body %q",
					paths[i], paths, r.status, r.etag, r.body, alone[i].status, alone[i].etag, alone[i].body)})
		}
		if len(r.body) > 0 {
			o.Tags = append(o.Tags, "gg:body")
		}
	}
	for i := range o.Failures {
		o.Failures[i].Case = line
	}
	o.Impl = strings.Join(outs, "|")
	return o
}
