package c12

// The byte-level Lean models of the standard-library functions the config model relies on
// (path.Clean, path.Join, strings.Fields, strconv.Atoi/Itoa, ServeMux dispatch over the admin
// patterns) against the real functions: these are what /id/ expansion, If-Match parsing, array
// indices and routing are made of.

import (
	"net/http"
	"net/http/httptest"
	"path"
	"strconv"
	"strings"
	"sync"

	"verif/harness/internal/core"
)

var (
	muxOnce  sync.Once
	adminMux *http.ServeMux
)

// the patterns newAdminHandler and caddyconfig register (see Gen/ConfigLocks.lean adminRoutes)
func theMux() *http.ServeMux {
	muxOnce.Do(func() {
		adminMux = http.NewServeMux()
		for pat, name := range map[string]string{"/config/": "config", "/id/": "id", "/load": "load", "/adapt": "adapt",
			"/stop": "none", "/debug/pprof/": "none", "/debug/pprof/cmdline": "none", "/debug/pprof/profile": "none",
			"/debug/pprof/symbol": "none", "/debug/pprof/trace": "none", "/debug/vars": "none"} {
			n := name
			adminMux.HandleFunc(pat, func(w http.ResponseWriter, _ *http.Request) { w.Header().Set("X-Which", n) })
		}
	})
	return adminMux
}

func runStrOp(f []string) (core.Outcome, bool) {
	arg := func(i int) (string, bool) {
		if i >= len(f) {
			return "", false
		}
		s, err := core.UnHex(f[i])
		return s, err == nil
	}
	bad := core.Outcome{Impl: "bad-op"}
	tag := []string{"strop:" + f[0]}
	switch {
	case f[0] == "clean" && len(f) == 2:
		p, ok := arg(1)
		if !ok || !strings.HasPrefix(p, "/") {
			return bad, true
		}
		return core.Outcome{Impl: "ok " + core.Hex(path.Clean(p)), Tags: tag}, true
	case f[0] == "join" && len(f) == 3:
		a, ok1 := arg(1)
		b, ok2 := arg(2)
		if !ok1 || !ok2 || !strings.HasPrefix(a, "/") {
			return bad, true
		}
		return core.Outcome{Impl: "ok " + core.Hex(path.Join(a, b)), Tags: tag}, true
	case f[0] == "fields" && len(f) == 2:
		s, ok := arg(1)
		if !ok || !asciiOnly(s) {
			return bad, true
		}
		var hs []string
		for _, x := range strings.Fields(s) {
			hs = append(hs, core.Hex(x))
		}
		return core.Outcome{Impl: "ok " + strings.Join(hs, ","), Tags: tag}, true
	case f[0] == "atoi" && len(f) == 2:
		s, ok := arg(1)
		if !ok {
			return bad, true
		}
		n, err := strconv.Atoi(s)
		if err != nil {
			return core.Outcome{Impl: "err", Tags: append(tag, "atoi:err")}, true
		}
		return core.Outcome{Impl: "ok " + strconv.Itoa(n), Tags: tag}, true
	case f[0] == "itoa" && len(f) == 2:
		n, err := strconv.ParseUint(f[1], 10, 62)
		if err != nil || !allDigits(f[1]) {
			return bad, true
		}
		return core.Outcome{Impl: "ok " + core.Hex(strconv.Itoa(int(n))), Tags: tag}, true
	case f[0] == "route" && len(f) == 2:
		p, ok := arg(1)
		if !ok || p == "" || !asciiOnly(p) {
			return bad, true
		}
		r := httptest.NewRequest("GET", "http://localhost/", nil)
		r.URL.Path, r.URL.RawPath, r.RequestURI = p, "", p
		w := httptest.NewRecorder()
		theMux().ServeHTTP(w, r)
		res := w.Header().Get("X-Which")
		switch {
		case w.Code == 301 || w.Code == 307 || w.Code == 308:
			res = "redirect"
		case w.Code == 404 || res == "":
			res = "none"
		}
		return core.Outcome{Impl: res, Tags: append(tag, "route:"+res)}, true
	}
	return bad, false
}

var strAlphabets = []string{"/", "/", ".", "..", "a", "b", "config", "id", "load", "adapt", "...", " ", "%", "0", "//", "/./", "@id"}

func (g *gen) strOps(n int, emit func(string)) {
	piece := func(max int) string {
		var sb strings.Builder
		for i := g.rng.Intn(max + 1); i > 0; i-- {
			sb.WriteString(g.rng.Pick(strAlphabets))
		}
		return sb.String()
	}
	for i := 0; i < n; i++ {
		switch g.rng.Intn(6) {
		case 0:
			emit("clean " + core.Hex("/"+piece(8)))
		case 1:
			emit("join " + core.Hex("/"+piece(5)) + " " + core.Hex(piece(4)))
		case 2:
			var sb strings.Builder
			for j := g.rng.Intn(7); j > 0; j-- {
				sb.WriteString(g.rng.Pick([]string{" ", "\t", "\n", "\v", "\f", "\r", "a", "/config/x", "0f", "\"", "\x00", "\x1c", "\x7f"}))
			}
			emit("fields " + core.Hex(sb.String()))
		case 3:
			var sb strings.Builder
			for j := g.rng.Intn(5); j > 0; j-- {
				sb.WriteString(g.rng.Pick([]string{"0", "1", "9", "-", "+", "_", " ", "922337203685477580", "7", "8", "a", "00"}))
			}
			emit("atoi " + core.Hex(sb.String()))
		case 4:
			emit("itoa " + strconv.Itoa(g.rng.Intn(1<<uint(g.rng.Intn(40)))))
		case 5:
			emit("route " + core.Hex("/"+piece(6)))
		}
	}
}
